"""Spec loader shared by bin/check and bin/mkmanifest.

specs/Cxx.json is the spec of property Cxx.  Work packages add to it WITHOUT editing it (no merge conflicts between
packages that extend the same property) by dropping fragments specs/Cxx.d/<package>.json:
  { "modules": [...], "obligation_modules": [...], "gen_modules": [...], "trusted": [...], "assumptions": [...],
    "text_append": "...", "level_note_append": "...", "technique_append": "...", "known_findings": [...] }
List fields are appended (duplicates dropped, order kept), *_append strings are appended to the manifest texts."""
import json, os, glob

def load_spec(root, pid):
    path = os.path.join(root, "specs", pid + ".json")
    if not os.path.exists(path):
        return None
    s = json.load(open(path))
    for fp in sorted(glob.glob(os.path.join(root, "specs", pid + ".d", "*.json"))):
        f = json.load(open(fp))
        for k in ("modules", "obligation_modules", "gen_modules", "trusted", "assumptions", "known_findings"):
            for x in f.get(k, []):
                if x not in s.setdefault(k, []):
                    s[k].append(x)
        m = s.setdefault("manifest", {})
        for k, mk in (("text_append", "text"), ("level_note_append", "level_note"), ("technique_append", "technique")):
            if f.get(k):
                m[mk] = (m.get(mk, "") + " " + f[k]).strip()
    return s
