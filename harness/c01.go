package main

// C01 — QR Code: what is written is what is read.
//   ORACLE (real code only): read(write(t)) == t, format QR_CODE, same EC level, by both paths
//     A: encoder.Encoder_encode -> module matrix -> decoder.Decoder.Decode
//     B: qrcode.QRCodeWriter.Encode -> image -> BinaryBitmap -> QRCodeReader.Decode(PURE_BARCODE)
//   CORRESPONDENCE: the Go decoder layers (format/version read, raw codewords, de-interleaved blocks,
//     parsed segments, whole decode incl. mirrored retry) vs the Lean decoder model on those matrices.

import (
	"fmt"
	"strings"
	"sync"
	"unicode/utf8"

	"golang.org/x/text/encoding/japanese"

	"github.com/makiuchi-d/gozxing"
	"github.com/makiuchi-d/gozxing/common"
	"github.com/makiuchi-d/gozxing/qrcode"
	"github.com/makiuchi-d/gozxing/qrcode/decoder"
	"github.com/makiuchi-d/gozxing/qrcode/encoder"
)

func init() { suites["C01"] = runC01 }

const c01Alnum = "0123456789ABCDEFGHIJKLMNOPQRSTUVWXYZ $%*+-./:"

var (
	c01KanjiOnce sync.Once
	c01Kanji     []rune
)

// runes whose Shift_JIS form is a double-byte character that Kanji mode can carry and that x/text round-trips
func c01KanjiRunes() []rune {
	c01KanjiOnce.Do(func() {
		dec := japanese.ShiftJIS.NewDecoder()
		enc := japanese.ShiftJIS.NewEncoder()
		for lead := 0x81; lead <= 0xEA; lead++ {
			if lead > 0x9F && lead < 0xE0 {
				continue
			}
			for trail := 0x40; trail <= 0xFC; trail++ {
				if trail == 0x7F {
					continue
				}
				b := []byte{byte(lead), byte(trail)}
				s, e := dec.Bytes(b)
				if e != nil || !utf8.Valid(s) || strings.ContainsRune(string(s), utf8.RuneError) {
					continue
				}
				back, e := enc.Bytes(s)
				if e != nil || len(back) != 2 || back[0] != b[0] || back[1] != b[1] {
					continue
				}
				rs := []rune(string(s))
				if len(rs) == 1 {
					c01Kanji = append(c01Kanji, rs[0])
				}
			}
		}
	})
	return c01Kanji
}

func c01Digits(r *Rng, n int) string {
	b := make([]byte, n)
	for i := range b {
		b[i] = byte('0' + r.Intn(10))
	}
	return string(b)
}

func c01AlnumText(r *Rng, n int) string {
	b := make([]byte, n)
	for i := range b {
		b[i] = c01Alnum[r.Intn(45)]
	}
	// at least one non-digit, otherwise the encoder (rightly) chooses numeric mode
	b[r.Intn(n)] = c01Alnum[10+r.Intn(35)]
	return string(b)
}

func c01RuneOfLen(r *Rng, l int) rune {
	switch l {
	case 1:
		return rune(r.Range(0x20, 0x7E))
	case 2:
		return rune(r.Range(0x80, 0x7FF))
	case 3:
		for {
			c := rune(r.Range(0x800, 0xFFFF))
			if c < 0xD800 || c > 0xDFFF {
				return c
			}
		}
	}
	return rune(r.Range(0x10000, 0x10FFFF))
}

// valid UTF-8 of exactly n bytes that forces byte mode (contains a lower-case letter)
func c01ByteText(r *Rng, n int) string {
	var sb strings.Builder
	sb.WriteByte(byte('a' + r.Intn(26)))
	left := n - 1
	for left > 0 {
		l := r.Range(1, 4)
		if l > left {
			l = left
		}
		if r.Chance(0.5) {
			l = 1
		}
		sb.WriteRune(c01RuneOfLen(r, l))
		left -= l
	}
	return sb.String()
}

func c01KanjiText(r *Rng, n int) string {
	ks := c01KanjiRunes()
	rs := make([]rune, n)
	for i := range rs {
		rs[i] = ks[r.Intn(len(ks))]
	}
	return string(rs)
}

func c01CountBits(mode string, v int) int {
	k := 0
	if v > 9 {
		k = 1
	}
	if v > 26 {
		k = 2
	}
	switch mode {
	case "N":
		return []int{10, 12, 14}[k]
	case "A":
		return []int{9, 11, 13}[k]
	case "B":
		return []int{8, 16, 16}[k]
	}
	return []int{8, 10, 12}[k]
}

func c01DataBits(mode string, n int) int {
	switch mode {
	case "N":
		return 10*(n/3) + []int{0, 4, 7}[n%3]
	case "A":
		return 11*(n/2) + 6*(n%2)
	case "B":
		return 8 * n
	}
	return 13 * n
}

// capacity in characters (bytes for byte mode) of (version, level, mode), from ISO 18004's bit budget
func c01Capacity(v int, ec decoder.ErrorCorrectionLevel, mode string, headerBits int) int {
	ver, _ := decoder.Version_GetVersionForNumber(v)
	dataBits := 8 * (ver.GetTotalCodewords() - ver.GetECBlocksForLevel(ec).GetTotalECCodewords())
	n := 0
	for headerBits+4+c01CountBits(mode, v)+c01DataBits(mode, n+1) <= dataBits && n+1 < 1<<uint(c01CountBits(mode, v)) {
		n++
	}
	return n
}

func c01Gen(r *Rng, mode string, n int) string {
	switch mode {
	case "N":
		return c01Digits(r, n)
	case "A":
		return c01AlnumText(r, n)
	case "B":
		return c01ByteText(r, n)
	}
	return c01KanjiText(r, n)
}

var c01ModeName = map[string]string{"N": "NUMERIC", "A": "ALPHANUMERIC", "B": "BYTE", "K": "KANJI"}

type c01Case struct {
	text    string
	ec      decoder.ErrorCorrectionLevel
	version int // 0 = automatic
	mask    int // -1 = automatic
	charset string
	margin  int
	w, h    int
	wantMode string
	tag     string
	layers  bool
}

func (k *c01Case) hints() map[gozxing.EncodeHintType]interface{} {
	h := map[gozxing.EncodeHintType]interface{}{}
	if k.version > 0 {
		h[gozxing.EncodeHintType_QR_VERSION] = k.version
	}
	if k.mask >= 0 {
		h[gozxing.EncodeHintType_QR_MASK_PATTERN] = k.mask
	}
	if k.charset != "" {
		h[gozxing.EncodeHintType_CHARACTER_SET] = k.charset
	}
	return h
}

func (k *c01Case) String() string {
	return fmt.Sprintf("text=%s ec=%s version=%d mask=%d charset=%q margin=%d size=%dx%d", hexs([]byte(k.text)), k.ec.String(),
		k.version, k.mask, k.charset, k.margin, k.w, k.h)
}

func c01RunCase(c *Ctx, k *c01Case) {
	in := k.String()
	c.Note("mode:" + k.wantMode)
	c.Note("ec:" + k.ec.String())
	c.Note(fmt.Sprintf("version-hint:%d", k.version))
	c.Note(fmt.Sprintf("mask-hint:%d", k.mask))
	c.Note("kind:" + k.tag)
	// ---- path A ----
	var qr *encoder.QRCode
	outA := Safe(func() string {
		q, e := encoder.Encoder_encode(k.text, k.ec, k.hints())
		if e != nil {
			return "encode-error: " + e.Error()
		}
		qr = q
		return "ok"
	})
	if outA != "ok" {
		c.Oracle("qr-roundtrip-matrix", false, "encode-refused:"+k.tag, in, "a text that fits was not encoded: "+outA)
		return
	}
	if k.wantMode != "" && qr.GetMode().String() != k.wantMode {
		c.Note("unexpected-mode:" + qr.GetMode().String())
	}
	if k.version > 0 && qr.GetVersion().GetVersionNumber() != k.version {
		c.Oracle("qr-roundtrip-matrix", false, "version-hint-ignored", in, fmt.Sprintf("got version %d", qr.GetVersion().GetVersionNumber()))
	}
	c.Note(fmt.Sprintf("version:%d", qr.GetVersion().GetVersionNumber()))
	c.Note(fmt.Sprintf("mask:%d", qr.GetMaskPattern()))
	bm := cqrBitMatrixOf(qr.GetMatrix())
	goDec, res := cqrGoDecode(bm, cqrNoHint())
	okA := res != nil && res.GetText() == k.text && res.GetECLevel() == k.ec.String()
	det := goDec
	if len(det) > 300 {
		det = det[:300]
	}
	c.Oracle("qr-roundtrip-matrix", okA, "matrix-roundtrip:"+k.tag, in, "Decoder.Decode(Encoder_encode(t)) gave "+det)

	// ---- correspondence: decoder layers on this matrix ----
	if k.layers {
		bits := cqrBits(bm)
		dim := bm.GetHeight()
		c.Cmp("qr-dec-layers", fmt.Sprintf("c01 cw %d %s mirror=0", dim, bits), cqrGoReadCodewords(bm, false))
		c.CmpF("qr-dec-layers", fmt.Sprintf("c01 decode %d %s hint=-", dim, bits), goDec, cqrCmpParsed)
		// raw codewords -> blocks; data bytes -> segments
		p, e := decoder.NewBitMatrixParser(cqrClone(bm))
		if e == nil {
			if cw, e := p.ReadCodewords(); e == nil {
				v := qr.GetVersion().GetVersionNumber()
				c.Cmp("qr-dec-layers", fmt.Sprintf("c01 deint %s v=%d ec=%s", hexs(cw), v, k.ec.String()), cqrGoDeinterleave(cw, v, k.ec))
			}
		}
		if res != nil {
			v := qr.GetVersion().GetVersionNumber()
			c.CmpF("qr-dec-layers", fmt.Sprintf("c01 parse %s v=%d hint=-", hexs(res.GetRawBytes()), v),
				cqrGoParse(res.GetRawBytes(), v, k.ec, cqrNoHint()), cqrCmpParsed)
		}
	}

	// ---- path B ----
	hints := k.hints()
	hints[gozxing.EncodeHintType_ERROR_CORRECTION] = k.ec
	if k.margin != 4 {
		hints[gozxing.EncodeHintType_MARGIN] = k.margin
	}
	outB := Safe(func() string {
		img, e := qrcode.NewQRCodeWriter().Encode(k.text, gozxing.BarcodeFormat_QR_CODE, k.w, k.h, hints)
		if e != nil {
			return "write-error: " + e.Error()
		}
		bmp, e := gozxing.NewBinaryBitmapFromImage(cqrImageOf(img))
		if e != nil {
			return "bitmap-error: " + e.Error()
		}
		r, e := qrcode.NewQRCodeReader().Decode(bmp, map[gozxing.DecodeHintType]interface{}{gozxing.DecodeHintType_PURE_BARCODE: true})
		if e != nil {
			return fmt.Sprintf("read-error(%s) image %dx%d: %s", errKind(e), img.GetWidth(), img.GetHeight(), e.Error())
		}
		if r.GetBarcodeFormat() != gozxing.BarcodeFormat_QR_CODE {
			return "format " + r.GetBarcodeFormat().String()
		}
		if lv, _ := r.GetResultMetadata()[gozxing.ResultMetadataType_ERROR_CORRECTION_LEVEL].(string); lv != k.ec.String() {
			return "ec level " + lv
		}
		if r.GetText() != k.text {
			return "text " + hexs([]byte(r.GetText()))
		}
		return "ok"
	})
	if len(outB) > 300 {
		outB = outB[:300]
	}
	c.Oracle("qr-roundtrip-image", outB == "ok", "image-roundtrip:"+k.tag+":"+strings.SplitN(outB, " ", 2)[0], in, "QRCodeReader(QRCodeWriter(t)) gave "+outB)
}

func runC01(c *Ctx) {
	c.res.Rule = "symbols: 4 modes x 4 levels x versions x lengths {1,cap-1,cap} (cap from ISO 18004 bit budget) x masks {auto,0..7 round-robin}, forced and automatic version; " +
		"random mixed UTF-8, every code point U+0000..U+00FF (UTF-8 and ISO-8859-1 -> every byte value), one text per registered charset; sizes/margins from a grid. " +
		"oracle = read(write(t))==t with QR_CODE + same EC level by the matrix path and the image path; correspondence = Go decoder layers vs Lean model on the same matrices " +
		"(plus transposed and randomly damaged ones); non-trivial = distinct op line"
	versions := []int{1, 2, 6, 7, 9, 10, 26, 27, 39, 40}
	if c.Thorough {
		versions = nil
		for v := 1; v <= 40; v++ {
			versions = append(versions, v)
		}
	}
	var cases []*c01Case
	r := c.Rng
	idx := 0
	sizeOf := func(i, v, margin int) (int, int) {
		q := 17 + 4*v + 2*margin
		switch i % 5 {
		case 0:
			return 0, 0
		case 1:
			return q + 3, q + 3
		case 2:
			return 2 * q, 2*q + 17
		case 3:
			return 3*q + 5, 2 * q
		}
		return q - 5, 1
	}
	margins := []int{4, 4, 5, 6, 8}
	for _, mode := range []string{"N", "A", "B", "K"} {
		for _, ec := range cqrLevels {
			for _, v := range versions {
				cp := c01Capacity(v, ec, mode, 0)
				lens := []int{1, cp - 1, cp}
				if c.Thorough {
					lens = append(lens, cp+1)
				}
				for _, n := range lens {
					if n < 1 {
						continue
					}
					variants := []bool{true}
					if c.Thorough || idx%2 == 0 {
						variants = append(variants, false) // automatic version as well
					}
					for _, forced := range variants {
						k := &c01Case{text: c01Gen(r, mode, n), ec: ec, mask: idx%9 - 1, margin: margins[idx%5], wantMode: c01ModeName[mode]}
						if c.Thorough {
							k.margin = 4 + idx%5
						}
						if forced {
							k.version = v
						}
						if mode == "K" {
							k.charset = "Shift_JIS"
						}
						k.w, k.h = sizeOf(idx/5, v, k.margin)
						k.tag = "grid"
						if n == cp+1 {
							k.tag = "overflow"
						}
						k.layers = v <= 10 || idx%4 == 0
						cases = append(cases, k)
						idx++
					}
				}
			}
		}
	}
	// all 8 masks on a subset in thorough
	if c.Thorough {
		for _, v := range versions {
			for m := 0; m < 8; m++ {
				ec := cqrLevels[(v+m)%4]
				mode := []string{"N", "A", "B", "K"}[(v+m)%4]
				cp := c01Capacity(v, ec, mode, 0)
				k := &c01Case{text: c01Gen(r, mode, cp), ec: ec, version: v, mask: m, margin: 4, wantMode: c01ModeName[mode], tag: "masks", layers: v <= 12}
				if mode == "K" {
					k.charset = "Shift_JIS"
				}
				cases = append(cases, k)
			}
		}
	}
	// random mixed UTF-8 texts
	for i := 0; i < c.Pick(300, 20000); i++ {
		n := r.Range(1, 120)
		if r.Chance(0.1) {
			n = r.Range(200, 1200)
		}
		var sb strings.Builder
		for sb.Len() < n {
			switch r.Intn(6) {
			case 0:
				sb.WriteString(c01Digits(r, r.Range(1, 9)))
			case 1:
				sb.WriteString(c01AlnumText(r, r.Range(1, 9)))
			case 2:
				sb.WriteString(c01KanjiText(r, r.Range(1, 4)))
			default:
				sb.WriteRune(c01RuneOfLen(r, r.Range(1, 4)))
			}
		}
		k := &c01Case{text: sb.String(), ec: cqrLevels[r.Intn(4)], mask: r.Intn(9) - 1, margin: 4 + r.Intn(5), tag: "random-utf8", layers: i%3 == 0}
		k.w, k.h = r.Intn(400), r.Intn(400)
		cases = append(cases, k)
	}
	// every code point U+0000..U+00FF: as UTF-8, and with CHARACTER_SET=ISO-8859-1 (= every byte value in byte mode)
	for start := 0; start < 256; start += 32 {
		var sb strings.Builder
		for cp := start; cp < start+32; cp++ {
			sb.WriteRune(rune(cp))
		}
		for _, cs := range []string{"", "ISO-8859-1"} {
			cases = append(cases, &c01Case{text: sb.String(), ec: cqrLevels[(start/32)%4], mask: -1, margin: 4, charset: cs, tag: "all-bytes", layers: true})
		}
	}
	{
		var sb strings.Builder
		for cp := 0; cp < 256; cp++ {
			sb.WriteRune(rune(cp))
		}
		cases = append(cases, &c01Case{text: sb.String(), ec: decoder.ErrorCorrectionLevel_M, mask: -1, margin: 4, charset: "ISO-8859-1", tag: "all-bytes", layers: true})
		cases = append(cases, &c01Case{text: sb.String(), ec: decoder.ErrorCorrectionLevel_Q, mask: -1, margin: 4, tag: "all-bytes", layers: true})
	}
	// each registered charset once
	for _, name := range c15CharsetNames() {
		e, _ := common.GetCharacterSetECIByName(name)
		txt := c15SampleText(r, e, 24)
		if txt == "" {
			continue
		}
		cases = append(cases, &c01Case{text: txt, ec: cqrLevels[r.Intn(4)], mask: -1, margin: 4, charset: name, tag: "charset:" + name, layers: true})
	}
	c.Parallel(len(cases), 16, func(i int, _ *Rng) {
		k := cases[i]
		if k.tag == "overflow" {
			// cap+1 with a forced version does not fit: no demand on success, but an accepted symbol must still read back
			q, e := encoder.Encoder_encode(k.text, k.ec, k.hints())
			if e != nil || q == nil {
				c.Note("overflow-refused")
				return
			}
			c.Note("overflow-accepted")
		}
		c01RunCase(c, k)
	})

	// ---- correspondence on transposed (mirrored) and damaged matrices: the retry state machine and the error paths ----
	nm := c.Pick(300, 6000)
	c.Parallel(nm, 16, func(i int, r *Rng) {
		v := []int{1, 2, 3, 6, 7, 8, 10, 14}[r.Intn(8)]
		ec := cqrLevels[r.Intn(4)]
		mode := []string{"N", "A", "B"}[r.Intn(3)]
		cp := c01Capacity(v, ec, mode, 0)
		q, e := encoder.Encoder_encode(c01Gen(r, mode, r.Range(1, cp)), ec, map[gozxing.EncodeHintType]interface{}{gozxing.EncodeHintType_QR_VERSION: v})
		if e != nil {
			return
		}
		bm := cqrBitMatrixOf(q.GetMatrix())
		kind := r.Intn(4)
		switch kind {
		case 0:
			bm = cqrTranspose(bm)
		case 1: // light random damage
			for j := 0; j < r.Range(1, 12); j++ {
				bm.Flip(r.Intn(bm.GetWidth()), r.Intn(bm.GetHeight()))
			}
		case 2: // heavy damage of one area
			x0, y0 := r.Intn(bm.GetWidth()), r.Intn(bm.GetHeight())
			for j := 0; j < r.Range(20, 200); j++ {
				x, y := x0+r.Intn(12), y0+r.Intn(12)
				if x < bm.GetWidth() && y < bm.GetHeight() {
					bm.Flip(x, y)
				}
			}
		case 3: // transposed and damaged
			bm = cqrTranspose(bm)
			for j := 0; j < r.Range(1, 30); j++ {
				bm.Flip(r.Intn(bm.GetWidth()), r.Intn(bm.GetHeight()))
			}
		}
		c.Note(fmt.Sprintf("mutated-kind:%d", kind))
		goDec, _ := cqrGoDecode(bm, cqrNoHint())
		c.Note("mutated-result:" + strings.SplitN(goDec, " ", 2)[0])
		if strings.Contains(goDec, "mir=1") {
			c.Note("mirrored-decodes")
		}
		bits := cqrBits(bm)
		c.CmpF("qr-dec-mutated", fmt.Sprintf("c01 decode %d %s hint=-", bm.GetHeight(), bits), goDec, cqrCmpParsed)
		c.Cmp("qr-dec-mutated", fmt.Sprintf("c01 cw %d %s mirror=0", bm.GetHeight(), bits), cqrGoReadCodewords(bm, false))
		if kind == 0 || kind == 3 {
			c.Cmp("qr-dec-mutated", fmt.Sprintf("c01 cw %d %s mirror=1", bm.GetHeight(), bits), cqrGoReadCodewords(bm, true))
		}
	})

	c01StreamSuite(c)
}

// crafted codeword streams through DecodedBitStreamParser_Decode vs the model: all modes, FNC1, structured
// append, Hanzi, ECI forms, truncated and random streams; and BitSource reads
func c01StreamSuite(c *Ctx) {
	r := c.Rng
	n := c.Pick(30000, 1000000)
	for i := 0; i < n; i++ {
		v := []int{1, 9, 10, 26, 27, 40}[r.Intn(6)]
		var w c01BitWriter
		nseg := r.Range(1, 4)
		for s := 0; s < nseg; s++ {
			c01RandomSegment(r, &w, v)
		}
		switch r.Intn(5) {
		case 0: // no terminator, cut anywhere
			if len(w.bits) > 0 {
				w.bits = w.bits[:r.Intn(len(w.bits)+1)]
			}
		case 1:
			w.put(0, r.Intn(5))
		default:
			w.put(0, 4)
		}
		bytes := w.bytes(r)
		h := cqrNoHint()
		switch r.Intn(12) {
		case 0:
			h = cqrNameHint(c15AllNames()[r.Intn(len(c15AllNames()))])
		case 1:
			h = cqrObjHint([]string{"koi8r", "eucjp", "utf16le", "cp866"}[r.Intn(4)])
		case 2:
			h = cqrNameHint([]string{"KOI8-R", "no-such-charset", "ISO-2022-CN", "utf-8", "IBM866", "ISO-8859-6"}[r.Intn(6)])
		}
		ec := cqrLevels[r.Intn(4)]
		goOut := cqrGoParse(bytes, v, ec, h)
		c.Note("stream-result:" + strings.SplitN(goOut, " ", 2)[0])
		c.CmpF("qr-stream", fmt.Sprintf("c01 parse %s v=%d hint=%s", hexs(bytes), v, h.tok), goOut, cqrCmpParsed)
	}
	// BitSource
	for i := 0; i < c.Pick(20000, 300000); i++ {
		nb := r.Intn(12)
		bs := make([]byte, nb)
		for j := range bs {
			bs[j] = byte(r.Intn(256))
		}
		var ns []int
		for j := 0; j < r.Range(1, 10); j++ {
			if r.Chance(0.1) {
				ns = append(ns, []int{0, 33, 40, 32}[r.Intn(4)])
			} else {
				ns = append(ns, r.Range(1, 17))
			}
		}
		src := common.NewBitSource(bs)
		var outs []string
		for _, k := range ns {
			v, e := src.ReadBits(k)
			if e != nil {
				outs = append(outs, "E")
			} else {
				outs = append(outs, fmt.Sprint(v))
			}
		}
		c.Cmp("qr-bitsource", fmt.Sprintf("c01 bs %s %s", hexs(bs), ints(ns)), strings.Join(outs, ",")+fmt.Sprintf("|%d", src.Available()))
	}
}

type c01BitWriter struct{ bits []bool }

func (w *c01BitWriter) put(v, n int) {
	for i := n - 1; i >= 0; i-- {
		w.bits = append(w.bits, v>>uint(i)&1 == 1)
	}
}

// pad with the standard's pad bytes (or random bytes) to a whole number of bytes
func (w *c01BitWriter) bytes(r *Rng) []byte {
	for len(w.bits)%8 != 0 {
		w.bits = append(w.bits, false)
	}
	out := make([]byte, len(w.bits)/8)
	for i, b := range w.bits {
		if b {
			out[i/8] |= 0x80 >> uint(i%8)
		}
	}
	for i := 0; i < r.Intn(4); i++ {
		if r.Chance(0.8) {
			out = append(out, []byte{0xEC, 0x11}[i%2])
		} else {
			out = append(out, byte(r.Intn(256)))
		}
	}
	return out
}

func c01RandomSegment(r *Rng, w *c01BitWriter, v int) {
	lie := func(n int) int { // mostly the true count, sometimes a wrong one
		if r.Chance(0.06) {
			return n + r.Range(1, 3)
		}
		return n
	}
	switch r.Intn(13) {
	case 0, 1: // numeric
		n := r.Range(0, 10)
		w.put(1, 4)
		w.put(lie(n), c01CountBits("N", v))
		for i := 0; i+3 <= n; i += 3 {
			x := r.Intn(1000)
			if r.Chance(0.03) {
				x = r.Range(1000, 1023)
			}
			w.put(x, 10)
		}
		if n%3 == 2 {
			w.put(r.Intn(104), 7)
		} else if n%3 == 1 {
			w.put(r.Intn(11), 4)
		}
	case 2, 3: // alphanumeric, with many '%' for the FNC1 rule
		n := r.Range(0, 9)
		w.put(2, 4)
		w.put(lie(n), c01CountBits("A", v))
		code := func() int {
			if r.Chance(0.3) {
				return 38 // '%'
			}
			return r.Intn(45)
		}
		for i := 0; i+2 <= n; i += 2 {
			x := code()*45 + code()
			if r.Chance(0.03) {
				x = r.Range(2025, 2047)
			}
			w.put(x, 11)
		}
		if n%2 == 1 {
			x := code()
			if r.Chance(0.05) {
				x = r.Range(45, 63)
			}
			w.put(x, 6)
		}
	case 4, 5, 6: // byte
		n := r.Range(0, 12)
		w.put(4, 4)
		w.put(lie(n), c01CountBits("B", v))
		bs := c15GuessBytes(r, n)
		for _, b := range bs {
			w.put(int(b), 8)
		}
	case 7: // kanji
		n := r.Range(0, 5)
		w.put(8, 4)
		w.put(lie(n), c01CountBits("K", v))
		for i := 0; i < n; i++ {
			w.put(r.Intn(8192), 13)
		}
	case 8: // hanzi
		n := r.Range(0, 5)
		w.put(13, 4)
		sub := 1
		if r.Chance(0.2) {
			sub = r.Intn(16)
		}
		w.put(sub, 4)
		w.put(lie(n), c01CountBits("K", v))
		for i := 0; i < n; i++ {
			w.put(r.Intn(8192), 13)
		}
	case 9: // ECI
		w.put(7, 4)
		val := []int{0, 1, 2, 3, 4, 8, 20, 25, 26, 27, 29, 30, 127, 128, 170, 899, 900, 16383, 16384, 999999}[r.Intn(20)]
		if r.Chance(0.3) {
			val = r.Intn(1000000)
		}
		form := r.Range(1, 3)
		if val >= 16384 {
			form = 3
		} else if val >= 128 && form == 1 {
			form = 2
		}
		switch form {
		case 1:
			w.put(val, 8)
		case 2:
			w.put(0x8000|val, 16)
		default:
			w.put(0xC00000|val, 24)
		}
		if r.Chance(0.05) {
			w.put(0xE0|r.Intn(32), 8) // invalid first byte
		}
	case 10: // FNC1
		w.put([]int{5, 9}[r.Intn(2)], 4)
	case 11: // structured append
		w.put(3, 4)
		w.put(r.Intn(256), 8)
		w.put(r.Intn(256), 8)
	case 12: // reserved mode indicator
		w.put([]int{6, 10, 11, 12, 14, 15}[r.Intn(6)], 4)
	}
}
