package main

// C02 — Data Matrix: what is written is what is read (all contents, all 30 sizes).
//
// Oracle on the REAL code (independent of the model):
//   write(t, hints) terminates (watchdog); if it returns a symbol then reading it back
//   (matrix level and rendered image in PURE_BARCODE mode) gives exactly t as DATA_MATRIX;
//   if t fits the largest symbol admissible under the hints it returns a symbol;
//   text outside ISO-8859-1 is rejected; codeword level EncodeHighLevel -> DecodedBitStreamParser_decode = t.
// Correspondence with the Lean model (suites dm-hl, dm-dec, dm-la): see c02_model.go.

import (
	"encoding/hex"
	"fmt"
	"image"
	"os"
	"path/filepath"
	"sort"
	"strings"
	"sync/atomic"
	"time"
	"unicode/utf8"

	"github.com/makiuchi-d/gozxing"
	"github.com/makiuchi-d/gozxing/datamatrix"
	dmdec "github.com/makiuchi-d/gozxing/datamatrix/decoder"
	dmenc "github.com/makiuchi-d/gozxing/datamatrix/encoder"
)

func init() { suites["C02"] = runC02 }

// ---------- the 30 ECC-200 symbol sizes (ISO/IEC 16022 table 7), typed here independently of /repo ----------

type c02Size struct {
	H, W, Cap int // rows, columns, data codewords
	Rect      bool
}

var c02Sizes = []c02Size{
	{10, 10, 3, false}, {12, 12, 5, false}, {14, 14, 8, false}, {16, 16, 12, false}, {18, 18, 18, false},
	{20, 20, 22, false}, {22, 22, 30, false}, {24, 24, 36, false}, {26, 26, 44, false}, {32, 32, 62, false},
	{36, 36, 86, false}, {40, 40, 114, false}, {44, 44, 144, false}, {48, 48, 174, false}, {52, 52, 204, false},
	{64, 64, 280, false}, {72, 72, 368, false}, {80, 80, 456, false}, {88, 88, 576, false}, {96, 96, 696, false},
	{104, 104, 816, false}, {120, 120, 1050, false}, {132, 132, 1304, false}, {144, 144, 1558, false},
	{8, 18, 5, true}, {8, 32, 10, true}, {12, 26, 16, true}, {12, 36, 22, true}, {16, 36, 32, true}, {16, 48, 49, true},
}

type c02Hints struct {
	Shape      int // 0 none, 1 square, 2 rectangle
	MinW, MinH int // -1 = no hint
	MaxW, MaxH int
}

func (h c02Hints) String() string {
	mn, mx := "-", "-"
	if h.MinW >= 0 {
		mn = fmt.Sprintf("%dx%d", h.MinW, h.MinH)
	}
	if h.MaxW >= 0 {
		mx = fmt.Sprintf("%dx%d", h.MaxW, h.MaxH)
	}
	return fmt.Sprintf("%d %s %s", h.Shape, mn, mx)
}

func (h c02Hints) dims() (mn, mx *gozxing.Dimension) {
	if h.MinW >= 0 {
		mn, _ = gozxing.NewDimension(h.MinW, h.MinH)
	}
	if h.MaxW >= 0 {
		mx, _ = gozxing.NewDimension(h.MaxW, h.MaxH)
	}
	return
}

func (h c02Hints) hintMap() map[gozxing.EncodeHintType]interface{} {
	m := map[gozxing.EncodeHintType]interface{}{}
	if h.Shape != 0 {
		m[gozxing.EncodeHintType_DATA_MATRIX_SHAPE] = dmenc.SymbolShapeHint(h.Shape)
	}
	mn, mx := h.dims()
	if mn != nil {
		m[gozxing.EncodeHintType_MIN_SIZE] = mn
	}
	if mx != nil {
		m[gozxing.EncodeHintType_MAX_SIZE] = mx
	}
	if len(m) == 0 {
		return nil
	}
	return m
}

// largest data capacity among the symbols the hints permit (0 = none permitted)
func (h c02Hints) maxCap() int {
	best := 0
	for _, s := range c02Sizes {
		if h.Shape == 1 && s.Rect || h.Shape == 2 && !s.Rect {
			continue
		}
		if h.MinW >= 0 && (s.W < h.MinW || s.H < h.MinH) {
			continue
		}
		if h.MaxW >= 0 && (s.W > h.MaxW || s.H > h.MaxH) {
			continue
		}
		if s.Cap > best {
			best = s.Cap
		}
	}
	return best
}

// ---------- Latin-1 helpers ----------

func c02ToString(b []byte) string {
	rs := make([]rune, len(b))
	for i, x := range b {
		rs[i] = rune(x)
	}
	return string(rs)
}

// c02Latin1 canonicalises a decoded Go string: hex of the Latin-1 bytes, or BAD:<hex of raw bytes>
// when the string is not valid UTF-8 / contains a code point above U+00FF.
func c02Latin1(s string) (string, bool) {
	out := make([]byte, 0, len(s))
	for i := 0; i < len(s); {
		r, sz := utf8.DecodeRuneInString(s[i:])
		if (r == utf8.RuneError && sz <= 1) || r > 255 {
			return "BAD:" + hexs([]byte(s)), false
		}
		out = append(out, byte(r))
		i += sz
	}
	return hexs(out), true
}

// ---------- codeword-stream walker (distribution notes and un-padded length) ----------

func c02Unrand255(b byte, pos int) int {
	v := int(b) - ((149*pos)%255 + 1)
	if v < 0 {
		v += 256
	}
	return v
}

type c02Walk struct {
	N     int      // number of codewords before padding
	Modes []string // encodation modes entered, in order
	End   string   // pad | exact
	Last  string   // mode of the last segment
	OK    bool
}

func c02WalkStream(cw []byte) c02Walk {
	w := c02Walk{OK: true, Last: "ascii", End: "exact"}
	i := 0
	segEnd, segHow := -1, ""
	enter := func(m string) { w.Modes = append(w.Modes, m) }
	finish := func(n int, end string) c02Walk {
		w.N, w.End = n, end
		if segEnd == n {
			w.Last = segHow
		}
		return w
	}
	for i < len(cw) {
		b := cw[i]
		switch {
		case b == 129:
			return finish(i, "pad")
		case b == 230 || b == 239 || b == 238:
			m := map[byte]string{230: "c40", 239: "text", 238: "x12"}[b]
			enter(m)
			i++
			how := m + "+ran-to-end"
			for {
				if len(cw)-i == 0 {
					break
				}
				if len(cw)-i == 1 {
					how = m + "+one-byte-left"
					break
				}
				if cw[i] == 254 {
					i++
					how = m + "+unlatch"
					break
				}
				i += 2
			}
			segEnd, segHow = i, how
		case b == 240:
			enter("edifact")
			i++
			how := "edifact+ran-to-end"
			for {
				if len(cw)-i <= 2 {
					if len(cw)-i > 0 {
						how = "edifact+le2-left"
					}
					break
				}
				v := int(cw[i])<<16 | int(cw[i+1])<<8 | int(cw[i+2])
				vals := []int{v >> 18 & 63, v >> 12 & 63, v >> 6 & 63, v & 63}
				un := -1
				for k, x := range vals {
					if x == 31 {
						un = k
						break
					}
				}
				if un >= 0 {
					i += []int{1, 2, 3, 3}[un]
					how = "edifact+unlatch"
					break
				}
				i += 3
			}
			segEnd, segHow = i, how
		case b == 231:
			enter("base256")
			if i+1 >= len(cw) {
				w.OK = false
				return finish(len(cw), "exact")
			}
			d1 := c02Unrand255(cw[i+1], i+2)
			how := "base256+len1"
			switch {
			case d1 == 0:
				i = len(cw)
				how = "base256+toend"
			case d1 < 250:
				i += 2 + d1
			default:
				if i+2 >= len(cw) {
					w.OK = false
					return finish(len(cw), "exact")
				}
				i += 3 + 250*(d1-249) + c02Unrand255(cw[i+2], i+3)
				how = "base256+len2"
			}
			if i > len(cw) {
				w.OK = false
				return finish(len(cw), "exact")
			}
			segEnd, segHow = i, how
		default:
			if b == 236 || b == 237 {
				enter(fmt.Sprintf("macro%02d", int(b)-231))
			}
			i++
		}
	}
	return finish(len(cw), "exact")
}

// ---------- generator ----------

const (
	c02Digits = "0123456789"
	c02Upper  = "ABCDEFGHIJKLMNOPQRSTUVWXYZ"
	c02Lower  = "abcdefghijklmnopqrstuvwxyz"
)

func c02Range(lo, hi int) []byte {
	var b []byte
	for c := lo; c <= hi; c++ {
		b = append(b, byte(c))
	}
	return b
}

var c02Classes = [][]byte{
	[]byte(c02Digits),                                    // 0 digits
	[]byte(c02Upper + c02Digits + " "),                   // 1 C40-native
	[]byte(c02Lower + c02Digits + " "),                   // 2 Text-native
	[]byte(c02Upper + c02Digits + " " + "\r*>" + "\r*>"), // 3 X12-native incl. separators
	c02Range(0x20, 0x5E),                                 // 4 EDIFACT-native
	c02Range(0x00, 0x1F),                                 // 5 control characters
	c02Range(0x80, 0xFF),                                 // 6 extended
	c02Range(0x00, 0x7F),                                 // 7 any ASCII (incl. 0x5F-0x7F: shift-3 set)
	[]byte(c02Lower),                                     // 8 lower only
	[]byte(c02Upper),                                     // 9 upper only
	c02Range(0x5F, 0x7F),                                 // 10 shift-3 / punctuation
	append(c02Range(0xC1, 0xDA), append(c02Range(0xB0, 0xB9), 0xA0)...), // 11 128 + C40-native (three C40 values each)
	c02Range(0xE1, 0xFA), // 12 128 + lower case (three Text values each)
}

var c02ClassNames = []string{"digits", "c40", "text", "x12", "edifact", "control", "extended", "ascii", "lower", "upper", "shift3", "ext-c40", "ext-text"}

func c02Run(r *Rng, class, n int) []byte {
	al := c02Classes[class]
	b := make([]byte, n)
	for i := range b {
		b[i] = al[r.Intn(len(al))]
	}
	return b
}

// c02GenText builds one message: runs of 1..12 characters from random classes; the total length is
// steered so that the encoded length lands near the capacity of symbol `target`.
func c02GenText(r *Rng, target c02Size) []byte {
	// favourite classes of this message (messages dominated by one or two classes enter the non-ASCII modes)
	nfav := r.Range(1, 3)
	fav := make([]int, nfav)
	for i := range fav {
		fav[i] = r.Intn(len(c02Classes))
	}
	lo := target.Cap * 3 / 4
	if lo < 1 {
		lo = 1
	}
	wantCw := r.Range(lo, target.Cap+1) // +1: just beyond the capacity too
	var msg []byte
	est := 0.0 // rough codeword estimate
	maxRun := 12
	if target.Cap > 300 && r.Chance(0.7) {
		maxRun = 40 // longer runs make the big symbols cheaper to reach and keep modes stable
	}
	for est < float64(wantCw) && len(msg) < 3200 {
		cl := fav[r.Intn(nfav)]
		if r.Chance(0.15) {
			cl = r.Intn(len(c02Classes))
		}
		n := r.Range(1, maxRun)
		run := c02Run(r, cl, n)
		msg = append(msg, run...)
		switch cl {
		case 0:
			est += float64(n) * 0.5
		case 1, 2, 3, 8, 9:
			est += float64(n) * 0.70
		case 4:
			est += float64(n) * 0.78
		case 6, 11, 12:
			est += float64(n) * 1.4
		default:
			est += float64(n) * 1.1
		}
	}
	if r.Chance(0.06) { // macro 05 / 06 envelope
		hdr := "[)>\x1e05\x1d"
		if r.Bool() {
			hdr = "[)>\x1e06\x1d"
		}
		msg = append(append([]byte(hdr), msg...), 0x1e, 0x04)
	}
	return msg
}

func c02GenHints(r *Rng) c02Hints {
	h := c02Hints{0, -1, -1, -1, -1}
	switch r.Intn(10) {
	case 0, 1:
		h.Shape = 1
	case 2, 3:
		h.Shape = 2
	}
	k := r.Intn(10)
	if k == 0 || k == 2 {
		s := c02Sizes[r.Intn(len(c02Sizes))]
		h.MinW, h.MinH = s.W, s.H
	}
	if k == 1 || k == 2 || k == 3 {
		s := c02Sizes[r.Intn(len(c02Sizes))]
		h.MaxW, h.MaxH = s.W, s.H
	}
	return h
}

// ---------- one case on the real code ----------

type c02Case struct {
	Msg   []byte
	Hints c02Hints
	ReqW  int // requested image size passed to the writer for the second (rendered) path
	ReqH  int
	Scale int // own rendering: pixels per module
	Quiet int // own rendering: quiet zone in modules
}

func (k c02Case) input() string {
	return fmt.Sprintf("text=%s hints=%s req=%dx%d scale=%d quiet=%d", hexs(k.Msg), k.Hints, k.ReqW, k.ReqH, k.Scale, k.Quiet)
}

type c02Viol struct{ key, detail string }

type c02Outcome struct {
	viol    []c02Viol
	notes   []string
	hlGo    string // canonical EncodeHighLevel output under the hints (hex | ERR:kind | PANIC | TIMEOUT)
	hlCw    []byte
	timeout bool
}

var c02Timeouts int32

func c02Render(bm *gozxing.BitMatrix, scale, quiet int) *image.Gray {
	w, h := bm.GetWidth(), bm.GetHeight()
	img := image.NewGray(image.Rect(0, 0, (w+2*quiet)*scale, (h+2*quiet)*scale))
	for i := range img.Pix {
		img.Pix[i] = 255
	}
	for y := 0; y < h; y++ {
		for x := 0; x < w; x++ {
			if bm.Get(x, y) {
				for dy := 0; dy < scale; dy++ {
					row := ((y+quiet)*scale + dy) * img.Stride
					for dx := 0; dx < scale; dx++ {
						img.Pix[row+(x+quiet)*scale+dx] = 0
					}
				}
			}
		}
	}
	return img
}

func c02ReadImage(img image.Image) (string, error) {
	src := gozxing.NewLuminanceSourceFromImage(img)
	bb, e := gozxing.NewBinaryBitmap(gozxing.NewGlobalHistgramBinarizer(src))
	if e != nil {
		return "", e
	}
	res, e := datamatrix.NewDataMatrixReader().Decode(bb, map[gozxing.DecodeHintType]interface{}{gozxing.DecodeHintType_PURE_BARCODE: true})
	if e != nil {
		return "", e
	}
	if res.GetBarcodeFormat() != gozxing.BarcodeFormat_DATA_MATRIX {
		return "", fmt.Errorf("format %v", res.GetBarcodeFormat())
	}
	return res.GetText(), nil
}

func c02ClassifyRead(text, got string, e error) string {
	if e != nil {
		return "error"
	}
	if !utf8.ValidString(got) {
		return "not-utf8"
	}
	if got != text {
		return "differs"
	}
	return ""
}

// c02AsciiLen is the length of the plain ASCII encodation: digit pairs 1, extended characters 2, others 1 codeword.
func c02AsciiLen(m []byte) int {
	// macro 05 / 06 envelope: "[)>" RS "05"|"06" GS ... RS EOT is one codeword (236 / 237) plus the body
	if len(m) >= 9 && string(m[:4]) == "[)>\x1e" && m[4] == '0' && (m[5] == '5' || m[5] == '6') && m[6] == 0x1d &&
		m[len(m)-2] == 0x1e && m[len(m)-1] == 0x04 {
		return 1 + c02AsciiLen(m[7:len(m)-2])
	}
	n := 0
	for i := 0; i < len(m); {
		switch {
		case i+1 < len(m) && m[i] >= '0' && m[i] <= '9' && m[i+1] >= '0' && m[i+1] <= '9':
			n, i = n+1, i+2
		case m[i] >= 128:
			n, i = n+2, i+1
		default:
			n, i = n+1, i+1
		}
	}
	return n
}

// c02AllDigitBody: the message, or the body of its macro 05/06 envelope, consists of digits only.
func c02AllDigitBody(m []byte) bool {
	if len(m) >= 9 && string(m[:4]) == "[)>\x1e" && m[4] == '0' && (m[5] == '5' || m[5] == '6') && m[6] == 0x1d &&
		m[len(m)-2] == 0x1e && m[len(m)-1] == 0x04 {
		m = m[7 : len(m)-2]
	}
	if len(m) == 0 {
		return false
	}
	for _, b := range m {
		if b < '0' || b > '9' {
			return false
		}
	}
	return true
}

// c02ErrClass gives refusals of encodable text a stable sub-key by the kind of failure.
func c02ErrClass(msg string) string {
	switch {
	case strings.Contains(msg, "Illegal character"):
		return "-illegal-character"
	case strings.Contains(msg, "Unexpected case"):
		return "-unexpected-case"
	case strings.Contains(msg, "Can't find a symbol arrangement"):
		return "-no-symbol"
	case strings.Contains(msg, "Message length not in valid ranges"):
		return "-base256-length"
	}
	return ""
}

func c02Trunc(s string) string {
	if len(s) > 160 {
		return s[:160] + "..."
	}
	return s
}

func c02Eval(k c02Case, wd time.Duration) (o c02Outcome) {
	text := c02ToString(k.Msg)
	addV := func(key, detail string) { o.viol = append(o.viol, c02Viol{key, detail}) }
	note := func(s string) { o.notes = append(o.notes, s) }
	if atomic.LoadInt32(&c02Timeouts) > 12 {
		note("skipped:too-many-leaked-timeouts")
		o.hlGo = "SKIPPED"
		return
	}
	mn, mx := k.Hints.dims()
	shape := dmenc.SymbolShapeHint(k.Hints.Shape)

	// --- codeword level, no size hints: un-padded length => does the text fit? ---
	var cwU []byte
	hlUMsg := ""
	hlU := SafeT(wd, func() string {
		cw, e := dmenc.EncodeHighLevel(text, dmenc.SymbolShapeHint_FORCE_NONE, nil, nil)
		if e != nil {
			hlUMsg = fmt.Sprintf("%v", e)
			return "ERR:" + errKind(e)
		}
		cwU = cw
		return "ok"
	})
	if hlU == "TIMEOUT" {
		atomic.AddInt32(&c02Timeouts, 1)
		o.timeout = true
		addV("dm-encode-hang", "EncodeHighLevel(text, none, nil, nil) did not return within the watchdog")
		o.hlGo = "TIMEOUT"
		return
	}
	if hlU == "PANIC" {
		addV("dm-encode-panic", "EncodeHighLevel(text, none, nil, nil) panicked")
	}
	nU := -1
	if hlU == "ok" {
		w := c02WalkStream(cwU)
		if w.OK {
			nU = w.N
		} else {
			nU = len(cwU)
		}
	}

	// --- codeword level under the hints ---
	var cw []byte
	o.hlGo = SafeT(wd, func() string {
		c, e := dmenc.EncodeHighLevel(text, shape, mn, mx)
		if e != nil {
			return "ERR:" + errKind(e)
		}
		cw = c
		return hexs(c)
	})
	switch {
	case o.hlGo == "TIMEOUT":
		atomic.AddInt32(&c02Timeouts, 1)
		o.timeout = true
		addV("dm-encode-hang", "EncodeHighLevel under hints did not return within the watchdog")
		return
	case o.hlGo == "PANIC":
		addV("dm-encode-panic", "EncodeHighLevel under hints panicked")
	case cw != nil:
		o.hlCw = cw
		w := c02WalkStream(cw)
		seen := map[string]bool{}
		for _, m := range w.Modes {
			if !seen[m] {
				seen[m] = true
				note("mode:" + m)
			}
		}
		if len(w.Modes) == 0 {
			note("mode:ascii-only")
		}
		note("end:" + w.Last + ":" + w.End)
		got := Safe(func() string {
			dr, e := dmdec.DecodedBitStreamParser_decode(append([]byte(nil), cw...))
			if e != nil {
				return "ERR:" + errKind(e)
			}
			if dr.GetText() != text {
				l1, _ := c02Latin1(dr.GetText())
				return "text " + l1
			}
			return "same"
		})
		if got != "same" {
			key := "dm-hl-roundtrip"
			if strings.HasPrefix(got, "text BAD:") {
				key = "dm-hl-roundtrip-not-utf8"
			}
			addV(key, "EncodeHighLevel -> DecodedBitStreamParser_decode: codewords="+c02Trunc(hexs(cw))+" decoded="+c02Trunc(got))
		}
	}

	// --- whole symbol ---
	var bm *gozxing.BitMatrix
	wrMsg := ""
	wr := SafeT(wd, func() string {
		m, e := datamatrix.NewDataMatrixWriter().Encode(text, gozxing.BarcodeFormat_DATA_MATRIX, 0, 0, k.Hints.hintMap())
		if e != nil {
			wrMsg = fmt.Sprintf("%v", e)
			return "ERR:" + errKind(e)
		}
		bm = m
		return "ok"
	})
	switch wr {
	case "TIMEOUT":
		atomic.AddInt32(&c02Timeouts, 1)
		o.timeout = true
		addV("dm-encode-hang", "DataMatrixWriter.Encode did not return within the watchdog")
		return
	case "PANIC":
		addV("dm-encode-panic", "DataMatrixWriter.Encode panicked")
		return
	}
	// "fits": the encoder's own encoding of the text without size hints (nU codewords before padding) is no longer
	// than the largest admissible symbol's capacity.  The encoder is a heuristic (ISO 16022 annex P), so a shorter
	// encoding that it does not find is not demanded.  Only when the un-hinted encoding itself fails is the plain
	// ASCII encodation (digit pairs 1, extended characters 2 codewords) used as the witness that the text fits.
	// If that failure is itself about capacity (the heuristic needs more than 1558 codewords) nothing is demanded.
	nA := c02AsciiLen(k.Msg)
	need := nU
	if nU < 0 {
		need = nA
		if cl := c02ErrClass(hlUMsg); (cl == "-no-symbol" || cl == "-base256-length") && !c02AllDigitBody(k.Msg) {
			need = 1 << 30
		}
		// (a body of digits only is encoded by the ASCII encoder's digit-pair rule before any look-ahead runs, so
		// for such texts the plain ASCII encodation IS the encoder's own encoding and remains the witness)
	}
	fits := need <= k.Hints.maxCap()
	if fits {
		note("fits:yes")
	} else {
		note("fits:no")
	}
	if bm == nil {
		note("write:" + wr)
		if fits {
			addV("dm-fits-refused"+c02ErrClass(wrMsg), fmt.Sprintf("error %q; text needs at most %d codewords (un-hinted encoding: %d, plain ASCII encodation: %d), largest admissible symbol holds %d, writer returned %s", c02Trunc(wrMsg), need, nU, nA, k.Hints.maxCap(), wr))
		}
		return
	}
	w, h := bm.GetWidth(), bm.GetHeight()
	sizeOK := false
	for _, s := range c02Sizes {
		if s.W == w && s.H == h {
			sizeOK = true
		}
	}
	note(fmt.Sprintf("size:%dx%d", h, w))
	if !sizeOK {
		addV("dm-size-not-a-symbol", fmt.Sprintf("writer returned a %dx%d matrix at requested size 0x0", w, h))
		return
	}
	is144 := w == 144
	rbKey := func(path, class string) string {
		if is144 {
			return "dm-144x144"
		}
		return "dm-readback-" + path + "-" + class
	}
	// (a) matrix level
	var gotA string
	var errA error
	pa := Safe(func() string {
		dr, e := dmdec.NewDecoder().Decode(bm)
		if e != nil {
			errA = e
			return "err"
		}
		gotA = dr.GetText()
		return "ok"
	})
	if pa == "PANIC" {
		addV("dm-decode-panic", "Decoder.Decode panicked on the writer's own matrix")
	} else if cl := c02ClassifyRead(text, gotA, errA); cl != "" {
		l1, _ := c02Latin1(gotA)
		addV(rbKey("matrix", cl), fmt.Sprintf("symbol %dx%d; Decoder.Decode(matrix): err=%v text(latin1 hex)=%s", h, w, errA, c02Trunc(l1)))
	}
	// (b) rendered image, PURE_BARCODE
	var gotB string
	var errB error
	pb := Safe(func() string {
		gotB, errB = c02ReadImage(c02Render(bm, k.Scale, k.Quiet))
		return "ok"
	})
	if pb == "PANIC" {
		addV("dm-decode-panic", "DataMatrixReader.Decode(PURE_BARCODE) panicked on the rendered symbol")
	} else if cl := c02ClassifyRead(text, gotB, errB); cl != "" {
		l1, _ := c02Latin1(gotB)
		addV(rbKey("image", cl), fmt.Sprintf("symbol %dx%d scale=%d quiet=%d; Reader.Decode(PURE_BARCODE): err=%v text(latin1 hex)=%s", h, w, k.Scale, k.Quiet, errB, c02Trunc(l1)))
	}
	// (c) the writer's own rendering at a requested size
	if k.ReqW > 0 || k.ReqH > 0 {
		var gotC string
		var errC error
		pc := SafeT(wd, func() string {
			m, e := datamatrix.NewDataMatrixWriter().Encode(text, gozxing.BarcodeFormat_DATA_MATRIX, k.ReqW, k.ReqH, k.Hints.hintMap())
			if e != nil {
				errC = e
				return "werr"
			}
			gotC, errC = c02ReadImage(m)
			return "ok"
		})
		if pc == "PANIC" || pc == "TIMEOUT" {
			addV("dm-decode-panic", "writer at requested size / PURE_BARCODE reader: "+pc)
		} else if pc == "werr" {
			addV("dm-fits-refused", fmt.Sprintf("writer returned a symbol at 0x0 but an error at %dx%d: %v", k.ReqW, k.ReqH, errC))
		} else if cl := c02ClassifyRead(text, gotC, errC); cl != "" {
			l1, _ := c02Latin1(gotC)
			addV(rbKey("image", cl), fmt.Sprintf("symbol %dx%d writer-rendered at %dx%d; Reader.Decode(PURE_BARCODE): err=%v text(latin1 hex)=%s", h, w, k.ReqW, k.ReqH, errC, c02Trunc(l1)))
		}
		note("writer-rendered")
	}
	return
}

// ---------- suite ----------

// the exhaustive alphabet: one member of every class
var c02Alpha12 = []byte{'1', 'A', 'a', ' ', '*', '\r', '>', '!', 0x1e, 0xe9, 0xff, '~'}

func runC02(c *Ctx) {
	c.res.Rule = "texts: concatenated runs (len 1..12, 1..40 for big symbols) from {digits, C40-, Text-, X12- (incl. CR * >), EDIFACT-native, controls, 0x80-0xFF, any ASCII, shift-3 set} " +
		"steered to the capacity of each of the 30 symbol sizes, macro 05/06 envelopes, every length 1..60 of 7 homogeneous alphabets, exhaustive strings over a 12-letter alphabet " +
		"(len<=3 quick, <=4 thorough), shape hints none/square/rectangle, min/max Dimension hints from the size list; oracle on the real writer/reader (matrix and PURE_BARCODE image); " +
		"correspondence: EncodeHighLevel codewords, DecodedBitStreamParser_decode on encoder outputs and on mutated/arbitrary codeword streams, look-ahead decisions; non-trivial = distinct op line"
	wd := 2 * time.Second
	if c.Thorough {
		wd = 10 * time.Second
	}
	var cases []c02Case
	add := func(msg []byte, h c02Hints, r *Rng) {
		k := c02Case{Msg: msg, Hints: h, Scale: r.Range(1, 4), Quiet: r.Range(1, 4)}
		if r.Chance(0.2) {
			k.ReqW, k.ReqH = r.Pick([]int{0, 7, 50, 200, 333, 640}), r.Pick([]int{0, 9, 50, 200, 301, 640})
		}
		cases = append(cases, k)
	}
	r := c.Rng.Fork() // fw.go seeds consecutive VERIF_SEEDs one splitmix step apart: fork to decorrelate
	noH := c02Hints{0, -1, -1, -1, -1}
	// 0. corpus: witnesses of defects found earlier (DESIGN §8 D5, D6, D16 and later ones)
	corpus := c02LoadCorpus()
	c.NoteN("corpus-witnesses", len(corpus))
	for _, w := range corpus {
		add([]byte(w.msg), w.h, r)
	}
	// 1. exhaustive short strings
	maxLen := c.Pick(3, 4)
	var rec func(prefix []byte)
	rec = func(prefix []byte) {
		if len(prefix) > 0 {
			add(append([]byte(nil), prefix...), noH, r)
		}
		if len(prefix) == maxLen {
			return
		}
		for _, a := range c02Alpha12 {
			rec(append(prefix, a))
		}
	}
	rec(nil)
	// 2. homogeneous alphabets, every length 1..60 (random members and a single repeated member)
	for _, cl := range []int{0, 9, 8, 6, 3, 4, 5} {
		for n := 1; n <= 60; n++ {
			add(c02Run(r, cl, n), noH, r)
			one := c02Run(r, cl, 1)
			add([]byte(strings.Repeat(string(one), n)), c02GenHints(r), r)
		}
	}
	// 3. non-Latin-1 must be rejected
	for _, s := range []string{"€", "あ", "abc€", "12あ34", "Ā", "é€"} {
		out := SafeT(wd, func() string {
			m, e := datamatrix.NewDataMatrixWriter().Encode(s, gozxing.BarcodeFormat_DATA_MATRIX, 0, 0, nil)
			if e != nil {
				return "ERR:" + errKind(e)
			}
			return fmt.Sprintf("symbol %dx%d", m.GetHeight(), m.GetWidth())
		})
		c.Oracle("dm-oracle", strings.HasPrefix(out, "ERR:"), "dm-nonlatin1-accepted", "text="+s, "writer returned "+out+" for text outside ISO-8859-1")
		c.Note("nonlatin1:" + out)
	}
	// 4. generated mixtures steered to every symbol size
	nGen := c.Pick(24000, 200000)
	for i := 0; i < nGen; i++ {
		target := c02Sizes[i%len(c02Sizes)]
		if target.Cap > 600 && i%3 != 0 && !c.Thorough {
			target = c02Sizes[r.Intn(15)] // the four biggest symbols are expensive: every third round only
		}
		add(c02GenText(r, target), c02GenHints(r), r)
	}
	// 5. length sweeps across a capacity boundary: a base text a few codewords short of a symbol's capacity,
	//    then every one of the next 14 one-character extensions (exercises each end-of-data branch at exact fit, fit-1, fit+1)
	nSweep := c.Pick(1200, 6000)
	for i := 0; i < nSweep; i++ {
		target := c02Sizes[r.Intn(len(c02Sizes))]
		if target.Cap > 210 && !r.Chance(0.15) {
			target = c02Sizes[r.Intn(15)]
		}
		cl := r.Intn(len(c02Classes))
		per := 1.0
		switch cl {
		case 0:
			per = 0.5
		case 1, 2, 3, 8, 9:
			per = 0.68
		case 4:
			per = 0.76
		case 6, 11, 12:
			per = 1.02
		}
		n := int(float64(target.Cap-3) / per)
		if n < 1 {
			n = 1
		}
		var base []byte
		if r.Chance(0.5) { // homogeneous body, otherwise a mixed head and a homogeneous tail
			base = c02Run(r, cl, n)
		} else {
			head := c02GenText(r, c02Size{Cap: target.Cap / 2})
			if len(head) > n {
				head = head[:n]
			}
			base = append(head, c02Run(r, cl, n-len(head))...)
		}
		h := noH
		if r.Chance(0.3) {
			h = c02GenHints(r)
		}
		for j := 0; j < 14; j++ {
			add(append([]byte(nil), base...), h, r)
			ecl := cl
			if r.Chance(0.2) {
				ecl = r.Intn(len(c02Classes))
			}
			base = append(base, c02Run(r, ecl, 1)...)
		}
	}
	// run
	outs := make([]c02Outcome, len(cases))
	c.Parallel(len(cases), 16, func(i int, _ *Rng) {
		outs[i] = c02Eval(cases[i], wd)
	})
	// report in a deterministic order: shortest failing text first per key
	type vrec struct {
		i int
		v c02Viol
	}
	var vs []vrec
	for i, o := range outs {
		for _, n := range o.notes {
			c.Note(n)
		}
		if len(o.viol) == 0 {
			c.Oracle("dm-oracle", true, "", cases[i].input(), "")
		}
		for _, v := range o.viol {
			vs = append(vs, vrec{i, v})
		}
	}
	sort.SliceStable(vs, func(a, b int) bool {
		la, lb := len(cases[vs[a].i].Msg), len(cases[vs[b].i].Msg)
		if la != lb {
			return la < lb
		}
		return vs[a].i < vs[b].i
	})
	for _, x := range vs {
		c.Oracle("dm-oracle", false, x.v.key, cases[x.i].input(), x.v.detail)
		c.Note("violation:" + x.v.key)
	}
	c02Correspondence(c, cases, outs)
	c02SymSuite(c)
	c02TerminationSweep(c, wd)
}

type c02Witness struct {
	msg string // Latin-1 bytes
	h   c02Hints
}

func c02ParseDim(s string) (int, int) {
	var w, h int
	if _, e := fmt.Sscanf(s, "%dx%d", &w, &h); e != nil {
		return -1, -1
	}
	return w, h
}

// c02LoadCorpus reads corpus/C02/witnesses.txt (next to the harness directory).
func c02LoadCorpus() []c02Witness {
	var ws []c02Witness
	exe, e := os.Executable()
	if e != nil {
		return ws
	}
	b, e := os.ReadFile(filepath.Join(filepath.Dir(exe), "..", "corpus", "C02", "witnesses.txt"))
	if e != nil {
		return ws
	}
	for _, l := range strings.Split(string(b), "\n") {
		f := strings.Fields(l)
		if len(f) != 4 || strings.HasPrefix(l, "#") {
			continue
		}
		m, e := hex.DecodeString(f[0])
		if e != nil {
			continue
		}
		h := c02Hints{0, -1, -1, -1, -1}
		fmt.Sscanf(f[1], "%d", &h.Shape)
		h.MinW, h.MinH = c02ParseDim(f[2])
		h.MaxW, h.MaxH = c02ParseDim(f[3])
		ws = append(ws, c02Witness{string(m), h})
	}
	return ws
}
