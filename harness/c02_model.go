package main

// C02 correspondence suites (Go vs. Lean model, Gzx/Model/DMHighLevel.lean through Gzx/Driver/C02.lean):
//   dm-hl   EncodeHighLevel codewords under every generated hint combination (exact codewords or error kind)
//   dm-dec  DecodedBitStreamParser_decode on encoder outputs and on mutated / arbitrary codeword streams
//           (text as ISO-8859-1 hex, symbology modifier, error kind, panics)  -- also serves C06
//   dm-la   HighLevelEncoder_lookAheadTest decisions at random positions / current modes

import (
	"fmt"

	dmdec "github.com/makiuchi-d/gozxing/datamatrix/decoder"
	dmenc "github.com/makiuchi-d/gozxing/datamatrix/encoder"
)

func c02GoDecode(cw []byte) string {
	return Safe(func() string {
		dr, e := dmdec.DecodedBitStreamParser_decode(append([]byte(nil), cw...))
		if e != nil {
			return "ERR:" + errKind(e)
		}
		l1, _ := c02Latin1(dr.GetText())
		return fmt.Sprintf("%s|m=%d", l1, dr.GetSymbologyModifier())
	})
}

var c02Special = []byte{0, 1, 128, 129, 130, 229, 230, 231, 232, 233, 234, 235, 236, 237, 238, 239, 240, 241, 242, 253, 254, 255, 31, 124}

func c02Mutate(r *Rng, cw []byte) []byte {
	out := append([]byte(nil), cw...)
	n := r.Range(1, 3)
	for k := 0; k < n; k++ {
		switch r.Intn(6) {
		case 0: // overwrite with a special codeword
			if len(out) > 0 {
				out[r.Intn(len(out))] = c02Special[r.Intn(len(c02Special))]
			}
		case 1: // random byte
			if len(out) > 0 {
				out[r.Intn(len(out))] = byte(r.Intn(256))
			}
		case 2: // truncate
			if len(out) > 0 {
				out = out[:r.Intn(len(out)+1)]
			}
		case 3: // insert
			p := r.Intn(len(out) + 1)
			b := byte(r.Intn(256))
			if r.Bool() {
				b = c02Special[r.Intn(len(c02Special))]
			}
			out = append(out[:p], append([]byte{b}, out[p:]...)...)
		case 4: // delete one
			if len(out) > 0 {
				p := r.Intn(len(out))
				out = append(out[:p], out[p+1:]...)
			}
		case 5: // zero pair (parseTwoBytes of 0,0 gives a negative value)
			if len(out) > 1 {
				p := r.Intn(len(out) - 1)
				out[p], out[p+1] = 0, 0
			}
		}
	}
	return out
}

func c02Correspondence(c *Ctx, cases []c02Case, outs []c02Outcome) {
	r := c.Rng.Fork()
	// the Lean driver is slower than the Go code: in the quick tier long messages are sampled
	keep := func(k c02Case) bool {
		if c.Thorough || len(k.Msg) <= 120 {
			return true
		}
		if len(k.Msg) <= 600 {
			return r.Chance(0.5)
		}
		return r.Chance(0.12)
	}
	// the two end-of-message assumptions about the look-ahead under which dm_roundtrip_five_modes_partial is
	// proved (LaTailAscii, LaX12Tail), checked on the real HighLevelEncoder_lookAheadTest for every message
	for _, k := range cases {
		tot := len(k.Msg)
		if c02IsMacro(k.Msg) {
			tot -= 2
		}
		if tot < 1 {
			continue
		}
		ok, detail := true, ""
		if m := dmenc.HighLevelEncoder_lookAheadTest(k.Msg, tot-1, 0); m != 0 {
			ok, detail = false, fmt.Sprintf("lookAheadTest(msg, total-1, ASCII) = %d, not ASCII", m)
		}
		if tot >= 4 && k.Msg[tot-1] >= 128 {
			if dmenc.HighLevelEncoder_lookAheadTest(k.Msg, tot-4, 3) == 3 || dmenc.HighLevelEncoder_lookAheadTest(k.Msg, tot-4, 0) == 3 {
				ok, detail = false, "look-ahead keeps/enters X12 for a last triplet followed by one extended character"
			}
			c.Note("la-assumption:x12-tail-checked")
		}
		c.Oracle("dm-la-assumption", ok, "dm-la-tail-assumption", "text="+hexs(k.Msg), detail)
	}
	nDec := 0
	for i, k := range cases {
		o := outs[i]
		if o.hlGo == "" || o.hlGo == "SKIPPED" || o.hlGo == "TIMEOUT" {
			continue
		}
		if !keep(k) {
			continue
		}
		// dm-hl
		c.Cmp("dm-hl", fmt.Sprintf("c02 enc %s %s", hexs(k.Msg), k.Hints), o.hlGo)
		// dm-la at a few positions of this message
		for j := 0; j < 2; j++ {
			pos := r.Intn(len(k.Msg) + 1)
			mode := r.Intn(6)
			g := Safe(func() string {
				return fmt.Sprint(dmenc.HighLevelEncoder_lookAheadTest(k.Msg, pos, mode))
			})
			c.Cmp("dm-la", fmt.Sprintf("c02 la %s %d %d", hexs(k.Msg), pos, mode), g)
		}
		// dm-dec on the encoder's output and on mutations of it
		if o.hlCw != nil {
			c.Cmp("dm-dec", "c02 dec "+hexs(o.hlCw), c02GoDecode(o.hlCw))
			nDec++
			if len(o.hlCw) <= 64 || r.Chance(0.2) {
				for j := 0; j < 3; j++ {
					m := c02Mutate(r, o.hlCw)
					g := c02GoDecode(m)
					c.Cmp("dm-dec", "c02 dec "+hexs(m), g)
					if len(g) >= 4 && g[:4] == "ERR:" || g == "PANIC" {
						c.Note("dec-mutated:" + g)
					} else {
						c.Note("dec-mutated:ok")
					}
				}
			}
		}
	}
	// arbitrary codeword streams: short exhaustive-ish over the special codewords, then random
	for _, a := range c02Special {
		for _, b := range c02Special {
			for _, d := range []byte{0, 65, 129, 254} {
				m := []byte{a, b, d}
				c.Cmp("dm-dec", "c02 dec "+hexs(m), c02GoDecode(m))
			}
		}
	}
	nRand := c.Pick(6000, 200000)
	for i := 0; i < nRand; i++ {
		n := r.Intn(24)
		if r.Chance(0.1) {
			n = r.Intn(300)
		}
		m := make([]byte, n)
		for j := range m {
			switch r.Intn(4) {
			case 0:
				m[j] = c02Special[r.Intn(len(c02Special))]
			case 1:
				m[j] = byte(r.Range(1, 128))
			default:
				m[j] = byte(r.Intn(256))
			}
		}
		g := c02GoDecode(m)
		c.Cmp("dm-dec", "c02 dec "+hexs(m), g)
		if len(g) >= 4 && g[:4] == "ERR:" || g == "PANIC" {
			c.Note("dec-arbitrary:" + g)
		} else {
			c.Note("dec-arbitrary:ok")
		}
	}
	c.NoteN("dec-encoder-outputs", nDec)
}

func c02IsMacro(m []byte) bool {
	if len(m) < 9 {
		return false
	}
	h := string(m[:7])
	return (h == "[)>\x1e05\x1d" || h == "[)>\x1e06\x1d") && m[len(m)-2] == 0x1e && m[len(m)-1] == 0x04
}
