package main

// C02 correspondence suites (Go vs. Lean model): filled in below.

func c02Correspondence(c *Ctx, cases []c02Case, outs []c02Outcome) {}
