package main

// C02 correspondence suites (Go vs. Lean model, Gzx/Model/DMHighLevel.lean through Gzx/Driver/C02.lean):
//   dm-hl   EncodeHighLevel codewords under every generated hint combination (exact codewords or error kind)
//   dm-dec  DecodedBitStreamParser_decode on encoder outputs and on mutated / arbitrary codeword streams
//           (text as ISO-8859-1 hex, symbology modifier, error kind, panics)  -- also serves C06
//   dm-la   HighLevelEncoder_lookAheadTest decisions at random positions / current modes

import (
	"fmt"
	"math"
	"strings"

	dmdec "github.com/makiuchi-d/gozxing/datamatrix/decoder"
	dmenc "github.com/makiuchi-d/gozxing/datamatrix/encoder"
)

func c02GoDecode(cw []byte) string {
	return Safe(func() string {
		dr, e := dmdec.DecodedBitStreamParser_decode(append([]byte(nil), cw...))
		if e != nil {
			return "ERR:" + errKind(e)
		}
		l1, _ := c02Latin1(dr.GetText())
		return fmt.Sprintf("%s|m=%d", l1, dr.GetSymbologyModifier())
	})
}

var c02Special = []byte{0, 1, 128, 129, 130, 229, 230, 231, 232, 233, 234, 235, 236, 237, 238, 239, 240, 241, 242, 253, 254, 255, 31, 124}

func c02Mutate(r *Rng, cw []byte) []byte {
	out := append([]byte(nil), cw...)
	n := r.Range(1, 3)
	for k := 0; k < n; k++ {
		switch r.Intn(6) {
		case 0: // overwrite with a special codeword
			if len(out) > 0 {
				out[r.Intn(len(out))] = c02Special[r.Intn(len(c02Special))]
			}
		case 1: // random byte
			if len(out) > 0 {
				out[r.Intn(len(out))] = byte(r.Intn(256))
			}
		case 2: // truncate
			if len(out) > 0 {
				out = out[:r.Intn(len(out)+1)]
			}
		case 3: // insert
			p := r.Intn(len(out) + 1)
			b := byte(r.Intn(256))
			if r.Bool() {
				b = c02Special[r.Intn(len(c02Special))]
			}
			out = append(out[:p], append([]byte{b}, out[p:]...)...)
		case 4: // delete one
			if len(out) > 0 {
				p := r.Intn(len(out))
				out = append(out[:p], out[p+1:]...)
			}
		case 5: // zero pair (parseTwoBytes of 0,0 gives a negative value)
			if len(out) > 1 {
				p := r.Intn(len(out) - 1)
				out[p], out[p+1] = 0, 0
			}
		}
	}
	return out
}

func c02Correspondence(c *Ctx, cases []c02Case, outs []c02Outcome) {
	r := c.Rng.Fork()
	// the Lean driver is slower than the Go code: in the quick tier long messages are sampled
	keep := func(k c02Case) bool {
		if c.Thorough || len(k.Msg) <= 120 {
			return true
		}
		if len(k.Msg) <= 600 {
			return r.Chance(0.5)
		}
		return r.Chance(0.12)
	}
	// the two end-of-message assumptions about the look-ahead under which dm_roundtrip_five_modes_partial is
	// proved (LaTailAscii, LaX12Tail), checked on the real HighLevelEncoder_lookAheadTest for every message
	for _, k := range cases {
		tot := len(k.Msg)
		if c02IsMacro(k.Msg) {
			tot -= 2
		}
		if tot < 1 {
			continue
		}
		ok, detail := true, ""
		if m := dmenc.HighLevelEncoder_lookAheadTest(k.Msg, tot-1, 0); m != 0 {
			ok, detail = false, fmt.Sprintf("lookAheadTest(msg, total-1, ASCII) = %d, not ASCII", m)
		}
		if tot >= 4 && k.Msg[tot-1] >= 128 {
			if dmenc.HighLevelEncoder_lookAheadTest(k.Msg, tot-4, 3) == 3 || dmenc.HighLevelEncoder_lookAheadTest(k.Msg, tot-4, 0) == 3 {
				ok, detail = false, "look-ahead keeps/enters X12 for a last triplet followed by one extended character"
			}
			c.Note("la-assumption:x12-tail-checked")
		}
		c.Oracle("dm-la-assumption", ok, "dm-la-tail-assumption", "text="+hexs(k.Msg), detail)
	}
	c02LookAheadSweep(c)
	nDec := 0
	for i, k := range cases {
		o := outs[i]
		if o.hlGo == "" || o.hlGo == "SKIPPED" || o.hlGo == "TIMEOUT" {
			continue
		}
		if !keep(k) {
			continue
		}
		// dm-hl
		c.Cmp("dm-hl", fmt.Sprintf("c02 enc %s %s", hexs(k.Msg), k.Hints), o.hlGo)
		// dm-la at a few positions of this message
		for j := 0; j < 2; j++ {
			pos := r.Intn(len(k.Msg) + 1)
			mode := r.Intn(6)
			g := Safe(func() string {
				return fmt.Sprint(dmenc.HighLevelEncoder_lookAheadTest(k.Msg, pos, mode))
			})
			c.Cmp("dm-la", fmt.Sprintf("c02 la %s %d %d", hexs(k.Msg), pos, mode), g)
			c02CmpLookAhead(c, k.Msg, pos, mode, g)
		}
		// EncodeHighLevel with `laExact` as the look-ahead: exact codewords
		c.CmpF("dm-hl", fmt.Sprintf("c02 encx %s %s", hexs(k.Msg), k.Hints), o.hlGo, c02CmpExact(c, "hl"))
		// dm-dec on the encoder's output and on mutations of it
		if o.hlCw != nil {
			c.Cmp("dm-dec", "c02 dec "+hexs(o.hlCw), c02GoDecode(o.hlCw))
			nDec++
			if len(o.hlCw) <= 64 || r.Chance(0.2) {
				for j := 0; j < 3; j++ {
					m := c02Mutate(r, o.hlCw)
					g := c02GoDecode(m)
					c.Cmp("dm-dec", "c02 dec "+hexs(m), g)
					if len(g) >= 4 && g[:4] == "ERR:" || g == "PANIC" {
						c.Note("dec-mutated:" + g)
					} else {
						c.Note("dec-mutated:ok")
					}
				}
			}
		}
	}
	// arbitrary codeword streams: short exhaustive-ish over the special codewords, then random
	for _, a := range c02Special {
		for _, b := range c02Special {
			for _, d := range []byte{0, 65, 129, 254} {
				m := []byte{a, b, d}
				c.Cmp("dm-dec", "c02 dec "+hexs(m), c02GoDecode(m))
			}
		}
	}
	nRand := c.Pick(6000, 200000)
	for i := 0; i < nRand; i++ {
		n := r.Intn(24)
		if r.Chance(0.1) {
			n = r.Intn(300)
		}
		m := make([]byte, n)
		for j := range m {
			switch r.Intn(4) {
			case 0:
				m[j] = c02Special[r.Intn(len(c02Special))]
			case 1:
				m[j] = byte(r.Range(1, 128))
			default:
				m[j] = byte(r.Intn(256))
			}
		}
		g := c02GoDecode(m)
		c.Cmp("dm-dec", "c02 dec "+hexs(m), g)
		if len(g) >= 4 && g[:4] == "ERR:" || g == "PANIC" {
			c.Note("dec-arbitrary:" + g)
		} else {
			c.Note("dec-arbitrary:ok")
		}
	}
	c.NoteN("dec-encoder-outputs", nDec)
}

// c02CmpExact compares the float64 code with the PLAIN exact-arithmetic model (`laExact`, no float rounding) as a
// statistic only: a difference is a float64 artefact (a sum of thirds that comes out a few ulp above an integer, so
// that math.Ceil is one higher), counted as `laexact-<what>:float-artefact` and not reported as a disagreement.
// The exact tie between code and model is `laxr` below.
func c02CmpExact(c *Ctx, what string) func(goOut, model string) (ok, skip bool) {
	return func(goOut, model string) (bool, bool) {
		// called by the framework with c.mu held: count directly
		if goOut == model {
			c.res.Distribution["laexact-"+what+":agree"]++
			return true, false
		}
		c.res.Distribution["laexact-"+what+":float-artefact"]++
		return true, true
	}
}

// c02LaBumps recomputes the six counts of lookAheadTest in float64 (the operations of the library) next to exact
// integers in units of 1/12 and returns, per processed character, which of the C40 / Text / X12 counts has
// int(math.Ceil(float)) one above the exact ceiling (bit mask 1 / 2 / 4).  ok=false if float64 and exact arithmetic
// differ in any other way than "a sum of thirds whose exact value is an integer is rounded up": that is the
// assumption under which the Lean model `laExactR` describes the float64 code.
func c02LaBumps(msg []byte, pos, mode int) (string, bool) {
	if pos >= len(msg) {
		return "-", true
	}
	f := []float64{1, 2, 2, 2, 2, 2.25}
	e := []int{12, 24, 24, 24, 24, 27}
	if mode == 0 {
		f = []float64{0, 1, 1, 1, 1, 1.25}
		e = []int{0, 12, 12, 12, 12, 15}
	} else if mode >= 0 && mode < 6 {
		f[mode], e[mode] = 0, 0
	}
	isDigit := func(ch byte) bool { return ch >= '0' && ch <= '9' }
	upper := func(ch byte) bool { return ch >= 'A' && ch <= 'Z' }
	sep := func(ch byte) bool { return ch == 13 || ch == '*' || ch == '>' }
	out := make([]byte, 0, len(msg)-pos)
	ok := true
	for i := pos; i < len(msg); i++ {
		ch := msg[i]
		ext := ch >= 128
		switch {
		case isDigit(ch):
			f[0] += 0.5
			e[0] += 6
		case ext:
			f[0] = math.Ceil(f[0]) + 2.0
			e[0] = (e[0]+11)/12*12 + 24
		default:
			f[0] = math.Ceil(f[0]) + 1
			e[0] = (e[0]+11)/12*12 + 12
		}
		add := func(k int, native bool, fn, fe, fo float64, en, ee, eo int) {
			switch {
			case native:
				f[k] += fn
				e[k] += en
			case ext:
				f[k] += fe
				e[k] += ee
			default:
				f[k] += fo
				e[k] += eo
			}
		}
		add(1, ch == ' ' || isDigit(ch) || upper(ch), 2.0/3.0, 8.0/3.0, 4.0/3.0, 8, 32, 16)
		add(2, ch == ' ' || isDigit(ch) || (ch >= 'a' && ch <= 'z'), 2.0/3.0, 8.0/3.0, 4.0/3.0, 8, 32, 16)
		add(3, sep(ch) || ch == ' ' || isDigit(ch) || upper(ch), 2.0/3.0, 13.0/3.0, 10.0/3.0, 8, 52, 40)
		add(4, ch >= ' ' && ch <= '^', 3.0/4.0, 17.0/4.0, 13.0/4.0, 9, 51, 39)
		f[5]++
		e[5] += 12
		mask := 0
		for k := 0; k < 6; k++ {
			fi, ei := int(math.Ceil(f[k])), (e[k]+11)/12
			if fi == ei {
				continue
			}
			if k >= 1 && k <= 3 && fi == ei+1 && e[k]%12 == 0 {
				mask |= 1 << (k - 1)
			} else {
				ok = false
			}
		}
		out = append(out, byte('0'+mask))
	}
	return string(out), ok
}

// c02CmpLookAhead: one decision of the real HighLevelEncoder_lookAheadTest (`g`) against
//   laxr  `laExactR` with the float roundings observed by c02LaBumps — exact comparison: this is the tie between
//         the float64 code and the integer model the theorems quantify over (every rounding oracle);
//   lax   plain exact arithmetic — statistic only (how often float64 decides differently).
func c02CmpLookAhead(c *Ctx, msg []byte, pos, mode int, g string) {
	bumps, ok := c02LaBumps(msg, pos, mode)
	if !ok {
		g = "FLOAT-ASSUMPTION-BROKEN " + g
	}
	if strings.Trim(bumps, "0") == "" {
		bumps = "-"
		c.Note("la-float:no-rounding-difference")
	} else {
		c.Note("la-float:ceil-one-higher-at-an-integer-sum-of-thirds")
	}
	c.Cmp("dm-la", fmt.Sprintf("c02 laxr %s %d %d %s", hexs(msg), pos, mode, bumps), g)
	c.CmpF("dm-la", fmt.Sprintf("c02 lax %s %d %d", hexs(msg), pos, mode), g, c02CmpExact(c, "la"))
}

// c02LookAheadSweep: look-ahead decisions of the float64 code vs `laExact` on messages built from one
// representative per character class (digit, space, upper, lower, CR, '*', '>', other EDIFACT, control, '`',
// extended), every start position, every current mode.  Sums of thirds and quarters near integers are where
// float rounding could differ from exact arithmetic.
func c02LookAheadSweep(c *Ctx) {
	r := c.Rng.Fork()
	reps := []byte{'5', ' ', 'K', 'k', 13, '*', '>', '!', 1, '`', 0xE9, '[', 0x80, 'Z', '0', 'z'}
	n := c.Pick(2500, 60000)
	for i := 0; i < n; i++ {
		l := r.Range(1, 14)
		if r.Chance(0.3) {
			l = r.Range(14, 60)
		}
		m := make([]byte, l)
		// runs of one class make long sums of the same fraction
		for j := 0; j < l; {
			b := reps[r.Intn(len(reps))]
			run := r.Range(1, 7)
			for k := 0; k < run && j < l; k++ {
				m[j] = b
				j++
			}
		}
		if r.Chance(0.05) && l >= 2 {
			m = append(append([]byte("[)>\x1e05\x1d"), m...), 0x1e, 0x04)
		}
		for pos := 0; pos <= len(m); pos++ {
			if pos > 12 && !r.Chance(0.2) {
				continue
			}
			for mode := 0; mode < 6; mode++ {
				g := Safe(func() string {
					return fmt.Sprint(dmenc.HighLevelEncoder_lookAheadTest(m, pos, mode))
				})
				c02CmpLookAhead(c, m, pos, mode, g)
			}
		}
	}
}

func c02IsMacro(m []byte) bool {
	if len(m) < 9 {
		return false
	}
	h := string(m[:7])
	return (h == "[)>\x1e05\x1d" || h == "[)>\x1e06\x1d") && m[len(m)-2] == 0x1e && m[len(m)-1] == 0x04
}
