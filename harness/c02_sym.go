package main

// C02 / C05 (Data Matrix half), suite dm-sym: the whole `Decoder.Decode` of datamatrix/decoder/decoder.go on the
// symbols the theorems `C02.dm_symbol_roundtrip_partial` and `C05DM.dm_tolerates_block_errors…` speak about:
//   * data codewords d (ASCII encodation of a random text that fills the symbol exactly), real
//     ErrorCorrection_EncodeECC200 → codeword stream; some codewords replaced by other bytes — in every
//     interleaved block (positions p with p mod B = b) at most floor(blkErr/2), or exactly one more in one block;
//   * the symbol CARRYING that stream is built by the Lean reference (`c08 matrix`: Annex-F placement + finder /
//     clock framing = DMRef.symbolOfCodewords, what the theorems quantify over);
//   * real Decoder.Decode(bits) → text / error kind, compared with the model `DMDec.decodeMatrix` (`c02 symdec`);
//   * oracle (real code, property C05 for Data Matrix): within the tolerance the text is exactly the original.

import (
	"fmt"

	dmdec "github.com/makiuchi-d/gozxing/datamatrix/decoder"
	dmenc "github.com/makiuchi-d/gozxing/datamatrix/encoder"
)

func c02SymSuite(c *Ctx) {
	r := c.Rng.Fork()
	syms := dmenc.VerifSymbols()
	alpha := []byte("ABCDEFGHIJKLMNOPQRSTUVWXYZ abcdefghijklmnopqrstuvwxyz!?%&")
	rounds := c.Pick(1, 6)
	for idx, s := range syms {
		cap, nErr := s.GetDataCapacity(), s.GetErrorCodewords()
		B := s.GetInterleavedBlockCount()
		if B <= 0 {
			continue
		}
		blkErr := nErr / B
		t := blkErr / 2
		dim := c08Dim(s)
		for round := 0; round < rounds; round++ {
			for variant := 0; variant < 4; variant++ {
				// text of exactly `cap` characters without digit pairs: one ASCII codeword (ch+1) per character
				txt := make([]byte, cap)
				d := make([]byte, cap)
				for i := range txt {
					txt[i] = alpha[r.Intn(len(alpha))]
					d[i] = txt[i] + 1
				}
				cw, e := dmenc.ErrorCorrection_EncodeECC200(d, s)
				if e != nil || len(cw) != cap+nErr {
					c.Oracle("dm-sym", false, "dm-sym-ecc-"+dim, "text="+hexs(txt), fmt.Sprint("EncodeECC200 failed: ", e))
					continue
				}
				raw := append([]byte(nil), cw...)
				within := true
				what := ""
				damage := func(b, n int) {
					// n distinct positions p ≡ b (mod B), each replaced by a different byte
					var pos []int
					for p := b; p < len(raw); p += B {
						pos = append(pos, p)
					}
					for k := 0; k < n && len(pos) > 0; k++ {
						i := r.Intn(len(pos))
						p := pos[i]
						pos = append(pos[:i], pos[i+1:]...)
						raw[p] ^= byte(r.Range(1, 255))
					}
				}
				switch variant {
				case 0:
					what = "clean"
				case 1: // exactly floor(blkErr/2) in EVERY block
					what = "t-per-block"
					for b := 0; b < B; b++ {
						damage(b, t)
					}
				case 2: // a random number ≤ t per block
					what = "le-t-per-block"
					for b := 0; b < B; b++ {
						damage(b, r.Intn(t+1))
					}
				case 3: // t+1 in one block: beyond the guarantee
					what = "t+1-in-one-block"
					within = false
					damage(r.Intn(B), t+1)
				}
				c.Note("dm-sym:" + what)
				c.Note("dm-sym-size:" + dim)
				opMx := fmt.Sprintf("c08 matrix %d %s", idx, hexs(raw))
				refMx := c.Model([]string{opMx})[0]
				if !c08RefOK(c, refMx) {
					continue
				}
				bm := c08ParseMatrix(refMx)
				if bm == nil {
					c.Remark("dm-sym: reference matrix unusable for size " + dim)
					continue
				}
				goOut := Safe(func() string {
					dr, e := dmdec.NewDecoder().Decode(bm)
					if e != nil {
						return "ERR:" + errKind(e)
					}
					l1, _ := c02Latin1(dr.GetText())
					return l1
				})
				c.Cmp("dm-sym", "c02 symdec "+refMx, goOut)
				if within {
					c.Oracle("dm-sym", goOut == hexs(txt), "dm-sym-tolerance-"+dim,
						fmt.Sprintf("size=%s faults=%s stream=%s", dim, what, hexs(raw)),
						"Decoder.Decode of a symbol with at most floor(ec/2) damaged codewords per block returned "+c08Short(goOut)+", not the original text")
				} else if goOut == hexs(txt) {
					c.Note("dm-sym:beyond-tolerance-still-read")
				} else {
					c.Note("dm-sym:beyond-tolerance-" + goOut)
				}
			}
		}
	}
}
