package main

// C02 / C05 (Data Matrix half), suite dm-sym: the whole `Decoder.Decode` of datamatrix/decoder/decoder.go on the
// symbols the theorems `C02.dm_symbol_roundtrip_partial` and `C05DM.dm_tolerates_block_errors…` speak about:
//   * data codewords d (ASCII encodation of a random text that fills the symbol exactly), real
//     ErrorCorrection_EncodeECC200 → codeword stream; some codewords replaced by other bytes — in every
//     interleaved block (positions p with p mod B = b) at most floor(blkErr/2), or exactly one more in one block;
//   * the symbol CARRYING that stream is built by the Lean reference (`c08 matrix`: Annex-F placement + finder /
//     clock framing = DMRef.symbolOfCodewords, what the theorems quantify over);
//   * real Decoder.Decode(bits) → text / error kind, compared with the model `DMDec.decodeMatrix` (`c02 symdec`);
//   * oracle (real code, property C05 for Data Matrix): within the tolerance the text is exactly the original.

import (
	"fmt"
	"sync/atomic"
	"time"

	dmdec "github.com/makiuchi-d/gozxing/datamatrix/decoder"
	dmenc "github.com/makiuchi-d/gozxing/datamatrix/encoder"
)

func c02SymSuite(c *Ctx) {
	r := c.Rng.Fork()
	syms := dmenc.VerifSymbols()
	alpha := []byte("ABCDEFGHIJKLMNOPQRSTUVWXYZ abcdefghijklmnopqrstuvwxyz!?%&")
	rounds := c.Pick(1, 6)
	for idx, s := range syms {
		cap, nErr := s.GetDataCapacity(), s.GetErrorCodewords()
		B := s.GetInterleavedBlockCount()
		if B <= 0 {
			continue
		}
		blkErr := nErr / B
		t := blkErr / 2
		dim := c08Dim(s)
		for round := 0; round < rounds; round++ {
			for variant := 0; variant < 4; variant++ {
				// text of exactly `cap` characters without digit pairs: one ASCII codeword (ch+1) per character
				txt := make([]byte, cap)
				d := make([]byte, cap)
				for i := range txt {
					txt[i] = alpha[r.Intn(len(alpha))]
					d[i] = txt[i] + 1
				}
				cw, e := dmenc.ErrorCorrection_EncodeECC200(d, s)
				if e != nil || len(cw) != cap+nErr {
					c.Oracle("dm-sym", false, "dm-sym-ecc-"+dim, "text="+hexs(txt), fmt.Sprint("EncodeECC200 failed: ", e))
					continue
				}
				raw := append([]byte(nil), cw...)
				within := true
				what := ""
				damage := func(b, n int) {
					// n distinct positions p ≡ b (mod B), each replaced by a different byte
					var pos []int
					for p := b; p < len(raw); p += B {
						pos = append(pos, p)
					}
					for k := 0; k < n && len(pos) > 0; k++ {
						i := r.Intn(len(pos))
						p := pos[i]
						pos = append(pos[:i], pos[i+1:]...)
						raw[p] ^= byte(r.Range(1, 255))
					}
				}
				switch variant {
				case 0:
					what = "clean"
				case 1: // exactly floor(blkErr/2) in EVERY block
					what = "t-per-block"
					for b := 0; b < B; b++ {
						damage(b, t)
					}
				case 2: // a random number ≤ t per block
					what = "le-t-per-block"
					for b := 0; b < B; b++ {
						damage(b, r.Intn(t+1))
					}
				case 3: // t+1 in one block: beyond the guarantee
					what = "t+1-in-one-block"
					within = false
					damage(r.Intn(B), t+1)
				}
				c.Note("dm-sym:" + what)
				c.Note("dm-sym-size:" + dim)
				opMx := fmt.Sprintf("c08 matrix %d %s", idx, hexs(raw))
				refMx := c.Model([]string{opMx})[0]
				if !c08RefOK(c, refMx) {
					continue
				}
				bm := c08ParseMatrix(refMx)
				if bm == nil {
					c.Remark("dm-sym: reference matrix unusable for size " + dim)
					continue
				}
				goOut := Safe(func() string {
					dr, e := dmdec.NewDecoder().Decode(bm)
					if e != nil {
						return "ERR:" + errKind(e)
					}
					l1, _ := c02Latin1(dr.GetText())
					return l1
				})
				c.Cmp("dm-sym", "c02 symdec "+refMx, goOut)
				if within {
					c.Oracle("dm-sym", goOut == hexs(txt), "dm-sym-tolerance-"+dim,
						fmt.Sprintf("size=%s faults=%s stream=%s", dim, what, hexs(raw)),
						"Decoder.Decode of a symbol with at most floor(ec/2) damaged codewords per block returned "+c08Short(goOut)+", not the original text")
				} else if goOut == hexs(txt) {
					c.Note("dm-sym:beyond-tolerance-still-read")
				} else {
					c.Note("dm-sym:beyond-tolerance-" + goOut)
				}
			}
		}
	}
}

// c02TerminationSweep: termination of the dispatch loop of EncodeHighLevel is not a theorem (the look-ahead may
// ask for a latch whose encoder call consumes nothing; see Properties/C02.lean `dm_terminates…`).  This sweep runs
// the REAL EncodeHighLevel under the watchdog on EVERY string of length ≤ 5 (quick) / ≤ 6 (thorough) over one
// representative of each character class the look-ahead and the encoders distinguish (incl. the characters whose
// C40/Text value count is 1, 2, 3 and 4 — the end-of-message backtracking depends on it), with and without a
// macro 05 envelope for the shorter ones, and checks the codeword-level read-back.
func c02TerminationSweep(c *Ctx, wd time.Duration) {
	reps := []byte{'5', ' ', 'K', 'k', 13, '*', '!', 1, '`', 0xE9, 0xC1, 0xB0, 0x8D}
	maxLen := c.Pick(5, 6)
	type job struct{ prefix []byte }
	var jobs []job
	for _, a := range reps {
		for _, b := range reps {
			jobs = append(jobs, job{[]byte{a, b}})
		}
	}
	var hangs, total int64
	c.Parallel(len(jobs), 16, func(i int, _ *Rng) {
		var rec func(m []byte)
		try := func(m []byte) {
			atomic.AddInt64(&total, 1)
			msg := append([]byte(nil), m...)
			out := SafeT(wd, func() string {
				cw, e := dmenc.EncodeHighLevel(c02ToString(msg), dmenc.SymbolShapeHint_FORCE_NONE, nil, nil)
				if e != nil {
					return "ERR:" + errKind(e)
				}
				dr, e := dmdec.DecodedBitStreamParser_decode(append([]byte(nil), cw...))
				if e != nil {
					return "DEC-ERR:" + errKind(e)
				}
				l1, _ := c02Latin1(dr.GetText())
				return l1
			})
			if out == "TIMEOUT" {
				atomic.AddInt64(&hangs, 1)
				c.Oracle("dm-term", false, "dm-encode-hang", "text="+hexs(msg), "EncodeHighLevel did not return within the watchdog (exhaustive short-string sweep)")
			} else if out != hexs(msg) {
				c.Oracle("dm-term", false, "dm-hl-roundtrip", "text="+hexs(msg), "exhaustive short-string sweep: EncodeHighLevel -> DecodedBitStreamParser_decode gave "+c08Short(out))
			}
		}
		rec = func(m []byte) {
			try(m)
			if len(m) <= 4 {
				try(append(append([]byte("[)>\x1e05\x1d"), m...), 0x1e, 0x04))
			}
			if len(m) == maxLen {
				return
			}
			for _, a := range reps {
				rec(append(m, a))
			}
		}
		if i < len(reps) { // the one-character strings
			try([]byte{reps[i]})
		}
		rec(jobs[i].prefix)
	})
	c.NoteN("dm-term:strings-swept", int(total))
	c.NoteN("dm-term:hangs", int(hangs))
}
