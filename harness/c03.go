package main

// C03 — 1-D symbologies: what is written is what is read.
//
//  layers compared with the Lean model (Gzx.OneD): writer module patterns (MARGIN=0), the rendered row for every
//  geometry, the UPC/EAN row decoder and the multi-format dispatch on the rendered rows, the module-level
//  decoders for Code 39/93/128/ITF/Codabar;
//  oracle on the real code: the module pattern is the content by the standards' tables (independent decoder of
//  c10_tables.go / c03_tables.go), writer -> image -> BinaryBitmap (Hybrid and GlobalHistogram binarizer) ->
//  matching reader (and the multi-format UPC/EAN reader with and without POSSIBLE_FORMATS) returns the canonical
//  content and format, and contents of the wrong length / alphabet / check digit are refused.

import (
	"unicode/utf8"
	"fmt"
	"strings"

	"github.com/makiuchi-d/gozxing"
	"github.com/makiuchi-d/gozxing/oned"
)

func init() { suites["C03"] = runC03 }

type c03Case struct {
	content  string
	want     string // canonical text the reader must return
	forced   string // Code 128 FORCE_CODE_SET ("" = none)
	extended bool   // Code 39: needs the full-ASCII reader
	tag      string
}

type c03Sym struct {
	name   string
	format gozxing.BarcodeFormat
	margin int // the writer's default margin
	writer func() gozxing.Writer
	reader func(cs c03Case) gozxing.Reader
	text   func(mods []bool, cs c03Case) (string, bool) // independent module-level reading
}

func c03Hints(cs c03Case, margin int) map[gozxing.EncodeHintType]interface{} {
	h := map[gozxing.EncodeHintType]interface{}{}
	if margin >= 0 {
		h[gozxing.EncodeHintType_MARGIN] = margin
	}
	if cs.forced != "" {
		h[gozxing.EncodeHintType_FORCE_CODE_SET] = cs.forced
	}
	return h
}

func c03Plain(f func() gozxing.Reader) func(c03Case) gozxing.Reader {
	return func(c03Case) gozxing.Reader { return f() }
}

var c03Unesc39, c03Unesc93 = map[string]byte{}, map[string]byte{}

func init() {
	for c := 0; c < 128; c++ {
		c03Unesc39[c03Code39FullASCII(byte(c))] = byte(c)
		c03Unesc93[c03Code93FullASCII(byte(c))] = byte(c)
	}
}

func c03Unescape(s string, shifts string, tbl map[string]byte) (string, bool) {
	var out []byte
	for i := 0; i < len(s); {
		n := 1
		if strings.IndexByte(shifts, s[i]) >= 0 {
			n = 2
		}
		if i+n > len(s) {
			return "", false
		}
		c, ok := tbl[s[i:i+n]]
		if !ok {
			return "", false
		}
		out = append(out, c)
		i += n
	}
	return string(out), true
}

func c03Syms() []c03Sym {
	upc := func(kind string) func([]bool, c03Case) (string, bool) {
		return func(m []bool, _ c03Case) (string, bool) {
			s := c10ReadModules(kind, m)
			if kind == "upca" && len(s) == 13 && s[0] == '0' {
				s = s[1:]
			}
			return s, s != ""
		}
	}
	return []c03Sym{
		{"ean13", gozxing.BarcodeFormat_EAN_13, 9, oned.NewEAN13Writer, c03Plain(oned.NewEAN13Reader), upc("ean13")},
		{"ean8", gozxing.BarcodeFormat_EAN_8, 9, oned.NewEAN8Writer, c03Plain(oned.NewEAN8Reader), upc("ean8")},
		{"upca", gozxing.BarcodeFormat_UPC_A, 9, oned.NewUPCAWriter, c03Plain(oned.NewUPCAReader), upc("upca")},
		{"upce", gozxing.BarcodeFormat_UPC_E, 9, oned.NewUPCEWriter, c03Plain(oned.NewUPCEReader), upc("upce")},
		{"code39", gozxing.BarcodeFormat_CODE_39, 10, oned.NewCode39Writer,
			func(cs c03Case) gozxing.Reader { return oned.NewCode39ReaderWithFlags(false, cs.extended) },
			func(m []bool, cs c03Case) (string, bool) {
				idx := c03ReadCode39(m)
				if idx == nil {
					return "", false
				}
				b := make([]byte, len(idx))
				for i, v := range idx {
					b[i] = c03Code39Alphabet[v]
				}
				if cs.extended {
					return c03Unescape(string(b), "$%/+", c03Unesc39)
				}
				return string(b), true
			}},
		{"code93", gozxing.BarcodeFormat_CODE_93, 10, oned.NewCode93Writer, c03Plain(oned.NewCode93Reader),
			func(m []bool, _ c03Case) (string, bool) {
				v := c10ReadCode93(m)
				if v == nil || len(v) < 4 || v[0] != 47 || v[len(v)-1] != 47 {
					return "", false
				}
				in := v[1 : len(v)-1]
				data := in[:len(in)-2]
				cc := c10Code93Check(data, 20)
				if in[len(in)-2] != cc || in[len(in)-1] != c10Code93Check(append(append([]int(nil), data...), cc), 15) {
					return "", false
				}
				b := make([]byte, len(data))
				for i, x := range data {
					if x >= 47 {
						return "", false
					}
					b[i] = c10Code93Alphabet[x]
				}
				return c03Unescape(string(b), "abcd", c03Unesc93)
			}},
		{"code128", gozxing.BarcodeFormat_CODE_128, 10, oned.NewCode128Writer, c03Plain(oned.NewCode128Reader),
			func(m []bool, _ c03Case) (string, bool) {
				codes := c10ReadCode128(m)
				if codes == nil || len(codes) < 3 {
					return "", false
				}
				body := codes[:len(codes)-1]
				if body[len(body)-1] != c10Code128Check(body[:len(body)-1]) {
					return "", false
				}
				return c03Code128Text(body)
			}},
		{"itf", gozxing.BarcodeFormat_ITF, 10, oned.NewITFWriter, c03Plain(oned.NewITFReader),
			func(m []bool, _ c03Case) (string, bool) {
				ds := c03ReadITF(m)
				return c10DigStr(ds), ds != nil
			}},
		{"codabar", gozxing.BarcodeFormat_CODABAR, 10, oned.NewCodaBarWriter, c03Plain(oned.NewCodaBarReader),
			func(m []bool, _ c03Case) (string, bool) {
				idx := c03ReadCodabar(m)
				if idx == nil || len(idx) < 2 || idx[0] < 16 || idx[len(idx)-1] < 16 {
					return "", false
				}
				b := make([]byte, 0, len(idx))
				for _, v := range idx[1 : len(idx)-1] {
					if v >= 16 {
						return "", false
					}
					b = append(b, c03CodabarAlphabet[v])
				}
				return string(b), true
			}},
	}
}

// ---------- content generators ----------

func c03UPCCases(r *Rng, name string, n int) []c03Case {
	var k c10Kind
	for _, x := range c10Kinds {
		if x.name == name {
			k = x
		}
	}
	var out []c03Case
	add := func(body []int, tag string) {
		full := c10DigStr(append(append([]int(nil), body...), c10StdCheck(name, body)))
		out = append(out, c03Case{content: c10DigStr(body), want: full, tag: tag + ":nocheck"})
		out = append(out, c03Case{content: full, want: full, tag: tag + ":check"})
	}
	for d := 0; d < 10; d++ { // every leading digit, every last body digit (UPC-E rule digit), constant strings
		b := c10RandBody(r, k)
		if name != "upce" {
			b[0] = d
		}
		b[len(b)-1] = d
		add(b, fmt.Sprintf("lead/last=%d", d))
		c := make([]int, k.full-1)
		for i := range c {
			c[i] = d
		}
		if name == "upce" {
			c[0] = d % 2
		}
		add(c, "constant")
	}
	for len(out) < n {
		add(c10RandBody(r, k), "random")
	}
	return out
}

func c03ITFCases(r *Rng, n int) []c03Case {
	var out []c03Case
	lens := []int{6, 8, 10, 12, 14, 16, 18, 20, 40, 78, 80}
	for _, l := range lens {
		for k := 0; k < 3; k++ {
			s := c10DigStr(c10RandDigits(r, l))
			out = append(out, c03Case{content: s, want: s, tag: fmt.Sprintf("len=%d", l)})
		}
	}
	for d := 0; d < 10; d++ { // every digit in both interleaved positions
		s := strings.Repeat(string(byte('0'+d)), 6)
		out = append(out, c03Case{content: s, want: s, tag: "constant"})
	}
	for len(out) < n {
		l := 2 * r.Range(3, 40)
		s := c10DigStr(c10RandDigits(r, l))
		out = append(out, c03Case{content: s, want: s, tag: "random"})
	}
	return out
}

func c03EscLen(s string, esc func(byte) string) int {
	n := 0
	for i := 0; i < len(s); i++ {
		n += len(esc(s[i]))
	}
	return n
}

func c03Code39Cases(r *Rng, n int) []c03Case {
	var out []c03Case
	for i := 0; i < len(c03Code39Alphabet); i++ { // every alphabet character, alone and inside
		ch := string(c03Code39Alphabet[i])
		out = append(out, c03Case{content: ch, want: ch, tag: "alphabet-char"})
		out = append(out, c03Case{content: "A" + ch + "7", want: "A" + ch + "7", tag: "alphabet-char"})
	}
	for c := 0; c < 128; c++ { // every ASCII character in full-ASCII mode (forced by a lower-case neighbour)
		s := string([]byte{byte(c), 'a'})
		out = append(out, c03Case{content: s, want: s, extended: true, tag: "ascii-char"})
	}
	for _, l := range []int{1, 2, 79, 80} {
		b := make([]byte, l)
		for i := range b {
			b[i] = c03Code39Alphabet[r.Intn(39)] // no $ / + % : readable by both reader modes
		}
		out = append(out, c03Case{content: string(b), want: string(b), tag: fmt.Sprintf("len=%d", l)})
	}
	for len(out) < n {
		if r.Bool() {
			l := r.Range(1, 30)
			b := make([]byte, l)
			for i := range b {
				b[i] = c03Code39Alphabet[r.Intn(43)]
			}
			out = append(out, c03Case{content: string(b), want: string(b), tag: "random-plain"})
		} else {
			s := c10RandASCII(r, r.Range(1, 30), 3)
			ext := false
			for i := 0; i < len(s); i++ {
				if strings.IndexByte(c03Code39Alphabet, s[i]) < 0 {
					ext = true
				}
			}
			if !ext || c03EscLen(s, c03Code39FullASCII) > 80 {
				continue
			}
			out = append(out, c03Case{content: s, want: s, extended: true, tag: "random-ascii"})
		}
	}
	return out
}

func c03Code93Cases(r *Rng, n int) []c03Case {
	var out []c03Case
	for c := 0; c < 128; c++ {
		s := string([]byte{byte(c)})
		out = append(out, c03Case{content: s, want: s, tag: "ascii-char"})
		s2 := string([]byte{'Q', byte(c), '3'})
		out = append(out, c03Case{content: s2, want: s2, tag: "ascii-char"})
	}
	for _, l := range []int{79, 80} {
		b := make([]byte, l)
		for i := range b {
			b[i] = c10Code93Alphabet[r.Intn(36)]
		}
		out = append(out, c03Case{content: string(b), want: string(b), tag: fmt.Sprintf("len=%d", l)})
	}
	for len(out) < n {
		s := c10RandASCII(r, r.Range(1, 40), r.Intn(4))
		if c03EscLen(s, c03Code93FullASCII) > 80 {
			continue
		}
		out = append(out, c03Case{content: s, want: s, tag: "random"})
	}
	return out
}

// every sequence of character classes up to length maxLen: digit pair, single digit, upper, lower, control
func c03Code128Transitions(maxLen int) []c03Case {
	classes := []string{"12", "7", "A", "a", "\x01"}
	var out []c03Case
	var rec func(prefix string, depth int)
	rec = func(prefix string, depth int) {
		if depth > 0 {
			out = append(out, c03Case{content: prefix, want: prefix, tag: "transition"})
		}
		if depth == maxLen {
			return
		}
		for _, c := range classes {
			rec(prefix+c, depth+1)
		}
	}
	rec("", 0)
	return out
}

func c03Code128Cases(r *Rng, n int) []c03Case {
	var out []c03Case
	for c := 0; c < 128; c++ {
		s := string([]byte{byte(c)})
		out = append(out, c03Case{content: s, want: s, tag: "ascii-char"})
	}
	for _, l := range []int{79, 80} {
		out = append(out, c03Case{content: c10RandASCII(r, l, 0), want: "", tag: fmt.Sprintf("len=%d", l)})
		out = append(out, c03Case{content: c10RandASCII(r, l, 1), want: "", tag: fmt.Sprintf("len=%d", l)})
		out = append(out, c03Case{content: c10DigStr(c10RandDigits(r, l)), want: "", tag: fmt.Sprintf("len=%d digits", l)})
	}
	// forced code sets
	for k := 0; k < 40; k++ {
		a := make([]byte, r.Range(1, 20))
		for i := range a {
			a[i] = byte(r.Intn(96))
		}
		out = append(out, c03Case{content: string(a), forced: "A", tag: "forced-A"})
		b := make([]byte, r.Range(1, 20))
		for i := range b {
			b[i] = byte(r.Range(33, 127))
		}
		out = append(out, c03Case{content: string(b), forced: "B", tag: "forced-B"})
		out = append(out, c03Case{content: c10DigStr(c10RandDigits(r, 2*r.Range(1, 20))), forced: "C", tag: "forced-C"})
	}
	for len(out) < n {
		out = append(out, c03Case{content: c10RandASCII(r, r.Range(1, 40), r.Intn(4)), tag: "random"})
	}
	for i := range out {
		out[i].want = out[i].content
	}
	return out
}

func c03CodabarCases(r *Rng, n int) []c03Case {
	var out []c03Case
	data := func(l int) string {
		const chars = "0123456789-$:/.+"
		b := make([]byte, l)
		for i := range b {
			b[i] = chars[r.Intn(len(chars))]
		}
		return string(b)
	}
	for _, s := range "ABCD" {
		for _, e := range "ABCD" {
			d := data(r.Range(2, 12))
			out = append(out, c03Case{content: string(s) + d + string(e), want: d, tag: "guards-normal"})
			out = append(out, c03Case{content: strings.ToLower(string(s)) + d + strings.ToLower(string(e)), want: d, tag: "guards-lower"})
		}
	}
	for _, s := range "TN*E" {
		for _, e := range "TN*E" {
			d := data(r.Range(2, 12))
			out = append(out, c03Case{content: string(s) + d + string(e), want: d, tag: "guards-alt"})
		}
	}
	for i := 0; i < 16; i++ { // every data character
		d := string("0123456789-$:/.+"[i]) + "5"
		out = append(out, c03Case{content: d, want: d, tag: "data-char"})
	}
	for len(out) < n {
		d := data(r.Range(2, 40))
		out = append(out, c03Case{content: d, want: d, tag: "no-guards"})
	}
	return out
}

// contents every writer must refuse
func c03Rejects(r *Rng, name string) []c03Case {
	var out []c03Case
	add := func(s, forced, tag string) { out = append(out, c03Case{content: s, forced: forced, tag: tag}) }
	switch name {
	case "itf":
		for _, l := range []int{1, 3, 7, 81, 82, 83, 100} {
			add(c10DigStr(c10RandDigits(r, l)), "", "length")
		}
		for k := 0; k < 10; k++ {
			b := []byte(c10DigStr(c10RandDigits(r, 2*r.Range(1, 10))))
			b[r.Intn(len(b))] = byte(r.Pick([]int{'a', ' ', '-', 0x80, ':', '/'}))
			add(string(b), "", "alphabet")
		}
	case "code39":
		add(strings.Repeat("A", 81), "", "length")
		add(strings.Repeat("a", 41), "", "length-extended")
		for _, c := range []byte{128, 200, 255} {
			add(string([]byte{'A', c}), "", "alphabet")
		}
	case "code93":
		add(strings.Repeat("A", 81), "", "length")
		add(strings.Repeat("a", 41), "", "length-extended")
		for _, c := range []byte{128, 200, 255} {
			add(string([]byte{'A', c}), "", "alphabet")
		}
	case "code128":
		add(strings.Repeat("A", 81), "", "length")
		add("Aé", "", "alphabet")
		add("A\x80", "", "alphabet")
		add("abc", "A", "forced-A-alphabet")
		add("A B", "B", "forced-B-alphabet")
		add("A\x05", "B", "forced-B-alphabet")
		add("12A4", "C", "forced-C-alphabet")
		add("123", "C", "forced-C-odd")
	case "codabar":
		for _, s := range []string{"A12", "12B", "A12T", "T12A", "N123", "12*", "A1A2", "1a2", "12 3", "A", "12\x80", "AB12CD", "T"} {
			add(s, "", "guards/alphabet")
		}
	}
	// characters of the right Unicode CLASS but outside the symbology's (ASCII) alphabet: non-ASCII decimal digits
	// (Arabic-Indic, Devanagari, fullwidth, mathematical) for the numeric symbologies, non-ASCII upper-case letters and
	// fullwidth forms for the alphanumeric ones — at the lengths (counted in characters AND in bytes) the writer accepts.
	digitSets := []string{"٠١٢٣٤٥٦٧٨٩", "०१२३४५६७८९", "０１２３４５６７８９", "𝟎𝟏𝟐𝟑𝟒𝟓𝟔𝟕𝟖𝟗"}
	mixDigits := func(n int, byBytes bool) string {
		for try := 0; try < 50; try++ {
			set := []rune(digitSets[r.Intn(len(digitSets))])
			var sb strings.Builder
			foreign := 0
			cnt := func() int {
				if byBytes {
					return sb.Len()
				}
				return utf8.RuneCountInString(sb.String())
			}
			for cnt() < n {
				if r.Chance(0.4) {
					sb.WriteRune(set[r.Intn(10)])
					foreign++
				} else {
					sb.WriteByte(byte('0' + r.Intn(10)))
				}
			}
			if cnt() == n && foreign > 0 {
				return sb.String()
			}
		}
		return "١"
	}
	var lens []int
	switch name {
	case "ean13":
		lens = []int{12, 13}
	case "ean8":
		lens = []int{7, 8}
	case "upca":
		lens = []int{11, 12}
	case "upce":
		lens = []int{7, 8}
	case "itf":
		lens = []int{2, 4, 6, 8, 14}
	}
	for _, l := range lens {
		for k := 0; k < 4; k++ {
			add(mixDigits(l, false), "", "unicode-digits")
			add(mixDigits(l, true), "", "unicode-digits")
		}
	}
	switch name {
	case "code39", "code93", "codabar":
		for _, s := range []string{"ÄB", "ΩMEGA", "ＡＢＣ", "A١2", "１２３", "Ⅻ", "A\u2212B", "İ"} {
			t := s
			if name == "codabar" {
				t = "A" + s + "B"
			}
			add(t, "", "unicode-class")
		}
	case "code128":
		for _, s := range []string{"ＡＢＣ", "A١2", "１２３４", "Ωx", "\u00f5A", "A\u0100"} {
			add(s, "", "unicode-class")
		}
		add("１２３４", "C", "unicode-class")
		add("12٣٤", "C", "unicode-class")
	}
	return out
}

// ---------- geometry ----------

type c03Geom struct {
	width, height, margin int // margin < 0: writer default
}

func c03Geoms(natural int) []c03Geom {
	return []c03Geom{
		{0, 1, -1}, {natural, 50, -1}, {2 * natural, 1, -1}, {3*natural + 7, 50, -1},
		{0, 50, 10}, {3*natural + 7, 1, 16},
	}
}

func c03RowBits(bm *gozxing.BitMatrix, y int) []bool {
	out := make([]bool, bm.GetWidth())
	for x := range out {
		out[x] = bm.Get(x, y)
	}
	return out
}

func c03Decode(rd gozxing.Reader, bmp *gozxing.BinaryBitmap, hints c10Hints) string {
	return Safe(func() string {
		r, e := rd.Decode(bmp, hints)
		if e != nil {
			return "ERR:" + errKind(e)
		}
		return "ok " + r.GetBarcodeFormat().String() + " " + hexs([]byte(r.GetText()))
	})
}

func c03CodePoints(s string) string {
	var xs []int
	for _, r := range s {
		xs = append(xs, int(r))
	}
	return ints(xs)
}

func c03WriterOp(sym c03Sym, cs c03Case) string {
	if sym.name == "code128" {
		f := cs.forced
		if f == "" {
			f = "-"
		}
		return fmt.Sprintf("c03 wr128 %s %s", f, c03CodePoints(cs.content))
	}
	return fmt.Sprintf("c03 wr %s %s", sym.name, hexs([]byte(cs.content)))
}

func c03IsUPC(name string) bool { return name == "ean13" || name == "ean8" || name == "upca" || name == "upce" }

// one content through every layer
func c03RunCase(c *Ctx, sym c03Sym, cs c03Case, geoms bool) {
	w := sym.writer()
	in := fmt.Sprintf("%s %s", sym.name, hexs([]byte(cs.content)))
	if cs.forced != "" {
		in += " forced=" + cs.forced
	}
	c.Note("case:" + sym.name + ":" + cs.tag)
	// ---- module pattern ----
	mods, out := c10Write(w, sym.format, cs.content, c03Hints(cs, -1))
	goOut := out
	if out == "ok" {
		goOut = "ok " + bitsStr(mods)
	}
	c.Cmp("writer", c03WriterOp(sym, cs), goOut)
	if out != "ok" {
		c.Oracle("writer", false, sym.name+"-writer-refuses-valid", in, "writer: "+out)
		return
	}
	txt, ok := sym.text(mods, cs)
	c.Oracle("writer", ok && txt == cs.want, sym.name+"-module-pattern", in,
		fmt.Sprintf("module pattern reads %q (well-formed=%v) by the standard's tables, expected %q; modules %s", txt, ok, cs.want, bitsStr(mods)))
	if !geoms {
		return
	}
	if c03IsUPC(sym.name) {
		c03TheoremBoundary(c, sym, cs, mods, in)
	}
	want := "ok " + sym.format.String() + " " + hexs([]byte(cs.want))
	natural := len(mods) + sym.margin
	for gi, g := range c03Geoms(natural) {
		gin := fmt.Sprintf("%s width=%d height=%d margin=%d", in, g.width, g.height, g.margin)
		var bm *gozxing.BitMatrix
		eo := Safe(func() string {
			var e error
			bm, e = w.Encode(cs.content, sym.format, g.width, g.height, c03Hints(cs, g.margin))
			if e != nil {
				return "ERR:" + errKind(e)
			}
			return "ok"
		})
		if eo != "ok" {
			c.Oracle("render", false, sym.name+"-encode-geometry", gin, "Encode: "+eo)
			continue
		}
		row := c03RowBits(bm, bm.GetHeight()/2)
		m := g.margin
		if m < 0 {
			m = sym.margin
		}
		c.Cmp("render", fmt.Sprintf("c03 render %s %d %d", bitsStr(mods), g.width, m), "ok "+bitsStr(row))
		// all rows equal, size as requested
		sizeOK := bm.GetWidth() >= g.width && bm.GetHeight() == c10Max(1, g.height) && bitsStr(c03RowBits(bm, 0)) == bitsStr(row)
		c.Oracle("render", sizeOK, sym.name+"-render-size", gin, fmt.Sprintf("matrix %dx%d", bm.GetWidth(), bm.GetHeight()))
		// ---- full path, both binarizers ----
		hints := c10Hints{}
		outs := map[string]string{}
		for _, bz := range []string{"hybrid", "global"} {
			var bmp *gozxing.BinaryBitmap
			if bz == "hybrid" {
				bmp, _ = gozxing.NewBinaryBitmapFromImage(bm)
			} else {
				bmp, _ = gozxing.NewBinaryBitmap(gozxing.NewGlobalHistgramBinarizer(gozxing.NewLuminanceSourceFromImage(bm)))
			}
			o := c03Decode(sym.reader(cs), bmp, hints)
			outs[bz] = o
			key := sym.name + "-roundtrip"
			if o != want && sym.name == "upce" && c03UPCENarrowRightQuiet(row) {
				key = "upce-right-quiet-zone-narrower-than-end-guard"
			}
			c.Oracle("roundtrip", o == want, key, gin+" binarizer="+bz, "reader: "+o+" expected "+want)
			if c03IsUPC(sym.name) {
				// multi-format reader, with the format named and with no hint at all
				mh := c10Hints{gozxing.DecodeHintType_POSSIBLE_FORMATS: []gozxing.BarcodeFormat{sym.format}}
				o2 := c03Decode(oned.NewMultiFormatUPCEANReader(mh), bmp, mh)
				c.Oracle("roundtrip", o2 == want, strings.Replace(key, "-roundtrip", "-roundtrip-multi", 1), gin+" binarizer="+bz+" multi POSSIBLE_FORMATS="+sym.format.String(),
					"reader: "+o2+" expected "+want)
				want3 := want
				if sym.name == "upca" { // the repo's own tests pin this: without a hint a UPC-A symbol is reported as EAN-13 "0"+text
					want3 = "ok EAN_13 " + hexs([]byte("0"+cs.want))
				}
				o3 := c03Decode(oned.NewMultiFormatUPCEANReader(nil), bmp, nil)
				c.Oracle("roundtrip", o3 == want3, strings.Replace(key, "-roundtrip", "-roundtrip-multi-nohint", 1), gin+" binarizer="+bz+" multi no hint",
					"reader: "+o3+" expected "+want3)
			}
		}
		c.Note(fmt.Sprintf("geom:%d:%s", gi, outs["hybrid"][:c10Min(len(outs["hybrid"]), 6)]))
		// ---- row-level decoder vs the faithful model (UPC/EAN) ----
		if c03IsUPC(sym.name) {
			// does the writer's own rendering meet the hypotheses of upcean_read_write (quiet zones >= 3s / > g*s)?
			c.Note(fmt.Sprintf("thm-hyp:%s:geom%d:%v", sym.name, gi, c03TheoremHyp(sym.name, row, len(mods))))
			rowArr := bm.GetRow(bm.GetHeight()/2, nil)
			o, _ := c10ReadRow(c10RD(sym.reader(cs)), rowArr, nil)
			c.Cmp("rowread", fmt.Sprintf("c03 upcread %s %s", sym.name, bitsStr(row)), c10StripFormat(o))
			o, _ = c10ReadRow(c10RD(oned.NewMultiFormatUPCEANReader(nil)), rowArr, nil)
			c.Cmp("rowread", fmt.Sprintf("c03 multi - %s", bitsStr(row)), o)
			fs := []gozxing.BarcodeFormat{gozxing.BarcodeFormat_UPC_A, gozxing.BarcodeFormat_EAN_13, gozxing.BarcodeFormat_UPC_E, gozxing.BarcodeFormat_EAN_8}
			mh := c10Hints{gozxing.DecodeHintType_POSSIBLE_FORMATS: fs}
			o, _ = c10ReadRow(c10RD(oned.NewMultiFormatUPCEANReader(mh)), rowArr, mh)
			c.Cmp("rowread", fmt.Sprintf("c03 multi upca,ean13,upce,ean8 %s", bitsStr(row)), o)
		}
	}
}

// "ok ..." -> "ok", errors unchanged
func c03Kind(o string) string {
	if strings.HasPrefix(o, "ok") {
		return "ok"
	}
	return o
}

func c10Max(a, b int) int {
	if a > b {
		return a
	}
	return b
}

// Is the white zone right of the symbol narrower than the six-module UPC-E end guard (+1 px)?  That is what
// upceanReader.decodeRowWithStartRange insists on ("quietEnd >= row.GetSize()").
func c03UPCENarrowRightQuiet(row []bool) bool {
	first, last := -1, -1
	for i, b := range row {
		if b {
			if first < 0 {
				first = i
			}
			last = i
		}
	}
	if first < 0 {
		return false
	}
	module := (last + 1 - first) / 51
	if module < 1 {
		return false
	}
	return len(row)-1-last < 6*module+1
}

// ---------- module-level decoders of the model vs the real readers on independently drawn symbols ----------

func c03IdealVsReaders(c *Ctx) {
	n := c.Pick(150, 5000)
	c.Parallel(n, 16, func(it int, r *Rng) {
		scale := r.Range(1, 3)
		pad := 12*scale + r.Intn(9)
		read := func(rd gozxing.Reader, mods []bool) string {
			o, _ := c10ReadRow(c10RD(rd), c10Row(mods, scale, pad, pad), nil)
			return c10StripFormat(o)
		}
		// Code 39: random characters, both reader modes (no escape character in last position: D15 is C06's)
		{
			l := r.Range(1, 20)
			idx := make([]int, l)
			for i := range idx {
				idx[i] = r.Intn(43)
				if r.Chance(0.3) {
					idx[i] = r.Range(10, 35)
				}
			}
			for idx[l-1] >= 39 {
				idx[l-1] = r.Intn(39)
			}
			mods := c03DrawCode39(idx)
			c.Cmp("ideal", "c03 ideal code39 "+bitsStr(mods), read(oned.NewCode39Reader(), mods))
			c.Cmp("ideal", "c03 ideal code39x "+bitsStr(mods), read(oned.NewCode39ReaderWithFlags(false, true), mods))
		}
		// ITF: every even length 2..30 (2 and 4 are written but refused by the reader's length rule)
		{
			ds := c10RandDigits(r, 2*r.Range(1, 15))
			mods := c03DrawITF(ds)
			o := read(oned.NewITFReader(), mods)
			c.Cmp("ideal", "c03 ideal itf "+bitsStr(mods), o)
			c.Note("ideal:itf:" + c03Kind(o))
		}
		// Codabar: random start/stop and data
		{
			l := r.Range(0, 12)
			idx := []int{16 + r.Intn(4)}
			for i := 0; i < l; i++ {
				idx = append(idx, r.Intn(16))
			}
			idx = append(idx, 16+r.Intn(4))
			mods := c03DrawCodabar(idx)
			o := read(oned.NewCodaBarReader(), mods)
			c.Cmp("ideal", "c03 ideal codabar "+bitsStr(mods), o)
			c.Note("ideal:codabar:" + c03Kind(o))
		}
		// Code 128: random symbol characters incl. code-set switches, SHIFT and FNC, right or wrong check character
		{
			set := r.Range(0, 2)
			codes := []int{103 + set}
			for k, m := 0, r.Range(1, 14); k < m; k++ {
				codes = append(codes, r.Intn(103))
			}
			chk := c10Code128Check(codes)
			if r.Chance(0.15) {
				chk = r.Intn(103)
			}
			codes = append(codes, chk, 106)
			mods := c10DrawCode128(codes)
			o := read(oned.NewCode128Reader(), mods)
			c.Cmp("ideal", "c03 ideal code128 "+bitsStr(mods), o)
			c.Note("ideal:code128:" + c03Kind(o))
		}
		// Code 93: random data characters incl. shift characters, right or wrong C/K
		{
			l := r.Range(1, 14)
			vals := make([]int, l)
			for i := range vals {
				vals[i] = r.Intn(47)
				if r.Chance(0.5) {
					vals[i] = r.Intn(43)
				}
			}
			cc := c10Code93Check(vals, 20)
			vals = append(vals, cc)
			vals = append(vals, c10Code93Check(vals, 15))
			if r.Chance(0.15) {
				vals[r.Intn(len(vals))] = r.Intn(47)
			}
			mods := c10DrawCode93(vals)
			o := read(oned.NewCode93Reader(), mods)
			c.Cmp("ideal", "c03 ideal code93 "+bitsStr(mods), o)
			c.Note("ideal:code93:" + c03Kind(o))
		}
	})
}

// ---------- tables: harness copy == Lean Ref copy; run-time tables of /repo == model ----------

func c03Tables(c *Ctx) {
	join := func(rows []string) string { return strings.Join(rows, ";") }
	widths := func(s string) string { return ints(c10Digits(s)) }
	var rows []string
	for _, p := range c10Code128 {
		rows = append(rows, widths(p))
	}
	c.Cmp("tables", "c03 tbl code128", join(rows))
	word := func(s string, one byte) int {
		v := 0
		for i := 0; i < len(s); i++ {
			v *= 2
			if s[i] == one {
				v++
			}
		}
		return v
	}
	ws := []int{word(c03Code39Star, 'W')}
	for _, p := range c03Code39 {
		ws = append(ws, word(p, 'W'))
	}
	c.Cmp("tables", "c03 tbl code39", ints(ws))
	ws = nil
	for _, p := range c10Code93 {
		ws = append(ws, word(p, '1'))
	}
	c.Cmp("tables", "c03 tbl code93", ints(ws))
	rows = nil
	for _, p := range c03ITF {
		rows = append(rows, widths(c03Elems(p, 'W', 1, 3)))
	}
	c.Cmp("tables", "c03 tbl itf", join(rows))
	ws = nil
	for _, p := range c03Codabar {
		ws = append(ws, word(p, '1'))
	}
	c.Cmp("tables", "c03 tbl codabar", ints(ws))
	rows = nil
	for _, p := range oned.UPCEANReader_L_AND_G_PATTERNS {
		rows = append(rows, ints(p))
	}
	c.Cmp("tables", "c03 tbl lg", join(rows))
}

func runC03(c *Ctx) {
	c.res.Rule = "per symbology: boundary lengths, every alphabet / ASCII character, every UPC-E rule digit and EAN-13 leading digit, every Codabar start/stop pair, " +
		"every Code 128 class sequence (digit pair, digit, upper, lower, control) up to length 4 (thorough: 6), each forced code set, random contents; " +
		"x 6 geometries (width 0 / natural / 2x / 3x+7, height 1 / 50, margin default / larger) x 2 binarizers; separate stream of contents the writers must refuse; " +
		"module-level decoders vs real readers on independently drawn (also invalid) symbols; UPC/EAN: every content also as a synthetic row at the quiet-zone boundaries of upcean_read_write " +
		"(left = 3s, right = g*s+1, scales 1-5: must read; one pixel less: model comparison only); non-trivial = distinct op/oracle input"
	c03Tables(c)
	n := c.Pick(300, 4000)
	syms := c03Syms()
	r := c.Rng
	type job struct {
		sym   c03Sym
		cs    c03Case
		geoms bool
	}
	var jobs []job
	for _, sym := range syms {
		var cases []c03Case
		switch sym.name {
		case "ean13", "ean8", "upca", "upce":
			cases = c03UPCCases(r, sym.name, n)
		case "itf":
			cases = c03ITFCases(r, n)
		case "code39":
			cases = c03Code39Cases(r, 2*n)
		case "code93":
			cases = c03Code93Cases(r, 2*n+60)
		case "code128":
			cases = c03Code128Cases(r, 2*n+60)
			for _, t := range c03Code128Transitions(c.Pick(4, 6)) {
				jobs = append(jobs, job{sym, t, len(t.content) <= 3})
			}
		case "codabar":
			cases = c03CodabarCases(r, n)
		}
		for _, cs := range cases {
			jobs = append(jobs, job{sym, cs, true})
		}
	}
	c.Parallel(len(jobs), 16, func(i int, _ *Rng) { c03RunCase(c, jobs[i].sym, jobs[i].cs, jobs[i].geoms) })
	// rejection oracle (the UPC/EAN rejections — length, alphabet, check digit — are enumerated by C10's writer stage too)
	for _, sym := range syms {
		w := sym.writer()
		rej := c03Rejects(r, sym.name)
		if c03IsUPC(sym.name) {
			for _, k := range c10Kinds {
				if k.name != sym.name {
					continue
				}
				for i := 0; i < 30; i++ {
					body := c10RandBody(r, k)
					bad := (c10StdCheck(k.name, body) + r.Range(1, 9)) % 10
					rej = append(rej, c03Case{content: c10DigStr(append(body, bad)), tag: "check-digit"})
					rej = append(rej, c03Case{content: c10DigStr(c10RandDigits(r, k.full+r.Pick([]int{-3, -2, 1, 2, 5}))), tag: "length"})
					b := []byte(c10DigStr(body))
					b[r.Intn(len(b))] = byte(r.Pick([]int{'x', ' ', '-', 0xC3}))
					rej = append(rej, c03Case{content: string(b), tag: "alphabet"})
				}
			}
		}
		rej = append(rej, c03Case{content: "", tag: "empty"})
		for _, cs := range rej {
			_, out := c10Write(w, sym.format, cs.content, c03Hints(cs, -1))
			c.Cmp("reject", c03WriterOp(sym, cs), out)
			c.Oracle("reject", out == "ERR:writer", sym.name+"-rejects-"+cs.tag, fmt.Sprintf("%s %s forced=%s", sym.name, hexs([]byte(cs.content)), cs.forced), "writer: "+out)
			c.Note("reject:" + sym.name + ":" + cs.tag)
		}
	}
	c03IdealVsReaders(c)
}
