package main

// Code 39 / ITF / Codabar tables in the notation of the standards and independent module-level
// encoders / decoders (companions of c10_tables.go).

import "strings"

const c03Code39Alphabet = "0123456789ABCDEFGHIJKLMNOPQRSTUVWXYZ-. $/+%"

// ISO/IEC 16388: nine elements, bar first, W = wide
var c03Code39 = []string{
	"nnnWWnWnn", "WnnWnnnnW", "nnWWnnnnW", "WnWWnnnnn", "nnnWWnnnW", "WnnWWnnnn",
	"nnWWWnnnn", "nnnWnnWnW", "WnnWnnWnn", "nnWWnnWnn", "WnnnnWnnW", "nnWnnWnnW",
	"WnWnnWnnn", "nnnnWWnnW", "WnnnWWnnn", "nnWnWWnnn", "nnnnnWWnW", "WnnnnWWnn",
	"nnWnnWWnn", "nnnnWWWnn", "WnnnnnnWW", "nnWnnnnWW", "WnWnnnnWn", "nnnnWnnWW",
	"WnnnWnnWn", "nnWnWnnWn", "nnnnnnWWW", "WnnnnnWWn", "nnWnnnWWn", "nnnnWnWWn",
	"WWnnnnnnW", "nWWnnnnnW", "WWWnnnnnn", "nWnnWnnnW", "WWnnWnnnn", "nWWnWnnnn",
	"nWnnnnWnW", "WWnnnnWnn", "nWWnnnWnn", "nWnWnWnnn", "nWnWnnnWn", "nWnnnWnWn",
	"nnnWnWnWn",
}

const c03Code39Star = "nWnnWnWnn"

// ISO/IEC 16390: two wide of five
var c03ITF = []string{"nnWWn", "WnnnW", "nWnnW", "WWnnn", "nnWnW", "WnWnn", "nWWnn", "nnnWW", "WnnWn", "nWnWn"}

const c03CodabarAlphabet = "0123456789-$:/.+ABCD"

// seven elements (bar first), 1 = wide
var c03Codabar = []string{
	"0000011", "0000110", "0001001", "1100000", "0010010", "1000010", "0100001", "0100100", "0110000", "1001000",
	"0001100", "0011000", "1000101", "1010001", "1010100", "0010101", "0011010", "0101001", "0001011", "0001110",
}

// element string -> run widths string with the given narrow / wide widths
func c03Elems(s string, wideCh byte, narrow, wide int) string {
	b := make([]byte, len(s))
	for i := 0; i < len(s); i++ {
		if s[i] == wideCh {
			b[i] = byte('0' + wide)
		} else {
			b[i] = byte('0' + narrow)
		}
	}
	return string(b)
}

// Code 39 symbol for alphabet indices (asterisks added)
func c03DrawCode39(idx []int) []bool {
	var sb strings.Builder
	sb.WriteString(c03Elems(c03Code39Star, 'W', 1, 2))
	for _, i := range idx {
		sb.WriteString("1") // narrow inter-character gap
		sb.WriteString(c03Elems(c03Code39[i], 'W', 1, 2))
	}
	sb.WriteString("1")
	sb.WriteString(c03Elems(c03Code39Star, 'W', 1, 2))
	return c10Widths(sb.String())
}

// modules -> alphabet indices between the asterisks; nil if malformed
func c03ReadCode39(mods []bool) []int {
	ws := c10RunWidths(mods)
	if len(mods) == 0 || !mods[0] || len(ws)%10 != 9 {
		return nil
	}
	var out []int
	n := (len(ws) + 1) / 10
	for k := 0; k < n; k++ {
		el := ws[10*k : 10*k+9]
		if k < n-1 && ws[10*k+9] != '1' {
			return nil
		}
		v := -1
		if el == c03Elems(c03Code39Star, 'W', 1, 2) {
			v = 43
		}
		for i, p := range c03Code39 {
			if el == c03Elems(p, 'W', 1, 2) {
				v = i
			}
		}
		if v < 0 || (v == 43) != (k == 0 || k == n-1) {
			return nil
		}
		if v != 43 {
			out = append(out, v)
		}
	}
	if out == nil {
		out = []int{}
	}
	return out
}

func c03DrawITF(ds []int) []bool {
	var sb strings.Builder
	sb.WriteString("1111")
	for i := 0; i+1 < len(ds); i += 2 {
		a, b := c03Elems(c03ITF[ds[i]], 'W', 1, 3), c03Elems(c03ITF[ds[i+1]], 'W', 1, 3)
		for j := 0; j < 5; j++ {
			sb.WriteByte(a[j])
			sb.WriteByte(b[j])
		}
	}
	sb.WriteString("311")
	return c10Widths(sb.String())
}

func c03ReadITF(mods []bool) []int {
	ws := c10RunWidths(mods)
	if len(mods) == 0 || !mods[0] || len(ws) < 7 || (len(ws)-7)%10 != 0 || ws[:4] != "1111" || ws[len(ws)-3:] != "311" {
		return nil
	}
	out := []int{}
	for i := 4; i+10 <= len(ws)-3; i += 10 {
		var a, b [5]byte
		for j := 0; j < 5; j++ {
			a[j], b[j] = ws[i+2*j], ws[i+2*j+1]
		}
		da, db := -1, -1
		for d, p := range c03ITF {
			if c03Elems(p, 'W', 1, 3) == string(a[:]) {
				da = d
			}
			if c03Elems(p, 'W', 1, 3) == string(b[:]) {
				db = d
			}
		}
		if da < 0 || db < 0 {
			return nil
		}
		out = append(out, da, db)
	}
	return out
}

// Codabar symbol for alphabet indices (start and stop included)
func c03DrawCodabar(idx []int) []bool {
	var sb strings.Builder
	for k, i := range idx {
		if k > 0 {
			sb.WriteString("1")
		}
		sb.WriteString(c03Elems(c03Codabar[i], '1', 1, 2))
	}
	return c10Widths(sb.String())
}

func c03ReadCodabar(mods []bool) []int {
	ws := c10RunWidths(mods)
	if len(mods) == 0 || !mods[0] || len(ws)%8 != 7 {
		return nil
	}
	var out []int
	n := (len(ws) + 1) / 8
	for k := 0; k < n; k++ {
		el := ws[8*k : 8*k+7]
		if k < n-1 && ws[8*k+7] != '1' {
			return nil
		}
		v := -1
		for i, p := range c03Codabar {
			if el == c03Elems(p, '1', 1, 2) {
				v = i
			}
		}
		if v < 0 {
			return nil
		}
		out = append(out, v)
	}
	return out
}

// ---------- the standards' full-ASCII escapes, typed independently (table form) ----------

// Code 39 full ASCII (ISO/IEC 16388 Annex): ASCII value -> one or two Code 39 characters
func c03Code39FullASCII(c byte) string {
	switch {
	case c == 0:
		return "%U"
	case c >= 1 && c <= 26:
		return "$" + string(rune('A'+c-1))
	case c >= 27 && c <= 31:
		return "%" + string(rune('A'+c-27))
	case c == ' ', c == '-', c == '.':
		return string(rune(c))
	case c >= '!' && c <= ',', c == '/':
		return "/" + string(rune('A'+c-'!'))
	case c >= '0' && c <= '9':
		return string(rune(c))
	case c == ':':
		return "/Z"
	case c >= ';' && c <= '?':
		return "%" + string(rune('F'+c-';'))
	case c == '@':
		return "%V"
	case c >= 'A' && c <= 'Z':
		return string(rune(c))
	case c >= '[' && c <= '_':
		return "%" + string(rune('K'+c-'['))
	case c == '`':
		return "%W"
	case c >= 'a' && c <= 'z':
		return "+" + string(rune('A'+c-'a'))
	case c >= '{' && c <= 127:
		return "%" + string(rune('P'+c-'{'))
	}
	return ""
}

// Code 93 full ASCII (AIM USS-93): shift characters a=($) b=(%) c=(/) d=(+)
func c03Code93FullASCII(c byte) string {
	switch {
	case c == 0:
		return "bU"
	case c >= 1 && c <= 26:
		return "a" + string(rune('A'+c-1))
	case c >= 27 && c <= 31:
		return "b" + string(rune('A'+c-27))
	case c == ' ', c == '$', c == '%', c == '+', c == '-', c == '.', c == '/':
		return string(rune(c))
	case c >= '!' && c <= ',':
		return "c" + string(rune('A'+c-'!'))
	case c >= '0' && c <= '9':
		return string(rune(c))
	case c == ':':
		return "cZ"
	case c >= ';' && c <= '?':
		return "b" + string(rune('F'+c-';'))
	case c == '@':
		return "bV"
	case c >= 'A' && c <= 'Z':
		return string(rune(c))
	case c >= '[' && c <= '_':
		return "b" + string(rune('K'+c-'['))
	case c == '`':
		return "bW"
	case c >= 'a' && c <= 'z':
		return "d" + string(rune('A'+c-'a'))
	case c >= '{' && c <= 127:
		return "b" + string(rune('P'+c-'{'))
	}
	return ""
}

// Code 128 (ISO/IEC 15417): text of a symbol-character sequence start..check (no STOP), for sequences
// without SHIFT / FNC characters; ok=false if the sequence uses something else
func c03Code128Text(codes []int) (string, bool) {
	if len(codes) < 2 {
		return "", false
	}
	set := codes[0] - 103 // 0 = A, 1 = B, 2 = C
	if set < 0 || set > 2 {
		return "", false
	}
	var out []byte
	for _, c := range codes[1 : len(codes)-1] {
		switch set {
		case 0, 1:
			switch {
			case c < 64:
				out = append(out, byte(32+c))
			case c < 96 && set == 0:
				out = append(out, byte(c-64))
			case c < 96:
				out = append(out, byte(32+c))
			case c == 99:
				set = 2
			case c == 100 && set == 0:
				set = 1
			case c == 101 && set == 1:
				set = 0
			default:
				return "", false
			}
		default:
			switch {
			case c < 100:
				out = append(out, byte('0'+c/10), byte('0'+c%10))
			case c == 100:
				set = 1
			case c == 101:
				set = 0
			default:
				return "", false
			}
		}
	}
	return string(out), true
}
