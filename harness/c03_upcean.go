package main

// C03 — the boundaries `upcean_read_write` (lean/Gzx/Properties/C03.lean) identifies, on the REAL row readers:
// rows  lq white ++ modules at s px/module ++ rq white  with lq = 3s and rq = g*s+1 exactly (g = 3, UPC-E 6)
// must read back (oracle: the theorem's conclusion on the real code); one pixel less on either side is
// compared with the model only (the model says NotFound; the property does not demand a failure).

import (
	"fmt"

	"github.com/makiuchi-d/gozxing"
	"github.com/makiuchi-d/gozxing/oned"
)

func c03EndGuardModules(name string) int {
	if name == "upce" {
		return 6
	}
	return 3
}

// quiet zones and scale of a rendered row whose symbol has nmods modules: (lq, s, rq, ok)
func c03RowGeometry(row []bool, nmods int) (int, int, int, bool) {
	first, last := -1, -1
	for i, b := range row {
		if b {
			if first < 0 {
				first = i
			}
			last = i
		}
	}
	if first < 0 || nmods == 0 || (last+1-first)%nmods != 0 {
		return 0, 0, 0, false
	}
	return first, (last + 1 - first) / nmods, len(row) - 1 - last, true
}

// do the hypotheses of upcean_read_write hold for this rendered row?
func c03TheoremHyp(name string, row []bool, nmods int) bool {
	lq, s, rq, ok := c03RowGeometry(row, nmods)
	return ok && s >= 1 && lq >= 3*s && rq > c03EndGuardModules(name)*s
}

func c03BoolRow(row *gozxing.BitArray) []bool {
	out := make([]bool, row.GetSize())
	for i := range out {
		out[i] = row.Get(i)
	}
	return out
}

func c03TheoremBoundary(c *Ctx, sym c03Sym, cs c03Case, mods []bool, in string) {
	g := c03EndGuardModules(sym.name)
	want := "ok " + sym.format.String() + " " + hexs([]byte(cs.want))
	type geo struct {
		s, dl, dr int // lq = 3s+dl, rq = g*s+1+dr
	}
	geos := []geo{{1, 0, 0}, {2, 0, 0}, {3, 0, 0}, {5, 0, 0}, {1, 4, 9}, {4, 1, 0}, // inside the hypotheses
		{1, -1, 0}, {2, -1, 0}, {1, 0, -1}, {3, 0, -1}, {2, -1, -1}} // just outside
	for _, ge := range geos {
		lq, rq := 3*ge.s+ge.dl, g*ge.s+1+ge.dr
		row := c10Row(mods, ge.s, lq, rq)
		o, _ := c10ReadRow(c10RD(sym.reader(cs)), row, nil)
		bits := bitsStr(c03BoolRow(row))
		c.Cmp("thm-boundary", fmt.Sprintf("c03 upcread %s %s", sym.name, bits), c10StripFormat(o))
		inside := ge.dl >= 0 && ge.dr >= 0
		if inside {
			c.Oracle("thm-boundary", o == want, sym.name+"-read-write-at-quiet-zone-boundary",
				fmt.Sprintf("%s scale=%d leftQuiet=%d rightQuiet=%d", in, ge.s, lq, rq), "row reader: "+o+" expected "+want)
			// the multi-format reader told the format must agree
			mh := c10Hints{gozxing.DecodeHintType_POSSIBLE_FORMATS: []gozxing.BarcodeFormat{sym.format}}
			o2, _ := c10ReadRow(c10RD(oned.NewMultiFormatUPCEANReader(mh)), row, mh)
			c.Oracle("thm-boundary", o2 == want, sym.name+"-read-write-at-quiet-zone-boundary-multi",
				fmt.Sprintf("%s scale=%d leftQuiet=%d rightQuiet=%d multi POSSIBLE_FORMATS=%s", in, ge.s, lq, rq, sym.format.String()),
				"row reader: "+o2+" expected "+want)
		}
		c.Note(fmt.Sprintf("thm-boundary:%s:inside=%v:%s", sym.name, inside, c03Kind(o)))
	}
}
