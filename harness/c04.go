package main

// C04 — GF(2^m) arithmetic and Reed-Solomon codec (common/reedsolomon) vs. the Lean model
// (Gzx/Model/GF.lean, Gzx/Model/RS.lean) and vs. the property's own oracle.
//
// The oracle side uses ONLY the reference arithmetic in this file (carry-less multiply followed by
// reduction modulo the primitive polynomial of the standard, alpha = x), never the library's tables:
//   * Multiply(a,b) == clmul(a,b) mod p, a*Inverse(a) == 1, Exp(Log a) == a, Exp(i) == x^i mod p
//   * Encode keeps the data symbols, keeps the length, and the word has zero syndromes
//   * Decode(c) == c for a code word c, Decode(c + e) == c for |supp e| <= floor(r/2)

import (
	"fmt"
	"math/bits"
	"strings"
	"sync/atomic"
	"time"

	"github.com/makiuchi-d/gozxing/common/reedsolomon"
)

func init() { suites["C04"] = runC04 }

type c04Field struct {
	name             string
	f                *reedsolomon.GenericGF
	prim, size, base int // parameters prescribed by the standards (NOT read from the library)
}

var c04Fields = []*c04Field{
	{"a4", reedsolomon.GenericGF_AZTEC_PARAM, 0x13, 16, 1},
	{"a6", reedsolomon.GenericGF_AZTEC_DATA_6, 0x43, 64, 1},
	{"qr", reedsolomon.GenericGF_QR_CODE_FIELD_256, 0x11D, 256, 0},
	{"dm", reedsolomon.GenericGF_DATA_MATRIX_FIELD_256, 0x12D, 256, 1},
	{"a10", reedsolomon.GenericGF_AZTEC_DATA_10, 0x409, 1024, 1},
	{"a12", reedsolomon.GenericGF_AZTEC_DATA_12, 0x1069, 4096, 1},
}

var c04Aliases = []*c04Field{
	{"a8", reedsolomon.GenericGF_AZTEC_DATA_8, 0x12D, 256, 1},
	{"mc", reedsolomon.GenericGF_MAXICODE_FIELD_64, 0x43, 64, 1},
}

// ---------- reference arithmetic (independent of the library) ----------

func c04Clmul(a, b uint64) uint64 {
	var r uint64
	for i := 0; b>>uint(i) != 0; i++ {
		if b>>uint(i)&1 == 1 {
			r ^= a << uint(i)
		}
	}
	return r
}

func c04Pmod(p, y uint64) uint64 {
	dp := bits.Len64(p) - 1
	for d := bits.Len64(y) - 1; d >= dp; d-- {
		if y>>uint(d)&1 == 1 {
			y ^= p << uint(d-dp)
		}
	}
	return y
}

func (f *c04Field) gmul(a, b int) int {
	return int(c04Pmod(uint64(f.prim), c04Clmul(uint64(a), uint64(b))))
}

func (f *c04Field) gpow(a, e int) int {
	r := 1
	for e > 0 {
		if e&1 == 1 {
			r = f.gmul(r, a)
		}
		a = f.gmul(a, a)
		e >>= 1
	}
	return r
}

// Horner evaluation of w (highest degree first) at x
func (f *c04Field) refEval(w []int, x int) int {
	r := 0
	for _, c := range w {
		r = f.gmul(r, x) ^ c
	}
	return r
}

// syndromes S_i = w(alpha^(i+base)), i < r
func (f *c04Field) refSyndromes(w []int, r int) []int {
	s := make([]int, r)
	x := f.gpow(2, f.base)
	for i := 0; i < r; i++ {
		s[i] = f.refEval(w, x)
		x = f.gmul(x, 2)
	}
	return s
}

// generator polynomial prod_{i<r} (x - alpha^(i+base)), highest degree first
func (f *c04Field) refGenerator(r int) []int {
	g := []int{1}
	x := f.gpow(2, f.base)
	for i := 0; i < r; i++ {
		ng := make([]int, len(g)+1)
		for j, c := range g {
			ng[j] ^= c
			ng[j+1] ^= f.gmul(c, x)
		}
		g = ng
		x = f.gmul(x, 2)
	}
	return g
}

// systematic encoding by LFSR division with the reference arithmetic
func (f *c04Field) refEncode(data []int, gen []int) []int {
	r := len(gen) - 1
	rem := make([]int, r)
	for _, d := range data {
		fb := d ^ rem[0]
		copy(rem, rem[1:])
		rem[r-1] = 0
		if fb != 0 {
			for j := 0; j < r; j++ {
				rem[j] ^= f.gmul(fb, gen[j+1])
			}
		}
	}
	return append(append([]int(nil), data...), rem...)
}

func c04AllZero(xs []int) bool {
	for _, x := range xs {
		if x != 0 {
			return false
		}
	}
	return true
}

// ---------- watchdog ----------

// Calls into code with data-dependent loops (Divide, Euclid) run under a watchdog: with broken field
// arithmetic those loops need not terminate.  A hung call leaks a spinning goroutine, so after a few
// hangs the remaining calls of the run are skipped (the hang itself is already a reported violation).
var (
	c04Hangs   int32
	c04Ctx     *Ctx
	c04Timeout = 5 * time.Second
)

const c04MaxHangs = 6

func c04Safe(what interface{}, f func() string) string {
	if atomic.LoadInt32(&c04Hangs) >= c04MaxHangs {
		return "TIMEOUT-SKIPPED"
	}
	out := SafeT(c04Timeout, f)
	if out == "TIMEOUT" {
		atomic.AddInt32(&c04Hangs, 1)
		if c04Ctx != nil {
			w := ""
			switch x := what.(type) {
			case string:
				w = x
			case func() string:
				w = x()
			}
			c04Ctx.Oracle("hang", false, "hang", w, "call did not return within "+c04Timeout.String())
		}
	}
	return out
}

// ---------- canonicalisation ----------

func c04RSKind(e error) string {
	m := e.Error()
	switch {
	case strings.Contains(m, "r_{i-1} was zero"):
		return "rs:rlastzero"
	case strings.Contains(m, "sigmaTilde(0) was zero"):
		return "rs:sigmazero"
	case strings.Contains(m, "does not match number of roots"):
		return "rs:rootcount"
	case strings.Contains(m, "Bad error location"):
		return "rs:badlocation"
	case strings.Contains(m, "IllegalStateException"):
		return "rs:illegalstate"
	case strings.Contains(m, "IllegalArgumentException"):
		return "rs:illegalarg"
	}
	return "rs:other"
}

func c04Err(e error) string {
	if strings.Contains(e.Error(), "IllegalArgumentException") {
		return "ERR:illegalarg"
	}
	return "ERR:" + errKind(e)
}

func c04PolyOut(p *reedsolomon.GenericGFPoly, e error) string {
	if e != nil {
		return c04Err(e)
	}
	return "ok " + ints(p.GetCoefficients())
}

func c04Join(xs []string) string { return strings.Join(xs, ",") }

func c04Decode(f *c04Field, w []int, twoS int) string {
	cp := append([]int(nil), w...)
	return c04Safe(func() string { return fmt.Sprintf("Decode %s %s %d", f.name, ints(w), twoS) }, func() string {
		e := reedsolomon.NewReedSolomonDecoder(f.f).Decode(cp, twoS)
		if e != nil {
			return "ERR:" + c04RSKind(e)
		}
		return "ok " + ints(cp)
	})
}

func c04Encode(enc *reedsolomon.ReedSolomonEncoder, w []int, ec int) (string, []int) {
	cp := append([]int(nil), w...)
	out := c04Safe(func() string { return fmt.Sprintf("Encode %s %d", ints(w), ec) }, func() string {
		if e := enc.Encode(cp, ec); e != nil {
			return c04Err(e)
		}
		return "ok " + ints(cp)
	})
	return out, cp
}

// ---------- generators ----------

func c04RandSyms(r *Rng, f *c04Field, n int) []int {
	xs := make([]int, n)
	mode := r.Intn(10)
	for i := range xs {
		switch {
		case mode == 0: // sparse
			if r.Intn(8) == 0 {
				xs[i] = r.Intn(f.size)
			}
		case mode == 1: // small values, many zeros and ones
			xs[i] = r.Intn(3)
		default:
			xs[i] = r.Intn(f.size)
		}
	}
	return xs
}

// distinct positions in [0,n)
func c04Positions(r *Rng, n, cnt int) []int {
	if cnt > n {
		cnt = n
	}
	seen := map[int]bool{}
	var ps []int
	for len(ps) < cnt {
		p := r.Intn(n)
		if r.Intn(6) == 0 { // boundaries: first, last
			p = []int{0, n - 1}[r.Intn(2)]
		}
		if !seen[p] {
			seen[p] = true
			ps = append(ps, p)
		}
	}
	return ps
}

func c04Corrupt(r *Rng, f *c04Field, cw []int, ps []int) []int {
	w := append([]int(nil), cw...)
	for _, p := range ps {
		m := 1 + r.Intn(f.size-1)
		switch r.Intn(6) {
		case 0:
			m = 1
		case 1:
			m = f.size - 1
		}
		w[p] ^= m
	}
	return w
}

// one decode case: model comparison always, oracle when the number of corrupted positions is <= r/2
func c04DecodeCase(c *Ctx, f *c04Field, cw []int, w []int, r int, nerr int, tag string) {
	goOut := c04Decode(f, w, r)
	op := fmt.Sprintf("c04 dec %s %s %d", f.name, ints(w), r)
	c.Cmp("dec", op, goOut)
	if nerr >= 0 && nerr <= r/2 {
		want := "ok " + ints(cw)
		key := "rs-corrects"
		if nerr == 0 {
			key = "rs-clean"
		}
		c.Oracle("dec", goOut == want, key, op, fmt.Sprintf("%d corrupted position(s), r=%d: go=%s want=%s", nerr, r, c04Trunc(goOut), c04Trunc(want)))
	}
	kind := goOut
	if strings.HasPrefix(goOut, "ok") {
		kind = "ok"
		if cw != nil && goOut != "ok "+ints(cw) {
			kind = "ok-other-codeword"
		}
	}
	c.Note("dec:" + tag + ":" + kind)
}

func c04Trunc(s string) string {
	if len(s) > 300 {
		return s[:300] + "..."
	}
	return s
}

func runC04(c *Ctx) {
	c.res.Rule = "tables: Exp/Log of every index of all six fields (+2 aliases); mul/inv: all pairs of the four fields <=256, " +
		"sampled + edge operands for 1024/4096 (all pairs in thorough) against clmul-mod-p computed in the harness; " +
		"polys: random/structured coefficient lists (leading zeros, zero poly, out-of-range symbols) through every exported GenericGFPoly op; " +
		"encode: random (k,r) shapes incl. boundaries, long-lived encoder cache; decode: clean / <=t / t+1..r / random words, every single- and " +
		"double-error position pattern for (3,2),(5,4),(10,6),(19,7), the Chien-search boundary roots, malformed calls; " +
		"non-trivial = distinct op line; oracle = reference arithmetic in the harness (independent of the library's tables)"
	all := append(append([]*c04Field{}, c04Fields...), c04Aliases...)
	c04Ctx = c
	if c.Thorough {
		c04Timeout = 20 * time.Second
	}
	t0 := time.Now()
	lap := func(what string) {
		c.Remark(fmt.Sprintf("section %s done at %.1fs", what, time.Since(t0).Seconds()))
	}

	// ---- 0. worked examples of the standards (transcribed from ISO/IEC 18004 Annex I, version 1-M "01234567",
	//         and ISO/IEC 16022 "123456" in a 10x10 symbol); they also agree with the reference arithmetic above ----
	for _, sv := range []struct {
		f        *c04Field
		data, ec []int
	}{
		{c04Fields[2], []int{0x10, 0x20, 0x0C, 0x56, 0x61, 0x80, 0xEC, 0x11, 0xEC, 0x11, 0xEC, 0x11, 0xEC, 0x11, 0xEC, 0x11},
			[]int{0xA5, 0x24, 0xD4, 0xC1, 0xED, 0x36, 0xC7, 0x87, 0x2C, 0x55}},
		{c04Fields[3], []int{142, 164, 186}, []int{114, 25, 5, 88, 102}},
	} {
		word := append(append([]int(nil), sv.data...), make([]int, len(sv.ec))...)
		want := append(append([]int(nil), sv.data...), sv.ec...)
		out, _ := c04Encode(reedsolomon.NewReedSolomonEncoder(sv.f.f), word, len(sv.ec))
		c.Cmp("std", fmt.Sprintf("c04 enc %s %s %d", sv.f.name, ints(word), len(sv.ec)), out)
		c.Oracle("std", out == "ok "+ints(want), "std-vector", fmt.Sprintf("enc %s %s %d", sv.f.name, ints(word), len(sv.ec)), "go="+out+" standard="+ints(want))
		c.Oracle("std", c04Eq(sv.f.refEncode(sv.data, sv.f.refGenerator(len(sv.ec))), want), "std-vector-ref", "reference arithmetic vs standard "+sv.f.name, "")
		c04DecodeCase(c, sv.f, want, want, len(sv.ec), 0, "std")
		for p := 0; p < len(want); p++ {
			w := append([]int(nil), want...)
			w[p] ^= 0x5A
			c04DecodeCase(c, sv.f, want, w, len(sv.ec), 1, "std")
		}
	}

	// ---- 1. tables ----
	for _, f := range all {
		par := Safe(func() string {
			var p, s int
			fmt.Sscanf(f.f.String(), "GF(0x%x,%d)", &p, &s)
			if s != f.f.GetSize() {
				return "size-mismatch"
			}
			return fmt.Sprintf("%d,%d,%d", p, s, f.f.GetGeneratorBase())
		})
		c.Cmp("tab", "c04 tab "+f.name+" par", par)
		c.Oracle("tab", par == fmt.Sprintf("%d,%d,%d", f.prim, f.size, f.base), "field-params", "params "+f.name, "go="+par)
		// Exp(i) for i = 0..size (last one must panic), Log(a) for a = 0..size
		x := 1
		for lo := 0; lo <= f.size; lo += 512 {
			hi := lo + 512
			if hi > f.size+1 {
				hi = f.size + 1
			}
			idx := make([]int, 0, hi-lo)
			var eo, lg []string
			for i := lo; i < hi; i++ {
				idx = append(idx, i)
				i := i
				e := Safe(func() string { return fmt.Sprint(f.f.Exp(i)) })
				l := Safe(func() string {
					v, err := f.f.Log(i)
					if err != nil {
						return c04Err(err)
					}
					return fmt.Sprint(v)
				})
				eo = append(eo, e)
				lg = append(lg, l)
				if i < f.size {
					c.Oracle("tab", e == fmt.Sprint(x), "table-exp", fmt.Sprintf("Exp %s %d", f.name, i), fmt.Sprintf("go=%s want x^i mod p=%d", e, x))
					x = f.gmul(x, 2)
				}
				if i > 0 && i < f.size {
					// exp(log a) == a, with exp recomputed by the reference arithmetic
					var lv int
					fmt.Sscan(l, &lv)
					c.Oracle("tab", l != "PANIC" && !strings.HasPrefix(l, "ERR") && lv >= 0 && lv < f.size-1 && f.gpow(2, lv) == i,
						"table-log", fmt.Sprintf("Log %s %d", f.name, i), "go="+l)
				}
			}
			c.Cmp("tab", fmt.Sprintf("c04 expv %s %s", f.name, ints(idx)), c04Join(eo))
			c.Cmp("tab", fmt.Sprintf("c04 logv %s %s", f.name, ints(idx)), c04Join(lg))
		}
		c.Note("tab:" + f.name)
	}

	// ---- 2. Multiply / Inverse ----
	mulRow := func(f *c04Field, as, bs []int, model, ref bool) {
		out := make([]string, len(as))
		refs := make([]string, len(as))
		bad := -1
		for i := range as {
			a, b := as[i], bs[i]
			g := Safe(func() string { return fmt.Sprint(f.f.Multiply(a, b)) })
			out[i] = g
			refs[i] = fmt.Sprint(f.gmul(a, b))
			if a < f.size && b < f.size && g != refs[i] && bad < 0 {
				bad = i
			}
		}
		// one oracle record per row of pairs (the first failing pair is the replay input)
		if bad < 0 {
			c.Oracle("mul", true, "mul-ref", fmt.Sprintf("Multiply %s row %d.. x %d.. (%d pairs)", f.name, as[0], bs[0], len(as)), "")
		} else {
			c.Oracle("mul", false, "mul-ref", fmt.Sprintf("Multiply %s %d %d", f.name, as[bad], bs[bad]), fmt.Sprintf("go=%s want clmul mod p=%s", out[bad], refs[bad]))
		}
		if model {
			c.Cmp("mul", fmt.Sprintf("c04 mulv %s %s %s", f.name, ints(as), ints(bs)), c04Join(out))
		}
		if ref { // harness reference vs Lean reference (pmod prim (clmul a b))
			c.Cmp("ref", fmt.Sprintf("c04 refv %s %s %s", f.name, ints(as), ints(bs)), c04Join(refs))
		}
	}
	invRow := func(f *c04Field, as []int) {
		out := make([]string, len(as))
		for i, a := range as {
			a := a
			out[i] = Safe(func() string {
				v, err := f.f.Inverse(a)
				if err != nil {
					return c04Err(err)
				}
				return fmt.Sprint(v)
			})
			if a > 0 && a < f.size {
				var v int
				_, e := fmt.Sscan(out[i], &v)
				c.Oracle("inv", e == nil && v > 0 && v < f.size && f.gmul(a, v) == 1, "inv-ref", fmt.Sprintf("Inverse %s %d", f.name, a), "go="+out[i])
			} else if a == 0 {
				c.Oracle("inv", out[i] == "ERR:illegalarg", "inv-zero", fmt.Sprintf("Inverse %s 0", f.name), "go="+out[i])
			}
		}
		c.Cmp("inv", fmt.Sprintf("c04 invv %s %s", f.name, ints(as)), c04Join(out))
	}
	for _, f := range c04Fields {
		f := f
		// inverses: every element, 0, and `size` (out of range)
		for lo := 0; lo <= f.size; lo += 512 {
			var as []int
			for a := lo; a < lo+512 && a <= f.size; a++ {
				as = append(as, a)
			}
			invRow(f, as)
		}
		if f.size <= 256 {
			c.Parallel(f.size+1, 16, func(a int, _ *Rng) { // a = size: out-of-range operand (panic unless the other is 0)
				as := make([]int, f.size+1)
				bs := make([]int, f.size+1)
				for b := 0; b <= f.size; b++ {
					as[b], bs[b] = a, b
				}
				mulRow(f, as, bs, true, a%16 == 0)
			})
			c.NoteN("mul:"+f.name+":exhaustive-pairs", f.size*f.size)
		} else {
			// edge operands against every element
			edges := []int{0, 1, 2, 3, f.size / 2, f.size - 2, f.size - 1, f.size}
			c.Parallel(len(edges), 16, func(i int, _ *Rng) {
				for lo := 0; lo <= f.size; lo += 512 {
					var as, bs []int
					for b := lo; b < lo+512 && b <= f.size; b++ {
						as = append(as, edges[i])
						bs = append(bs, b)
					}
					mulRow(f, as, bs, true, false)
					mulRow(f, bs, as, true, false)
				}
			})
			if c.Thorough {
				// all pairs against the reference; one row in 16 also against the model
				c.Parallel(f.size, 16, func(a int, _ *Rng) {
					for lo := 0; lo < f.size; lo += 1024 {
						var as, bs []int
						for b := lo; b < lo+1024 && b < f.size; b++ {
							as = append(as, a)
							bs = append(bs, b)
						}
						mulRow(f, as, bs, a%16 == 0, a%64 == 0)
					}
				})
				c.NoteN("mul:"+f.name+":exhaustive-pairs", f.size*f.size)
			} else {
				// 2M sampled pairs per field against the reference; 200k of them against the model, 100k reference-vs-reference
				c.Parallel(2000, 16, func(i int, r *Rng) {
					as := make([]int, 1000)
					bs := make([]int, 1000)
					for j := range as {
						as[j], bs[j] = r.Intn(f.size), r.Intn(f.size)
					}
					mulRow(f, as, bs, i%10 == 0, i%20 == 0)
				})
				c.NoteN("mul:"+f.name+":sampled-pairs", 2000000)
			}
		}
	}
	c.Flush()
	lap("mul")

	// ---- 3. GenericGFPoly operations ----
	nPoly := c.Pick(6000, 200000)
	c.Parallel(nPoly, 16, func(it int, r *Rng) {
		f := c04Fields[it%len(c04Fields)]
		genPoly := func() []int {
			n := r.Range(1, 12)
			if r.Intn(10) == 0 {
				n = r.Range(13, 60)
			}
			if r.Intn(40) == 0 {
				n = 0
			}
			cs := make([]int, n)
			mode := r.Intn(8)
			for i := range cs {
				switch mode {
				case 0:
					cs[i] = 0
				case 1:
					cs[i] = r.Intn(2)
				default:
					cs[i] = r.Intn(f.size)
				}
			}
			for i := 0; i < n && r.Intn(3) == 0; i++ { // leading zeros
				cs[i] = 0
			}
			if n > 0 && r.Intn(60) == 0 { // malformed stream: symbol outside the field
				cs[r.Intn(n)] = f.size + r.Intn(3)
			}
			return cs
		}
		pc, qc := genPoly(), genPoly()
		p, pe := reedsolomon.NewGenericGFPoly(f.f, pc)
		c.Cmp("poly", "c04 pnew "+ints(pc), c04PolyOut(p, pe))
		q, qe := reedsolomon.NewGenericGFPoly(f.f, qc)
		if pe != nil || qe != nil {
			c.Note("poly:empty")
			return
		}
		pn, qn := ints(p.GetCoefficients()), ints(q.GetCoefficients())
		c.Cmp("poly", fmt.Sprintf("c04 padd %s %s", pn, qn), c04Safe("AddOrSubtract "+pn+" "+qn, func() string { return c04PolyOut(p.AddOrSubtract(q)) }))
		c.Cmp("poly", fmt.Sprintf("c04 pmul %s %s %s", f.name, pn, qn), c04Safe("Multiply "+pn+" "+qn, func() string { return c04PolyOut(p.Multiply(q)) }))
		s := r.Pick([]int{0, 1, 2, f.size - 1, r.Intn(f.size), r.Intn(f.size)})
		c.Cmp("poly", fmt.Sprintf("c04 pscale %s %s %d", f.name, pn, s), c04Safe("MultiplyBy "+pn, func() string { return c04PolyOut(p.MultiplyBy(s), nil) }))
		d := r.Intn(6)
		c.Cmp("poly", fmt.Sprintf("c04 pmono %s %s %d %d", f.name, pn, d, s), c04Safe("MultiplyByMonomial "+pn, func() string { return c04PolyOut(p.MultiplyByMonomial(d, s)) }))
		c.Cmp("poly", fmt.Sprintf("c04 bmono %d %d", d, s), Safe(func() string { return c04PolyOut(f.f.BuildMonomial(d, s)) }))
		c.Cmp("poly", fmt.Sprintf("c04 pdiv %s %s %s", f.name, pn, qn), c04Safe("Divide "+f.name+" "+pn+" "+qn, func() string {
			qq, rr, e := p.Divide(q)
			if e != nil {
				return c04Err(e)
			}
			return "ok " + ints(qq.GetCoefficients()) + " " + ints(rr.GetCoefficients())
		}))
		pts := []int{0, 1, 2, f.size - 1, r.Intn(f.size), r.Intn(f.size), f.size}
		evs := make([]string, len(pts))
		for i, a := range pts {
			a := a
			evs[i] = Safe(func() string { return fmt.Sprint(p.EvaluateAt(a)) })
			if a < f.size {
				inRange := true
				for _, x := range p.GetCoefficients() {
					if x >= f.size {
						inRange = false
					}
				}
				if inRange {
					c.Oracle("poly", evs[i] == fmt.Sprint(f.refEval(p.GetCoefficients(), a)), "eval-ref", fmt.Sprintf("EvaluateAt %s %s %d", f.name, pn, a), "go="+evs[i])
				}
			}
		}
		c.Cmp("poly", fmt.Sprintf("c04 peval %s %s %s", f.name, pn, ints(pts)), c04Join(evs))
		c.Note("poly:" + f.name)
	})
	c.Flush()
	lap("poly")

	// ---- 4. Encode ----
	encCase := func(f *c04Field, enc *reedsolomon.ReedSolomonEncoder, data []int, ec int, word []int) {
		// word = data ++ junk tail of length ec (Encode must overwrite it)
		goOut, after := c04Encode(enc, word, ec)
		c.Cmp("enc", fmt.Sprintf("c04 enc %s %s %d", f.name, ints(word), ec), goOut)
		k := len(data)
		if ec >= 1 && k >= 1 && k+ec <= f.size-1 && c04InRange(f, data) {
			op := fmt.Sprintf("enc %s %s %d", f.name, ints(word), ec)
			okSys := strings.HasPrefix(goOut, "ok") && len(after) == k+ec && c04Eq(after[:k], data)
			c.Oracle("enc", okSys, "enc-systematic", op, "go="+c04Trunc(goOut))
			if okSys {
				c.Oracle("enc", c04InRange(f, after) && c04AllZero(f.refSyndromes(after, ec)), "enc-syndromes", op, "go="+c04Trunc(goOut)+" syndromes="+ints(f.refSyndromes(after, ec)))
			}
			c.Note("enc:" + f.name + ":valid")
		} else {
			c.Note("enc:" + f.name + ":" + strings.SplitN(goOut, " ", 2)[0])
		}
	}
	shape := func(r *Rng, f *c04Field, nmax int) (k, ec int) {
		if nmax > f.size-1 {
			nmax = f.size - 1
		}
		defer func() {
			// long words: keep the parity count moderate (cost is quadratic in it) except for one case in 300
			if k+ec > 300 && ec > 64 && r.Intn(300) != 0 {
				n := k + ec
				ec = r.Range(1, 64)
				k = n - ec
			}
		}()
		switch r.Intn(8) {
		case 0: // full length
			ec = r.Range(1, c04Min(nmax-1, 40))
			k = nmax - ec
		case 1:
			k, ec = 1, r.Range(1, nmax-1)
		case 2:
			ec = r.Range(1, 2)
			k = r.Range(1, nmax-ec)
		default:
			n := r.Range(2, nmax)
			if r.Intn(2) == 0 {
				n = r.Range(2, c04Min(nmax, 40))
			}
			ec = r.Range(1, n-1)
			k = n - ec
		}
		return
	}
	nEnc := c.Pick(6000, 120000)
	c.Parallel(nEnc, 16, func(it int, r *Rng) {
		f := c04Fields[it%len(c04Fields)]
		nmax := 255
		if c.Thorough && r.Intn(4) == 0 {
			nmax = f.size - 1
		}
		k, ec := shape(r, f, nmax)
		data := c04RandSyms(r, f, k)
		word := append(append([]int(nil), data...), c04RandSyms(r, f, ec)...)
		switch r.Intn(40) { // malformed stream
		case 0:
			ec = 0
		case 1:
			ec = len(word) + r.Intn(2)
			data = nil
		case 2:
			word[r.Intn(len(word))] = f.size + r.Intn(2)
		case 3:
			if len(word) > 1 {
				ec = len(word) - 1
			}
		}
		if ec <= len(word) {
			data = word[:len(word)-ec]
		} else {
			data = nil
		}
		encCase(f, reedsolomon.NewReedSolomonEncoder(f.f), data, ec, word)
		if it%8 == 0 && ec >= 1 && ec < f.size-1 { // generator polynomial through the parity of the data word "1"
			enc := reedsolomon.NewReedSolomonEncoder(f.f)
			w := make([]int, ec+1)
			w[0] = 1
			out, after := c04Encode(enc, w, ec)
			if strings.HasPrefix(out, "ok") {
				c.Cmp("gen", fmt.Sprintf("c04 gen %s %d", f.name, ec), "ok "+ints(after))
				c.Oracle("gen", c04Eq(after, f.refGenerator(ec)), "generator", fmt.Sprintf("generator %s %d", f.name, ec), "go="+c04Trunc(ints(after)))
			}
		}
	})
	// long-lived encoders: the generator cache must not change results (degrees in random order, repeated)
	for _, f := range c04Fields {
		enc := reedsolomon.NewReedSolomonEncoder(f.f)
		r := c.Rng.Fork()
		for it := 0; it < c.Pick(60, 600); it++ {
			k, ec := shape(r, f, 120)
			if it%17 == 5 {
				ec = f.size + 3 // generator degree beyond the field: Exp index panic, cache left partially extended
				k = 2
			}
			data := c04RandSyms(r, f, k)
			word := append(append([]int(nil), data...), make([]int, ec)...)
			encCase(f, enc, data, ec, word)
		}
	}
	// the `par` API of the model (parity only) on a few cases
	for _, f := range c04Fields {
		r := c.Rng.Fork()
		for it := 0; it < 40; it++ {
			k, ec := shape(r, f, 60)
			data := c04RandSyms(r, f, k)
			_, after := c04Encode(reedsolomon.NewReedSolomonEncoder(f.f), append(append([]int(nil), data...), make([]int, ec)...), ec)
			c.Cmp("enc", fmt.Sprintf("c04 par %s %s %d", f.name, ints(data), ec), "ok "+ints(after[k:]))
		}
	}
	c.Flush()
	lap("enc")

	// ---- 5. Decode ----
	// 5a. every single- and double-error position pattern of four short codes
	for _, f := range c04Fields {
		f := f
		for _, kr := range [][2]int{{3, 2}, {5, 4}, {10, 6}, {19, 7}} {
			k, r := kr[0], kr[1]
			n := k + r
			if n > f.size-1 {
				continue
			}
			gen := f.refGenerator(r)
			nData := c.Pick(2, 12)
			c.Parallel(nData, 16, func(di int, rng *Rng) {
				data := c04RandSyms(rng, f, k)
				if di == 0 {
					data = make([]int, k) // all-zero code word
				}
				cw := f.refEncode(data, gen)
				c04DecodeCase(c, f, cw, cw, r, 0, "clean")
				// single errors: every position x (every magnitude if the field is small, else a spread)
				var mags []int
				if f.size <= 64 || (c.Thorough && f.size <= 256) {
					for m := 1; m < f.size; m++ {
						mags = append(mags, m)
					}
				} else {
					mags = []int{1, 2, 3, f.size / 2, f.size - 2, f.size - 1}
					for j := 0; j < c.Pick(10, 40); j++ {
						mags = append(mags, 1+rng.Intn(f.size-1))
					}
				}
				for p := 0; p < n; p++ {
					for _, m := range mags {
						w := append([]int(nil), cw...)
						w[p] ^= m
						c04DecodeCase(c, f, cw, w, r, 1, "single")
					}
				}
				// double errors: every position pair x magnitude pairs
				m2 := [][2]int{{1, 1}, {1, f.size - 1}, {f.size - 1, 2}}
				for j := 0; j < c.Pick(3, 12); j++ {
					m2 = append(m2, [2]int{1 + rng.Intn(f.size-1), 1 + rng.Intn(f.size-1)})
				}
				for p := 0; p < n; p++ {
					for q := p + 1; q < n; q++ {
						for _, mm := range m2 {
							w := append([]int(nil), cw...)
							w[p] ^= mm[0]
							w[q] ^= mm[1]
							c04DecodeCase(c, f, cw, w, r, 2, "double") // oracle only if 2 <= r/2
						}
					}
				}
			})
		}
	}
	c.Flush()
	lap("dec-patterns")
	// 5b. Chien-search boundary: errors at the positions whose locator roots are the first (i = 1) and the
	//     last (i = size-1) candidate of the search loop, together with other positions
	for _, f := range c04Fields {
		f := f
		// root i  <->  X = i^-1 = alpha^j  <->  position n-1-j ; i = size-1: j = (size-1) - log(size-1)
		lg := 0
		for x := 1; x != f.size-1; x = f.gmul(x, 2) {
			lg++
		}
		jLast := (f.size - 1 - lg) % (f.size - 1)
		c.Parallel(c.Pick(24, 200), 16, func(it int, rng *Rng) {
			r := rng.Range(4, 12)
			n := jLast + 1 + rng.Intn(4)
			if n > f.size-1 {
				n = f.size - 1
			}
			if n < r+1 {
				n = c04Min(r+1+rng.Intn(4), f.size-1)
			}
			if r >= n {
				r = n - 1
			}
			k := n - r
			cw := f.refEncode(c04RandSyms(rng, f, k), f.refGenerator(r))
			t := r / 2
			ne := 2
			if t > 2 {
				ne = rng.Range(2, t)
			}
			if ne > n {
				ne = n
			}
			ps := []int{}
			if n-1-jLast >= 0 {
				ps = append(ps, n-1-jLast)
			}
			if it%2 == 0 && n-1-jLast != n-1 {
				ps = append(ps, n-1)
			}
			for len(ps) < ne {
				p := rng.Intn(n)
				dup := false
				for _, x := range ps {
					dup = dup || x == p
				}
				if !dup {
					ps = append(ps, p)
				}
			}
			ps = ps[:ne]
			w := c04Corrupt(rng, f, cw, ps)
			c04DecodeCase(c, f, cw, w, r, ne, "chien-boundary")
		})
	}
	c.Flush()
	lap("dec-chien")
	// 5c. sampled shapes: clean, <= t, t+1..r, more than r, random words
	nDec := c.Pick(20000, 2000000)
	c.Parallel(nDec, 16, func(it int, rng *Rng) {
		f := c04Fields[it%len(c04Fields)]
		nmax := 255
		if c.Thorough && it%50 < 6 {
			nmax = f.size - 1
		}
		k, r := shape(rng, f, nmax)
		n := k + r
		cw := f.refEncode(c04RandSyms(rng, f, k), f.refGenerator(r))
		t := r / 2
		cmpModel := !(c.Thorough && n > 1100 && it%7 != 0) // very long words: the Lean driver sees one in 7
		var w []int
		nerr, tag := -1, ""
		switch m := rng.Intn(20); {
		case m < 2:
			w, nerr, tag = cw, 0, "clean"
		case m < 12:
			nerr = rng.Range(c04Min(1, t), t)
			if rng.Intn(3) == 0 {
				nerr = t
			}
			w, tag = c04Corrupt(rng, f, cw, c04Positions(rng, n, nerr)), "le-t"
			if nerr == 0 {
				tag = "clean"
			}
		case m < 16:
			nerr = c04Min(rng.Range(t+1, r), n)
			w, tag = c04Corrupt(rng, f, cw, c04Positions(rng, n, nerr)), "t+1..r"
			if nerr <= t {
				tag = "le-t"
			}
		case m < 18:
			nerr = c04Min(rng.Range(r+1, r+4), n)
			w, tag = c04Corrupt(rng, f, cw, c04Positions(rng, n, nerr)), "gt-r"
			if nerr <= t {
				tag = "le-t"
			}
		default:
			w, nerr, tag = c04RandSyms(rng, f, n), -1, "random"
			cw = nil
		}
		if !cmpModel {
			goOut := c04Decode(f, w, r)
			if nerr >= 0 && nerr <= t {
				c.Oracle("dec", goOut == "ok "+ints(cw), "rs-corrects", fmt.Sprintf("c04 dec %s %s %d", f.name, ints(w), r), fmt.Sprintf("%d corrupted position(s), r=%d: go=%s", nerr, r, c04Trunc(goOut)))
			}
			c.Note("dec:oracle-only:" + tag)
			return
		}
		c04DecodeCase(c, f, cw, w, r, nerr, tag)
	})
	c.Flush()
	lap("dec-sampled")
	// 5d. thorough: full-length words, every single-error position x 3 magnitudes (oracle; the model sees a sample)
	if c.Thorough {
		for _, f := range c04Fields {
			f := f
			n := f.size - 1
			for _, r := range []int{2, 7, c04Min(n-1, 64)} {
				k := n - r
				cw := f.refEncode(c04RandSyms(c.Rng.Fork(), f, k), f.refGenerator(r))
				c.Parallel(n, 16, func(p int, rng *Rng) {
					for _, m := range []int{1, f.size - 1, 1 + rng.Intn(f.size-1)} {
						w := append([]int(nil), cw...)
						w[p] ^= m
						if f.size <= 256 || p%64 == 0 {
							c04DecodeCase(c, f, cw, w, r, 1, "full-single")
						} else {
							goOut := c04Decode(f, w, r)
							c.Oracle("dec", goOut == "ok "+ints(cw), "rs-corrects", fmt.Sprintf("c04 dec %s %s %d", f.name, ints(w), r), "single error at "+fmt.Sprint(p)+": go="+c04Trunc(goOut))
							c.Note("dec:oracle-only:full-single")
						}
					}
				})
			}
		}
		c.Flush()
		lap("dec-full")
	}
	// 5e. malformed calls
	for _, f := range c04Fields {
		rng := c.Rng.Fork()
		for it := 0; it < c.Pick(150, 3000); it++ {
			n := rng.Intn(12)
			w := c04RandSyms(rng, f, n)
			twoS := rng.Intn(n + 3)
			switch rng.Intn(6) {
			case 0:
				if n > 0 {
					w[rng.Intn(n)] = f.size + rng.Intn(2) // symbol outside the field
				}
			case 1:
				twoS = 0
			case 2:
				if f.size <= 256 || it%25 == 2 {
					twoS = f.size - 1 + rng.Intn(3) // Exp index at / beyond the table end
				}
			case 3:
				for i := range w {
					w[i] = 0
				}
			}
			c04DecodeCase(c, f, nil, w, twoS, -1, "malformed")
		}
	}
	c.Flush()
	lap("dec-malformed")
}

func c04Min(a, b int) int {
	if a < b {
		return a
	}
	return b
}

func c04InRange(f *c04Field, xs []int) bool {
	for _, x := range xs {
		if x < 0 || x >= f.size {
			return false
		}
	}
	return true
}

func c04Eq(a, b []int) bool {
	if len(a) != len(b) {
		return false
	}
	for i := range a {
		if a[i] != b[i] {
			return false
		}
	}
	return true
}
