package main

// C05 — damaged QR / Data Matrix symbols decode exactly, up to the promised capacity.
//   ORACLE = fault enumeration on the REAL decoders: codewords are corrupted by flipping the modules at
//   their placed positions (placement maps obtained from the real encoders by differential probing):
//     (a) every single codeword position of every block, one random wrong value;
//     (b) random fault sets of exactly t_b = floor(ec_b/2) codewords in every block at once;
//     (c) t_b+1 faults in one block: outside the promise — outcomes only counted;
//     (d) <=3 flipped bits in each copy of the format information / version information,
//         exhaustively on the decode functions and on whole symbols.
//   CORRESPONDENCE: format/version decoding (exhaustive over the tolerated patterns, sampled beyond),
//   whole-symbol decoding of damaged matrices — Go vs the Lean model.

import (
	"fmt"
	"strings"
	"time"

	"github.com/makiuchi-d/gozxing"
	"github.com/makiuchi-d/gozxing/datamatrix"
	dmdecoder "github.com/makiuchi-d/gozxing/datamatrix/decoder"
	dmencoder "github.com/makiuchi-d/gozxing/datamatrix/encoder"
	"github.com/makiuchi-d/gozxing/qrcode/decoder"
	"github.com/makiuchi-d/gozxing/qrcode/encoder"
)

func init() { suites["C05"] = runC05 }

// all subsets of {0..n-1} with at most 3 elements, as bit masks
func c05Subsets3(n int) []int {
	out := []int{0}
	for a := 0; a < n; a++ {
		out = append(out, 1<<uint(a))
		for b := a + 1; b < n; b++ {
			out = append(out, 1<<uint(a)|1<<uint(b))
			for d := b + 1; d < n; d++ {
				out = append(out, 1<<uint(a)|1<<uint(b)|1<<uint(d))
			}
		}
	}
	return out
}

func c05RandomSubset(r *Rng, n, k int) int {
	m := 0
	for c := 0; c < k; {
		b := 1 << uint(r.Intn(n))
		if m&b == 0 {
			m |= b
			c++
		}
	}
	return m
}

// BCH remainder of value<<(deg) modulo poly (independent of the library)
func c05Bch(value, poly, deg int) int {
	v := value << uint(deg)
	for i := 31; i >= deg; i-- {
		if v>>uint(i)&1 == 1 {
			v ^= poly << uint(i-deg)
		}
	}
	return v
}

func c05FormatWord(d int) int  { return (d<<10 | c05Bch(d, 0x537, 10)) ^ 0x5412 }
func c05VersionWord(v int) int { return v<<12 | c05Bch(v, 0x1F25, 12) }

// module coordinates (x, y) of the two format copies / two version copies, in reading order (MSB first)
func c05FormatCells(dim int) (c1, c2 [][2]int) {
	for i := 0; i < 6; i++ {
		c1 = append(c1, [2]int{i, 8})
	}
	c1 = append(c1, [2]int{7, 8}, [2]int{8, 8}, [2]int{8, 7})
	for j := 5; j >= 0; j-- {
		c1 = append(c1, [2]int{8, j})
	}
	for j := dim - 1; j >= dim-7; j-- {
		c2 = append(c2, [2]int{8, j})
	}
	for i := dim - 8; i < dim; i++ {
		c2 = append(c2, [2]int{i, 8})
	}
	return
}

func c05VersionCells(dim int) (c1, c2 [][2]int) {
	for j := 5; j >= 0; j-- {
		for i := dim - 9; i >= dim-11; i-- {
			c1 = append(c1, [2]int{i, j})
		}
	}
	for i := 5; i >= 0; i-- {
		for j := dim - 9; j >= dim-11; j-- {
			c2 = append(c2, [2]int{i, j})
		}
	}
	return
}

func c05Flip(m *gozxing.BitMatrix, cells [][2]int, mask int) {
	n := len(cells)
	for k := 0; k < n; k++ {
		if mask>>uint(n-1-k)&1 == 1 {
			m.Flip(cells[k][0], cells[k][1])
		}
	}
}

func c05GoFormat(a, b int) string {
	return Safe(func() string {
		fi := decoder.FormatInformation_DecodeFormatInformation(uint(a), uint(b))
		if fi == nil {
			return "none"
		}
		return fmt.Sprintf("ok %s %d", fi.GetErrorCorrectionLevel().String(), fi.GetDataMask())
	})
}

func c05GoVersion(bits int) string {
	return Safe(func() string {
		v, e := decoder.Version_decodeVersionInformation(bits)
		if e != nil || v == nil {
			return "ERR"
		}
		return fmt.Sprintf("ok %d", v.GetVersionNumber())
	})
}

type c05QR struct {
	text    string
	version int
	ec      decoder.ErrorCorrectionLevel
	mask    int
	bm      *gozxing.BitMatrix
	cw      []byte
	blockOf []int
	ecPer   int
	nBlocks int
	pl      *cqrPlacement
}

func c05BuildQR(r *Rng, v int, ec decoder.ErrorCorrectionLevel, mask int) (*c05QR, string) {
	mode := []string{"N", "A", "B"}[r.Intn(3)]
	cp := c01Capacity(v, ec, mode, 0)
	n := cp
	if r.Chance(0.5) {
		n = r.Range((cp+1)/2, cp)
	}
	q := &c05QR{text: c01Gen(r, mode, n), version: v, ec: ec, mask: mask}
	hints := map[gozxing.EncodeHintType]interface{}{gozxing.EncodeHintType_QR_VERSION: v}
	if mask >= 0 {
		hints[gozxing.EncodeHintType_QR_MASK_PATTERN] = mask
	}
	qr, e := encoder.Encoder_encode(q.text, ec, hints)
	if e != nil {
		return nil, "encode: " + e.Error()
	}
	q.mask = qr.GetMaskPattern()
	q.bm = cqrBitMatrixOf(qr.GetMatrix())
	p, e2 := decoder.NewBitMatrixParser(cqrClone(q.bm))
	if e2 != nil {
		return nil, "parser: " + e2.Error()
	}
	cw, e2 := p.ReadCodewords()
	if e2 != nil {
		return nil, "read codewords: " + e2.Error()
	}
	q.cw = cw
	q.blockOf, q.ecPer, q.nBlocks = cqrBlockMap(qr.GetVersion(), ec)
	q.pl = cqrPlacementOf(v)
	return q, ""
}

func (q *c05QR) in(what string) string {
	return fmt.Sprintf("qr v=%d ec=%s mask=%d text=%s faults=%s", q.version, q.ec.String(), q.mask, hexs([]byte(q.text)), what)
}

// apply codeword faults (position -> new value) to a clone and decode
func (q *c05QR) decodeWith(faults map[int]byte) (string, bool, *gozxing.BitMatrix) {
	m := cqrClone(q.bm)
	for k, nv := range faults {
		q.pl.rewrite(m, k, q.cw[k], nv)
	}
	out, res := cqrGoDecode(m, cqrNoHint())
	return out, res != nil && res.GetText() == q.text && res.GetECLevel() == q.ec.String(), m
}

func c05Wrong(r *Rng, old byte) byte {
	for {
		if b := byte(r.Intn(256)); b != old {
			return b
		}
	}
}

func c05FaultStr(f map[int]byte) string {
	var ps []string
	for k, v := range f {
		ps = append(ps, fmt.Sprintf("%d:%02x", k, v))
	}
	if len(ps) > 40 {
		ps = append(ps[:40], "...")
	}
	return strings.Join(ps, ",")
}

func c05Short(s string) string {
	if len(s) > 160 {
		return s[:160]
	}
	return s
}

func runC05(c *Ctx) {
	c.res.Rule = "QR: versions x 4 levels (quick {1,2,5,7,10,14,21,27,33,40} plus every other version at one level with full-capacity fault sets only, thorough all 40, several masks): every single codeword position of every block with a random wrong value; " +
		"20 random fault sets of exactly floor(ec/2) per block in all blocks at once; floor(ec/2)+1 in one block counted only; format info: every <=3-bit pattern in one copy x random <=3 in the other on symbols, " +
		"all pairs of <=3-bit patterns on the decode function for all 32 words; version info: every <=3-bit pattern for 34 words on the function and on symbols v7/23/40 (thorough: all). " +
		"Data Matrix: all 30 sizes, same (a)(b)(c). Faults are module flips at placement positions probed from the real encoders. non-trivial = distinct oracle input / op line"
	t0 := time.Now()
	c05FormatVersionFunctions(c)
	t1 := time.Now()
	c05QRSymbols(c)
	t2 := time.Now()
	c05DataMatrix(c)
	c.Remark(fmt.Sprintf("timing: functions %.1fs, qr symbols %.1fs, data matrix %.1fs", t1.Sub(t0).Seconds(), t2.Sub(t1).Seconds(), time.Since(t2).Seconds()))
}

// ---- (d) on the decode functions: exhaustive oracle + model correspondence ----
func c05FormatVersionFunctions(c *Ctx) {
	subs15 := c05Subsets3(15)
	subs18 := c05Subsets3(18)
	c.Parallel(32, 16, func(d int, r *Rng) {
		w := c05FormatWord(d)
		ecBits, mask := d>>3, d&7
		lv, _ := decoder.ErrorCorrectionLevel_ForBits(uint(ecBits))
		want := fmt.Sprintf("ok %s %d", lv.String(), mask)
		bad := 0
		firstBad := ""
		for _, e1 := range subs15 {
			for _, e2 := range subs15 {
				fi := decoder.FormatInformation_DecodeFormatInformation(uint(w^e1), uint(w^e2))
				if fi == nil || fi.GetErrorCorrectionLevel() != lv || int(fi.GetDataMask()) != mask {
					bad++
					if firstBad == "" {
						firstBad = fmt.Sprintf("word=%#x e1=%#x e2=%#x", w, e1, e2)
					}
				}
			}
		}
		c.NoteN("format-function-patterns", len(subs15)*len(subs15))
		c.Oracle("format-function", bad == 0, "format-tolerance-function", fmt.Sprintf("data=%d %s", d, firstBad),
			fmt.Sprintf("%d of %d patterns with <=3 flipped bits per copy are not decoded to the written format", bad, len(subs15)*len(subs15)))
		// model: every pattern in one copy x a few in the other, both orders; plus patterns beyond the promise
		for _, e1 := range subs15 {
			for k := 0; k < 3; k++ {
				e2 := subs15[r.Intn(len(subs15))]
				c.Cmp("format-function", fmt.Sprintf("c05 fmt %d %d", w^e1, w^e2), c05GoFormat(w^e1, w^e2))
				c.Cmp("format-function", fmt.Sprintf("c05 fmt %d %d", w^e2, w^e1), c05GoFormat(w^e2, w^e1))
			}
		}
		for k := 0; k < c.Pick(400, 20000); k++ {
			a := w ^ c05RandomSubset(r, 15, r.Range(0, 8))
			b := w ^ c05RandomSubset(r, 15, r.Range(0, 8))
			if r.Chance(0.1) {
				b = r.Intn(1 << 15)
			}
			if r.Chance(0.05) {
				a ^= 0x5412
				b ^= 0x5412
			}
			out := c05GoFormat(a, b)
			c.Note("format-beyond:" + strings.SplitN(out, " ", 2)[0])
			c.Cmp("format-function", fmt.Sprintf("c05 fmt %d %d", a, b), out)
		}
		_ = want
	})
	c.Parallel(34, 16, func(i int, r *Rng) {
		v := i + 7
		w := c05VersionWord(v)
		bad := 0
		firstBad := ""
		for _, e := range subs18 {
			out := c05GoVersion(w ^ e)
			if out != fmt.Sprintf("ok %d", v) {
				bad++
				if firstBad == "" {
					firstBad = fmt.Sprintf("word=%#x e=%#x -> %s", w, e, out)
				}
			}
			c.Cmp("version-function", fmt.Sprintf("c05 ver %d", w^e), out)
		}
		c.NoteN("version-function-patterns", len(subs18))
		c.Oracle("version-function", bad == 0, "version-tolerance-function", fmt.Sprintf("version=%d %s", v, firstBad),
			fmt.Sprintf("%d of %d patterns with <=3 flipped bits are not decoded to the written version", bad, len(subs18)))
		for k := 0; k < c.Pick(300, 10000); k++ {
			a := w ^ c05RandomSubset(r, 18, r.Range(0, 9))
			if r.Chance(0.1) {
				a = r.Intn(1 << 18)
			}
			out := c05GoVersion(a)
			c.Note("version-beyond:" + strings.SplitN(out, " ", 2)[0])
			c.Cmp("version-function", fmt.Sprintf("c05 ver %d", a), out)
		}
	})
}

func c05QRSymbols(c *Ctx) {
	versions := []int{1, 2, 5, 7, 10, 14, 21, 27, 33, 40}
	if c.Thorough {
		versions = nil
		for v := 1; v <= 40; v++ {
			versions = append(versions, v)
		}
	}
	type sym struct {
		v    int
		ec   decoder.ErrorCorrectionLevel
		mask int
	}
	var syms []sym
	inList := map[int]bool{}
	for _, v := range versions {
		inList[v] = true
	}
	for v := 1; v <= 40; v++ {
		if !inList[v] {
			syms = append(syms, sym{v, cqrLevels[v%4], -1})
		}
	}
	for _, v := range versions {
		for li, ec := range cqrLevels {
			syms = append(syms, sym{v, ec, -1})
			if c.Thorough && v <= 12 {
				for m := 0; m < 8; m++ {
					if (m+li+v)%3 == 0 {
						syms = append(syms, sym{v, ec, m})
					}
				}
			}
		}
	}
	// build all symbols first (sequential rng), then enumerate faults in parallel chunks
	var qs []*c05QR
	for _, s := range syms {
		q, err := c05BuildQR(c.Rng.Fork(), s.v, s.ec, s.mask)
		if err != "" {
			c.Oracle("qr-faults", false, "qr-build", fmt.Sprintf("v=%d ec=%s", s.v, s.ec.String()), err)
			continue
		}
		out, ok, _ := q.decodeWith(nil)
		c.Oracle("qr-faults", ok, "qr-clean", q.in("none"), "undamaged symbol: "+c05Short(out))
		if ok {
			qs = append(qs, q)
		}
	}
	type task struct {
		q      *c05QR
		lo, hi int // (a): codeword positions lo..hi-1; lo<0: the (b)/(c) task
	}
	var tasks []task
	for _, q := range qs {
		if !inList[q.version] {
			tasks = append(tasks, task{q, -1, 0})
			continue
		}
		for lo := 0; lo < len(q.cw); lo += 128 {
			hi := lo + 128
			if hi > len(q.cw) {
				hi = len(q.cw)
			}
			tasks = append(tasks, task{q, lo, hi})
		}
		tasks = append(tasks, task{q, -1, 0})
	}
	c.Parallel(len(tasks), 16, func(i int, r *Rng) {
		t := tasks[i]
		q := t.q
		tb := q.ecPer / 2
		if t.lo >= 0 {
			for k := t.lo; k < t.hi; k++ {
				f := map[int]byte{k: c05Wrong(r, q.cw[k])}
				out, ok, m := q.decodeWith(f)
				if tb == 0 {
					c.Note("qr-single:no-capacity")
					continue
				}
				c.Oracle("qr-faults", ok, fmt.Sprintf("qr-single:v%d-%s", q.version, q.ec.String()), q.in(c05FaultStr(f)),
					fmt.Sprintf("one corrupted codeword (position %d, block %d, t=%d) must be corrected; got %s", k, q.blockOf[k], tb, c05Short(out)))
				if q.version <= 7 && k%16 == 0 {
					c.CmpF("qr-faults", fmt.Sprintf("c05 decode %d %s hint=-", m.GetHeight(), cqrBits(m)), out, cqrCmpParsed)
				}
			}
			c.NoteN(fmt.Sprintf("qr-single-positions:v%d", q.version), t.hi-t.lo)
			return
		}
		// positions per block
		pos := make([][]int, q.nBlocks)
		for k, b := range q.blockOf {
			pos[b] = append(pos[b], k)
		}
		pick := func(b, n int) []int {
			p := append([]int{}, pos[b]...)
			for j := 0; j < n; j++ {
				x := j + r.Intn(len(p)-j)
				p[j], p[x] = p[x], p[j]
			}
			return p[:n]
		}
		for rep := 0; rep < c.Pick(20, 60); rep++ {
			f := map[int]byte{}
			for b := 0; b < q.nBlocks; b++ {
				for _, k := range pick(b, tb) {
					f[k] = c05Wrong(r, q.cw[k])
				}
			}
			out, ok, m := q.decodeWith(f)
			c.Oracle("qr-faults", ok, fmt.Sprintf("qr-full-capacity:v%d-%s", q.version, q.ec.String()), q.in(c05FaultStr(f)),
				fmt.Sprintf("%d corrupted codewords in each of %d blocks (the promised capacity) must be corrected; got %s", tb, q.nBlocks, c05Short(out)))
			if q.version <= 10 && rep < 3 {
				c.CmpF("qr-faults", fmt.Sprintf("c05 decode %d %s hint=-", m.GetHeight(), cqrBits(m)), out, cqrCmpParsed)
			}
		}
		c.NoteN("qr-full-capacity-sets", c.Pick(20, 60))
		// (c) beyond the promise: counted only
		for rep := 0; rep < 10; rep++ {
			b := r.Intn(q.nBlocks)
			f := map[int]byte{}
			for _, k := range pick(b, tb+1) {
				f[k] = c05Wrong(r, q.cw[k])
			}
			out, ok, m := q.decodeWith(f)
			switch {
			case ok:
				c.Note("qr-beyond:still-correct")
			case strings.HasPrefix(out, "ERR:"):
				c.Note("qr-beyond:" + out)
			default:
				c.Note("qr-beyond:other-text")
			}
			if q.version <= 10 && rep < 3 {
				c.CmpF("qr-faults", fmt.Sprintf("c05 decode %d %s hint=-", m.GetHeight(), cqrBits(m)), out, cqrCmpParsed)
			}
		}
	})

	// ---- (d) on whole symbols ----
	subs15 := c05Subsets3(15)
	subs18 := c05Subsets3(18)
	nfw := c.Pick(4, 32)
	c.Parallel(nfw, 16, func(i int, r *Rng) {
		d := i
		if !c.Thorough {
			d = []int{r.Intn(8), 8 + r.Intn(8), 16 + r.Intn(8), 24 + r.Intn(8)}[i]
		}
		lv, _ := decoder.ErrorCorrectionLevel_ForBits(uint(d >> 3))
		q, err := c05BuildQR(r, []int{1, 2, 3}[r.Intn(3)], lv, d&7)
		if err != "" {
			return
		}
		c1, c2 := c05FormatCells(q.bm.GetHeight())
		for pass := 0; pass < 2; pass++ {
			for _, e := range subs15 {
				for k := 0; k < 8; k++ {
					o := subs15[r.Intn(len(subs15))]
					m := cqrClone(q.bm)
					if pass == 0 {
						c05Flip(m, c1, e)
						c05Flip(m, c2, o)
					} else {
						c05Flip(m, c1, o)
						c05Flip(m, c2, e)
					}
					out, res := cqrGoDecode(m, cqrNoHint())
					ok := res != nil && res.GetText() == q.text && res.GetECLevel() == q.ec.String()
					c.Oracle("qr-format-bits", ok, "format-tolerance-symbol", q.in(fmt.Sprintf("format copy%d^%#x other^%#x", pass+1, e, o)),
						"<=3 flipped bits in each format copy must be tolerated; got "+c05Short(out))
					if k == 0 && e%7 == 0 {
						c.CmpF("qr-format-bits", fmt.Sprintf("c05 decode %d %s hint=-", m.GetHeight(), cqrBits(m)), out, cqrCmpParsed)
					}
				}
			}
		}
		c.NoteN("format-symbol-patterns", 2*8*len(subs15))
	})
	vers := []int{7, 23, 40}
	if c.Thorough {
		vers = nil
		for v := 7; v <= 40; v++ {
			vers = append(vers, v)
		}
	}
	var vq []*c05QR
	for _, v := range vers {
		q, err := c05BuildQR(c.Rng.Fork(), v, cqrLevels[v%4], -1)
		if err == "" {
			vq = append(vq, q)
		}
	}
	type vt struct {
		q      *c05QR
		lo, hi int
	}
	var vts []vt
	for _, q := range vq {
		for lo := 0; lo < len(subs18); lo += 64 {
			hi := lo + 64
			if hi > len(subs18) {
				hi = len(subs18)
			}
			vts = append(vts, vt{q, lo, hi})
		}
	}
	c.Parallel(len(vts), 16, func(i int, r *Rng) {
		t := vts[i]
		q := t.q
		c1, c2 := c05VersionCells(q.bm.GetHeight())
		for _, e := range subs18[t.lo:t.hi] {
			for pass := 0; pass < 2; pass++ {
				o := subs18[r.Intn(len(subs18))]
				m := cqrClone(q.bm)
				if pass == 0 {
					c05Flip(m, c1, e)
					c05Flip(m, c2, o)
				} else {
					c05Flip(m, c1, o)
					c05Flip(m, c2, e)
				}
				out, res := cqrGoDecode(m, cqrNoHint())
				ok := res != nil && res.GetText() == q.text
				c.Oracle("qr-version-bits", ok, "version-tolerance-symbol", q.in(fmt.Sprintf("version copy%d^%#x other^%#x", pass+1, e, o)),
					"<=3 flipped bits in each version copy must be tolerated; got "+c05Short(out))
				if q.version == 7 && e%5 == 0 {
					c.CmpF("qr-version-bits", fmt.Sprintf("c05 decode %d %s hint=-", m.GetHeight(), cqrBits(m)), out, cqrCmpParsed)
				}
			}
		}
		c.NoteN("version-symbol-patterns", 2*(t.hi-t.lo))
	})
}

// ---------------- Data Matrix ----------------

var c05DMSizes = [][2]int{{10, 10}, {12, 12}, {14, 14}, {16, 16}, {18, 18}, {20, 20}, {22, 22}, {24, 24}, {26, 26}, {32, 32}, {36, 36},
	{40, 40}, {44, 44}, {48, 48}, {52, 52}, {64, 64}, {72, 72}, {80, 80}, {88, 88}, {96, 96}, {104, 104}, {120, 120}, {132, 132}, {144, 144},
	{18, 8}, {32, 8}, {26, 12}, {36, 12}, {36, 16}, {48, 16}} // width x height

type c05DM struct {
	w, h    int
	text    string
	bm      *gozxing.BitMatrix
	cw      []byte
	cells   [][2]int // cells[8*k+bit] = matrix coordinates
	blockOf []int
	ecPer   int
	nBlocks int
}

func c05DMDecodeWith(d *dmdecoder.Decoder, m *gozxing.BitMatrix) (string, string) {
	text := ""
	out := Safe(func() string {
		r, e := d.Decode(cqrClone(m))
		if e != nil {
			return "ERR:" + errKind(e)
		}
		text = r.GetText()
		return "ok " + hexs([]byte(text))
	})
	return out, text
}

var c05DMLongPool = make(chan *c05DMLong, 64)

type c05DMLong struct {
	d    *dmdecoder.Decoder
	hist []string
}

// c05DMDecode: fresh decoder (the answer used by the suites) and, for comparison, a long-lived one (see cqrGoDecode).
func c05DMDecode(m *gozxing.BitMatrix) (string, string) {
	out, text := c05DMDecodeWith(dmdecoder.NewDecoder(), m)
	var ld *c05DMLong
	select {
	case ld = <-c05DMLongPool:
	default:
		ld = &c05DMLong{d: dmdecoder.NewDecoder()}
	}
	out2, _ := c05DMDecodeWith(ld.d, m)
	cqrReuseMu.Lock()
	cqrReuseCalls++
	if out2 != out && len(cqrReuseDiffs) < 5 {
		cqrReuseDiffs = append(cqrReuseDiffs, cqrReuseMismatch{"datamatrix " + cqrMatrixDesc(m), strings.Join(ld.hist, " ; "), out, out2})
	}
	cqrReuseMu.Unlock()
	ld.hist = append(ld.hist, fmt.Sprintf("%dx%d -> %s", m.GetWidth(), m.GetHeight(), c05Short(out)))
	if len(ld.hist) > 3 {
		ld.hist = ld.hist[len(ld.hist)-3:]
	}
	select {
	case c05DMLongPool <- ld:
	default:
	}
	return out, text
}

func c05BuildDM(r *Rng, w, h int) (*c05DM, string) {
	dim, _ := gozxing.NewDimension(w, h)
	si, _ := dmencoder.SymbolInfo_Lookup(1, dmencoder.SymbolShapeHint_FORCE_NONE, dim, dim, false)
	if si == nil || si.GetSymbolWidth() != w || si.GetSymbolHeight() != h {
		return nil, "no symbol info of that size"
	}
	const alpha = "ABCDEFGHIJKLMNOPQRSTUVWXYZ abcdefghijklmnopqrstuvwxyz0123456789"
	n := si.GetDataCapacity()
	var text string
	var encoded []byte
	for ; n >= 1; n-- {
		b := make([]byte, n)
		for i := range b {
			b[i] = alpha[r.Intn(len(alpha))]
		}
		text = string(b)
		enc, e := dmencoder.EncodeHighLevel(text, dmencoder.SymbolShapeHint_FORCE_NONE, dim, dim)
		if e == nil && len(enc) == si.GetDataCapacity() {
			encoded = enc
			break
		}
	}
	if encoded == nil {
		return nil, "no text fits"
	}
	cw, e := dmencoder.ErrorCorrection_EncodeECC200(encoded, si)
	if e != nil {
		return nil, "ecc: " + e.Error()
	}
	hints := map[gozxing.EncodeHintType]interface{}{gozxing.EncodeHintType_MIN_SIZE: dim, gozxing.EncodeHintType_MAX_SIZE: dim}
	bm, e := datamatrix.NewDataMatrixWriter().Encode(text, gozxing.BarcodeFormat_DATA_MATRIX, 0, 0, hints)
	if e != nil {
		return nil, "writer: " + e.Error()
	}
	if bm.GetWidth() != w || bm.GetHeight() != h {
		return nil, fmt.Sprintf("writer produced %dx%d", bm.GetWidth(), bm.GetHeight())
	}
	d := &c05DM{w: w, h: h, text: text, bm: bm, cw: cw}
	// placement map by labelled probing of the real DefaultPlacement
	cols, rows := si.GetSymbolDataWidth(), si.GetSymbolDataHeight()
	ncw := len(cw)
	place := func(f func(k int) byte) *dmencoder.DefaultPlacement {
		b := make([]byte, ncw)
		for k := range b {
			b[k] = f(k)
		}
		p := dmencoder.NewDefaultPlacement(b, cols, rows)
		p.Place()
		return p
	}
	zero := place(func(int) byte { return 0 })
	bitOf := make([]int, cols*rows) // 1+bit (0..7, 0 = MSB) or 0
	for b := 0; b < 8; b++ {
		p := place(func(int) byte { return 0x80 >> uint(b) })
		for y := 0; y < rows; y++ {
			for x := 0; x < cols; x++ {
				if p.GetBit(x, y) != zero.GetBit(x, y) {
					bitOf[y*cols+x] = b + 1
				}
			}
		}
	}
	idx := make([]int, cols*rows)
	for l := 0; l < 12; l++ {
		p := place(func(k int) byte {
			if (k+1)>>uint(l)&1 == 1 {
				return 0xFF
			}
			return 0
		})
		for y := 0; y < rows; y++ {
			for x := 0; x < cols; x++ {
				if p.GetBit(x, y) != zero.GetBit(x, y) {
					idx[y*cols+x] |= 1 << uint(l)
				}
			}
		}
	}
	d.cells = make([][2]int, 8*ncw)
	found := 0
	mw, mh := si.GetMatrixWidth(), si.GetMatrixHeight()
	real := place(func(k int) byte { return cw[k] })
	for y := 0; y < rows; y++ {
		for x := 0; x < cols; x++ {
			X, Y := x+1+2*(x/mw), y+1+2*(y/mh)
			if real.GetBit(x, y) != bm.Get(X, Y) {
				return nil, fmt.Sprintf("harness sanity: placement cell (%d,%d) does not map to module (%d,%d)", x, y, X, Y)
			}
			if k := idx[y*cols+x]; k > 0 && bitOf[y*cols+x] > 0 {
				d.cells[8*(k-1)+bitOf[y*cols+x]-1] = [2]int{X, Y}
				found++
			}
		}
	}
	if found != 8*ncw {
		return nil, fmt.Sprintf("harness sanity: probing found %d of %d codeword bits", found, 8*ncw)
	}
	// block structure as the standard (and the decoder) define it
	d.nBlocks = si.GetInterleavedBlockCount()
	d.ecPer = si.GetErrorLengthForInterleavedBlock(1)
	dc := si.GetDataCapacity()
	for p := 0; p < ncw; p++ {
		switch {
		case p < dc:
			d.blockOf = append(d.blockOf, p%d.nBlocks)
		case w == 144:
			d.blockOf = append(d.blockOf, ((p-dc)%d.nBlocks+8)%d.nBlocks)
		default:
			d.blockOf = append(d.blockOf, (p-dc)%d.nBlocks)
		}
	}
	return d, ""
}

func (d *c05DM) in(what string) string {
	return fmt.Sprintf("dm %dx%d text=%s faults=%s", d.w, d.h, hexs([]byte(d.text)), what)
}

func (d *c05DM) decodeWith(f map[int]byte) (string, bool) {
	m := cqrClone(d.bm)
	for k, nv := range f {
		diff := d.cw[k] ^ nv
		for b := 0; b < 8; b++ {
			if diff&(0x80>>uint(b)) != 0 {
				c := d.cells[8*k+b]
				m.Flip(c[0], c[1])
			}
		}
	}
	out, text := c05DMDecode(m)
	return out, strings.HasPrefix(out, "ok ") && text == d.text
}

func c05DataMatrix(c *Ctx) {
	var ds []*c05DM
	for _, s := range c05DMSizes {
		key := fmt.Sprintf("dm-%dx%d", s[0], s[1])
		d, err := c05BuildDM(c.Rng.Fork(), s[0], s[1])
		if err != "" {
			c.Oracle("dm-faults", false, key+"-build", key, err)
			continue
		}
		out, ok := d.decodeWith(nil)
		c.Oracle("dm-faults", ok, key+"-clean", d.in("none"), "undamaged symbol must decode to its text; got "+c05Short(out))
		if ok {
			ds = append(ds, d)
		} else {
			c.Note("dm-skipped-unreadable-clean:" + key)
		}
	}
	type task struct {
		d      *c05DM
		lo, hi int
	}
	var tasks []task
	for _, d := range ds {
		for lo := 0; lo < len(d.cw); lo += 128 {
			hi := lo + 128
			if hi > len(d.cw) {
				hi = len(d.cw)
			}
			tasks = append(tasks, task{d, lo, hi})
		}
		tasks = append(tasks, task{d, -1, 0})
	}
	c.Parallel(len(tasks), 16, func(i int, r *Rng) {
		t := tasks[i]
		d := t.d
		tb := d.ecPer / 2
		key := fmt.Sprintf("%dx%d", d.w, d.h)
		if t.lo >= 0 {
			for k := t.lo; k < t.hi; k++ {
				f := map[int]byte{k: c05Wrong(r, d.cw[k])}
				out, ok := d.decodeWith(f)
				c.Oracle("dm-faults", ok, "dm-single:"+key, d.in(c05FaultStr(f)),
					fmt.Sprintf("one corrupted codeword (position %d, block %d, t=%d) must be corrected; got %s", k, d.blockOf[k], tb, c05Short(out)))
			}
			c.NoteN("dm-single-positions:"+key, t.hi-t.lo)
			return
		}
		pos := make([][]int, d.nBlocks)
		for k, b := range d.blockOf {
			pos[b] = append(pos[b], k)
		}
		pick := func(b, n int) []int {
			p := append([]int{}, pos[b]...)
			for j := 0; j < n; j++ {
				x := j + r.Intn(len(p)-j)
				p[j], p[x] = p[x], p[j]
			}
			return p[:n]
		}
		for rep := 0; rep < c.Pick(20, 60); rep++ {
			f := map[int]byte{}
			for b := 0; b < d.nBlocks; b++ {
				for _, k := range pick(b, tb) {
					f[k] = c05Wrong(r, d.cw[k])
				}
			}
			out, ok := d.decodeWith(f)
			c.Oracle("dm-faults", ok, "dm-full-capacity:"+key, d.in(c05FaultStr(f)),
				fmt.Sprintf("%d corrupted codewords in each of %d blocks must be corrected; got %s", tb, d.nBlocks, c05Short(out)))
		}
		c.NoteN("dm-full-capacity-sets", c.Pick(20, 60))
		for rep := 0; rep < 10; rep++ {
			b := r.Intn(d.nBlocks)
			f := map[int]byte{}
			for _, k := range pick(b, tb+1) {
				f[k] = c05Wrong(r, d.cw[k])
			}
			out, ok := d.decodeWith(f)
			switch {
			case ok:
				c.Note("dm-beyond:still-correct")
			case strings.HasPrefix(out, "ERR:"):
				c.Note("dm-beyond:" + out)
			default:
				c.Note("dm-beyond:other-text")
			}
		}
	})
}
