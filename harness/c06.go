package main

// C06 — decoding is total: every parser / decoder / row decoder / image reader returns, within the
// watchdog, either a non-nil result or a non-nil error; it never panics and never returns neither;
// errors of the image-level readers are (or wrap) NotFound / Checksum / Format.
//
// This file: verdict machinery (panic site capture, key derivation) and the suite entry point.
// Generators live in c06_parsers.go, c06_matrix.go, c06_rows.go, c06_images.go.
// The small modelled pieces (BitSource, parseECIValue, code39/93 extended decoding, UPC/EAN
// extension parsing) are additionally compared with the Lean model (c06_model.go).

import (
	"errors"
	"fmt"
	"runtime"
	"strings"
	"sync/atomic"
	"time"

	"github.com/makiuchi-d/gozxing"
)

func init() { suites["C06"] = runC06 }

type c06Verdict struct {
	Out       string // ok | ERR:<kind> | PANIC | TIMEOUT | NEITHER | BOTH
	PanicSite string // first gozxing function on the panicking stack
	PanicMsg  string
	ErrText   string
}

const c06Lib = "github.com/makiuchi-d/gozxing"

// c06PanicSite walks the stack of a recovered panic and returns the innermost library function.
func c06PanicSite() string {
	pcs := make([]uintptr, 64)
	n := runtime.Callers(3, pcs)
	frames := runtime.CallersFrames(pcs[:n])
	var lib []string
	for {
		fr, more := frames.Next()
		if strings.HasPrefix(fr.Function, c06Lib) {
			lib = append(lib, strings.TrimPrefix(fr.Function, c06Lib))
		}
		if !more {
			break
		}
	}
	if len(lib) == 0 {
		return "?"
	}
	// innermost library function first, then its callers (used to recognise known call-site classes)
	return strings.Join(lib, " < ")
}

var c06Leaked int64

// c06Run executes f under recover and a watchdog.  f reports whether the result is non-nil and the error.
func c06Run(timeout time.Duration, f func() (bool, error)) c06Verdict {
	ch := make(chan c06Verdict, 1)
	go func() {
		var v c06Verdict
		defer func() {
			if r := recover(); r != nil {
				v = c06Verdict{Out: "PANIC", PanicSite: c06PanicSite(), PanicMsg: fmt.Sprint(r)}
			}
			ch <- v
		}()
		res, err := f()
		switch {
		case res && err == nil:
			v.Out = "ok"
		case !res && err != nil:
			v.Out = "ERR:" + errKind(err)
			v.ErrText = err.Error()
			if len(v.ErrText) > 160 {
				v.ErrText = v.ErrText[:160]
			}
		case !res && err == nil:
			v.Out = "NEITHER"
		default:
			v.Out = "BOTH"
			v.ErrText = err.Error()
		}
	}()
	select {
	case v := <-ch:
		return v
	case <-time.After(timeout):
	}
	// grace period for a starved goroutine on a loaded machine (see SafeT in fw.go): the same call, not a re-execution
	grace := 9 * timeout
	if timeout+grace < 60*time.Second {
		grace = 60*time.Second - timeout
	}
	select {
	case v := <-ch:
		return v
	case <-time.After(grace):
		atomic.AddInt64(&c06Leaked, 1)
		return c06Verdict{Out: "TIMEOUT"}
	}
}

// c06DocKind: is the error (or something it wraps) one of the three documented reader error kinds?
func c06DocKind(err error) (string, bool) {
	var nf gozxing.NotFoundException
	var ck gozxing.ChecksumException
	var fe gozxing.FormatException
	switch {
	case errors.As(err, &nf):
		return "notfound", true
	case errors.As(err, &ck):
		return "checksum", true
	case errors.As(err, &fe):
		return "format", true
	}
	return errKind(err), false
}

func c06MsgClass(msg string) string {
	switch {
	case strings.Contains(msg, "makeslice"):
		return "makeslice"
	case strings.Contains(msg, "nil pointer"):
		return "nilderef"
	case strings.Contains(msg, "index out of range"):
		return "index"
	case strings.Contains(msg, "slice bounds"):
		return "slicebounds"
	case strings.Contains(msg, "divide by zero"):
		return "divzero"
	case strings.Contains(msg, "interface conversion"):
		return "typeassert"
	}
	return "other"
}

func c06ShortFunc(fn string) string {
	// "/aztec/decoder.(*Decoder).getEncodedData" -> "aztec/decoder.getEncodedData"
	fn = strings.TrimPrefix(fn, "/")
	fn = strings.TrimPrefix(fn, ".")
	for _, s := range []string{"(*", ")"} {
		fn = strings.ReplaceAll(fn, s, "")
	}
	parts := strings.Split(fn, ".")
	if len(parts) >= 3 {
		fn = parts[0] + "." + parts[len(parts)-1]
	}
	return fn
}

// c06Key names the failure class.  Known call-site classes get a readable stable name; everything
// else is <entry>-panic-<function>-<kind of run-time error>.
func c06Key(entry, class string, v c06Verdict, feat string) string {
	switch v.Out {
	case "PANIC":
		mc := c06MsgClass(v.PanicMsg)
		ps := v.PanicSite
		inner := strings.Split(ps, " < ")[0]
		switch {
		case strings.Contains(ps, "getEncodedData") && mc == "makeslice":
			return "aztec-hld-short-input"
		case strings.Contains(ps, "getEncodedData") && mc == "nilderef":
			return "aztec-flg-unregistered-eci"
		case strings.Contains(ps, "code39DecodeExtended"):
			return "code39-extended-trailing-escape"
		case strings.Contains(inner, "code39Reader).DecodeRow") && strings.Contains(v.PanicMsg, "[-1]"):
			return "code39-checkdigit-empty-symbol"
		case strings.Contains(inner, "decodeByteSegment") && mc == "nilderef" && strings.Contains(feat, "cs="):
			return "qr-charset-hint-unsupported-iana-name"
		case strings.Contains(ps, "code93DecodeExtended"):
			return "code93-extended-trailing-escape"
		case strings.HasPrefix(entry, "qr-decoder") && strings.Contains(feat, "nonsquare"):
			return "qr-decoder-nonsquare-matrix"
		}
		return entry + "-panic-" + c06ShortFunc(inner) + "-" + mc
	case "TIMEOUT":
		return entry + "-timeout-" + class
	case "NEITHER":
		return entry + "-neither-result-nor-error-" + class
	case "BOTH":
		return entry + "-both-result-and-error-" + class
	}
	return entry + "-errkind-" + strings.TrimPrefix(v.Out, "ERR:")
}

type c06Case struct {
	Entry string // call-site class, e.g. "qr-parser", "code39-row", "qr-reader"
	Class string // generator class
	Feat  string // input features used for key naming (e.g. "nonsquare")
	Image bool   // image-level reader: error kind is part of the verdict
	Desc  string // short descriptor (distinctness + evidence)
	Full  func() string
}

var c06Timeout = 2 * time.Second

// c06Judge runs one call on the real code and records the property verdict.
func c06Judge(c *Ctx, cs c06Case, f func() (bool, error)) c06Verdict {
	var docErr error
	v := c06Run(c06Timeout, func() (bool, error) {
		ok, err := f()
		docErr = err
		return ok, err
	})
	good := v.Out == "ok" || strings.HasPrefix(v.Out, "ERR:")
	kindNote := v.Out
	if good && cs.Image && v.Out != "ok" {
		k, doc := c06DocKind(docErr)
		kindNote = "ERR:" + k
		if !doc {
			good = false
			v.Out = "ERR:" + k
		}
	}
	c.Note(cs.Entry + ":" + kindNote)
	c.Note("gen:" + cs.Entry + "/" + cs.Class)
	if good {
		c.Oracle("c06-"+cs.Entry, true, "", cs.Desc, "")
		return v
	}
	key := c06Key(cs.Entry, cs.Class, v, cs.Feat)
	full := cs.Desc
	if cs.Full != nil {
		full = cs.Desc + " :: " + cs.Full()
	}
	c.Oracle("c06-"+cs.Entry, false, key, full,
		fmt.Sprintf("outcome=%s site=%s msg=%s err=%s", v.Out, v.PanicSite, v.PanicMsg, v.ErrText))
	return v
}

func c06Fnv(b []byte) uint64 {
	h := uint64(1469598103934665603)
	for _, x := range b {
		h ^= uint64(x)
		h *= 1099511628211
	}
	return h
}

func runC06(c *Ctx) {
	if c.Thorough {
		c06Timeout = 10 * time.Second
	}
	c.res.Rule = "oracle on the real code under recover+watchdog (2 s quick / 10 s thorough): returns in time, no panic, (result!=nil) xor (err!=nil); " +
		"image-level readers additionally: error is/wraps NotFound|Checksum|Format. Inputs: (1) QR/DataMatrix/Aztec bit-stream parsers: random bytes, " +
		"structured segment streams over every mode nibble / codeword class / table code, every ECI designator (exhaustive 0..999999 thorough; 0..1100 + boundaries + sample quick), truncations, all 40 versions; " +
		"(2) BitMatrix decoders: square and non-square 1..200, valid symbols (writers / constructed from arbitrary codewords) with mutated modules, Aztec detector results consistent and inconsistent; " +
		"(3) every 1-D row decoder: random, run-structured, writer output with mutations/truncation/scaling, crafted symbol sequences with valid checksums (Code 39/93 escapes, Code 128 code sets, UPC/EAN extensions); " +
		"(4) images 1x1..400x400 random/structured/rendered symbols/test photographs with pixel mutations, crops, rotations to all image readers with well-typed hint maps; " +
		"plus model correspondence for BitSource.ReadBits, parseECIValue, code39/code93 extended decoding, and (suites *-total) for the decoder models proved total: " +
		"QR / Data Matrix bit-stream parsers on boundary streams named by the proofs (every mode nibble x every truncation of its count field, counts beyond the data, " +
		"C40/Text pair (0,0) in every shift state, every Base-256 length header, EDIFACT tails) and on the structured/random/truncated streams; QR Decoder.Decode and the " +
		"Data Matrix BitMatrixParser/getDataBlocks on random matrices of table and non-table dimensions (non-square included) and on valid symbols with mutated, mirrored or damaged modules. non-trivial = distinct input"
	c06Model(c)
	c06Total(c)
	c06Parsers(c)
	c06Matrices(c)
	c06Rows(c)
	c06Images(c)
	if n := atomic.LoadInt64(&c06Leaked); n > 0 {
		c.Remark(fmt.Sprintf("watchdog fired %d time(s); goroutines leaked", n))
	}
}
