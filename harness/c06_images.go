package main

// C06 part 4: arbitrary images to every image-level reader with well-typed hint maps.
// The grey-image helpers (c06Img*) are shared with C09 and C18.

import (
	"bytes"
	"encoding/base64"
	"fmt"
	"image"
	_ "image/jpeg"
	"image/png"
	"os"
	"path/filepath"
	"sort"
	"strings"
	"sync"

	"github.com/makiuchi-d/gozxing"
	"github.com/makiuchi-d/gozxing/aztec"
	"github.com/makiuchi-d/gozxing/datamatrix"
	multiqr "github.com/makiuchi-d/gozxing/multi/qrcode"
	"github.com/makiuchi-d/gozxing/oned"
	"github.com/makiuchi-d/gozxing/oned/rss"
	"github.com/makiuchi-d/gozxing/qrcode"
)

func c06RepoDir() string {
	if d := os.Getenv("GZX_REPO"); d != "" {
		return d
	}
	return "/repo"
}

// ---------- grey images ----------

func c06NewGray(w, h int, v uint8) *image.Gray {
	g := image.NewGray(image.Rect(0, 0, w, h))
	if v != 0 {
		for i := range g.Pix {
			g.Pix[i] = v
		}
	}
	return g
}

// c06ImgFromMatrix renders a module matrix: scale k, pad p white pixels per side.
func c06ImgFromMatrix(m *gozxing.BitMatrix, k, p int) *image.Gray {
	w, h := m.GetWidth()*k+2*p, m.GetHeight()*k+2*p
	g := c06NewGray(w, h, 255)
	for y := 0; y < m.GetHeight(); y++ {
		for x := 0; x < m.GetWidth(); x++ {
			if m.Get(x, y) {
				for dy := 0; dy < k; dy++ {
					o := (p+y*k+dy)*g.Stride + p + x*k
					for dx := 0; dx < k; dx++ {
						g.Pix[o+dx] = 0
					}
				}
			}
		}
	}
	return g
}

// c06ImgRot90 rotates clockwise by 90 degrees.
func c06ImgRot90(g *image.Gray) *image.Gray {
	w, h := g.Rect.Dx(), g.Rect.Dy()
	o := image.NewGray(image.Rect(0, 0, h, w))
	for y := 0; y < h; y++ {
		for x := 0; x < w; x++ {
			o.Pix[x*o.Stride+(h-1-y)] = g.Pix[y*g.Stride+x]
		}
	}
	return o
}

func c06ImgRot(g *image.Gray, quarter int) *image.Gray {
	for i := 0; i < quarter%4; i++ {
		g = c06ImgRot90(g)
	}
	return g
}

func c06ImgTranspose(g *image.Gray) *image.Gray {
	w, h := g.Rect.Dx(), g.Rect.Dy()
	o := image.NewGray(image.Rect(0, 0, h, w))
	for y := 0; y < h; y++ {
		for x := 0; x < w; x++ {
			o.Pix[x*o.Stride+y] = g.Pix[y*g.Stride+x]
		}
	}
	return o
}

func c06ImgCrop(g *image.Gray, x0, y0, w, h int) *image.Gray {
	o := image.NewGray(image.Rect(0, 0, w, h))
	for y := 0; y < h; y++ {
		copy(o.Pix[y*o.Stride:y*o.Stride+w], g.Pix[(y0+y)*g.Stride+x0:(y0+y)*g.Stride+x0+w])
	}
	return o
}

func c06ImgPNG(g *image.Gray) string {
	var buf bytes.Buffer
	png.Encode(&buf, g)
	return fmt.Sprintf("png-base64:%s", base64.StdEncoding.EncodeToString(buf.Bytes()))
}

var (
	c06PhotoOnce sync.Once
	c06Photos    []*image.Gray
	c06PhotoName []string
)

// c06LoadPhotos: the library's own test photographs (every symbology incl. Aztec and RSS-14 which have no writer).
func c06LoadPhotos() {
	c06PhotoOnce.Do(func() {
		var files []string
		filepath.Walk(c06RepoDir(), func(p string, info os.FileInfo, err error) error {
			if err == nil && !info.IsDir() && strings.Contains(p, "testdata") && info.Size() < 60000 &&
				(strings.HasSuffix(p, ".png") || strings.HasSuffix(p, ".jpg")) {
				files = append(files, p)
			}
			return nil
		})
		sort.Strings(files)
		for _, f := range files {
			fh, err := os.Open(f)
			if err != nil {
				continue
			}
			img, _, err := image.Decode(fh)
			fh.Close()
			if err != nil {
				continue
			}
			b := img.Bounds()
			if b.Dx() > 1200 || b.Dy() > 1200 {
				continue
			}
			g := image.NewGray(image.Rect(0, 0, b.Dx(), b.Dy()))
			for y := 0; y < b.Dy(); y++ {
				for x := 0; x < b.Dx(); x++ {
					r, gg, bb, a := img.At(b.Min.X+x, b.Min.Y+y).RGBA()
					lum := (r + 2*gg + bb) * 255 / (4 * 0xffff)
					g.Pix[y*g.Stride+x] = byte((lum*a + (0xffff-a)*255) / 0xffff)
				}
			}
			c06Photos = append(c06Photos, g)
			c06PhotoName = append(c06PhotoName, strings.TrimPrefix(f, c06RepoDir()))
		}
	})
}

// ---------- readers ----------

type c06Reader struct {
	Name string
	Call func(bmp *gozxing.BinaryBitmap, hints map[gozxing.DecodeHintType]interface{}) (bool, error)
}

func c06Std(name string, mk func(h map[gozxing.DecodeHintType]interface{}) gozxing.Reader) c06Reader {
	return c06Reader{name, func(bmp *gozxing.BinaryBitmap, h map[gozxing.DecodeHintType]interface{}) (bool, error) {
		res, err := mk(h).Decode(bmp, h)
		return res != nil, err
	}}
}

func c06K(f func() gozxing.Reader) func(map[gozxing.DecodeHintType]interface{}) gozxing.Reader {
	return func(map[gozxing.DecodeHintType]interface{}) gozxing.Reader { return f() }
}

var c06Readers = []c06Reader{
	c06Std("qr-reader", c06K(qrcode.NewQRCodeReader)),
	c06Std("dm-reader", c06K(func() gozxing.Reader { return datamatrix.NewDataMatrixReader() })),
	c06Std("aztec-reader", c06K(func() gozxing.Reader { return aztec.NewAztecReader() })),
	{"qr-multi-reader", func(bmp *gozxing.BinaryBitmap, h map[gozxing.DecodeHintType]interface{}) (bool, error) {
		res, err := multiqr.NewQRCodeMultiReader().DecodeMultiple(bmp, h)
		// a (possibly empty) list of results without error is a result; the list accompanying an error is ignored
		return err == nil && res != nil, err
	}},
	c06Std("code39-reader", func(h map[gozxing.DecodeHintType]interface{}) gozxing.Reader {
		_, ck := h[gozxing.DecodeHintType_ASSUME_CODE_39_CHECK_DIGIT]
		_, ext := h[gozxing.DecodeHintType_OTHER]
		return oned.NewCode39ReaderWithFlags(ck, ext)
	}),
	c06Std("code93-reader", c06K(oned.NewCode93Reader)),
	c06Std("code128-reader", c06K(oned.NewCode128Reader)),
	c06Std("itf-reader", c06K(oned.NewITFReader)),
	c06Std("codabar-reader", c06K(oned.NewCodaBarReader)),
	c06Std("ean13-reader", c06K(oned.NewEAN13Reader)),
	c06Std("ean8-reader", c06K(oned.NewEAN8Reader)),
	c06Std("upca-reader", c06K(oned.NewUPCAReader)),
	c06Std("upce-reader", c06K(oned.NewUPCEReader)),
	c06Std("multi-upcean-reader", oned.NewMultiFormatUPCEANReader),
	c06Std("rss14-reader", c06K(rss.NewRSS14Reader)),
}

func c06ReaderFor(f gozxing.BarcodeFormat) int {
	switch f {
	case gozxing.BarcodeFormat_QR_CODE:
		return 0
	case gozxing.BarcodeFormat_DATA_MATRIX:
		return 1
	case gozxing.BarcodeFormat_CODE_39:
		return 4
	case gozxing.BarcodeFormat_CODE_93:
		return 5
	case gozxing.BarcodeFormat_CODE_128:
		return 6
	case gozxing.BarcodeFormat_ITF:
		return 7
	case gozxing.BarcodeFormat_CODABAR:
		return 8
	case gozxing.BarcodeFormat_EAN_13:
		return 9
	case gozxing.BarcodeFormat_EAN_8:
		return 10
	case gozxing.BarcodeFormat_UPC_A:
		return 11
	case gozxing.BarcodeFormat_UPC_E:
		return 12
	}
	return 0
}

func c06ImageHints(r *Rng) (map[gozxing.DecodeHintType]interface{}, string) {
	if r.Chance(0.3) {
		return nil, "nohint"
	}
	h, d := c06RowHints(r)
	if h == nil {
		h = map[gozxing.DecodeHintType]interface{}{}
	}
	ds := []string{d}
	if r.Chance(0.5) {
		h[gozxing.DecodeHintType_TRY_HARDER] = true
		ds = append(ds, "th")
	}
	if r.Chance(0.25) {
		h[gozxing.DecodeHintType_PURE_BARCODE] = true
		ds = append(ds, "pure")
	}
	if r.Chance(0.25) {
		v := c06Charsets[r.Intn(len(c06Charsets))]
		h[gozxing.DecodeHintType_CHARACTER_SET] = v
		ds = append(ds, fmt.Sprintf("cs=%v", v))
	}
	if r.Chance(0.25) {
		var fs []gozxing.BarcodeFormat
		all := append([]gozxing.BarcodeFormat{gozxing.BarcodeFormat_QR_CODE, gozxing.BarcodeFormat_DATA_MATRIX, gozxing.BarcodeFormat_AZTEC}, c06OnedFormats...)
		for k := r.Intn(4); k > 0; k-- {
			fs = append(fs, all[r.Intn(len(all))])
		}
		h[gozxing.DecodeHintType_POSSIBLE_FORMATS] = fs
		ds = append(ds, fmt.Sprint("pf=", fs))
	}
	if r.Chance(0.2) {
		h[gozxing.DecodeHintType_ASSUME_CODE_39_CHECK_DIGIT] = true
		ds = append(ds, "c39check")
	}
	if r.Chance(0.2) {
		h[gozxing.DecodeHintType_OTHER] = "code39-extended" // harness convention: selects the extended-mode constructor
		ds = append(ds, "c39ext")
	}
	if r.Chance(0.1) {
		h[gozxing.DecodeHintType_ALSO_INVERTED] = true
		ds = append(ds, "inv")
	}
	return h, strings.Join(ds, ",")
}

// ---------- image generators ----------

func c06SymbolMatrix(r *Rng) (*gozxing.BitMatrix, gozxing.BarcodeFormat) {
	switch r.Intn(4) {
	case 0:
		if m := c06QRSymbol(r, c06Text(r)); m != nil {
			return m, gozxing.BarcodeFormat_QR_CODE
		}
	case 1:
		s := c06DMSizes[r.Intn(16)]
		if si := c06DMSymbolInfo(s[0], s[1]); si != nil {
			data, _ := c06GenDMStream(r, si.GetDataCapacity())
			if r.Bool() {
				data = []byte("ABC123abc")
				for i := range data {
					data[i]++
				}
			}
			if m := c06DMSymbol(si, data); m != nil {
				return m, gozxing.BarcodeFormat_DATA_MATRIX
			}
		}
	}
	f := c06OnedFormats[r.Intn(len(c06OnedFormats))]
	mods := c06Modules(f, c06OnedContent(r, f))
	if mods == nil {
		mods = []bool{true, false, true}
	}
	if r.Chance(0.15) && (f == gozxing.BarcodeFormat_EAN_13 || f == gozxing.BarcodeFormat_UPC_A || f == gozxing.BarcodeFormat_EAN_8 || f == gozxing.BarcodeFormat_UPC_E) {
		mods = append(append(mods, c06White(r.Pick([]int{7, 9, 12}))...), c06UPCExtension(r, r.Pick([]int{2, 5}), r.Chance(0.8))...)
	}
	h := r.Pick([]int{1, 2, 5, 10, 20, 40})
	m, _ := gozxing.NewBitMatrix(len(mods), h)
	for x, b := range mods {
		if b {
			m.SetRegion(x, 0, 1, h)
		}
	}
	return m, f
}

func c06ImgNoise(r *Rng, g *image.Gray, k int) {
	w, h := g.Rect.Dx(), g.Rect.Dy()
	for i := 0; i < k; i++ {
		g.Pix[r.Intn(h)*g.Stride+r.Intn(w)] = uint8(r.Pick([]int{0, 255, 128, r.Intn(256)}))
	}
}

func c06GenImage(r *Rng) (*image.Gray, string, int) {
	switch r.Intn(10) {
	case 0: // random pixels, any size, small sizes favoured
		w, h := r.Range(1, 400), r.Range(1, 400)
		if r.Bool() {
			w, h = r.Pick([]int{1, 2, 3, 7, 8, 9, 15, 16, 17, 39, 40, 41}), r.Pick([]int{1, 2, 3, 7, 8, 9, 15, 16, 17, 39, 40, 41})
		}
		g := c06NewGray(w, h, 0)
		mode := r.Intn(3)
		for i := range g.Pix {
			switch mode {
			case 0:
				g.Pix[i] = uint8(r.Intn(256))
			case 1:
				if r.Bool() {
					g.Pix[i] = 255
				}
			default:
				g.Pix[i] = uint8(r.Pick([]int{0, 0, 255, 255, 100, 160}))
			}
		}
		return g, "random", -1
	case 1: // structured: stripes / checker / gradient / nested squares (finder-like)
		w, h := r.Range(1, 400), r.Range(1, 400)
		g := c06NewGray(w, h, 255)
		kind := r.Intn(5)
		p := r.Range(1, 12)
		for y := 0; y < h; y++ {
			for x := 0; x < w; x++ {
				var v uint8 = 255
				switch kind {
				case 0:
					if (x/p)%2 == 0 {
						v = 0
					}
				case 1:
					if (y/p)%2 == 0 {
						v = 0
					}
				case 2:
					if ((x/p)+(y/p))%2 == 0 {
						v = 0
					}
				case 3:
					v = uint8((x*255/w + y) % 256)
				default: // concentric squares 1:1:3:1:1 repeated
					cx, cy := x%(7*p), y%(7*p)
					d := cx
					for _, e := range []int{cy, 7*p - 1 - cx, 7*p - 1 - cy} {
						if e < d {
							d = e
						}
					}
					ring := d / p
					if ring == 0 || ring >= 2 {
						v = 0
					}
				}
				g.Pix[y*g.Stride+x] = v
			}
		}
		return g, "structured", -1
	case 2, 3: // test photographs with mutations / crops
		c06LoadPhotos()
		if len(c06Photos) > 0 {
			k := r.Intn(len(c06Photos))
			g := c06Photos[k]
			w, h := g.Rect.Dx(), g.Rect.Dy()
			cw, ch := w, h
			if r.Chance(0.7) { // mostly within the 400x400 bound of the statement's generator; sometimes the whole photograph
				if cw > 400 {
					cw = 400
				}
				if ch > 400 {
					ch = 400
				}
			}
			x0, y0 := 0, 0
			if r.Chance(0.4) {
				cw, ch = r.Range(1, cw), r.Range(1, ch)
			}
			x0, y0 = r.Intn(w-cw+1), r.Intn(h-ch+1)
			o := c06ImgCrop(g, x0, y0, cw, ch)
			if r.Bool() {
				c06ImgNoise(r, o, r.Pick([]int{1, 10, 100, 1000}))
			}
			o = c06ImgRot(o, r.Pick([]int{0, 0, 1, 2, 3}))
			return o, "photo", -1
		}
	}
	m, f := c06SymbolMatrix(r)
	k := r.Pick([]int{1, 1, 2, 2, 3, 4, 5})
	p := r.Pick([]int{0, 0, 1, 4, 10, 20, 40})
	for (m.GetWidth()*k+2*p > 400 || m.GetHeight()*k+2*p > 400) && (k > 1 || p > 0) {
		if k > 1 {
			k--
		} else {
			p = 0
		}
	}
	g := c06ImgFromMatrix(m, k, p)
	if g.Rect.Dx() > 400 || g.Rect.Dy() > 400 {
		cw, ch := g.Rect.Dx(), g.Rect.Dy()
		if cw > 400 {
			cw = 400
		}
		if ch > 400 {
			ch = 400
		}
		g = c06ImgCrop(g, 0, 0, cw, ch)
	}
	class := "symbol"
	switch r.Intn(6) {
	case 0:
		c06ImgNoise(r, g, r.Pick([]int{1, 5, 50, 500}))
		class = "symbol-noise"
	case 1:
		w, h := g.Rect.Dx(), g.Rect.Dy()
		cw, ch := r.Range(1, w), r.Range(1, h)
		g = c06ImgCrop(g, r.Intn(w-cw+1), r.Intn(h-ch+1), cw, ch)
		class = "symbol-crop"
	case 2:
		g = c06ImgTranspose(g)
		class = "symbol-mirror"
	case 3: // low contrast / grey levels
		lo, hi := uint8(r.Range(0, 120)), uint8(r.Range(130, 255))
		for i, v := range g.Pix {
			if v == 0 {
				g.Pix[i] = lo
			} else {
				g.Pix[i] = hi
			}
		}
		class = "symbol-contrast"
	}
	g = c06ImgRot(g, r.Pick([]int{0, 0, 0, 1, 2, 3}))
	return g, class, c06ReaderFor(f)
}

func c06Bitmap(r *Rng, g *image.Gray) (*gozxing.BinaryBitmap, string) {
	src := gozxing.NewLuminanceSourceFromImage(g)
	if r.Chance(0.3) {
		b, _ := gozxing.NewBinaryBitmap(gozxing.NewGlobalHistgramBinarizer(src))
		return b, "global"
	}
	b, _ := gozxing.NewBinaryBitmap(gozxing.NewHybridBinarizer(src))
	return b, "hybrid"
}

func c06Images(c *Ctx) {
	c06LoadPhotos()
	c.NoteN("photos-loaded", len(c06Photos))
	n := c.Pick(6000, 100000)
	c.Parallel(n, 16, func(i int, r *Rng) {
		g, class, natural := c06GenImage(r)
		var rs []int
		if natural >= 0 && r.Chance(0.8) {
			rs = append(rs, natural)
		}
		rs = append(rs, r.Intn(len(c06Readers)))
		if i%len(c06Readers) != rs[0] && r.Chance(0.5) {
			rs = append(rs, i%len(c06Readers))
		}
		for _, ri := range rs {
			rd := c06Readers[ri]
			hints, hd := c06ImageHints(r)
			bmp, bn := c06Bitmap(r, g)
			if bmp == nil {
				continue
			}
			c.Note(fmt.Sprintf("img-size:%s", c06SizeBucket(g.Rect.Dx(), g.Rect.Dy())))
			c06Judge(c, c06Case{Entry: rd.Name, Class: class, Image: true, Feat: hd,
				Desc: fmt.Sprintf("image %s %s %s %dx%d#%x", rd.Name, bn, hd, g.Rect.Dx(), g.Rect.Dy(), c06Fnv(g.Pix)),
				Full: func() string { return c06ImgPNG(g) }},
				func() (bool, error) { return rd.Call(bmp, hints) })
		}
	})
}

func c06SizeBucket(w, h int) string {
	m := w
	if h > m {
		m = h
	}
	switch {
	case m <= 8:
		return "<=8"
	case m <= 40:
		return "<=40"
	case m <= 100:
		return "<=100"
	case m <= 200:
		return "<=200"
	case m <= 400:
		return "<=400"
	}
	return ">400"
}
