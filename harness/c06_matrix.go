package main

// C06 part 2: arbitrary BitMatrix inputs to the three matrix decoders.

import (
	"fmt"
	"strings"

	"github.com/makiuchi-d/gozxing"
	azdecoder "github.com/makiuchi-d/gozxing/aztec/decoder"
	azdetector "github.com/makiuchi-d/gozxing/aztec/detector"
	"github.com/makiuchi-d/gozxing/common/reedsolomon"
	dmdecoder "github.com/makiuchi-d/gozxing/datamatrix/decoder"
	dmencoder "github.com/makiuchi-d/gozxing/datamatrix/encoder"
	qrdecoder "github.com/makiuchi-d/gozxing/qrcode/decoder"
	qrencoder "github.com/makiuchi-d/gozxing/qrcode/encoder"
)

func c06MatrixStr(m *gozxing.BitMatrix) string {
	var sb strings.Builder
	fmt.Fprintf(&sb, "%dx%d:", m.GetWidth(), m.GetHeight())
	for y := 0; y < m.GetHeight(); y++ {
		if y > 0 {
			sb.WriteByte('/')
		}
		for x := 0; x < m.GetWidth(); x++ {
			if m.Get(x, y) {
				sb.WriteByte('1')
			} else {
				sb.WriteByte('0')
			}
		}
	}
	return sb.String()
}

func c06MatrixHash(m *gozxing.BitMatrix) uint64 {
	h := uint64(1469598103934665603)
	for y := 0; y < m.GetHeight(); y++ {
		for x := 0; x < m.GetWidth(); x++ {
			h ^= uint64(y*131+x) + 7
			if m.Get(x, y) {
				h ^= 0x9E3779B97F4A7C15
			}
			h *= 1099511628211
		}
	}
	return h
}

func c06CloneMatrix(m *gozxing.BitMatrix) *gozxing.BitMatrix {
	n, _ := gozxing.NewBitMatrix(m.GetWidth(), m.GetHeight())
	for y := 0; y < m.GetHeight(); y++ {
		for x := 0; x < m.GetWidth(); x++ {
			if m.Get(x, y) {
				n.Set(x, y)
			}
		}
	}
	return n
}

func c06RandomMatrix(r *Rng, w, h int) *gozxing.BitMatrix {
	m, _ := gozxing.NewBitMatrix(w, h)
	p := []float64{0, 1, 0.5, 0.5, 0.1, 0.9}[r.Intn(6)]
	for y := 0; y < h; y++ {
		for x := 0; x < w; x++ {
			if r.Chance(p) {
				m.Set(x, y)
			}
		}
	}
	return m
}

// c06Embed copies src into a w x h matrix at (ox, oy); cells outside stay white / random.
func c06Embed(r *Rng, src *gozxing.BitMatrix, w, h, ox, oy int, noise bool) *gozxing.BitMatrix {
	m, _ := gozxing.NewBitMatrix(w, h)
	for y := 0; y < h; y++ {
		for x := 0; x < w; x++ {
			sx, sy := x-ox, y-oy
			if sx >= 0 && sy >= 0 && sx < src.GetWidth() && sy < src.GetHeight() {
				if src.Get(sx, sy) {
					m.Set(x, y)
				}
			} else if noise && r.Bool() {
				m.Set(x, y)
			}
		}
	}
	return m
}

func c06Mutate(r *Rng, m *gozxing.BitMatrix, k int) {
	w, h := m.GetWidth(), m.GetHeight()
	if w == 0 || h == 0 {
		return
	}
	for i := 0; i < k; i++ {
		m.Flip(r.Intn(w), r.Intn(h))
	}
}

var c06Texts = []string{"A", "HELLO WORLD", "0123456789", "https://example.com/a?b=c", "abc", "こんにちは", "日本", "Ünïcödé",
	"12345678901234567890123456789012345678901234567890", "$%*+-./:", "\x1d\x1e\x04", "The quick brown fox jumps over the lazy dog 0123456789"}

func c06Text(r *Rng) string {
	if r.Chance(0.5) {
		return c06Texts[r.Intn(len(c06Texts))]
	}
	n := r.Range(1, 60)
	b := make([]byte, n)
	alpha := "0123456789ABCDEFGHIJKLMNOPQRSTUVWXYZ $%*+-./:abcdefghijklmnopqrstuvwxyz"
	switch r.Intn(3) {
	case 0:
		alpha = alpha[:10]
	case 1:
		alpha = alpha[:45]
	}
	for i := range b {
		b[i] = alpha[r.Intn(len(alpha))]
	}
	return string(b)
}

// c06QRSymbol: module matrix (no quiet zone) of a valid QR symbol.
func c06QRSymbol(r *Rng, text string) *gozxing.BitMatrix {
	hints := map[gozxing.EncodeHintType]interface{}{}
	if r.Chance(0.3) {
		hints[gozxing.EncodeHintType_QR_VERSION] = r.Range(1, 40)
	}
	if r.Chance(0.3) {
		hints[gozxing.EncodeHintType_QR_MASK_PATTERN] = r.Intn(8)
	}
	code, err := qrencoder.Encoder_encode(text, c06Levels[r.Intn(4)], hints)
	if err != nil {
		code, err = qrencoder.Encoder_encode(text, c06Levels[r.Intn(4)], nil)
		if err != nil {
			return nil
		}
	}
	bm := code.GetMatrix()
	m, _ := gozxing.NewBitMatrix(bm.GetWidth(), bm.GetHeight())
	for y := 0; y < bm.GetHeight(); y++ {
		for x := 0; x < bm.GetWidth(); x++ {
			if bm.Get(x, y) == 1 {
				m.Set(x, y)
			}
		}
	}
	return m
}

func c06Transpose(m *gozxing.BitMatrix) *gozxing.BitMatrix {
	n, _ := gozxing.NewBitMatrix(m.GetHeight(), m.GetWidth())
	for y := 0; y < m.GetHeight(); y++ {
		for x := 0; x < m.GetWidth(); x++ {
			if m.Get(x, y) {
				n.Set(y, x)
			}
		}
	}
	return n
}

// ---------- Data Matrix symbols from arbitrary codewords ----------

var c06DMSizes = [][2]int{{10, 10}, {12, 12}, {14, 14}, {16, 16}, {18, 18}, {20, 20}, {22, 22}, {24, 24}, {26, 26}, {32, 32}, {36, 36}, {40, 40},
	{44, 44}, {48, 48}, {52, 52}, {64, 64}, {72, 72}, {80, 80}, {88, 88}, {96, 96}, {104, 104}, {120, 120}, {132, 132}, {144, 144},
	{18, 8}, {32, 8}, {26, 12}, {36, 12}, {36, 16}, {48, 16}}

func c06DMSymbolInfo(w, h int) *dmencoder.SymbolInfo {
	d, e := gozxing.NewDimension(w, h)
	if e != nil {
		return nil
	}
	si, _ := dmencoder.SymbolInfo_Lookup(1, dmencoder.SymbolShapeHint_FORCE_NONE, d, d, false)
	return si
}

// c06DMSymbol builds the module matrix of a Data Matrix symbol whose data codewords are `data`
// (padded with 129 / cut to the capacity), ECC by the library's encoder, placement by the library.
func c06DMSymbol(si *dmencoder.SymbolInfo, data []byte) *gozxing.BitMatrix {
	cw := make([]byte, si.GetDataCapacity())
	for i := range cw {
		if i < len(data) {
			cw[i] = data[i]
		} else {
			cw[i] = 129
		}
	}
	all, err := dmencoder.ErrorCorrection_EncodeECC200(cw, si)
	if err != nil {
		return nil
	}
	pl := dmencoder.NewDefaultPlacement(all, si.GetSymbolDataWidth(), si.GetSymbolDataHeight())
	pl.Place()
	m, _ := gozxing.NewBitMatrix(si.GetSymbolWidth(), si.GetSymbolHeight())
	set := func(x, y int, v bool) {
		if v {
			m.Set(x, y)
		}
	}
	my := 0
	for y := 0; y < si.GetSymbolDataHeight(); y++ {
		if y%si.GetMatrixHeight() == 0 {
			for x := 0; x < si.GetSymbolWidth(); x++ {
				set(x, my, x%2 == 0)
			}
			my++
		}
		mx := 0
		for x := 0; x < si.GetSymbolDataWidth(); x++ {
			if x%si.GetMatrixWidth() == 0 {
				set(mx, my, true)
				mx++
			}
			set(mx, my, pl.GetBit(x, y))
			mx++
			if x%si.GetMatrixWidth() == si.GetMatrixWidth()-1 {
				set(mx, my, y%2 == 0)
				mx++
			}
		}
		my++
		if y%si.GetMatrixHeight() == si.GetMatrixHeight()-1 {
			for x := 0; x < si.GetSymbolWidth(); x++ {
				set(x, my, true)
			}
			my++
		}
	}
	return m
}

// ---------- Aztec: symbols laid out with the inverse of the decoder's read order ----------

func c06AztecSize(layers int, compact bool) (base, size int) {
	base = layers * 4
	if compact {
		base += 11
		return base, base
	}
	base += 14
	return base, base + 1 + 2*((base/2-1)/15)
}

func c06AztecTotalBits(layers int, compact bool) int {
	n := 112
	if compact {
		n = 88
	}
	return (n + 16*layers) * layers
}

// c06AztecLayout writes rawbits into a matrix at the positions Decoder.extractBits reads them from.
func c06AztecLayout(layers int, compact bool, rawbits []bool) *gozxing.BitMatrix {
	base, size := c06AztecSize(layers, compact)
	am := make([]int, base)
	if compact {
		for i := range am {
			am[i] = i
		}
	} else {
		oc := base / 2
		center := size / 2
		for i := 0; i < oc; i++ {
			no := i + i/15
			am[oc-i-1] = center - no - 1
			am[oc+i] = center + no + 1
		}
	}
	m, _ := gozxing.NewBitMatrix(size, size)
	put := func(idx, x, y int) {
		if idx < len(rawbits) && rawbits[idx] {
			m.Set(x, y)
		}
	}
	rowOffset := 0
	for i := 0; i < layers; i++ {
		rowSize := (layers - i) * 4
		if compact {
			rowSize += 9
		} else {
			rowSize += 12
		}
		low := i * 2
		high := base - 1 - low
		for j := 0; j < rowSize; j++ {
			co := j * 2
			for k := 0; k < 2; k++ {
				put(rowOffset+co+k, am[low+k], am[low+j])
				put(rowOffset+2*rowSize+co+k, am[low+j], am[high-k])
				put(rowOffset+4*rowSize+co+k, am[high-k], am[high-j])
				put(rowOffset+6*rowSize+co+k, am[high-j], am[low+k])
			}
		}
		rowOffset += rowSize * 8
	}
	return m
}

func c06AztecField(layers int) (int, *reedsolomon.GenericGF) {
	switch {
	case layers <= 2:
		return 6, reedsolomon.GenericGF_AZTEC_DATA_6
	case layers <= 8:
		return 8, reedsolomon.GenericGF_AZTEC_DATA_8
	case layers <= 22:
		return 10, reedsolomon.GenericGF_AZTEC_DATA_10
	}
	return 12, reedsolomon.GenericGF_AZTEC_DATA_12
}

// c06AztecSymbol: data words from `payload` bits (stuffed), RS parity by the library's encoder.
// Returns matrix and the number of data blocks.  stuffing: words that would be all-0/all-1 get the
// complementary last bit as the standard prescribes, unless raw is set (then the words are used as they come).
func c06AztecSymbol(r *Rng, layers int, compact bool, payload []bool, raw bool) (*gozxing.BitMatrix, int) {
	ws, gf := c06AztecField(layers)
	total := c06AztecTotalBits(layers, compact)
	n := total / ws
	mask := (1 << uint(ws)) - 1
	var words []int
	i := 0
	for i < len(payload) && len(words) < n-1 {
		w := 0
		for b := 0; b < ws; b++ {
			w <<= 1
			if i+b < len(payload) {
				if payload[i+b] {
					w |= 1
				}
			} else {
				w |= 1 // pad with ones
			}
		}
		if !raw {
			if w&(mask-1) == mask-1 {
				w = mask - 1
				i--
			} else if w&(mask-1) == 0 {
				w = 1
				i--
			}
		}
		i += ws
		words = append(words, w)
	}
	if len(words) == 0 {
		words = append(words, 1+r.Intn(mask-1))
	}
	nd := len(words)
	all := make([]int, n)
	copy(all, words)
	if n-nd > 0 {
		if err := reedsolomon.NewReedSolomonEncoder(gf).Encode(all, n-nd); err != nil {
			return nil, 0
		}
	}
	rawbits := make([]bool, total)
	off := total % ws
	for wi, w := range all {
		for b := 0; b < ws; b++ {
			rawbits[off+wi*ws+b] = (w>>uint(ws-1-b))&1 == 1
		}
	}
	return c06AztecLayout(layers, compact, rawbits), nd
}

func c06AztecDecode(c *Ctx, entry, class string, m *gozxing.BitMatrix, compact bool, nd, layers int) c06Verdict {
	desc := fmt.Sprintf("aztecdec compact=%v nd=%d layers=%d %dx%d#%x", compact, nd, layers, m.GetWidth(), m.GetHeight(), c06MatrixHash(m))
	return c06Judge(c, c06Case{Entry: entry, Class: class, Desc: desc, Full: func() string { return c06MatrixStr(m) }},
		func() (bool, error) {
			dr := azdetector.NewAztecDetectorResult(m, []gozxing.ResultPoint{}, compact, nd, layers)
			res, err := azdecoder.NewDecoder().Decode(dr)
			return res != nil, err
		})
}

func c06QRDims(r *Rng) (int, int) {
	valid := func() int { return 17 + 4*r.Range(1, 40) }
	switch r.Intn(8) {
	case 0:
		return r.Range(1, 200), r.Range(1, 200)
	case 1: // valid height, arbitrary width (non-square)
		return r.Range(1, 200), valid()
	case 2: // valid width, arbitrary height
		return valid(), r.Range(1, 200)
	case 3: // two different valid dimensions
		return valid(), valid()
	case 4: // beyond version 40
		d := 177 + 4*r.Range(1, 5)
		return d, d
	case 5: // the D4 witnesses: very thin
		return r.Pick([]int{1, 2, 3, 8, 20}), valid()
	}
	d := valid()
	return d, d
}

func c06Matrices(c *Ctx) {
	nQR := c.Pick(6000, 150000)
	c.Parallel(nQR, 16, func(i int, r *Rng) {
		var m *gozxing.BitMatrix
		class := "random"
		switch r.Intn(10) {
		case 0, 1, 2:
			w, h := c06QRDims(r)
			if i < 12 {
				w, h = [][2]int{{1, 41}, {41, 1}, {21, 25}, {25, 21}, {1, 21}, {20, 21}, {22, 21}, {181, 181}, {21, 21}, {45, 45}, {177, 177}, {200, 177}}[i][0],
					[][2]int{{1, 41}, {41, 1}, {21, 25}, {25, 21}, {1, 21}, {20, 21}, {22, 21}, {181, 181}, {21, 21}, {45, 45}, {177, 177}, {200, 177}}[i][1]
			}
			m = c06RandomMatrix(r, w, h)
		default:
			sym := c06QRSymbol(r, c06Text(r))
			if sym == nil {
				return
			}
			class = "valid"
			switch r.Intn(7) {
			case 0:
			case 1:
				c06Mutate(r, sym, r.Pick([]int{1, 2, 5, 20, 100, 400}))
				class = "valid-mutated"
			case 2: // mutate format / version information areas
				d := sym.GetWidth()
				for k := r.Range(1, 12); k > 0; k-- {
					switch r.Intn(4) {
					case 0:
						sym.Flip(8, r.Intn(d))
					case 1:
						sym.Flip(r.Intn(d), 8)
					case 2:
						sym.Flip(d-9-r.Intn(3), r.Intn(6))
					default:
						sym.Flip(r.Intn(6), d-9-r.Intn(3))
					}
				}
				class = "valid-format-mutated"
			case 3:
				sym = c06Transpose(sym)
				if r.Bool() {
					c06Mutate(r, sym, r.Range(1, 10))
				}
				class = "valid-mirrored"
			case 4: // valid symbol inside a wider / narrower non-square matrix
				d := sym.GetWidth()
				w := d + r.Pick([]int{1, 2, 31, 32, 33, -1, -2, -d + 1, r.Range(1, 60)})
				if w < 1 {
					w = 1
				}
				sym = c06Embed(r, sym, w, d, 0, 0, r.Bool())
				class = "valid-nonsquare"
			case 5: // taller / shorter
				d := sym.GetWidth()
				sym = c06Embed(r, sym, d, d+4*r.Range(1, 3), 0, 0, r.Bool())
				class = "valid-nonsquare"
			default:
				c06Mutate(r, sym, r.Range(1, 8))
				class = "valid-mutated"
			}
			m = sym
		}
		feat := ""
		if m.GetWidth() != m.GetHeight() {
			feat = "nonsquare"
		}
		hints, hd := c06CharsetHint(r)
		mm := c06CloneMatrix(m) // the decoder works in place
		c06Judge(c, c06Case{Entry: "qr-decoder", Class: class, Feat: feat + " " + hd,
			Desc: fmt.Sprintf("qrdecode %s %dx%d#%x", hd, m.GetWidth(), m.GetHeight(), c06MatrixHash(m)),
			Full: func() string { return c06MatrixStr(m) }},
			func() (bool, error) {
				res, err := qrdecoder.NewDecoder().Decode(mm, hints)
				return res != nil, err
			})
	})

	nDM := c.Pick(6000, 150000)
	c.Parallel(nDM, 16, func(i int, r *Rng) {
		var m *gozxing.BitMatrix
		class := "random"
		switch r.Intn(10) {
		case 0:
			m = c06RandomMatrix(r, r.Range(1, 200), r.Range(1, 200))
		case 1:
			s := c06DMSizes[r.Intn(len(c06DMSizes))]
			m = c06RandomMatrix(r, s[0], s[1])
			class = "random-valid-size"
		case 2: // valid height, other width and vice versa
			s := c06DMSizes[r.Intn(len(c06DMSizes))]
			if r.Bool() {
				m = c06RandomMatrix(r, r.Range(1, 160), s[1])
			} else {
				m = c06RandomMatrix(r, s[0], r.Range(1, 160))
			}
			class = "random-half-valid-size"
		default:
			s := c06DMSizes[i%len(c06DMSizes)]
			if r.Chance(0.7) { // keep the big ones rarer
				s = c06DMSizes[r.Intn(12)]
			}
			si := c06DMSymbolInfo(s[0], s[1])
			if si == nil {
				return
			}
			var data []byte
			if r.Chance(0.2) {
				data = make([]byte, si.GetDataCapacity())
				for j := range data {
					data[j] = byte(r.Intn(256))
				}
				class = "symbol-random-codewords"
			} else {
				data, _ = c06GenDMStream(r, si.GetDataCapacity())
				class = "symbol-structured-codewords"
			}
			m = c06DMSymbol(si, data)
			if m == nil {
				return
			}
			if r.Chance(0.4) {
				c06Mutate(r, m, r.Pick([]int{1, 2, 4, 8, 30}))
				class += "-mutated"
			}
			if r.Chance(0.05) {
				m = c06Transpose(m)
			}
		}
		mm := c06CloneMatrix(m)
		c06Judge(c, c06Case{Entry: "dm-decoder", Class: class,
			Desc: fmt.Sprintf("dmdecode %dx%d#%x", m.GetWidth(), m.GetHeight(), c06MatrixHash(m)),
			Full: func() string { return c06MatrixStr(m) }},
			func() (bool, error) {
				res, err := dmdecoder.NewDecoder().Decode(mm)
				return res != nil, err
			})
	})

	nAz := c.Pick(6000, 150000)
	c.Parallel(nAz, 16, func(i int, r *Rng) {
		compact := r.Chance(0.4)
		layers := r.Range(1, 32)
		if compact {
			layers = r.Range(1, 4)
		}
		if r.Chance(0.6) && layers > 6 {
			layers = r.Range(1, 6)
		}
		_, size := c06AztecSize(layers, compact)
		ws, _ := c06AztecField(layers)
		ncw := c06AztecTotalBits(layers, compact) / ws
		switch r.Intn(10) {
		case 0: // random matrix of the consistent size, any data-block count of the mode message range
			m := c06RandomMatrix(r, size, size)
			nd := r.Pick([]int{1, ncw, ncw - 1, ncw + 1, r.Range(1, 2048), r.Range(1, ncw)})
			if nd < 1 {
				nd = 1
			}
			c06AztecDecode(c, "aztec-decoder", "random-consistent-size", m, compact, nd, layers)
		case 1: // larger matrix than needed (the decoder reads a sub-area)
			m := c06RandomMatrix(r, size+r.Range(1, 9), size+r.Range(1, 9))
			c06AztecDecode(c, "aztec-decoder", "random-larger-matrix", m, compact, r.Range(1, ncw), layers)
		case 2: // detector result inconsistent with the matrix / outside the mode-message range
			var m *gozxing.BitMatrix
			nd := r.Range(1, ncw)
			L := layers
			switch r.Intn(5) {
			case 0:
				m = c06RandomMatrix(r, r.Range(1, size-1), r.Range(1, size-1))
			case 1: // more data blocks than the symbol has codewords
				m = c06RandomMatrix(r, size, size)
				nd = r.Pick([]int{ncw + 1, 2048, 64, 2 * ncw})
			case 2: // any layer count of the mode-message range, whatever the matrix size
				m = c06RandomMatrix(r, size, size)
				L = r.Range(1, 32)
			case 3:
				m = c06RandomMatrix(r, size, r.Range(1, size-1))
			default:
				m = c06RandomMatrix(r, r.Range(1, 40), r.Range(1, 40))
				L = r.Range(1, 32)
			}
			c06AztecDecode(c, "aztec-decoder-inconsistent", "inconsistent-detector-result", m, compact, nd, L)
		default: // constructed symbol: payload from the high-level generator
			var payload []bool
			class := "symbol-structured"
			if r.Chance(0.25) {
				payload = make([]bool, r.Pick([]int{0, 1, 2, 3, 5, 6, r.Intn(ncw*ws + 1)}))
				for j := range payload {
					payload[j] = r.Bool()
				}
				class = "symbol-random"
			} else {
				payload, _ = c06GenAztecBits(r)
			}
			rawWords := r.Chance(0.1)
			m, nd := c06AztecSymbol(r, layers, compact, payload, rawWords)
			if m == nil {
				return
			}
			if rawWords {
				class += "-unstuffed"
			}
			if r.Chance(0.4) {
				c06Mutate(r, m, r.Pick([]int{1, 2, 4, 10, 40}))
				class += "-mutated"
			}
			c06AztecDecode(c, "aztec-decoder", class, m, compact, nd, layers)
		}
	})
}
