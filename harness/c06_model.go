package main

func c06Model(c *Ctx) {}
