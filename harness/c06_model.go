package main

// C06: correspondence of the modelled pieces with the real code:
// BitSource.ReadBits / Available (model Gzx.BitSource), QR parseECIValue, Code 39 / Code 93
// post-classification logic incl. extended decoding (model Gzx.OneDPost), reached through DecodeRow on crafted rows.

import (
	"fmt"
	"strings"

	"github.com/makiuchi-d/gozxing/common"
	"github.com/makiuchi-d/gozxing/oned"
	qrdecoder "github.com/makiuchi-d/gozxing/qrcode/decoder"
)

func c06ReadSeq(b []byte, ns []int) string {
	return Safe(func() string {
		bs := common.NewBitSource(b)
		var parts []string
		for _, n := range ns {
			v, err := bs.ReadBits(n)
			if err != nil {
				parts = append(parts, "ERR:"+errKind(err))
			} else {
				parts = append(parts, fmt.Sprint(v))
			}
		}
		return strings.Join(parts, ";") + fmt.Sprintf(" @%d.%d a=%d", bs.GetByteOffset(), bs.GetBitOffset(), bs.Available())
	})
}

func c06Ints(ns []int) string {
	var p []string
	for _, n := range ns {
		p = append(p, fmt.Sprint(n))
	}
	return strings.Join(p, ",")
}

func c06Model(c *Ctx) {
	r := c.Rng
	// ---- BitSource: exhaustive (offset, numBits) over a 6-byte buffer, then random sequences ----
	buf := []byte{0xA5, 0x3C, 0xFF, 0x00, 0x81, 0x7E}
	for skip := 0; skip <= 48; skip++ {
		for n := -1; n <= 34; n++ {
			var ns []int
			for s := skip; s > 0; {
				k := s
				if k > 32 {
					k = 32
				}
				ns = append(ns, k)
				s -= k
			}
			ns = append(ns, n, 1)
			c.Cmp("bitsource", fmt.Sprintf("c06 rb %s %s", hexs(buf), c06Ints(ns)), c06ReadSeq(buf, ns))
		}
	}
	nSeq := c.Pick(4000, 300000)
	for i := 0; i < nSeq; i++ {
		b := make([]byte, r.Pick([]int{0, 1, 2, 3, 4, 5, 8, r.Intn(24)}))
		for j := range b {
			b[j] = byte(r.Intn(256))
		}
		ns := make([]int, r.Range(1, 12))
		for j := range ns {
			switch r.Intn(8) {
			case 0:
				ns[j] = r.Pick([]int{0, -1, 33, 64, -8})
			case 1:
				ns[j] = r.Pick([]int{8, 16, 24, 32})
			case 2:
				ns[j] = r.Range(25, 32)
			default:
				ns[j] = r.Range(1, 13)
			}
		}
		goOut := c06ReadSeq(b, ns)
		c.Cmp("bitsource", fmt.Sprintf("c06 rb %s %s", hexs(b), c06Ints(ns)), goOut)
		// oracle on the real code: never a panic, whatever the argument
		c.Oracle("c06-bitsource", goOut != "PANIC", "bitsource-readbits-panic", fmt.Sprintf("rb %s %s", hexs(b), c06Ints(ns)), goOut)
	}
	// ---- parseECIValue ----
	eciOp := func(b []byte, skip int) {
		goOut := Safe(func() string {
			bs := common.NewBitSource(b)
			if skip >= 1 && skip <= 32 {
				bs.ReadBits(skip)
			}
			v, err := qrdecoder.DecodedBitStreamParser_parseECIValue(bs)
			if err != nil {
				return "ERR:" + errKind(err)
			}
			return fmt.Sprintf("ok %d @%d.%d", v, bs.GetByteOffset(), bs.GetBitOffset())
		})
		c.Cmp("parse-eci", fmt.Sprintf("c06 eci %s %d", hexs(b), skip), goOut)
		c.Oracle("c06-parse-eci", goOut != "PANIC", "qr-parse-eci-panic", fmt.Sprintf("eci %s %d", hexs(b), skip), goOut)
	}
	for first := 0; first < 256; first++ { // every first byte, 0..3 following bytes, aligned and unaligned
		for extra := 0; extra <= 3; extra++ {
			b := []byte{byte(first)}
			for j := 0; j < extra; j++ {
				b = append(b, byte(r.Intn(256)))
			}
			eciOp(b, 0)
			eciOp(append([]byte{byte(r.Intn(256))}, b...), 4)
		}
	}
	for i := 0; i < c.Pick(2000, 100000); i++ {
		b := make([]byte, r.Intn(6))
		for j := range b {
			b[j] = byte(r.Intn(256))
		}
		eciOp(b, r.Pick([]int{0, 0, 1, 4, 7, 8, 12}))
	}
	// ---- Code 39 post-classification logic through DecodeRow on crafted rows ----
	c39 := func(s string, ck, ext bool) {
		dec := c06AsRow(oned.NewCode39ReaderWithFlags(ck, ext))
		bs := append(append(c06White(12), c06Code39Row(s, 2)...), c06White(12)...)
		row := rowFromBits(bs)
		goOut := Safe(func() string {
			res, err := dec.DecodeRow(0, row, nil)
			if err != nil {
				return "ERR:" + errKind(err)
			}
			return "ok " + hexs([]byte(res.GetText()))
		})
		b01 := func(b bool) string {
			if b {
				return "1"
			}
			return "0"
		}
		c.Cmp("code39-post", fmt.Sprintf("c06 c39 %s %s %s", b01(ck), b01(ext), hexs([]byte(s))), goOut)
	}
	for _, a := range c06Code39Alpha { // every escape x every following character, and every character last
		for _, e := range "+$%/" {
			c39(string(e)+string(a), false, true)
			c39(string(a)+string(e), false, true)
			c39(string(e)+string(a), true, true)
		}
		c39(string(a), true, false)
		c39(string(a), false, false)
	}
	for i := 0; i < c.Pick(3000, 200000); i++ {
		s := c06FromAlphabet(r, c06Code39Alpha, 0, 8)
		switch r.Intn(4) {
		case 0:
			s = c06FromAlphabet(r, "+$%/ABCDEFUVWXYZ019", 0, 8)
		case 1:
			s += string(c06Code39Check(s))
		}
		c39(s, r.Bool(), r.Bool())
	}
	// ---- Code 93 ----
	c93 := func(s string, withChecks bool) {
		full := s
		if withChecks {
			full = s + c06Code93Checks(s)
		}
		dec := c06AsRow(oned.NewCode93Reader())
		bs := append(append(c06White(12), c06Code93Row(full, false)...), c06White(12)...)
		row := rowFromBits(bs)
		goOut := Safe(func() string {
			res, err := dec.DecodeRow(0, row, nil)
			if err != nil {
				return "ERR:" + errKind(err)
			}
			return "ok " + hexs([]byte(res.GetText()))
		})
		c.Cmp("code93-post", fmt.Sprintf("c06 c93 %s", hexs([]byte(full))), goOut)
	}
	for _, a := range c06Code93Alpha[:47] {
		for _, e := range "abcd" {
			c93(string(e)+string(a), true)
			c93(string(a)+string(e), true)
		}
		c93(string(a), true)
		c93(string(a), false)
	}
	c93("", false)
	c93("", true)
	for i := 0; i < c.Pick(3000, 200000); i++ {
		s := c06FromAlphabet(r, c06Code93Alpha[:47], 0, 8)
		if r.Chance(0.4) {
			s = c06FromAlphabet(r, "abcdABCDEFUVWXYZ019", 0, 8)
		}
		c93(s, r.Chance(0.85))
	}
}
