package main

// C06 part 1: arbitrary byte / bit strings to the three bit-stream parsers.

import (
	"fmt"

	"golang.org/x/text/encoding/charmap"
	"golang.org/x/text/encoding/japanese"
	"golang.org/x/text/encoding/unicode"

	"github.com/makiuchi-d/gozxing"
	azdecoder "github.com/makiuchi-d/gozxing/aztec/decoder"
	"github.com/makiuchi-d/gozxing/common"
	dmdecoder "github.com/makiuchi-d/gozxing/datamatrix/decoder"
	qrdecoder "github.com/makiuchi-d/gozxing/qrcode/decoder"
)

type c06BW struct{ bits []bool }

func (w *c06BW) put(v, n int) {
	for i := n - 1; i >= 0; i-- {
		w.bits = append(w.bits, (v>>uint(i))&1 == 1)
	}
}
func (w *c06BW) rnd(r *Rng, n int) {
	for i := 0; i < n; i++ {
		w.bits = append(w.bits, r.Bool())
	}
}
func (w *c06BW) bytes() []byte {
	out := make([]byte, (len(w.bits)+7)/8)
	for i, b := range w.bits {
		if b {
			out[i/8] |= 0x80 >> uint(i%8)
		}
	}
	return out
}

var c06Charsets = []interface{}{
	"UTF-8", "UTF8", "SJIS", "Shift_JIS", "ISO-8859-1", "ISO8859_1", "GB2312", "GB18030", "EUC-JP", "EUC_JP", "UTF-16BE", "UTF-16LE",
	"US-ASCII", "ASCII", "windows-1252", "Cp1252", "Big5", "EUC-KR", "Cp437", "KOI8-R", "IBM037",
	"", "nonsense-charset", "utf-8", "latin1",
	// registered with IANA but without a decoder in golang.org/x/text
	"ISO-2022-KR", "UTF-7", "csUnicode", "ISO-10646-UCS-2", "hp-roman8", "ISO-8859-6-E", "UTF-32", "ISO-2022-CN", "DEC-MCS", "TIS-620",
	unicode.UTF8, charmap.ISO8859_1, japanese.ShiftJIS, charmap.Windows1252,
}

func c06CharsetHint(r *Rng) (map[gozxing.DecodeHintType]interface{}, string) {
	if r.Chance(0.6) {
		return nil, "nohint"
	}
	v := c06Charsets[r.Intn(len(c06Charsets))]
	return map[gozxing.DecodeHintType]interface{}{gozxing.DecodeHintType_CHARACTER_SET: v}, fmt.Sprintf("cs=%v", v)
}

var c06Levels = []qrdecoder.ErrorCorrectionLevel{qrdecoder.ErrorCorrectionLevel_L, qrdecoder.ErrorCorrectionLevel_M,
	qrdecoder.ErrorCorrectionLevel_Q, qrdecoder.ErrorCorrectionLevel_H}

// c06PutECI appends an ECI designator in the 1/2/3-byte form (form 0 = shortest that fits).
func c06PutECI(w *c06BW, eci, form int) {
	if form == 0 {
		switch {
		case eci < 128:
			form = 1
		case eci < 16384:
			form = 2
		default:
			form = 3
		}
	}
	switch form {
	case 1:
		w.put(eci&0x7F, 8)
	case 2:
		w.put(0x8000|(eci&0x3FFF), 16)
	default:
		w.put(0xC00000|(eci&0x1FFFFF), 24)
	}
}

func c06PickECI(r *Rng) int {
	switch r.Intn(6) {
	case 0:
		return r.Intn(31) // mostly registered
	case 1:
		return r.Pick([]int{8, 10, 12, 13, 14, 16, 19, 31, 32, 169, 170, 171, 899, 900, 901, 127, 128, 16383, 16384, 999999, 1000000, 2097151})
	case 2:
		return r.Intn(1000)
	case 3:
		return r.Intn(1000000)
	case 4:
		return r.Intn(1 << 21)
	}
	return r.Pick([]int{0, 1, 2, 3, 4, 20, 25, 26, 27, 28, 29, 30, 170})
}

func c06CountWidth(mode, version int) int {
	cls := 0
	if version >= 10 {
		cls = 1
	}
	if version >= 27 {
		cls = 2
	}
	switch mode {
	case 1:
		return []int{10, 12, 14}[cls]
	case 2:
		return []int{9, 11, 13}[cls]
	case 4:
		return []int{8, 16, 16}[cls]
	case 8, 13:
		return []int{8, 10, 12}[cls]
	}
	return 0
}

// c06GenQRStream builds a structured QR data stream for the given version.
func c06GenQRStream(r *Rng, version int) ([]byte, string) {
	w := &c06BW{}
	nseg := r.Range(1, 5)
	class := "structured"
	for s := 0; s < nseg; s++ {
		mode := r.Intn(16)
		if r.Chance(0.5) {
			mode = r.Pick([]int{1, 2, 4, 8, 13, 7, 3, 5, 9})
		}
		w.put(mode, 4)
		switch mode {
		case 0:
			if r.Chance(0.7) {
				s = nseg
			}
		case 3:
			w.rnd(r, r.Pick([]int{16, 16, 16, 8, 3, 0}))
		case 7:
			class = "eci"
			c06PutECI(w, c06PickECI(r), r.Pick([]int{0, 0, 0, 1, 2, 3}))
		case 1, 2, 4, 8, 13:
			if mode == 13 {
				w.put(r.Pick([]int{1, 1, 1, 0, 2, 15}), 4)
			}
			cw := c06CountWidth(mode, version)
			per := map[int]int{1: 10, 2: 11, 4: 8, 8: 13, 13: 13}[mode]
			cnt := 0
			switch r.Intn(7) {
			case 0:
				cnt = 0
			case 1:
				cnt = r.Range(1, 3)
			case 2:
				cnt = (1 << uint(cw)) - 1
			case 3:
				cnt = r.Intn(1 << uint(cw))
			default:
				cnt = r.Range(1, 40)
			}
			w.put(cnt, cw)
			nb := cnt * per
			if mode == 1 {
				nb = (cnt/3)*10 + []int{0, 4, 7}[cnt%3]
			}
			if mode == 2 {
				nb = (cnt/2)*11 + (cnt%2)*6
			}
			if nb > 3000 {
				nb = 3000
			}
			switch r.Intn(5) {
			case 0: // valid-looking digits / chars so that the segment decodes
				for i := 0; i < nb; i++ {
					w.bits = append(w.bits, r.Chance(0.3))
				}
			case 1: // short by a few bits
				if nb > 0 {
					w.rnd(r, r.Intn(nb))
				}
				class = "truncated"
			default:
				w.rnd(r, nb)
			}
		default: // 5, 9 (FNC1) and the undefined nibbles 6,10,11,12,14,15
		}
	}
	if r.Chance(0.3) {
		w.put(0, 4)
	}
	b := w.bytes()
	if r.Chance(0.2) && len(b) > 0 {
		b = b[:r.Intn(len(b))]
		class = "truncated"
	}
	return b, class
}

func c06QRParse(c *Ctx, b []byte, ver int, lv qrdecoder.ErrorCorrectionLevel, hints map[gozxing.DecodeHintType]interface{}, class, hd string) {
	version, e := qrdecoder.Version_GetVersionForNumber(ver)
	if e != nil {
		return
	}
	c06Judge(c, c06Case{Entry: "qr-parser", Class: class, Feat: hd,
		Desc: fmt.Sprintf("qrparse v=%d lv=%v %s %s", ver, lv, hd, hexs(b))},
		func() (bool, error) {
			r, err := qrdecoder.DecodedBitStreamParser_Decode(b, version, lv, hints)
			return r != nil, err
		})
}

// ---------- Data Matrix ----------

func c06DMRandomize255(v, pos int) byte {
	pr := ((149 * pos) % 255) + 1
	t := v + pr
	if t > 255 {
		t -= 256
	}
	return byte(t)
}

// c06GenDMStream: structured Data Matrix codeword stream (data codewords only).
func c06GenDMStream(r *Rng, maxLen int) ([]byte, string) {
	var b []byte
	class := "structured"
	ntok := r.Range(1, 8)
	for t := 0; t < ntok && len(b) < maxLen; t++ {
		switch r.Intn(14) {
		case 0:
			b = append(b, byte(r.Range(1, 128)))
		case 1:
			b = append(b, byte(r.Range(130, 229)))
		case 2:
			b = append(b, 129)
			if r.Bool() {
				t = ntok
			}
		case 3, 4, 5: // C40 / X12 / Text
			b = append(b, byte(r.Pick([]int{230, 238, 239})))
			n := r.Range(0, 6)
			for i := 0; i < n; i++ {
				b = append(b, byte(r.Intn(256)), byte(r.Intn(256)))
			}
			if r.Bool() {
				b = append(b, 254)
			}
			if r.Chance(0.3) {
				b = append(b, byte(r.Intn(256)))
			}
		case 6: // Base 256
			class = "base256"
			b = append(b, 231)
			n := r.Pick([]int{0, 1, 2, 5, 249, 250, 251, 300, 1555, r.Intn(256)})
			pos := len(b) + 1
			if n < 250 {
				b = append(b, c06DMRandomize255(n, pos))
			} else {
				b = append(b, c06DMRandomize255(n/250+249, pos), c06DMRandomize255(n%250, pos+1))
			}
			m := n
			if r.Chance(0.5) || m > 40 {
				m = r.Intn(12)
			}
			for i := 0; i < m; i++ {
				b = append(b, byte(r.Intn(256)))
			}
		case 7: // EDIFACT
			b = append(b, 240)
			n := r.Range(0, 9)
			for i := 0; i < n; i++ {
				b = append(b, byte(r.Intn(256)))
			}
			if r.Bool() {
				b = append(b, 0x7C, 0, 0) // contains the unlatch value 011111
			}
		case 8: // ECI
			class = "eci"
			b = append(b, 241)
			n := r.Range(0, 3)
			for i := 0; i < n; i++ {
				b = append(b, byte(r.Pick([]int{1, 27, 127, 128, 191, 192, 254, 255, r.Intn(256)})))
			}
		case 9:
			b = append(b, byte(r.Pick([]int{232, 234, 236, 237})))
		case 10: // structured append
			b = append(b, 233)
			n := r.Range(0, 3)
			for i := 0; i < n; i++ {
				b = append(b, byte(r.Intn(256)))
			}
		case 11: // upper shift
			b = append(b, 235)
			if r.Chance(0.8) {
				b = append(b, byte(r.Range(1, 255)))
			}
		case 12:
			b = append(b, byte(r.Range(242, 255)))
		default:
			b = append(b, byte(r.Intn(256)))
		}
	}
	if r.Chance(0.2) && len(b) > 0 {
		b = b[:r.Intn(len(b))]
		class = "truncated"
	}
	if len(b) > maxLen {
		b = b[:maxLen]
	}
	return b, class
}

// ---------- Aztec ----------

// c06GenAztecBits: structured high-level Aztec bit vector.
func c06GenAztecBits(r *Rng) ([]bool, string) {
	w := &c06BW{}
	class := "structured"
	ntok := r.Range(1, 10)
	for t := 0; t < ntok; t++ {
		switch r.Intn(8) {
		case 0: // FLG(n) reached through P/S from UPPER
			class = "flg"
			w.put(0, 5) // P/S
			w.put(0, 5) // FLG(n)
			n := r.Intn(8)
			w.put(n, 3)
			eci := c06PickECI(r)
			digits := fmt.Sprint(eci)
			for len(digits) < n {
				digits = "0" + digits
			}
			if len(digits) > n {
				digits = digits[len(digits)-n:]
			}
			for i := 0; i < n; i++ {
				d := int(digits[i]-'0') + 2
				if r.Chance(0.05) {
					d = r.Intn(16)
				}
				if r.Chance(0.05) {
					break
				}
				w.put(d, 4)
			}
		case 1: // binary shift from UPPER
			class = "bs"
			w.put(31, 5)
			n := r.Pick([]int{0, 1, 2, 31, r.Intn(32)})
			w.put(n, 5)
			if n == 0 {
				n = r.Pick([]int{0, 1, 5, 2047, r.Intn(64)})
				w.put(n, 11)
				n += 31
			}
			if n > 80 || r.Chance(0.3) {
				n = r.Intn(10)
			}
			w.rnd(r, 8*n)
		case 2: // latches
			w.put(r.Pick([]int{28, 29, 30, 0}), 5)
		case 3: // digit latch + digits
			w.put(30, 5)
			n := r.Range(0, 8)
			for i := 0; i < n; i++ {
				w.put(r.Intn(16), 4)
			}
		default:
			w.put(r.Intn(32), 5)
		}
	}
	bits := w.bits
	if r.Chance(0.25) && len(bits) > 0 {
		bits = bits[:r.Intn(len(bits))]
		class = "truncated"
	}
	return bits, class
}

func c06AztecHLD(c *Ctx, bits []bool, class string) {
	if len(bits) < 2 {
		class = "short"
	}
	s := bitsStr(bits)
	if s == "" {
		s = "-"
	}
	c06Judge(c, c06Case{Entry: "aztec-hld", Class: class, Desc: "aztechld " + s},
		func() (bool, error) {
			// HighLevelDecode returns (string, error): a string is always a result
			_, err := azdecoder.NewDecoder().HighLevelDecode(bits)
			return err == nil, err
		})
}

func c06Parsers(c *Ctx) {
	r := c.Rng
	// ----- QR: every ECI designator -----
	eciCase := func(eci, form int) {
		w := &c06BW{}
		w.put(7, 4)
		c06PutECI(w, eci, form)
		w.put(4, 4)
		ver := r.Range(1, 40)
		w.put(3, c06CountWidth(4, ver))
		w.put(0xE38182, 24) // bytes that are valid UTF-8 and valid in most single-byte sets
		w.put(0, 4)
		cls := "eci-unregistered"
		if e, err := common.GetCharacterSetECIByValue(eci); err != nil {
			cls = "eci-out-of-range"
		} else if e != nil {
			cls = "eci-registered"
		}
		c06QRParse(c, w.bytes(), ver, c06Levels[r.Intn(4)], nil, cls, "nohint")
	}
	if c.Thorough {
		for eci := 0; eci <= 999999; eci++ {
			eciCase(eci, 0)
		}
	} else {
		for eci := 0; eci <= 1100; eci++ {
			eciCase(eci, 0)
		}
		for i := 0; i < 3000; i++ {
			eciCase(r.Intn(1000000), 0)
		}
	}
	for _, e := range []int{0, 127, 128, 16383, 16384, 999999, 1000000, 2097151} {
		for form := 1; form <= 3; form++ {
			eciCase(e, form)
		}
	}
	// every mode nibble x every version, alone and with a few payload bits
	for ver := 1; ver <= 40; ver++ {
		for mode := 0; mode < 16; mode++ {
			for _, extra := range []int{0, 3, 4, 8, 12, 16, 40} {
				w := &c06BW{}
				w.put(mode, 4)
				w.rnd(r, extra)
				c06QRParse(c, w.bytes(), ver, c06Levels[r.Intn(4)], nil, fmt.Sprintf("mode-%x", mode), "nohint")
			}
		}
	}
	nQR := c.Pick(25000, 1200000)
	for i := 0; i < nQR; i++ {
		ver := r.Range(1, 40)
		var b []byte
		var class string
		if r.Chance(0.25) {
			b = make([]byte, r.Pick([]int{0, 1, 2, 3, r.Intn(64)}))
			for j := range b {
				b[j] = byte(r.Intn(256))
			}
			class = "random"
		} else {
			b, class = c06GenQRStream(r, ver)
		}
		h, hd := c06CharsetHint(r)
		c06QRParse(c, b, ver, c06Levels[r.Intn(4)], h, class, hd)
	}
	// ----- Data Matrix -----
	nDM := c.Pick(25000, 1200000)
	for i := 0; i < nDM; i++ {
		var b []byte
		var class string
		if r.Chance(0.25) {
			b = make([]byte, r.Pick([]int{0, 1, 2, 3, r.Intn(64)}))
			for j := range b {
				b[j] = byte(r.Intn(256))
			}
			class = "random"
		} else {
			b, class = c06GenDMStream(r, 1558)
		}
		c06Judge(c, c06Case{Entry: "dm-parser", Class: class, Desc: "dmparse " + hexs(b)},
			func() (bool, error) {
				res, err := dmdecoder.DecodedBitStreamParser_decode(b)
				return res != nil, err
			})
	}
	// every single codeword value, alone and followed by 1..3 random codewords
	for v := 0; v < 256; v++ {
		for extra := 0; extra <= 3; extra++ {
			b := []byte{byte(v)}
			for j := 0; j < extra; j++ {
				b = append(b, byte(r.Intn(256)))
			}
			c06Judge(c, c06Case{Entry: "dm-parser", Class: "single-codeword", Desc: "dmparse " + hexs(b)},
				func() (bool, error) {
					res, err := dmdecoder.DecodedBitStreamParser_decode(b)
					return res != nil, err
				})
		}
	}
	// ----- Aztec -----
	for n := 0; n <= 12; n++ { // every bit vector of length 0..12
		for v := 0; v < 1<<uint(n); v++ {
			bits := make([]bool, n)
			for i := range bits {
				bits[i] = (v>>uint(n-1-i))&1 == 1
			}
			c06AztecHLD(c, bits, "exhaustive-short")
		}
	}
	// FLG(n) for every n with every registered / unregistered / out-of-range designator class
	for n := 0; n <= 7; n++ {
		for _, eci := range []int{0, 1, 3, 8, 9, 26, 27, 31, 170, 171, 899, 900, 999, 1000, 99999, 999999} {
			w := &c06BW{}
			w.put(0, 5)
			w.put(0, 5)
			w.put(n, 3)
			d := fmt.Sprint(eci)
			for len(d) < n {
				d = "0" + d
			}
			for i := 0; i < n && i < len(d); i++ {
				w.put(int(d[len(d)-n+i]-'0')+2, 4)
			}
			w.put(2, 5) // 'A'
			c06AztecHLD(c, w.bits, "flg")
		}
	}
	nAz := c.Pick(25000, 1200000)
	for i := 0; i < nAz; i++ {
		var bits []bool
		var class string
		if r.Chance(0.25) {
			bits = make([]bool, r.Pick([]int{0, 1, 2, 3, 4, 5, r.Intn(300)}))
			for j := range bits {
				bits[j] = r.Bool()
			}
			class = "random"
		} else {
			bits, class = c06GenAztecBits(r)
		}
		c06AztecHLD(c, bits, class)
	}
}
