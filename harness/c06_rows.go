package main

// C06 part 3: arbitrary non-empty pixel rows to every 1-D row decoder.

import (
	"fmt"
	"strings"

	"github.com/makiuchi-d/gozxing"
	"github.com/makiuchi-d/gozxing/oned"
	"github.com/makiuchi-d/gozxing/oned/rss"
)

type c06RowDec struct {
	Name string
	New  func(r *Rng) (oned.RowDecoder, string)
	Fmts []gozxing.BarcodeFormat // writer formats whose output is a natural input
}

func c06AsRow(rd gozxing.Reader) oned.RowDecoder { return rd.(oned.RowDecoder) }

var c06UPCFormats = []gozxing.BarcodeFormat{gozxing.BarcodeFormat_EAN_13, gozxing.BarcodeFormat_EAN_8, gozxing.BarcodeFormat_UPC_A, gozxing.BarcodeFormat_UPC_E}

var c06RowDecs = []c06RowDec{
	{"code39", func(r *Rng) (oned.RowDecoder, string) {
		ck, ext := r.Bool(), r.Bool()
		return c06AsRow(oned.NewCode39ReaderWithFlags(ck, ext)), fmt.Sprintf("check=%v,ext=%v", ck, ext)
	}, []gozxing.BarcodeFormat{gozxing.BarcodeFormat_CODE_39}},
	{"code93", func(r *Rng) (oned.RowDecoder, string) { return c06AsRow(oned.NewCode93Reader()), "" }, []gozxing.BarcodeFormat{gozxing.BarcodeFormat_CODE_93}},
	{"code128", func(r *Rng) (oned.RowDecoder, string) { return c06AsRow(oned.NewCode128Reader()), "" }, []gozxing.BarcodeFormat{gozxing.BarcodeFormat_CODE_128}},
	{"itf", func(r *Rng) (oned.RowDecoder, string) { return c06AsRow(oned.NewITFReader()), "" }, []gozxing.BarcodeFormat{gozxing.BarcodeFormat_ITF}},
	{"codabar", func(r *Rng) (oned.RowDecoder, string) { return c06AsRow(oned.NewCodaBarReader()), "" }, []gozxing.BarcodeFormat{gozxing.BarcodeFormat_CODABAR}},
	{"ean13", func(r *Rng) (oned.RowDecoder, string) { return c06AsRow(oned.NewEAN13Reader()), "" }, c06UPCFormats},
	{"ean8", func(r *Rng) (oned.RowDecoder, string) { return c06AsRow(oned.NewEAN8Reader()), "" }, c06UPCFormats},
	{"upca", func(r *Rng) (oned.RowDecoder, string) { return c06AsRow(oned.NewUPCAReader()), "" }, c06UPCFormats},
	{"upce", func(r *Rng) (oned.RowDecoder, string) { return c06AsRow(oned.NewUPCEReader()), "" }, c06UPCFormats},
	{"multi-upcean", func(r *Rng) (oned.RowDecoder, string) {
		var h map[gozxing.DecodeHintType]interface{}
		d := "default"
		if r.Bool() {
			var fs []gozxing.BarcodeFormat
			for _, f := range c06UPCFormats {
				if r.Bool() {
					fs = append(fs, f)
				}
			}
			h = map[gozxing.DecodeHintType]interface{}{gozxing.DecodeHintType_POSSIBLE_FORMATS: fs}
			d = fmt.Sprint(fs)
		}
		return c06AsRow(oned.NewMultiFormatUPCEANReader(h)), d
	}, c06UPCFormats},
	{"rss14", func(r *Rng) (oned.RowDecoder, string) { return c06AsRow(rss.NewRSS14Reader()), "" }, nil},
}

var c06Writers = map[gozxing.BarcodeFormat]gozxing.Writer{
	gozxing.BarcodeFormat_CODE_39:  oned.NewCode39Writer(),
	gozxing.BarcodeFormat_CODE_93:  oned.NewCode93Writer(),
	gozxing.BarcodeFormat_CODE_128: oned.NewCode128Writer(),
	gozxing.BarcodeFormat_ITF:      oned.NewITFWriter(),
	gozxing.BarcodeFormat_CODABAR:  oned.NewCodaBarWriter(),
	gozxing.BarcodeFormat_EAN_13:   oned.NewEAN13Writer(),
	gozxing.BarcodeFormat_EAN_8:    oned.NewEAN8Writer(),
	gozxing.BarcodeFormat_UPC_A:    oned.NewUPCAWriter(),
	gozxing.BarcodeFormat_UPC_E:    oned.NewUPCEWriter(),
}

var c06OnedFormats = []gozxing.BarcodeFormat{gozxing.BarcodeFormat_CODE_39, gozxing.BarcodeFormat_CODE_93, gozxing.BarcodeFormat_CODE_128,
	gozxing.BarcodeFormat_ITF, gozxing.BarcodeFormat_CODABAR, gozxing.BarcodeFormat_EAN_13, gozxing.BarcodeFormat_EAN_8,
	gozxing.BarcodeFormat_UPC_A, gozxing.BarcodeFormat_UPC_E}

func c06Digits(r *Rng, n int) string {
	b := make([]byte, n)
	for i := range b {
		b[i] = byte('0' + r.Intn(10))
	}
	return string(b)
}

func c06FromAlphabet(r *Rng, alpha string, lo, hi int) string {
	n := r.Range(lo, hi)
	b := make([]byte, n)
	for i := range b {
		b[i] = alpha[r.Intn(len(alpha))]
	}
	return string(b)
}

func c06UPCCheck(s string) byte { // standard UPC/EAN check digit of the payload s
	sum := 0
	for i := len(s) - 1; i >= 0; i -= 2 {
		sum += int(s[i] - '0')
	}
	sum *= 3
	for i := len(s) - 2; i >= 0; i -= 2 {
		sum += int(s[i] - '0')
	}
	return byte('0' + (1000-sum)%10)
}

const c06Code39Alpha = "0123456789ABCDEFGHIJKLMNOPQRSTUVWXYZ-. $/+%"

// c06OnedContent: content accepted by the writer of `f`.
func c06OnedContent(r *Rng, f gozxing.BarcodeFormat) string {
	switch f {
	case gozxing.BarcodeFormat_CODE_39:
		if r.Chance(0.3) {
			return c06FromAlphabet(r, "abcxyz!#&'()*,;<=>?@[\\]^_`{|}~\x00\x01\x1f\x7f"+c06Code39Alpha, 1, 12)
		}
		return c06FromAlphabet(r, c06Code39Alpha, 1, 20)
	case gozxing.BarcodeFormat_CODE_93:
		if r.Chance(0.3) {
			return c06FromAlphabet(r, "abcxyz!#&'()*,;<=>?@[\\]^_`{|}~\x00\x01\x1f\x7f"+c06Code39Alpha, 1, 12)
		}
		return c06FromAlphabet(r, c06Code39Alpha, 1, 20)
	case gozxing.BarcodeFormat_CODE_128:
		switch r.Intn(4) {
		case 0:
			return c06Digits(r, r.Range(1, 30))
		case 1:
			return c06FromAlphabet(r, " !\"#$%&'()*+,-./0123456789:;<=>?@ABCXYZ[\\]^_`abcxyz{|}~", 1, 25)
		case 2:
			return c06FromAlphabet(r, "\x00\x01\x02\x1b\x1fABC012abcñòóô", 1, 12)
		}
		return c06Digits(r, 2*r.Range(1, 6)) + c06FromAlphabet(r, "ABab", 1, 3) + c06Digits(r, r.Range(1, 8))
	case gozxing.BarcodeFormat_ITF:
		return c06Digits(r, 2*r.Range(1, 16))
	case gozxing.BarcodeFormat_CODABAR:
		s := c06FromAlphabet(r, "0123456789-$:/.+", 1, 16)
		if r.Bool() {
			return string("ABCD"[r.Intn(4)]) + s + string("ABCD"[r.Intn(4)])
		}
		return s
	case gozxing.BarcodeFormat_EAN_13:
		s := c06Digits(r, 12)
		return s + string(c06UPCCheck(s))
	case gozxing.BarcodeFormat_EAN_8:
		s := c06Digits(r, 7)
		return s + string(c06UPCCheck(s))
	case gozxing.BarcodeFormat_UPC_A:
		s := c06Digits(r, 11)
		return s + string(c06UPCCheck(s))
	case gozxing.BarcodeFormat_UPC_E:
		return string("01"[r.Intn(2)]) + c06Digits(r, 6) // the writer computes the check digit
	}
	return "0"
}

// c06Modules: the writer's module sequence (margin 0, one module per pixel); nil when the writer refuses.
func c06Modules(f gozxing.BarcodeFormat, content string) []bool {
	m, err := c06Writers[f].Encode(content, f, 0, 1, map[gozxing.EncodeHintType]interface{}{gozxing.EncodeHintType_MARGIN: 0})
	if err != nil || m == nil {
		return nil
	}
	out := make([]bool, m.GetWidth())
	for x := range out {
		out[x] = m.Get(x, 0)
	}
	return out
}

func c06Runs(widths []int, first bool) []bool {
	var out []bool
	col := first
	for _, w := range widths {
		for i := 0; i < w; i++ {
			out = append(out, col)
		}
		col = !col
	}
	return out
}

func c06White(n int) []bool { return make([]bool, n) }

// ---------- crafted symbol sequences ----------

var c06Code39Enc = []int{
	0x034, 0x121, 0x061, 0x160, 0x031, 0x130, 0x070, 0x025, 0x124, 0x064,
	0x109, 0x049, 0x148, 0x019, 0x118, 0x058, 0x00D, 0x10C, 0x04C, 0x01C,
	0x103, 0x043, 0x142, 0x013, 0x112, 0x052, 0x007, 0x106, 0x046, 0x016,
	0x181, 0x0C1, 0x1C0, 0x091, 0x190, 0x0D0, 0x085, 0x184, 0x0C4, 0x0A8,
	0x0A2, 0x08A, 0x02A,
}

// c06Code39Row: '*' + chars + '*' for an arbitrary string over the 43-character alphabet (may be empty).
func c06Code39Row(s string, wide int) []bool {
	var out []bool
	emit := func(enc int) {
		ws := make([]int, 9)
		for i := 0; i < 9; i++ {
			if enc&(1<<uint(8-i)) != 0 {
				ws[i] = wide
			} else {
				ws[i] = 1
			}
		}
		out = append(out, c06Runs(ws, true)...)
		out = append(out, false)
	}
	emit(0x094)
	for i := 0; i < len(s); i++ {
		k := strings.IndexByte(c06Code39Alpha, s[i])
		if k < 0 {
			k = 0
		}
		emit(c06Code39Enc[k])
	}
	emit(0x094)
	return out
}

func c06Code39Check(s string) byte {
	t := 0
	for i := 0; i < len(s); i++ {
		t += strings.IndexByte(c06Code39Alpha, s[i])
	}
	return c06Code39Alpha[t%43]
}

const c06Code93Alpha = "0123456789ABCDEFGHIJKLMNOPQRSTUVWXYZ-. $/+%abcd*"

var c06Code93Enc = []int{
	0x114, 0x148, 0x144, 0x142, 0x128, 0x124, 0x122, 0x150, 0x112, 0x10A,
	0x1A8, 0x1A4, 0x1A2, 0x194, 0x192, 0x18A, 0x168, 0x164, 0x162, 0x134,
	0x11A, 0x158, 0x14C, 0x146, 0x12C, 0x116, 0x1B4, 0x1B2, 0x1AC, 0x1A6,
	0x196, 0x19A, 0x16C, 0x166, 0x136, 0x13A,
	0x12E, 0x1D4, 0x1D2, 0x1CA, 0x16E, 0x176, 0x1AE,
	0x126, 0x1DA, 0x1D6, 0x132, 0x15E,
}

func c06Code93Checks(s string) string {
	one := func(s string, wmax int) byte {
		w, t := 1, 0
		for i := len(s) - 1; i >= 0; i-- {
			t += w * strings.IndexByte(c06Code93Alpha, s[i])
			w++
			if w > wmax {
				w = 1
			}
		}
		return c06Code93Alpha[t%47]
	}
	c := one(s, 20)
	k := one(s+string(c), 15)
	return string([]byte{c, k})
}

// c06Code93Row: '*' + symbols + [checks] + '*' + termination bar, symbols over the 47-symbol alphabet (a-d = shifts).
func c06Code93Row(s string, withChecks bool) []bool {
	var out []bool
	emit := func(enc int) {
		for i := 8; i >= 0; i-- {
			out = append(out, enc&(1<<uint(i)) != 0)
		}
	}
	if withChecks {
		s += c06Code93Checks(s)
	}
	emit(0x15E)
	for i := 0; i < len(s); i++ {
		k := strings.IndexByte(c06Code93Alpha, s[i])
		if k < 0 {
			k = 0
		}
		emit(c06Code93Enc[k])
	}
	emit(0x15E)
	out = append(out, true)
	return out
}

// Code 128 patterns derived from the library's writer (11-module symbols; index = code value).
var c06C128 [107][]bool

func c06C128Init() bool {
	if c06C128[106] != nil {
		return true
	}
	sym := func(content string, k int) []bool {
		m := c06Modules(gozxing.BarcodeFormat_CODE_128, content)
		if m == nil || len(m) < 11*(k+1)+13 {
			return nil
		}
		return m[11*k : 11*k+11]
	}
	for v := 0; v < 100; v++ {
		c06C128[v] = sym(fmt.Sprintf("%02d%02d", v, v), 1)
	}
	c06C128[100] = sym("aôa", 2)
	c06C128[101] = sym("\x01ô\x01", 2)
	c06C128[102] = sym("aña", 2)
	c06C128[103] = sym("\x01", 0)
	c06C128[104] = sym("a", 0)
	c06C128[105] = sym("0000", 0)
	if m := c06Modules(gozxing.BarcodeFormat_CODE_128, "a"); m != nil {
		c06C128[106] = m[len(m)-13:]
	}
	seen := map[string]bool{}
	for v := 0; v <= 106; v++ {
		if c06C128[v] == nil {
			return false
		}
		k := bitsStr(c06C128[v])
		if seen[k] {
			return false
		}
		seen[k] = true
	}
	return true
}

func c06Code128Row(codes []int, fixCheck bool) []bool {
	var out []bool
	sum := codes[0]
	for i, v := range codes[1:] {
		sum += (i + 1) * v
	}
	all := append([]int{}, codes...)
	if fixCheck {
		all = append(all, sum%103)
	}
	all = append(all, 106)
	for _, v := range all {
		out = append(out, c06C128[v%107]...)
	}
	return out
}

var c06Ext5Parity = []int{0x18, 0x14, 0x12, 0x11, 0x0C, 0x06, 0x03, 0x0A, 0x09, 0x05}

// c06UPCExtension: add-on symbol (2 or 5 or n digits) with correct or random parities.
func c06UPCExtension(r *Rng, n int, valid bool) []bool {
	d := c06Digits(r, n)
	par := r.Intn(1 << uint(n))
	if valid && n == 2 {
		par = (int(d[0]-'0')*10 + int(d[1]-'0')) % 4
	}
	if valid && n == 5 {
		s := 0
		for i := 3; i >= 0; i -= 2 {
			s += int(d[i] - '0')
		}
		s *= 3
		for i := 4; i >= 0; i -= 2 {
			s += int(d[i] - '0')
		}
		s *= 3
		par = c06Ext5Parity[s%10]
	}
	out := c06Runs([]int{1, 1, 2}, true)
	for i := 0; i < n; i++ {
		p := oned.UPCEANReader_L_AND_G_PATTERNS[int(d[i]-'0')]
		if par&(1<<uint(n-1-i)) != 0 {
			p = oned.UPCEANReader_L_AND_G_PATTERNS[10+int(d[i]-'0')]
		}
		out = append(out, c06Runs(p, false)...)
		if i != n-1 {
			out = append(out, false, true)
		}
	}
	return out
}

// ---------- row assembly and mutation ----------

func c06Scale(bs []bool, k int) []bool {
	if k <= 1 {
		return bs
	}
	out := make([]bool, 0, len(bs)*k)
	for _, b := range bs {
		for i := 0; i < k; i++ {
			out = append(out, b)
		}
	}
	return out
}

func c06MutateRow(r *Rng, bs []bool) ([]bool, string) {
	if len(bs) == 0 {
		return []bool{r.Bool()}, "tiny"
	}
	out := append([]bool{}, bs...)
	switch r.Intn(8) {
	case 0:
		for k := r.Range(1, 4); k > 0; k-- {
			i := r.Intn(len(out))
			out[i] = !out[i]
		}
		return out, "flip"
	case 1: // delete a stretch
		i := r.Intn(len(out))
		j := i + r.Range(1, 15)
		if j > len(out) {
			j = len(out)
		}
		out = append(out[:i], out[j:]...)
		if len(out) == 0 {
			out = []bool{true}
		}
		return out, "delete"
	case 2: // truncate right
		return out[:r.Range(1, len(out))], "truncate"
	case 3: // truncate left
		return out[r.Intn(len(out)):], "truncate-left"
	case 4: // duplicate a stretch
		i := r.Intn(len(out))
		j := i + r.Range(1, 15)
		if j > len(out) {
			j = len(out)
		}
		seg := append([]bool{}, out[i:j]...)
		out = append(out[:j], append(seg, out[j:]...)...)
		return out, "duplicate"
	case 5: // reverse
		for i, j := 0, len(out)-1; i < j; i, j = i+1, j-1 {
			out[i], out[j] = out[j], out[i]
		}
		return out, "reversed"
	case 6: // invert
		for i := range out {
			out[i] = !out[i]
		}
		return out, "inverted"
	}
	// widen / narrow one run
	i := r.Intn(len(out))
	out = append(out[:i], append([]bool{out[i]}, out[i:]...)...)
	return out, "widen"
}

func c06Frame(r *Rng, bs []bool) []bool {
	k := r.Pick([]int{1, 1, 2, 3, 4})
	l := r.Pick([]int{0, 1, 5, 10, 20, 40})
	t := r.Pick([]int{0, 1, 5, 10, 20, 40})
	out := append(c06White(l), c06Scale(bs, k)...)
	return append(out, c06White(t)...)
}

// c06ClipAlign: the symbol is clipped by the image edge.  The row is cut right after its last black pixel, or one
// pixel before, or at a random run boundary (so that a bar / the termination bar / a guard is the LAST thing in the row,
// with no quiet zone after it), optionally mirrored (first black pixel at x = 0), and usually padded with white on the
// other side so that the row length is an exact multiple of 32: BitArray.Get does no bounds check, so an index one past
// the end only faults when it also leaves the last word.
func c06ClipAlign(r *Rng, bs []bool) []bool {
	last := -1
	for i, b := range bs {
		if b {
			last = i
		}
	}
	if last < 0 {
		return bs
	}
	cut := last + 1
	switch r.Intn(4) {
	case 0:
		cut = last // last black pixel itself clipped
	case 1: // some run boundary
		var bounds []int
		for i := 1; i < len(bs); i++ {
			if bs[i] != bs[i-1] {
				bounds = append(bounds, i)
			}
		}
		if len(bounds) > 0 {
			cut = bounds[r.Intn(len(bounds))]
		}
	}
	out := append([]bool{}, bs[:cut]...)
	if r.Chance(0.7) {
		if pad := (32 - len(out)%32) % 32; pad > 0 {
			out = append(c06White(pad), out...)
		}
	}
	if r.Chance(0.3) { // the same at the left edge
		for i, j := 0, len(out)-1; i < j; i, j = i+1, j-1 {
			out[i], out[j] = out[j], out[i]
		}
	}
	return out
}

// c06GenRow builds one row for a decoder; class describes how.
func c06GenRow(r *Rng, d *c06RowDec) ([]bool, string) {
	switch r.Intn(12) {
	case 0:
		n := r.Pick([]int{1, 1, 2, 3, 31, 32, 33, 64, r.Range(1, 400)})
		return genRow(r, n)[:n], "random"
	case 1:
		n := r.Range(1, 400)
		bs := make([]bool, 0, n)
		col := r.Bool()
		mr := r.Pick([]int{2, 3, 4, 6})
		for len(bs) < n {
			for k := r.Range(1, mr); k > 0 && len(bs) < n; k-- {
				bs = append(bs, col)
			}
			col = !col
		}
		return bs, "runs"
	case 2:
		n := r.Pick([]int{1, 2, 5, 50, 300})
		bs := make([]bool, n)
		if r.Bool() {
			for i := range bs {
				bs[i] = true
			}
		}
		return bs, "uniform"
	}
	// crafted sequences for the decoders with table-driven post-processing
	if r.Chance(0.45) {
		switch d.Name {
		case "code39":
			s := c06FromAlphabet(r, c06Code39Alpha, 0, 8)
			switch r.Intn(5) {
			case 0:
				s += string("+$%/"[r.Intn(4)]) // escape last
			case 1:
				s = c06FromAlphabet(r, "+$%/ABCZ0", 0, 6)
			case 2:
				s += string(c06Code39Check(s))
			case 3:
				s = ""
			}
			return c06Frame(r, c06Code39Row(s, r.Pick([]int{2, 2, 3}))), "crafted"
		case "code93":
			s := c06FromAlphabet(r, c06Code93Alpha[:47], 0, 8)
			switch r.Intn(4) {
			case 0:
				s += string("abcd"[r.Intn(4)])
			case 1:
				s = c06FromAlphabet(r, "abcdABZ09", 0, 6)
			case 2:
				s = ""
			}
			return c06Frame(r, c06Code93Row(s, r.Chance(0.9))), "crafted"
		case "code128":
			if c06C128Init() {
				codes := []int{r.Pick([]int{103, 104, 105})}
				n := r.Pick([]int{0, 1, 2, 3, r.Range(0, 12)})
				for i := 0; i < n; i++ {
					if r.Chance(0.3) {
						codes = append(codes, r.Pick([]int{96, 97, 98, 99, 100, 101, 102, 103, 104, 105, 106}))
					} else {
						codes = append(codes, r.Intn(103))
					}
				}
				return c06Frame(r, c06Code128Row(codes, r.Chance(0.9))), "crafted"
			}
		case "ean13", "ean8", "upca", "upce", "multi-upcean":
			f := d.Fmts[r.Intn(len(d.Fmts))]
			base := c06Modules(f, c06OnedContent(r, f))
			if base != nil {
				gap := r.Pick([]int{0, 1, 7, 9, 12})
				n := r.Pick([]int{2, 5, 2, 5, 1, 3, 4, 6})
				row := append(append(append([]bool{}, base...), c06White(gap)...), c06UPCExtension(r, n, r.Chance(0.7))...)
				return c06Frame(r, row), "crafted-extension"
			}
		}
	}
	// a pixel row of one of the library's test photographs of this symbology
	if r.Chance(0.12) || (d.Name == "rss14" && r.Chance(0.6)) {
		if bs := c06PhotoRow(r, d.Name); bs != nil {
			if r.Chance(0.3) {
				bs, _ = c06MutateRow(r, bs)
			}
			return bs, "photo-row"
		}
	}
	// writer output (own formats mostly, sometimes another symbology)
	fs := d.Fmts
	if len(fs) == 0 || r.Chance(0.15) {
		fs = c06OnedFormats
	}
	f := fs[r.Intn(len(fs))]
	base := c06Modules(f, c06OnedContent(r, f))
	if base == nil {
		return []bool{true, false, true}, "tiny"
	}
	row := c06Frame(r, base)
	class := "valid"
	for k := r.Pick([]int{0, 0, 1, 1, 2, 3}); k > 0; k-- {
		var how string
		row, how = c06MutateRow(r, row)
		class = "valid-" + how
	}
	if r.Chance(0.1) { // two symbols in one row
		f2 := c06OnedFormats[r.Intn(len(c06OnedFormats))]
		if b2 := c06Modules(f2, c06OnedContent(r, f2)); b2 != nil {
			row = append(row, c06Frame(r, b2)...)
			class = "two-symbols"
		}
	}
	return row, class
}

// c06PhotoRow: a binarised row of a test photograph whose path names the symbology.
func c06PhotoRow(r *Rng, dec string) []bool {
	c06LoadPhotos()
	key := map[string]string{"rss14": "/rss/", "multi-upcean": "/ean13/", "code39": "/code39/", "code93": "/code93/", "code128": "/code128/",
		"itf": "/itf/", "codabar": "/codabar/", "ean13": "/ean13/", "ean8": "/ean8/", "upca": "/upca/", "upce": "/upce/"}[dec]
	var idx []int
	for i, n := range c06PhotoName {
		if strings.Contains(n, key) {
			idx = append(idx, i)
		}
	}
	if len(idx) == 0 {
		return nil
	}
	g := c06Photos[idx[r.Intn(len(idx))]]
	src := gozxing.NewLuminanceSourceFromImage(g)
	var bmp *gozxing.BinaryBitmap
	if r.Bool() {
		bmp, _ = gozxing.NewBinaryBitmap(gozxing.NewGlobalHistgramBinarizer(src))
	} else {
		bmp, _ = gozxing.NewBinaryBitmap(gozxing.NewHybridBinarizer(src))
	}
	if bmp == nil {
		return nil
	}
	row, err := bmp.GetBlackRow(r.Intn(bmp.GetHeight()), gozxing.NewBitArray(bmp.GetWidth()))
	if err != nil || row == nil || row.GetSize() == 0 {
		return nil
	}
	bs := make([]bool, row.GetSize())
	for i := range bs {
		bs[i] = row.Get(i)
	}
	return bs
}

func c06RowHints(r *Rng) (map[gozxing.DecodeHintType]interface{}, string) {
	if r.Chance(0.5) {
		return nil, "nohint"
	}
	h := map[gozxing.DecodeHintType]interface{}{}
	var d []string
	if r.Chance(0.3) {
		h[gozxing.DecodeHintType_ASSUME_GS1] = true
		d = append(d, "gs1")
	}
	if r.Chance(0.3) {
		h[gozxing.DecodeHintType_RETURN_CODABAR_START_END] = true
		d = append(d, "codabar-se")
	}
	if r.Chance(0.3) {
		l := [][]int{{}, {0}, {2}, {5}, {2, 5}, {1, 3}}[r.Intn(6)]
		h[gozxing.DecodeHintType_ALLOWED_EAN_EXTENSIONS] = l
		d = append(d, fmt.Sprint("ext=", l))
	}
	if r.Chance(0.3) {
		l := [][]int{{}, {0}, {2}, {6, 8, 10}, {14}, {44, 2}}[r.Intn(6)]
		h[gozxing.DecodeHintType_ALLOWED_LENGTHS] = l
		d = append(d, fmt.Sprint("len=", l))
	}
	if r.Chance(0.3) {
		h[gozxing.DecodeHintType_NEED_RESULT_POINT_CALLBACK] = gozxing.ResultPointCallback(func(gozxing.ResultPoint) {})
		d = append(d, "cb")
	}
	if r.Chance(0.2) {
		h[gozxing.DecodeHintType_TRY_HARDER] = true
		d = append(d, "th")
	}
	return h, strings.Join(d, ",")
}

func c06RowCall(c *Ctx, d *c06RowDec, r *Rng, bs []bool, class string) {
	dec, cfg := d.New(r)
	hints, hd := c06RowHints(r)
	row := rowFromBitsVia(bs, r.Intn(c20Paths), r) // the decoders must not depend on how the row was allocated
	rn := r.Intn(50)
	c06Judge(c, c06Case{Entry: d.Name + "-row", Class: class,
		Desc: fmt.Sprintf("row %s[%s] %s rn=%d %s", d.Name, cfg, hd, rn, bitsStr(bs))},
		func() (bool, error) {
			res, err := dec.DecodeRow(rn, row, hints)
			for k := 0; k < 2 && d.Name == "rss14" && err != nil; k++ { // a pair must be seen three times: feed the row again
				res, err = dec.DecodeRow(rn, row, hints)
			}
			return res != nil, err
		})
}

func c06Rows(c *Ctx) {
	c06C128Init()
	// corpus: the escape characters of Code 39 extended mode in last position, empty symbol with check digit
	for _, s := range []string{"+", "$", "%", "/", "A+", "AB$", "", "A", "%A", "+A/"} {
		for _, ck := range []bool{false, true} {
			for _, ext := range []bool{false, true} {
				dec := c06AsRow(oned.NewCode39ReaderWithFlags(ck, ext))
				bs := append(append(c06White(10), c06Code39Row(s, 2)...), c06White(10)...)
				row := rowFromBits(bs)
				c06Judge(c, c06Case{Entry: "code39-row", Class: "corpus",
					Desc: fmt.Sprintf("row code39[check=%v,ext=%v] %q %s", ck, ext, s, bitsStr(bs))},
					func() (bool, error) {
						res, err := dec.DecodeRow(0, row, nil)
						return res != nil, err
					})
			}
		}
	}
	per := c.Pick(7000, 120000)
	c.Parallel(len(c06RowDecs)*per, 16, func(i int, r *Rng) {
		d := &c06RowDecs[i%len(c06RowDecs)]
		bs, class := c06GenRow(r, d)
		if r.Chance(0.3) {
			bs = c06ClipAlign(r, bs)
			class += "+clipped-at-edge"
		}
		if len(bs) == 0 {
			bs = []bool{false}
		}
		c06RowCall(c, d, r, bs, class)
	})
}
