package main

// C06, model-backed part for the decoders whose totality is a theorem (Properties/C06.lean:
// qr_parse_total, qr_decode_total, dm_parse_total, dm_decode_total).  The same kind of malformed input
// that the exploration oracle throws at the real code is ALSO executed on the Lean model; a Go panic is
// canonicalised to PANIC, which a total model can never print, so every panic of the real code on these
// inputs is a correspondence failure here (besides being an oracle violation in c06Parsers/c06Matrices).
// Boundary inputs named by the proofs come first: the pair (0,0) in C40/Text (third value -1) in every
// shift state, Base-256 lengths past the end, upper shift / latch in last position, every QR mode nibble
// with a truncated count field, counts exceeding the remaining bits, matrices whose dimension is not
// 17+4k or not in the Data Matrix version table.

import (
	"fmt"
	"strings"

	"github.com/makiuchi-d/gozxing"
	dmdec "github.com/makiuchi-d/gozxing/datamatrix/decoder"
)

func c06TotalHint(r *Rng) cqrHint {
	switch r.Intn(10) {
	case 0:
		return cqrNameHint(c15AllNames()[r.Intn(len(c15AllNames()))])
	case 1:
		return cqrObjHint([]string{"koi8r", "eucjp", "utf16le", "cp866"}[r.Intn(4)])
	case 2:
		return cqrNameHint([]string{"KOI8-R", "no-such-charset", "ISO-2022-CN", "utf-8", "IBM866", "ISO-2022-KR", "UTF-7"}[r.Intn(7)])
	}
	return cqrNoHint()
}

func c06TotalQRParse(c *Ctx, b []byte, ver int, h cqrHint, class string) {
	goOut := cqrGoParse(b, ver, cqrLevels[c.Rng.Intn(4)], h)
	c.Note("total-qr-parse:" + class + ":" + strings.SplitN(goOut, " ", 2)[0])
	c.CmpF("qr-parse-total", fmt.Sprintf("c06 qr parse %s v=%d hint=%s", hexs(b), ver, h.tok), goOut, cqrCmpParsed)
}

func c06TotalDMParse(c *Ctx, b []byte, class string) {
	goOut := c02GoDecode(b)
	res := "ok"
	if strings.HasPrefix(goOut, "ERR") || goOut == "PANIC" {
		res = goOut
	}
	c.Note("total-dm-parse:" + class + ":" + res)
	c.Cmp("dm-parse-total", "c06 dm dec "+hexs(b), goOut)
}

// the boundary streams of dm_parse_total
func c06TotalDMBoundaries() [][]byte {
	var out [][]byte
	latches := []byte{230, 239, 238}
	// pair (0,0) (values 0,0,-1) after every possible pending shift, then more data / end of stream
	for _, l := range latches {
		for _, pre := range [][]byte{{}, {0, 1}, {0, 2}, {0, 3}, {0, 4}, {6, 66}, {12, 131}, {0, 42}, {0, 82}, {0, 122}, {19, 31}} {
			for _, post := range [][]byte{{}, {66}, {0, 0}, {254}, {254, 66}, {0, 0, 0, 0}, {255, 255}} {
				s := append([]byte{l}, pre...)
				s = append(s, 0, 0)
				s = append(s, post...)
				out = append(out, s)
			}
		}
		// every first byte with second byte 0 / 255, and a lone trailing byte
		for b1 := 0; b1 < 256; b1 += 5 {
			out = append(out, []byte{l, byte(b1), 0}, []byte{l, byte(b1), 255}, []byte{l, byte(b1)}, []byte{l, byte(b1), 1, 7})
		}
		out = append(out, []byte{l}, []byte{l, 254}, []byte{l, 255, 255, 255, 255})
	}
	// Base 256: every length header value at position 2, with 0..3 bytes following; two-byte lengths
	for d1 := 0; d1 < 256; d1++ {
		hb := c06DMRandomize255(d1, 2)
		for n := 0; n < 4; n++ {
			s := []byte{231, hb}
			for k := 0; k < n; k++ {
				s = append(s, byte(17*k+3))
			}
			out = append(out, s)
		}
	}
	out = append(out, []byte{231}, []byte{66, 231}, []byte{231, c06DMRandomize255(250, 2)}, []byte{231, c06DMRandomize255(255, 2), c06DMRandomize255(249, 3)})
	// ASCII: every single codeword, every codeword after upper shift, upper shift / latches / 254 last
	for b := 0; b < 256; b++ {
		out = append(out, []byte{byte(b)}, []byte{235, byte(b)}, []byte{66, byte(b)}, []byte{byte(b), 66})
	}
	// EDIFACT tails: 0..4 bytes after the latch, unlatch at every 6-bit position
	for n := 0; n <= 5; n++ {
		s := []byte{240}
		for k := 0; k < n; k++ {
			s = append(s, byte(0x41+k))
		}
		out = append(out, s)
	}
	out = append(out, []byte{240, 0x7C, 0, 0, 66}, []byte{240, 0x05, 0xF0, 0, 66}, []byte{240, 0x04, 0x17, 0xC0, 66}, []byte{240, 0x04, 0x10, 0x5F, 66},
		[]byte{240, 0x7C}, []byte{240, 0x7C, 0}, []byte{236, 237, 236}, []byte{241}, []byte{241, 66}, []byte{232, 232, 66})
	return out
}

func c06Total(c *Ctx) {
	r := c.Rng
	// ---------- QR DecodedBitStreamParser ----------
	for _, ver := range []int{1, 9, 10, 26, 27, 40} {
		for mode := 0; mode < 16; mode++ {
			// the mode nibble, then 0..20 further bits: every truncation of the count field and of the first group
			for extra := 0; extra <= 20; extra++ {
				for _, fill := range []int{0, 1} {
					w := &c06BW{}
					w.put(mode, 4)
					for k := 0; k < extra; k++ {
						w.put(fill, 1)
					}
					c06TotalQRParse(c, w.bytes(), ver, cqrNoHint(), fmt.Sprintf("mode-%x", mode))
				}
			}
			// count larger than what follows
			cw := c06CountWidth(mode, ver)
			if cw > 0 {
				for _, cnt := range []int{0, 1, 2, 3, 4, (1 << uint(cw)) - 1} {
					w := &c06BW{}
					w.put(mode, 4)
					if mode == 13 {
						w.put(r.Pick([]int{1, 1, 0, 2}), 4)
					}
					w.put(cnt, cw)
					w.rnd(r, r.Pick([]int{0, 3, 7, 8, 10, 13, 16, 26, 40}))
					c06TotalQRParse(c, w.bytes(), ver, c06TotalHint(r), fmt.Sprintf("count-%x", mode))
				}
			}
		}
	}
	for _, e := range []int{0, 26, 127, 128, 899, 900, 16383, 16384, 999999, 1000000, 2097151} {
		for form := 0; form <= 3; form++ {
			for cut := 0; cut < 4; cut++ {
				w := &c06BW{}
				w.put(7, 4)
				c06PutECI(w, e, form)
				b := w.bytes()
				if cut < len(b) {
					b = b[:len(b)-cut]
				}
				c06TotalQRParse(c, b, r.Range(1, 40), cqrNoHint(), "eci")
			}
		}
	}
	nQR := c.Pick(6000, 300000)
	for i := 0; i < nQR; i++ {
		ver := r.Range(1, 40)
		var b []byte
		class := "random"
		if r.Chance(0.2) {
			b = make([]byte, r.Pick([]int{0, 1, 2, 3, r.Intn(64)}))
			for j := range b {
				b[j] = byte(r.Intn(256))
			}
		} else {
			b, class = c06GenQRStream(r, ver)
		}
		c06TotalQRParse(c, b, ver, c06TotalHint(r), class)
	}
	// ---------- Data Matrix DecodedBitStreamParser ----------
	for _, b := range c06TotalDMBoundaries() {
		c06TotalDMParse(c, b, "boundary")
	}
	nDM := c.Pick(8000, 400000)
	for i := 0; i < nDM; i++ {
		var b []byte
		class := "random"
		if r.Chance(0.2) {
			b = make([]byte, r.Pick([]int{0, 1, 2, 3, r.Intn(64)}))
			for j := range b {
				b[j] = byte(r.Intn(256))
			}
		} else {
			b, class = c06GenDMStream(r, r.Pick([]int{4, 16, 64, 300}))
			if r.Chance(0.3) && len(b) > 0 {
				b = b[:r.Intn(len(b)+1)]
				class = "truncated"
			}
		}
		c06TotalDMParse(c, b, class)
	}
	// ---------- QR Decoder.Decode on arbitrary matrices ----------
	type qrJob struct {
		m     *gozxing.BitMatrix
		class string
		h     cqrHint
	}
	nM := c.Pick(500, 20000)
	jobs := make([]qrJob, 0, nM)
	fixed := [][2]int{{0, 0}, {1, 1}, {1, 41}, {41, 1}, {20, 20}, {21, 21}, {22, 22}, {23, 23}, {24, 24}, {25, 25}, {21, 25}, {25, 21},
		{45, 45}, {49, 49}, {177, 177}, {181, 181}, {200, 177}, {17, 17}, {13, 13}}
	for i := 0; i < nM; i++ {
		var m *gozxing.BitMatrix
		class := "random"
		switch {
		case i < len(fixed):
			m = c06RandomMatrix(r, fixed[i][0], fixed[i][1])
			class = "fixed-dims"
		case r.Chance(0.3):
			w, h := c06QRDims(r)
			m = c06RandomMatrix(r, w, h)
			if w != h {
				class = "non-square"
			}
		default:
			sym := c06QRSymbol(r, c06Text(r))
			if sym == nil {
				continue
			}
			class = "valid"
			switch r.Intn(6) {
			case 0:
				c06Mutate(r, sym, r.Range(1, 4))
				class = "valid-mut-few"
			case 1:
				c06Mutate(r, sym, r.Range(5, 200))
				class = "valid-mut-many"
			case 2:
				sym = c06Transpose(sym)
				class = "valid-mirrored"
			case 3:
				sym = c06Transpose(sym)
				c06Mutate(r, sym, r.Range(1, 60))
				class = "mirrored-mut"
			case 4: // overwrite the version / format areas
				d := sym.GetHeight()
				for k := 0; k < r.Range(1, 12); k++ {
					if r.Bool() {
						sym.Flip(r.Intn(9), 8)
					} else if d > 11 {
						sym.Flip(d-9-r.Intn(3), r.Intn(6))
					}
				}
				class = "valid-fmt-damaged"
			}
			m = sym
		}
		if m == nil {
			continue
		}
		jobs = append(jobs, qrJob{m, class, cqrNoHint()})
	}
	outs := make([]string, len(jobs))
	c.Parallel(len(jobs), 16, func(i int, _ *Rng) {
		outs[i], _ = cqrGoDecode(jobs[i].m, jobs[i].h)
	})
	for i, j := range jobs {
		c.Note("total-qr-decode:" + j.class + ":" + strings.SplitN(outs[i], " ", 2)[0])
		c.CmpF("qr-decode-total", fmt.Sprintf("c06 qrd %d %d %s hint=%s", j.m.GetWidth(), j.m.GetHeight(), cqrBits(j.m), j.h.tok), outs[i], cqrCmpParsed)
	}
	// ---------- Data Matrix BitMatrixParser on arbitrary matrices ----------
	vs := dmdec.VerifVersions()
	nD := c.Pick(400, 10000)
	for it := 0; it < nD+len(vs); it++ {
		var w, h int
		class := "table-dims"
		switch {
		case it < len(vs):
			w, h = vs[it].Cols, vs[it].Rows
		case r.Chance(0.25):
			w, h = r.Range(1, 150), r.Range(1, 150)
			class = "any-dims"
		case r.Chance(0.3): // a table height with a width of another entry or an arbitrary one
			h = vs[r.Intn(len(vs))].Rows
			w = r.Pick([]int{vs[r.Intn(len(vs))].Cols, r.Range(1, 160)})
			class = "table-height"
		case r.Chance(0.2): // even dimensions 8..146 that are mostly not in the table
			w, h = 2*r.Range(4, 73), 2*r.Range(4, 73)
			class = "even-dims"
		default:
			v := vs[r.Intn(len(vs))]
			w, h = v.Cols, v.Rows
		}
		bm := c06RandomMatrix(r, w, h)
		ms := c08MatrixStr(bm)
		g := Safe(func() string {
			b, e := dmdec.VerifReadCodewords(bm)
			if e != nil {
				return "ERR:" + errKind(e)
			}
			return hexs(b)
		})
		res := "ok"
		if strings.HasPrefix(g, "ERR") || g == "PANIC" {
			res = g
		}
		c.Note("total-dm-matrix:" + class + ":" + res)
		c.Cmp("dm-matrix-total", "c06 dmx dread "+ms, g)
		if res == "ok" {
			raw, _ := cqrUnhex(g)
			gb := Safe(func() string {
				nd, bl, e := dmdec.VerifGetDataBlocks(raw, h, w)
				if e != nil {
					return "ERR:" + errKind(e)
				}
				return c08Blocks(nd, bl)
			})
			c.Cmp("dm-matrix-total", fmt.Sprintf("c06 dmx dblocks %d %d %s", h, w, g), gb)
		}
	}
}
