package main

// C07 — QR symbols conform to ISO/IEC 18004.
// ORACLE: the module matrix produced by the library (MatrixUtil_buildMatrix / Encoder_encode) equals the
// matrix of the reference construction lean/Gzx/Ref/QR.lean (written from the standard), obtained from the
// compiled Lean driver; the decoder's per-version tables and BCH words equal the reference values.

import (
	"fmt"
	"strings"
	"unicode/utf8"

	"github.com/makiuchi-d/gozxing"
	"github.com/makiuchi-d/gozxing/common"
	"github.com/makiuchi-d/gozxing/qrcode/decoder"
	"github.com/makiuchi-d/gozxing/qrcode/encoder"
)

func init() { suites["C07"] = runC07 }

var c07Levels = []decoder.ErrorCorrectionLevel{
	decoder.ErrorCorrectionLevel_L, decoder.ErrorCorrectionLevel_M,
	decoder.ErrorCorrectionLevel_Q, decoder.ErrorCorrectionLevel_H}

func c07MatrixStr(m *encoder.ByteMatrix) string {
	var sb strings.Builder
	for y := 0; y < m.GetHeight(); y++ {
		if y > 0 {
			sb.WriteByte('/')
		}
		for x := 0; x < m.GetWidth(); x++ {
			switch m.Get(x, y) {
			case 0:
				sb.WriteByte('0')
			case 1:
				sb.WriteByte('1')
			default:
				sb.WriteByte('?')
			}
		}
	}
	return sb.String()
}

func c07Pen(m *encoder.ByteMatrix) string {
	return fmt.Sprintf("%d,%d,%d,%d", encoder.MaskUtil_applyMaskPenaltyRule1(m), encoder.MaskUtil_applyMaskPenaltyRule2(m),
		encoder.MaskUtil_applyMaskPenaltyRule3(m), encoder.MaskUtil_applyMaskPenaltyRule4(m))
}

// c07Check: ask the reference driver for `op`, count it as a validated trace, judge the real code's output.
func c07Check(c *Ctx, suite, key, op, goOut string) bool {
	ref := c.Model([]string{op})[0]
	c.mu.Lock()
	c.countCase(op)
	if !c.noDriver {
		c.res.ModelCompared++
	} else {
		c.res.Skipped++
	}
	c.mu.Unlock()
	if c.noDriver {
		return true
	}
	ok := ref == goOut
	detail := ""
	if !ok {
		detail = c07Diff(goOut, ref)
	}
	c.Oracle(suite, ok, key, op, detail)
	return ok
}

// first difference between two canonical outputs (matrices are long)
func c07Diff(g, r string) string {
	i := 0
	for i < len(g) && i < len(r) && g[i] == r[i] {
		i++
	}
	lo := i - 20
	if lo < 0 {
		lo = 0
	}
	cut := func(s string) string {
		hi := i + 40
		if hi > len(s) {
			hi = len(s)
		}
		if lo > len(s) {
			return ""
		}
		return s[lo:hi]
	}
	return fmt.Sprintf("first difference at offset %d (len go=%d ref=%d): go=…%s… ref=…%s…", i, len(g), len(r), cut(g), cut(r))
}

func c07Version(v int) *decoder.Version {
	ver, _ := decoder.Version_GetVersionForNumber(v)
	return ver
}

func c07BuildMatrix(cw []byte, ec decoder.ErrorCorrectionLevel, v, mask int, withPen bool) string {
	return Safe(func() string {
		ver := c07Version(v)
		bits := gozxing.NewEmptyBitArray()
		for _, b := range cw {
			bits.AppendBits(int(b), 8)
		}
		dim := ver.GetDimensionForVersion()
		m := encoder.NewByteMatrix(dim, dim)
		if e := encoder.MatrixUtil_buildMatrix(bits, ec, ver, mask, m); e != nil {
			return "ERR:" + errKind(e)
		}
		if withPen {
			return c07MatrixStr(m) + " " + c07Pen(m)
		}
		return c07MatrixStr(m)
	})
}

type c07Enc struct {
	text    string // Go string handed to Encoder_encode
	charset string // CHARACTER_SET hint ("" = none)
	gs1     bool
	ver     int // 0 = no hint
	mask    int // -1 = no hint
	ec      decoder.ErrorCorrectionLevel
}

// c07EncodeCase runs Encoder_encode and builds the matching reference op line.
func c07EncodeCase(e c07Enc) (op, goOut string, usable bool) {
	usable = true
	hints := map[gozxing.EncodeHintType]interface{}{}
	args := []string{"c07", "enc", "ec=" + e.ec.String(), "text=" + hexs([]byte(e.text))}
	if e.charset != "" {
		hints[gozxing.EncodeHintType_CHARACTER_SET] = e.charset
		if eci, ok := common.GetCharacterSetECIByName(e.charset); ok {
			args = append(args, fmt.Sprintf("eci=%d", eci.GetValue()))
			if enc, err := eci.GetCharset().NewEncoder().Bytes([]byte(e.text)); err == nil {
				args = append(args, "data="+hexs(enc))
				if eci == common.CharacterSetECI_SJIS {
					args = append(args, "sjis="+hexs(enc))
				}
			} else {
				usable = false // the character set cannot represent the text: outside this property
			}
		}
	}
	if e.gs1 {
		hints[gozxing.EncodeHintType_GS1_FORMAT] = true
		args = append(args, "gs1=1")
	}
	if e.ver != 0 {
		hints[gozxing.EncodeHintType_QR_VERSION] = e.ver
		args = append(args, fmt.Sprintf("ver=%d", e.ver))
	}
	if e.mask >= 0 {
		hints[gozxing.EncodeHintType_QR_MASK_PATTERN] = e.mask
		args = append(args, fmt.Sprintf("mask=%d", e.mask))
	}
	goOut = Safe(func() string {
		qr, err := encoder.Encoder_encode(e.text, e.ec, hints)
		if err != nil {
			return "ERR:" + errKind(err)
		}
		return fmt.Sprintf("ok %s v=%d mask=%d %s", qr.GetMode().String(), qr.GetVersion().GetVersionNumber(),
			qr.GetMaskPattern(), c07MatrixStr(qr.GetMatrix()))
	})
	if e.mask < 0 && strings.HasPrefix(goOut, "ok ") {
		// tell the reference which mask the library chose: an equally good mask is conforming (ties are not ruled by the standard)
		if f := strings.Fields(goOut); len(f) > 3 && strings.HasPrefix(f[3], "mask=") {
			args = append(args, "go"+f[3])
		}
	}
	return strings.Join(args, " "), goOut, usable
}

func c07DataBytes(v int, ec decoder.ErrorCorrectionLevel) int {
	ver := c07Version(v)
	return ver.GetTotalCodewords() - ver.GetECBlocksForLevel(ec).GetTotalECCodewords()
}

func c07Latin1(r *Rng, n int) string {
	var sb strings.Builder
	for i := 0; i < n; i++ {
		sb.WriteRune(rune(r.Intn(256)))
	}
	return sb.String()
}

const c07Alnum = "0123456789ABCDEFGHIJKLMNOPQRSTUVWXYZ $%*+-./:"

func c07Random(r *Rng, alphabet string, n int) string {
	b := make([]byte, n)
	for i := range b {
		b[i] = alphabet[r.Intn(len(alphabet))]
	}
	return string(b)
}

// double-byte Shift-JIS characters: hiragana, katakana, a few kanji from both lead-byte ranges
var c07Kanji = []rune("あいうえおかきくけこアイウエオ日本語漢字点茗荷亜唖娃阿哀愛挨姶逢葵茜穐悪握渥旭葦芦鯵梓圧斡扱宛姐虻飴絢綾鮎或粟袷安庵按暗案闇鞍杏以伊位依偉囲夷委威尉惟意慰易椅為畏異移維緯胃萎衣謂違遺医井亥域育郁磯一壱溢逸稲茨芋鰯允印咽員因姻引飲淫胤蔭堯槇遙瑤凜熙")

func c07KanjiStr(r *Rng, n int) string {
	var sb strings.Builder
	for i := 0; i < n; i++ {
		sb.WriteRune(c07Kanji[r.Intn(len(c07Kanji))])
	}
	return sb.String()
}

func runC07(c *Ctx) {
	c.Rng = c.Rng.Fork() // decorrelate consecutive VERIF_SEEDs (NewRng(s) and NewRng(s+1) are the same stream shifted by one)
	c.res.Rule = "tables: all 40 versions x 4 levels through the exported getters, all 32 format words and 34 version words (exact and with 1-3 flipped bits) vs the reference; " +
		"matrices: every (version, level, mask) = 1280 configurations x {random full-length codeword stream through MatrixUtil_buildMatrix (+ 4 penalty values), " +
		"random full-capacity ISO-8859-1 content through Encoder_encode with QR_VERSION/QR_MASK_PATTERN hints}, all-zero/all-one streams for v in {1,7,40}; " +
		"free encodes (numeric/alphanumeric/byte/kanji/GS1, automatic version and mask); penalty rules on random and structured square matrices; " +
		"non-trivial = distinct op line; oracle = equality with the reference construction written from ISO 18004 (compiled Lean driver)"
	r := c.Rng
	nStreams := c.Pick(1, 20)

	// ---------- decoder tables through the exported getters ----------
	for v := 1; v <= 40; v++ {
		goOut := Safe(func() string {
			ver := c07Version(v)
			parts := []string{fmt.Sprintf("total=%d", ver.GetTotalCodewords()), "align=" + ints(ver.GetAlignmentPatternCenters())}
			for _, ec := range c07Levels {
				b := ver.GetECBlocksForLevel(ec)
				var gs []string
				for _, g := range b.GetECBlocks() {
					gs = append(gs, fmt.Sprintf("%d*%d", g.GetCount(), g.GetDataCodewords()))
				}
				parts = append(parts, fmt.Sprintf("%s=%d:%s", ec.String(), b.GetECCodewordsPerBlock(), strings.Join(gs, "+")))
			}
			return strings.Join(parts, ";")
		})
		c07Check(c, "tables", "version-table", fmt.Sprintf("c07 ver %d", v), goOut)
		c.Note("tables:version")
	}
	// format words: reference word -> library decoder must return the (level, mask) it encodes
	flips := func(w uint, width int, k int) uint {
		for i := 0; i < k; i++ {
			w ^= 1 << uint(r.Intn(width)) // may cancel: distance <= k
		}
		return w
	}
	fdec := func(w1 uint) string {
		return Safe(func() string {
			fi := decoder.FormatInformation_DecodeFormatInformation(w1, w1)
			if fi == nil {
				return "none"
			}
			return fmt.Sprintf("%s %d", fi.GetErrorCorrectionLevel().String(), fi.GetDataMask())
		})
	}
	{
		var ops []string
		for d := 0; d < 32; d++ {
			ops = append(ops, fmt.Sprintf("c07 fw %d", d))
		}
		words := c.Model(ops)
		for d := 0; d < 32 && !c.noDriver; d++ {
			var w uint
			fmt.Sscanf(words[d], "%d", &w)
			lvl, _ := decoder.ErrorCorrectionLevel_ForBits(uint(d >> 3))
			want := fmt.Sprintf("%s %d", lvl.String(), d&7)
			got := fdec(w)
			c.Oracle("tables", got == want, "format-word", fmt.Sprintf("format word %d (data %d)", w, d), "decoder returned "+got+" want "+want)
			c.Cmp("tables", fmt.Sprintf("c07 fdec %d", w), got)
			for k := 1; k <= 3; k++ {
				for it := 0; it < c.Pick(6, 40); it++ {
					w2 := flips(w, 15, k)
					g2 := fdec(w2)
					c.Oracle("tables", g2 == want, "format-word-damaged", fmt.Sprintf("format word %d = word(%d) with <=%d bits flipped", w2, d, k), "decoder returned "+g2+" want "+want)
					c.Cmp("tables", fmt.Sprintf("c07 fdec %d", w2), g2)
				}
			}
			c.Note("tables:format")
		}
	}
	vdec := func(w int) string {
		return Safe(func() string {
			ver, e := decoder.Version_decodeVersionInformation(w)
			if e != nil {
				return "none"
			}
			return fmt.Sprintf("%d", ver.GetVersionNumber())
		})
	}
	{
		var ops []string
		for v := 7; v <= 40; v++ {
			ops = append(ops, fmt.Sprintf("c07 vw %d", v))
		}
		words := c.Model(ops)
		for v := 7; v <= 40 && !c.noDriver; v++ {
			var w uint
			fmt.Sscanf(words[v-7], "%d", &w)
			want := fmt.Sprintf("%d", v)
			got := vdec(int(w))
			c.Oracle("tables", got == want, "version-word", fmt.Sprintf("version word %d (version %d)", w, v), "decoder returned "+got+" want "+want)
			c.Cmp("tables", fmt.Sprintf("c07 vdec %d", w), got)
			for k := 1; k <= 3; k++ {
				for it := 0; it < c.Pick(6, 40); it++ {
					w2 := flips(w, 18, k)
					g2 := vdec(int(w2))
					c.Oracle("tables", g2 == want, "version-word-damaged", fmt.Sprintf("version word %d = word(%d) with <=%d bits flipped", w2, v, k), "decoder returned "+g2+" want "+want)
					c.Cmp("tables", fmt.Sprintf("c07 vdec %d", w2), g2)
				}
			}
			c.Note("tables:versionword")
		}
	}
	// mask predicate of the encoder at every cell of a 24x24 window (covers all residues mod 2,3,6,12)
	for k := 0; k < 8; k++ {
		for y := 0; y < 24; y++ {
			for x := 0; x < 24; x++ {
				g := Safe(func() string {
					b, e := encoder.MaskUtil_getDataMaskBit(k, x, y)
					if e != nil {
						return "ERR"
					}
					if b {
						return "1"
					}
					return "0"
				})
				c.Cmp("mask", fmt.Sprintf("c07 mask %d %d %d", k, x, y), g)
			}
		}
	}

	// the decoder's copies of the mask predicates: unmasking an all-light 36x36 matrix leaves the mask itself
	for k := 0; k < 8; k++ {
		g := Safe(func() string {
			bm, _ := gozxing.NewSquareBitMatrix(36)
			decoder.DataMaskValues[k].UnmaskBitMatrix(bm, 36)
			rows := make([]string, 36)
			for y := 0; y < 36; y++ {
				b := make([]byte, 36)
				for x := 0; x < 36; x++ {
					b[x] = '0'
					if bm.Get(x, y) {
						b[x] = '1'
					}
				}
				rows[y] = string(b)
			}
			return strings.Join(rows, "/")
		})
		c07Check(c, "mask", "decoder-mask", fmt.Sprintf("c07 maskgrid %d 36", k), g)
	}

	// ---------- all 1280 configurations ----------
	type cfg struct{ v, e, k int }
	var cfgs []cfg
	for v := 1; v <= 40; v++ {
		for e := 0; e < 4; e++ {
			for k := 0; k < 8; k++ {
				cfgs = append(cfgs, cfg{v, e, k})
			}
		}
	}
	c.Parallel(len(cfgs), 16, func(i int, r *Rng) {
		g := cfgs[i]
		ec := c07Levels[g.e]
		total := c07Version(g.v).GetTotalCodewords()
		for s := 0; s < nStreams; s++ {
			if s > 0 && !c.TimeLeft() {
				c.Note("bm:streams-cut-by-budget")
				break
			}
			// (a) placement, function patterns, format/version information, mask: arbitrary codeword stream
			cw := make([]byte, total)
			for j := range cw {
				cw[j] = byte(r.Intn(256))
			}
			op := fmt.Sprintf("c07 bmp %d %s %d %s", g.v, ec.String(), g.k, hexs(cw))
			c07Check(c, "buildMatrix", "matrix-buildMatrix", op, c07BuildMatrix(cw, ec, g.v, g.k, true))
			c.Note(fmt.Sprintf("bm:v%02d", g.v))
			// (b) the whole pipeline: full-capacity byte content, forced version and mask
			d := c07DataBytes(g.v, ec)
			hdr := 3
			if g.v > 9 {
				hdr = 4
			}
			n := d - hdr
			if s%3 == 1 && n > 1 { // leave room: terminator and pad codewords
				n = r.Range(1, n-1)
			}
			eop, eout, _ := c07EncodeCase(c07Enc{text: c07Latin1(r, n), charset: "ISO-8859-1", ver: g.v, mask: g.k, ec: ec})
			c07Check(c, "encode-forced", "matrix-encode", eop, eout)
			c.Note("enc:forced")
		}
	})
	// all-zero / all-one streams
	for _, v := range []int{1, 7, 40} {
		total := c07Version(v).GetTotalCodewords()
		for e := 0; e < 4; e++ {
			for k := 0; k < 8; k++ {
				for _, fill := range []byte{0x00, 0xFF} {
					cw := make([]byte, total)
					for j := range cw {
						cw[j] = fill
					}
					op := fmt.Sprintf("c07 bmp %d %s %d %s", v, c07Levels[e].String(), k, hexs(cw))
					c07Check(c, "buildMatrix", "matrix-buildMatrix", op, c07BuildMatrix(cw, c07Levels[e], v, k, true))
					c.Note("bm:constant")
				}
			}
		}
	}
	// short streams: fewer bits than data modules (the rest is padded with zero bits), small versions;
	// also compared with the quadratic functional specification `moduleAt`
	for v := 1; v <= c.Pick(3, 6); v++ {
		total := c07Version(v).GetTotalCodewords()
		for e := 0; e < 4; e++ {
			for k := 0; k < 8; k++ {
				n := total
				if (e+k)%2 == 1 {
					n = r.Intn(total + 1)
				}
				cw := make([]byte, n)
				for j := range cw {
					cw[j] = byte(r.Intn(256))
				}
				g := c07BuildMatrix(cw, c07Levels[e], v, k, false)
				c07Check(c, "buildMatrix", "matrix-buildMatrix", fmt.Sprintf("c07 bm %d %s %d %s", v, c07Levels[e].String(), k, hexs(cw)), g)
				c.Cmp("spec", fmt.Sprintf("c07 spec %d %s %d %s", v, c07Levels[e].String(), k, hexs(cw)), g)
				c.Note("bm:short+spec")
			}
		}
	}

	// ---------- free encodes: automatic version and mask ----------
	nFree := c.Pick(400, 6000)
	c.Parallel(nFree, 16, func(i int, r *Rng) {
		ec := c07Levels[r.Intn(4)]
		e := c07Enc{ec: ec, mask: -1}
		maxV := []int{4, 10, 27, 40}[r.Intn(4)]
		if !c.Thorough && maxV > 27 && r.Chance(0.7) {
			maxV = 12
		}
		dmax := c07DataBytes(maxV, ec)
		kind := r.Intn(6)
		switch kind {
		case 0:
			e.text = c07Random(r, "0123456789", r.Range(1, dmax*8*3/10))
		case 1:
			e.text = c07Random(r, c07Alnum, r.Range(1, dmax*8*2/11))
		case 2: // UTF-8 byte mode (default), multi-byte runes included
			var sb strings.Builder
			for sb.Len() < r.Range(1, dmax-3) {
				switch r.Intn(4) {
				case 0:
					sb.WriteRune(rune(0x80 + r.Intn(0x700)))
				case 1:
					sb.WriteRune(rune(0x4e00 + r.Intn(0x5000)))
				default:
					sb.WriteByte(byte(0x20 + r.Intn(0x5f)))
				}
			}
			e.text = sb.String()
			if len(e.text) > dmax-3 {
				e.text = e.text[:1]
			}
		case 3:
			e.text = c07KanjiStr(r, r.Range(1, dmax*8/13))
			e.charset = "Shift_JIS"
		case 4: // Shift_JIS hint, mixed content: byte mode with ECI
			e.text = c07KanjiStr(r, r.Range(1, 20)) + c07Random(r, c07Alnum, r.Range(1, 20))
			e.charset = "SJIS"
		default:
			e.text = c07Random(r, "0123456789", r.Range(2, 60))
			e.gs1 = true
		}
		if r.Chance(0.3) {
			e.mask = r.Intn(8)
		}
		if r.Chance(0.2) {
			e.ver = r.Range(1, 40)
		}
		op, out, usable := c07EncodeCase(e)
		if !usable {
			c.Note("enc:skipped-unencodable")
			return
		}
		c07Check(c, "encode-free", "matrix-encode", op, out)
		if strings.HasPrefix(out, "ok ") {
			f := strings.Fields(out)
			c.Note("enc:" + f[1])
			if e.mask < 0 {
				c.Note("enc:auto-" + f[3])
			}
		} else {
			c.Note("enc:" + out)
		}
		_ = utf8.RuneCountInString
	})
	// the empty string and a few fixed witnesses
	for _, t := range []string{"", "0", "A", "a", "HELLO WORLD", "01234567", "\x00", "é"} {
		for _, ec := range c07Levels {
			op, out, _ := c07EncodeCase(c07Enc{text: t, ec: ec, mask: -1})
			c07Check(c, "encode-free", "matrix-encode", op, out)
		}
	}

	// ---------- penalty rules on arbitrary square matrices ----------
	nPen := c.Pick(1500, 30000)
	for it := 0; it < nPen; it++ {
		n := r.Range(1, 30)
		if it%5 == 0 {
			n = 21 + 4*r.Intn(4)
		}
		m := encoder.NewByteMatrix(n, n)
		style := r.Intn(5)
		rows := make([]string, n)
		for y := 0; y < n; y++ {
			row := make([]byte, n)
			for x := 0; x < n; x++ {
				var b bool
				switch style {
				case 0:
					b = r.Bool()
				case 1:
					b = r.Chance(0.15)
				case 2:
					b = r.Chance(0.85)
				case 3: // long runs
					if x > 0 && r.Chance(0.8) {
						b = row[x-1] == '1'
					} else {
						b = r.Bool()
					}
				default: // vertical runs / blocks
					if y > 0 && r.Chance(0.8) {
						b = rows[y-1][x] == '1'
					} else {
						b = r.Bool()
					}
				}
				if b {
					row[x] = '1'
				} else {
					row[x] = '0'
				}
			}
			rows[y] = string(row)
		}
		// plant finder-like patterns 1011101 with light flanks
		if n >= 11 && r.Chance(0.6) {
			for p := 0; p < 3; p++ {
				pat := []string{"00001011101", "10111010000", "1011101", "000010111010000"}[r.Intn(4)]
				if len(pat) > n {
					continue
				}
				o := r.Intn(n - len(pat) + 1)
				l := r.Intn(n)
				if r.Bool() {
					rb := []byte(rows[l])
					copy(rb[o:], pat)
					rows[l] = string(rb)
				} else {
					for j := 0; j < len(pat); j++ {
						rb := []byte(rows[o+j])
						rb[l] = pat[j]
						rows[o+j] = string(rb)
					}
				}
			}
		}
		for y := 0; y < n; y++ {
			for x := 0; x < n; x++ {
				m.Set(x, y, int8(rows[y][x]-'0'))
			}
		}
		g := Safe(func() string { return c07Pen(m) })
		c.Cmp("penalty", "c07 pen "+strings.Join(rows, "/"), g)
	}
}
