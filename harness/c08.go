package main

// C08 — Data Matrix symbols conform to ISO/IEC 16022 ECC 200.
//
// ORACLE: the real code is judged against the independent reference Gzx.DMRef (Lean, written from the
// standard) which the harness queries through the model driver (c.Model): symbol attributes, ECC with
// interleaving, Annex F placement, final module matrix, decoder read order / de-interleaving / decode,
// 253/255-state randomising.  CORRESPONDENCE: the same layers Go vs the Go-mirroring models
// Gzx.DMEnc / Gzx.DMDec (c.Cmp).

import (
	"encoding/hex"
	"fmt"
	"strings"
	"time"

	"github.com/makiuchi-d/gozxing"
	"github.com/makiuchi-d/gozxing/datamatrix"
	"github.com/makiuchi-d/gozxing/datamatrix/decoder"
	"github.com/makiuchi-d/gozxing/datamatrix/encoder"
)

func init() { suites["C08"] = runC08 }

func c08SymStr(s *encoder.SymbolInfo) string {
	return Safe(func() string {
		bc := s.GetInterleavedBlockCount()
		var dl, el []int
		for i := 1; i <= bc; i++ {
			dl = append(dl, s.GetDataLengthForInterleavedBlock(i))
			el = append(el, s.GetErrorLengthForInterleavedBlock(i))
		}
		return fmt.Sprintf("rect=%v cap=%d err=%d mw=%d mh=%d regions=%d h=%d v=%d w=%d hgt=%d dw=%d dh=%d blocks=%d dl=%s el=%s",
			s.VerifIsRectangular(), s.GetDataCapacity(), s.GetErrorCodewords(), s.GetMatrixWidth(), s.GetMatrixHeight(),
			s.VerifDataRegions(), s.VerifHorizontalRegions(), s.VerifVerticalRegions(), s.GetSymbolWidth(), s.GetSymbolHeight(),
			s.GetSymbolDataWidth(), s.GetSymbolDataHeight(), bc, ints(dl), ints(el))
	})
}

func c08VerStr(v decoder.VerifVersion) string {
	var bs []string
	for _, b := range v.Blocks {
		bs = append(bs, fmt.Sprintf("%dx%d", b[0], b[1]))
	}
	return fmt.Sprintf("n=%d rows=%d cols=%d rr=%d rc=%d ec=%d total=%d blocks=%s",
		v.Number, v.Rows, v.Cols, v.RegionRows, v.RegionCols, v.ECCodewords, v.TotalCodewords, strings.Join(bs, ";"))
}

func c08MatrixStr(m *gozxing.BitMatrix) string {
	if m == nil {
		return "nil"
	}
	w, h := m.GetWidth(), m.GetHeight()
	var sb strings.Builder
	for y := 0; y < h; y++ {
		if y > 0 {
			sb.WriteByte('/')
		}
		for x := 0; x < w; x++ {
			if m.Get(x, y) {
				sb.WriteByte('1')
			} else {
				sb.WriteByte('0')
			}
		}
	}
	return sb.String()
}

// "rows/of/bits" -> BitMatrix (nil when empty or ragged)
func c08ParseMatrix(s string) *gozxing.BitMatrix {
	rows := strings.Split(s, "/")
	if len(rows) == 0 || len(rows[0]) == 0 {
		return nil
	}
	m, e := gozxing.NewBitMatrix(len(rows[0]), len(rows))
	if e != nil {
		return nil
	}
	for y, r := range rows {
		if len(r) != len(rows[0]) {
			return nil
		}
		for x := 0; x < len(r); x++ {
			if r[x] == '1' {
				m.Set(x, y)
			}
		}
	}
	return m
}

func c08PlacementStr(cw []byte, cols, rows int) string {
	return Safe(func() string {
		p := encoder.NewDefaultPlacement(cw, cols, rows)
		p.Place()
		b := make([]byte, 0, cols*rows)
		for y := 0; y < rows; y++ {
			for x := 0; x < cols; x++ {
				if p.GetBit(x, y) {
					b = append(b, '1')
				} else {
					b = append(b, '0')
				}
			}
		}
		return string(b)
	})
}

func c08Blocks(nd []int, blocks [][]byte) string {
	var ps []string
	for i := range blocks {
		ps = append(ps, fmt.Sprintf("%d:%s", nd[i], hexs(blocks[i])))
	}
	return strings.Join(ps, "|")
}

func c08Dim(s *encoder.SymbolInfo) string {
	return fmt.Sprintf("%dx%d", s.GetSymbolHeight(), s.GetSymbolWidth())
}

func c08RandBytes(r *Rng, n int, mode int) []byte {
	b := make([]byte, n)
	for i := range b {
		switch mode {
		case 0:
			b[i] = byte(r.Intn(256))
		case 1: // sparse: mostly zero
			if r.Intn(8) == 0 {
				b[i] = byte(r.Intn(256))
			}
		case 2:
			b[i] = 0xff
		case 3:
			b[i] = byte(i)
		default: // ASCII letters as ASCII-encodation codewords (value+1)
			b[i] = byte('A' + r.Intn(26) + 1)
		}
	}
	return b
}

func runC08(c *Ctx) {
	c.res.Rule = "every one of the 30 ECC 200 symbol sizes x random/structured data codeword vectors of exactly that capacity " +
		"(uniform, sparse, all-0xFF, ramp, ASCII-letter codewords; quick 5, thorough 200 per size): symbol attributes, ECC+interleaving, " +
		"Annex F placement, final module matrix, decoder extract/readCodewords/getDataBlocks/Decode; all 48 decoder versions and a " +
		"dimension sweep; 253-state pad for every position 1..1558 (hook + through EncodeHighLevel with MIN_SIZE), 255-state for " +
		"every position 1..1558 x all 256 bytes; public writer path on texts steered to each size; malformed matrices / raw lengths for " +
		"the decoder model. non-trivial = distinct op line; oracle = Lean reference Gzx.DMRef written from ISO/IEC 16022"
	r := c.Rng
	syms := encoder.VerifSymbols()

	// ---------- A. symbol attribute table: encoder symbols == reference, in lookup order ----------
	nref := c.Model([]string{"c08 nsyms"})[0]
	c.Cmp("sym", "c08 nsyms", fmt.Sprint(len(syms)))
	if c08RefOK(c, nref) {
		c.Oracle("sym", nref == fmt.Sprint(len(syms)), "sym-count", "nsyms", "go="+fmt.Sprint(len(syms))+" ref="+nref)
	}
	{
		var ops []string
		for i := range syms {
			ops = append(ops, fmt.Sprintf("c08 sym %d", i))
		}
		refs := c.Model(ops)
		for i, s := range syms {
			g := c08SymStr(s)
			c.Cmp("sym", ops[i], g)
			if c08RefOK(c, refs[i]) {
				c.Oracle("sym", g == refs[i], fmt.Sprintf("sym-%d", i), ops[i], "go="+g+" ref="+refs[i])
			}
			// SymbolInfo_Lookup returns this entry for its own capacity and shape
			shape := encoder.SymbolShapeHint_FORCE_SQUARE
			if s.VerifIsRectangular() {
				shape = encoder.SymbolShapeHint_FORCE_RECTANGLE
			}
			got, e := encoder.SymbolInfo_Lookup(s.GetDataCapacity(), shape, nil, nil, true)
			c.Oracle("sym", e == nil && got == s, "sym-lookup", fmt.Sprintf("lookup cap=%d shape=%v", s.GetDataCapacity(), shape), "lookup does not return the table entry")
		}
	}

	// ---------- B. GF tables and factor tables as the running code holds them ----------
	{
		lg, alg := encoder.VerifGFTables()
		g := "alog=" + ints(alg) + " log=" + ints(lg)
		c.Cmp("gf", "c08 gftables", g)
		ref := c.Model([]string{"c08 refgftables"})[0]
		if c08RefOK(c, ref) {
			c.Oracle("gf", g == ref, "gf-tables", "gftables", "log/alog tables differ from GF(256)/0x12D")
		}
		fs, fac := encoder.VerifFactors()
		var rows []string
		for _, f := range fac {
			rows = append(rows, ints(f))
		}
		gf := ints(fs) + " " + strings.Join(rows, "|")
		c.Cmp("factors", "c08 factors", gf)
		ref = c.Model([]string{"c08 factors"})[0]
		if c08RefOK(c, ref) {
			c.Oracle("factors", gf == ref, "factors", "factors", "factor table differs from prod (x-2^i)")
		}
	}

	// ---------- C. randomising rules ----------
	{
		maxPos := 1558
		var g253 []int
		for p := 1; p <= maxPos; p++ {
			g253 = append(g253, int(encoder.VerifRandomize253State(p)))
		}
		op := fmt.Sprintf("c08 r253 1 %d", maxPos)
		c.Cmp("r253", op, ints(g253))
		ref := c.Model([]string{fmt.Sprintf("c08 ref253 1 %d", maxPos)})[0]
		if c08RefOK(c, ref) {
			c.Oracle("r253", ints(g253) == ref, "pad253", op, "253-state randomisation differs from the standard's formula")
		}
		inRange := true
		for _, v := range g253 {
			if v < 1 || v > 254 {
				inRange = false
			}
		}
		c.Oracle("r253", inRange, "pad253-range", op, "randomised pad outside 1..254")
		var ops, refops, uops, refuops []string
		for p := 1; p <= maxPos; p++ {
			ops = append(ops, fmt.Sprintf("c08 r255 %d", p))
			refops = append(refops, fmt.Sprintf("c08 ref255 %d", p))
			uops = append(uops, fmt.Sprintf("c08 u255 %d", p))
			refuops = append(refuops, fmt.Sprintf("c08 refu255 %d", p))
		}
		refs := c.Model(refops)
		refus := c.Model(refuops)
		for p := 1; p <= maxPos; p++ {
			row := make([]int, 256)
			urow := make([]int, 256)
			inv := true
			for b := 0; b < 256; b++ {
				row[b] = int(encoder.VerifBase256Randomize255State(byte(b), p))
				urow[b] = decoder.VerifUnrandomize255State(b, p)
			}
			for b := 0; b < 256; b++ {
				if urow[row[b]] != b {
					inv = false
				}
			}
			c.Cmp("r255", ops[p-1], ints(row))
			c.Cmp("u255", uops[p-1], ints(urow))
			if c08RefOK(c, refs[p-1]) {
				c.Oracle("r255", ints(row) == refs[p-1], "rand255", ops[p-1], "255-state randomisation differs from the standard's formula")
			}
			if c08RefOK(c, refus[p-1]) {
				c.Oracle("u255", ints(urow) == refus[p-1], "unrand255", uops[p-1], "255-state un-randomisation differs from the standard's formula")
			}
			c.Oracle("u255", inv, "rand255-inverse", ops[p-1], "unrandomize255(randomize255(b,p),p) != b")
		}
		c.NoteN("rand255:positions", maxPos)
	}

	// ---------- D. per size: ECC, placement, matrix, decoder ----------
	perSize := c.Pick(5, 200)
	type job struct{ idx, k int }
	var jobs []job
	for i := range syms {
		for k := 0; k < perSize; k++ {
			jobs = append(jobs, job{i, k})
		}
	}
	c.Parallel(len(jobs), 12, func(ji int, rg *Rng) {
		j := jobs[ji]
		s := syms[j.idx]
		dim := c08Dim(s)
		mode := j.k % 5
		if j.k >= 5 {
			mode = []int{0, 0, 0, 1, 4}[rg.Intn(5)]
		}
		d := c08RandBytes(rg, s.GetDataCapacity(), mode)
		c.Note("size:" + dim)
		c.Note(fmt.Sprintf("datamode:%d", mode))
		hd := hexs(d)
		// every other job hands the data over as a prefix of a larger buffer (one codeword stream cut into several
		// symbols): the callee owns neither the bytes behind the prefix nor the prefix itself
		orig := append([]byte(nil), d...)
		if ji%2 == 1 {
			big := make([]byte, len(d), len(d)+400)
			copy(big, d)
			tail := big[len(d):cap(big)]
			for i := range tail {
				tail[i] = 0xA5
			}
			d = big
			c.Note("ecc:data-is-prefix-of-larger-buffer")
		}
		// 1. ECC
		goEcc := Safe(func() string {
			out, e := encoder.ErrorCorrection_EncodeECC200(d, s)
			if e != nil {
				return "ERR:" + errKind(e)
			}
			res := hexs(out)
			if string(d) != string(orig) {
				return "ARGUMENT-MUTATED data=" + hexs(d)
			}
			for _, v := range d[len(d):cap(d)] {
				if v != 0xA5 {
					return "WROTE-BEHIND-THE-ARGUMENT-SLICE " + res
				}
			}
			return res
		})
		opEcc := fmt.Sprintf("c08 ecc %d %s", j.idx, hd)
		refEcc := c.Model([]string{opEcc})[0]
		c.Cmp("ecc", fmt.Sprintf("c08 mecc %d %s", j.idx, hd), goEcc)
		if c08RefOK(c, refEcc) {
			c.Oracle("ecc", goEcc == refEcc, "ecc-"+dim, opEcc, "ErrorCorrection_EncodeECC200 differs from the reference codeword sequence: go="+c08Short(goEcc)+" ref="+c08Short(refEcc))
		}
		cw, err := hex.DecodeString(refEcc)
		if !c08RefOK(c, refEcc) {
			return
		}
		if err != nil || len(cw) != s.GetDataCapacity()+s.GetErrorCodewords() {
			c.Remark("reference ECC unusable for " + opEcc + ": " + c08Short(refEcc))
			return
		}
		hcw := hexs(cw)
		// 2. placement of the reference codeword sequence
		cols, rows := s.GetSymbolDataWidth(), s.GetSymbolDataHeight()
		goPl := c08PlacementStr(cw, cols, rows)
		opPl := fmt.Sprintf("c08 place %d %d %s", cols, rows, hcw)
		refPl := c.Model([]string{opPl})[0]
		c.Cmp("place", opPl, goPl)
		if c08RefOK(c, refPl) {
			c.Oracle("place", goPl == refPl, "place-"+dim, opPl, "DefaultPlacement differs from Annex F reference")
		}
		// 3. low-level matrix for the reference codeword sequence
		goMx := Safe(func() string { return c08MatrixStr(datamatrix.VerifEncodeLowLevel(cw, s, 0, 0)) })
		opMx := fmt.Sprintf("c08 matrix %d %s", j.idx, hcw)
		refMx := c.Model([]string{opMx})[0]
		c.Cmp("matrix", fmt.Sprintf("c08 mmatrix %d %s", j.idx, hcw), goMx)
		if c08RefOK(c, refMx) {
			c.Oracle("matrix", goMx == refMx, "matrix-"+dim, opMx, "encodeLowLevel matrix differs from the reference symbol")
		}
		// 4. whole low-level pipeline of the writer on the data codewords
		goFull := Safe(func() string {
			out, e := encoder.ErrorCorrection_EncodeECC200(d, s)
			if e != nil {
				return "ERR:" + errKind(e)
			}
			return c08MatrixStr(datamatrix.VerifEncodeLowLevel(out, s, 0, 0))
		})
		opFull := fmt.Sprintf("c08 full %d %s", j.idx, hd)
		c.Cmp("symbol", fmt.Sprintf("c08 mfull %d %s", j.idx, hd), goFull)
		if c08RefOK(c, refMx) {
			c.Oracle("symbol", goFull == refMx, "symbol-"+dim, opFull, "ECC+placement+matrix of the writer differs from the reference symbol")
		}
		// 5. decoder on the REFERENCE symbol
		bm := c08ParseMatrix(refMx)
		if bm == nil {
			c.Remark("reference matrix unusable for " + opMx)
			return
		}
		goEx := Safe(func() string {
			m, e := decoder.VerifExtractDataRegion(bm)
			if e != nil {
				return "ERR:" + errKind(e)
			}
			return c08MatrixStr(m)
		})
		c.Cmp("dextract", "c08 dextract "+refMx, goEx)
		if c08RefOK(c, refPl) {
			c.Oracle("dextract", strings.ReplaceAll(goEx, "/", "") == refPl, "extract-"+dim, "dextract "+opMx, "extractDataRegion of the reference symbol is not the reference mapping matrix")
		}
		goRd := Safe(func() string {
			b, e := decoder.VerifReadCodewords(bm)
			if e != nil {
				return "ERR:" + errKind(e)
			}
			return hexs(b)
		})
		c.Cmp("dread", "c08 dread "+refMx, goRd)
		c.Oracle("dread", goRd == hcw, "read-"+dim, "dread "+opMx, "readCodewords of the reference symbol does not return its codewords: "+c08Short(goRd))
		sh, sw := s.GetSymbolHeight(), s.GetSymbolWidth()
		var nd []int
		var blocks [][]byte
		goBl := Safe(func() string {
			var e error
			nd, blocks, e = decoder.VerifGetDataBlocks(cw, sh, sw)
			if e != nil {
				return "ERR:" + errKind(e)
			}
			return c08Blocks(nd, blocks)
		})
		c.Cmp("dblocks", fmt.Sprintf("c08 dblocks %d %d %s", sh, sw, hcw), goBl)
		// oracle: block j = every B-th data codeword from j, followed by the parity of exactly that data
		okBl := blocks != nil && len(blocks) == s.GetInterleavedBlockCount()
		if okBl {
			B := len(blocks)
			var eops []string
			for jb := 0; jb < B && okBl; jb++ {
				var want []byte
				for p := jb; p < len(d); p += B {
					want = append(want, d[p])
				}
				if nd[jb] != len(want) || len(blocks[jb]) < len(want) || hexs(blocks[jb][:len(want)]) != hexs(want) {
					okBl = false
					break
				}
				eops = append(eops, fmt.Sprintf("c08 refeccblk %d %s", len(blocks[jb])-len(want), hexs(want)))
			}
			if okBl {
				es := c.Model(eops)
				if !c08RefOK(c, es...) {
					return
				}
				for jb := range es {
					if hexs(blocks[jb][nd[jb]:]) != es[jb] {
						okBl = false
					}
				}
			}
		}
		c.Oracle("dblocks", okBl, "deinterleave-"+dim, fmt.Sprintf("dblocks %d %d %s", sh, sw, hcw), "getDataBlocks of the reference codeword sequence does not give (data_j ++ parity_j): "+c08Short(goBl))
		goRes := Safe(func() string {
			if blocks == nil {
				return "ERR"
			}
			res := make([]byte, len(d))
			for jb := range blocks {
				for i := 0; i < nd[jb]; i++ {
					res[i*len(blocks)+jb] = blocks[jb][i]
				}
			}
			return hexs(res)
		})
		c.Cmp("dresult", fmt.Sprintf("c08 dresult %d %d %s", sh, sw, hcw), goRes)
		// 6. Decode: reference symbol and the writer's own symbol (ASCII-letter data only: text is predictable)
		if mode == 4 {
			want := make([]byte, len(d))
			for i := range d {
				want[i] = d[i] - 1
			}
			dec := func(m *gozxing.BitMatrix) string {
				return Safe(func() string {
					res, e := decoder.NewDecoder().Decode(m)
					if e != nil {
						return "ERR:" + errKind(e)
					}
					return res.GetText()
				})
			}
			t1 := dec(bm)
			c.Oracle("decode", t1 == string(want), "decode-"+dim, "decode "+opMx, "Decoder.Decode of the reference symbol: "+c08Short(t1))
			if bm2 := c08ParseMatrix(goFull); bm2 != nil {
				t2 := dec(bm2)
				c.Oracle("roundtrip", t2 == string(want), "roundtrip-"+dim, "roundtrip "+opFull, "Decoder.Decode of the writer's own symbol: "+c08Short(t2))
			} else {
				c.Oracle("roundtrip", false, "roundtrip-"+dim, "roundtrip "+opFull, "writer produced no matrix: "+c08Short(goFull))
			}
			c.Note("decode:" + dim)
		}
	})

	// ---------- E. createECCBlock: every parity length, short/long inputs, illegal lengths ----------
	{
		lens := []int{5, 7, 10, 11, 12, 14, 18, 20, 24, 28, 36, 42, 48, 56, 62, 68}
		for it := 0; it < c.Pick(200, 5000); it++ {
			n := lens[r.Intn(len(lens))]
			if r.Intn(12) == 0 {
				n = r.Intn(80)
			}
			k := r.Intn(8)
			if r.Intn(3) == 0 {
				k = r.Intn(180)
			}
			d := c08RandBytes(r, k, r.Intn(2))
			g := Safe(func() string {
				b, e := encoder.VerifCreateECCBlock(d, n)
				if e != nil {
					return "ERR:" + errKind(e)
				}
				return hexs(b)
			})
			c.Cmp("eccblk", fmt.Sprintf("c08 eccblk %d %s", n, hexs(d)), g)
			valid := false
			for _, l := range lens {
				if l == n {
					valid = true
				}
			}
			if valid {
				op := fmt.Sprintf("c08 refeccblk %d %s", n, hexs(d))
				ref := c.Model([]string{op})[0]
				if c08RefOK(c, ref) {
					c.Oracle("eccblk", g == ref, fmt.Sprintf("eccblk-%d", n), op, "createECCBlock differs from remainder modulo generator: go="+g+" ref="+ref)
				}
				c.Note(fmt.Sprintf("eccblk:n=%d", n))
			} else {
				c.Note("eccblk:illegal-n")
			}
		}
	}

	// ---------- F. decoder versions table; encoder table vs decoder table ----------
	{
		vs := decoder.VerifVersions()
		c.Cmp("version", "c08 nversions", fmt.Sprint(len(vs)))
		var ops []string
		for i := range vs {
			ops = append(ops, fmt.Sprintf("c08 version %d", i))
		}
		for i, v := range vs {
			c.Cmp("version", ops[i], c08VerStr(v))
		}
		for _, s := range syms {
			dim := c08Dim(s)
			v, e := decoder.VerifVersionForDimensions(s.GetSymbolHeight(), s.GetSymbolWidth())
			ok := e == nil
			detail := "no decoder version"
			if ok {
				var dl []int
				for _, b := range v.Blocks {
					for k := 0; k < b[0]; k++ {
						dl = append(dl, b[1])
					}
				}
				var edl []int
				for i := 1; i <= s.GetInterleavedBlockCount(); i++ {
					edl = append(edl, s.GetDataLengthForInterleavedBlock(i))
				}
				ok = v.RegionRows == s.GetMatrixHeight() && v.RegionCols == s.GetMatrixWidth() &&
					v.TotalCodewords == s.GetDataCapacity()+s.GetErrorCodewords() &&
					v.ECCodewords == s.GetErrorLengthForInterleavedBlock(1) && ints(dl) == ints(edl)
				detail = "decoder " + c08VerStr(v) + " vs encoder " + c08SymStr(s)
			}
			c.Oracle("version", ok, "enc-dec-table-"+dim, "versionForDimensions "+dim, detail)
		}
		// dimension sweep
		dimCase := func(rr, cc int) {
			g := Safe(func() string {
				v, e := decoder.VerifVersionForDimensions(rr, cc)
				if e != nil {
					return "ERR:" + errKind(e)
				}
				return c08VerStr(v)
			})
			c.Cmp("dver", fmt.Sprintf("c08 dver %d %d", rr, cc), g)
		}
		for _, v := range vs {
			dimCase(v.Rows, v.Cols)
			dimCase(v.Cols, v.Rows)
			dimCase(v.Rows+1, v.Cols)
			dimCase(v.Rows, v.Cols+2)
		}
		if c.Thorough {
			for rr := 0; rr <= 150; rr++ {
				for cc := 0; cc <= 150; cc++ {
					dimCase(rr, cc)
				}
			}
		} else {
			for it := 0; it < 1500; it++ {
				dimCase(r.Intn(150), r.Intn(150))
			}
		}
	}

	// ---------- G. decoder model on arbitrary matrices / raw streams (model fidelity incl. errors) ----------
	{
		vs := decoder.VerifVersions()
		for it := 0; it < c.Pick(150, 3000); it++ {
			var w, h int
			switch r.Intn(4) {
			case 0:
				w, h = r.Range(1, 40), r.Range(1, 40)
			case 1: // valid height, wrong width
				v := vs[r.Intn(len(vs))]
				w, h = r.Range(1, 60), v.Rows
			default:
				v := vs[r.Intn(len(vs))]
				w, h = v.Cols, v.Rows
			}
			bm, _ := gozxing.NewBitMatrix(w, h)
			den := r.Intn(3)
			for y := 0; y < h; y++ {
				for x := 0; x < w; x++ {
					if (den == 0 && r.Bool()) || (den == 1 && r.Intn(8) == 0) || (den == 2 && (x+y)%2 == 0) {
						bm.Set(x, y)
					}
				}
			}
			ms := c08MatrixStr(bm)
			g := Safe(func() string {
				b, e := decoder.VerifReadCodewords(bm)
				if e != nil {
					return "ERR:" + errKind(e)
				}
				return hexs(b)
			})
			c.Cmp("dread", "c08 dread "+ms, g)
			g2 := Safe(func() string {
				m, e := decoder.VerifExtractDataRegion(bm)
				if e != nil {
					return "ERR:" + errKind(e)
				}
				return c08MatrixStr(m)
			})
			c.Cmp("dextract", "c08 dextract "+ms, g2)
			if strings.HasPrefix(g, "ERR") || g == "PANIC" {
				c.Note("dread-arbitrary:" + g)
			} else {
				c.Note(fmt.Sprintf("dread-arbitrary:ok-%dx%d", h, w))
			}
		}
		for it := 0; it < c.Pick(300, 5000); it++ {
			v := vs[r.Intn(len(vs))]
			n := v.TotalCodewords
			switch r.Intn(5) {
			case 0:
				n += r.Range(1, 3)
			case 1:
				n -= r.Range(1, 3)
			case 2:
				n = r.Intn(n + 1)
			}
			raw := c08RandBytes(r, n, r.Intn(2))
			g := Safe(func() string {
				nd, bl, e := decoder.VerifGetDataBlocks(raw, v.Rows, v.Cols)
				if e != nil {
					return "ERR:" + errKind(e)
				}
				return c08Blocks(nd, bl)
			})
			c.Cmp("dblocks", fmt.Sprintf("c08 dblocks %d %d %s", v.Rows, v.Cols, hexs(raw)), g)
			if strings.HasPrefix(g, "ERR") || g == "PANIC" {
				c.Note("dblocks-arbitrary:" + g)
			} else {
				c.Note("dblocks-arbitrary:ok")
			}
		}
	}

	// ---------- H. public writer path ----------
	c08Public(c)
}

// c08RefOK: the reference answer is usable (the driver is running); otherwise reference-based oracles are skipped
func c08RefOK(c *Ctx, refs ...string) bool {
	for _, r := range refs {
		if r == "NO-DRIVER" || r == "DRIVER-DIED" || r == "bad-op" || r == "bad-suite" {
			c.Note("oracle-skipped:no-reference")
			return false
		}
	}
	return true
}

// c08HL runs encoder.EncodeHighLevel under a watchdog: the unchanged tree has inputs on which it never
// returns (D16: the error of a mode encoder is discarded and the dispatch loop spins) — outside C08.
func c08HL(c *Ctx, txt string, shape encoder.SymbolShapeHint, minSize *gozxing.Dimension) ([]byte, string) {
	var hl []byte
	st := SafeT(2*time.Second, func() string {
		out, e := encoder.EncodeHighLevel(txt, shape, minSize, nil)
		if e != nil {
			return "ERR:" + errKind(e)
		}
		hl = out
		return "ok"
	})
	if st == "TIMEOUT" {
		c.Note("public:EncodeHighLevel-TIMEOUT(out of scope, see C02/C12 D16)")
		c.Remark(fmt.Sprintf("EncodeHighLevel did not return within 2s (not a C08 matter; D16 family): %q", c08Short(txt)))
		return nil, st
	}
	return hl, st
}

func c08Short(s string) string {
	if len(s) > 160 {
		return s[:160] + "..."
	}
	return s
}

// Public API: DataMatrixWriter.Encode(contents, DATA_MATRIX, 0, 0, hints) must equal the reference symbol
// built from the codewords encoder.EncodeHighLevel produces for the same contents and hints; pads written
// by EncodeHighLevel must follow the 253-state rule at every position; Base-256 codewords the 255-state rule.
func c08Public(c *Ctx) {
	r := c.Rng
	syms := encoder.VerifSymbols()
	w := datamatrix.NewDataMatrixWriter()
	alph := []string{
		"ABCDEFGHIJKLMNOPQRSTUVWXYZ", "abcdefghijklmnopqrstuvwxyz", "0123456789", " !\"#$%&'()*+,-./:;<=>?@[\\]^",
		"Aa0 Bb1-Cc2/", "*>\rXYZ123",
	}
	genText := func(n int) string {
		var sb strings.Builder
		for sb.Len() < n {
			a := alph[r.Intn(len(alph))]
			run := r.Range(1, 12)
			for k := 0; k < run && sb.Len() < n; k++ {
				sb.WriteByte(a[r.Intn(len(a))])
			}
		}
		return sb.String()
	}
	idxOf := func(s *encoder.SymbolInfo) int {
		for i, t := range syms {
			if t == s {
				return i
			}
		}
		return -1
	}
	check := func(contents string, hints map[gozxing.EncodeHintType]interface{}, shape encoder.SymbolShapeHint, minSize *gozxing.Dimension, tag string) {
		var sidx int
		hl, pre := c08HL(c, contents, shape, minSize)
		if pre == "ok" {
			pre = Safe(func() string {
				s, e := encoder.SymbolInfo_Lookup(len(hl), shape, minSize, nil, true)
				if e != nil {
					return "ERR:" + errKind(e)
				}
				sidx = idxOf(s)
				return "ok"
			})
		}
		if pre != "ok" || sidx < 0 {
			c.Note("public:" + tag + ":" + pre)
			return
		}
		s := syms[sidx]
		dim := c08Dim(s)
		g := SafeT(5*time.Second, func() string {
			m, e := w.Encode(contents, gozxing.BarcodeFormat_DATA_MATRIX, 0, 0, hints)
			if e != nil {
				return "ERR:" + errKind(e)
			}
			return c08MatrixStr(m)
		})
		op := fmt.Sprintf("c08 full %d %s", sidx, hexs(hl))
		ref := c.Model([]string{op})[0]
		c.Cmp("public", fmt.Sprintf("c08 mfull %d %s", sidx, hexs(hl)), g)
		if c08RefOK(c, ref) {
			c.Oracle("public", g == ref, "writer-"+dim, fmt.Sprintf("Encode %q hints=%s", contents, tag), "DataMatrixWriter.Encode differs from the reference symbol of its own high-level codewords")
		}
		c.Note("public:" + tag + ":" + dim)
		// round trip through the real decoder, only when the high-level stream is plain ASCII encodation
		// (ASCII value+1, digit pairs, pads): text segments of the other modes are C02's property
		plain := true
		for _, b := range hl {
			if b == 129 {
				break
			}
			if b == 0 || b > 229 {
				plain = false
			}
		}
		if bm := c08ParseMatrix(g); bm != nil && plain {
			c.Note("public:roundtrip:" + dim)
			t := Safe(func() string {
				res, e := decoder.NewDecoder().Decode(bm)
				if e != nil {
					return "ERR:" + errKind(e)
				}
				return res.GetText()
			})
			c.Oracle("public", t == contents, "writer-roundtrip-"+dim, fmt.Sprintf("Encode+Decode %q hints=%s", contents, tag), "decoded: "+c08Short(t))
		}
	}
	// (1) texts steered to each size
	for i, s := range syms {
		for k := 0; k < c.Pick(2, 20); k++ {
			shape := encoder.SymbolShapeHint_FORCE_SQUARE
			tag := "square"
			if s.VerifIsRectangular() {
				shape = encoder.SymbolShapeHint_FORCE_RECTANGLE
				tag = "rect"
			}
			hints := map[gozxing.EncodeHintType]interface{}{gozxing.EncodeHintType_DATA_MATRIX_SHAPE: shape}
			n := s.GetDataCapacity()
			if n > 1 {
				n = n - r.Intn(2)
			}
			var txt string
			if k == 0 { // digits only: 2 per codeword, stays in ASCII encodation, fills the symbol exactly
				var sb strings.Builder
				for sb.Len() < 2*s.GetDataCapacity() {
					sb.WriteByte(byte('0' + r.Intn(10)))
				}
				check(sb.String(), hints, shape, nil, tag+"-digits")
				continue
			}
			for try := 0; try < 8; try++ {
				txt = genText(n)
				hl, st := c08HL(c, txt, shape, nil)
				if st != "ok" {
					n = n * 9 / 10
					if n < 1 {
						n = 1
					}
					continue
				}
				got, _ := encoder.SymbolInfo_Lookup(len(hl), shape, nil, nil, false)
				if got == s {
					break
				}
				if got == nil || idxOf(got) > i {
					n = n * 9 / 10
					if n < 1 {
						n = 1
					}
				} else {
					n = n*11/10 + 1
				}
			}
			check(txt, hints, shape, nil, tag)
		}
	}
	// (2) short message forced into each size by MIN_SIZE: pads at every position up to the capacity
	for _, s := range syms {
		shape := encoder.SymbolShapeHint_FORCE_SQUARE
		if s.VerifIsRectangular() {
			shape = encoder.SymbolShapeHint_FORCE_RECTANGLE
		}
		dimn, _ := gozxing.NewDimension(s.GetSymbolWidth(), s.GetSymbolHeight())
		hints := map[gozxing.EncodeHintType]interface{}{
			gozxing.EncodeHintType_DATA_MATRIX_SHAPE: shape, gozxing.EncodeHintType_MIN_SIZE: dimn}
		txt := genText(r.Range(1, 3))
		check(txt, hints, shape, dimn, "minsize")
		hl, st := c08HL(c, txt, shape, dimn)
		if st == "ok" && len(hl) == s.GetDataCapacity() {
			// find the first pad (129) after the message: everything after it must be randomised pads
			first := -1
			for i, b := range hl {
				if b == 129 {
					first = i
					break
				}
			}
			if first >= 0 {
				ref := c.Model([]string{fmt.Sprintf("c08 ref253 %d %d", first+2, len(hl))})[0]
				var got []int
				for p := first + 1; p < len(hl); p++ {
					got = append(got, int(hl[p]))
				}
				if c08RefOK(c, ref) {
					c.Oracle("pad", ints(got) == ref || (len(got) == 0 && ref == "-"), "pad253-encode-"+c08Dim(s), fmt.Sprintf("EncodeHighLevel %q minsize=%s", txt, c08Dim(s)), "pad codewords: "+c08Short(ints(got)))
				}
				c.NoteN("pad:positions", len(got))
			}
		}
	}
	// (3) Base-256 through the public encoder: 0x80.. bytes, length m <= 249, symbol not exactly filled
	for it := 0; it < c.Pick(60, 2000); it++ {
		m := r.Range(1, 249)
		bs := make([]rune, m)
		raw := make([]int, m)
		for i := range bs {
			raw[i] = 0x80 + r.Intn(0x80)
			bs[i] = rune(raw[i])
		}
		txt := string(bs)
		hl, st := c08HL(c, txt, encoder.SymbolShapeHint_FORCE_NONE, nil)
		if st != "ok" || len(hl) < m+2 || hl[0] != 231 {
			c.Note("base256:other-structure")
			continue
		}
		// stream: 231, len, data...   at 1-based positions 2, 3..m+2
		ok := true
		exact := false
		if int(encoder.VerifBase256Randomize255State(byte(m), 2)) != int(hl[1]) {
			// exact fill: length byte 0 (or the D5 two-byte form) — layout belongs to C02
			exact = true
		}
		if exact {
			c.Note("base256:exact-fill-skipped")
			continue
		}
		var want []string
		var ops []string
		for i := 0; i < m; i++ {
			ops = append(ops, fmt.Sprintf("c08 ref255 %d", 3+i))
		}
		rows := c.Model(ops)
		if !c08RefOK(c, rows...) {
			continue
		}
		for i := 0; i < m; i++ {
			vals := strings.Split(rows[i], ",")
			if len(vals) != 256 {
				ok = false
				break
			}
			want = append(want, vals[raw[i]])
			if vals[raw[i]] != fmt.Sprint(int(hl[2+i])) {
				ok = false
			}
		}
		c.Oracle("base256", ok, "base256-encode", fmt.Sprintf("EncodeHighLevel %q", txt), "Base-256 codewords are not the 255-state randomisation of the bytes")
		c.Note("base256:checked")
	}
}
