package main

// C09 — located symbols are never misread; orientation and mirroring are handled.
// ORACLE on the real code: writer image -> pad / integer scale / rotation by quarter turns / mirror (QR)
// -> normal locating path (HybridBinarizer, no PURE_BARCODE): the text is exactly the content or the
// call fails with NotFound/Checksum/Format — never different content.  Positive requirements on the
// clean subset only (scale >= 2 resp. 3, quiet zone >= specification).
// The decision logic around the detectors (row scan order, reversed-row and 90-degree retries of
// OneDReader, QR mirrored retry, pose transforms) is modelled in Lean and compared in c09_model.go.

import (
	"errors"
	"fmt"
	"image"
	"os"
	"path/filepath"
	"sort"
	"strings"
	"sync"

	"github.com/makiuchi-d/gozxing"
	"github.com/makiuchi-d/gozxing/datamatrix"
	"github.com/makiuchi-d/gozxing/oned"
	"github.com/makiuchi-d/gozxing/qrcode"
	qrdecoder "github.com/makiuchi-d/gozxing/qrcode/decoder"
	qrdetector "github.com/makiuchi-d/gozxing/qrcode/detector"
)

func init() { suites["C09"] = runC09 }

type c09Sym struct {
	Name   string
	Format gozxing.BarcodeFormat
	OneD   bool
	Quiet  int // quiet zone per side required by the symbology specification, in modules
	Writer func() gozxing.Writer
	Reader func() gozxing.Reader
}

var c09Syms = []c09Sym{
	{"qr", gozxing.BarcodeFormat_QR_CODE, false, 4, func() gozxing.Writer { return qrcode.NewQRCodeWriter() }, qrcode.NewQRCodeReader},
	{"dm", gozxing.BarcodeFormat_DATA_MATRIX, false, 1, datamatrix.NewDataMatrixWriter, func() gozxing.Reader { return datamatrix.NewDataMatrixReader() }},
	{"code39", gozxing.BarcodeFormat_CODE_39, true, 10, oned.NewCode39Writer, oned.NewCode39Reader},
	{"code93", gozxing.BarcodeFormat_CODE_93, true, 10, oned.NewCode93Writer, oned.NewCode93Reader},
	{"code128", gozxing.BarcodeFormat_CODE_128, true, 10, oned.NewCode128Writer, oned.NewCode128Reader},
	{"itf", gozxing.BarcodeFormat_ITF, true, 10, oned.NewITFWriter, oned.NewITFReader},
	{"codabar", gozxing.BarcodeFormat_CODABAR, true, 10, oned.NewCodaBarWriter, oned.NewCodaBarReader},
	{"ean13", gozxing.BarcodeFormat_EAN_13, true, 11, oned.NewEAN13Writer, oned.NewEAN13Reader},
	{"ean8", gozxing.BarcodeFormat_EAN_8, true, 7, oned.NewEAN8Writer, oned.NewEAN8Reader},
	{"upca", gozxing.BarcodeFormat_UPC_A, true, 9, oned.NewUPCAWriter, oned.NewUPCAReader},
	{"upce", gozxing.BarcodeFormat_UPC_E, true, 9, oned.NewUPCEWriter, oned.NewUPCEReader},
}

// c09UPCEExpand: UPC-E (number system + 6 digits) to the 11-digit UPC-A payload (GS1 zero suppression rules).
func c09UPCEExpand(s string) string {
	ns, d := s[:1], s[1:7]
	switch d[5] {
	case '0', '1', '2':
		return ns + d[:2] + d[5:6] + "0000" + d[2:5]
	case '3':
		return ns + d[:3] + "00000" + d[3:5]
	case '4':
		return ns + d[:4] + "00000" + d[4:5]
	}
	return ns + d[:5] + "0000" + d[5:6]
}

// c09Content returns (content handed to the writer, text a correct read must return).
func c09Content(r *Rng, s *c09Sym) (string, string) {
	switch s.Format {
	case gozxing.BarcodeFormat_QR_CODE:
		switch r.Intn(4) {
		case 0:
			t := c06Digits(r, r.Range(1, 80))
			return t, t
		case 1:
			t := c06FromAlphabet(r, "0123456789ABCDEFGHIJKLMNOPQRSTUVWXYZ $%*+-./:", 1, 60)
			return t, t
		case 2:
			t := c06FromAlphabet(r, "abcdefghijklmnopqrstuvwxyzABCXYZ0123456789 ,.;:!?/&=_-", 1, 120)
			return t, t
		}
		t := []string{"こんにちは世界", "Ünïcödé ßtraße", "https://example.com/päth?q=1", "日本語テキスト123", "€uro ½ ©"}[r.Intn(5)]
		return t, t
	case gozxing.BarcodeFormat_DATA_MATRIX:
		// ASCII only: non-ASCII contents are the subject of C02 (defect D6)
		switch r.Intn(3) {
		case 0:
			t := c06Digits(r, r.Range(1, 60))
			return t, t
		case 1:
			t := c06FromAlphabet(r, "ABCDEFGHIJKLMNOPQRSTUVWXYZ0123456789 ", 1, 50)
			return t, t
		}
		t := c06FromAlphabet(r, "abcdefghijklmnopqrstuvwxyzABCXYZ0123456789 ,.;:!?/&=_-*>", 1, 70)
		return t, t
	case gozxing.BarcodeFormat_CODE_39, gozxing.BarcodeFormat_CODE_93:
		t := c06FromAlphabet(r, "0123456789ABCDEFGHIJKLMNOPQRSTUVWXYZ-. $/+%", 1, 16)
		t = strings.TrimSpace(t)
		if t == "" {
			t = "A"
		}
		return t, t
	case gozxing.BarcodeFormat_CODE_128:
		var t string
		switch r.Intn(3) {
		case 0:
			t = c06Digits(r, r.Range(1, 24))
		case 1:
			t = c06FromAlphabet(r, "!\"#$%&'()*+,-./0123456789:;<=>?@ABCXYZ[\\]^_`abcxyz{|}~", 1, 20)
		default:
			t = c06FromAlphabet(r, "ABC", 1, 3) + c06Digits(r, 2*r.Range(1, 6)) + c06FromAlphabet(r, "xyz", 1, 3)
		}
		return t, t
	case gozxing.BarcodeFormat_ITF:
		n := r.Pick([]int{6, 8, 10, 12, 14, 16, 20, 24})
		t := c06Digits(r, n)
		return t, t
	case gozxing.BarcodeFormat_CODABAR:
		// at least two data characters: the reader rejects shorter symbols as false positives by design (MIN_CHARACTER_LENGTH)
		inner := c06FromAlphabet(r, "0123456789-$:/.+", 2, 14)
		return string("ABCD"[r.Intn(4)]) + inner + string("ABCD"[r.Intn(4)]), inner
	case gozxing.BarcodeFormat_EAN_13:
		p := c06Digits(r, 12)
		t := p + string(c06UPCCheck(p))
		return t, t
	case gozxing.BarcodeFormat_EAN_8:
		p := c06Digits(r, 7)
		t := p + string(c06UPCCheck(p))
		return t, t
	case gozxing.BarcodeFormat_UPC_A:
		p := c06Digits(r, 11)
		t := p + string(c06UPCCheck(p))
		return t, t
	case gozxing.BarcodeFormat_UPC_E:
		p := string("01"[r.Intn(2)]) + c06Digits(r, 6)
		t := p + string(c06UPCCheck(c09UPCEExpand(p)))
		return t, t
	}
	return "0", "0"
}

type c09Pose struct {
	Pad, Scale, Rot int
	Mirror          bool // QR only: transpose
	TryHarder       bool
	Height          int // 1-D bar height in modules
	Present         int // how the image is handed to the reader (zz_c09_present.go): concrete type, SubImage of a sheet, shifted origin
	Dx, Dy          int // origin of the shifted presentations
	Extra           int // 1-D: further decode hints on top of TRY_HARDER (0 none, 1 result-point callback, 2 callback + a reader-specific hint)
}

func (p c09Pose) String() string {
	return fmt.Sprintf("pad=%d scale=%d rot=%d mirror=%v tryharder=%v h=%d image=%s origin=(%d,%d) extra-hints=%d", p.Pad, p.Scale, p.Rot*90, p.Mirror, p.TryHarder, p.Height, c09PresentNames[p.Present], p.Dx, p.Dy, p.Extra)
}

// c09Render: the writer's own minimal output (its default quiet zone included), then the pose.
func c09Render(s *c09Sym, content string, p c09Pose) (*image.Gray, error) {
	h := 0
	if s.OneD {
		h = p.Height
	}
	m, err := s.Writer().Encode(content, s.Format, 0, h, nil)
	if err != nil {
		return nil, err
	}
	g := c06ImgFromMatrix(m, p.Scale, p.Pad)
	if p.Mirror {
		g = c06ImgTranspose(g)
	}
	return c06ImgRot(g, p.Rot), nil
}

func c09IsReaderErr(err error) (string, bool) {
	var nf gozxing.NotFoundException
	var ck gozxing.ChecksumException
	var fe gozxing.FormatException
	switch {
	case errors.As(err, &nf):
		return "notfound", true
	case errors.As(err, &ck):
		return "checksum", true
	case errors.As(err, &fe):
		return "format", true
	}
	return errKind(err), false
}

type c09Read struct {
	Out    string // "text" | "ERR:kind" | "PANIC" | "TIMEOUT"
	Text   string
	Orient int // -1 when absent
	Mirror bool
}

func c09Decode(s *c09Sym, g image.Image, p c09Pose) c09Read {
	res := c09Read{Orient: -1}
	out := SafeT(c06Timeout*3, func() string {
		bmp, err := gozxing.NewBinaryBitmapFromImage(g)
		if err != nil {
			return "ERR:bitmap"
		}
		var hints map[gozxing.DecodeHintType]interface{}
		if p.TryHarder {
			hints = map[gozxing.DecodeHintType]interface{}{gozxing.DecodeHintType_TRY_HARDER: true}
		}
		if p.Extra > 0 && s.OneD {
			if hints == nil {
				hints = map[gozxing.DecodeHintType]interface{}{}
			}
			hints[gozxing.DecodeHintType_NEED_RESULT_POINT_CALLBACK] = gozxing.ResultPointCallback(func(gozxing.ResultPoint) {})
			if p.Extra > 1 {
				switch s.Format {
				case gozxing.BarcodeFormat_CODABAR:
					hints[gozxing.DecodeHintType_RETURN_CODABAR_START_END] = true
				case gozxing.BarcodeFormat_ITF:
					hints[gozxing.DecodeHintType_ALLOWED_LENGTHS] = []int{2, 4, 6, 8, 10, 12, 14, 16, 18, 20, 22, 24, 26, 28, 30, 32, 34, 36, 38, 40, 42, 44}
				case gozxing.BarcodeFormat_CODE_128:
					hints[gozxing.DecodeHintType_ASSUME_GS1] = true
				case gozxing.BarcodeFormat_EAN_13, gozxing.BarcodeFormat_EAN_8, gozxing.BarcodeFormat_UPC_A, gozxing.BarcodeFormat_UPC_E:
					hints[gozxing.DecodeHintType_ALLOWED_EAN_EXTENSIONS] = []int{}
				}
			}
		}
		if s.Format == gozxing.BarcodeFormat_QR_CODE && p.Mirror {
			// the mirrored flag does not reach gozxing.Result; observe it where the reader observes it:
			// detector -> decoder, exactly the two calls QRCodeReader.Decode makes on the locating path
			bm, err := bmp.GetBlackMatrix()
			if err != nil {
				k, _ := c09IsReaderErr(err)
				return "ERR:" + k
			}
			dr, err := qrdetector.NewDetector(bm).Detect(hints)
			if err != nil {
				k, ok := c09IsReaderErr(err)
				if !ok {
					return "ERR!" + k
				}
				return "ERR:" + k
			}
			dec, err := qrdecoder.NewDecoder().Decode(dr.GetBits(), hints)
			if err != nil {
				k, ok := c09IsReaderErr(err)
				if !ok {
					return "ERR!" + k
				}
				return "ERR:" + k
			}
			res.Text = dec.GetText()
			if md, ok := dec.GetOther().(*qrdecoder.QRCodeDecoderMetaData); ok && md != nil {
				res.Mirror = md.IsMirrored()
			}
			return "text"
		}
		r, err := s.Reader().Decode(bmp, hints)
		if err != nil {
			k, ok := c09IsReaderErr(err)
			if !ok {
				return "ERR!" + k
			}
			return "ERR:" + k
		}
		if r == nil {
			return "NEITHER"
		}
		res.Text = r.GetText()
		if o, ok := r.GetResultMetadata()[gozxing.ResultMetadataType_ORIENTATION]; ok {
			if oi, ok := o.(int); ok {
				res.Orient = oi
			}
		}
		return "text"
	})
	res.Out = out
	return res
}

func c09Poses(r *Rng, s *c09Sym, n int) []c09Pose {
	var ps []c09Pose
	for i := 0; i < n; i++ {
		p := c09Pose{Rot: i % 4, Scale: r.Range(1, 6), Pad: r.Pick([]int{0, 0, 1, 3, 10, 25, 40, r.Range(0, 40)}), Height: r.Pick([]int{8, 16, 30, 50})}
		if i%8 >= 4 { // half of the poses are "clean": enough scale, quiet zone guaranteed by the padding
			p.Scale = r.Range(3, 6)
			p.Pad = r.Range(s.Quiet*p.Scale, 40+s.Quiet*p.Scale)
			if p.Pad > 60 {
				p.Pad = 60
			}
			p.Height = r.Pick([]int{16, 30, 50})
		}
		if s.OneD && i%3 == 2 {
			p.Extra = 1 + r.Intn(2)
		}
		if s.OneD {
			p.TryHarder = (i/4)%2 == 1 || p.Rot%2 == 1 && r.Chance(0.7)
		} else if s.Format == gozxing.BarcodeFormat_QR_CODE {
			p.Mirror = (i/4)%3 == 2
			p.TryHarder = r.Chance(0.3)
		} else {
			p.TryHarder = r.Chance(0.3)
		}
		if i%2 == 1 { // every other pose: another concrete image type and/or a view with a non-zero origin
			p.Present = r.Range(1, c09PresentKinds-1)
			p.Dx, p.Dy = r.Pick([]int{1, 5, 7, 32, 100}), r.Pick([]int{1, 3, 5, 32, 64})
		}
		ps = append(ps, p)
	}
	return ps
}

func c09Clean(s *c09Sym, p c09Pose) bool {
	// the writer's own output already carries a quiet zone for QR (4 modules) and 1-D (5 modules per side);
	// "clean" = scale >= 2 (3 for the matrix symbologies) and total quiet zone >= specification
	own := 0
	switch {
	case s.Format == gozxing.BarcodeFormat_QR_CODE:
		own = 4
	case s.OneD:
		own = 5
	}
	minScale := 2
	if !s.OneD {
		minScale = 3
	}
	return p.Scale >= minScale && own*p.Scale+p.Pad >= s.Quiet*p.Scale && (!s.OneD || p.Height*p.Scale >= 30)
}

func runC09(c *Ctx) {
	c.res.Rule = "oracle on the real code: 11 symbologies x contents x poses (pad 0..60 px, scale 1..6, rotation 0/90/180/270, QR transpose, 1-D with/without TRY_HARDER); " +
		"negative oracle on every pose (text == content or NotFound/Checksum/Format), positive requirements on clean poses (scale>=2 or 3, quiet zone >= spec): " +
		"upside-down 1-D reads with ORIENTATION 180, sideways 1-D reads with TRY_HARDER, mirrored QR reads and is flagged, QR/DataMatrix read at all four rotations; " +
		"model correspondence: OneDReader scan/retry logic via a scripted RowDecoder, BitMatrixParser.Mirror and RotateCounterClockwise vs the pose model, QR mirror-retry consistency. non-trivial = distinct (symbology, content, pose)"
	c09Model(c)
	nContents := c.Pick(40, 2000)
	nPoses := 24
	type job struct {
		s       *c09Sym
		content string
		want    string
	}
	var jobs []job
	// corpus first: witnesses of past findings and boundary payloads
	if b, err := os.ReadFile(filepath.Join(c18HarnessDir(), "..", "corpus", "C09", "contents.txt")); err == nil {
		for _, l := range strings.Split(string(b), "\n") {
			f := strings.Fields(l)
			if len(f) != 3 || strings.HasPrefix(l, "#") {
				continue
			}
			for si := range c09Syms {
				if c09Syms[si].Name == f[0] {
					jobs = append(jobs, job{&c09Syms[si], f[1], f[2]})
					c.Note("corpus-content")
				}
			}
		}
	}
	for si := range c09Syms {
		s := &c09Syms[si]
		for k := 0; k < nContents; k++ {
			content, want := c09Content(c.Rng, s)
			jobs = append(jobs, job{s, content, want})
		}
	}
	// read rates of the matrix symbologies on clean poses: the statement allows a NotFound/Checksum/Format outcome for any
	// single payload (locating is heuristic and payload-dependent), so single failures are not violations; a collapse of the
	// rate for a whole (symbology, rotation) cell is.
	var rateMu sync.Mutex
	rates := map[string][2]int{}
	rate := func(cell string, ok bool) {
		rateMu.Lock()
		v := rates[cell]
		v[0]++
		if ok {
			v[1]++
		}
		rates[cell] = v
		rateMu.Unlock()
	}
	defer func() {
		var cells []string
		for k := range rates {
			cells = append(cells, k)
		}
		sort.Strings(cells)
		for _, k := range cells {
			v := rates[k]
			c.NoteN("clean-read-rate:"+k+":read", v[1])
			c.NoteN("clean-read-rate:"+k+":total", v[0])
			if v[0] >= 20 {
				c.Oracle("c09-pos", v[1]*10 >= v[0]*9, "clean-read-rate-below-90-percent:"+k, fmt.Sprintf("%s: %d of %d clean poses read", k, v[1], v[0]),
					"matrix symbology no longer read at this rotation on clean images (scale>=3, quiet zone>=spec)")
			}
		}
	}()
	c.Parallel(len(jobs), 16, func(i int, r *Rng) {
		j := jobs[i]
		s := j.s
		for _, p := range c09Poses(r, s, nPoses) {
			g, err := c09Render(s, j.content, p)
			desc := fmt.Sprintf("%s content=%q %s", s.Name, j.content, p)
			if err != nil {
				c.Note("write-error:" + s.Name) // the writers' own correctness is C01-C03 / C12
				continue
			}
			var img image.Image = g
			if p.Present != 0 {
				var decoy *image.Gray
				if p.Present == 1 || p.Present == 4 || p.Present == 10 {
					// another label of the same symbology around the view
					if dc, _ := c09Content(r, s); dc != j.content {
						decoy, _ = c09Render(s, dc, p)
					}
				}
				img = c09Present(g, decoy, p.Present, p.Dx, p.Dy)
				c.Note("image-presented-as:" + c09PresentNames[p.Present])
			}
			rd := c09Decode(s, img, p)
			if p.Extra > 0 {
				// hints that may change WHAT is returned (start/stop characters, GS1 prefix ...): the statement about such a call
				// is pose invariance — whatever the upright picture reads as under these hints, the turned picture reads the same
				// or is a reader exception; a retry pass that loses or rewrites the caller's hints shows here
				p0 := p
				p0.Rot, p0.Present = 0, 0
				if g0, e0 := c09Render(s, j.content, p0); e0 == nil {
					rd0 := c09Decode(s, g0, p0)
					c.Note(fmt.Sprintf("%s:extra-hints-%d:rot%d:%s/%s", s.Name, p.Extra, p.Rot*90, rd0.Out, rd.Out))
					switch {
					case rd.Out == "text" && rd0.Out == "text":
						key := fmt.Sprintf("turned-read-differs-from-upright-read:%s:rot%d", s.Name, p.Rot*90)
						if rd0.Text == j.want {
							key = fmt.Sprintf("misread:%s:rot%d", s.Name, p.Rot*90) // the hints left the text alone: this is the plain misread
						}
						c.Oracle("c09-neg", rd.Text == rd0.Text, key, desc,
							fmt.Sprintf("same picture, same hints: upright reads %q, turned by %d degrees reads %q", rd0.Text, p.Rot*90, rd.Text))
					case rd.Out == "text" || strings.HasPrefix(rd.Out, "ERR:"):
						c.Oracle("c09-neg", true, "", desc, "")
					default:
						c.Oracle("c09-neg", false, "not-a-reader-exception:"+s.Name+":"+rd.Out, desc, "outcome "+rd.Out)
					}
					if c09Clean(s, p) && rd0.Out == "text" && (p.Rot == 2 || p.TryHarder) {
						c.Oracle("c09-pos", rd.Out == "text", fmt.Sprintf("turned-not-read-under-extra-hints:%s:rot%d", s.Name, p.Rot*90), desc,
							fmt.Sprintf("upright picture reads %q under these hints; turned by %d degrees: %s", rd0.Text, p.Rot*90, rd.Out))
					}
				}
				continue
			}
			clean := c09Clean(s, p)
			cl := "dirty"
			if clean {
				cl = "clean"
			}
			// ---- negative oracle, every pose ----
			switch {
			case rd.Out == "text" && rd.Text == j.want:
				c.Note(fmt.Sprintf("%s:%s:rot%d:read", s.Name, cl, p.Rot*90))
				c.Oracle("c09-neg", true, "", desc, "")
			case strings.HasPrefix(rd.Out, "ERR:"):
				c.Note(fmt.Sprintf("%s:%s:rot%d:%s", s.Name, cl, p.Rot*90, rd.Out))
				c.Oracle("c09-neg", true, "", desc, "")
			case rd.Out == "text":
				c.Oracle("c09-neg", false, fmt.Sprintf("misread:%s:rot%d", s.Name, p.Rot*90), desc, fmt.Sprintf("read %q, written %q (expected %q)", rd.Text, j.content, j.want))
				continue
			default:
				c.Oracle("c09-neg", false, "not-a-reader-exception:"+s.Name+":"+rd.Out, desc, "outcome "+rd.Out)
				continue
			}
			if !clean {
				continue
			}
			// ---- positive requirements, clean poses only ----
			read := rd.Out == "text"
			switch {
			case s.OneD && p.Rot == 0:
				c.Oracle("c09-pos", read && rd.Orient == -1, "upright-1d-not-read:"+s.Name, desc, fmt.Sprintf("outcome=%s orientation=%d", rd.Out, rd.Orient))
			case s.OneD && p.Rot == 2:
				c.Oracle("c09-pos", read && rd.Orient == 180, "upside-down-1d:"+s.Name, desc, fmt.Sprintf("outcome=%s orientation=%d (want read with ORIENTATION 180)", rd.Out, rd.Orient))
			case s.OneD && p.TryHarder:
				want := 270 // image turned clockwise: the reader turns it back counter-clockwise
				if p.Rot == 3 {
					want = 90
				}
				c.Oracle("c09-pos", read && rd.Orient == want, "sideways-1d-tryharder:"+s.Name, desc, fmt.Sprintf("outcome=%s orientation=%d (want read with ORIENTATION %d)", rd.Out, rd.Orient, want))
			case s.Format == gozxing.BarcodeFormat_QR_CODE && p.Mirror:
				// locating is heuristic (payload-dependent), so "read at all" is a rate (below); but a mirrored symbol that IS read must be flagged
				if read {
					c.Oracle("c09-pos", rd.Mirror, "mirrored-qr-read-but-not-flagged:"+fmt.Sprintf("rot%d", p.Rot*90), desc, fmt.Sprintf("outcome=%s mirrored-flag=%v", rd.Out, rd.Mirror))
				}
				rate(fmt.Sprintf("qr-mirrored:rot%d", p.Rot*90), read)
			case !s.OneD:
				rate(fmt.Sprintf("%s:rot%d", s.Name, p.Rot*90), read)
			}
		}
	})
}
