package main

// C09: correspondence of the modelled decision logic with the real code.
//   rotccw  : GoImageLuminanceSource.RotateCounterClockwise      vs Poses.rotCCW
//   mirror  : qrcode/decoder BitMatrixParser.Mirror               vs Poses.transpose
//   row180  : BitMatrix.GetRow + BitArray.Reverse                  vs row of Poses.rot180
//   visit   : rows handed to DecodeRow by OneDReader.doDecode      vs OneDScan.visitOrder
//   scan    : OneDReader.Decode with a scripted RowDecoder         vs OneDScan.decode
//   qrpair  : qrcode/decoder Decoder.Decode on m and on transpose m vs QRMirror.pairConsistent (theorem qr_pair_consistent)

import (
	"errors"
	"fmt"
	"image"
	"strings"

	"github.com/makiuchi-d/gozxing"
	"github.com/makiuchi-d/gozxing/oned"
	qrdecoder "github.com/makiuchi-d/gozxing/qrcode/decoder"
)

func c09Rows(get func(x, y int) bool, w, h int) string {
	var sb strings.Builder
	for y := 0; y < h; y++ {
		if y > 0 {
			sb.WriteByte('/')
		}
		for x := 0; x < w; x++ {
			if get(x, y) {
				sb.WriteByte('1')
			} else {
				sb.WriteByte('0')
			}
		}
	}
	return sb.String()
}

type c09Key struct {
	phase, row int
	rev     bool
}

type c09Outcome struct {
	kind   string // ok ok1 nf ck fm other
	text   int
	x0, x1 int
}

// c09Fake is a scripted RowDecoder: it recognises the phase by the row width and the attempt by
// which end of the row is black.
type c09Fake struct {
	w, h  int
	table map[c09Key]c09Outcome
	calls []c09Key
}

func (f *c09Fake) DecodeRow(rowNumber int, row *gozxing.BitArray, hints map[gozxing.DecodeHintType]interface{}) (*gozxing.Result, error) {
	phase := 0
	if row.GetSize() != f.w {
		phase = 1
	}
	rev := !row.Get(1) // GetBlackRow never sets the first and last pixel (3-tap sharpening), so look one pixel in
	k := c09Key{phase, rowNumber, rev}
	f.calls = append(f.calls, k)
	o, ok := f.table[k]
	if !ok {
		return nil, gozxing.NewNotFoundException()
	}
	switch o.kind {
	case "ok":
		return gozxing.NewResult(fmt.Sprint(o.text), nil, []gozxing.ResultPoint{
			gozxing.NewResultPoint(float64(o.x0), float64(rowNumber)), gozxing.NewResultPoint(float64(o.x1), float64(rowNumber))}, gozxing.BarcodeFormat_CODE_39), nil
	case "ok1":
		return gozxing.NewResult(fmt.Sprint(o.text), nil, []gozxing.ResultPoint{
			gozxing.NewResultPoint(float64(o.x0), float64(rowNumber))}, gozxing.BarcodeFormat_CODE_39), nil
	case "ck":
		return nil, gozxing.NewChecksumException()
	case "fm":
		return nil, gozxing.NewFormatException()
	case "other":
		return nil, errors.New("IllegalArgumentException: scripted")
	}
	return nil, gozxing.NewNotFoundException()
}

// c09ScanImage: black where x < w/3 or y < h/3 (every other row/column has a black left end and a white right end,
// upright as well as after the counter-clockwise turn); rows listed in `blank` are made uniformly black (GetBlackRow
// reports NotFound on a row without contrast at the dark end; a uniformly white row is accepted as all white).
func c09ScanImage(w, h int, blank map[int]bool) *image.Gray {
	g := c06NewGray(w, h, 255)
	for y := 0; y < h; y++ {
		for x := 0; x < w; x++ {
			if x < w/3 || y < h/3 || blank[y] {
				g.Pix[y*g.Stride+x] = 0
			}
		}
	}
	return g
}

func c09BlackBits(bmp *gozxing.BinaryBitmap) string {
	var sb strings.Builder
	for y := 0; y < bmp.GetHeight(); y++ {
		if _, err := bmp.GetBlackRow(y, gozxing.NewBitArray(bmp.GetWidth())); err != nil {
			sb.WriteByte('0')
		} else {
			sb.WriteByte('1')
		}
	}
	return sb.String()
}

func c09EncTable(t map[c09Key]c09Outcome, phase int) string {
	var parts []string
	for k, o := range t {
		if k.phase != phase {
			continue
		}
		rv := "0"
		if k.rev {
			rv = "1"
		}
		switch o.kind {
		case "ok":
			parts = append(parts, fmt.Sprintf("%d.%s.ok.%d.%d.%d", k.row, rv, o.text, o.x0, o.x1))
		case "ok1":
			parts = append(parts, fmt.Sprintf("%d.%s.ok1.%d.%d", k.row, rv, o.text, o.x0))
		default:
			parts = append(parts, fmt.Sprintf("%d.%s.%s", k.row, rv, o.kind))
		}
	}
	if len(parts) == 0 {
		return "-"
	}
	// deterministic order
	for i := range parts {
		for j := i + 1; j < len(parts); j++ {
			if parts[j] < parts[i] {
				parts[i], parts[j] = parts[j], parts[i]
			}
		}
	}
	return strings.Join(parts, ",")
}

func c09ShowResult(res *gozxing.Result, err error) string {
	if err != nil {
		return "ERR:" + errKind(err)
	}
	if res == nil {
		return "NEITHER"
	}
	o := "none"
	if v, ok := res.GetResultMetadata()[gozxing.ResultMetadataType_ORIENTATION]; ok {
		o = fmt.Sprint(v)
	}
	var pts []string
	for _, p := range res.GetResultPoints() {
		pts = append(pts, fmt.Sprintf("%.0f,%.0f", p.GetX(), p.GetY()))
	}
	return fmt.Sprintf("ok text=%s orient=%s pts=%s", res.GetText(), o, strings.Join(pts, ";"))
}

func c09QROut(dec *qrdecoder.Decoder, m *gozxing.BitMatrix) string {
	return Safe(func() string {
		r, err := dec.Decode(c06CloneMatrix(m), nil)
		if err != nil {
			return "E:" + errKind(err)
		}
		if r == nil {
			return "NEITHER"
		}
		mir := false
		if md, ok := r.GetOther().(*qrdecoder.QRCodeDecoderMetaData); ok && md != nil {
			mir = md.IsMirrored()
		}
		if mir {
			return "M:" + hexs([]byte(r.GetText()))
		}
		return "D:" + hexs([]byte(r.GetText()))
	})
}

func c09Model(c *Ctx) {
	r := c.Rng
	// ---- pose transforms on the real code ----
	for i := 0; i < c.Pick(300, 5000); i++ {
		w, h := r.Range(1, 40), r.Range(1, 40)
		g := c06NewGray(w, h, 255)
		for j := range g.Pix {
			if r.Bool() {
				g.Pix[j] = 0
			}
		}
		rows := c09Rows(func(x, y int) bool { return g.Pix[y*g.Stride+x] == 0 }, w, h)
		goOut := Safe(func() string {
			src, err := gozxing.NewLuminanceSourceFromImage(g).RotateCounterClockwise()
			if err != nil {
				return "ERR:" + errKind(err)
			}
			mtx := src.GetMatrix()
			nw, nh := src.GetWidth(), src.GetHeight()
			return fmt.Sprintf("%dx%d:%s", nw, nh, c09Rows(func(x, y int) bool { return mtx[y*nw+x] < 128 }, nw, nh))
		})
		c.Cmp("rotccw", fmt.Sprintf("c09 rotccw %d %d %s", w, h, rows), goOut)
		// the harness's own transforms (used to build the poses) against the model
		rg := c06ImgRot90(g)
		c.Cmp("rot90-harness", fmt.Sprintf("c09 rot90 %d %d %s", w, h, rows),
			fmt.Sprintf("%dx%d:%s", h, w, c09Rows(func(x, y int) bool { return rg.Pix[y*rg.Stride+x] == 0 }, h, w)))
		if w <= 12 && h <= 12 {
			m, _ := gozxing.NewBitMatrix(w, h)
			for y := 0; y < h; y++ {
				for x := 0; x < w; x++ {
					if g.Pix[y*g.Stride+x] == 0 {
						m.Set(x, y)
					}
				}
			}
			k, p := r.Range(1, 4), r.Range(0, 5)
			sg := c06ImgFromMatrix(m, k, p)
			sw, sh := sg.Rect.Dx(), sg.Rect.Dy()
			c.Cmp("scalepad-harness", fmt.Sprintf("c09 scalepad %d %d %s %d %d", w, h, rows, k, p),
				fmt.Sprintf("%dx%d:%s", sw, sh, c09Rows(func(x, y int) bool { return sg.Pix[y*sg.Stride+x] == 0 }, sw, sh)))
		}
		// reversed row of the upright matrix = row of the upside-down image
		m, _ := gozxing.NewBitMatrix(w, h)
		for y := 0; y < h; y++ {
			for x := 0; x < w; x++ {
				if g.Pix[y*g.Stride+x] == 0 {
					m.Set(x, y)
				}
			}
		}
		y := r.Intn(h)
		goRow := Safe(func() string {
			row := m.GetRow(h-1-y, gozxing.NewBitArray(w))
			row.Reverse()
			bs := make([]bool, w)
			for x := range bs {
				bs[x] = row.Get(x)
			}
			return bitsStr(bs)
		})
		c.Cmp("row180", fmt.Sprintf("c09 row180 %d %d %s %d", w, h, rows, y), goRow)
	}
	for i := 0; i < c.Pick(150, 3000); i++ {
		d := 17 + 4*r.Range(1, 8)
		m := c06RandomMatrix(r, d, d)
		rows := c09Rows(m.Get, d, d)
		goOut := Safe(func() string {
			mm := c06CloneMatrix(m)
			p, err := qrdecoder.NewBitMatrixParser(mm)
			if err != nil {
				return "ERR:" + errKind(err)
			}
			p.Mirror()
			return fmt.Sprintf("%dx%d:%s", mm.GetWidth(), mm.GetHeight(), c09Rows(mm.Get, d, d))
		})
		c.Cmp("mirror", fmt.Sprintf("c09 mirror %d %d %s", d, d, rows), goOut)
	}
	// ---- OneDReader scan order ----
	heights := []int{1, 2, 3, 4, 5, 14, 15, 16, 29, 30, 31, 32, 33, 63, 64, 65, 96, 127, 128, 200, 255, 256, 257, 511, 512, 513, 700}
	for _, h := range heights {
		for _, th := range []bool{false, true} {
			w := 9
			g := c09ScanImage(w, h, nil)
			// all rows usable: use a plain left-black image instead of the L shape
			for y := 0; y < h; y++ {
				for x := 0; x < w; x++ {
					if x < 3 {
						g.Pix[y*g.Stride+x] = 0
					} else {
						g.Pix[y*g.Stride+x] = 255
					}
				}
			}
			bmp, _ := gozxing.NewBinaryBitmapFromImage(g)
			fake := &c09Fake{w: w, h: h, table: map[c09Key]c09Outcome{}}
			var hints map[gozxing.DecodeHintType]interface{}
			ths := "0"
			if th {
				// forbid the rotation phase from polluting the trace: it is recorded with phase 1 and filtered
				hints = map[gozxing.DecodeHintType]interface{}{gozxing.DecodeHintType_TRY_HARDER: true}
				ths = "1"
			}
			goOut := Safe(func() string {
				oned.NewOneDReader(fake).Decode(bmp, hints)
				var rows []int
				for _, k := range fake.calls {
					if k.phase == 0 && !k.rev {
						rows = append(rows, k.row)
					}
				}
				return ints(rows)
			})
			c.Cmp("visit", fmt.Sprintf("c09 visit %d %s", h, ths), goOut)
		}
	}
	// ---- scripted scans ----
	for i := 0; i < c.Pick(1500, 40000); i++ {
		w := r.Range(6, 40)
		h := r.Pick([]int{6, 7, 8, 16, 31, 40, 64, 65, 100, r.Range(6, 140)}) // >= 6: the turned image needs a black pixel at x=1 (small heights are covered by `visit`)
		if w == h {
			w++
		}
		th := r.Bool()
		blank := map[int]bool{}
		for k := r.Pick([]int{0, 0, 1, 3}); k > 0; k-- {
			if y := r.Intn(h); y > 1 && y < h-2 { // row 0 becomes column 0 of the turned image, which the scripted decoder uses to tell the attempt
				blank[y] = true
			}
		}
		if r.Chance(0.3) && h/2 > 1 && h/2 < h-2 {
			blank[h/2] = true
		}
		g := c09ScanImage(w, h, blank)
		bmp, err := gozxing.NewBinaryBitmapFromImage(g)
		if err != nil {
			continue
		}
		black := c09BlackBits(bmp)
		black2 := "-"
		if rb, err := bmp.RotateCounterClockwise(); err == nil {
			black2 = c09BlackBits(rb)
		}
		table := map[c09Key]c09Outcome{}
		pickRow := func(height int, harder bool) int {
			step := height >> 5
			if harder {
				step = height >> 8
			}
			if step < 1 {
				step = 1
			}
			k := r.Intn(8)
			rn := height/2 + step*((k+1)/2)*(1-2*(k%2))
			if rn < 0 || rn >= height || r.Chance(0.1) {
				rn = r.Intn(height)
			}
			return rn
		}
		for k := r.Pick([]int{0, 1, 1, 2, 3, 5}); k > 0; k-- {
			phase := 0
			hh, ww := h, w
			if r.Chance(0.4) {
				phase, hh, ww = 1, w, h
			}
			key := c09Key{phase, pickRow(hh, th), r.Bool()}
			kind := r.PickS([]string{"ok", "ok", "ok", "ok1", "ck", "fm", "other", "nf"})
			table[key] = c09Outcome{kind: kind, text: r.Intn(1000), x0: r.Intn(ww), x1: r.Intn(ww)}
		}
		fake := &c09Fake{w: w, h: h, table: table}
		var hints map[gozxing.DecodeHintType]interface{}
		ths := "0"
		if th {
			hints = map[gozxing.DecodeHintType]interface{}{gozxing.DecodeHintType_TRY_HARDER: true}
			ths = "1"
		}
		goOut := Safe(func() string { return c09ShowResult(oned.NewOneDReader(fake).Decode(bmp, hints)) })
		c.Cmp("scan", fmt.Sprintf("c09 scan %d %d %s 1 %s %s %s %s", w, h, ths, black, black2, c09EncTable(table, 0), c09EncTable(table, 1)), goOut)
		if strings.HasPrefix(goOut, "ok") {
			c.Note("scan:" + strings.Split(strings.Split(goOut, "orient=")[1], " ")[0])
		} else {
			c.Note("scan:" + goOut)
		}
	}
	// ---- QR mirrored retry: Decode(m) and Decode(transpose m) on the real decoder ----
	dec := qrdecoder.NewDecoder()
	for i := 0; i < c.Pick(400, 8000); i++ {
		var m *gozxing.BitMatrix
		kind := "valid"
		switch r.Intn(5) {
		case 0:
			d := 17 + 4*r.Range(1, 6)
			m = c06RandomMatrix(r, d, d)
			kind = "random"
		default:
			m = c06QRSymbol(r, c06Text(r))
			if m == nil {
				continue
			}
			if r.Chance(0.4) {
				c06Mutate(r, m, r.Pick([]int{1, 3, 10, 60, 300}))
				kind = "mutated"
			}
		}
		a := c09QROut(dec, m)
		b := c09QROut(dec, c06Transpose(m))
		c.Note("qrpair:" + kind + ":" + a[:1] + b[:1])
		c.Cmp("qrpair", fmt.Sprintf("c09 qrpair %s %s", a, b), "consistent")
		// the clause itself on the real decoder ("forall QR c: decode(transpose(matrix)) == c with mirrored flag"):
		// an intact symbol reads directly, unflagged, and its transpose reads with the same text, flagged
		if kind == "valid" {
			c.Oracle("c09-qr-matrix", a[:2] == "D:" && b == "M:"+a[2:], "mirrored-qr-matrix-not-read-or-not-flagged",
				fmt.Sprintf("qr matrix %dx%d#%x", m.GetWidth(), m.GetHeight(), c06MatrixHash(m)), "direct="+a+" transposed="+b)
		} else if a[:2] == "D:" {
			c.Oracle("c09-qr-matrix", b == "M:"+a[2:] || b[:2] == "D:", "mirrored-qr-matrix-inconsistent",
				fmt.Sprintf("qr matrix %dx%d#%x", m.GetWidth(), m.GetHeight(), c06MatrixHash(m)), "direct="+a+" transposed="+b)
		}
	}
}
