package main

// C10 — check digits and checksums are computed, demanded and enforced.
//
//  (i)  correspondence: every check-digit function of /repo/oned vs the Lean model
//       (Gzx.CheckDigit), through exported API where it exists, through the writers/readers where
//       the function is only observable there, and through oned/zz_verifhooks.go for the
//       unexported arithmetic kernels;
//  (ii) oracle = fault enumeration on the REAL readers: symbols are drawn by an independent encoder
//       (c10_tables.go, tables of the standards) so that symbols with wrong check digits exist;
//       every single-digit / single-character substitution must be an error, add-ons are accepted
//       iff their parity matches, writers accept exactly one of the ten check digits.

import (
	"fmt"
	"strings"
	"sync/atomic"

	"github.com/makiuchi-d/gozxing"
	"github.com/makiuchi-d/gozxing/oned"
)

func init() { suites["C10"] = runC10 }

type c10Hints = map[gozxing.DecodeHintType]interface{}

func c10RD(r gozxing.Reader) oned.RowDecoder { return r.(oned.RowDecoder) }

// result of a row read: "ok FORMAT hextext" | "ERR:kind" | "PANIC"
func c10ReadRow(rd oned.RowDecoder, row *gozxing.BitArray, hints c10Hints) (string, *gozxing.Result) {
	var res *gozxing.Result
	out := Safe(func() string {
		r, e := rd.DecodeRow(0, row, hints)
		if e != nil {
			return "ERR:" + errKind(e)
		}
		res = r
		return "ok " + r.GetBarcodeFormat().String() + " " + hexs([]byte(r.GetText()))
	})
	return out, res
}

// full image path: modules -> BitMatrix image (scale, height) -> BinaryBitmap -> Reader.Decode
func c10ReadImage(rd gozxing.Reader, mods []bool, scale, left, right, height int, hints c10Hints) (string, *gozxing.Result) {
	var res *gozxing.Result
	out := Safe(func() string {
		w := left + len(mods)*scale + right
		bm, e := gozxing.NewBitMatrix(w, height)
		if e != nil {
			return "ERR:harness"
		}
		for i, m := range mods {
			if m {
				bm.SetRegion(left+i*scale, 0, scale, height)
			}
		}
		bmp, e := gozxing.NewBinaryBitmapFromImage(bm)
		if e != nil {
			return "ERR:harness"
		}
		r, e := rd.Decode(bmp, hints)
		if e != nil {
			return "ERR:" + errKind(e)
		}
		res = r
		return "ok " + r.GetBarcodeFormat().String() + " " + hexs([]byte(r.GetText()))
	})
	return out, res
}

func c10Ext(res *gozxing.Result) string {
	if res == nil {
		return ""
	}
	if v, ok := res.GetResultMetadata()[gozxing.ResultMetadataType_UPC_EAN_EXTENSION]; ok {
		return fmt.Sprint(v)
	}
	return ""
}

// writer -> module pattern (margin 0, width 0, height 1); "" + error kind on rejection
func c10Write(w gozxing.Writer, f gozxing.BarcodeFormat, contents string, hints map[gozxing.EncodeHintType]interface{}) ([]bool, string) {
	var mods []bool
	out := Safe(func() string {
		h := map[gozxing.EncodeHintType]interface{}{gozxing.EncodeHintType_MARGIN: 0}
		for k, v := range hints {
			h[k] = v
		}
		bm, e := w.Encode(contents, f, 0, 1, h)
		if e != nil {
			return "ERR:" + errKind(e)
		}
		mods = make([]bool, bm.GetWidth())
		for x := range mods {
			mods[x] = bm.Get(x, 0)
		}
		return "ok"
	})
	return mods, out
}

type c10Kind struct {
	name   string
	format gozxing.BarcodeFormat
	full   int // digits including the check digit as the writer counts them
	writer func() gozxing.Writer
	reader func() gozxing.Reader
}

var c10Kinds = []c10Kind{
	{"ean13", gozxing.BarcodeFormat_EAN_13, 13, oned.NewEAN13Writer, oned.NewEAN13Reader},
	{"ean8", gozxing.BarcodeFormat_EAN_8, 8, oned.NewEAN8Writer, oned.NewEAN8Reader},
	{"upca", gozxing.BarcodeFormat_UPC_A, 12, oned.NewUPCAWriter, oned.NewUPCAReader},
	{"upce", gozxing.BarcodeFormat_UPC_E, 8, oned.NewUPCEWriter, oned.NewUPCEReader},
}

// the standard's check digit of a body (UPC-E: on the expansion), independent of /repo
func c10StdCheck(kind string, body []int) int {
	if kind == "upce" {
		return c10Mod10(c10Expand(body[0], body[1:7]))
	}
	return c10Mod10(body)
}

// draw the symbol that carries the full digit string (no validation)
func c10Draw(kind string, full []int) []bool {
	switch kind {
	case "ean13":
		return c10DrawEAN13(full)
	case "upca":
		return c10DrawEAN13(append([]int{0}, full...))
	case "ean8":
		return c10DrawEAN8(full)
	default:
		return c10DrawUPCE(full)
	}
}

func c10RandDigits(r *Rng, n int) []int {
	ds := make([]int, n)
	for i := range ds {
		ds[i] = r.Intn(10)
	}
	return ds
}

// body of a random number of the kind (UPC-E: number system 0/1, mixture of all four suppression classes)
func c10RandBody(r *Rng, k c10Kind) []int {
	b := c10RandDigits(r, k.full-1)
	if k.name == "upce" {
		b[0] = r.Intn(2)
		if r.Chance(0.6) {
			b[6] = r.Intn(5) // last digit 0..4 selects the three special expansion rules
		}
	}
	if r.Chance(0.05) {
		for i := range b {
			if k.name != "upce" || i > 0 {
				b[i] = 9 * r.Intn(2)
			}
		}
	}
	return b
}

func c10GFlags(gs []bool) string {
	if len(gs) == 0 {
		return "-"
	}
	return bitsStr(gs)
}

// symbol-level model op of a drawn symbol
func c10SymbolOp(kind string, full []int) string {
	switch kind {
	case "ean13", "upca":
		f, op := full, "ean13read"
		if kind == "upca" {
			f, op = append([]int{0}, full...), "upcaread"
		}
		par := c10EAN13Parity[f[0]]
		gs := make([]bool, 6)
		for i := range gs {
			gs[i] = par[i] == 'G'
		}
		return fmt.Sprintf("c10 %s %s %s %s", op, c10DigStr(f[1:7]), c10GFlags(gs), c10DigStr(f[7:13]))
	case "ean8":
		return "c10 ean8read " + c10DigStr(full)
	default:
		par := c10UPCEParity0[full[7]]
		gs := make([]bool, 6)
		for i := range gs {
			gs[i] = (par[i] == 'E') != (full[0] == 1)
		}
		return fmt.Sprintf("c10 upceread %s %s", c10DigStr(full[1:7]), c10GFlags(gs))
	}
}

func runC10(c *Ctx) {
	c.res.Rule = "arithmetic: digit strings of length 0..20 (+ very long, + non-digit bytes), all four UPC-E expansion classes, every suppression rule; " +
		"writers: bodies x all 10 supplied check digits + malformed stream; fault enumeration: valid numbers x all 9*len single-digit substitutions drawn by an independent encoder " +
		"(scale 1-3, quiet zones >= 9 modules, row level and image level), Code 128 / Code 93 symbols x all positions x 5 replacement characters, all 100 EAN-2 x 4 parities, EAN-5 x 32 parities; " +
		"non-trivial = distinct op/oracle input; oracle = the standards' formulas and 'a substituted symbol is never read'"
	c10Tables(c)
	c10Arithmetic(c)
	c10Writers(c)
	c10ReversedRowWitness(c)
	c10FaultsUPCEAN(c)
	c10FaultsCode128(c)
	c10FaultsCode93(c)
	c10AddOns(c)
	if c.Thorough {
		c10Exhaustive(c)
	}
}

// ---------- tables: harness copy == Lean Ref copy; run-time L_AND_G table == model ----------

func c10Tables(c *Ctx) {
	par := func(tbl []string, one byte) string {
		xs := make([]int, len(tbl))
		for i, s := range tbl {
			for j := 0; j < len(s); j++ {
				xs[i] = xs[i] * 2
				if s[j] == one {
					xs[i]++
				}
			}
		}
		return ints(xs)
	}
	c.Cmp("tables", "c10 tbl ean13parity", par(c10EAN13Parity, 'G'))
	c.Cmp("tables", "c10 tbl upceparity", par(c10UPCEParity0, 'E')+";"+par(c10UPCEParity0, 'O'))
	c.Cmp("tables", "c10 tbl ean5parity", par(c10EAN5Parity, 'G'))
	c.Cmp("tables", "c10 tbl seta", strings.Join(c10SetA, ","))
	// table built by init() at run time
	var rows []string
	for _, p := range oned.UPCEANReader_L_AND_G_PATTERNS {
		rows = append(rows, ints(p))
	}
	c.Cmp("tables", "c10 lg", strings.Join(rows, ";"))
	// oracle: the run-time table is the standard's sets A and B as run widths
	ok := len(oned.UPCEANReader_L_AND_G_PATTERNS) == 20
	for d := 0; ok && d < 10; d++ {
		ok = c10RunWidths(c10Bits(c10Complement(c10SetA[d]))) == strings.ReplaceAll(ints(oned.UPCEANReader_L_AND_G_PATTERNS[d]), ",", "") &&
			c10RunWidths(c10Bits(c10Complement(c10SetB(d)))) == strings.ReplaceAll(ints(oned.UPCEANReader_L_AND_G_PATTERNS[10+d]), ",", "")
	}
	c.Oracle("tables", ok, "lg-table", "UPCEANReader_L_AND_G_PATTERNS", strings.Join(rows, ";"))
}

// ---------- arithmetic kernels ----------

func c10Arithmetic(c *Ctx) {
	r := c.Rng
	n := c.Pick(4000, 200000)
	for it := 0; it < n; it++ {
		// --- getStandardUPCEANChecksum / checkStandardUPCEANChecksum ---
		var l int
		switch {
		case it < 40:
			l = it % 20
		case r.Chance(0.02):
			l = r.Range(300, 420) // sum exceeds 1000: Go's % turns negative
		default:
			l = r.Intn(21)
		}
		ds := c10RandDigits(r, l)
		if l > 100 && r.Bool() {
			for i := range ds {
				ds[i] = 9
			}
		}
		s := []byte(c10DigStr(ds))
		bad := false
		if l > 0 && r.Chance(0.1) {
			s[r.Intn(l)] = byte(r.Pick([]int{'/', ':', 'a', ' ', 0, 255, 0x80, '0' - 1}))
			bad = true
		}
		goOut := Safe(func() string {
			v, e := oned.VerifGetStandardUPCEANChecksum(string(s))
			if e != nil {
				return "ERR:" + errKind(e)
			}
			return fmt.Sprintf("ok %d", v)
		})
		c.Cmp("eansum", "c10 eansum "+hexs(s), goOut)
		if !bad && l <= 100 {
			c.Oracle("eansum", goOut == fmt.Sprintf("ok %d", c10Mod10(ds)), "ean-formula", string(s), "go="+goOut)
			c.Note("eansum:len<=100")
		} else if bad {
			c.Oracle("eansum", goOut == "ERR:format", "ean-nondigit", hexs(s), "go="+goOut)
			c.Note("eansum:nondigit")
		} else {
			c.Note("eansum:long")
		}
		goOut = Safe(func() string {
			v, e := oned.VerifCheckStandardUPCEANChecksum(string(s))
			if e != nil {
				return "ERR:" + errKind(e)
			}
			return fmt.Sprint(v)
		})
		c.Cmp("eancheck", "c10 eancheck "+hexs(s), goOut)
		if !bad && l >= 1 && l <= 100 {
			c.Oracle("eancheck", goOut == fmt.Sprint(c10Mod10(ds[:l-1]) == ds[l-1]), "ean-check", string(s), "go="+goOut)
		}
		// --- convertUPCEtoUPCA ---
		el := 8
		switch r.Intn(10) {
		case 0:
			el = 7
		case 1:
			el = r.Intn(12)
		}
		e := c10RandDigits(r, el)
		if el >= 7 && r.Chance(0.7) {
			e[6] = r.Intn(6)
		}
		es := []byte(c10DigStr(e))
		if el > 0 && r.Chance(0.05) {
			es[r.Intn(el)] = byte(r.Intn(256))
		}
		goOut = Safe(func() string { return hexs([]byte(oned.VerifConvertUPCEtoUPCA(string(es)))) })
		c.Cmp("expand", "c10 expand "+hexs(es), goOut)
		if el >= 7 && string(es) == c10DigStr(e) {
			want := c10DigStr(c10Expand(e[0], e[1:7])) + c10DigStr(e[7:c10Min(el, 8)])
			c.Oracle("expand", goOut == hexs([]byte(want)), "upce-expand", string(es), "go="+goOut+" want="+hexs([]byte(want)))
			c.Note(fmt.Sprintf("expand:last=%d", e[6]))
		}
		// --- zero suppression: expand(suppress(a)) == a for every suppressible UPC-A number ---
		a := c10RandDigits(r, 11)
		switch r.Intn(6) {
		case 0: // rule 1
			a[3] = r.Intn(3)
			a[4], a[5], a[6], a[7] = 0, 0, 0, 0
		case 1: // rule 2
			a[4], a[5], a[6], a[7], a[8] = 0, 0, 0, 0, 0
		case 2: // rule 3
			a[5], a[6], a[7], a[8], a[9] = 0, 0, 0, 0, 0
		case 3: // rule 4
			a[6], a[7], a[8], a[9] = 0, 0, 0, 0
			a[10] = r.Range(5, 9)
		case 4: // sparse random
			for i := 1; i < 11; i++ {
				if r.Chance(0.6) {
					a[i] = 0
				}
			}
		}
		sup := c10Suppress(a)
		as := c10DigStr(a)
		chk := ""
		if r.Bool() {
			chk = string(byte('0' + r.Intn(10)))
		}
		want := "none"
		if sup != nil {
			want = hexs([]byte(c10DigStr(sup) + chk))
		}
		c.Cmp("suppress", "c10 suppress "+hexs([]byte(as+chk)), want)
		if sup != nil {
			back := Safe(func() string { return oned.VerifConvertUPCEtoUPCA(c10DigStr(sup) + chk) })
			c.Oracle("suppress", back == as+chk, "expand-suppress-inv", as+chk, "suppress="+c10DigStr(sup)+" expand="+back)
			c.Note(fmt.Sprintf("suppress:rule-last=%d", sup[6]))
		} else {
			c.Note("suppress:none")
		}
		// --- EAN-5 checksum kernel ---
		x := c10RandDigits(r, 5)
		goOut = Safe(func() string { return fmt.Sprint(oned.VerifExtension5Checksum(c10DigStr(x))) })
		c.Cmp("ext5sum", "c10 ext5sum "+c10DigStr(x), goOut)
		c.Oracle("ext5sum", goOut == fmt.Sprint(c10EAN5Check(x)), "ean5-formula", c10DigStr(x), "go="+goOut)
		// --- Code 93 checksum kernel on arbitrary alphabet strings ---
		vl := r.Intn(50)
		vals := make([]int, vl)
		bs := make([]byte, vl)
		for i := range vals {
			vals[i] = r.Intn(47)
			bs[i] = c10Code93Alphabet[vals[i]]
		}
		mw := r.Pick([]int{20, 15, 20, 15, 1, 2, 46})
		goOut = Safe(func() string { return fmt.Sprint(oned.VerifCode93ComputeChecksumIndex(string(bs), mw)) })
		c.Cmp("c93idx", fmt.Sprintf("c10 c93idx %s %d", ints(vals), mw), goOut)
		c.Oracle("c93idx", goOut == fmt.Sprint(c10Code93Check(vals, mw)), "code93-formula", fmt.Sprintf("%s maxw=%d", ints(vals), mw), "go="+goOut)
		// --- Code 93 reader-side check on arbitrary character lists ---
		if vl >= 1 {
			full := append([]int(nil), vals...)
			switch r.Intn(3) {
			case 0: // correct C and K
				cc := c10Code93Check(full, 20)
				full = append(full, cc)
				full = append(full, c10Code93Check(full, 15))
			case 1: // correct C, random K
				full = append(full, c10Code93Check(full, 20), r.Intn(47))
			}
			fb := make([]byte, len(full))
			for i, v := range full {
				fb[i] = c10Code93Alphabet[v]
			}
			goOut = Safe(func() string {
				e := oned.VerifCode93CheckChecksums(fb)
				if e == nil {
					return "true"
				}
				if errKind(e) == "checksum" {
					return "false"
				}
				return "ERR:" + errKind(e)
			})
			c.Cmp("c93acc", "c10 c93acc "+ints(full), goOut)
			c.Note("c93acc:" + goOut)
		}
	}
}

// AIM USS-93: weights 1..maxW cycling from the right, modulo 47
func c10Code93Check(vals []int, maxW int) int {
	t, w := 0, 1
	for i := len(vals) - 1; i >= 0; i-- {
		t += vals[i] * w
		w++
		if w > maxW {
			w = 1
		}
	}
	return t % 47
}

// ISO/IEC 15417: (start + Σ i·c_i) mod 103
func c10Code128Check(codes []int) int {
	t := codes[0]
	for i := 1; i < len(codes); i++ {
		t += i * codes[i]
	}
	return t % 103
}

// ---------- writers: compute / refuse ----------

func c10Writers(c *Ctx) {
	r := c.Rng
	n := c.Pick(500, 20000)
	for _, k := range c10Kinds {
		w := k.writer()
		for it := 0; it < n; it++ {
			body := c10RandBody(r, k)
			exp := c10StdCheck(k.name, body)
			bs := c10DigStr(body)
			// without check digit: the drawn symbol carries the standard's check digit
			mods, out := c10Write(w, k.format, bs, nil)
			got := "ERR"
			if out == "ok" {
				got = c10ReadModules(k.name, mods)
			}
			wantFull := bs + string(byte('0'+exp))
			if k.name == "upca" {
				wantFull = "0" + wantFull
			}
			goOut := out
			if out == "ok" {
				goOut = "ok " + hexs([]byte(got))
			}
			c.Cmp("writer", fmt.Sprintf("c10 wr %s %s", k.name, hexs([]byte(bs))), goOut)
			key := k.name + "-computed-check"
			if k.name == "upce" {
				key = "upce-7digit-check"
			}
			c.Oracle("writer", got == wantFull, key, k.name+" "+bs,
				fmt.Sprintf("writer drew %q, the standard's check digit gives %q", got, wantFull))
			// all ten supplied check digits: exactly the standard's one is accepted
			accepted := 0
			for d := 0; d < 10; d++ {
				cs := bs + string(byte('0'+d))
				mods, out := c10Write(w, k.format, cs, nil)
				goOut := out
				if out == "ok" {
					accepted++
					goOut = "ok " + hexs([]byte(c10ReadModules(k.name, mods)))
				}
				c.Cmp("writer", fmt.Sprintf("c10 wr %s %s", k.name, hexs([]byte(cs))), goOut)
				okd := (out == "ok") == (d == exp) && (out == "ok" || out == "ERR:writer")
				c.Oracle("writer", okd, k.name+"-supplied-check", k.name+" "+cs,
					fmt.Sprintf("supplied check digit %d, standard %d, writer: %s", d, exp, out))
			}
			c.Note(fmt.Sprintf("writer:%s:accepted=%d", k.name, accepted))
		}
		// malformed stream: wrong length, non-digits, UPC-E number system 2..9
		for it := 0; it < n/2; it++ {
			var s []byte
			why := ""
			switch r.Intn(4) {
			case 0:
				l := r.Intn(16)
				for l == k.full || l == k.full-1 {
					l = r.Intn(16)
				}
				s = []byte(c10DigStr(c10RandDigits(r, l)))
				why = "length"
			case 1, 2:
				body := c10RandBody(r, k)
				full := append(body, c10StdCheck(k.name, body))
				if r.Bool() {
					full = body
				}
				s = []byte(c10DigStr(full))
				s[r.Intn(len(s))] = byte(r.Pick([]int{'a', ' ', '/', ':', 'O', 0x80, 255, '-', '+'}))
				why = "nondigit"
			default:
				if k.name != "upce" {
					continue
				}
				body := c10RandBody(r, k)
				body[0] = r.Range(2, 9)
				full := append(body, c10StdCheck(k.name, body))
				if r.Bool() {
					full = body
				}
				s = []byte(c10DigStr(full))
				why = "numsys"
			}
			if len(s) == 0 {
				continue // empty contents are refused by OneDimensionalCodeWriter.Encode before the encoder (C03/C12)
			}
			_, out := c10Write(w, k.format, string(s), nil)
			c.Cmp("writer", fmt.Sprintf("c10 wr %s %s", k.name, hexs(s)), out)
			c.Oracle("writer", out == "ERR:writer", k.name+"-rejects-"+why, k.name+" "+hexs(s), "writer: "+out)
			c.Note("writer:malformed:" + why)
		}
	}
}

// ---------- fault enumeration on the UPC/EAN readers ----------

type c10Geom struct{ scale, left, right int }

func c10RandGeom(r *Rng) c10Geom {
	s := r.Range(1, 3)
	return c10Geom{s, 9*s + r.Intn(12), 9*s + r.Intn(12) + 1}
}

func c10FaultsUPCEAN(c *Ctx) {
	n := c.Pick(250, 6000)
	multiHints := func(f gozxing.BarcodeFormat) c10Hints {
		return c10Hints{gozxing.DecodeHintType_POSSIBLE_FORMATS: []gozxing.BarcodeFormat{f}}
	}
	for _, k := range c10Kinds {
		k := k
		c.Parallel(n, 16, func(it int, r *Rng) {
			rd := c10RD(k.reader())
			multi := c10RD(oned.NewMultiFormatUPCEANReader(nil))
			mh := multiHints(k.format)
			multiF := c10RD(oned.NewMultiFormatUPCEANReader(mh))
			body := c10RandBody(r, k)
			full := append(body, c10StdCheck(k.name, body))
			text := c10DigStr(full)
			// positive control: the clean symbol is read as the number
			g := c10RandGeom(r)
			if k.name == "upce" {
				g.right += 3 * g.scale
			}
			row := c10Row(c10Draw(k.name, full), g.scale, g.left, g.right)
			out, _ := c10ReadRow(rd, row, nil)
			want := "ok " + k.format.String() + " " + hexs([]byte(text))
			c.Oracle("clean", out == want, k.name+"-clean-read", k.name+" "+text, "reader: "+out)
			c.Cmp("symread", c10SymbolOp(k.name, full), c10StripFormat(out))
			outM, _ := c10ReadRow(multiF, row, mh)
			c.Oracle("clean", outM == want, k.name+"-clean-read-multi", k.name+" "+text, "multi-format reader (POSSIBLE_FORMATS): "+outM)
			// every single-digit substitution
			for i := 0; i < len(full); i++ {
				for d := 0; d < 10; d++ {
					if d == full[i] || (k.name == "upce" && i == 0 && d > 1) {
						continue
					}
					f2 := append([]int(nil), full...)
					f2[i] = d
					g := c10RandGeom(r)
					if k.name == "upce" {
						g.right += 3 * g.scale
					}
					mods := c10Draw(k.name, f2)
					in := fmt.Sprintf("%s %s pos=%d digit=%d scale=%d left=%d right=%d", k.name, text, i, d, g.scale, g.left, g.right)
					// Is the number now carried still valid by the standard?  Never for EAN-13/EAN-8/UPC-A
					// (theorem ean_detects_single_substitution).  For UPC-E the last body digit selects the
					// zero-suppression rule, so changing it changes several digits of the UPC-A number the
					// check digit protects: such a symbol can be a valid, different UPC-E number and every
					// conforming reader must accept it.
					valid2 := c10StdCheck(k.name, f2[:len(f2)-1]) == f2[len(f2)-1]
					if valid2 && !(k.name == "upce" && i == 6) {
						c.Oracle("fault", false, k.name+"-harness-formula", in, "the standard's formula accepts a single-digit substitution")
					}
					want2 := "ok " + k.format.String() + " " + hexs([]byte(c10DigStr(f2)))
					judge := func(out string) bool {
						if valid2 {
							return out == want2
						}
						return strings.HasPrefix(out, "ERR:")
					}
					var out string
					if r.Chance(0.04) {
						h := r.Pick([]int{1, 2, 7, 40})
						out, _ = c10ReadImage(k.reader(), mods, g.scale, g.left, g.right, h, nil)
						c.Note("fault:image-level")
						in += fmt.Sprintf(" image height=%d", h)
						if !judge(out) && c10IsReversedRowRead(k, mods, g, out) {
							// OneDReader.doDecode retries every row reversed: a class of its own (see c10ReversedRowWitness)
							c.Oracle("fault", false, k.name+"-substitution-read-reversed-row", in, "Decode(image): "+out+" (the forward row read fails; this is the reversed-row retry)")
							continue
						}
					} else {
						row := c10Row(mods, g.scale, g.left, g.right)
						out, _ = c10ReadRow(rd, row, nil)
						c.Cmp("symread", c10SymbolOp(k.name, f2), c10StripFormat(out))
						o2, _ := c10ReadRow(multiF, row, mh)
						c.Oracle("fault", judge(o2), k.name+"-substitution-read-multi", in, "multi-format reader (POSSIBLE_FORMATS="+k.format.String()+"): "+o2)
						// Without a format restriction the multi-format reader also tries the other symbologies'
						// decoders on the damaged symbol; a result in ANOTHER format (whose own check digit
						// verifies) is a framing question (C09), not a check-digit one: counted, not judged.
						o3, r3 := c10ReadRow(multi, row, nil)
						if r3 != nil && r3.GetBarcodeFormat() != k.format && !(k.name == "upca" && r3.GetBarcodeFormat() == gozxing.BarcodeFormat_EAN_13) {
							c.Note("fault:multi-nohint:read-as-other-format:" + r3.GetBarcodeFormat().String())
						} else {
							w3 := want2
							if k.name == "upca" {
								w3 = "ok EAN_13 " + hexs([]byte("0"+c10DigStr(f2)))
							}
							ok3 := strings.HasPrefix(o3, "ERR:")
							if valid2 {
								ok3 = o3 == w3
							}
							c.Oracle("fault", ok3, k.name+"-substitution-read-multi-nohint", in, "multi-format reader: "+o3)
						}
					}
					c.Oracle("fault", judge(out), k.name+"-substitution-read", in, "reader: "+out)
					if valid2 {
						c.Note("fault:upce:rule-digit-substitution-yields-valid-number")
					}
					c.Note("fault:" + k.name + ":" + out[:c10Min(len(out), 12)])
				}
			}
		})
	}
}

func c10Min(a, b int) int {
	if a < b {
		return a
	}
	return b
}

// does the matching reader fail on the row but return `out` on the reversed row?
func c10IsReversedRowRead(k c10Kind, mods []bool, g c10Geom, out string) bool {
	row := c10Row(mods, g.scale, g.left, g.right)
	fwd, _ := c10ReadRow(c10RD(k.reader()), row, nil)
	row.Reverse()
	rev, _ := c10ReadRow(c10RD(k.reader()), row, nil)
	return strings.HasPrefix(fwd, "ERR:") && rev == out
}

// Witness of a finding that is not repaired: a UPC-E symbol whose check digit is wrong is refused in
// reading direction, but OneDReader.doDecode then retries the row reversed, where the asymmetric UPC-E
// guards shift the digit framing by three runs and decodeDigit matches every digit at its own scale:
// the retry can return a different number whose own check digit verifies.
func c10ReversedRowWitness(c *Ctx) {
	k := c10Kinds[3]
	for _, w := range []struct {
		num   string
		scale int
	}{{"12855648", 2}, {"12855648", 3}} {
		f := c10Digits(w.num)
		if c10StdCheck("upce", f[:7]) == f[7] {
			continue
		}
		g := c10Geom{w.scale, 9 * w.scale, 12*w.scale + 1}
		mods := c10DrawUPCE(f)
		out, _ := c10ReadImage(k.reader(), mods, g.scale, g.left, g.right, 5, nil)
		in := fmt.Sprintf("upce symbol carrying %s (wrong check digit) scale=%d left=%d right=%d image height=5", w.num, g.scale, g.left, g.right)
		key := "upce-substitution-read"
		if !strings.HasPrefix(out, "ERR:") && c10IsReversedRowRead(k, mods, g, out) {
			key = "upce-substitution-read-reversed-row"
		}
		c.Oracle("fault", strings.HasPrefix(out, "ERR:"), key, in, "Decode(image): "+out)
	}
}

// "ok FORMAT hex" -> "ok hex"
func c10StripFormat(s string) string {
	if strings.HasPrefix(s, "ok ") {
		p := strings.SplitN(s, " ", 3)
		if len(p) == 3 {
			return "ok " + p[2]
		}
	}
	return s
}

// ---------- Code 128 ----------

func c10RandASCII(r *Rng, n int, mode int) string {
	b := make([]byte, n)
	for i := range b {
		switch mode {
		case 0: // printable
			b[i] = byte(r.Range(32, 126))
		case 1: // digits heavy
			if r.Chance(0.8) {
				b[i] = byte('0' + r.Intn(10))
			} else {
				b[i] = byte(r.Range(32, 126))
			}
		case 2: // control + upper (code set A)
			if r.Chance(0.4) {
				b[i] = byte(r.Intn(32))
			} else {
				b[i] = byte(r.Range(32, 95))
			}
		default: // anything 0..127
			b[i] = byte(r.Intn(128))
		}
	}
	return string(b)
}

func c10FaultsCode128(c *Ctx) {
	n := c.Pick(120, 4000)
	c.Parallel(n, 16, func(it int, r *Rng) {
		w := oned.NewCode128Writer()
		rd := c10RD(oned.NewCode128Reader())
		var codes []int // start .. data .. check, stop
		src := ""
		if it%3 != 0 {
			// symbols of the real writer
			content := c10RandASCII(r, r.Range(1, 24), r.Intn(4))
			mods, out := c10Write(w, gozxing.BarcodeFormat_CODE_128, content, nil)
			if out != "ok" {
				c.Oracle("code128", false, "code128-writer-refuses", hexs([]byte(content)), out)
				return
			}
			codes = c10ReadCode128(mods)
			if codes == nil {
				c.Oracle("code128", false, "code128-writer-pattern", hexs([]byte(content)), "module pattern is not a sequence of Code 128 characters: "+bitsStr(mods))
				return
			}
			src = "writer:" + hexs([]byte(content))
			// writer's check character = the standard's formula
			body := codes[:len(codes)-2]
			c.Cmp("c128chk", "c10 c128chk "+ints(body), fmt.Sprint(codes[len(codes)-2]))
			c.Oracle("code128", codes[len(codes)-2] == c10Code128Check(body), "code128-writer-check", src, "codes "+ints(codes))
			// positive control incl. text
			out1, res := c10ReadRow(rd, c10Row(c10DrawCode128(codes), 1, 10, 10), nil)
			c.Oracle("code128", res != nil && res.GetText() == content, "code128-clean-read", src, "reader: "+out1)
		} else {
			// random symbol-character sequences in one code set, independent check character
			set := r.Range(0, 2)
			codes = []int{103 + set}
			for k, m := 0, r.Range(1, 30); k < m; k++ {
				hi := 95
				if set == 2 {
					hi = 99
				}
				codes = append(codes, r.Intn(hi+1))
			}
			codes = append(codes, c10Code128Check(codes), 106)
			src = "codes:" + ints(codes)
		}
		body := codes[:len(codes)-1] // without STOP
		g := c10Geom{r.Range(1, 3), 0, 0}
		g.left, g.right = 10*g.scale+r.Intn(8), 10*g.scale+r.Intn(8)
		out0, res0 := c10ReadRow(rd, c10Row(c10DrawCode128(codes), g.scale, g.left, g.right), nil)
		if res0 == nil {
			c.Oracle("code128", false, "code128-clean-read", src, "reader: "+out0)
			return
		}
		c.Cmp("c128acc", "c10 c128acc "+ints(body), "true")
		orig := res0.GetText()
		c.Note(fmt.Sprintf("code128:len=%d", len(body)/10*10))
		for pos := 0; pos < len(body); pos++ {
			for k := 0; k < 5; k++ {
				v := r.Intn(103)
				if pos == 0 {
					v = 103 + r.Intn(3)
				}
				if v == body[pos] {
					continue
				}
				c2 := append([]int(nil), codes...)
				c2[pos] = v
				out, res := c10ReadRow(rd, c10Row(c10DrawCode128(c2), g.scale, g.left, g.right), nil)
				in := fmt.Sprintf("%s pos=%d value=%d", src, pos, v)
				// strict: the substituted symbol's check character does not verify (theorem
				// code128_reader_rejects_substitution, all weights here are < 103), so it must not be returned at
				// all — not even with the original text
				c.Oracle("code128", res == nil, "code128-substitution-read", in,
					fmt.Sprintf("reader: %s (original text %q)", out, orig))
				switch {
				case res != nil:
					c.Cmp("c128acc", "c10 c128acc "+ints(c2[:len(c2)-1]), "true")
				case out == "ERR:checksum":
					c.Cmp("c128acc", "c10 c128acc "+ints(c2[:len(c2)-1]), "false")
				}
				c.Note("code128:fault:" + out[:c10Min(len(out), 12)])
			}
		}
	})
}

// ---------- Code 93 ----------

func c10FaultsCode93(c *Ctx) {
	n := c.Pick(120, 4000)
	c.Parallel(n, 16, func(it int, r *Rng) {
		w := oned.NewCode93Writer()
		rd := c10RD(oned.NewCode93Reader())
		content := c10RandASCII(r, r.Range(1, 20), 3*r.Intn(2))
		mods, out := c10Write(w, gozxing.BarcodeFormat_CODE_93, content, nil)
		if out != "ok" {
			c.Oracle("code93", false, "code93-writer-refuses", hexs([]byte(content)), out)
			return
		}
		vals := c10ReadCode93(mods) // * data C K *
		if vals == nil || len(vals) < 4 || vals[0] != 47 || vals[len(vals)-1] != 47 {
			c.Oracle("code93", false, "code93-writer-pattern", hexs([]byte(content)), "module pattern is not a Code 93 symbol: "+bitsStr(mods))
			return
		}
		inner := vals[1 : len(vals)-1] // data, C, K
		data := inner[:len(inner)-2]
		src := "writer:" + hexs([]byte(content))
		c.Cmp("c93chk", "c10 c93chk "+ints(data), fmt.Sprintf("%d,%d", inner[len(inner)-2], inner[len(inner)-1]))
		wc := c10Code93Check(data, 20)
		wk := c10Code93Check(append(append([]int(nil), data...), wc), 15)
		c.Oracle("code93", inner[len(inner)-2] == wc && inner[len(inner)-1] == wk, "code93-writer-check", src, "values "+ints(inner))
		g := c10Geom{r.Range(1, 3), 0, 0}
		g.left, g.right = 10*g.scale+r.Intn(8), 10*g.scale+r.Intn(8)
		out0, res0 := c10ReadRow(rd, c10Row(c10DrawCode93(inner), g.scale, g.left, g.right), nil)
		c.Oracle("code93", res0 != nil && res0.GetText() == content, "code93-clean-read", src, "reader: "+out0)
		if res0 == nil {
			return
		}
		for pos := 0; pos < len(inner); pos++ {
			for k := 0; k < 5; k++ {
				v := r.Intn(47)
				if v == inner[pos] {
					continue
				}
				v2 := append([]int(nil), inner...)
				v2[pos] = v
				out, res := c10ReadRow(rd, c10Row(c10DrawCode93(v2), g.scale, g.left, g.right), nil)
				in := fmt.Sprintf("%s pos=%d value=%d", src, pos, v)
				// strict: C or K of the substituted symbol does not verify (theorem code93_detects_single_substitution)
				c.Oracle("code93", res == nil, "code93-substitution-read", in,
					fmt.Sprintf("reader: %s (original text %q)", out, content))
				switch {
				case res != nil || out == "ERR:format":
					c.Cmp("c93acc", "c10 c93acc "+ints(v2), "true")
				case out == "ERR:checksum":
					c.Cmp("c93acc", "c10 c93acc "+ints(v2), "false")
				}
				c.Note("code93:fault:" + out[:c10Min(len(out), 12)])
			}
		}
	})
}

// ---------- EAN-2 / EAN-5 add-ons ----------

func c10AddOns(c *Ctx) {
	type job struct {
		d  []int
		gs []bool
	}
	var jobs []job
	for v := 0; v < 100; v++ {
		for p := 0; p < 4; p++ {
			jobs = append(jobs, job{[]int{v / 10, v % 10}, []bool{p&2 != 0, p&1 != 0}})
		}
	}
	n5 := c.Pick(700, 100000)
	r := c.Rng
	for i := 0; i < n5; i++ {
		v := r.Intn(100000)
		if c.Thorough {
			v = i
		}
		d := c10Digits(fmt.Sprintf("%05d", v))
		pats := map[int]bool{}
		for _, s := range c10EAN5Parity { // the ten standard parities (one of them is the right one)
			p := 0
			for j := 0; j < 5; j++ {
				p = p * 2
				if s[j] == 'G' {
					p++
				}
			}
			pats[p] = true
		}
		if i%8 == 0 { // all 32 patterns, including those no check value uses
			for p := 0; p < 32; p++ {
				pats[p] = true
			}
		}
		for p := 0; p < 32; p++ {
			if pats[p] {
				jobs = append(jobs, job{d, []bool{p&16 != 0, p&8 != 0, p&4 != 0, p&2 != 0, p&1 != 0}})
			}
		}
	}
	c.Parallel(len(jobs), 16, func(i int, r *Rng) {
		j := jobs[i]
		k := c10Kinds[r.Intn(len(c10Kinds))]
		rd := c10RD(k.reader())
		body := c10RandBody(r, k)
		full := append(body, c10StdCheck(k.name, body))
		main := c10Draw(k.name, full)
		gap := r.Range(7, 12)
		mods := append(append(append([]bool(nil), main...), make([]bool, gap)...), c10DrawAddOn(j.d, j.gs)...)
		g := c10RandGeom(r)
		out, res := c10ReadRow(rd, c10Row(mods, g.scale, g.left, g.right), nil)
		in := fmt.Sprintf("%s %s + add-on %s parity %s", k.name, c10DigStr(full), c10DigStr(j.d), bitsStr(j.gs))
		if res == nil || res.GetText() != c10DigStr(full) {
			c.Oracle("addon", false, "addon-main-symbol", in, "reader: "+out)
			return
		}
		ext := c10Ext(res)
		goOut := "ERR"
		if ext != "" {
			goOut = "ok " + ext
		}
		cmp := func(goOut, model string) (bool, bool) {
			if goOut == "ERR" {
				return strings.HasPrefix(model, "ERR:"), false
			}
			return goOut == model, false
		}
		c.CmpF("addon", fmt.Sprintf("c10 ext %s %s", c10DigStr(j.d), bitsStr(j.gs)), goOut, cmp)
		par2 := func(gs []bool) int {
			p := 0
			if gs[0] {
				p += 2
			}
			if gs[1] {
				p++
			}
			return p
		}
		two := (10*j.d[0]+j.d[1])%4 == par2(j.gs)
		if len(j.d) == 2 {
			want := ""
			if two {
				want = c10DigStr(j.d)
			}
			c.Oracle("addon", ext == want, "ean2-accept-iff-parity", in, fmt.Sprintf("extension reported %q, expected %q", ext, want))
			c.Note(fmt.Sprintf("addon:ean2:match=%v", two))
			return
		}
		match := bitsStr(j.gs) == strings.NewReplacer("G", "1", "L", "0").Replace(c10EAN5Parity[c10EAN5Check(j.d)])
		okv := false
		switch {
		case match:
			okv = ext == c10DigStr(j.d)
		case ext == "":
			okv = true
		default: // a rejected 5-digit add-on may still be reported as the 2-digit add-on its first two digits form
			okv = ext == c10DigStr(j.d[:2]) && two
		}
		c.Oracle("addon", okv, "ean5-accept-iff-parity", in, fmt.Sprintf("extension reported %q (parity matches: %v)", ext, match))
		c.Note(fmt.Sprintf("addon:ean5:match=%v:ext-len=%d", match, len(ext)))
	})
}

// quiet zones of 10 modules on both sides (rendering at the default size is C03's clause, not C10's)
var c10WideMargin = map[gozxing.EncodeHintType]interface{}{gozxing.EncodeHintType_MARGIN: 20}

// ---------- thorough: every UPC-E number and EAN-8 payload through writer + reader ----------

func c10Exhaustive(c *Ctx) {
	type space struct {
		k     c10Kind
		count int
	}
	for _, sp := range []space{{c10Kinds[3], 2000000}, {c10Kinds[1], 10000000}} {
		k := sp.k
		const chunk = 5000
		nChunks := sp.count / chunk
		var done int64
		c.Parallel(nChunks, 16, func(ci int, r *Rng) {
			if !c.TimeLeft() {
				return
			}
			w := k.writer()
			rd := c10RD(k.reader())
			firstBad, detail := "", ""
			for v := ci * chunk; v < (ci+1)*chunk; v++ {
				body := c10Digits(fmt.Sprintf("%07d", v))
				if k.name == "upce" {
					body = c10Digits(fmt.Sprintf("%d%06d", v/1000000, v%1000000))
				}
				bs := c10DigStr(body)
				want := bs + string(byte('0'+c10StdCheck(k.name, body)))
				got := Safe(func() string {
					bm, e := w.Encode(bs, k.format, 0, 1, c10WideMargin)
					if e != nil {
						return "ERR:" + errKind(e)
					}
					res, e := rd.DecodeRow(0, bm.GetRow(0, nil), nil)
					if e != nil {
						return "ERR:" + errKind(e)
					}
					return res.GetText()
				})
				if got != want && firstBad == "" {
					firstBad, detail = bs, fmt.Sprintf("write+read gives %q, expected %q", got, want)
				}
			}
			atomic.AddInt64(&done, chunk)
			c.Oracle("exhaustive", firstBad == "", k.name+"-exhaustive-roundtrip",
				fmt.Sprintf("%s bodies %d..%d first-failing=%s", k.name, ci*chunk, (ci+1)*chunk-1, firstBad), detail)
		})
		c.NoteN("exhaustive:"+k.name+":numbers", int(done))
		if int(done) == sp.count {
			c.Remark(fmt.Sprintf("exhaustive: all %d %s bodies written and read back at row level", sp.count, k.name))
			c.res.Exhaustive = true
		} else {
			c.Remark(fmt.Sprintf("exhaustive: %d of %d %s bodies covered before the time budget ran out", done, sp.count, k.name))
		}
	}
}
