package main

// Symbol tables of the 1-D symbologies in the notation of the standards (module strings, width strings,
// parity letters), typed independently of /repo/oned, plus an independent "ideal" encoder/decoder at
// module level.  Used by the C10 and C03 suites to draw symbols the library's writers refuse to draw
// (wrong check digits) and to read the writers' module patterns back without the library's readers.
// The same tables exist in lean/Gzx/Ref/*.lean; the suites compare the two copies (`tbl` ops).

import (
	"strings"

	"github.com/makiuchi-d/gozxing"
)

// ISO/IEC 15420 number set A (L, odd parity), 7 modules, 0 = space.
var c10SetA = []string{
	"0001101", "0011001", "0010011", "0111101", "0100011",
	"0110001", "0101111", "0111011", "0110111", "0001011",
}

func c10Complement(s string) string {
	b := []byte(s)
	for i := range b {
		b[i] ^= 1 // '0' <-> '1'
	}
	return string(b)
}

func c10Reverse(s string) string {
	b := []byte(s)
	for i, j := 0, len(b)-1; i < j; i, j = i+1, j-1 {
		b[i], b[j] = b[j], b[i]
	}
	return string(b)
}

// number set C (R) = complement of A; number set B (G) = C reversed
func c10SetC(d int) string { return c10Complement(c10SetA[d]) }
func c10SetB(d int) string { return c10Reverse(c10SetC(d)) }

var c10EAN13Parity = []string{
	"LLLLLL", "LLGLGG", "LLGGLG", "LLGGGL", "LGLLGG",
	"LGGLLG", "LGGGLL", "LGLGLG", "LGLGGL", "LGGLGL",
}

// UPC-E number system 0, by check digit (E = even = set B); number system 1 swaps E and O.
var c10UPCEParity0 = []string{
	"EEEOOO", "EEOEOO", "EEOOEO", "EEOOOE", "EOEEOO",
	"EOOEEO", "EOOOEE", "EOEOEO", "EOEOOE", "EOOEOE",
}

var c10EAN5Parity = []string{
	"GGLLL", "GLGLL", "GLLGL", "GLLLG", "LGGLL", "LLGGL", "LLLGG", "LGLGL", "LGLLG", "LLGLG",
}

// ISO/IEC 15417 Code 128 bar/space widths, values 0..105 and STOP (106)
var c10Code128 = []string{
	"212222", "222122", "222221", "121223", "121322", "131222", "122213", "122312",
	"132212", "221213", "221312", "231212", "112232", "122132", "122231", "113222",
	"123122", "123221", "223211", "221132", "221231", "213212", "223112", "312131",
	"311222", "321122", "321221", "312212", "322112", "322211", "212123", "212321",
	"232121", "111323", "131123", "131321", "112313", "132113", "132311", "211313",
	"231113", "231311", "112133", "112331", "132131", "113123", "113321", "133121",
	"313121", "211331", "231131", "213113", "213311", "213131", "311123", "311321",
	"331121", "312113", "312311", "332111", "314111", "221411", "431111", "111224",
	"111422", "121124", "121421", "141122", "141221", "112214", "112412", "122114",
	"122411", "142112", "142211", "241211", "221114", "413111", "241112", "134111",
	"111242", "121142", "121241", "114212", "124112", "124211", "411212", "421112",
	"421211", "212141", "214121", "412121", "111143", "111341", "131141", "114113",
	"114311", "411113", "411311", "113141", "114131", "311141", "411131", "211412",
	"211214", "211232", "2331112",
}

// Code 93 (AIM USS-93) 9-module patterns, values 0..46 and the start/stop character (47)
const c10Code93Alphabet = "0123456789ABCDEFGHIJKLMNOPQRSTUVWXYZ-. $/+%abcd*"

var c10Code93 = []string{
	"100010100", "101001000", "101000100", "101000010", "100101000", "100100100",
	"100100010", "101010000", "100010010", "100001010", "110101000", "110100100",
	"110100010", "110010100", "110010010", "110001010", "101101000", "101100100",
	"101100010", "100110100", "100011010", "101011000", "101001100", "101000110",
	"100101100", "100010110", "110110100", "110110010", "110101100", "110100110",
	"110010110", "110011010", "101101100", "101100110", "100110110", "100111010",
	"100101110", "111010100", "111010010", "111001010", "101101110", "101110110",
	"110101110", "100100110", "111011010", "111010110", "100110010", "101011110",
}

// ---------- module-level drawing ----------

func c10Bits(s string) []bool {
	out := make([]bool, len(s))
	for i := 0; i < len(s); i++ {
		out[i] = s[i] == '1'
	}
	return out
}

// widths "2331112" -> modules, starting with a bar
func c10Widths(w string) []bool {
	var out []bool
	col := true
	for i := 0; i < len(w); i++ {
		for k := 0; k < int(w[i]-'0'); k++ {
			out = append(out, col)
		}
		col = !col
	}
	return out
}

// c10Row renders modules at `scale` pixels per module with white quiet zones (in pixels).
func c10Row(mods []bool, scale, left, right int) *gozxing.BitArray {
	row := gozxing.NewBitArray(left + len(mods)*scale + right)
	for i, m := range mods {
		if m {
			for k := 0; k < scale; k++ {
				row.Set(left + i*scale + k)
			}
		}
	}
	return row
}

// ---------- independent UPC/EAN encoders (no validation at all) ----------

// EAN-13 symbol for 13 digit values; the first digit selects the parities
func c10DrawEAN13(d []int) []bool {
	var sb strings.Builder
	sb.WriteString("101")
	par := c10EAN13Parity[d[0]]
	for i := 1; i <= 6; i++ {
		if par[i-1] == 'G' {
			sb.WriteString(c10SetB(d[i]))
		} else {
			sb.WriteString(c10SetA[d[i]])
		}
	}
	sb.WriteString("01010")
	for i := 7; i <= 12; i++ {
		sb.WriteString(c10SetC(d[i]))
	}
	sb.WriteString("101")
	return c10Bits(sb.String())
}

func c10DrawEAN8(d []int) []bool {
	var sb strings.Builder
	sb.WriteString("101")
	for i := 0; i < 4; i++ {
		sb.WriteString(c10SetA[d[i]])
	}
	sb.WriteString("01010")
	for i := 4; i < 8; i++ {
		sb.WriteString(c10SetC(d[i]))
	}
	sb.WriteString("101")
	return c10Bits(sb.String())
}

// UPC-E symbol for 8 digit values: number system d[0] (0/1), six digits, check digit d[7] (in the parities)
func c10DrawUPCE(d []int) []bool {
	par := c10UPCEParity0[d[7]]
	var sb strings.Builder
	sb.WriteString("101")
	for i := 1; i <= 6; i++ {
		even := par[i-1] == 'E'
		if d[0] == 1 {
			even = !even
		}
		if even {
			sb.WriteString(c10SetB(d[i]))
		} else {
			sb.WriteString(c10SetA[d[i]])
		}
	}
	sb.WriteString("010101")
	return c10Bits(sb.String())
}

// add-on symbol: guard 1011, digits separated by 01; gs[i] = digit i from set B (G)
func c10DrawAddOn(d []int, gs []bool) []bool {
	var sb strings.Builder
	sb.WriteString("1011")
	for i := range d {
		if i > 0 {
			sb.WriteString("01")
		}
		if gs[i] {
			sb.WriteString(c10SetB(d[i]))
		} else {
			sb.WriteString(c10SetA[d[i]])
		}
	}
	return c10Bits(sb.String())
}

// ---------- independent module-level decoders of writer output ----------

func c10ModStr(mods []bool) string { return bitsStr(mods) }

func c10Lookup(tbl func(int) string, s string) int {
	for d := 0; d < 10; d++ {
		if tbl(d) == s {
			return d
		}
	}
	return -1
}

func c10A(d int) string { return c10SetA[d] }

// decode 7-module digits from sets A/B; returns digits and G flags, ok=false on an unknown pattern
func c10DecodeAB(s string, n int) (ds []int, gs []bool, ok bool) {
	for i := 0; i < n; i++ {
		p := s[7*i : 7*i+7]
		if d := c10Lookup(c10A, p); d >= 0 {
			ds, gs = append(ds, d), append(gs, false)
		} else if d := c10Lookup(c10SetB, p); d >= 0 {
			ds, gs = append(ds, d), append(gs, true)
		} else {
			return nil, nil, false
		}
	}
	return ds, gs, true
}

func c10DecodeC(s string, n int) (ds []int, ok bool) {
	for i := 0; i < n; i++ {
		d := c10Lookup(c10SetC, s[7*i:7*i+7])
		if d < 0 {
			return nil, false
		}
		ds = append(ds, d)
	}
	return ds, true
}

func c10ParityIndex(tbl []string, gs []bool, g, l byte) int {
	b := make([]byte, len(gs))
	for i, x := range gs {
		if x {
			b[i] = g
		} else {
			b[i] = l
		}
	}
	for i, p := range tbl {
		if p == string(b) {
			return i
		}
	}
	return -1
}

// c10ReadModules: ideal reading of an EAN-13 / EAN-8 / UPC-E module pattern; "" if malformed
func c10ReadModules(kind string, mods []bool) string {
	s := c10ModStr(mods)
	digs := func(ds []int) string {
		b := make([]byte, len(ds))
		for i, d := range ds {
			b[i] = byte('0' + d)
		}
		return string(b)
	}
	switch kind {
	case "ean13", "upca":
		if len(s) != 95 || s[:3] != "101" || s[45:50] != "01010" || s[92:] != "101" {
			return ""
		}
		l, gs, ok := c10DecodeAB(s[3:45], 6)
		r, ok2 := c10DecodeC(s[50:92], 6)
		if !ok || !ok2 {
			return ""
		}
		f := c10ParityIndex(c10EAN13Parity, gs, 'G', 'L')
		if f < 0 {
			return ""
		}
		return digs(append(append([]int{f}, l...), r...))
	case "ean8":
		if len(s) != 67 || s[:3] != "101" || s[31:36] != "01010" || s[64:] != "101" {
			return ""
		}
		l, gs, ok := c10DecodeAB(s[3:31], 4)
		r, ok2 := c10DecodeC(s[36:64], 4)
		if !ok || !ok2 {
			return ""
		}
		for _, g := range gs {
			if g {
				return ""
			}
		}
		return digs(append(l, r...))
	case "upce":
		if len(s) != 51 || s[:3] != "101" || s[45:] != "010101" {
			return ""
		}
		m, gs, ok := c10DecodeAB(s[3:45], 6)
		if !ok {
			return ""
		}
		if chk := c10ParityIndex(c10UPCEParity0, gs, 'E', 'O'); chk >= 0 {
			return digs(append(append([]int{0}, m...), chk))
		}
		if chk := c10ParityIndex(c10UPCEParity0, gs, 'O', 'E'); chk >= 0 {
			return digs(append(append([]int{1}, m...), chk))
		}
		return ""
	}
	return ""
}

// Code 128: modules -> code values (including check character and STOP); nil if malformed
func c10ReadCode128(mods []bool) []int {
	ws := c10RunWidths(mods)
	if len(ws) < 7 {
		return nil
	}
	var codes []int
	i := 0
	for i+6 <= len(ws) {
		if len(ws)-i == 7 {
			if ws[i:] == c10Code128[106] {
				return append(codes, 106)
			}
			return nil
		}
		v := -1
		for k := 0; k < 106; k++ {
			if c10Code128[k] == ws[i:i+6] {
				v = k
				break
			}
		}
		if v < 0 {
			return nil
		}
		codes = append(codes, v)
		i += 6
	}
	return nil
}

// run widths of a module pattern starting with a bar, as a digit string
func c10RunWidths(mods []bool) string {
	var sb strings.Builder
	for i := 0; i < len(mods); {
		j := i
		for j < len(mods) && mods[j] == mods[i] {
			j++
		}
		if j-i > 9 {
			return ""
		}
		sb.WriteByte(byte('0' + j - i))
		i = j
	}
	return sb.String()
}

func c10DrawCode128(codes []int) []bool {
	var out []bool
	for _, c := range codes {
		out = append(out, c10Widths(c10Code128[c])...)
	}
	return out
}

// Code 93: modules -> alphabet indices (including start/stop); nil if malformed
func c10ReadCode93(mods []bool) []int {
	if len(mods)%9 != 1 || !mods[len(mods)-1] {
		return nil
	}
	s := c10ModStr(mods)
	var vals []int
	for i := 0; i+9 < len(s); i += 9 {
		v := -1
		for k, p := range c10Code93 {
			if p == s[i:i+9] {
				v = k
				break
			}
		}
		if v < 0 {
			return nil
		}
		vals = append(vals, v)
	}
	return vals
}

// vals without start/stop; adds them and the termination bar
func c10DrawCode93(vals []int) []bool {
	var sb strings.Builder
	sb.WriteString(c10Code93[47])
	for _, v := range vals {
		sb.WriteString(c10Code93[v])
	}
	sb.WriteString(c10Code93[47])
	sb.WriteString("1")
	return c10Bits(sb.String())
}

// ---------- independent arithmetic (the standards' formulas) ----------

// GS1 mod-10: from the right, weights 3,1,3,1...
func c10Mod10(body []int) int {
	sum := 0
	w := 3
	for i := len(body) - 1; i >= 0; i-- {
		sum += w * body[i]
		w = 4 - w
	}
	return (10 - sum%10) % 10
}

// UPC-E -> UPC-A expansion of (numsys, 6 digits) per the GS1 General Specifications
func c10Expand(ns int, e []int) []int {
	switch l := e[5]; {
	case l <= 2:
		return []int{ns, e[0], e[1], l, 0, 0, 0, 0, e[2], e[3], e[4]}
	case l == 3:
		return []int{ns, e[0], e[1], e[2], 0, 0, 0, 0, 0, e[3], e[4]}
	case l == 4:
		return []int{ns, e[0], e[1], e[2], e[3], 0, 0, 0, 0, 0, e[4]}
	default:
		return []int{ns, e[0], e[1], e[2], e[3], e[4], 0, 0, 0, 0, l}
	}
}

// zero suppression of an 11-digit UPC-A number (numsys + manufacturer 5 + product 5); nil if not suppressible
func c10Suppress(a []int) []int {
	ns, m, p := a[0], a[1:6], a[6:11]
	z := func(xs ...int) bool {
		for _, x := range xs {
			if x != 0 {
				return false
			}
		}
		return true
	}
	switch {
	case m[2] <= 2 && z(m[3], m[4], p[0], p[1]):
		return []int{ns, m[0], m[1], p[2], p[3], p[4], m[2]}
	case z(m[3], m[4], p[0], p[1], p[2]):
		return []int{ns, m[0], m[1], m[2], p[3], p[4], 3}
	case z(m[4], p[0], p[1], p[2], p[3]):
		return []int{ns, m[0], m[1], m[2], m[3], p[4], 4}
	case z(p[0], p[1], p[2], p[3]) && p[4] >= 5:
		return []int{ns, m[0], m[1], m[2], m[3], m[4], p[4]}
	}
	return nil
}

func c10EAN5Check(d []int) int { return (3*(d[0]+d[2]+d[4]) + 9*(d[1]+d[3])) % 10 }

func c10Digits(s string) []int {
	ds := make([]int, len(s))
	for i := range s {
		ds[i] = int(s[i] - '0')
	}
	return ds
}

func c10DigStr(ds []int) string {
	b := make([]byte, len(ds))
	for i, d := range ds {
		b[i] = byte('0' + d)
	}
	return string(b)
}
