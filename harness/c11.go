package main

// C11 — Aztec: conforming symbols of every size decode to their text.
//
// The library has no Aztec writer.  Symbols come from the reference encoder written in Lean from
// ISO/IEC 24778 (driver command `c11 ref ...`), so there is exactly one reference.
//
//   oracle (real code judged against the property):
//     (a) decoder.Decode(AztecDetectorResult{reference matrix, compact, data words, layers}) == text
//     (b) aztec.AztecReader.Decode(rendered image: scale, rotation, quiet zone) == text
//     (c) the same with <= floor(ec/2) damaged codewords
//   correspondence (real code vs Lean model of the decoder):
//     Decoder.Decode on reference / damaged / random matrices (text, raw bytes = corrected bits,
//     bit count, EC level, error kind), HighLevelDecode on arbitrary bit vectors, the decoder's
//     read order vs the reference layout, detector parameters on rendered symbols.

import (
	"fmt"
	"image"
	"os"
	"path/filepath"
	"strconv"
	"strings"
	"sync"
	"sync/atomic"
	"time"

	"github.com/makiuchi-d/gozxing"
	"github.com/makiuchi-d/gozxing/aztec"
	"github.com/makiuchi-d/gozxing/aztec/decoder"
	"github.com/makiuchi-d/gozxing/aztec/detector"
	"github.com/makiuchi-d/gozxing/common"
	"github.com/makiuchi-d/gozxing/common/reedsolomon"
	"golang.org/x/text/transform"
)

func init() { suites["C11"] = runC11 }

// ---------- reference symbols ----------

type c11Sym struct {
	compact bool
	layers  int
	size    int
	dw      int
	hl      string
	words   []int
	chk     []int
	mode    string
	rows    []string
}

func c11Kind(compact bool) string {
	if compact {
		return "compact"
	}
	return "full"
}

func c11ParseInts(s string) []int {
	if s == "-" || s == "" {
		return nil
	}
	ps := strings.Split(s, ",")
	out := make([]int, len(ps))
	for i, p := range ps {
		out[i], _ = strconv.Atoi(p)
	}
	return out
}

func c11ParseSym(compact bool, layers int, s string) (*c11Sym, string) {
	if !strings.HasPrefix(s, "ok ") {
		return nil, s
	}
	sym := &c11Sym{compact: compact, layers: layers}
	for _, f := range strings.Split(s[3:], " ") {
		kv := strings.SplitN(f, "=", 2)
		if len(kv) != 2 {
			continue
		}
		switch kv[0] {
		case "size":
			sym.size, _ = strconv.Atoi(kv[1])
		case "dw":
			sym.dw, _ = strconv.Atoi(kv[1])
		case "hl":
			sym.hl = kv[1]
			if sym.hl == "-" {
				sym.hl = ""
			}
		case "words":
			sym.words = c11ParseInts(kv[1])
		case "chk":
			sym.chk = c11ParseInts(kv[1])
		case "mode":
			sym.mode = kv[1]
		case "rows":
			sym.rows = strings.Split(kv[1], "/")
		}
	}
	if len(sym.rows) != sym.size || sym.size == 0 {
		return nil, "malformed driver reply"
	}
	return sym, ""
}

func c11Ref(c *Ctx, compact bool, layers int, arg string) (*c11Sym, string) {
	out := c.Model([]string{fmt.Sprintf("c11 ref %s %d %s", c11Kind(compact), layers, arg)})[0]
	return c11ParseSym(compact, layers, out)
}

func c11Size(compact bool, layers int) int {
	if compact {
		return 11 + 4*layers
	}
	h := 7 + 2*layers
	return 2*(h+(h-1)/15) + 1
}

func c11WordSize(layers int) int {
	switch {
	case layers <= 2:
		return 6
	case layers <= 8:
		return 8
	case layers <= 22:
		return 10
	}
	return 12
}

func c11TotalBits(compact bool, layers int) int {
	if compact {
		return (88 + 16*layers) * layers
	}
	return (112 + 16*layers) * layers
}

func c11Grid(rows []string) [][]bool {
	g := make([][]bool, len(rows))
	for y, r := range rows {
		g[y] = make([]bool, len(r))
		for x := range r {
			g[y][x] = r[x] == '1'
		}
	}
	return g
}

func c11Rows(g [][]bool) []string {
	rows := make([]string, len(g))
	for y := range g {
		rows[y] = bitsStr(g[y])
	}
	return rows
}

// rotate clockwise by k quarter turns
func c11Rotate(g [][]bool, k int) [][]bool {
	for ; k > 0; k-- {
		n := len(g)
		r := make([][]bool, n)
		for y := 0; y < n; y++ {
			r[y] = make([]bool, n)
			for x := 0; x < n; x++ {
				r[y][x] = g[n-1-x][y]
			}
		}
		g = r
	}
	return g
}

func c11BitMatrix(g [][]bool) *gozxing.BitMatrix {
	bm, _ := gozxing.NewSquareBitMatrix(len(g))
	for y := range g {
		for x := range g[y] {
			if g[y][x] {
				bm.Set(x, y)
			}
		}
	}
	return bm
}

func c11Render(g [][]bool, scale, quiet int) *image.Gray {
	n := len(g)
	w := (n + 2*quiet) * scale
	img := image.NewGray(image.Rect(0, 0, w, w))
	for i := range img.Pix {
		img.Pix[i] = 255
	}
	for y := 0; y < n; y++ {
		for x := 0; x < n; x++ {
			if !g[y][x] {
				continue
			}
			for dy := 0; dy < scale; dy++ {
				off := ((y+quiet)*scale+dy)*img.Stride + (x+quiet)*scale
				for dx := 0; dx < scale; dx++ {
					img.Pix[off+dx] = 0
				}
			}
		}
	}
	return img
}

// ---------- calling the real code ----------

func c11EC(s string) string { return strings.TrimSuffix(s, "%") }

// path (a): the decoder on a module matrix
func c11GoDecode(g [][]bool, compact bool, dw, layers int) (out string, text string, ok bool) {
	return c11GoDecodeWith(decoder.NewDecoder(), g, compact, dw, layers)
}

// the same on a given (possibly long-lived) Decoder value
func c11GoDecodeWith(dec *decoder.Decoder, g [][]bool, compact bool, dw, layers int) (out string, text string, ok bool) {
	out = SafeTC11(func() string {
		dr := detector.NewAztecDetectorResult(c11BitMatrix(g), nil, compact, dw, layers)
		res, err := dec.Decode(dr)
		if err != nil {
			if res != nil {
				return "BOTH"
			}
			return "ERR:" + errKind(err)
		}
		if res == nil {
			return "NEITHER"
		}
		text, ok = res.GetText(), true
		return fmt.Sprintf("ok %s raw=%s nbits=%d ec=%s", hexs([]byte(res.GetText())), hexs(res.GetRawBytes()), res.GetNumBits(), c11EC(res.GetECLevel()))
	})
	return
}

// path (b): the whole reader on an image
func c11GoRead(img *image.Gray, global bool) (out string, text string, ok bool) {
	return c11GoReadWith(aztec.NewAztecReader(), img, global)
}

// the same on a given (possibly long-lived) AztecReader value
func c11GoReadWith(rd *aztec.AztecReader, img *image.Gray, global bool) (out string, text string, ok bool) {
	out = SafeTC11(func() string {
		var bmp *gozxing.BinaryBitmap
		var err error
		if global {
			bmp, err = gozxing.NewBinaryBitmap(gozxing.NewGlobalHistgramBinarizer(gozxing.NewLuminanceSourceFromImage(img)))
		} else {
			bmp, err = gozxing.NewBinaryBitmapFromImage(img)
		}
		if err != nil {
			return "ERR:bitmap"
		}
		res, err := rd.Decode(bmp, nil)
		if err != nil {
			return "ERR:" + errKind(err)
		}
		if res == nil {
			return "NEITHER"
		}
		text, ok = res.GetText(), true
		return "ok " + hexs([]byte(text))
	})
	return
}

// watchdog around every call into the real decoder / reader (C06: returns in bounded time).  A call that does
// not return is reported as TIMEOUT; its goroutine cannot be stopped, so after a few of them the remaining
// calls are answered TIMEOUT without being started (the verdict is already a violation).
var c11Timeouts int32

func SafeTC11(f func() string) string {
	if atomic.LoadInt32(&c11Timeouts) >= 8 {
		return "TIMEOUT"
	}
	out := SafeT(20*time.Second, f)
	if out == "TIMEOUT" {
		atomic.AddInt32(&c11Timeouts, 1)
	}
	return out
}

// detector only: parameters and sampled grid
func c11GoDetect(img *image.Gray) (desc string, bits []string) {
	desc = SafeTC11(func() string {
		bmp, err := gozxing.NewBinaryBitmapFromImage(img)
		if err != nil {
			return "ERR:bitmap"
		}
		bm, err := bmp.GetBlackMatrix()
		if err != nil {
			return "ERR:blackmatrix"
		}
		r, err := detector.NewDetector(bm).Detect(false)
		if err != nil {
			return "ERR:" + errKind(err)
		}
		m := r.GetBits()
		bits = make([]string, m.GetHeight())
		for y := range bits {
			row := make([]bool, m.GetWidth())
			for x := range row {
				row[x] = m.Get(x, y)
			}
			bits[y] = bitsStr(row)
		}
		return fmt.Sprintf("ok compact=%v layers=%d dw=%d", r.IsCompact(), r.GetNbLayers(), r.GetNbDatablocks())
	})
	return
}

// the library's Reed-Solomon ENCODER over the field of codeword size w: the n check words of `words`
func c11GoRSParity(w int, words []int, n int) string {
	return SafeTC11(func() string {
		var f *reedsolomon.GenericGF
		switch w {
		case 4:
			f = reedsolomon.GenericGF_AZTEC_PARAM
		case 6:
			f = reedsolomon.GenericGF_AZTEC_DATA_6
		case 8:
			f = reedsolomon.GenericGF_AZTEC_DATA_8
		case 10:
			f = reedsolomon.GenericGF_AZTEC_DATA_10
		default:
			f = reedsolomon.GenericGF_AZTEC_DATA_12
		}
		buf := make([]int, len(words)+n)
		copy(buf, words)
		if err := reedsolomon.NewReedSolomonEncoder(f).Encode(buf, n); err != nil {
			return "ERR:" + errKind(err)
		}
		return ints(buf[len(words):])
	})
}

func c11GoHLD(bits []bool) string {
	return Safe(func() string {
		s, err := decoder.NewDecoder().HighLevelDecode(bits)
		if err != nil {
			return "ERR:" + errKind(err)
		}
		return "ok " + hexs([]byte(s))
	})
}

// ---------- comparing with the model ----------

func c11Latin1(b []byte) string {
	rs := make([]rune, len(b))
	for i, x := range b {
		rs[i] = rune(x)
	}
	return string(rs)
}

func c11Unhex(s string) []byte {
	if s == "-" || s == "" {
		return nil
	}
	b := make([]byte, len(s)/2)
	for i := range b {
		v, _ := strconv.ParseUint(s[2*i:2*i+2], 16, 8)
		b[i] = byte(v)
	}
	return b
}

// renders the model's segment form ("seg L<hex> E<eci>:<hex> R<hex> ...") with the library's own
// character sets (the text codecs are assumed, not modelled); returns the "ok <hex>" form
func c11RenderSegs(model string) string {
	if !strings.HasPrefix(model, "seg ") {
		return model
	}
	rest := model[4:]
	tail := ""
	if i := strings.Index(rest, " raw="); i >= 0 {
		rest, tail = rest[:i], rest[i:]
	}
	var out []byte
	for _, s := range strings.Split(rest, " ") {
		if s == "" {
			continue
		}
		switch s[0] {
		case 'L':
			out = append(out, []byte(c11Latin1(c11Unhex(s[1:])))...)
		case 'R':
			out = append(out, c11Unhex(s[1:])...)
		case 'E':
			p := strings.SplitN(s[1:], ":", 2)
			v, _ := strconv.Atoi(p[0])
			cs, err := common.GetCharacterSetECIByValue(v)
			if err != nil || cs == nil {
				return "ERR:format"
			}
			var e error
			out, _, e = transform.Append(cs.GetCharset().NewDecoder(), out, c11Unhex(p[1]))
			if e != nil {
				return "ERR:codec"
			}
		}
	}
	return "ok " + hexs(out) + tail
}

func c11CmpSeg(goOut, model string) (ok, skip bool) {
	m := c11RenderSegs(model)
	if m == "ERR:codec" {
		return strings.HasPrefix(goOut, "ERR:"), false
	}
	return goOut == m, false
}

// c11CmpNow records a correspondence case whose model answer was fetched synchronously (heavy ops
// run on all driver processes in parallel instead of being queued to one).
func c11CmpNow(c *Ctx, suite, op, goOut string) {
	model := c.Model([]string{op})[0]
	okc, _ := c11CmpSeg(goOut, model)
	c.mu.Lock()
	defer c.mu.Unlock()
	c.countCase(op)
	if c.noDriver {
		c.res.Skipped++
		return
	}
	c.res.ModelCompared++
	if !okc {
		c.res.NDisagreements++
		if len(c.res.Disagreements) < maxKeep {
			if len(op) > 3000 {
				op = op[:3000] + "..."
			}
			c.res.Disagreements = append(c.res.Disagreements, Disagreement{suite, op, goOut, model})
		}
	}
}

// ---------- generators ----------

var c11Words = []string{"AZTEC", "Code", "hello", "WORLD", "ISO", "24778", "verif", "Lorem", "ipsum", "dolor", "SIT", "amet", "2026", "3.14159", "0,5", "x"}

// a text of about n bytes in one of several styles (all five tables + binary)
func c11Text(r *Rng, n int, style int) []byte {
	var b []byte
	for len(b) < n {
		switch style {
		case 0: // upper + space
			b = append(b, "ABCDEFGHIJKLMNOPQRSTUVWXYZ "[r.Intn(27)])
		case 1: // sentences: upper/lower/punct pairs
			w := c11Words[r.Intn(len(c11Words))]
			b = append(b, w...)
			b = append(b, []string{" ", ", ", ". ", ": ", "\r\n", "! ", "-", "(", ") ", "?"}[r.Intn(10)]...)
		case 2: // digits
			b = append(b, "0123456789,. "[r.Intn(13)])
		case 3: // binary
			b = append(b, byte(r.Intn(256)))
		case 4: // mixed table + lower
			if r.Chance(0.5) {
				b = append(b, []byte{1, 2, 7, 8, 9, 10, 11, 12, 13, 27, 28, 29, 30, 31, '@', '\\', '^', '_', '`', '|', '~', 127}[r.Intn(22)])
			} else {
				b = append(b, "abcdefghijklmnopqrstuvwxyz "[r.Intn(27)])
			}
		case 5: // every byte class interleaved, with runs
			k := r.Range(1, 40)
			st := r.Intn(5)
			b = append(b, c11Text(r, k, st)...)
		case 6: // high bytes in runs around the 31/32 boundary between ASCII
			k := []int{1, 2, 30, 31, 32, 33, 62, 63, 64, 100}[r.Intn(10)]
			for i := 0; i < k; i++ {
				b = append(b, byte(128+r.Intn(128)))
			}
			b = append(b, c11Words[r.Intn(len(c11Words))]...)
		}
	}
	if len(b) > n && n > 0 {
		b = b[:n]
	}
	return b
}

// approximate capacity in bytes of text for a size (upper bound; the driver says "toolong" otherwise)
func c11CapBytes(compact bool, layers int, style int) int {
	w := c11WordSize(layers)
	nw := c11TotalBits(compact, layers) / w
	maxd := nw - 3
	lim := 2048
	if compact {
		lim = 64
	}
	if maxd > lim {
		maxd = lim
	}
	bits := maxd * (w - 1) // pessimistic about stuffing
	per := 6
	switch style {
	case 0:
		per = 5
	case 2:
		per = 5
	case 3, 6:
		per = 9
	case 4:
		per = 7
	}
	return bits / per
}

type c11Mode int

const (
	c11U c11Mode = iota
	c11L
	c11M
	c11P
	c11D
)

var c11ModeLetter = "ULMPD"
var c11LitMax = []int{27, 27, 27, 30, 13}
var c11Latches = [][]c11Mode{{c11L, c11M, c11D}, {c11M, c11D}, {c11L, c11U, c11P}, {c11U}, {c11U}}
var c11Shifts = [][]c11Mode{{c11P}, {c11P, c11U}, {c11P}, {}, {c11P, c11U}}

func c11Digits(r *Rng, n int) string {
	s := ""
	for i := 0; i < n; i++ {
		s += string(rune('0' + r.Intn(10)))
	}
	return s
}

// a random valid script of about n ops; eci=false keeps FLG to FNC1 (not in first position)
func c11Script(r *Rng, n int, flg bool, regs []int) string {
	var ops []string
	m := c11U
	for i := 0; i < n; i++ {
		switch k := r.Intn(20); {
		case k < 9:
			ops = append(ops, fmt.Sprintf("c%d", r.Range(1, c11LitMax[m])))
		case k < 12:
			t := c11Latches[m][r.Intn(len(c11Latches[m]))]
			ops = append(ops, "L"+string(c11ModeLetter[t]))
			m = t
		case k < 15:
			if len(c11Shifts[m]) == 0 {
				ops = append(ops, fmt.Sprintf("c%d", r.Range(1, c11LitMax[m])))
				break
			}
			t := c11Shifts[m][r.Intn(len(c11Shifts[m]))]
			ops = append(ops, fmt.Sprintf("S%c%d", c11ModeLetter[t], r.Range(1, c11LitMax[t])))
		case k < 18:
			if m == c11P || m == c11D {
				ops = append(ops, fmt.Sprintf("c%d", r.Range(1, c11LitMax[m])))
				break
			}
			ln := []int{1, 2, 3, 5, 30, 31, 32, 33, 40, 64}[r.Intn(10)]
			if r.Chance(0.6) {
				ln = r.Range(1, 6)
			}
			bs := make([]byte, ln)
			for j := range bs {
				bs[j] = byte(r.Intn(256))
			}
			ops = append(ops, "b"+hexs(bs))
		default:
			if !flg || i == 0 {
				ops = append(ops, fmt.Sprintf("c%d", r.Range(1, c11LitMax[m])))
				break
			}
			pre := "F"
			if m == c11P {
				pre = "f"
			}
			if regs == nil || r.Chance(0.4) {
				ops = append(ops, pre+"0:")
			} else {
				v := strconv.Itoa(regs[r.Intn(len(regs))])
				for len(v) < 6 && r.Chance(0.3) {
					v = "0" + v
				}
				ops = append(ops, fmt.Sprintf("%s%d:%s", pre, len(v), v))
			}
		}
	}
	return strings.Join(ops, ",")
}

// expected Go string of a script from the driver's item list ("B<hex>", "G", "E<n>")
func c11ItemsText(items []string) (string, bool) {
	var out []byte
	var enc *common.CharacterSetECI
	for _, it := range items {
		if it == "" {
			continue
		}
		switch it[0] {
		case 'B':
			bs := c11Unhex(it[1:])
			if enc == nil {
				out = append(out, []byte(c11Latin1(bs))...)
			} else {
				// consecutive byte items under one ECI are one run for the codec; the caller only
				// uses ECI scripts for correspondence, so a per-item transform is good enough here
				var e error
				out, _, e = transform.Append(enc.GetCharset().NewDecoder(), out, bs)
				if e != nil {
					return "", false
				}
			}
		case 'G':
			out = append(out, 29)
		case 'E':
			v, _ := strconv.Atoi(it[1:])
			cs, err := common.GetCharacterSetECIByValue(v)
			if err != nil || cs == nil {
				return "", false
			}
			enc = cs
		}
	}
	return string(out), true
}

type c11Sz struct {
	compact bool
	layers  int
}

func c11AllSizes() []c11Sz {
	var s []c11Sz
	for l := 1; l <= 4; l++ {
		s = append(s, c11Sz{true, l})
	}
	for l := 1; l <= 32; l++ {
		s = append(s, c11Sz{false, l})
	}
	return s
}

// ---------- reuse / history: one long-lived Decoder / AztecReader over a sequence of symbols ----------

type c11ReuseItem struct {
	sz   c11Sz
	arg  string // t:<hex>
	want string
	sym  *c11Sym
	g    [][]bool
}

func c11ReuseName(it *c11ReuseItem) string {
	return fmt.Sprintf("%s-L%d", c11Kind(it.sz.compact), it.sz.layers)
}

// the sequence as an oracle input: "<kind> <layers> <arg>[ rot=<deg>]; ..." (replayable: C11_REPLAY="reuse decoder|reader <sequence>")
func c11ReuseDesc(seq []*c11ReuseItem, rots []int) string {
	parts := make([]string, len(seq))
	for i, it := range seq {
		parts[i] = fmt.Sprintf("%s %d %s", c11Kind(it.sz.compact), it.sz.layers, it.arg)
		if rots != nil {
			parts[i] += fmt.Sprintf(" rot=%d", rots[i]*90)
		}
	}
	return strings.Join(parts, "; ")
}

// c11RunReuse decodes the sequence with ONE Decoder value (matrix path) and, when withReader, with ONE
// AztecReader value (image path, scale 3, quiet zone 2, rotation rots[i] quarter turns).  Every result must equal the
// result of a fresh instance on the same symbol and the expected text: a decoder is a function of its
// argument, whatever it decoded before.  verbose prints every step (replay).
func c11RunReuse(c *Ctx, seq []*c11ReuseItem, rots []int, withReader bool, verbose bool) {
	dec := decoder.NewDecoder()
	rd := aztec.NewAztecReader()
	prev := "start"
	for i, it := range seq {
		name := c11ReuseName(it)
		out, text, ok := c11GoDecodeWith(dec, it.g, it.sz.compact, it.sym.dw, it.sz.layers)
		fout, _, fok := c11GoDecode(it.g, it.sz.compact, it.sym.dw, it.sz.layers)
		good := ok && fok && out == fout && text == it.want
		c.Note("reuse:" + name)
		c.Oracle("reuse", good, fmt.Sprintf("reuse:%s-after-%s", name, prev), "reuse decoder "+c11ReuseDesc(seq[:i+1], nil),
			fmt.Sprintf("call %d of one long-lived decoder.Decoder (previous symbol: %s): got %s; a fresh Decoder on the same symbol: %s; want text %s",
				i+1, prev, c11Short(out), c11Short(fout), hexs([]byte(it.want))))
		if verbose {
			fmt.Printf("decoder call %2d %-11s reused: %s | fresh: %s | ok=%v\n", i+1, name, c11Short(out), c11Short(fout), good)
		}
		if withReader {
			img := c11Render(c11Rotate(it.g, rots[i]), 3, 2)
			ro, rtext, rok := c11GoReadWith(rd, img, false)
			fro, _, frok := c11GoRead(img, false)
			rgood := rok && frok && ro == fro && rtext == it.want
			c.Oracle("reuse-read", rgood, fmt.Sprintf("reuse-read:%s-after-%s", name, prev), "reuse reader "+c11ReuseDesc(seq[:i+1], rots[:i+1]),
				fmt.Sprintf("call %d of one long-lived aztec.AztecReader (previous symbol: %s): got %s; a fresh reader on the same image: %s; want text %s",
					i+1, prev, c11Short(ro), c11Short(fro), hexs([]byte(it.want))))
			if verbose {
				fmt.Printf("reader  call %2d %-11s reused: %s | fresh: %s | ok=%v\n", i+1, name, c11Short(ro), c11Short(fro), rgood)
			}
		}
		prev = name
	}
}

// parse "<kind> <layers> <arg>[ rot=<deg>]; ..." back into a sequence (replay)
func c11ReuseParse(c *Ctx, s string) (seq []*c11ReuseItem, rots []int) {
	for _, part := range strings.Split(s, ";") {
		f := strings.Fields(part)
		if len(f) < 3 {
			continue
		}
		compact := f[0] == "compact"
		layers, _ := strconv.Atoi(f[1])
		sym, e := c11Ref(c, compact, layers, f[2])
		if sym == nil {
			fmt.Println("reference encoder:", e)
			continue
		}
		rot := 0
		for _, x := range f[3:] {
			if strings.HasPrefix(x, "rot=") {
				rot, _ = strconv.Atoi(x[4:])
			}
		}
		seq = append(seq, &c11ReuseItem{c11Sz{compact, layers}, f[2], c11Latin1(c11Unhex(strings.TrimPrefix(f[2], "t:"))), sym, c11Grid(sym.rows)})
		rots = append(rots, rot/90)
	}
	return
}

// ---------- the suite ----------

type c11Pos struct{ x, y int }

// C11_REPLAY="ref compact 1 t:4d58 scale=2 rot=90 quiet=2 global=false" re-runs one oracle input of
// the read suite on the real code and prints what the detector saw.
func c11Replay(c *Ctx, in string) {
	f := strings.Fields(in)
	if len(f) >= 5 && f[0] == "reuse" {
		// C11_REPLAY="reuse decoder compact 1 t:41; full 1 t:42" re-runs a history on one long-lived instance
		seq, rots := c11ReuseParse(c, strings.Join(f[2:], " "))
		c11RunReuse(c, seq, rots, f[1] == "reader", true)
		return
	}
	if len(f) < 8 || f[0] != "ref" {
		fmt.Println("cannot parse replay input")
		return
	}
	compact := f[1] == "compact"
	layers, _ := strconv.Atoi(f[2])
	kv := map[string]string{}
	for _, x := range f[4:] {
		p := strings.SplitN(x, "=", 2)
		if len(p) == 2 {
			kv[p[0]] = p[1]
		}
	}
	sc, _ := strconv.Atoi(kv["scale"])
	rot, _ := strconv.Atoi(kv["rot"])
	q, _ := strconv.Atoi(kv["quiet"])
	sym, e := c11Ref(c, compact, layers, f[3])
	if sym == nil {
		fmt.Println("reference encoder:", e)
		return
	}
	g := c11Grid(sym.rows)
	out, _, _ := c11GoDecode(g, compact, sym.dw, layers)
	fmt.Println("decoder on matrix:", c11Short(out))
	img := c11Render(c11Rotate(g, rot/90), sc, q)
	ro, _, _ := c11GoRead(img, kv["global"] == "true")
	fmt.Println("reader on image  :", c11Short(ro))
	dd, bits := c11GoDetect(img)
	fmt.Println("detector         :", dd, " want layers", layers, "dw", sym.dw)
	if bits != nil {
		for y := range bits {
			fmt.Println(strings.NewReplacer("0", ".", "1", "#").Replace(bits[y]), " ", strings.NewReplacer("0", ".", "1", "#").Replace(sym.rows[y]))
		}
	}
	if kv["dump"] == "1" {
		rg := c11Rotate(g, rot/90)
		for y := range rg {
			fmt.Println(strings.NewReplacer("0", ".", "1", "#").Replace(bitsStr(rg[y])))
		}
	}
}

func runC11(c *Ctx) {
	if in := os.Getenv("C11_REPLAY"); in != "" {
		c11Replay(c, in)
		return
	}
	c.res.Rule = "reference symbols from the Lean ISO 24778 encoder: all 36 sizes x texts of 7 styles (upper, sentences with two-byte punct codes, digits, binary incl. runs across the 31/32-byte boundary, mixed/lower, interleaved) filling ~2%/45%/~100% of the size, random valid latch/shift scripts incl. FLG(n); " +
		"each decoded (a) by decoder.Decode on the matrix, (b) by AztecReader.Decode on a rendered image (scale, 4 rotations, quiet zone 2..4, hybrid/global binarizer), (c) with <= floor(ec/2) damaged codewords; " +
		"reuse/history: one long-lived decoder.Decoder and one long-lived AztecReader decode sequences of reference symbols alternating compact/full with equal layer counts 1..4, other sizes and back, and random orders; every result must equal a fresh instance's and the text; " +
		"correspondence: Decode on reference/damaged/random matrices, HighLevelDecode on random/mutated/structured bit vectors (empty, 1 bit, every FLG(n), every ECI digit count), read order vs reference layout for all 36 sizes; non-trivial = distinct op line / distinct oracle input"
	sizes := c11AllSizes()
	// fw.go seeds splitmix64 as seed*GOLDEN+c with increment GOLDEN, so the streams of seeds s and s+1
	// are the same sequence shifted by one draw; forking through one mixed output decorrelates them
	c.Rng = c.Rng.Fork()

	// registered ECI values as the library reports them (run-time registry -> model parameter)
	var regs []int
	for v := 0; v < 900; v++ {
		if cs, err := common.GetCharacterSetECIByValue(v); err == nil && cs != nil {
			regs = append(regs, v)
		}
	}
	regArg := "reg=" + ints(regs)

	// ---- read order vs reference layout, positions for damage injection ----
	pos := map[c11Sz][]c11Pos{}
	var posMu sync.Mutex
	c.Parallel(len(sizes), 16, func(i int, _ *Rng) {
		sz := sizes[i]
		c.Cmp("layout", fmt.Sprintf("c11 layoutcheck %s %d", c11Kind(sz.compact), sz.layers),
			fmt.Sprintf("ok %d", c11TotalBits(sz.compact, sz.layers)))
		out := c.Model([]string{fmt.Sprintf("c11 pos %s %d", c11Kind(sz.compact), sz.layers)})[0]
		var ps []c11Pos
		for _, p := range strings.Split(out, ",") {
			xy := strings.Split(p, ":")
			if len(xy) == 2 {
				x, _ := strconv.Atoi(xy[0])
				y, _ := strconv.Atoi(xy[1])
				ps = append(ps, c11Pos{x, y})
			}
		}
		posMu.Lock()
		pos[sz] = ps
		posMu.Unlock()
	})

	// ---- reuse / history: ONE long-lived Decoder and ONE long-lived AztecReader over sequences of symbols ----
	// (a decoder must be a function of its argument: no state may leak from one symbol to the next).  The
	// orders deliberately alternate compact/full with EQUAL layer counts 1..4 (sizes that share every
	// per-layer-count quantity), then move to other sizes and come back, then random orders.
	{
		rr := c.Rng.Fork()
		var pool []*c11ReuseItem
		poolIdx := map[c11Sz][]int{}
		reuseSizes := []c11Sz{}
		for l := 1; l <= 4; l++ {
			reuseSizes = append(reuseSizes, c11Sz{true, l}, c11Sz{false, l})
		}
		for _, l := range []int{5, 8, 9, 12, 22, 23} {
			reuseSizes = append(reuseSizes, c11Sz{false, l})
		}
		for _, sz := range reuseSizes {
			for k := 0; k < 2; k++ {
				style := []int{0, 1, 2, 4}[rr.Intn(4)]
				txt := c11Text(rr, rr.Range(1, 9), style)
				arg := "t:" + hexs(txt)
				sym, errs := c11Ref(c, sz.compact, sz.layers, arg)
				if sym == nil {
					c.Note("reuse-ref:" + errs)
					continue
				}
				poolIdx[sz] = append(poolIdx[sz], len(pool))
				pool = append(pool, &c11ReuseItem{sz, arg, c11Latin1(txt), sym, c11Grid(sym.rows)})
			}
		}
		pick := func(sz c11Sz) *c11ReuseItem {
			ix := poolIdx[sz]
			if len(ix) == 0 {
				return nil
			}
			return pool[ix[rr.Intn(len(ix))]]
		}
		var seqs [][]*c11ReuseItem
		mk := func(szs ...c11Sz) {
			var q []*c11ReuseItem
			for _, sz := range szs {
				if it := pick(sz); it != nil {
					q = append(q, it)
				}
			}
			if len(q) > 0 {
				seqs = append(seqs, q)
			}
		}
		for l := 1; l <= 4; l++ {
			// full then compact with the same layer count, and the other way round, each on its own long-lived instance
			mk(c11Sz{false, l}, c11Sz{true, l}, c11Sz{false, l}, c11Sz{true, l})
			mk(c11Sz{true, l}, c11Sz{false, l}, c11Sz{true, l}, c11Sz{false, l})
		}
		// equal layer counts, then different sizes, then back
		mk(c11Sz{true, 1}, c11Sz{false, 1}, c11Sz{true, 2}, c11Sz{false, 2}, c11Sz{true, 3}, c11Sz{false, 3}, c11Sz{true, 4}, c11Sz{false, 4},
			c11Sz{false, 5}, c11Sz{true, 2}, c11Sz{false, 9}, c11Sz{true, 4}, c11Sz{false, 12}, c11Sz{false, 1}, c11Sz{false, 23}, c11Sz{true, 3},
			c11Sz{false, 4}, c11Sz{true, 4}, c11Sz{false, 3}, c11Sz{true, 3}, c11Sz{false, 2}, c11Sz{true, 2}, c11Sz{false, 1}, c11Sz{true, 1})
		mk(c11Sz{false, 22}, c11Sz{false, 23}, c11Sz{false, 8}, c11Sz{false, 9}, c11Sz{false, 2}, c11Sz{false, 3}, c11Sz{true, 2}, c11Sz{true, 3},
			c11Sz{false, 3}, c11Sz{false, 2}, c11Sz{false, 9}, c11Sz{false, 8}, c11Sz{false, 23}, c11Sz{false, 22})
		// random orders (small sizes three times as likely)
		for k := 0; k < c.Pick(12, 200); k++ {
			var szs []c11Sz
			for n := rr.Range(6, 24); n > 0; n-- {
				if rr.Chance(0.75) {
					szs = append(szs, reuseSizes[rr.Intn(8)])
				} else {
					szs = append(szs, reuseSizes[rr.Intn(len(reuseSizes))])
				}
			}
			mk(szs...)
		}
		seqRots := make([][]int, len(seqs))
		for i, q := range seqs {
			seqRots[i] = make([]int, len(q))
			for j := range q {
				seqRots[i][j] = rr.Intn(4)
			}
		}
		c.Parallel(len(seqs), 16, func(i int, _ *Rng) {
			// the image path on every other sequence in the quick tier (it costs ~20x the matrix path)
			c11RunReuse(c, seqs[i], seqRots[i], c.Thorough || i%2 == 0, false)
		})
	}

	// damage `ne` codewords of the symbol (stream index = startPad + word*w + bit)
	damage := func(r *Rng, sym *c11Sym, g [][]bool, ne int) [][]bool {
		sz := c11Sz{sym.compact, sym.layers}
		w := c11WordSize(sym.layers)
		total := c11TotalBits(sym.compact, sym.layers)
		nw := total / w
		pad := total % w
		ps := pos[sz]
		d := make([][]bool, len(g))
		for y := range g {
			d[y] = append([]bool(nil), g[y]...)
		}
		chosen := map[int]bool{}
		for len(chosen) < ne && len(chosen) < nw {
			chosen[r.Intn(nw)] = true
		}
		for wi := range chosen {
			pat := 1 + r.Intn((1<<uint(w))-1)
			if r.Chance(0.3) {
				pat = 1 << uint(r.Intn(w))
			}
			for b := 0; b < w; b++ {
				if pat&(1<<uint(b)) != 0 {
					idx := pad + wi*w + b
					if idx < len(ps) {
						p := ps[idx]
						d[p.y][p.x] = !d[p.y][p.x]
					}
				}
			}
		}
		return d
	}

	// one reference symbol through all paths
	type job struct {
		sz     c11Sz
		arg    string // t:<hex> or s:<script>
		want   string // expected Go string
		rots   []int
		scales []int
		inject bool
		tag    string
	}
	runJob := func(j job, r *Rng) {
		kind := c11Kind(j.sz.compact)
		sym, errs := c11Ref(c, j.sz.compact, j.sz.layers, j.arg)
		if sym == nil {
			c.Note("ref:" + errs)
			return
		}
		c.Note(fmt.Sprintf("size:%s-%02d", kind, j.sz.layers))
		c.Note("style:" + j.tag)
		nw := c11TotalBits(j.sz.compact, j.sz.layers) / c11WordSize(j.sz.layers)
		fill := 100 * sym.dw / nw
		c.Note(fmt.Sprintf("fill:%d0%%", fill/10))
		if sym.size != c11Size(j.sz.compact, j.sz.layers) {
			c.Oracle("ref", false, "ref-size", fmt.Sprintf("%s %d", kind, j.sz.layers), "reference symbol size disagrees with the standard's size table")
		}
		id := fmt.Sprintf("ref %s %d %s", kind, j.sz.layers, j.arg)
		g := c11Grid(sym.rows)
		// cross-check of the reference (evidence only, no verdict: the Aztec decoder does not use the encoder):
		// the reference check words = the library's own ReedSolomonEncoder over the field of this size
		// (theorem ref_parity_is_rs_encode, here on the real code), also for the mode message over GF(16)
		if len(sym.chk) > 0 && (c.Thorough || j.sz.layers <= 12 || r.Chance(0.3)) {
			if c11GoRSParity(c11WordSize(j.sz.layers), sym.words, len(sym.chk)) == ints(sym.chk) {
				c.Note("ref-rs-vs-go-encoder:agree")
			} else {
				c.Note("ref-rs-vs-go-encoder:DISAGREE " + id)
			}
		}
		if len(sym.mode) == 28 || len(sym.mode) == 40 {
			nd, nc := 2, 5
			if len(sym.mode) == 40 {
				nd, nc = 4, 6
			}
			mw := make([]int, nd+nc)
			for i := range mw {
				v, _ := strconv.ParseInt(sym.mode[4*i:4*i+4], 2, 32)
				mw[i] = int(v)
			}
			if c11GoRSParity(4, mw[:nd], nc) == ints(mw[nd:]) {
				c.Note("ref-mode-rs-vs-go-encoder:agree")
			} else {
				c.Note("ref-mode-rs-vs-go-encoder:DISAGREE " + id)
			}
		}
		// (a) decoder on the matrix
		out, text, ok := c11GoDecode(g, j.sz.compact, sym.dw, j.sz.layers)
		c.Oracle("decode", ok && text == j.want, fmt.Sprintf("decode-%s-%d", kind, j.sz.layers), id,
			fmt.Sprintf("Decoder.Decode on the reference matrix: got %s want text %s", c11Short(out), hexs([]byte(j.want))))
		// the model's list-based Reed-Solomon decoder is slow on big symbols: in the quick tier compare those 2 in 3
		cmpModel := c.Thorough || j.sz.layers <= 10 || r.Chance(0.67)
		if cmpModel {
			c11CmpNow(c, "decode", fmt.Sprintf("c11 decode %s %d %d %s %s", kind, j.sz.layers, sym.dw, strings.Join(sym.rows, "/"), regArg), out)
		}
		// high-level bits alone
		hb := make([]bool, len(sym.hl))
		for i := range hb {
			hb[i] = sym.hl[i] == '1'
		}
		ho := c11GoHLD(hb)
		c.Oracle("hld-ref", ho == "ok "+hexs([]byte(j.want)), "hld-ref", id, "HighLevelDecode(reference high-level bits): got "+c11Short(ho))
		hs := sym.hl
		if hs == "" {
			hs = "-"
		}
		c.CmpF("hld", "c11 hld "+hs+" "+regArg, ho, c11CmpSeg)
		// (b) reader on rendered images
		for _, sc := range j.scales {
			for _, rot := range j.rots {
				q := r.Range(2, 4)
				global := r.Chance(0.25)
				img := c11Render(c11Rotate(g, rot), sc, q)
				ro, rtext, rok := c11GoRead(img, global)
				good := rok && rtext == j.want
				detail := ""
				if !good {
					dd, bits := c11GoDetect(img)
					same := bits != nil && strings.Join(bits, "/") == strings.Join(sym.rows, "/")
					detail = fmt.Sprintf("AztecReader.Decode: got %s want %s; detector alone: %s (want compact=%v layers=%d dw=%d) sampled-grid-equals-reference=%v",
						c11Short(ro), hexs([]byte(j.want)), dd, j.sz.compact, j.sz.layers, sym.dw, same)
				}
				c.Note(fmt.Sprintf("read:scale%d-rot%d", sc, rot*90))
				c.Oracle("read", good, fmt.Sprintf("read-%s-%d-scale%d", kind, j.sz.layers, sc),
					fmt.Sprintf("%s scale=%d rot=%d quiet=%d global=%v", id, sc, rot*90, q, global), detail)
			}
		}
		// detector parameters vs the model's detector tail (one pose)
		if len(j.scales) > 0 {
			rot := r.Intn(4)
			img := c11Render(c11Rotate(g, rot), j.scales[0], 2)
			dd, bits := c11GoDetect(img)
			if strings.HasPrefix(dd, "ok") {
				// corner index holding the three orientation marks: upright = 3 (top-left)
				shift := (3 + rot) % 4
				mo := c.Model([]string{fmt.Sprintf("c11 detect %s %d %s", kind, shift, sym.mode)})[0]
				want := fmt.Sprintf("ok shift=%d layers=%d dw=%d", shift, sym.layers, sym.dw)
				goD := fmt.Sprintf("ok shift=%d %s", shift, strings.TrimPrefix(strings.Replace(dd, fmt.Sprintf("compact=%v ", j.sz.compact), "", 1), "ok "))
				_ = want
				c.mu.Lock()
				c.countCase("c11 detect " + id)
				c.res.ModelCompared++
				if mo != goD {
					c.res.NDisagreements++
					if len(c.res.Disagreements) < maxKeep {
						c.res.Disagreements = append(c.res.Disagreements, Disagreement{"detect", fmt.Sprintf("c11 detect %s %d %s", kind, shift, sym.mode), goD, mo})
					}
				}
				c.mu.Unlock()
				same := bits != nil && strings.Join(bits, "/") == strings.Join(sym.rows, "/")
				c.Oracle("detect-grid", same, fmt.Sprintf("detect-grid-%s-%d", kind, j.sz.layers), fmt.Sprintf("%s scale=%d rot=%d", id, j.scales[0], rot*90),
					"detector's sampled, de-rotated grid differs from the reference matrix")
			}
		}
		// (c) damaged codewords
		if j.inject {
			ec := nw - sym.dw
			for _, ne := range []int{ec / 2, r.Range(1, ec/2+1), ec/2 + 1 + r.Intn(3)} {
				if ne < 1 {
					continue
				}
				if ne > ec/2 && !c.Thorough && j.sz.layers > 12 {
					continue
				}
				d := damage(r.Fork(), sym, g, ne)
				out, text, ok := c11GoDecode(d, j.sz.compact, sym.dw, j.sz.layers)
				if ne <= ec/2 {
					c.Note("damage:within")
					c.Oracle("damage", ok && text == j.want, fmt.Sprintf("damage-%s-%d", kind, j.sz.layers),
						fmt.Sprintf("%s damaged=%d ec=%d matrix=%s", id, ne, ec, strings.Join(c11Rows(d), "/")),
						fmt.Sprintf("%d of %d check words' worth of damage (capacity %d): got %s", ne, ec, ec/2, c11Short(out)))
					if c.Thorough || j.sz.layers <= 6 {
						img := c11Render(c11Rotate(d, r.Intn(4)), 3, 2)
						_, rtext, rok := c11GoRead(img, false)
						c.Oracle("damage-read", rok && rtext == j.want, fmt.Sprintf("damage-read-%s-%d", kind, j.sz.layers),
							fmt.Sprintf("%s damaged=%d ec=%d matrix=%s", id, ne, ec, strings.Join(c11Rows(d), "/")), "reader on damaged symbol")
					}
				} else {
					c.Note("damage:beyond")
				}
				if c.Thorough || j.sz.layers <= 10 || (cmpModel && ne <= 60) {
					c11CmpNow(c, "decode-damaged", fmt.Sprintf("c11 decode %s %d %d %s %s", kind, j.sz.layers, sym.dw, strings.Join(c11Rows(d), "/"), regArg), out)
				}
			}
		}
	}

	var jobs []job
	r := c.Rng
	styleName := []string{"upper", "sentence", "digits", "binary", "mixed", "interleaved", "binruns"}
	// all 36 sizes x texts x 4 rotations
	nTexts := c.Pick(3, 20)
	scales := []int{3}
	if c.Thorough {
		scales = []int{2, 3, 4, 5}
	}
	for _, sz := range sizes {
		for t := 0; t < nTexts; t++ {
			style := r.Intn(7)
			capB := c11CapBytes(sz.compact, sz.layers, style)
			var n int
			switch t % 3 {
			case 0:
				n = r.Range(1, 3)
			case 1:
				n = capB * r.Range(35, 55) / 100
			default:
				n = capB * r.Range(93, 100) / 100
			}
			if n < 1 {
				n = 1
			}
			txt := c11Text(r, n, style)
			jobs = append(jobs, job{sz, "t:" + hexs(txt), c11Latin1(txt), []int{0, 1, 2, 3}, scales, t%3 != 2 || c.Thorough, styleName[style]})
		}
	}
	// random texts in random sizes that fit
	for i := 0; i < c.Pick(500, 4000); i++ {
		style := r.Intn(7)
		sz := sizes[r.Intn(len(sizes))]
		if r.Chance(0.5) {
			sz = sizes[r.Intn(12)] // small symbols are cheap: more of them
		}
		n := r.Range(1, c11CapBytes(sz.compact, sz.layers, style)+1)
		if r.Chance(0.5) {
			n = r.Range(1, 40)
		}
		txt := c11Text(r, n, style)
		sc := []int{3}
		if c.Thorough {
			sc = []int{r.Range(2, 5)}
		}
		jobs = append(jobs, job{sz, "t:" + hexs(txt), c11Latin1(txt), []int{r.Intn(4)}, sc, r.Chance(0.3), "rnd-" + styleName[style]})
	}
	// empty text
	jobs = append(jobs, job{c11Sz{true, 1}, "t:-", "", []int{0, 1, 2, 3}, []int{3}, true, "empty"})
	jobs = append(jobs, job{c11Sz{false, 1}, "t:-", "", []int{0}, []int{3}, true, "empty"})

	// scripted symbols: every latch/shift pair, two-byte codes, digit-mode quirks, FLG(0), binary shift forms
	nScripts := c.Pick(400, 6000)
	scriptArgs := make([]string, nScripts)
	for i := range scriptArgs {
		scriptArgs[i] = "s:" + c11Script(r, r.Range(1, 60), i%3 == 0, nil)
	}
	// hand-made scripts covering each table row and each control code at least once
	for m := c11U; m <= c11D; m++ {
		path := map[c11Mode]string{c11U: "", c11L: "LL,", c11M: "LM,", c11P: "LM,LP,", c11D: "LD,"}[m]
		all := path
		for code := 1; code <= c11LitMax[m]; code++ {
			all += fmt.Sprintf("c%d,", code)
		}
		scriptArgs = append(scriptArgs, "s:"+strings.TrimSuffix(all, ","))
		for _, t := range c11Latches[m] {
			scriptArgs = append(scriptArgs, fmt.Sprintf("s:%sc1,L%c,c2,c3", path, c11ModeLetter[t]))
		}
		for _, t := range c11Shifts[m] {
			for code := 1; code <= c11LitMax[t]; code++ {
				scriptArgs = append(scriptArgs, fmt.Sprintf("s:%sc2,S%c%d,c3", path, c11ModeLetter[t], code))
			}
		}
		if m == c11U || m == c11L || m == c11M {
			for _, ln := range []int{1, 30, 31, 32, 33, 62, 63, 200} {
				bs := make([]byte, ln)
				for j := range bs {
					bs[j] = byte(r.Intn(256))
				}
				scriptArgs = append(scriptArgs, fmt.Sprintf("s:%sc2,b%s,c3", path, hexs(bs)))
			}
		}
		if m == c11P {
			scriptArgs = append(scriptArgs, "s:"+path+"c6,f0:,c7")
		} else {
			scriptArgs = append(scriptArgs, "s:"+path+"c2,F0:,c3")
		}
	}
	scriptOuts := c.Model(func() []string {
		ls := make([]string, len(scriptArgs))
		for i, a := range scriptArgs {
			ls[i] = "c11 script " + a
		}
		return ls
	}())
	for i, a := range scriptArgs {
		f := strings.Split(scriptOuts[i], " ")
		if len(f) < 3 || f[0] != "ok" {
			c.Note("script:" + scriptOuts[i])
			continue
		}
		want, okw := c11ItemsText(f[3:])
		if !okw {
			continue
		}
		nbits := len(f[2])
		// smallest size that surely fits, or a random larger one
		var fit []c11Sz
		for _, sz := range sizes {
			w := c11WordSize(sz.layers)
			nw := c11TotalBits(sz.compact, sz.layers) / w
			lim := 2048
			if sz.compact {
				lim = 64
			}
			need := nbits/(w-1) + 2
			if need+3 <= nw && need <= lim {
				fit = append(fit, sz)
			}
		}
		if len(fit) == 0 {
			continue
		}
		sz := fit[0]
		if r.Chance(0.4) {
			sz = fit[r.Intn(len(fit))]
			if sz.layers > 16 && !c.Thorough {
				sz = fit[r.Intn(1+len(fit)/4)]
			}
		}
		jobs = append(jobs, job{sz, a, want, []int{r.Intn(4)}, []int{3}, r.Chance(0.2), "script"})
	}

	c.Parallel(len(jobs), 16, func(i int, rr *Rng) { runJob(jobs[i], rr) })

	// ---- HighLevelDecode on arbitrary bit vectors vs the model (totality is property C06) ----
	hld := func(bits []bool, tag string) {
		out := c11GoHLD(bits)
		s := bitsStr(bits)
		if s == "" {
			s = "-"
		}
		c.CmpF("hld", "c11 hld "+s+" "+regArg, out, c11CmpSeg)
		key := "aztec-hld-panic"
		if len(bits) <= 1 {
			key = "aztec-hld-short-input"
		} else if out == "PANIC" {
			key = "aztec-flg-unregistered-eci"
		}
		c.Oracle("hld-total", out != "PANIC", key, "hld "+s, "HighLevelDecode panicked (C06: decoding is total)")
		switch {
		case strings.HasPrefix(out, "ok"):
			c.Note("hld:" + tag + ":ok")
		default:
			c.Note("hld:" + tag + ":" + out)
		}
	}
	bitsOf := func(v, n int) []bool {
		b := make([]bool, n)
		for i := 0; i < n; i++ {
			b[i] = v&(1<<uint(n-1-i)) != 0
		}
		return b
	}
	// corpus first: minimised past failures (corpus/C11/hld.txt next to the harness directory) + built-in copies
	corpus := []string{"-", "0", "1", "00000000000011010", "000000000001110101011101110", "000000000001110110010001000", "0000000000111", "000000000010000100011", "1111111111", "11110111111111"}
	if exe, err := os.Executable(); err == nil {
		if data, err := os.ReadFile(filepath.Join(filepath.Dir(exe), "..", "corpus", "C11", "hld.txt")); err == nil {
			for _, l := range strings.Split(string(data), "\n") {
				l = strings.TrimSpace(l)
				if l != "" && !strings.HasPrefix(l, "#") {
					corpus = append(corpus, l)
				}
			}
		}
	}
	for _, l := range corpus {
		var b []bool
		for _, ch := range l {
			if ch == '0' || ch == '1' {
				b = append(b, ch == '1')
			}
		}
		hld(b, "corpus")
	}
	// every vector of length 0..12
	for n := 0; n <= c.Pick(12, 16); n++ {
		for v := 0; v < 1<<uint(n); v++ {
			hld(bitsOf(v, n), "tiny")
		}
	}
	// FLG(n) in Punct via P/S (00000 00000 nnn) with every digit-count, digit values incl. invalid codes
	for n := 0; n <= 7; n++ {
		for it := 0; it < c.Pick(120, 3000); it++ {
			b := append(bitsOf(0, 5), bitsOf(0, 5)...)
			b = append(b, bitsOf(n, 3)...)
			nd := n
			if r.Chance(0.2) {
				nd = r.Intn(8)
			}
			val := -1
			if n >= 1 && n <= 6 && r.Chance(0.6) {
				// a registered value, zero-padded to n digits
				v := regs[r.Intn(len(regs))]
				if r.Chance(0.3) {
					v = r.Intn(1000)
				}
				s := fmt.Sprintf("%0*d", n, v)
				if len(s) == n {
					val = v
					for _, ch := range s {
						b = append(b, bitsOf(int(ch-'0')+2, 4)...)
					}
				}
			}
			if val < 0 {
				for i := 0; i < nd; i++ {
					d := r.Range(2, 11)
					if r.Chance(0.05) {
						d = r.Intn(16)
					}
					b = append(b, bitsOf(d, 4)...)
				}
			}
			// some text after the flag: upper letters, then binary shift with high bytes
			for i := r.Intn(4); i > 0; i-- {
				b = append(b, bitsOf(r.Range(2, 27), 5)...)
			}
			if r.Chance(0.5) {
				b = append(b, bitsOf(31, 5)...)
				k := r.Range(1, 4)
				b = append(b, bitsOf(k, 5)...)
				for i := 0; i < k; i++ {
					b = append(b, bitsOf(r.Intn(256), 8)...)
				}
			}
			if r.Chance(0.2) && len(b) > 14 {
				b = b[:r.Range(13, len(b))]
			}
			hld(b, fmt.Sprintf("flg%d", n))
		}
	}
	// FLG(n) digit codes exhaustively: every 4-bit code in each of the last three digit positions
	// (leading positions '0'), followed by one upper letter — the boundaries 2 and 11 of "decimal digit"
	for n := 1; n <= 6; n++ {
		k := n
		if k > 3 {
			k = 3
		}
		if !c.Thorough && n > 4 {
			k = 2
		}
		for v := 0; v < 1<<uint(4*k); v++ {
			b := append(bitsOf(0, 5), bitsOf(0, 5)...)
			b = append(b, bitsOf(n, 3)...)
			for i := 0; i < n-k; i++ {
				b = append(b, bitsOf(2, 4)...)
			}
			b = append(b, bitsOf(v, 4*k)...)
			b = append(b, bitsOf(2+v%26, 5)...)
			hld(b, fmt.Sprintf("flgdigits%d", n))
		}
	}
	// random vectors, random code sequences, mutated reference bit strings
	for it := 0; it < c.Pick(6000, 300000); it++ {
		var b []bool
		switch it % 3 {
		case 0:
			n := r.Intn(200)
			b = make([]bool, n)
			p := []float64{0.5, 0.2, 0.8}[r.Intn(3)]
			for i := range b {
				b[i] = r.Chance(p)
			}
			hld(b, "random")
		case 1:
			for k := r.Range(1, 30); k > 0; k-- {
				b = append(b, bitsOf(r.Intn(32), 5)...)
				if r.Chance(0.1) {
					b = append(b, bitsOf(r.Intn(16), 4)...)
				}
			}
			hld(b, "codes")
		default:
			a := scriptOuts[r.Intn(len(scriptOuts))]
			f := strings.Split(a, " ")
			if len(f) < 3 || f[0] != "ok" || f[2] == "-" {
				continue
			}
			b = make([]bool, len(f[2]))
			for i := range b {
				b[i] = f[2][i] == '1'
			}
			switch r.Intn(4) {
			case 0:
				b = b[:r.Intn(len(b)+1)]
			case 1:
				for k := r.Range(1, 3); k > 0; k-- {
					i := r.Intn(len(b))
					b[i] = !b[i]
				}
			case 2:
				i := r.Intn(len(b) + 1)
				b = append(b[:i:i], append([]bool{r.Bool()}, b[i:]...)...)
			default:
				for k := r.Intn(12); k > 0; k-- {
					b = append(b, true)
				}
			}
			hld(b, "mutated")
		}
	}
	// ECI scripts (correspondence only: the text codecs are assumed)
	for it := 0; it < c.Pick(300, 5000); it++ {
		a := "s:" + c11Script(r, r.Range(2, 25), true, regs)
		o := c.Model([]string{"c11 script " + a})[0]
		f := strings.Split(o, " ")
		if len(f) < 3 || f[0] != "ok" || f[2] == "-" {
			continue
		}
		b := make([]bool, len(f[2]))
		for i := range b {
			b[i] = f[2][i] == '1'
		}
		hld(b, "eci-script")
	}

	// ---- Decode on random matrices (extractBits exposed through rawBytes when there are no check words) ----
	nRand := c.Pick(600, 8000)
	c.Parallel(nRand, 16, func(i int, rr *Rng) {
		sz := sizes[rr.Intn(len(sizes))]
		if sz.layers > 10 && rr.Chance(0.7) {
			sz = sizes[rr.Intn(14)]
		}
		n := c11Size(sz.compact, sz.layers)
		g := make([][]bool, n)
		p := []float64{0.5, 0.5, 0.3, 0.7}[rr.Intn(4)]
		for y := range g {
			g[y] = make([]bool, n)
			for x := range g[y] {
				g[y][x] = rr.Chance(p)
			}
		}
		nw := c11TotalBits(sz.compact, sz.layers) / c11WordSize(sz.layers)
		dw := nw
		switch rr.Intn(6) {
		case 0:
			dw = rr.Range(1, nw)
		case 1:
			dw = nw + rr.Range(1, 3)
		case 2:
			dw = nw - rr.Range(0, 2)
			if dw < 0 {
				dw = 0
			}
		}
		out, _, _ := c11GoDecode(g, sz.compact, dw, sz.layers)
		if strings.HasPrefix(out, "ok") {
			c.Note("rawmatrix:ok")
		} else {
			c.Note("rawmatrix:" + out)
		}
		c11CmpNow(c, "decode-random", fmt.Sprintf("c11 decode %s %d %d %s %s", c11Kind(sz.compact), sz.layers, dw, strings.Join(c11Rows(g), "/"), regArg), out)
	})
}

func c11Short(s string) string {
	if len(s) > 160 {
		return s[:160] + "..."
	}
	return s
}
