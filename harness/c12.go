package main

// C12 — encoding is total: any content, size and hints give a symbol or an error.
//
// ORACLE on the real code: all 11 writers under recover + watchdog. Verdict per call = returns in time,
// no panic, exactly one of (matrix != nil, err != nil), matrix dims >= natural symbol dims, and for
// QR / 1-D also >= max(requested, 1).
// CORRESPONDENCE: outcome class (ok WxH / ERR:kind / PANIC) of the real writer vs. the Lean model of the
// writer FRONT END (argument validation, hint parsing by type switch, NewWriterException's type assertion,
// rendering arithmetic); the encoder core's own outcome (ok + natural dims / error) is measured on the real
// code (0x0, margin-0 call of the same writer) and handed to the model as data.
//
// Reading of "any hint values of the accepted types" (specs/C12.json): every dynamic Go type is generated for
// every key. Each writer handles every type through a type switch / comma-ok chain, a %v formatting
// (CHARACTER_SET) or an else-branch that returns an error or ignores the value; since the repair of Code 128's
// unchecked `codeSetHint.(string)` no combination is excluded.

import (
	"fmt"
	"regexp"
	"strconv"
	"strings"
	"sync/atomic"
	"time"
	"unicode/utf8"

	"github.com/makiuchi-d/gozxing"
	"github.com/makiuchi-d/gozxing/common"
	"github.com/makiuchi-d/gozxing/datamatrix"
	dmencoder "github.com/makiuchi-d/gozxing/datamatrix/encoder"
	"github.com/makiuchi-d/gozxing/oned"
	"github.com/makiuchi-d/gozxing/qrcode"
	qrdecoder "github.com/makiuchi-d/gozxing/qrcode/decoder"
)

func init() { suites["C12"] = runC12 }

type c12Writer struct {
	name   string
	kind   string // qr, dm, 1d
	w      gozxing.Writer
	format gozxing.BarcodeFormat
}

func c12Writers() []c12Writer {
	return []c12Writer{
		{"QR", "qr", qrcode.NewQRCodeWriter(), gozxing.BarcodeFormat_QR_CODE},
		{"DM", "dm", datamatrix.NewDataMatrixWriter(), gozxing.BarcodeFormat_DATA_MATRIX},
		{"CODE_128", "1d", oned.NewCode128Writer(), gozxing.BarcodeFormat_CODE_128},
		{"CODE_39", "1d", oned.NewCode39Writer(), gozxing.BarcodeFormat_CODE_39},
		{"CODE_93", "1d", oned.NewCode93Writer(), gozxing.BarcodeFormat_CODE_93},
		{"CODABAR", "1d", oned.NewCodaBarWriter(), gozxing.BarcodeFormat_CODABAR},
		{"ITF", "1d", oned.NewITFWriter(), gozxing.BarcodeFormat_ITF},
		{"EAN_13", "1d", oned.NewEAN13Writer(), gozxing.BarcodeFormat_EAN_13},
		{"EAN_8", "1d", oned.NewEAN8Writer(), gozxing.BarcodeFormat_EAN_8},
		{"UPC_A", "1d", oned.NewUPCAWriter(), gozxing.BarcodeFormat_UPC_A},
		{"UPC_E", "1d", oned.NewUPCEWriter(), gozxing.BarcodeFormat_UPC_E},
	}
}

// ---------- hint values with a canonical text form shared with the Lean driver ----------

type c12Hint struct {
	key gozxing.EncodeHintType
	val interface{}
	enc string // int:<n> | str:<hex> | bool:<0|1> | other:<tag>[:a:b]
}

var c12Keys = []gozxing.EncodeHintType{
	gozxing.EncodeHintType_ERROR_CORRECTION, gozxing.EncodeHintType_CHARACTER_SET, gozxing.EncodeHintType_MARGIN,
	gozxing.EncodeHintType_QR_VERSION, gozxing.EncodeHintType_QR_MASK_PATTERN, gozxing.EncodeHintType_GS1_FORMAT,
	gozxing.EncodeHintType_DATA_MATRIX_SHAPE, gozxing.EncodeHintType_MIN_SIZE, gozxing.EncodeHintType_MAX_SIZE,
	gozxing.EncodeHintType_FORCE_CODE_SET,
}

func c12Int(i int) (interface{}, string)    { return i, fmt.Sprintf("int:%d", i) }
func c12Str(s string) (interface{}, string) { return s, "str:" + hexs([]byte(s)) }
func c12Bool(b bool) (interface{}, string) {
	if b {
		return b, "bool:1"
	}
	return b, "bool:0"
}

type c12Stringer struct{ s string }

func (x c12Stringer) String() string { return x.s }

// values of Go types no writer mentions (for keys where the code routes them to an error or ignores them)
func c12Odd(r *Rng) (interface{}, string) {
	switch r.Intn(7) {
	case 0:
		return 1.5, "other:float"
	case 1:
		return nil, "other:nil"
	case 2:
		return []byte("UTF-8"), "other:bytes"
	case 3:
		return struct{ A int }{7}, "other:struct"
	case 4:
		return int64(3), "other:int64"
	case 5:
		return c12Stringer{"UTF-8"}, "other:stringer" // %v prints UTF-8
	}
	return uint8(2), "other:uint8"
}

func c12Dim(w, h int) (interface{}, string) {
	d, e := gozxing.NewDimension(w, h)
	if e != nil {
		return (*gozxing.Dimension)(nil), "other:dimnil"
	}
	return d, fmt.Sprintf("other:dim:%d:%d", w, h)
}

var c12DimChoices = [][2]int{{0, 0}, {1, 1}, {8, 8}, {10, 10}, {12, 12}, {8, 18}, {18, 8}, {12, 26}, {16, 48}, {24, 24}, {26, 26}, {32, 32}, {52, 52}, {88, 88}, {132, 132}, {144, 144}, {145, 145}, {200, 200}, {10, 200}, {200, 10}, {2000, 2000}}

// c12GenHint draws one value for `key`; inStatement=false marks a value outside the property's quantifier.
func c12GenHint(r *Rng, key gozxing.EncodeHintType, symLen int) (v interface{}, enc string, inStatement bool) {
	inStatement = true
	switch key {
	case gozxing.EncodeHintType_ERROR_CORRECTION:
		switch r.Intn(10) {
		case 0, 1, 2, 3:
			l := []qrdecoder.ErrorCorrectionLevel{qrdecoder.ErrorCorrectionLevel_L, qrdecoder.ErrorCorrectionLevel_M, qrdecoder.ErrorCorrectionLevel_Q, qrdecoder.ErrorCorrectionLevel_H}[r.Intn(4)]
			return l, fmt.Sprintf("other:ecl:%d", int(l)), true
		case 4, 5:
			v, enc = c12Str(r.PickS([]string{"L", "M", "Q", "H"}))
		case 6:
			v, enc = c12Str(r.PickS([]string{"", "X", "l", "LL", "L ", "7"}))
		case 7:
			l := qrdecoder.ErrorCorrectionLevel(c12PickI(r, []int{4, -1, 99, 7}))
			return l, fmt.Sprintf("other:ecl:%d", int(l)), true
		case 8:
			v, enc = c12Int(r.Range(0, 8)) // Aztec/PDF417 style integer: the QR writer answers with an error
		default:
			v, enc = c12Odd(r)
		}
	case gozxing.EncodeHintType_CHARACTER_SET:
		switch r.Intn(10) {
		case 0, 1, 2, 3:
			v, enc = c12Str(r.PickS([]string{"UTF-8", "ISO-8859-1", "Shift_JIS", "SJIS", "ASCII", "US-ASCII", "Cp437", "ISO-8859-5", "GB2312", "EUC-KR", "Big5", "UTF-16BE", "windows-1252", "ISO8859_15"}))
		case 4, 5:
			v, enc = c12Str(r.PickS([]string{"", "utf9", "%d", "%s%s%n", "utf-8", " UTF-8", "\xff\xfe"}))
		case 6:
			v, enc = c12Int(r.Range(-2, 30))
		case 7:
			v, enc = c12Bool(r.Bool())
		default:
			v, enc = c12Odd(r) // every type is formatted with %v
		}
	case gozxing.EncodeHintType_MARGIN:
		switch r.Intn(12) {
		case 0, 1, 2:
			v, enc = c12Int(r.Range(0, 20))
		case 3:
			v, enc = c12Int(c12PickI(r, []int{100, 500, 1000, 2000}))
		case 4:
			v, enc = c12Int(-r.Range(1, 30))
		case 5:
			// the divisor-zeroing margins: -len(code) and neighbours (len(code) learnt from the reference call)
			v, enc = c12Int(-symLen + r.Range(-1, 1))
		case 6:
			v, enc = c12Int(-c12PickI(r, []int{35, 46, 51, 67, 95, 100, 1000}))
		case 7, 8:
			v, enc = c12Str(fmt.Sprint(r.Range(-12, 25)))
		case 9:
			v, enc = c12Str(r.PickS([]string{"", "abc", "1e3", " 5", "+7", "-0", "99999999999999999999", "-99999999999999999999", "0x10", "4.0", "1_0", "٣", "007", "-", "+"}))
		case 10:
			v, enc = c12Str(fmt.Sprint(-symLen))
		default:
			v, enc = c12Odd(r)
			if r.Bool() {
				v, enc = c12Bool(r.Bool())
			}
		}
	case gozxing.EncodeHintType_QR_VERSION:
		switch r.Intn(8) {
		case 0, 1, 2:
			v, enc = c12Int(r.Range(1, 40))
		case 3:
			v, enc = c12Int(c12PickI(r, []int{0, -1, 41, 100, -40}))
		case 4, 5:
			v, enc = c12Str(r.PickS([]string{"1", "5", "10", "40", "0", "41", "-3", "abc", "", "4.5", "+7"}))
		case 6:
			v, enc = c12Bool(r.Bool())
		default:
			v, enc = c12Odd(r)
		}
	case gozxing.EncodeHintType_QR_MASK_PATTERN:
		switch r.Intn(6) {
		case 0, 1:
			v, enc = c12Int(r.Range(0, 7))
		case 2:
			v, enc = c12Int(c12PickI(r, []int{-1, 8, -2, 100}))
		case 3, 4:
			v, enc = c12Str(r.PickS([]string{"0", "3", "7", "8", "-1", "x", ""}))
		default:
			v, enc = c12Odd(r)
		}
	case gozxing.EncodeHintType_GS1_FORMAT:
		switch r.Intn(5) {
		case 0, 1:
			v, enc = c12Bool(r.Bool())
		case 2, 3:
			v, enc = c12Str(r.PickS([]string{"true", "false", "1", "0", "T", "x", "", "TRUE"}))
		default:
			v, enc = c12Odd(r)
			if r.Bool() {
				v, enc = c12Int(r.Range(0, 1))
			}
		}
	case gozxing.EncodeHintType_DATA_MATRIX_SHAPE:
		switch r.Intn(6) {
		case 0, 1, 2:
			s := dmencoder.SymbolShapeHint(r.Range(0, 2))
			return s, fmt.Sprintf("other:shape:%d", int(s)), true
		case 3:
			s := dmencoder.SymbolShapeHint(c12PickI(r, []int{3, -1, 99}))
			return s, fmt.Sprintf("other:shape:%d", int(s)), true
		case 4:
			v, enc = c12Str(r.PickS([]string{"FORCE_SQUARE", "rect", ""}))
		default:
			v, enc = c12Int(r.Range(0, 2))
		}
	case gozxing.EncodeHintType_MIN_SIZE, gozxing.EncodeHintType_MAX_SIZE:
		switch r.Intn(8) {
		case 0, 1, 2, 3, 4:
			d := c12DimChoices[r.Intn(len(c12DimChoices))]
			v, enc = c12Dim(d[0], d[1])
		case 5:
			v, enc = c12Dim(r.Range(0, 150), r.Range(0, 150))
		case 6:
			v, enc = (*gozxing.Dimension)(nil), "other:dimnil"
		default:
			v, enc = c12Odd(r)
			if r.Bool() {
				v, enc = c12Str("10x10")
			}
		}
	case gozxing.EncodeHintType_FORCE_CODE_SET:
		switch r.Intn(8) {
		case 0, 1, 2, 3, 4:
			v, enc = c12Str(r.PickS([]string{"A", "B", "C"}))
		case 5, 6:
			v, enc = c12Str(r.PickS([]string{"", "D", "a", "AB", "c", "C "}))
		default:
			// not a string: every writer must answer with an error or ignore it (Code 128: error)
			v, enc = c12Odd(r)
			if r.Bool() {
				v, enc = c12Int(r.Range(0, 3))
			}
		}
	}
	return
}

func c12PickI(r *Rng, xs []int) int { return xs[r.Intn(len(xs))] }

// ---------- contents ----------

func c12Digits(r *Rng, n int) string {
	b := make([]byte, n)
	for i := range b {
		b[i] = byte('0' + r.Intn(10))
	}
	return string(b)
}

func c12From(r *Rng, alphabet string, n int) string {
	rs := []rune(alphabet)
	var sb strings.Builder
	for i := 0; i < n; i++ {
		sb.WriteRune(rs[r.Intn(len(rs))])
	}
	return sb.String()
}

func c12UPCEANCheck(s string) string {
	sum := 0
	for i := len(s) - 1; i >= 0; i -= 2 {
		sum += int(s[i] - '0')
	}
	sum *= 3
	for i := len(s) - 2; i >= 0; i -= 2 {
		sum += int(s[i] - '0')
	}
	return s + string(rune('0'+(1000-sum)%10))
}

func c12LogLen(r *Rng, max int) int {
	// log-uniform length in 1..max
	bits := 1
	for (1 << uint(bits)) < max {
		bits++
	}
	hi := 1 << uint(r.Range(1, bits))
	if hi > max {
		hi = max
	}
	return r.Range(1, hi)
}

const c12Code39 = "0123456789ABCDEFGHIJKLMNOPQRSTUVWXYZ-. $/+%"
const c12Ascii = " !\"#$%&'()*+,-./0123456789:;<=>?@ABCDEFGHIJKLMNOPQRSTUVWXYZ[\\]^_`abcdefghijklmnopqrstuvwxyz{|}~"

// a content that the symbology accepts (success path)
func c12Valid(r *Rng, w c12Writer) string {
	switch w.name {
	case "QR":
		n := c12LogLen(r, 300)
		switch r.Intn(5) {
		case 0:
			return c12Digits(r, n)
		case 1:
			return c12From(r, "0123456789ABCDEFGHIJKLMNOPQRSTUVWXYZ $%*+-./:", n)
		case 2:
			return c12From(r, "日本語テキスト漢字点茗荷", c12LogLen(r, 60))
		case 3:
			return c12From(r, c12Ascii+"äöüßéè€Ж", n)
		}
		return c12From(r, c12Ascii, n)
	case "DM":
		n := c12LogLen(r, 200)
		switch r.Intn(11) {
		case 0:
			return c12Digits(r, n)
		case 1:
			return c12From(r, "ABCDEFGHIJKLMNOPQRSTUVWXYZ0123456789 ", n) // C40
		case 2:
			return c12From(r, "abcdefghijklmnopqrstuvwxyz0123456789 ", n) // Text
		case 3:
			return c12From(r, "ABCDEFGHIJKLMNOPQRSTUVWXYZ0123456789 \r*>", n) // X12
		case 4:
			return c12From(r, "@ABCDEFGHIJKLMNOPQRSTUVWXYZ[\\]^ !\"#$%&'()*+,-./0123456789:;<=>?", n) // EDIFACT
		case 5:
			return c12From(r, "\u0080\u0081 ÿéü", c12LogLen(r, 80)) // Base 256 (Latin-1 high half)
		case 8, 9: // a run native to one encodation mode, one intruder the mode cannot encode, a short native tail:
			// the mode encoders look ahead only at triplet / quadruplet boundaries
			native := []string{
				"@ABCDEFGHIJKLMNOPQRSTUVWXYZ[\\]^ !\"#$%&'()*+,-./0123456789:;<=>?", // EDIFACT
				"+'=/\"#&(),:;<?[]^",                        // EDIFACT-only punctuation
				"ABCDEFGHIJKLMNOPQRSTUVWXYZ0123456789 \r*>", // X12
				"ABCDEFGHIJKLMNOPQRSTUVWXYZ0123456789 ",     // C40
				"abcdefghijklmnopqrstuvwxyz0123456789 ",     // Text
			}[r.Intn(5)]
			intruders := "\r*>az_`{~\x00\x1e\x7f\u0080\u00ff9A !"
			var sb strings.Builder
			sb.WriteString(c12From(r, native, r.Range(3, 24)))
			for k := r.Range(1, 3); k > 0; k-- {
				sb.WriteString(c12From(r, intruders, r.Range(1, 2)))
				sb.WriteString(c12From(r, native, r.Range(0, 9)))
			}
			return sb.String()
		case 6, 7: // mode mixtures: short runs drawn from the character classes the six encodation modes care about
			classes := []string{
				"0123456789", "ABCDEFGHIJKLMNOPQRSTUVWXYZ", "abcdefghijklmnopqrstuvwxyz", " ", "\r*>", "\r",
				"!\"#$%&'()+,-./:;<=?@[\\]^_", "`{|}~\x7f", "\x00\x01\x1d\x1e\x1f", "\u0080\u00a0\u00e9\u00ff",
			}
			var sb strings.Builder
			for sb.Len() < n {
				sb.WriteString(c12From(r, classes[r.Intn(len(classes))], r.Range(1, 7)))
			}
			return sb.String()
		}
		return c12From(r, c12Ascii, n)
	case "CODE_128":
		n := r.Range(1, 80)
		switch r.Intn(4) {
		case 0:
			return c12Digits(r, n)
		case 1:
			return c12From(r, c12Ascii+"ñòóô", n)
		case 2:
			return c12From(r, "0123456789ñ", n)
		}
		return c12From(r, c12Ascii+"\x01\x1f\x7f", n)
	case "CODE_39":
		if r.Chance(0.3) {
			return c12From(r, c12Ascii+"\x00\x1b", r.Range(1, 40))
		}
		return c12From(r, c12Code39, r.Range(1, 80))
	case "CODE_93":
		if r.Chance(0.3) {
			return c12From(r, c12Ascii+"\x00\x1b", r.Range(1, 40))
		}
		return c12From(r, c12Code39, r.Range(1, 80))
	case "CODABAR":
		body := c12From(r, "0123456789-$:/.+", r.Range(1, 30))
		switch r.Intn(3) {
		case 0:
			return body
		case 1:
			return string("ABCD"[r.Intn(4)]) + body + string("ABCD"[r.Intn(4)])
		}
		return string("TN*E"[r.Intn(4)]) + body + string("TN*E"[r.Intn(4)])
	case "ITF":
		return c12Digits(r, 2*r.Range(1, 40))
	case "EAN_13":
		if r.Bool() {
			return c12Digits(r, 12)
		}
		return c12UPCEANCheck(c12Digits(r, 12))
	case "EAN_8":
		if r.Bool() {
			return c12Digits(r, 7)
		}
		return c12UPCEANCheck(c12Digits(r, 7))
	case "UPC_A":
		if r.Bool() {
			return c12Digits(r, 11)
		}
		return c12UPCEANCheck(c12Digits(r, 11))
	case "UPC_E":
		s := string("01"[r.Intn(2)]) + c12Digits(r, 6)
		if r.Bool() {
			return s
		}
		// 8 digits: the check digit is the one of the expanded UPC-A number; try all ten
		for d := 0; d < 10; d++ {
			c := s + string(rune('0'+d))
			if m, e := w.w.Encode(c, w.format, 0, 0, nil); e == nil && m != nil {
				return c
			}
		}
		return s
	}
	return "1"
}

func c12Content(r *Rng, w c12Writer) (string, string) {
	p := r.Intn(100)
	switch w.name {
	case "EAN_13", "EAN_8", "UPC_A", "UPC_E", "ITF":
		// fixed-shape symbologies: random contents almost never hit the success path
		if p >= 52 && r.Chance(0.3) {
			p = 10
		}
	}
	switch {
	case p < 4:
		return "", "empty"
	case p < 52:
		return c12Valid(r, w), "valid-shaped"
	case p < 60: // arbitrary bytes incl. invalid UTF-8
		n := c12LogLen(r, 4000)
		b := make([]byte, n)
		for i := range b {
			b[i] = byte(r.Intn(256))
		}
		return string(b), "bytes"
	case p < 63:
		return c12From(r, "日本語のテキストКириллица한국어😀ع", c12LogLen(r, 700)), "non-latin"
	case p < 66: // right Unicode class, wrong alphabet: non-ASCII digits / capitals mixed with ASCII ones, at the lengths the symbologies accept
		n := c12PickI(r, []int{2, 4, 6, 7, 8, 11, 12, 13, 14, r.Range(1, 40)})
		return c12From(r, "0123456789٠١٢٣٤٥٦٧٨٩０１２３４５６７８９𝟎𝟗ＡＢÄΩ-$", n), "unicode-lookalikes"
	case p < 76:
		return c12Digits(r, c12LogLen(r, 4000)), "digits"
	case p < 82: // digit strings of the lengths the fixed-length symbologies look at
		return c12Digits(r, c12PickI(r, []int{1, 2, 6, 7, 8, 9, 11, 12, 13, 14, 79, 80, 81, 82})), "digits-boundary"
	case p < 90:
		return c12From(r, c12Ascii, c12LogLen(r, 4000)), "ascii"
	case p < 94: // valid content damaged by one foreign character
		s := c12Valid(r, w)
		rs := []rune(s)
		if len(rs) > 0 {
			rs[r.Intn(len(rs))] = []rune("xñ\x00é日*")[r.Intn(6)]
		}
		return string(rs), "valid-damaged"
	case p < 97: // long runs of one DM/QR mode
		return strings.Repeat(c12From(r, "A1a*\r >@é", 1), c12LogLen(r, 4000)), "run"
	default:
		return strings.Repeat(c12Valid(r, w), r.Range(2, 30)), "valid-repeated"
	}
}

func c12Size(r *Rng) int {
	switch p := r.Intn(20); {
	case p == 0:
		return -3
	case p == 1:
		return -1
	case p < 5:
		return 0
	case p < 8:
		return r.Range(1, 3)
	case p < 14:
		return r.Range(1, 200)
	case p == 14:
		return 2000
	default:
		return r.Range(1, 2000)
	}
}

var c12NumRe = regexp.MustCompile(`[0-9]+`)

// c12Call runs one Encode under recover + watchdog; returns the matrix (or nil) and a class string:
// "ok WxH" | "ERR:<kind>" | "PANIC:<message class>" | "TIMEOUT" | "NEITHER" | "BOTH"
func c12Call(d time.Duration, w gozxing.Writer, contents string, f gozxing.BarcodeFormat, width, height int, hints c14Hints) string {
	ch := make(chan string, 1)
	go func() {
		defer func() {
			if p := recover(); p != nil {
				msg := fmt.Sprint(p)
				if i := strings.Index(msg, "\n"); i >= 0 {
					msg = msg[:i]
				}
				if len(msg) > 80 {
					msg = msg[:80]
				}
				ch <- "PANIC:" + c12NumRe.ReplaceAllString(msg, "N")
			}
		}()
		m, e := w.Encode(contents, f, width, height, hints)
		switch {
		case m != nil && e != nil:
			ch <- "BOTH"
		case m == nil && e == nil:
			ch <- "NEITHER"
		case e != nil:
			k := errKind(e)
			if k != "writer" {
				k = "other"
			}
			ch <- "ERR:" + k
		default:
			ch <- fmt.Sprintf("ok %dx%d", m.GetWidth(), m.GetHeight())
		}
	}()
	select {
	case s := <-ch:
		return s
	case <-time.After(d):
		return "TIMEOUT"
	}
}

func c12PanicClass(out string) string {
	switch {
	case strings.Contains(out, "divide by zero"):
		return "divide-by-zero"
	case strings.Contains(out, "interface conversion"):
		return "type-assertion"
	case strings.Contains(out, "index out of range"), strings.Contains(out, "slice bounds"):
		return "index-out-of-range"
	case strings.Contains(out, "nil pointer"):
		return "nil-dereference"
	case strings.Contains(out, "makeslice"):
		return "makeslice"
	}
	return "other"
}

type c12Case struct {
	w         c12Writer
	contents  string
	cclass    string
	format    gozxing.BarcodeFormat
	width     int
	height    int
	hints     []c12Hint
	nilMap    bool
	inStmt    bool
	knownHang bool // corpus witness of a known hang: no reference call, no 10x retry (every hung call leaks a spinning goroutine)
}

func (k *c12Case) hintMap() c14Hints {
	if k.nilMap {
		return nil
	}
	m := c14Hints{}
	for _, h := range k.hints {
		m[h.key] = h.val
	}
	return m
}

func (k *c12Case) hintEnc() string {
	if len(k.hints) == 0 {
		return "-"
	}
	ss := make([]string, len(k.hints))
	for i, h := range k.hints {
		ss[i] = h.key.String() + "=" + h.enc
	}
	return strings.Join(ss, ",")
}

func (k *c12Case) input() string {
	return fmt.Sprintf("writer=%s format=%d width=%d height=%d hints=[%s] contents=%s", k.w.name, int(k.format), k.width, k.height, k.hintEnc(), hexs([]byte(k.contents)))
}

func c12ParseDims(s string) (int, int, bool) {
	var a, b int
	if n, _ := fmt.Sscanf(s, "ok %dx%d", &a, &b); n == 2 {
		return a, b, true
	}
	return 0, 0, false
}

func c12RefHints(k *c12Case, hints c14Hints) c14Hints {
	rh := c14Hints{}
	for kk, v := range hints {
		rh[kk] = v
	}
	if k.w.kind != "dm" {
		rh[gozxing.EncodeHintType_MARGIN] = 0
	}
	return rh
}

// c12Run judges one case (oracle) and queues the correspondence line.
func c12Run(c *Ctx, k *c12Case, d time.Duration) {
	hints := k.hintMap()
	// reference call: the encoder core's own outcome and the natural symbol size (0x0 request, margin 0, own format)
	ref := "na"
	if k.knownHang {
		ref = "TIMEOUT"
	} else if k.contents != "" || k.w.name == "UPC_A" { // the UPC-A writer prepends "0" before the emptiness check
		ref = c12Call(d, k.w.w, k.contents, k.w.format, 0, 0, c12RefHints(k, hints))
	}
	out := c12Call(d, k.w.w, k.contents, k.format, k.width, k.height, hints)
	if out == "TIMEOUT" && !k.knownHang {
		// a loaded machine can starve a goroutine for seconds: only a call that also exceeds 10x the limit counts
		c.Note("slow-call-retried")
		out = c12Call(10*d, k.w.w, k.contents, k.format, k.width, k.height, hints)
	}
	if ref == "TIMEOUT" && !k.knownHang {
		ref = c12Call(10*d, k.w.w, k.contents, k.w.format, 0, 0, c12RefHints(k, hints))
	}
	in := k.input()
	cls := out
	if i := strings.IndexAny(out, " :"); i >= 0 {
		cls = out[:i]
	}
	c.Note("writer:" + k.w.name + ":" + cls)
	c.Note("content:" + k.cclass)
	c.Note(fmt.Sprintf("hints:%d", len(k.hints)))
	if out == "ERR:other" {
		c.Note("err:non-WriterException")
	}
	if k.inStmt {
		key, detail := "", ""
		switch {
		case strings.HasPrefix(out, "PANIC"):
			key, detail = k.w.name+"-panic-"+c12PanicClass(out), "Encode panicked: "+out
		case out == "TIMEOUT":
			key, detail = k.w.name+"-timeout", fmt.Sprintf("Encode did not return within %v", 10*d)
		case out == "NEITHER" || out == "BOTH":
			key, detail = k.w.name+"-"+strings.ToLower(out), "Encode returned "+out+" of (matrix, error)"
		case strings.HasPrefix(out, "ok"):
			W, H, _ := c12ParseDims(out)
			nw, nh, okr := c12ParseDims(ref)
			if !okr {
				// the symbol exists although the bare rendering of the same content failed: nothing to compare with
				c.Note("ref-failed:" + ref)
			} else if W < nw || H < nh {
				key, detail = k.w.kind+"-smaller-than-symbol", fmt.Sprintf("matrix %dx%d is smaller than the symbol it depicts (%dx%d)", W, H, nw, nh)
			}
			if key == "" && k.w.kind != "dm" && (W < c14Max(k.width, 1) || H < c14Max(k.height, 1)) {
				key, detail = k.w.kind+"-smaller-than-requested", fmt.Sprintf("matrix %dx%d is smaller than requested %dx%d", W, H, k.width, k.height)
			}
		}
		c.Oracle("c12", key == "", key, in, detail)
	}
	// ---- correspondence: front-end model ----
	own := 0
	if k.format == k.w.format {
		own = 1
	}
	cs := "-"
	for _, h := range k.hints {
		if h.key == gozxing.EncodeHintType_CHARACTER_SET {
			cs = "0"
			if _, ok := common.GetCharacterSetECIByName(fmt.Sprintf("%v", h.val)); ok {
				cs = "1"
			}
		}
	}
	empty := 0
	if k.contents == "" {
		empty = 1
	}
	core := strings.ReplaceAll(ref, " ", ":")
	if strings.HasPrefix(ref, "PANIC") {
		core = "PANIC"
	}
	goOut := out
	if strings.HasPrefix(out, "PANIC") {
		goOut = "PANIC"
	}
	if out == "TIMEOUT" || ref == "TIMEOUT" {
		return // nothing to compare: the model has no clock
	}
	op := fmt.Sprintf("c12 enc %s fmt=%d own=%d empty=%d runes=%d w=%d h=%d cs=%s core=%s hints=%s",
		k.w.name, int(k.format), own, empty, utf8.RuneCountInString(k.contents), k.width, k.height, cs, core, k.hintEnc())
	c.Cmp("c12", op, goOut)
}

func c12Gen(r *Rng, ws []c12Writer, i int) *c12Case {
	w := ws[i%len(ws)]
	k := &c12Case{w: w, inStmt: true}
	k.contents, k.cclass = c12Content(r, w)
	k.format = w.format
	if r.Chance(0.12) {
		k.format = gozxing.BarcodeFormat(r.Intn(17))
	}
	k.width, k.height = c12Size(r), c12Size(r)
	if r.Chance(0.3) {
		k.width, k.height = r.Range(0, 3)*r.Range(0, 100), r.Range(0, 3)*r.Range(0, 100)
	}
	// symbol length estimate for the divisor-zeroing margins
	symLen := []int{21, 35, 46, 51, 67, 95, 29, 45, 64, 10}[r.Intn(10)]
	if w.kind == "1d" && k.contents != "" && r.Chance(0.5) {
		ref := c12Call(2*time.Second, w.w, k.contents, w.format, 0, 0, c14Hints{gozxing.EncodeHintType_MARGIN: 0})
		if a, _, ok := c12ParseDims(ref); ok {
			symLen = a
		}
	}
	p := []float64{0.0, 0.12, 0.3}[r.Intn(3)]
	for _, key := range c12Keys {
		pk := p
		if key == gozxing.EncodeHintType_MARGIN && w.kind != "dm" {
			pk += 0.25
		}
		if key == gozxing.EncodeHintType_FORCE_CODE_SET && w.name == "CODE_128" {
			pk += 0.25
		}
		if (key == gozxing.EncodeHintType_MIN_SIZE || key == gozxing.EncodeHintType_MAX_SIZE || key == gozxing.EncodeHintType_DATA_MATRIX_SHAPE) && w.kind == "dm" {
			pk += 0.2
		}
		if w.kind == "qr" && (key == gozxing.EncodeHintType_ERROR_CORRECTION || key == gozxing.EncodeHintType_CHARACTER_SET || key == gozxing.EncodeHintType_QR_VERSION) {
			pk += 0.15
		}
		if r.Chance(pk) {
			v, enc, in := c12GenHint(r, key, symLen)
			if !in && w.name == "CODE_128" {
				k.inStmt = false
			}
			k.hints = append(k.hints, c12Hint{key, v, enc})
		}
	}
	if len(k.hints) == 0 && r.Bool() {
		k.nilMap = true
	}
	return k
}

// witnesses of the defects this property found on the unchanged tree; always run first
func c12Corpus(ws []c12Writer) []*c12Case {
	by := map[string]c12Writer{}
	for _, w := range ws {
		by[w.name] = w
	}
	mk := func(name, contents string, width, height int, hs ...c12Hint) *c12Case {
		w := by[name]
		return &c12Case{w: w, contents: contents, cclass: "corpus", format: w.format, width: width, height: height, hints: hs, inStmt: true}
	}
	h := func(key gozxing.EncodeHintType, v interface{}, enc string) c12Hint { return c12Hint{key, v, enc} }
	return []*c12Case{
		// D13: MARGIN = -len(code) zeroes the divisor (EAN-8 has 67 modules)
		mk("EAN_8", "1234567", 100, 20, h(gozxing.EncodeHintType_MARGIN, -67, "int:-67")),
		mk("EAN_13", "590123412345", 0, 0, h(gozxing.EncodeHintType_MARGIN, "-95", "str:"+hexs([]byte("-95")))),
		mk("CODE_39", "A", 0, 0, h(gozxing.EncodeHintType_MARGIN, -10, "int:-10")),
		// D14: unknown CHARACTER_SET of non-string type
		mk("QR", "hello", 50, 50, h(gozxing.EncodeHintType_CHARACTER_SET, 5, "int:5")),
		// negative QR margin: image smaller than the symbol
		mk("QR", "hello", 0, 0, h(gozxing.EncodeHintType_MARGIN, -1, "int:-1")),
		mk("QR", "hello", 10, 10, h(gozxing.EncodeHintType_MARGIN, -8, "int:-8")),
		// Code 128 forced code set C: digit followed by FNC1
		mk("CODE_128", "1ñ", 0, 0, h(gozxing.EncodeHintType_FORCE_CODE_SET, "C", "str:43")),
		// consequence of D16 (owned by C02): a size constraint makes an encoder fail, EncodeHighLevel drops the error
		mk("DM", "j31lfm1lhq7bjvgsryl8icjib4oeu2mik97za5zs\u00f1", 0, 0, func() c12Hint { v, enc := c12Dim(18, 8); return h(gozxing.EncodeHintType_MAX_SIZE, v, enc) }()),
		// another consequence of D16 (witness found by the C02 oracle): EDIFACT encodation meets a CR between two
		// look-ahead points, the "illegal character" error is dropped and EncodeHighLevel spins forever
		func() *c12Case { k := mk("DM", "LR+'=HBK5N2\r5=J\"/B", 0, 0); k.knownHang = true; return k }(),
		// Code 128: FORCE_CODE_SET of a non-string type (was an unchecked type assertion)
		mk("CODE_128", "A", 0, 0, h(gozxing.EncodeHintType_FORCE_CODE_SET, 1, "int:1")),
		// out-of-range ErrorCorrectionLevel value
		mk("QR", "hello", 0, 0, h(gozxing.EncodeHintType_ERROR_CORRECTION, qrdecoder.ErrorCorrectionLevel(7), "other:ecl:7")),
	}
}

func runC12(c *Ctx) {
	c.res.Rule = "11 writers round-robin; contents: empty / valid-shaped for the symbology (~50%) / random bytes 1..4000 incl. invalid UTF-8 / non-Latin / digits / ASCII / damaged-valid / runs; " +
		"format: own (88%) or any of the 17 values; width,height from {-3,-1,0,1..2000}; hint maps over the ten keys with in-range, out-of-range and differently-typed accepted values (ints, numeric strings, bools, typed enums, *Dimension, arbitrary types where the code formats or rejects them), |margin| <= 2000; " +
		"oracle = returns in time, no panic, exactly one of matrix/error, dims >= natural symbol dims (0x0 margin-0 reference call), QR/1-D dims >= max(requested,1); " +
		"model = writer front ends, encoder core outcome taken from the real code; non-trivial = distinct call"
	ws := c12Writers()
	d := 2 * time.Second
	if c.Thorough {
		d = 10 * time.Second
	}
	for _, k := range c12Corpus(ws) {
		c12Run(c, k, d)
	}
	// strconv.Atoi vs. the model's atoi (MARGIN / QR_VERSION strings)
	for i := 0; i < c.Pick(3000, 100000); i++ {
		var str string
		switch c.Rng.Intn(4) {
		case 0:
			str = fmt.Sprint(c.Rng.Range(-3000, 3000))
		case 1:
			str = c12From(c.Rng, "0123456789+-_ x.e", c.Rng.Range(0, 6))
		case 2:
			str = c12From(c.Rng, "+-", c.Rng.Intn(2)) + c12Digits(c.Rng, c.Rng.Range(0, 22))
		default:
			str = c12From(c.Rng, "+-", 1) + c12From(c.Rng, "0123456789", c.Rng.Range(17, 20))
		}
		goOut := "ERR"
		if v, e := strconv.Atoi(str); e == nil {
			goOut = fmt.Sprint(v)
		}
		c.Cmp("c12-atoi", "c12 atoi "+hexs([]byte(str)), goOut)
	}
	n := c.Pick(30000, 3000000)
	var stop int64
	c.Parallel(n, 16, func(i int, r *Rng) {
		if atomic.LoadInt64(&stop) != 0 {
			return
		}
		if i&127 == 0 && !c.TimeLeft() {
			if !atomic.CompareAndSwapInt64(&stop, 0, 1) {
				return
			}
			c.Remark(fmt.Sprintf("c12: time budget reached after about %d of %d calls", i, n))
			return
		}
		c12Run(c, c12Gen(r, ws, i), d)
	})
}
