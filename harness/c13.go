package main

// C13 — smallest adequate symbol; size hints and capacity limits honoured.
// ORACLE (real code vs the standard's formulae, computed here from reference numbers obtained from the
// Lean reference tables): QR version == min{v : fits}, forced version exact or refused, beyond 40 refused;
// Data Matrix SymbolInfo_Lookup == smallest admissible symbol, refused if none.
// CORRESPONDENCE: the same calls against the Lean model (encodeVersion / symbolLookup /
// updateSymbolInfoByLength over the reference tables).

import (
	"fmt"
	"strconv"
	"strings"

	"github.com/makiuchi-d/gozxing"
	"github.com/makiuchi-d/gozxing/datamatrix"
	"github.com/makiuchi-d/gozxing/qrcode"
	dmenc "github.com/makiuchi-d/gozxing/datamatrix/encoder"
	"github.com/makiuchi-d/gozxing/qrcode/decoder"
	"github.com/makiuchi-d/gozxing/qrcode/encoder"
)

func init() { suites["C13"] = runC13 }

var c13Modes = []string{"NUMERIC", "ALPHANUMERIC", "BYTE", "KANJI"}

// ---- the standard's formulae (ISO 18004 Tables 3, 7; 6.4.3-6.4.6) ----

func c13CountBits(mode, v int) int {
	cls := 0
	if v > 26 {
		cls = 2
	} else if v > 9 {
		cls = 1
	}
	return [][]int{{10, 12, 14}, {9, 11, 13}, {8, 16, 16}, {8, 10, 12}}[mode][cls]
}

func c13DataBits(mode, n int) int {
	switch mode {
	case 0:
		return 10*(n/3) + []int{0, 4, 7}[n%3]
	case 1:
		return 11*(n/2) + 6*(n%2)
	case 2:
		return 8 * n
	}
	return 13 * n
}

type c13Ref struct {
	dcw  [4][41]int     // reference data codewords per (level L,M,Q,H; version)
	caps [4][4][41]int  // reference capacity in characters per (mode, level, version), plain single segment
	dm   []c13Sym       // ECC 200 symbols in capacity order
}

type c13Sym struct {
	w, h, cap int
	rect      bool
}

func (r *c13Ref) fits(mode, e, v, hdr, n int) bool {
	return hdr+c13CountBits(mode, v)+c13DataBits(mode, n) <= 8*r.dcw[e][v]
}

func (r *c13Ref) minVersion(mode, e, hdr, n int) int {
	for v := 1; v <= 40; v++ {
		if r.fits(mode, e, v, hdr, n) {
			return v
		}
	}
	return 0
}

func c13LoadRef(c *Ctx) (*c13Ref, bool) {
	ref := &c13Ref{}
	outs := c.Model([]string{"c13 caps", "c13 dmref"})
	groups := strings.Split(outs[0], ";")
	if len(groups) != 16 {
		return nil, false
	}
	for g, s := range groups {
		xs := strings.Split(s, ",")
		if len(xs) != 40 {
			return nil, false
		}
		for i, x := range xs {
			ref.caps[g/4][g%4][i+1], _ = strconv.Atoi(x)
		}
	}
	// data codewords follow from the byte-mode capacity: 8*D = 4 + cb + 8*cap + slack(<8)  =>  D = cap + (4+cb+7)/8
	for e := 0; e < 4; e++ {
		for v := 1; v <= 40; v++ {
			ref.dcw[e][v] = ref.caps[2][e][v] + (4+c13CountBits(2, v)+7)/8
		}
	}
	for _, s := range strings.Split(outs[1], ";") {
		var sym c13Sym
		if _, err := fmt.Sscanf(s, "%dx%d:%d", &sym.w, &sym.h, &sym.cap); err != nil {
			return nil, false
		}
		sym.rect = sym.w != sym.h
		ref.dm = append(ref.dm, sym)
	}
	return ref, len(ref.dm) == 30
}

// ---- QR ----

type c13Case struct {
	mode, e, n int
	eci, gs1   bool        // ISO-8859-1 ECI header (byte mode only) / GS1 FNC1 header
	hint       interface{} // QR_VERSION hint or nil
}

func c13Content(r *Rng, mode, n int) string {
	switch mode {
	case 0:
		return c07Random(r, "0123456789", n)
	case 1:
		if n == 0 {
			return ""
		}
		return "A" + c07Random(r, c07Alnum, n-1)
	case 2:
		if n == 0 {
			return ""
		}
		return "a" + c07Random(r, "abcdefghijklmnopqrstuvwxyz ,.;!?0123456789ABC", n-1)
	}
	return c07KanjiStr(r, n)
}

func (k c13Case) hdr() int {
	h := 4
	if k.eci {
		h += 12
	}
	if k.gs1 {
		h += 4
	}
	return h
}

func c13HintStr(h interface{}) string {
	switch x := h.(type) {
	case nil:
		return ""
	case int:
		return fmt.Sprintf(" hint=int:%d", x)
	case string:
		return " hint=str:" + x
	}
	return " hint=other"
}

// value the encoder derives from the hint (Go semantics written out independently)
func c13HintInt(h interface{}) int {
	switch x := h.(type) {
	case int:
		return x
	case string:
		if v, err := strconv.Atoi(x); err == nil {
			return v
		}
	}
	return 0
}

func c13RunQR(c *Ctx, ref *c13Ref, r *Rng, k c13Case, suite string) {
	content := c13Content(r, k.mode, k.n)
	hints := map[gozxing.EncodeHintType]interface{}{gozxing.EncodeHintType_QR_MASK_PATTERN: r.Intn(8)}
	if k.mode == 3 {
		hints[gozxing.EncodeHintType_CHARACTER_SET] = "Shift_JIS"
	} else if k.eci {
		hints[gozxing.EncodeHintType_CHARACTER_SET] = "ISO-8859-1"
	}
	if k.gs1 {
		hints[gozxing.EncodeHintType_GS1_FORMAT] = true
	}
	if k.hint != nil {
		hints[gozxing.EncodeHintType_QR_VERSION] = k.hint
	}
	goOut := Safe(func() string {
		qr, err := encoder.Encoder_encode(content, c07Levels[k.e], hints)
		if err != nil {
			return "ERR:" + errKind(err)
		}
		if qr.GetMode().String() != c13Modes[k.mode] {
			return "MODE:" + qr.GetMode().String()
		}
		if d := qr.GetMatrix().GetWidth(); d != 17+4*qr.GetVersion().GetVersionNumber() {
			return fmt.Sprintf("DIM:%d", d)
		}
		return fmt.Sprintf("ok %d", qr.GetVersion().GetVersionNumber())
	})
	op := fmt.Sprintf("c13 ver ec=%s mode=%s hdr=%d n=%d%s", c07Levels[k.e].String(), c13Modes[k.mode], k.hdr(), k.n, c13HintStr(k.hint))
	c.Cmp(suite, op, goOut)
	// oracle
	want := "ERR:writer"
	key := "qr-min-version"
	if k.hint == nil {
		if v := ref.minVersion(k.mode, k.e, k.hdr(), k.n); v > 0 {
			want = fmt.Sprintf("ok %d", v)
		} else {
			key = "qr-beyond-40"
		}
	} else {
		key = "qr-forced-version"
		v := c13HintInt(k.hint)
		if v >= 1 && v <= 40 && ref.fits(k.mode, k.e, v, k.hdr(), k.n) {
			want = fmt.Sprintf("ok %d", v)
		}
	}
	c.Oracle(suite, goOut == want, key, op, "go="+goOut+" want="+want)
	// rendered symbol: 17 + 4v modules plus the quiet zone on both sides (size 0x0 = one pixel per module)
	if k.n >= 1 && (k.n <= 300 || (c.Thorough && r.Chance(0.3))) && r.Chance(0.5) {
		margin := []int{-1, 0, 1, 4, 7}[r.Intn(5)]
		wh := map[gozxing.EncodeHintType]interface{}{gozxing.EncodeHintType_ERROR_CORRECTION: c07Levels[k.e]}
		for hk, hv := range hints {
			wh[hk] = hv
		}
		qz := 4
		if margin >= 0 {
			wh[gozxing.EncodeHintType_MARGIN] = margin
			qz = margin
		}
		got := Safe(func() string {
			bm, err := qrcode.NewQRCodeWriter().Encode(content, gozxing.BarcodeFormat_QR_CODE, 0, 0, wh)
			if err != nil {
				return "ERR:" + errKind(err)
			}
			return fmt.Sprintf("%dx%d", bm.GetWidth(), bm.GetHeight())
		})
		wantDim := "ERR:writer"
		if strings.HasPrefix(want, "ok ") {
			v, _ := strconv.Atoi(want[3:])
			wantDim = fmt.Sprintf("%dx%d", 17+4*v+2*qz, 17+4*v+2*qz)
		}
		c.Oracle(suite, got == wantDim, "qr-rendered-dimension", fmt.Sprintf("%s margin=%d", op, margin), "go="+got+" want="+wantDim)
		c.Note("qr-rendered")
	}
	if goOut == want {
		if strings.HasPrefix(goOut, "ok") {
			c.Note(suite + ":" + c13Modes[k.mode] + ":ok")
		} else {
			c.Note(suite + ":" + c13Modes[k.mode] + ":refused")
		}
	}
}

// ---- Data Matrix ----

func c13Shape(i int) (dmenc.SymbolShapeHint, string) {
	switch i {
	case 1:
		return dmenc.SymbolShapeHint_FORCE_SQUARE, "square"
	case 2:
		return dmenc.SymbolShapeHint_FORCE_RECTANGLE, "rect"
	}
	return dmenc.SymbolShapeHint_FORCE_NONE, "none"
}

func c13SymStr(s *dmenc.SymbolInfo) string {
	if s == nil {
		return "nil"
	}
	return fmt.Sprintf("%dx%d:%d", s.GetSymbolWidth(), s.GetSymbolHeight(), s.GetDataCapacity())
}

// smallest admissible reference symbol holding n codewords: returns the set of acceptable answers (ties)
func (r *c13Ref) dmExpect(n, shape int, mn, mx *c13Sym) (best int, ok bool) {
	best = -1
	for _, s := range r.dm {
		if (shape == 1 && s.rect) || (shape == 2 && !s.rect) {
			continue
		}
		if mn != nil && (s.w < mn.w || s.h < mn.h) {
			continue
		}
		if mx != nil && (s.w > mx.w || s.h > mx.h) {
			continue
		}
		if n <= s.cap && (best < 0 || s.cap < best) {
			best = s.cap
		}
	}
	return best, best >= 0
}

func (r *c13Ref) dmAdmissible(w, h, cp int, shape int, mn, mx *c13Sym) bool {
	for _, s := range r.dm {
		if s.w == w && s.h == h && s.cap == cp {
			if (shape == 1 && s.rect) || (shape == 2 && !s.rect) {
				return false
			}
			if mn != nil && (s.w < mn.w || s.h < mn.h) {
				return false
			}
			if mx != nil && (s.w > mx.w || s.h > mx.h) {
				return false
			}
			return true
		}
	}
	return false
}

func c13DimStr(d *c13Sym) string {
	if d == nil {
		return "-"
	}
	return fmt.Sprintf("%dx%d", d.w, d.h)
}

func c13Dim(d *c13Sym) *gozxing.Dimension {
	if d == nil {
		return nil
	}
	x, _ := gozxing.NewDimension(d.w, d.h)
	return x
}

func runC13(c *Ctx) {
	c.Rng = c.Rng.Fork() // decorrelate consecutive VERIF_SEEDs (NewRng(s) and NewRng(s+1) are the same stream shifted by one)
	c.res.Rule = "QR: every mode x level x version boundary n = cap(v), cap(v)+1 (quick) / every length 1..cap(40)+1 (thorough), plain and with ECI/GS1 headers, " +
		"forced versions (int/string/other hints, in and out of range, fitting and not), beyond version 40; " +
		"Data Matrix: SymbolInfo_Lookup for ALL n in 0..1560 x 3 shapes x 44x44 (min,max) pairs (nil, the 30 symbol sizes, 13 off-list dimensions; exhaustive), both fail modes; " +
		"DataMatrixWriter.Encode at size 0x0 for digit strings of every codeword-count class (capacity-1, capacity, capacity+1 of every symbol) x shape hint x (min,max) pairs (symbol sizes and off-list, non-square dimensions): rendered dimension == first admissible symbol; "+
		"UpdateSymbolInfoByLength sequences; non-trivial = distinct op; oracle = smallest fitting version / smallest admissible symbol from the standard's formulae and size table"
	ref, ok := c13LoadRef(c)
	if !ok {
		if !c.noDriver {
			c.Remark("driver error: reference tables unavailable")
		}
		return
	}
	// reference capacities must agree with the formula-side of the oracle itself (self-check of the harness arithmetic)
	for m := 0; m < 4; m++ {
		for e := 0; e < 4; e++ {
			for v := 1; v <= 40; v++ {
				cp := ref.caps[m][e][v]
				if !ref.fits(m, e, v, 4, cp) || ref.fits(m, e, v, 4, cp+1) {
					c.Remark(fmt.Sprintf("driver error: reference capacity inconsistent at mode %d level %d version %d", m, e, v))
					return
				}
			}
		}
	}

	// ---------- QR: boundaries ----------
	var cases []c13Case
	for m := 0; m < 4; m++ {
		for e := 0; e < 4; e++ {
			if c.Thorough {
				for n := 1; n <= ref.caps[m][e][40]+1; n++ {
					cases = append(cases, c13Case{mode: m, e: e, n: n})
				}
			} else {
				for v := 1; v <= 40; v++ {
					cases = append(cases, c13Case{mode: m, e: e, n: ref.caps[m][e][v]}, c13Case{mode: m, e: e, n: ref.caps[m][e][v] + 1})
				}
				cases = append(cases, c13Case{mode: m, e: e, n: 1}, c13Case{mode: m, e: e, n: ref.caps[m][e][40] + 1000})
			}
		}
	}
	c.Parallel(len(cases), 16, func(i int, r *Rng) { c13RunQR(c, ref, r, cases[i], "qr-boundary") })

	// ---------- QR: headers, forced versions, random lengths ----------
	nRand := c.Pick(1500, 40000)
	c.Parallel(nRand, 16, func(i int, r *Rng) {
		k := c13Case{mode: r.Intn(4), e: r.Intn(4)}
		if k.mode == 2 && r.Chance(0.4) {
			k.eci = true
		}
		if r.Chance(0.15) {
			k.gs1 = true
		}
		// lengths around a random version boundary for THIS header
		v := r.Range(1, 40)
		if !c.Thorough && r.Chance(0.6) {
			v = r.Range(1, 12)
		}
		capBits := 8*ref.dcw[k.e][v] - k.hdr() - c13CountBits(k.mode, v)
		n := 0
		for c13DataBits(k.mode, n+1) <= capBits { // largest n fitting version v with this header
			n += 1 + (capBits-c13DataBits(k.mode, n+1))/14
		}
		for c13DataBits(k.mode, n) > capBits && n > 0 {
			n--
		}
		k.n = n + r.Range(-2, 2)
		if r.Chance(0.2) {
			k.n = r.Range(0, n+1)
		}
		if k.n < 0 {
			k.n = 0
		}
		if k.mode != 2 && k.n == 0 {
			k.n = 1 // the empty string is byte mode
		}
		suite := "qr-header"
		if r.Chance(0.6) {
			suite = "qr-forced"
			mv := ref.minVersion(k.mode, k.e, k.hdr(), k.n)
			switch r.Intn(10) {
			case 0:
				k.hint = mv
			case 1:
				k.hint = mv - 1
			case 2:
				k.hint = mv + 1
			case 3:
				k.hint = r.Range(1, 40)
			case 4:
				k.hint = []int{0, -1, 41, 100, -40}[r.Intn(5)]
			case 5:
				k.hint = strconv.Itoa(mv)
			case 6:
				k.hint = []string{"abc", "", "7x", "0x7", "+7", "-7", "07", "40", "41", "1_0", "7.0"}[r.Intn(11)]
			case 7:
				k.hint = float64(mv) // neither int nor string: treated as 0
			case 8:
				k.hint = strconv.Itoa(r.Range(1, 40))
			default:
				k.hint = 40
			}
		}
		c13RunQR(c, ref, r, k, suite)
	})

	// ---------- chooseMode (policy, correspondence only) ----------
	for it := 0; it < c.Pick(600, 6000); it++ {
		r := c.Rng
		var s string
		switch r.Intn(5) {
		case 0:
			s = c07Random(r, "0123456789", r.Range(0, 12))
		case 1:
			s = c07Random(r, c07Alnum, r.Range(1, 12))
		case 2:
			s = c07Random(r, c07Alnum+"abc\x00\x7f`[", r.Range(1, 12))
		case 3:
			s = c07Random(r, "0123456789", r.Range(0, 6)) + string(rune(r.Intn(128))) + c07Random(r, "0123456789", r.Range(0, 6))
		default:
			s = c07Latin1(r, r.Range(1, 6))
		}
		g := Safe(func() string {
			qr, err := encoder.Encoder_encode(s, decoder.ErrorCorrectionLevel_L, map[gozxing.EncodeHintType]interface{}{gozxing.EncodeHintType_QR_MASK_PATTERN: 0})
			if err != nil {
				return "ERR:" + errKind(err)
			}
			return qr.GetMode().String()
		})
		c.Cmp("mode", "c13 mode "+hexs([]byte(s)), g)
	}

	// ---------- Data Matrix: the table the code holds, through the public lookup ----------
	{
		var rows []string
		seen := map[string]bool{}
		for shape := 0; shape < 3; shape++ {
			sh, _ := c13Shape(shape)
			for n := 0; n <= 1560; n++ {
				s, _ := dmenc.SymbolInfo_Lookup(n, sh, nil, nil, false)
				if s != nil && !seen[c13SymStr(s)] {
					seen[c13SymStr(s)] = true
				}
			}
		}
		// in capacity order as FORCE_NONE / RECTANGLE reveal them
		for _, s := range ref.dm {
			key := fmt.Sprintf("%dx%d:%d", s.w, s.h, s.cap)
			if seen[key] {
				rows = append(rows, key)
				delete(seen, key)
			}
		}
		for k := range seen {
			rows = append(rows, "EXTRA:"+k)
		}
		c07Check(c, "dm-table", "dm-symbol-table", "c13 dmref", strings.Join(rows, ";"))
		// the 144x144 row is built by a separate constructor the translator cannot read: check it here
		s144, _ := dmenc.SymbolInfo_Lookup(1558, dmenc.SymbolShapeHint_FORCE_NONE, nil, nil, false)
		got := Safe(func() string {
			return fmt.Sprintf("%s err=%d blocks=%d len1=%d len9=%d len10=%d ecl=%d mw=%d mh=%d", c13SymStr(s144), s144.GetErrorCodewords(),
				s144.GetInterleavedBlockCount(), s144.GetDataLengthForInterleavedBlock(1), s144.GetDataLengthForInterleavedBlock(9),
				s144.GetDataLengthForInterleavedBlock(10), s144.GetErrorLengthForInterleavedBlock(1), s144.GetMatrixWidth(), s144.GetMatrixHeight())
		})
		want := "144x144:1558 err=620 blocks=10 len1=156 len9=155 len10=155 ecl=62 mw=22 mh=22"
		c.Oracle("dm-table", got == want, "dm-144-row", "SymbolInfo_Lookup(1558)", "go="+got+" want="+want)
	}

	// ---------- Data Matrix: exhaustive lookup ----------
	dims := []*c13Sym{nil}
	for i := range ref.dm {
		dims = append(dims, &ref.dm[i])
	}
	// dimensions that are not symbol sizes (between sizes, non-square, tiny, huge)
	for _, d := range [][2]int{{20, 10}, {19, 9}, {33, 9}, {30, 13}, {40, 20}, {17, 17}, {25, 25}, {50, 50}, {100, 100}, {150, 150}, {1, 1}, {8, 18}, {12, 36}} {
		dims = append(dims, &c13Sym{w: d[0], h: d[1]})
	}
	type job struct{ shape, mi, xi int }
	var jobs []job
	for shape := 0; shape < 3; shape++ {
		for mi := range dims {
			for xi := range dims {
				jobs = append(jobs, job{shape, mi, xi})
			}
		}
	}
	c.Parallel(len(jobs), 16, func(i int, r *Rng) {
		j := jobs[i]
		sh, shName := c13Shape(j.shape)
		mn, mx := dims[j.mi], dims[j.xi]
		gmn, gmx := c13Dim(mn), c13Dim(mx)
		nOK, nRefused := 0, 0
		var sample []pending
		for n := 0; n <= 1560; n++ {
			fail := n%2 == 0
			var s *dmenc.SymbolInfo
			var err error
			out := Safe(func() string {
				s, err = dmenc.SymbolInfo_Lookup(n, sh, gmn, gmx, fail)
				if err != nil {
					return "ERR:" + errKind(err)
				}
				return c13SymStr(s)
			})
			best, found := ref.dmExpect(n, j.shape, mn, mx)
			okv := false
			if found {
				okv = s != nil && err == nil && s.GetDataCapacity() == best && n <= best &&
					ref.dmAdmissible(s.GetSymbolWidth(), s.GetSymbolHeight(), s.GetDataCapacity(), j.shape, mn, mx)
				nOK++
			} else {
				if fail {
					okv = out == "ERR:writer"
				} else {
					okv = out == "nil"
				}
				nRefused++
			}
			if !okv {
				c.Oracle("dm-lookup", false, "dm-smallest-admissible",
					fmt.Sprintf("lookup n=%d shape=%s min=%s max=%s fail=%v", n, shName, c13DimStr(mn), c13DimStr(mx), fail),
					fmt.Sprintf("go=%s want capacity %d (found=%v)", out, best, found))
			}
			// sampled correspondence with the model
			if r.Intn(200) == 0 || (n <= 50 && r.Intn(20) == 0) {
				f := "0"
				if fail {
					f = "1"
				}
				sample = append(sample, pending{"dm-lookup", fmt.Sprintf("c13 lookup %d %s %s %s %s", n, shName, c13DimStr(mn), c13DimStr(mx), f), out, nil})
			}
		}
		c.Oracle("dm-lookup", true, "dm-smallest-admissible", fmt.Sprintf("lookup * shape=%s min=%s max=%s", shName, c13DimStr(mn), c13DimStr(mx)), "")
		c.NoteN("dm-lookup:found", nOK)
		c.NoteN("dm-lookup:refused", nRefused)
		c.NoteN("dm-lookup:model-sampled", len(sample))
		c.mu.Lock()
		c.res.Evaluations += 1561
		c.mu.Unlock()
		for _, p := range sample {
			c.Cmp(p.suite, p.op, p.goOut)
		}
	})
	c.res.Exhaustive = true

	// ---------- Data Matrix WRITER: rendered dimension at size 0x0 ----------
	// digit strings: 2k digits are k ASCII codewords (digit pairs), whatever the symbol
	var kClasses []int
	{
		seen := map[int]bool{}
		for _, k := range []int{1, 2} {
			seen[k] = true
			kClasses = append(kClasses, k)
		}
		for _, s := range ref.dm {
			for _, k := range []int{s.cap - 1, s.cap, s.cap + 1} {
				if k >= 1 && k <= 1559 && !seen[k] {
					seen[k] = true
					kClasses = append(kClasses, k)
				}
			}
		}
	}
	digits := strings.Repeat("0123456789", 312)
	dmw := datamatrix.NewDataMatrixWriter()
	c.Parallel(len(jobs), 16, func(i int, r *Rng) {
		j := jobs[i]
		sh, shName := c13Shape(j.shape)
		mn, mx := dims[j.mi], dims[j.xi]
		hints := map[gozxing.EncodeHintType]interface{}{}
		if j.shape != 0 || r.Bool() {
			hints[gozxing.EncodeHintType_DATA_MATRIX_SHAPE] = sh
		}
		if mn != nil {
			hints[gozxing.EncodeHintType_MIN_SIZE] = c13Dim(mn)
		}
		if mx != nil {
			hints[gozxing.EncodeHintType_MAX_SIZE] = c13Dim(mx)
		}
		ks := kClasses
		if !c.Thorough {
			// quick: the classes around the smallest admissible symbols of this constraint set + a few others
			ks = nil
			for _, k := range kClasses {
				if _, found := ref.dmExpect(k, j.shape, mn, mx); (found && len(ks) < 7) || r.Intn(12) == 0 {
					ks = append(ks, k)
				}
			}
		}
		for _, k := range ks {
			content := digits[:2*k]
			got := Safe(func() string {
				bm, err := dmw.Encode(content, gozxing.BarcodeFormat_DATA_MATRIX, 0, 0, hints)
				if err != nil {
					return "ERR:" + errKind(err)
				}
				return fmt.Sprintf("%dx%d", bm.GetWidth(), bm.GetHeight())
			})
			// first admissible symbol in the reference table order
			want := "ERR:writer"
			for _, s := range ref.dm {
				if k <= s.cap && ref.dmAdmissible(s.w, s.h, s.cap, j.shape, mn, mx) {
					want = fmt.Sprintf("%dx%d", s.w, s.h)
					break
				}
			}
			op := fmt.Sprintf("c13 writer %d %s %s %s", k, shName, c13DimStr(mn), c13DimStr(mx))
			c.Oracle("dm-writer", got == want, "dm-writer-dimension", op, "go="+got+" want="+want)
			if k%7 == 0 || k < 30 {
				c.Cmp("dm-writer", op, got)
			}
			if got == want {
				if strings.HasPrefix(got, "ERR") {
					c.Note("dm-writer:refused")
				} else {
					c.Note("dm-writer:" + shName)
				}
			}
		}
	})

	// ---------- UpdateSymbolInfoByLength ----------
	for it := 0; it < c.Pick(3000, 60000); it++ {
		r := c.Rng
		shape := r.Intn(3)
		sh, shName := c13Shape(shape)
		var mn, mx *c13Sym
		if r.Chance(0.4) {
			mn = dims[r.Intn(len(dims))]
		}
		if r.Chance(0.4) {
			mx = dims[r.Intn(len(dims))]
		}
		ctx, _ := dmenc.NewEncoderContext("")
		ctx.SetSymbolShape(sh)
		ctx.SetSizeConstraints(c13Dim(mn), c13Dim(mx))
		k := r.Range(1, 8)
		lens := make([]int, k)
		outs := make([]string, k)
		base := []int{5, 50, 300, 1600}[r.Intn(4)]
		var prev *dmenc.SymbolInfo
		for i := range lens {
			lens[i] = r.Intn(base)
			l := lens[i]
			outs[i] = Safe(func() string {
				if e := ctx.UpdateSymbolInfoByLength(l); e != nil {
					return "ERR:" + errKind(e)
				}
				return c13SymStr(ctx.GetSymbolInfo())
			})
			s := ctx.GetSymbolInfo()
			okv := true
			detail := ""
			if strings.HasPrefix(outs[i], "ERR") {
				_, found := ref.dmExpect(l, shape, mn, mx)
				// an error is right only if the previous symbol (if any) is too small and nothing admissible holds l
				okv = !found && s == nil
				detail = "refused although a symbol fits, or state kept"
			} else if prev != nil && l <= prev.GetDataCapacity() && s == prev {
				okv = true // kept: it still holds the data (the property does not ask for a downgrade)
			} else {
				best, found := ref.dmExpect(l, shape, mn, mx)
				okv = found && s != nil && s.GetDataCapacity() == best
				detail = fmt.Sprintf("want capacity %d", best)
			}
			c.Oracle("dm-update", okv, "dm-update-symbol", fmt.Sprintf("update shape=%s min=%s max=%s lens=%s step=%d", shName, c13DimStr(mn), c13DimStr(mx), ints(lens[:i+1]), i), "go="+outs[i]+" "+detail)
			prev = s
		}
		c.Cmp("dm-update", fmt.Sprintf("c13 upd %s %s %s %s", shName, c13DimStr(mn), c13DimStr(mx), ints(lens)), strings.Join(outs, ";"))
	}
}
