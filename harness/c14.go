package main

// C14 — rendering geometry: size, integer scaling, centring and quiet zone.
//
// ORACLE (real code vs. the property statement): for QR, Data Matrix and the nine 1-D writers the
// module matrix is obtained independently of the scaled rendering (QR: encoder.Encoder_encode(...).GetMatrix();
// Data Matrix / 1-D: the 0x0, margin-0 rendering), then Writer.Encode is called for many requested sizes
// and margins and judged against the formula of the property: dims, every pixel, whites elsewhere,
// quiet zone, centre sampling, image.Image view.
// CORRESPONDENCE: the same output is compared with the Lean model (renderQR / renderDM / render1D).

import (
	"fmt"
	"image"
	"image/color"
	"strconv"
	"strings"
	"sync/atomic"

	"github.com/makiuchi-d/gozxing"
	"github.com/makiuchi-d/gozxing/datamatrix"
	dmencoder "github.com/makiuchi-d/gozxing/datamatrix/encoder"
	"github.com/makiuchi-d/gozxing/oned"
	"github.com/makiuchi-d/gozxing/qrcode"
	qrdecoder "github.com/makiuchi-d/gozxing/qrcode/decoder"
	qrencoder "github.com/makiuchi-d/gozxing/qrcode/encoder"
)

func init() { suites["C14"] = runC14 }

type c14Hints = map[gozxing.EncodeHintType]interface{}

type c14Sym struct {
	kind     string // "qr", "dm", "1d"
	name     string // writer name
	writer   gozxing.Writer
	format   gozxing.BarcodeFormat
	contents string
	hints    c14Hints // base hints without MARGIN
	hintStr  string
	mw, mh   int
	mod      [][]bool // [y][x]
	bits     string   // row-major 0/1
}

func c14CopyHints(h c14Hints) c14Hints {
	r := c14Hints{}
	for k, v := range h {
		r[k] = v
	}
	return r
}

func c14Rows(bm *gozxing.BitMatrix) [][]bool {
	rows := make([][]bool, bm.GetHeight())
	for y := range rows {
		rows[y] = make([]bool, bm.GetWidth())
		for x := range rows[y] {
			rows[y][x] = bm.Get(x, y)
		}
	}
	return rows
}

func c14Hash(rows [][]bool) uint64 {
	h := uint64(14695981039346656037)
	for _, row := range rows {
		for _, b := range row {
			if b {
				h ^= 1
			}
			h *= 1099511628211
		}
		h ^= 255
		h *= 1099511628211
	}
	return h
}

// canonical text of a rendering, identical to Gzx.Render.showImage
func c14Show(bm *gozxing.BitMatrix) string {
	rows := c14Rows(bm)
	W, H := bm.GetWidth(), bm.GetHeight()
	if W*H <= 4096 {
		ss := make([]string, len(rows))
		for i, r := range rows {
			ss[i] = bitsStr(r)
		}
		return fmt.Sprintf("ok %dx%d %s", W, H, strings.Join(ss, "/"))
	}
	return fmt.Sprintf("ok %dx%d h=%d", W, H, c14Hash(rows))
}

func c14Encode(w gozxing.Writer, contents string, f gozxing.BarcodeFormat, width, height int, hints c14Hints) (bm *gozxing.BitMatrix, out string) {
	out = SafeT(c14Timeout, func() string {
		m, e := w.Encode(contents, f, width, height, hints)
		if e != nil {
			if m != nil {
				return "BOTH"
			}
			return "ERR:" + errKind(e)
		}
		if m == nil {
			return "NEITHER"
		}
		bm = m
		return "ok"
	})
	if out != "ok" {
		bm = nil
	}
	return
}

const c14Timeout = 20e9

// the symbols under test
func c14Symbols(c *Ctx) []*c14Sym {
	var syms []*c14Sym
	add := func(kind, name string, w gozxing.Writer, f gozxing.BarcodeFormat, contents string, hints c14Hints, hs string) {
		s := &c14Sym{kind: kind, name: name, writer: w, format: f, contents: contents, hints: hints, hintStr: hs}
		switch kind {
		case "qr":
			ec := qrdecoder.ErrorCorrectionLevel_L
			if v, ok := hints[gozxing.EncodeHintType_ERROR_CORRECTION]; ok {
				ec = v.(qrdecoder.ErrorCorrectionLevel)
			}
			code, e := qrencoder.Encoder_encode(contents, ec, hints)
			if e != nil {
				c.Remark("c14: cannot build QR module matrix for " + contents + ": " + e.Error())
				return
			}
			bm := code.GetMatrix()
			s.mw, s.mh = bm.GetWidth(), bm.GetHeight()
			s.mod = make([][]bool, s.mh)
			for y := range s.mod {
				s.mod[y] = make([]bool, s.mw)
				for x := range s.mod[y] {
					s.mod[y][x] = bm.Get(x, y) == 1
				}
			}
		default:
			h := c14CopyHints(hints)
			if kind == "1d" {
				h[gozxing.EncodeHintType_MARGIN] = 0
			}
			bm, out := c14Encode(w, contents, f, 0, 0, h)
			if bm == nil {
				c.Remark("c14: cannot build module matrix for " + name + " " + contents + ": " + out)
				return
			}
			s.mod = c14Rows(bm)
			s.mw, s.mh = bm.GetWidth(), bm.GetHeight()
		}
		var sb strings.Builder
		for _, r := range s.mod {
			sb.WriteString(bitsStr(r))
		}
		s.bits = sb.String()
		// The Data Matrix / 1-D module matrix is itself a rendering (0x0, margin 0), as the property prescribes.
		// Make sure it is a complete symbol: the fixed structure every symbol of the symbology has.
		if why := c14RefSane(s); why != "" {
			c.Oracle("c14-"+kind, false, kind+"-reference-symbol",
				fmt.Sprintf("writer=%s contents=%q hints=[%s] width=0 height=0 margin=0", name, contents, hs),
				"the 0x0 margin-0 rendering is not a complete symbol: "+why)
		}
		syms = append(syms, s)
	}
	qw := qrcode.NewQRCodeWriter()
	add("qr", "QR", qw, gozxing.BarcodeFormat_QR_CODE, "A", c14Hints{}, "")
	add("qr", "QR", qw, gozxing.BarcodeFormat_QR_CODE, "HTTPS://EXAMPLE.ORG/GOZXING-RENDER", c14Hints{gozxing.EncodeHintType_ERROR_CORRECTION: qrdecoder.ErrorCorrectionLevel_Q}, "EC=Q")
	add("qr", "QR", qw, gozxing.BarcodeFormat_QR_CODE, strings.Repeat("rendering geometry ", 6), c14Hints{gozxing.EncodeHintType_ERROR_CORRECTION: qrdecoder.ErrorCorrectionLevel_H, gozxing.EncodeHintType_QR_MASK_PATTERN: 3}, "EC=H,MASK=3")
	dw := datamatrix.NewDataMatrixWriter()
	add("dm", "DM", dw, gozxing.BarcodeFormat_DATA_MATRIX, "A", c14Hints{}, "")
	add("dm", "DM", dw, gozxing.BarcodeFormat_DATA_MATRIX, "Data Matrix 12345", c14Hints{gozxing.EncodeHintType_DATA_MATRIX_SHAPE: dmencoder.SymbolShapeHint_FORCE_RECTANGLE}, "SHAPE=RECT")
	add("dm", "DM", dw, gozxing.BarcodeFormat_DATA_MATRIX, "AB", c14Hints{gozxing.EncodeHintType_DATA_MATRIX_SHAPE: dmencoder.SymbolShapeHint_FORCE_RECTANGLE}, "SHAPE=RECT")
	add("dm", "DM", dw, gozxing.BarcodeFormat_DATA_MATRIX, strings.Repeat("0123456789", 9), c14Hints{gozxing.EncodeHintType_DATA_MATRIX_SHAPE: dmencoder.SymbolShapeHint_FORCE_SQUARE}, "SHAPE=SQUARE")
	type w1 struct {
		name string
		w    gozxing.Writer
		f    gozxing.BarcodeFormat
		cs   []string
	}
	for _, x := range []w1{
		{"CODE_128", oned.NewCode128Writer(), gozxing.BarcodeFormat_CODE_128, []string{"A", "1234", "Hello-12"}},
		{"CODE_39", oned.NewCode39Writer(), gozxing.BarcodeFormat_CODE_39, []string{"A", "AB-12", "hello"}},
		{"CODE_93", oned.NewCode93Writer(), gozxing.BarcodeFormat_CODE_93, []string{"A", "AB12", "Code 93"}},
		{"CODABAR", oned.NewCodaBarWriter(), gozxing.BarcodeFormat_CODABAR, []string{"1", "A123B", "12-34$"}},
		{"ITF", oned.NewITFWriter(), gozxing.BarcodeFormat_ITF, []string{"12", "1234", "00123456"}},
		{"EAN_13", oned.NewEAN13Writer(), gozxing.BarcodeFormat_EAN_13, []string{"590123412345", "5901234123457", "000000000000"}},
		{"EAN_8", oned.NewEAN8Writer(), gozxing.BarcodeFormat_EAN_8, []string{"1234567", "12345670", "0000000"}},
		{"UPC_A", oned.NewUPCAWriter(), gozxing.BarcodeFormat_UPC_A, []string{"01234567890", "012345678905", "12345678901"}},
		{"UPC_E", oned.NewUPCEWriter(), gozxing.BarcodeFormat_UPC_E, []string{"01234565", "11234562", "00000000"}},
	} {
		for _, cs := range x.cs {
			add("1d", x.name, x.w, x.f, cs, c14Hints{}, "")
		}
	}
	return syms
}

// c14RefSane checks the structure that every symbol of the symbology has (finder border / guard bars / width).
func c14RefSane(s *c14Sym) string {
	switch s.kind {
	case "dm":
		if s.mw%2 != 0 || s.mh%2 != 0 || s.mw < 8 || s.mh < 8 {
			return fmt.Sprintf("size %dx%d", s.mw, s.mh)
		}
		for x := 0; x < s.mw; x++ {
			if !s.mod[s.mh-1][x] {
				return fmt.Sprintf("bottom finder row white at x=%d", x)
			}
			if s.mod[0][x] != (x%2 == 0) {
				return fmt.Sprintf("top timing row wrong at x=%d", x)
			}
		}
		for y := 0; y < s.mh; y++ {
			if !s.mod[y][0] {
				return fmt.Sprintf("left finder column white at y=%d", y)
			}
			if s.mod[y][s.mw-1] != (y%2 == 1) {
				return fmt.Sprintf("right timing column wrong at y=%d", y)
			}
		}
	case "1d":
		if s.mh != 1 {
			return fmt.Sprintf("height %d", s.mh)
		}
		if !s.mod[0][0] || !s.mod[0][s.mw-1] {
			return "first or last module is white"
		}
		want := map[string]int{"EAN_13": 95, "UPC_A": 95, "EAN_8": 67, "UPC_E": 51}
		if n, ok := want[s.name]; ok && s.mw != n {
			return fmt.Sprintf("width %d, the symbology has %d modules", s.mw, n)
		}
		if s.name == "ITF" && s.mw != 9+9*len(s.contents) {
			return fmt.Sprintf("width %d, ITF has %d modules", s.mw, 9+9*len(s.contents))
		}
	}
	return ""
}

type c14Case struct {
	s          *c14Sym
	reqW, reqH int
	margin     int  // -1: no MARGIN hint (the configured default is inferred from the 0x0 rendering)
	asString   bool // MARGIN passed as numeric string
}

func (k c14Case) input() string {
	mg := fmt.Sprint(k.margin)
	if k.margin < 0 {
		mg = "default(no MARGIN hint)"
	} else if k.asString {
		mg = fmt.Sprintf("%q", mg)
	}
	return fmt.Sprintf("writer=%s contents=%q hints=[%s] width=%d height=%d margin=%s", k.s.name, k.s.contents, k.s.hintStr, k.reqW, k.reqH, mg)
}

func c14Max(a, b int) int {
	if a > b {
		return a
	}
	return b
}
func c14Min(a, b int) int {
	if a < b {
		return a
	}
	return b
}

// c14Check runs one case: oracle + (optionally) correspondence line. defaults: inferred quiet modules for margin=-1.
func c14Check(c *Ctx, k c14Case, defQ int, withModel bool) {
	s := k.s
	hints := c14CopyHints(s.hints)
	q := k.margin
	if k.margin >= 0 {
		if s.kind == "dm" {
			q = 0
		} else if k.asString {
			hints[gozxing.EncodeHintType_MARGIN] = strconv.Itoa(k.margin)
		} else {
			hints[gozxing.EncodeHintType_MARGIN] = k.margin
		}
	} else {
		q = defQ
		// the default margin must not depend on whether the caller's hint map is nil, empty, or carries unrelated entries
		switch (k.reqW + 3*k.reqH) % 3 {
		case 1:
			if hints == nil {
				hints = c14Hints{}
			}
			hints[gozxing.EncodeHintType_GS1_FORMAT] = false
			c.Note("default-margin:with-unrelated-hint")
		case 2:
			if hints == nil {
				hints = c14Hints{}
				c.Note("default-margin:with-empty-hint-map")
			}
		}
	}
	bm, out := c14Encode(s.writer, s.contents, s.format, k.reqW, k.reqH, hints)
	in := k.input()
	c.Note("case:" + s.kind)
	if bm == nil {
		c.Oracle("c14-"+s.kind, false, s.kind+"-no-image", in, "valid request gave "+out)
		return
	}
	W, H := bm.GetWidth(), bm.GetHeight()
	// ---- expected geometry, straight from the property statement ----
	var eW, eH, sc, padX, padY, Qx, Qy int
	switch s.kind {
	case "qr":
		Qx, Qy = 2*q, 2*q
		eW, eH = c14Max(k.reqW, s.mw+Qx), c14Max(k.reqH, s.mh+Qy)
		sc = c14Min(eW/(s.mw+Qx), eH/(s.mh+Qy))
	case "dm":
		if k.reqW >= s.mw && k.reqH >= s.mh {
			eW, eH = k.reqW, k.reqH
			sc = c14Min(eW/s.mw, eH/s.mh)
			c.Note("dm:fits")
		} else {
			eW, eH = s.mw, s.mh
			sc = 1
			c.Note("dm:bare")
		}
	default:
		Qx = q
		eW, eH = c14Max(k.reqW, s.mw+Qx), c14Max(k.reqH, 1)
		sc = eW / (s.mw + Qx)
	}
	padX = (eW - s.mw*sc) / 2
	padY = (eH - s.mh*sc) / 2
	if s.kind == "1d" {
		padY = 0
	}
	c.Note(fmt.Sprintf("scale:%d", c14Min(sc, 9)))
	fail := func(key, detail string) {
		c.Oracle("c14-"+s.kind, false, s.kind+"-"+key, in, detail)
	}
	if W != eW || H != eH {
		fail("dims", fmt.Sprintf("image %dx%d, property demands %dx%d", W, H, eW, eH))
	} else {
		bad := ""
		for y := 0; y < H && bad == ""; y++ {
			for x := 0; x < W; x++ {
				want := false
				if s.kind == "1d" {
					if x >= padX && x < padX+s.mw*sc {
						want = s.mod[0][(x-padX)/sc]
					}
				} else if x >= padX && x < padX+s.mw*sc && y >= padY && y < padY+s.mh*sc {
					want = s.mod[(y-padY)/sc][(x-padX)/sc]
				}
				if bm.Get(x, y) != want {
					bad = fmt.Sprintf("pixel (%d,%d)=%v, property demands %v (s=%d pad=%d,%d)", x, y, bm.Get(x, y), want, sc, padX, padY)
					break
				}
			}
		}
		if bad != "" {
			fail("pixel", bad)
		} else {
			c.Oracle("c14-"+s.kind, true, "", in+" pixel", "")
		}
		// quiet zone on the real output
		switch s.kind {
		case "qr":
			z := q * sc
			okq := true
			for y := 0; y < H && okq; y++ {
				for x := 0; x < W; x++ {
					if (x < z || x >= W-z || y < z || y >= H-z) && bm.Get(x, y) {
						okq = false
						break
					}
				}
			}
			c.Oracle("c14-qr", okq, "qr-quiet", in+" quiet", fmt.Sprintf("black pixel inside the %d-pixel quiet border", z))
		case "1d":
			l, r := W, W
			for x := 0; x < W; x++ {
				if bm.Get(x, 0) {
					l = x
					break
				}
			}
			for x := W - 1; x >= 0; x-- {
				if bm.Get(x, 0) {
					r = W - 1 - x
					break
				}
			}
			c.Oracle("c14-1d", l+r >= q*sc && (l == r || l+1 == r || sc*s.mw == 0), "1d-quiet", in+" quiet",
				fmt.Sprintf("white columns left=%d right=%d, margin %d modules at scale %d", l, r, q, sc))
		}
		// centre sampling gives back the module matrix
		okc := true
		for j := 0; j < s.mh && okc; j++ {
			for i := 0; i < s.mw; i++ {
				cy := padY + j*sc + sc/2
				if s.kind == "1d" {
					cy = H / 2
				}
				if bm.Get(padX+i*sc+sc/2, cy) != s.mod[j][i] {
					okc = false
					break
				}
			}
		}
		c.Oracle("c14-"+s.kind, okc, s.kind+"-centre", in+" centre", "sampling block centres does not return the module matrix")
		// image.Image view: set bit = black
		var img image.Image = bm
		okv := img.Bounds() == image.Rect(0, 0, W, H) && img.ColorModel() == color.GrayModel
		step := 1
		if W*H > 20000 {
			step = 7
		}
		for y := 0; y < H && okv; y += step {
			for x := 0; x < W; x += step {
				want := color.Gray{255}
				if bm.Get(x, y) {
					want = color.Gray{0}
				}
				if img.At(x, y) != color.Color(want) {
					okv = false
					break
				}
			}
		}
		c.Oracle("c14-"+s.kind, okv, s.kind+"-imageview", in+" view", "image.Image view disagrees with the bits (Bounds/ColorModel/At)")
	}
	// ---- correspondence with the Lean model ----
	if withModel {
		goOut := c14Show(bm)
		switch s.kind {
		case "qr":
			c.Cmp("c14", fmt.Sprintf("c14 qr %d %d %s %d %d %d", s.mw, s.mh, s.bits, q, k.reqW, k.reqH), goOut)
		case "dm":
			c.Cmp("c14", fmt.Sprintf("c14 dm %d %d %s %d %d", s.mw, s.mh, s.bits, k.reqW, k.reqH), goOut)
		default:
			c.Cmp("c14", fmt.Sprintf("c14 1d %s %d %d %d", s.bits, k.reqW, k.reqH, q), goOut)
		}
	}
}

// configured default quiet modules, inferred from the 0x0 rendering without MARGIN hint
func c14DefaultQ(s *c14Sym) int {
	bm, _ := c14Encode(s.writer, s.contents, s.format, 0, 0, c14CopyHints(s.hints))
	if bm == nil {
		return 0
	}
	switch s.kind {
	case "qr":
		return (bm.GetWidth() - s.mw) / 2
	case "1d":
		return bm.GetWidth() - s.mw
	}
	return 0
}

// c14ModelP: probability of sending a case to the Lean model; the model evaluates every pixel against the list of
// SetRegion calls (cost ~ H*(calls + W*calls-per-row)), so big renderings are sampled to keep the expected cost bounded.
func c14ModelP(s *c14Sym, w, h, Q int) float64 {
	W, H := c14Max(w, s.mw+Q), c14Max(h, 1)
	calls := s.mw / 2
	if s.kind != "1d" {
		H = c14Max(h, s.mh+Q)
		calls = s.mw * s.mh / 2
	}
	cost := float64(H) * float64(calls+W*s.mw/2)
	if cost <= 1000000 {
		return 1
	}
	return 1000000 / cost
}

func c14Sizes(n, Q, q int, r *Rng) []int {
	N := n + Q
	xs := []int{0, n - 1, n, n + 1, 2*n - 1, 2 * n, 2*n + 1, 3*n + q, 8 * n, N - 1, N, N + 1, 2*N - 1, 2 * N, 2*N + 1, 3*N + 1, r.Range(0, 8*n),
		// module sizes that are multiples of the 32-bit word (every module block then starts and ends on a word
		// boundary when the padding does too) and their neighbours
		32 * N, 32*N + 1, 32 * n, 16 * N}
	if N <= 40 {
		xs = append(xs, 64*N)
	}
	seen := map[int]bool{}
	var out []int
	for _, x := range xs {
		if x >= 0 && !seen[x] {
			seen[x] = true
			out = append(out, x)
		}
	}
	return out
}

func runC14(c *Ctx) {
	c.res.Rule = "symbols: 3 QR (v1..v7, EC L/Q/H), 4 Data Matrix (square + rectangular), 3 valid contents for each of the nine 1-D writers; " +
		"requested sizes {0,n-1,n,n+1,2n-1,2n,2n+1,3n+q,8n} and the same around multiples of n+Q, plus word-aligned module sizes {16(n+Q),32(n+Q),32(n+Q)+1,32n,64(n+Q)}, on both axes (1-D heights {0,1,2,3,50}) x margins {none,0,1,4,9,10,20} (int or numeric string); " +
		"thorough: all 0..8n x 0..8n for the smallest symbol of each writer x margins 0..20 (model compared on a cost-bounded sample); " +
		"oracle = formula of the property on the real writers; non-trivial = distinct (symbol,size,margin) case"
	syms := c14Symbols(c)
	r := c.Rng
	type job struct {
		k     c14Case
		defQ  int
		model bool
	}
	var jobs, exh []job
	margins := []int{-1, 0, 1, 4, 9, 10, 20}
	firstOf := map[string]bool{}
	for _, s := range syms {
		defQ := c14DefaultQ(s)
		ms := margins
		if s.kind == "dm" {
			ms = []int{0}
		}
		for _, mg := range ms {
			q := mg
			if mg < 0 {
				q = defQ
			}
			Qx := q
			if s.kind == "qr" {
				Qx = 2 * q
			}
			ws := c14Sizes(s.mw, Qx, q, r)
			hs := c14Sizes(s.mh, Qx, q, r)
			if s.kind == "1d" {
				hs = []int{0, 1, 2, 3, 50}
			}
			for _, w := range ws {
				for _, h := range hs {
					jobs = append(jobs, job{c14Case{s, w, h, mg, mg > 0 && r.Chance(0.2)}, defQ, r.Chance(c14ModelP(s, w, h, Qx))})
				}
			}
		}
		// thorough: exhaustive sizes for the smallest symbol of each writer
		if c.Thorough && !firstOf[s.name] {
			firstOf[s.name] = true
			for mg := 0; mg <= 20; mg++ {
				if s.kind == "dm" && mg > 0 {
					break
				}
				for w := 0; w <= 8*s.mw; w++ {
					if s.kind == "1d" {
						for _, h := range []int{0, 1, 3} {
							exh = append(exh, job{c14Case{s, w, h, mg, false}, defQ, r.Chance(0.05 * c14ModelP(s, w, h, mg))})
						}
						continue
					}
					for h := 0; h <= 8*s.mh; h++ {
						exh = append(exh, job{c14Case{s, w, h, mg, false}, defQ, r.Chance(0.004 * c14ModelP(s, w, h, 2*mg))})
					}
				}
			}
		}
	}
	jobs = append(jobs, exh...) // boundary cases first, exhaustive enumeration afterwards
	var skipped int64
	c.Parallel(len(jobs), 16, func(i int, _ *Rng) {
		if i&255 == 0 && !c.TimeLeft() {
			atomic.AddInt64(&skipped, 1)
		}
		if atomic.LoadInt64(&skipped) > 0 {
			atomic.AddInt64(&skipped, 1)
			return
		}
		j := jobs[i]
		c14Check(c, j.k, j.defQ, j.model)
	})
	if c.Thorough && skipped == 0 {
		c.res.Exhaustive = true // all sizes 0..8n x 0..8n x margins 0..20 of the smallest symbol of each writer were run
	}
	if skipped > 0 {
		c.Remark(fmt.Sprintf("c14: time budget reached, %d of %d enumerated cases not run", skipped, len(jobs)))
	}
}
