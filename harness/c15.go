package main

// C15 — character sets and ECI.
//   ORACLE (real code): per registered charset and alias, text over its repertoire -> write with
//   CHARACTER_SET -> read == text and the symbol carries the registered ECI designator; unrepresentable
//   text refused; no hint: valid UTF-8 reads back as itself; ECI numbers: registered -> ok, otherwise
//   FormatException, never a panic; run-time registry round trips; decode-side hint honoured.
//   CORRESPONDENCE: registry (regenerated list vs run-time maps), guessCharset, parse of crafted ECI
//   streams, encoder-side mode/ECI header selection — Go vs Lean model.

import (
	"fmt"
	"sort"
	"strings"
	"sync"
	"unicode/utf8"

	"golang.org/x/text/encoding"
	"golang.org/x/text/encoding/ianaindex"
	"golang.org/x/text/encoding/japanese"
	"golang.org/x/text/transform"

	"github.com/makiuchi-d/gozxing"
	"github.com/makiuchi-d/gozxing/common"
	"github.com/makiuchi-d/gozxing/qrcode/decoder"
	"github.com/makiuchi-d/gozxing/qrcode/encoder"
)

func init() { suites["C15"] = runC15 }

// the exported registry entries (the run-time side; aliases are not exported and come from the
// regenerated list through the model driver, see c15ModelRegistry)
var c15Exported = []*common.CharacterSetECI{
	common.CharacterSetECI_Cp437, common.CharacterSetECI_ISO8859_1, common.CharacterSetECI_ISO8859_2,
	common.CharacterSetECI_ISO8859_3, common.CharacterSetECI_ISO8859_4, common.CharacterSetECI_ISO8859_5,
	common.CharacterSetECI_ISO8859_7, common.CharacterSetECI_ISO8859_9, common.CharacterSetECI_ISO8859_13,
	common.CharacterSetECI_ISO8859_15, common.CharacterSetECI_ISO8859_16, common.CharacterSetECI_SJIS,
	common.CharacterSetECI_Cp1250, common.CharacterSetECI_Cp1251, common.CharacterSetECI_Cp1252,
	common.CharacterSetECI_Cp1256, common.CharacterSetECI_UnicodeBigUnmarked, common.CharacterSetECI_UTF8,
	common.CharacterSetECI_ASCII, common.CharacterSetECI_Big5, common.CharacterSetECI_GB18030,
	common.CharacterSetECI_EUC_KR,
}

func c15CharsetNames() []string {
	var ns []string
	for _, e := range c15Exported {
		ns = append(ns, e.Name())
	}
	return ns
}

var (
	c15NamesMu  sync.Mutex
	c15AllNames_ []string
)

// canonical names + IANA names of the exported entries, plus the aliases the model's registry lists
func c15AllNames() []string {
	c15NamesMu.Lock()
	defer c15NamesMu.Unlock()
	if c15AllNames_ == nil {
		seen := map[string]bool{}
		for _, e := range c15Exported {
			for _, n := range []string{e.Name(), c15Iana(e.GetCharset())} {
				if n != "" && !seen[n] {
					seen[n] = true
					c15AllNames_ = append(c15AllNames_, n)
				}
			}
		}
	}
	return c15AllNames_
}

func c15AddNames(ns []string) {
	c15AllNames()
	c15NamesMu.Lock()
	defer c15NamesMu.Unlock()
	seen := map[string]bool{}
	for _, n := range c15AllNames_ {
		seen[n] = true
	}
	for _, n := range ns {
		if n != "" && !seen[n] {
			seen[n] = true
			c15AllNames_ = append(c15AllNames_, n)
		}
	}
}

func c15Iana(e encoding.Encoding) string {
	n, err := ianaindex.IANA.Name(e)
	if err != nil {
		return ""
	}
	return n
}

func c15ShowEntry(e *common.CharacterSetECI) string {
	if e == nil {
		return "nil"
	}
	return fmt.Sprintf("%s|%d|%s", e.Name(), e.GetValue(), c15Iana(e.GetCharset()))
}

// ---- repertoires ----

type c15Rep struct {
	single []rune // every representable single-byte code point
	multi  []rune // sampled multi-byte code points
}

var (
	c15RepMu sync.Mutex
	c15Reps  = map[string]*c15Rep{}
)

func c15RoundTrips(enc encoding.Encoding, s string) bool {
	b, e := enc.NewEncoder().Bytes([]byte(s))
	if e != nil {
		return false
	}
	back, e := enc.NewDecoder().Bytes(b)
	return e == nil && string(back) == s
}

func c15Repertoire(e *common.CharacterSetECI, r *Rng) *c15Rep {
	c15RepMu.Lock()
	defer c15RepMu.Unlock()
	if rep, ok := c15Reps[e.Name()]; ok {
		return rep
	}
	enc := e.GetCharset()
	rep := &c15Rep{}
	name := e.Name()
	switch name {
	case "UTF-8", "UTF-16BE":
		for cp := rune(0); cp < 0x80; cp++ {
			rep.single = append(rep.single, cp)
		}
		rr := NewRng(12345)
		for len(rep.multi) < 2000 {
			c := c01RuneOfLen(rr, rr.Range(2, 4))
			rep.multi = append(rep.multi, c)
		}
	default:
		dec := enc.NewDecoder()
		for b := 0; b < 256; b++ {
			s, err := dec.Bytes([]byte{byte(b)})
			if err != nil || !utf8.Valid(s) {
				continue
			}
			rs := []rune(string(s))
			if len(rs) != 1 || rs[0] == utf8.RuneError {
				continue
			}
			if c15RoundTrips(enc, string(rs)) {
				if bb, _ := enc.NewEncoder().Bytes([]byte(string(rs))); len(bb) == 1 {
					rep.single = append(rep.single, rs[0])
				}
			}
		}
		switch name {
		case "Shift_JIS", "GB18030", "Big5", "EUC-KR":
			rr := NewRng(777)
			seen := map[rune]bool{}
			tries := 0
			for len(rep.multi) < 2000 && tries < 400000 {
				tries++
				b := []byte{byte(rr.Range(0x81, 0xFE)), byte(rr.Range(0x40, 0xFE))}
				s, err := dec.Bytes(b)
				if err != nil || !utf8.Valid(s) {
					continue
				}
				rs := []rune(string(s))
				if len(rs) != 1 || rs[0] == utf8.RuneError || rs[0] < 0x80 || seen[rs[0]] {
					continue
				}
				if c15RoundTrips(enc, string(rs)) {
					seen[rs[0]] = true
					rep.multi = append(rep.multi, rs[0])
				}
			}
		}
	}
	c15Reps[name] = rep
	_ = r
	return rep
}

// a text of about n runes over the repertoire of e that forces byte mode ("" if the set has no repertoire)
func c15SampleText(r *Rng, e *common.CharacterSetECI, n int) string {
	rep := c15Repertoire(e, r)
	if len(rep.single) == 0 && len(rep.multi) == 0 {
		return ""
	}
	var sb strings.Builder
	for i := 0; i < n; i++ {
		if len(rep.multi) > 0 && (len(rep.single) == 0 || r.Chance(0.5)) {
			sb.WriteRune(rep.multi[r.Intn(len(rep.multi))])
		} else {
			sb.WriteRune(rep.single[r.Intn(len(rep.single))])
		}
	}
	return sb.String()
}

// ---- byte strings aimed at guessCharset's decision structure ----

func c15GuessBytes(r *Rng, n int) []byte {
	out := make([]byte, 0, n+4)
	kind := r.Intn(10)
	for len(out) < n {
		k := kind
		if r.Chance(0.25) {
			k = r.Intn(10)
		}
		switch k {
		case 0, 1: // ASCII
			out = append(out, byte(r.Range(0x20, 0x7E)))
		case 2: // valid UTF-8 multi-byte
			out = append(out, []byte(string(c01RuneOfLen(r, r.Range(2, 4))))...)
		case 3: // half-width katakana range (single bytes 0xA1..0xDF)
			for j := 0; j < r.Range(1, 3); j++ {
				out = append(out, byte(r.Range(0xA1, 0xDF)))
			}
		case 4: // Shift_JIS double byte
			out = append(out, byte([]int{r.Range(0x81, 0x9F), r.Range(0xE0, 0xEF)}[r.Intn(2)]), byte(r.Range(0x40, 0xFC)))
		case 5: // Latin-1 high punctuation (isoHighOther) and letters
			out = append(out, byte([]int{r.Range(0xA0, 0xBF), 0xD7, 0xF7, r.Range(0xC0, 0xFF)}[r.Intn(4)]))
		case 6: // C1 controls and bytes that break things
			out = append(out, byte([]int{0x80, 0x85, 0x9F, 0xA0, 0x7F, 0xF0, 0xFD, 0xFE, 0xFF, 0xF8}[r.Intn(10)]))
		case 7: // truncated UTF-8
			b := []byte(string(c01RuneOfLen(r, r.Range(2, 4))))
			out = append(out, b[:len(b)-1]...)
		case 8: // any byte
			out = append(out, byte(r.Intn(256)))
		case 9: // BOMs
			out = append(out, [][]byte{{0xEF, 0xBB, 0xBF}, {0xFE, 0xFF}, {0xFF, 0xFE}}[r.Intn(3)]...)
		}
	}
	if len(out) > n && r.Chance(0.7) {
		out = out[:n]
	}
	return out
}

func c15GoGuess(bs []byte, h cqrHint) string {
	return Safe(func() string {
		e, err := common.StringUtils_guessCharset(bs, h.hint)
		if err != nil {
			return "ERR:format" // the caller wraps it into FormatException
		}
		if e == nil {
			return "nil"
		}
		if h.hint != nil {
			if n, ok := h.hint[gozxing.DecodeHintType_CHARACTER_SET].(string); ok {
				if eci, ok := common.GetCharacterSetECIByName(n); ok {
					return "reg:" + eci.Name()
				}
				return "iana:" + n
			}
		}
		return cqrShowCharset(e)
	})
}

// crafted stream: ECI designator (form 1/2/3) + byte segment "A" + terminator, for version 1
func c15EciStream(form, value int, payload []byte) []byte {
	var w c01BitWriter
	w.put(7, 4)
	switch form {
	case 1:
		w.put(value, 8)
	case 2:
		w.put(0x8000|value, 16)
	default:
		w.put(0xC00000|value, 24)
	}
	w.put(4, 4)
	w.put(len(payload), 8)
	for _, b := range payload {
		w.put(int(b), 8)
	}
	w.put(0, 4)
	for len(w.bits)%8 != 0 {
		w.bits = append(w.bits, false)
	}
	out := make([]byte, len(w.bits)/8)
	for i, b := range w.bits {
		if b {
			out[i/8] |= 0x80 >> uint(i%8)
		}
	}
	return out
}

// ECI designator and mode found at the head of a decoded symbol's data bytes
func c15HeadOf(raw []byte) (eci int, mode int) {
	if len(raw) < 2 {
		return -1, -1
	}
	if raw[0]>>4 == 7 {
		v := int(raw[0]&0x0F)<<4 | int(raw[1]>>4)
		return v, int(raw[1] & 0x0F)
	}
	return -1, int(raw[0] >> 4)
}

type c15Entry struct {
	name    string
	values  []int
	aliases []string
	iana    string
}

// the registry as the model derives it from the regenerated newCharsetECI(...) calls
func c15ModelRegistry(c *Ctx) []c15Entry {
	out := c.Model([]string{"c15 regdump"})
	if len(out) != 1 || !strings.Contains(out[0], "|") {
		return nil
	}
	var es []c15Entry
	for _, s := range strings.Split(out[0], ";") {
		p := strings.Split(s, "|")
		if len(p) != 4 {
			return nil
		}
		e := c15Entry{name: p[0], iana: p[3]}
		for _, v := range strings.Split(p[1], ",") {
			if v != "" {
				e.values = append(e.values, cqrAtoi(v))
			}
		}
		if p[2] != "" {
			e.aliases = strings.Split(p[2], ",")
		}
		es = append(es, e)
	}
	return es
}

func runC15(c *Ctx) {
	c.res.Rule = "registry: values -5..1005, every name/alias/IANA name (+ perturbed names); per registered charset x every hint name: every single-byte code point " +
		"and sampled double-byte code points (x/text round-trips = representable) -> Encoder_encode(CHARACTER_SET) -> Decoder.Decode == text, ECI designator in the symbol; " +
		"unrepresentable text refused; ECI numbers in 1/2/3-byte forms through DecodedBitStreamParser_Decode; guessCharset on structured byte strings (all strings of length <= 2); " +
		"no-hint UTF-8 round trip; decode-side hints; encoder mode/ECI selection. non-trivial = distinct op line / oracle input"
	r := c.Rng
	mreg := c15ModelRegistry(c)
	if mreg == nil {
		c.Remark("model registry unavailable (no driver): aliases not exercised")
	}
	// ---------------- registry ----------------
	for _, e := range mreg {
		c15AddNames(append([]string{e.name, e.iana}, e.aliases...))
	}
	// run-time exported entries vs the regenerated list (gen-vs-runtime)
	if mreg != nil {
		var a, b []string
		for _, e := range c15Exported {
			a = append(a, c15ShowEntry(e))
		}
		for _, e := range mreg {
			v := "none"
			if len(e.values) > 0 {
				v = fmt.Sprint(e.values[0])
			}
			b = append(b, fmt.Sprintf("%s|%s|%s", e.name, v, e.iana))
		}
		sort.Strings(a)
		sort.Strings(b)
		c.Cmp("eci-registry", "c15 regsize", fmt.Sprint(len(c15Exported)))
		if strings.Join(a, ";") != strings.Join(b, ";") {
			c.Cmp("eci-registry", "c15 regdump-sorted", strings.Join(a, ";"))
		}
	}
	for v := -5; v <= 1005; v++ {
		goOut := Safe(func() string {
			e, err := common.GetCharacterSetECIByValue(v)
			if err != nil {
				return "ERR:" + errKind(err)
			}
			return c15ShowEntry(e)
		})
		c.Cmp("eci-registry", fmt.Sprintf("c15 regv %d", v), goOut)
		// oracle: range rule and "resolves to the same entry and back"
		e, err := common.GetCharacterSetECIByValue(v)
		if v < 0 || v >= 900 {
			_, isF := err.(gozxing.FormatException)
			c.Oracle("eci-registry", isF && e == nil, "value-range", v, "value outside 0..899 must be a FormatException")
			continue
		}
		if e != nil {
			e2, _ := common.GetCharacterSetECIByValue(e.GetValue())
			e3, ok3 := common.GetCharacterSetECIByName(e.Name())
			e4, ok4 := common.GetCharacterSetECI(e.GetCharset())
			ok := err == nil && e2 == e && ok3 && e3 == e && ok4 && e4 == e && e.GetValue() < 128
			c.Oracle("eci-registry", ok, "value-roundtrip", v, fmt.Sprintf("value %d -> %s does not resolve back to the same entry (or primary value >= 128)", v, e.Name()))
			c.Note("registered-value")
		}
	}
	names := append([]string{}, c15AllNames()...)
	for _, n := range c15AllNames() {
		names = append(names, strings.ToLower(n), strings.ToUpper(n), n+" ", "x"+n, strings.Replace(n, "-", "_", 1))
	}
	names = append(names, "", "UTF-7", "KOI8-R", "ISO-8859-6", "ISO-8859-8", "ISO8859_11", "TIS-620", "latin1")
	for _, n := range names {
		goOut := Safe(func() string {
			e, ok := common.GetCharacterSetECIByName(n)
			if !ok {
				return "nil"
			}
			return c15ShowEntry(e)
		})
		c.Cmp("eci-registry", "c15 regn "+hexs([]byte(n)), goOut)
	}
	for _, n := range c15AllNames() {
		e, ok := common.GetCharacterSetECIByName(n)
		good := ok && e != nil
		if good {
			e2, _ := common.GetCharacterSetECIByValue(e.GetValue())
			e3, ok3 := common.GetCharacterSetECIByName(e.Name())
			good = e2 == e && ok3 && e3 == e
		}
		c.Oracle("eci-registry", good, "name-roundtrip", n, "registered name/alias does not resolve to an entry that resolves back")
	}

	// ---------------- ECI numbers through the bit-stream parser ----------------
	v1, _ := decoder.Version_GetVersionForNumber(1)
	var eciCases [][2]int // (form, value)
	addAllForms := func(v int) {
		if v < 128 {
			eciCases = append(eciCases, [2]int{1, v})
		}
		if v < 16384 {
			eciCases = append(eciCases, [2]int{2, v})
		}
		eciCases = append(eciCases, [2]int{3, v})
	}
	limit := c.Pick(8192, 16384)
	for v := 0; v < limit; v++ {
		addAllForms(v)
	}
	for _, v := range []int{16383, 16384, 16385, 65535, 65536, 99999, 100000, 811799, 999999, 1000000, 2097151} {
		addAllForms(v)
	}
	if c.Thorough {
		for v := 16384; v <= 999999; v++ {
			eciCases = append(eciCases, [2]int{3, v})
		}
	} else {
		for i := 0; i < 100000; i++ {
			addAllForms(r.Intn(1000000))
		}
	}
	for _, fv := range eciCases {
		form, val := fv[0], fv[1]
		stream := c15EciStream(form, val, []byte("A"))
		goOut := cqrGoParse(stream, 1, decoder.ErrorCorrectionLevel_L, cqrNoHint())
		c.CmpF("eci-numbers", fmt.Sprintf("c01 parse %s v=1 hint=-", hexs(stream)), goOut, cqrCmpParsed)
		reg := false
		if val < 900 {
			e, _ := common.GetCharacterSetECIByValue(val)
			reg = e != nil
		}
		okO := (reg && strings.HasPrefix(goOut, "ok ")) || (!reg && goOut == "ERR:format")
		c.Oracle("eci-numbers", okO, fmt.Sprintf("eci-number:%v", reg), fmt.Sprintf("form=%d value=%d", form, val),
			"ECI designator must select its registered entry or be a FormatException; got "+goOut)
		c.Note(fmt.Sprintf("eci-form:%d registered:%v", form, reg))
	}
	_ = v1

	// ---------------- guessCharset ----------------
	guess := func(bs []byte, h cqrHint) {
		goOut := c15GoGuess(bs, h)
		c.Note("guess:" + strings.SplitN(goOut, ":", 2)[0])
		c.Cmp("guess-charset", fmt.Sprintf("c15 guess %s %s", hexs(bs), h.tok), goOut)
	}
	guess(nil, cqrNoHint())
	for a := 0; a < 256; a++ {
		guess([]byte{byte(a)}, cqrNoHint())
		for b := 0; b < 256; b++ {
			guess([]byte{byte(a), byte(b)}, cqrNoHint())
		}
	}
	for i := 0; i < c.Pick(300000, 4000000); i++ {
		n := r.Range(0, 24)
		if r.Chance(0.05) {
			n = r.Range(25, 300)
		}
		guess(c15GuessBytes(r, n), cqrNoHint())
	}
	hintNames := append([]string{"KOI8-R", "no-such-charset", "utf-8", "IBM866", "", "ISO-8859-6"}, c15AllNames()...)
	for _, n := range hintNames {
		for i := 0; i < 3; i++ {
			guess(c15GuessBytes(r, r.Range(0, 12)), cqrNameHint(n))
		}
	}
	for id := range cqrHintObjects {
		guess(c15GuessBytes(r, r.Range(0, 12)), cqrObjHint(id))
	}

	// ---------------- write with CHARACTER_SET -> read ----------------
	type job struct {
		e    *common.CharacterSetECI
		hint string
		text string
		kind string
	}
	var jobs []job
	for _, e := range c15Exported {
		rep := c15Repertoire(e, r)
		hints := []string{e.Name(), c15Iana(e.GetCharset())}
		for _, m := range mreg {
			if m.name == e.Name() {
				hints = append(hints, m.aliases...)
			}
		}
		c.NoteN("repertoire-single:"+e.Name(), len(rep.single))
		c.NoteN("repertoire-multi:"+e.Name(), len(rep.multi))
		for hi, h := range hints {
			if h == "" {
				continue
			}
			// every single-byte code point, 64 per symbol; under each hint name
			for s := 0; s < len(rep.single); s += 64 {
				end := s + 64
				if end > len(rep.single) {
					end = len(rep.single)
				}
				jobs = append(jobs, job{e, h, string(rep.single[s:end]), "single"})
			}
			// sampled multi-byte code points (all 2000 under the canonical name, a slice under aliases)
			lim := len(rep.multi)
			if hi > 0 && !c.Thorough {
				lim = lim / 10
			}
			for s := 0; s < lim; s += 40 {
				end := s + 40
				if end > lim {
					end = lim
				}
				jobs = append(jobs, job{e, h, string(rep.multi[s:end]), "multi"})
			}
			// mixed random texts
			for i := 0; i < c.Pick(6, 60); i++ {
				jobs = append(jobs, job{e, h, c15SampleText(r, e, r.Range(1, 40)), "mixed"})
			}
			// unrepresentable
			for i := 0; i < 3; i++ {
				t := c15SampleText(r, e, r.Range(0, 10))
				for tries := 0; tries < 50; tries++ {
					bad := c01RuneOfLen(r, r.Range(2, 4))
					if _, err := e.GetCharset().NewEncoder().Bytes([]byte(string(bad))); err != nil {
						pos := r.Intn(len([]rune(t)) + 1)
						rs := []rune(t)
						t = string(rs[:pos]) + string(bad) + string(rs[pos:])
						jobs = append(jobs, job{e, h, t, "unrepresentable"})
						break
					}
				}
			}
		}
	}
	c.Parallel(len(jobs), 16, func(i int, rr *Rng) {
		j := jobs[i]
		in := fmt.Sprintf("charset=%s hint=%q text=%s", j.e.Name(), j.hint, hexs([]byte(j.text)))
		enc := j.e.GetCharset()
		c.Note("write-kind:" + j.kind)
		ec := cqrLevels[rr.Intn(4)]
		hints := map[gozxing.EncodeHintType]interface{}{gozxing.EncodeHintType_CHARACTER_SET: j.hint}
		var qr *encoder.QRCode
		out := Safe(func() string {
			q, e := encoder.Encoder_encode(j.text, ec, hints)
			if e != nil {
				return "ERR:" + errKind(e)
			}
			qr = q
			return "ok"
		})
		bytes, encErr := enc.NewEncoder().Bytes([]byte(j.text))
		if encErr != nil {
			c.Oracle("charset-roundtrip", out == "ERR:writer", "unrepresentable-accepted:"+j.e.Name(), in,
				"text not representable in the hinted charset must be refused; encoder said "+out)
			return
		}
		if !c15RoundTrips(enc, j.text) {
			c.Note("codec-lossy-skipped:" + j.e.Name())
			return
		}
		if out != "ok" {
			c.Oracle("charset-roundtrip", false, "representable-refused:"+j.e.Name(), in, "encoder said "+out)
			return
		}
		bm := cqrBitMatrixOf(qr.GetMatrix())
		goDec, res := cqrGoDecode(bm, cqrNoHint())
		okT := res != nil && res.GetText() == j.text
		det := goDec
		if len(det) > 200 {
			det = det[:200]
		}
		c.Oracle("charset-roundtrip", okT, "charset-roundtrip:"+j.e.Name(), in, "decoded "+det)
		if res != nil {
			eci, mode := c15HeadOf(res.GetRawBytes())
			c.Note("written-mode:" + qr.GetMode().String())
			if qr.GetMode() == decoder.Mode_BYTE {
				c.Oracle("charset-roundtrip", eci == j.e.GetValue() && mode == 4, "eci-designator:"+j.e.Name(), in,
					fmt.Sprintf("byte-mode symbol written with a charset hint carries ECI %d (mode %d), registered value %d", eci, mode, j.e.GetValue()))
			}
			// correspondence: the model parses the same data bytes to the same text
			v := qr.GetVersion().GetVersionNumber()
			c.CmpF("charset-roundtrip", fmt.Sprintf("c01 parse %s v=%d hint=-", hexs(res.GetRawBytes()), v),
				cqrGoParse(res.GetRawBytes(), v, ec, cqrNoHint()), cqrCmpParsed)
			// a contrary decode-side hint does not override the ECI
			if i%7 == 0 {
				h := cqrNameHint([]string{"Shift_JIS", "ISO-8859-1", "UTF-8", "KOI8-R"}[rr.Intn(4)])
				c.CmpF("charset-roundtrip", fmt.Sprintf("c01 parse %s v=%d hint=%s", hexs(res.GetRawBytes()), v, h.tok),
					cqrGoParse(res.GetRawBytes(), v, ec, h), cqrCmpParsed)
			}
		}
		// encoder-side model: mode + ECI
		var sj string
		if b, e := japanese.ShiftJIS.NewEncoder().Bytes([]byte(j.text)); e == nil {
			sj = hexs(b)
		} else {
			sj = "x"
		}
		eciS := "-"
		if res != nil {
			if eci, _ := c15HeadOf(res.GetRawBytes()); eci >= 0 {
				eciS = fmt.Sprint(eci)
			}
		}
		c.Cmp("enc-header", fmt.Sprintf("c15 enc %s s:%s %s", hexs([]byte(j.text)), hexs([]byte(j.hint)), sj),
			fmt.Sprintf("mode=%s eci=%s", qr.GetMode().String(), eciS))
		_ = bytes
	})

	// encoder-side: contents of the other modes and unknown hint names
	for i := 0; i < c.Pick(2000, 50000); i++ {
		var text string
		switch r.Intn(5) {
		case 0:
			text = c01Digits(r, r.Range(1, 20))
		case 1:
			text = c01AlnumText(r, r.Range(1, 20))
		case 2:
			text = c01KanjiText(r, r.Range(1, 8))
		case 3:
			text = c01KanjiText(r, r.Range(1, 4)) + c01ByteText(r, r.Range(1, 4))
		default:
			text = c01ByteText(r, r.Range(1, 12))
		}
		hint := c15AllNames()[r.Intn(len(c15AllNames()))]
		if r.Chance(0.3) {
			hint = "Shift_JIS"
		}
		if r.Chance(0.1) {
			hint = []string{"nope", "utf8", "SHIFT_JIS", ""}[r.Intn(4)]
		}
		hs := "s:" + hexs([]byte(hint))
		hints := map[gozxing.EncodeHintType]interface{}{gozxing.EncodeHintType_CHARACTER_SET: hint}
		if r.Chance(0.15) {
			hs, hints = "-", nil
		}
		goOut := Safe(func() string {
			q, e := encoder.Encoder_encode(text, decoder.ErrorCorrectionLevel_M, hints)
			if e != nil {
				return "ERR:" + errKind(e)
			}
			_, res := cqrGoDecode(cqrBitMatrixOf(q.GetMatrix()), cqrNoHint())
			eciS := "-"
			if res != nil {
				if eci, _ := c15HeadOf(res.GetRawBytes()); eci >= 0 {
					eciS = fmt.Sprint(eci)
				}
			}
			return fmt.Sprintf("mode=%s eci=%s", q.GetMode().String(), eciS)
		})
		if goOut == "ERR:writer" {
			// an unencodable text under a known hint is a codec matter, outside the header model
			if _, ok := common.GetCharacterSetECIByName(hint); ok || hints == nil {
				c.Note("enc-writer-error-codec")
				continue
			}
		}
		sj := "x"
		if b, e := japanese.ShiftJIS.NewEncoder().Bytes([]byte(text)); e == nil {
			sj = hexs(b)
		}
		c.Note("enc:" + strings.SplitN(goOut, " ", 2)[0])
		c.Cmp("enc-header", fmt.Sprintf("c15 enc %s %s %s", hexs([]byte(text)), hs, sj), goOut)
	}

	// ---------------- Kanji mode: every double-byte Shift_JIS character the mode can carry ----------------
	// (both ranges 0x8140-0x9FFC and 0xE040-0xEBBF incl. their first and last codes; 48 characters per symbol)
	{
		ks := c01KanjiRunes()
		nchunks := (len(ks) + 47) / 48
		c.Parallel(nchunks, 16, func(i int, rr *Rng) {
			hi := (i + 1) * 48
			if hi > len(ks) {
				hi = len(ks)
			}
			text := string(ks[i*48 : hi])
			hints := map[gozxing.EncodeHintType]interface{}{gozxing.EncodeHintType_CHARACTER_SET: "Shift_JIS"}
			got := Safe(func() string {
				q, e := encoder.Encoder_encode(text, decoder.ErrorCorrectionLevel_M, hints)
				if e != nil {
					return "ERR:" + errKind(e)
				}
				c.Note("kanji-sweep-mode:" + q.GetMode().String())
				_, res := cqrGoDecode(cqrBitMatrixOf(q.GetMatrix()), cqrNoHint())
				if res == nil {
					return "ERR:decode"
				}
				return res.GetText()
			})
			ok := got == text
			det := ""
			if !ok {
				gr, tr := []rune(got), []rune(text)
				for k := range tr {
					if k >= len(gr) || gr[k] != tr[k] {
						det = fmt.Sprintf("first difference at character %d: wrote U+%04X", k, tr[k])
						break
					}
				}
				if det == "" {
					det = "decoded " + c05Short(got)
				}
			}
			c.Oracle("charset-roundtrip", ok, "kanji-sweep", "qr kanji text="+hexs([]byte(text))+" hint=Shift_JIS", det)
		})
		c.NoteN("kanji-sweep-characters", len(ks))
	}

	// ---------------- no hint: valid UTF-8 reads back as itself ----------------
	nu := c.Pick(12000, 200000)
	c.Parallel(nu, 16, func(i int, rr *Rng) {
		var sb strings.Builder
		n := rr.Range(1, 6)
		if rr.Chance(0.3) {
			n = rr.Range(7, 60)
		}
		for k := 0; k < n; k++ {
			switch rr.Intn(8) {
			case 0:
				sb.WriteRune(rune(rr.Range(0x80, 0xFF))) // Latin-1 supplement: 2-byte UTF-8 whose bytes look like Shift_JIS/Latin-1
			case 1:
				sb.WriteRune(rune(rr.Range(0xFF61, 0xFF9F))) // half-width katakana
			case 2:
				sb.WriteRune(rune(rr.Range(0x3041, 0x30FF)))
			case 3:
				sb.WriteRune([]rune{0xFEFF, 0xFFFE, 0xFFFD, 0x00A5, 0x203E, 0x0000, 0x007F, 0x0080}[rr.Intn(8)])
			case 4:
				sb.WriteByte(byte(rr.Range(0x20, 0x7E)))
			default:
				sb.WriteRune(c01RuneOfLen(rr, rr.Range(1, 4)))
			}
		}
		text := sb.String()
		in := "text=" + hexs([]byte(text))
		out := Safe(func() string {
			q, e := encoder.Encoder_encode(text, cqrLevels[rr.Intn(4)], nil)
			if e != nil {
				return "ERR:" + errKind(e)
			}
			goDec, res := cqrGoDecode(cqrBitMatrixOf(q.GetMatrix()), cqrNoHint())
			if res == nil {
				return goDec
			}
			if res.GetText() != text {
				return "text " + hexs([]byte(res.GetText()))
			}
			return "ok"
		})
		c.Oracle("utf8-nohint", out == "ok", "utf8-nohint", in, "without a hint valid UTF-8 must read back as itself; got "+out)
	})

	// ---------------- decode-side CHARACTER_SET hint honoured for undesignated byte segments ----------------
	nd := c.Pick(8000, 200000)
	for i := 0; i < nd; i++ {
		var h cqrHint
		var enc encoding.Encoding
		switch r.Intn(4) {
		case 0:
			id := []string{"koi8r", "eucjp", "utf16le", "cp866"}[r.Intn(4)]
			h, enc = cqrObjHint(id), cqrHintObjects[id]
		case 1:
			n := []string{"KOI8-R", "IBM866", "windows-1253", "ISO-8859-6", "ISO-2022-CN", "no-such-charset", "UTF-32"}[r.Intn(7)]
			h = cqrNameHint(n)
			enc, _ = ianaindex.IANA.Encoding(n)
		default:
			n := c15AllNames()[r.Intn(len(c15AllNames()))]
			h = cqrNameHint(n)
			if e, ok := common.GetCharacterSetECIByName(n); ok {
				enc = e.GetCharset()
			}
		}
		payload := c15GuessBytes(r, r.Range(1, 16))
		var w c01BitWriter
		w.put(4, 4)
		w.put(len(payload), 8)
		for _, b := range payload {
			w.put(int(b), 8)
		}
		w.put(0, 4)
		stream := w.bytes(NewRng(0))
		goOut := cqrGoParse(stream, 1, decoder.ErrorCorrectionLevel_L, h)
		c.CmpF("decode-hint", fmt.Sprintf("c01 parse %s v=1 hint=%s", hexs(stream), h.tok), goOut, cqrCmpParsed)
		in := fmt.Sprintf("hint=%s bytes=%s", h.tok, hexs(payload))
		if goOut == "PANIC" {
			c.Oracle("decode-hint", false, "decode-hint-panic", in, "a decode-side CHARACTER_SET hint must be honoured or refused with an error, not crash the reader")
			continue
		}
		if enc != nil {
			want, _, _ := transform.Append(enc.NewDecoder(), nil, payload)
			okH := strings.HasPrefix(goOut, "ok text="+hexs(want)+" ")
			c.Oracle("decode-hint", okH, "decode-hint-ignored", in, "undesignated byte segment must be decoded with the hinted charset; got "+goOut)
		} else {
			c.Oracle("decode-hint", goOut == "ERR:format", "decode-hint-unknown", in, "unknown/unsupported hinted charset must be an error; got "+goOut)
		}
	}
}
