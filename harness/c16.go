package main

// C16 — BitMatrix / BitArray behave as plain 2-D / 1-D bit containers.
//
// One case = one self-contained operation sequence (constructor + up to 40 operations with in-range
// arguments) executed on the real gozxing type.  After EVERY step the harness renders the full state
// (every word through GetRow(y,nil).GetBitArray() / GetBitArray(), sizes, GetEnclosingRectangle,
// GetTopLeftOnBit, GetBottomRightOnBit) plus the step's own answer and
//   * compares it with the Lean WORD model   (c.Cmp, line `c16 wm …` / `c16 wa …`)  = correspondence,
//   * compares it with the Lean SPEC model   (c.Model, line `c16 sm …` / `c16 sa …`) = the property's
//     oracle: a difference is a violation keyed by the operation and the residue class,
//   * checks on the Go side that all other views of the same state agree with the words
//     (Get, At/Bounds/ColorModel, GetRow(y).Get, ToString, String, GetWidth/GetHeight/GetRowSize;
//     BitArray: Get, GetSize, GetSizeInBytes, String, ToBytes, GetNextSet/GetNextUnset sweeps, IsRange).
// A separate malformed stream (out-of-range indices) is compared with the word model only.

import (
	"encoding/hex"
	"fmt"
	"image"
	"image/color"
	"os"
	"path/filepath"
	"strconv"
	"strings"

	"github.com/makiuchi-d/gozxing"
)

func init() { suites["C16"] = runC16 }

var c16BoundaryWidths = []int{1, 2, 5, 31, 32, 33, 63, 64, 65, 95, 96, 97, 127, 128, 129, 130}
var c16QuickSizes = []int{0, 1, 31, 32, 33, 64, 65, 200}

// witnesses of DESIGN §8 D1-D3 and past disagreements; always run first
var c16Corpus = []string{
	"m new,32,1;set,0,0;rot180",
	"m new,64,2;set,0,0;set,33,1;rot180",
	"m new,5,2;flipAll",
	"m new,5,2;flipAll;getRow,0,-",
	"m new,33,1;flipAll;rot180",
	"a new,0;reverse",
	"a empty;reverse",
	"a empty;xor,N",
	"a new,0;xor,E",
	"a new,5;set,4;nextSet,0;nextSet,5;nextUnset,0",
	"a new,32;set,31;reverse",
	"a new,33;set,32;reverse;nextSet,0",
	"m new,130,3;set,129,0;set,0,2;rot180;rot90",
}

func c16hex(b []byte) string {
	if len(b) == 0 {
		return "-"
	}
	return hex.EncodeToString(b)
}

func c16words(ws []uint32) string {
	var sb strings.Builder
	for _, w := range ws {
		fmt.Fprintf(&sb, "%08x", w)
	}
	return sb.String()
}

func c16pt(tag string, p []int) string {
	if p == nil {
		return tag + "=nil"
	}
	return tag + "=" + ints(p)
}

// ---------- literals ----------

// array literal "E0101" / "N0101" / "-"
func c16arrLit(lit string) *gozxing.BitArray {
	if lit == "-" {
		return nil
	}
	bits := lit[1:]
	if lit[0] == 'E' {
		a := gozxing.NewEmptyBitArray()
		for _, ch := range bits {
			a.AppendBit(ch == '1')
		}
		return a
	}
	a := gozxing.NewBitArray(len(bits))
	for i, ch := range bits {
		if ch == '1' {
			a.Set(i)
		}
	}
	return a
}

func c16matLit(lit string) *gozxing.BitMatrix {
	p := strings.Split(lit, ":")
	w, _ := strconv.Atoi(p[0])
	h, _ := strconv.Atoi(p[1])
	m, e := gozxing.NewBitMatrix(w, h)
	if e != nil {
		return nil
	}
	for i, ch := range p[2] {
		if ch == '1' {
			m.Set(i%w, i/w)
		}
	}
	return m
}

func c16randBits(r *Rng, n int) string {
	b := make([]byte, n)
	mode := r.Intn(5)
	for i := range b {
		var one bool
		switch mode {
		case 0:
			one = false
		case 1:
			one = true
		case 2:
			one = r.Chance(0.08)
		default:
			one = r.Bool()
		}
		if one {
			b[i] = '1'
		} else {
			b[i] = '0'
		}
	}
	return string(b)
}

func c16randArrLit(r *Rng, n int) string {
	if r.Bool() {
		return "E" + c16randBits(r, n)
	}
	return "N" + c16randBits(r, n)
}

// ---------- state rendering ----------

func c16arrCanon(a *gozxing.BitArray) string {
	ws := a.GetBitArray()
	n := (a.GetSize() + 31) / 32
	end := len(ws)
	for end > n && ws[end-1] == 0 {
		end--
	}
	return fmt.Sprintf("%d,%d:%s", a.GetSize(), a.GetSizeInBytes(), c16words(ws[:end]))
}

func c16arrFull(a *gozxing.BitArray) string {
	return c16arrCanon(a)
}

func c16matState(m *gozxing.BitMatrix) string {
	var sb strings.Builder
	fmt.Fprintf(&sb, "%d,%d,%d:", m.GetWidth(), m.GetHeight(), m.GetRowSize())
	for y := 0; y < m.GetHeight(); y++ {
		if y > 0 {
			sb.WriteByte('/')
		}
		sb.WriteString(c16words(m.GetRow(y, nil).GetBitArray()))
	}
	sb.WriteString(";" + c16pt("E", m.GetEnclosingRectangle()))
	sb.WriteString(";" + c16pt("TL", m.GetTopLeftOnBit()))
	sb.WriteString(";" + c16pt("BR", m.GetBottomRightOnBit()))
	return sb.String()
}

// every other public view of the matrix must agree with the words shown in the state string
func c16matViews(m *gozxing.BitMatrix, deep bool) string {
	w, h := m.GetWidth(), m.GetHeight()
	if m.GetRowSize() != (w+31)/32 {
		return "rowSize"
	}
	if m.Bounds() != image.Rect(0, 0, w, h) {
		return "Bounds"
	}
	if m.ColorModel() != color.GrayModel {
		return "ColorModel"
	}
	var img image.Image = m
	for y := 0; y < h; y++ {
		row := m.GetRow(y, nil)
		if row.GetSize() != w {
			return "GetRow-size"
		}
		ws := row.GetBitArray()
		for x := 0; x < w; x++ {
			bit := (ws[x/32]>>uint(x%32))&1 != 0
			if m.Get(x, y) != bit {
				return "Get"
			}
			if row.Get(x) != bit {
				return "GetRow.Get"
			}
			if deep {
				g, ok := img.At(x, y).(color.Gray)
				if !ok || (g.Y == 0) != bit || (g.Y != 0 && g.Y != 255) {
					return "At"
				}
			}
		}
	}
	if m.Get(w, 0) || m.Get(0, h) || m.Get(-1, 0) || m.Get(0, -1) {
		return "Get-outside"
	}
	if deep {
		var sb strings.Builder
		for y := 0; y < h; y++ {
			for x := 0; x < w; x++ {
				if m.Get(x, y) {
					sb.WriteString("X ")
				} else {
					sb.WriteString("  ")
				}
			}
			sb.WriteString("\n")
		}
		if m.String() != sb.String() {
			return "String"
		}
		if m.ToString("X ", "  ") != sb.String() {
			return "ToString"
		}
	}
	return ""
}

func c16arrViews(a *gozxing.BitArray, deep bool) string {
	n := a.GetSize()
	ws := a.GetBitArray()
	if n > len(ws)*32 {
		return "capacity"
	}
	if a.GetSizeInBytes() != (n+7)/8 {
		return "GetSizeInBytes"
	}
	bits := make([]bool, n)
	for i := 0; i < n; i++ {
		bits[i] = (ws[i/32]>>uint(i%32))&1 != 0
		if a.Get(i) != bits[i] {
			return "Get"
		}
	}
	if !deep {
		return ""
	}
	// GetNextSet / GetNextUnset from every position
	ns, nu := n, n
	if a.GetNextSet(n) != n || a.GetNextUnset(n) != n {
		return "next-at-size"
	}
	for i := n - 1; i >= 0; i-- {
		if bits[i] {
			ns = i
		} else {
			nu = i
		}
		if a.GetNextSet(i) != ns {
			return "GetNextSet"
		}
		if a.GetNextUnset(i) != nu {
			return "GetNextUnset"
		}
	}
	// String
	var sb strings.Builder
	for i := 0; i < n; i++ {
		if i%8 == 0 {
			sb.WriteByte(' ')
		}
		if bits[i] {
			sb.WriteByte('X')
		} else {
			sb.WriteByte('.')
		}
	}
	if a.String() != sb.String() {
		return "String"
	}
	// ToBytes over the whole bytes
	nb := n / 8
	out := make([]byte, nb+2)
	out[0], out[nb+1] = 0xA5, 0x5A
	a.ToBytes(0, out, 1, nb)
	if out[0] != 0xA5 || out[nb+1] != 0x5A {
		return "ToBytes-overrun"
	}
	for i := 0; i < nb; i++ {
		v := byte(0)
		for j := 0; j < 8; j++ {
			if bits[8*i+j] {
				v |= 1 << uint(7-j)
			}
		}
		if out[1+i] != v {
			return "ToBytes"
		}
	}
	// IsRange on maximal runs
	for i := 0; i < n; {
		j := i
		for j < n && bits[j] == bits[i] {
			j++
		}
		ok, e := a.IsRange(i, j, bits[i])
		if e != nil || !ok {
			return "IsRange-run"
		}
		if j < n {
			ok, e = a.IsRange(i, j+1, bits[i])
			if e != nil || ok {
				return "IsRange-run+1"
			}
		}
		i = j
	}
	return ""
}

// ---------- executing one sequence on the real types ----------

type c16run struct {
	kind   byte     // 'm' or 'a'
	tokens []string // constructor + ops
	steps  []string // per-step output (Go)
	fullA  []string // array: per-step output with ",L=" suffix (word model)
	classW []int    // width (matrix) or size (array) BEFORE each step (for the violation key)
	view   string   // first inconsistent view ("" = none)
	viewAt int
}

func c16class(kind byte, n int) string {
	if kind == 'm' {
		if n%32 == 0 {
			return "w%32==0"
		}
		return "w%32!=0"
	}
	if n == 0 {
		return "size==0"
	}
	if n%32 == 0 {
		return "size%32==0"
	}
	return "size%32!=0"
}

func c16atoi(s string) int {
	v, _ := strconv.Atoi(s)
	return v
}

func c16unhex(s string) string {
	if s == "-" {
		return ""
	}
	b, _ := hex.DecodeString(s)
	return string(b)
}

func c16errS(e error) string {
	if e == nil {
		return "ok"
	}
	return "ERR:" + errKind(e)
}

func c16b01(b bool) string {
	if b {
		return "1"
	}
	return "0"
}

func c16matCtor(t []string) (*gozxing.BitMatrix, error) {
	switch t[0] {
	case "new":
		return gozxing.NewBitMatrix(c16atoi(t[1]), c16atoi(t[2]))
	case "sq":
		return gozxing.NewSquareBitMatrix(c16atoi(t[1]))
	case "pb":
		var img [][]bool
		if t[1] != "" {
			for _, rs := range strings.Split(t[1], "/") {
				row := make([]bool, len(rs))
				for i, ch := range rs {
					row[i] = ch == '1'
				}
				img = append(img, row)
			}
		}
		return gozxing.ParseBoolMapToBitMatrix(img)
	case "ps":
		return gozxing.ParseStringToBitMatrix(c16unhex(t[1]), c16unhex(t[2]), c16unhex(t[3]))
	}
	panic("bad ctor " + t[0])
}

func c16matStep(m *gozxing.BitMatrix, t []string) string {
	switch t[0] {
	case "get":
		return c16b01(m.Get(c16atoi(t[1]), c16atoi(t[2])))
	case "at":
		return fmt.Sprint(m.At(c16atoi(t[1]), c16atoi(t[2])).(color.Gray).Y)
	case "set":
		m.Set(c16atoi(t[1]), c16atoi(t[2]))
	case "unset":
		m.Unset(c16atoi(t[1]), c16atoi(t[2]))
	case "flip":
		m.Flip(c16atoi(t[1]), c16atoi(t[2]))
	case "flipAll":
		m.FlipAll()
	case "clear":
		m.Clear()
	case "rot180":
		m.Rotate180()
	case "rot90":
		m.Rotate90()
	case "xor":
		mask := c16matLit(t[1])
		res := c16errS(m.Xor(mask))
		mask.FlipAll()
		return res
	case "setRegion":
		return c16errS(m.SetRegion(c16atoi(t[1]), c16atoi(t[2]), c16atoi(t[3]), c16atoi(t[4])))
	case "getRow":
		in := c16arrLit(t[2])
		out := m.GetRow(c16atoi(t[1]), in)
		res := c16arrFull(out)
		// what is handed out must be a COPY: scribbling over the returned row (a caller reusing it as a scratch buffer)
		// must leave the matrix alone — the state comparison after this step sees it otherwise
		c16scribble(out)
		return res
	case "setRow":
		row := c16arrLit(t[2])
		m.SetRow(c16atoi(t[1]), row)
		c16scribble(row) // ... and the matrix must not keep a reference to the argument
	case "toStr":
		return c16hex([]byte(m.ToStringWithLineSeparator(c16unhex(t[1]), c16unhex(t[2]), c16unhex(t[3]))))
	default:
		panic("bad op " + t[0])
	}
	return "ok"
}

// c16scribble overwrites every bit of a row the harness owns (all ones, then a flip of every other bit).
func c16scribble(a *gozxing.BitArray) {
	if a == nil {
		return
	}
	for i := 0; i < a.GetSize(); i++ {
		if i%2 == 0 {
			a.Set(i)
		} else if a.Get(i) {
			a.Flip(i)
		}
	}
}

func c16arrStep(a *gozxing.BitArray, t []string) string {
	switch t[0] {
	case "get":
		return c16b01(a.Get(c16atoi(t[1])))
	case "set":
		a.Set(c16atoi(t[1]))
	case "flip":
		a.Flip(c16atoi(t[1]))
	case "nextSet":
		return fmt.Sprint(a.GetNextSet(c16atoi(t[1])))
	case "nextUnset":
		return fmt.Sprint(a.GetNextUnset(c16atoi(t[1])))
	case "setBulk":
		v, _ := strconv.ParseUint(t[2], 10, 32)
		a.SetBulk(c16atoi(t[1]), uint32(v))
	case "setRange":
		return c16errS(a.SetRange(c16atoi(t[1]), c16atoi(t[2])))
	case "clear":
		a.Clear()
	case "isRange":
		ok, e := a.IsRange(c16atoi(t[1]), c16atoi(t[2]), t[3] == "1")
		if e != nil {
			return "ERR:" + errKind(e)
		}
		return c16b01(ok)
	case "appendBit":
		a.AppendBit(t[1] == "1")
	case "appendBits":
		v, _ := strconv.ParseUint(t[1], 10, 64)
		return c16errS(a.AppendBits(int(v), c16atoi(t[2])))
	case "appendArr":
		other := c16arrLit(t[1])
		a.AppendBitArray(other)
		c16scribble(other)
	case "appendSelf":
		a.AppendBitArray(a)
	case "xor":
		other := c16arrLit(t[1])
		res := c16errS(a.Xor(other))
		c16scribble(other)
		return res
	case "xorSelf":
		return c16errS(a.Xor(a))
	case "toBytes":
		arr := []byte(c16unhex(t[2]))
		a.ToBytes(c16atoi(t[1]), arr, c16atoi(t[3]), c16atoi(t[4]))
		return c16hex(arr)
	case "reverse":
		a.Reverse()
	case "str":
		return c16hex([]byte(a.String()))
	default:
		panic("bad op " + t[0])
	}
	return "ok"
}

// c16exec runs the sequence on the real code; checkViews = also run the Go-side view checks
func c16exec(kind byte, tokens []string, checkViews bool) *c16run {
	run := &c16run{kind: kind, tokens: tokens, viewAt: -1}
	if kind == 'm' {
		var m *gozxing.BitMatrix
		first := Safe(func() string {
			var e error
			m, e = c16matCtor(strings.Split(tokens[0], ","))
			if e != nil {
				return "ERR:" + errKind(e)
			}
			return "ok@" + c16matState(m)
		})
		run.steps = append(run.steps, first)
		run.classW = append(run.classW, 1)
		if m == nil || first == "PANIC" {
			return run
		}
		for i, tok := range tokens[1:] {
			t := strings.Split(tok, ",")
			run.classW = append(run.classW, m.GetWidth())
			out := Safe(func() string {
				ans := c16matStep(m, t)
				return ans + "@" + c16matState(m)
			})
			run.steps = append(run.steps, out)
			if out == "PANIC" {
				return run
			}
			if checkViews && run.view == "" {
				deep := i == len(tokens)-2 || i%7 == 3
				if v := Safe(func() string { return c16matViews(m, deep) }); v != "" {
					run.view, run.viewAt = v, i+1
				}
			}
		}
		return run
	}
	var a *gozxing.BitArray
	t0 := strings.Split(tokens[0], ",")
	if t0[0] == "empty" {
		a = gozxing.NewEmptyBitArray()
	} else {
		a = gozxing.NewBitArray(c16atoi(t0[1]))
	}
	run.steps = append(run.steps, "ok@"+c16arrCanon(a))
	run.fullA = append(run.fullA, "ok@"+c16arrFull(a))
	run.classW = append(run.classW, a.GetSize())
	for i, tok := range tokens[1:] {
		t := strings.Split(tok, ",")
		run.classW = append(run.classW, a.GetSize())
		var full string
		out := Safe(func() string {
			ans := c16arrStep(a, t)
			full = ans + "@" + c16arrFull(a)
			return ans + "@" + c16arrCanon(a)
		})
		run.steps = append(run.steps, out)
		if out == "PANIC" {
			run.fullA = append(run.fullA, "PANIC")
			return run
		}
		run.fullA = append(run.fullA, full)
		if checkViews && run.view == "" {
			deep := i == len(tokens)-2 || i%5 == 2
			if v := Safe(func() string { return c16arrViews(a, deep) }); v != "" {
				run.view, run.viewAt = v, i+1
			}
		}
	}
	return run
}

// ---------- generators ----------

type c16matGen struct {
	r    *Rng
	w, h int
	toks []string
}

func (g *c16matGen) add(s string) { g.toks = append(g.toks, s) }

func (g *c16matGen) xy() (int, int) {
	// bias towards the word boundaries of the row
	x := g.r.Intn(g.w)
	if g.r.Chance(0.4) {
		c := []int{0, 30, 31, 32, 33, 63, 64, 65, 95, 96, 97, 127, 128, g.w - 1, g.w - 2}
		v := c[g.r.Intn(len(c))]
		if v >= 0 && v < g.w {
			x = v
		}
	}
	y := g.r.Intn(g.h)
	if g.r.Chance(0.3) {
		if g.r.Bool() {
			y = 0
		} else {
			y = g.h - 1
		}
	}
	return x, y
}

var c16tokSets = [][3]string{{"X ", "  ", "\n"}, {"1", "0", "\n"}, {"#", ".", "\r\n"}, {"ab", "c", "\n\n"}, {"X", " ", "\n"}, {"1", "0", ""}}

func (g *c16matGen) op() {
	r := g.r
	switch k := r.Intn(100); {
	case k < 14:
		x, y := g.xy()
		g.add(fmt.Sprintf("set,%d,%d", x, y))
	case k < 20:
		x, y := g.xy()
		g.add(fmt.Sprintf("unset,%d,%d", x, y))
	case k < 28:
		x, y := g.xy()
		g.add(fmt.Sprintf("flip,%d,%d", x, y))
	case k < 34:
		x, y := g.xy()
		if r.Chance(0.15) { // Get checks its bounds: outside is defined (false)
			if r.Bool() {
				x = g.w + r.Intn(40)
			} else {
				y = g.h + r.Intn(3)
			}
		}
		g.add(fmt.Sprintf("get,%d,%d", x, y))
	case k < 37:
		x, y := g.xy()
		if r.Chance(0.15) {
			x = g.w + r.Intn(3)
		}
		g.add(fmt.Sprintf("at,%d,%d", x, y))
	case k < 45:
		g.add("flipAll")
	case k < 47:
		g.add("clear")
	case k < 57:
		g.add("rot180")
	case k < 64:
		g.add("rot90")
		g.w, g.h = g.h, g.w
	case k < 71:
		if r.Chance(0.1) { // checked error: dimensions differ
			g.add(fmt.Sprintf("xor,%d:%d:%s", g.w+1, g.h, c16randBits(r, (g.w+1)*g.h)))
		} else {
			g.add(fmt.Sprintf("xor,%d:%d:%s", g.w, g.h, c16randBits(r, g.w*g.h)))
		}
	case k < 81:
		if r.Chance(0.12) { // checked errors
			switch r.Intn(3) {
			case 0:
				g.add(fmt.Sprintf("setRegion,%d,%d,0,1", r.Intn(g.w), r.Intn(g.h)))
			case 1:
				g.add(fmt.Sprintf("setRegion,%d,0,%d,1", r.Intn(g.w), g.w+1))
			default:
				g.add(fmt.Sprintf("setRegion,0,%d,1,%d", r.Intn(g.h), g.h+1))
			}
		} else {
			l, t := g.xy()
			wd := r.Range(1, g.w-l)
			if r.Chance(0.3) {
				wd = g.w - l
			}
			ht := r.Range(1, g.h-t)
			g.add(fmt.Sprintf("setRegion,%d,%d,%d,%d", l, t, wd, ht))
		}
	case k < 88:
		y := r.Intn(g.h)
		switch r.Intn(4) {
		case 0:
			g.add(fmt.Sprintf("getRow,%d,-", y))
		case 1: // too small: replaced
			g.add(fmt.Sprintf("getRow,%d,%s", y, c16randArrLit(r, r.Intn(g.w))))
		case 2: // exactly width: reused
			g.add(fmt.Sprintf("getRow,%d,%s", y, c16randArrLit(r, g.w)))
		default: // larger: reused, keeps its size
			g.add(fmt.Sprintf("getRow,%d,%s", y, c16randArrLit(r, g.w+r.Range(1, 40))))
		}
	case k < 95:
		g.add(fmt.Sprintf("setRow,%d,%s", r.Intn(g.h), c16randArrLit(r, g.w)))
	default:
		ts := c16tokSets[r.Intn(len(c16tokSets))]
		g.add(fmt.Sprintf("toStr,%s,%s,%s", c16hex([]byte(ts[0])), c16hex([]byte(ts[1])), c16hex([]byte(ts[2]))))
	}
}

func c16genMat(r *Rng, w, h, idx int) []string {
	g := &c16matGen{r: r, w: w, h: h}
	// constructor
	switch k := r.Intn(10); {
	case k < 5:
		g.add(fmt.Sprintf("new,%d,%d", w, h))
	case k < 6 && w <= 40:
		g.add(fmt.Sprintf("sq,%d", w))
		g.h = w
	case k < 8:
		rows := make([]string, h)
		for y := range rows {
			rows[y] = c16randBits(r, w)
		}
		g.add("pb," + strings.Join(rows, "/"))
	default:
		ts := c16tokSets[r.Intn(4)]
		var sb strings.Builder
		for y := 0; y < h; y++ {
			for _, ch := range c16randBits(r, w) {
				if ch == '1' {
					sb.WriteString(ts[0])
				} else {
					sb.WriteString(ts[1])
				}
			}
			if y < h-1 || r.Bool() {
				sb.WriteString(ts[2])
			}
		}
		g.add(fmt.Sprintf("ps,%s,%s,%s", c16hex([]byte(sb.String())), c16hex([]byte(ts[0])), c16hex([]byte(ts[1]))))
	}
	// structured prefixes: content then the operations the property names
	switch idx % 6 {
	case 0: // sparse marks at the corners and word boundaries, then every rotation
		for _, x := range []int{0, 31, 32, g.w - 1} {
			if x < g.w {
				g.add(fmt.Sprintf("set,%d,%d", x, r.Intn(g.h)))
			}
		}
		for _, o := range []string{"rot180", "rot180", "rot90", "rot90", "rot90", "rot90", "flipAll", "rot180", "flipAll"} {
			g.add(o)
			if o == "rot90" {
				g.w, g.h = g.h, g.w
			}
		}
	case 1: // flipAll then the queries that scan whole words
		g.add("flipAll")
		g.add(fmt.Sprintf("getRow,%d,-", r.Intn(g.h)))
		g.add("flipAll")
		x, y := g.xy()
		g.add(fmt.Sprintf("set,%d,%d", x, y))
		g.add("flipAll")
	case 2: // region fill at the right edge, rotations
		l := r.Intn(g.w)
		g.add(fmt.Sprintf("setRegion,%d,0,%d,%d", l, g.w-l, g.h))
		g.add("rot180")
		g.add("rot90")
		g.w, g.h = g.h, g.w
	}
	n := r.Range(3, 40)
	for len(g.toks) < n+1 {
		g.op()
	}
	if len(g.toks) > 41 {
		g.toks = g.toks[:41]
	}
	return g.toks
}

type c16arrGen struct {
	r    *Rng
	size int
	toks []string
}

func (g *c16arrGen) add(s string) { g.toks = append(g.toks, s) }

func (g *c16arrGen) idx() int {
	i := g.r.Intn(g.size)
	if g.r.Chance(0.4) {
		c := []int{0, 30, 31, 32, 33, 63, 64, 65, g.size - 1, g.size - 2}
		v := c[g.r.Intn(len(c))]
		if v >= 0 && v < g.size {
			i = v
		}
	}
	return i
}

func (g *c16arrGen) op() {
	r := g.r
	k := r.Intn(100)
	if g.size == 0 && k < 40 {
		k = 40 + r.Intn(60)
	}
	switch {
	case k < 10:
		g.add(fmt.Sprintf("set,%d", g.idx()))
	case k < 17:
		g.add(fmt.Sprintf("flip,%d", g.idx()))
	case k < 22:
		g.add(fmt.Sprintf("get,%d", g.idx()))
	case k < 28:
		// SetBulk: the value may not have bits beyond size (documented in-range condition)
		i := g.idx()
		v := uint32(r.U64())
		if r.Chance(0.2) {
			v = 0xFFFFFFFF
		}
		base := (i / 32) * 32
		if g.size-base < 32 {
			v &= (uint32(1) << uint(g.size-base)) - 1
		}
		g.add(fmt.Sprintf("setBulk,%d,%d", i, v))
	case k < 34:
		bo := 0
		nb := 0
		if g.size >= 8 {
			nb = r.Range(0, g.size/8)
			bo = r.Intn(g.size - 8*nb + 1)
		}
		off := r.Intn(3)
		arr := make([]byte, off+nb+r.Intn(3))
		for i := range arr {
			arr[i] = byte(r.U64())
		}
		g.add(fmt.Sprintf("toBytes,%d,%s,%d,%d", bo, c16hex(arr), off, nb))
	case k < 40:
		g.add(fmt.Sprintf("get,%d", g.idx()))
	case k < 47:
		f := r.Intn(g.size + 3) // from >= size is defined: answers size
		g.add(fmt.Sprintf("nextSet,%d", f))
	case k < 53:
		g.add(fmt.Sprintf("nextUnset,%d", r.Intn(g.size+3)))
	case k < 60:
		s := r.Intn(g.size + 1)
		e := r.Range(s, g.size)
		if r.Chance(0.1) { // checked error
			e = g.size + 1 + r.Intn(3)
		} else if r.Chance(0.05) && s > 0 {
			e = s - 1
		}
		g.add(fmt.Sprintf("setRange,%d,%d", s, e))
	case k < 66:
		s := r.Intn(g.size + 1)
		e := r.Range(s, g.size)
		if r.Chance(0.1) {
			e = g.size + 1
		}
		g.add(fmt.Sprintf("isRange,%d,%d,%d", s, e, r.Intn(2)))
	case k < 68:
		g.add("clear")
	case k < 75:
		if g.size < 330 {
			g.add(fmt.Sprintf("appendBit,%d", r.Intn(2)))
			g.size++
		}
	case k < 81:
		n := r.Range(0, 32)
		if r.Chance(0.08) {
			g.add(fmt.Sprintf("appendBits,%d,%d", r.U64()>>32, 33+r.Intn(3)))
		} else if g.size < 330 {
			v := r.U64()
			switch r.Intn(3) {
			case 0:
				v >>= 32
			case 1:
				v >>= uint(r.Range(32, 63))
			}
			g.add(fmt.Sprintf("appendBits,%d,%d", v, n))
			g.size += n
		}
	case k < 86:
		if g.size < 330 {
			if r.Chance(0.2) {
				g.add("appendSelf")
				g.size *= 2
			} else {
				n := r.Intn(70)
				g.add("appendArr," + c16randArrLit(r, n))
				g.size += n
			}
		}
	case k < 92:
		if r.Chance(0.1) {
			g.add("xor," + c16randArrLit(r, g.size+1))
		} else if r.Chance(0.1) {
			g.add("xorSelf")
		} else {
			g.add("xor," + c16randArrLit(r, g.size))
		}
	case k < 98:
		g.add("reverse")
	default:
		g.add("str")
	}
}

func c16genArr(r *Rng, size, idx int) []string {
	g := &c16arrGen{r: r, size: size}
	if size == 0 && r.Bool() {
		g.add("empty")
	} else if r.Chance(0.25) {
		// grow to the target size by appends
		g.add("empty")
		g.size = 0
		for g.size < size {
			n := r.Range(1, 32)
			if n > size-g.size {
				n = size - g.size
			}
			g.add(fmt.Sprintf("appendBits,%d,%d", r.U64()>>32, n))
			g.size += n
		}
	} else {
		g.add(fmt.Sprintf("new,%d", size))
	}
	switch idx % 5 {
	case 0: // marks at both ends, reverse twice, scans
		if g.size > 0 {
			g.add("set,0")
			g.add(fmt.Sprintf("set,%d", g.size-1))
			g.add(fmt.Sprintf("flip,%d", g.size/2))
		}
		g.add("reverse")
		g.add("nextSet,0")
		g.add("reverse")
		g.add("nextUnset,0")
	case 1: // full-range fill and tests
		g.add(fmt.Sprintf("setRange,0,%d", g.size))
		g.add(fmt.Sprintf("isRange,0,%d,1", g.size))
		g.add("appendBit,0")
		g.size++
		g.add(fmt.Sprintf("isRange,0,%d,1", g.size))
		g.add("reverse")
	case 2:
		g.add("xor," + c16randArrLit(r, g.size))
		g.add("reverse")
		g.add("appendBit,1")
		g.size++
		g.add("reverse")
	}
	n := r.Range(3, 40)
	for len(g.toks) < n+1 {
		g.op()
	}
	if len(g.toks) > 41 {
		g.toks = g.toks[:41]
	}
	return g.toks
}

// malformed stream: indices outside the container (compared with the word model only)
func c16genBad(r *Rng, kind byte) []string {
	if kind == 'm' {
		w := c16BoundaryWidths[r.Intn(len(c16BoundaryWidths))]
		h := r.Range(1, 3)
		g := &c16matGen{r: r, w: w, h: h}
		if r.Chance(0.1) {
			switch r.Intn(4) {
			case 0:
				return []string{fmt.Sprintf("new,0,%d", h)}
			case 1:
				return []string{fmt.Sprintf("new,%d,0", w)}
			case 2:
				return []string{"pb,101/1/110"} // ragged: index panic
			default:
				return []string{"ps," + c16hex([]byte("X X\nX \n")) + "," + c16hex([]byte("X")) + "," + c16hex([]byte(" "))}
			}
		}
		g.add(fmt.Sprintf("new,%d,%d", w, h))
		for i := 0; i < 4; i++ {
			g.op()
		}
		x := w + r.Intn(70)
		y := r.Intn(h + 1)
		switch r.Intn(6) {
		case 0:
			g.add(fmt.Sprintf("set,%d,%d", x, y))
		case 1:
			g.add(fmt.Sprintf("flip,%d,%d", x, y))
		case 2:
			g.add(fmt.Sprintf("unset,%d,%d", x, y))
		case 3:
			g.add(fmt.Sprintf("getRow,%d,-", g.h+r.Intn(2)))
		case 4:
			g.add(fmt.Sprintf("setRow,%d,%s", g.h+r.Intn(2), c16randArrLit(r, g.w)))
		default:
			g.add(fmt.Sprintf("setRow,%d,%s", r.Intn(g.h), c16randArrLit(r, r.Intn(g.w+40))))
		}
		g.add("rot180")
		return g.toks
	}
	size := c16QuickSizes[r.Intn(len(c16QuickSizes))]
	g := &c16arrGen{r: r, size: size}
	g.add(fmt.Sprintf("new,%d", size))
	for i := 0; i < 3; i++ {
		g.op()
	}
	i := g.size + r.Intn(70)
	switch r.Intn(6) {
	case 0:
		g.add(fmt.Sprintf("get,%d", i))
	case 1:
		g.add(fmt.Sprintf("set,%d", i))
	case 2:
		g.add(fmt.Sprintf("flip,%d", i))
	case 3:
		g.add(fmt.Sprintf("setBulk,%d,%d", i, uint32(r.U64())))
	case 4:
		g.add(fmt.Sprintf("toBytes,%d,%s,0,2", g.size, c16hex([]byte{1, 2, 3})))
	default:
		g.add(fmt.Sprintf("toBytes,0,%s,1,1", c16hex([]byte{7})))
	}
	g.add("reverse")
	return g.toks
}

// ---------- the suite ----------

type c16job struct {
	kind byte
	toks []string
	bad  bool
}

func c16judge(c *Ctx, jobs []c16job) {
	runs := make([]*c16run, len(jobs))
	var specLines []string
	var specIdx []int
	for i, j := range jobs {
		runs[i] = c16exec(j.kind, j.toks, !j.bad)
		seq := strings.Join(j.toks, ";")
		goOut := strings.Join(runs[i].steps, "|")
		if j.kind == 'm' {
			c.Cmp("wm", "c16 wm "+seq, goOut)
		} else {
			c.Cmp("wa", "c16 wa "+seq, strings.Join(runs[i].fullA, "|"))
		}
		if !j.bad {
			specLines = append(specLines, "c16 s"+string(j.kind)+" "+seq)
			specIdx = append(specIdx, i)
		}
	}
	if len(specLines) == 0 {
		return
	}
	outs := c.Model(specLines)
	for k, out := range outs {
		i := specIdx[k]
		run := runs[i]
		j := jobs[i]
		suite := "s" + string(j.kind)
		seq := strings.Join(j.toks, ";")
		for _, tok := range j.toks {
			c.Note(string(j.kind) + ":" + strings.SplitN(tok, ",", 2)[0])
		}
		c.Note(fmt.Sprintf("%c:len%02d-", j.kind, (len(j.toks)-1)/10*10))
		if out == "NO-DRIVER" || out == "DRIVER-DIED" {
			c.Note("oracle-skipped:" + out)
			continue
		}
		spec := strings.Split(out, "|")
		ok, key, detail, upto := true, "", "", len(j.toks)
		for s := 0; s < len(run.steps) || s < len(spec); s++ {
			g, m := "<missing>", "<missing>"
			if s < len(run.steps) {
				g = run.steps[s]
			}
			if s < len(spec) {
				m = spec[s]
			}
			if g != m {
				opn := "ctor"
				if s < len(j.toks) {
					opn = strings.SplitN(j.toks[s], ",", 2)[0]
				}
				cw := 1
				if s < len(run.classW) {
					cw = run.classW[s]
				}
				ok = false
				// which part of the step differs: the operation's own effect/answer, or one of the
				// whole-matrix queries that are evaluated after every step
				gp, mp := strings.Split(g, ";"), strings.Split(m, ";")
				if len(gp) == 4 && len(mp) == 4 && gp[0] == mp[0] {
					for qi, qn := range []string{"", "getEnclosingRectangle", "getTopLeftOnBit", "getBottomRightOnBit"} {
						if qi > 0 && gp[qi] != mp[qi] {
							opn = qn + "-after-" + opn
							break
						}
					}
				}
				key = opn + "-" + c16class(j.kind, cw)
				detail = fmt.Sprintf("step %d (%s): go=%s spec=%s", s, j.toks[c16min(s, len(j.toks)-1)], g, m)
				upto = s + 1
				break
			}
		}
		if ok && run.view != "" {
			ok = false
			cw := 1
			if run.viewAt < len(run.classW) {
				cw = run.classW[run.viewAt]
			}
			key = "view-" + run.view + "-" + c16class(j.kind, cw)
			detail = fmt.Sprintf("after step %d (%s) the view %s disagrees with the words", run.viewAt, j.toks[run.viewAt], run.view)
			upto = run.viewAt + 1
		}
		input := string(j.kind) + " " + seq
		if !ok {
			if upto > len(j.toks) {
				upto = len(j.toks)
			}
			input = string(j.kind) + " " + strings.Join(j.toks[:upto], ";")
		}
		c.Oracle(suite, ok, key, input, detail)
	}
}

func c16min(a, b int) int {
	if a < b {
		return a
	}
	return b
}

func c16corpusFiles() []string {
	var lines []string
	exe, err := os.Executable()
	if err != nil {
		return nil
	}
	files, _ := filepath.Glob(filepath.Join(filepath.Dir(exe), "..", "corpus", "C16", "*.ops"))
	for _, f := range files {
		b, err := os.ReadFile(f)
		if err != nil {
			continue
		}
		for _, l := range strings.Split(string(b), "\n") {
			l = strings.TrimSpace(l)
			if l != "" && !strings.HasPrefix(l, "#") {
				lines = append(lines, l)
			}
		}
	}
	return lines
}

func runC16(c *Ctx) {
	c.res.Rule = "one case = constructor + up to 40 operations of the full public API with in-range arguments " +
		"(checked-error arguments included); matrices: quick = boundary widths {1,2,5,31,32,33,63,64,65,95,96,97,127,128,129,130} x heights 1..4, " +
		"thorough = every width 1..130 x height 1..8; arrays: quick sizes {0,1,31,32,33,64,65,200}, thorough every size 0..200; " +
		"contents random/sparse/full, operands biased to word boundaries; after every step full state + whole-matrix queries are compared " +
		"with the Lean word model (Cmp) and the Lean naive model (Oracle), and all other views are cross-checked in Go; " +
		"a separate malformed stream (indices outside) is compared with the word model only; non-trivial = distinct sequence"
	// corpus first
	var jobs []c16job
	for _, l := range append(append([]string{}, c16Corpus...), c16corpusFiles()...) {
		p := strings.SplitN(l, " ", 2)
		if len(p) != 2 || (p[0] != "m" && p[0] != "a") {
			continue
		}
		jobs = append(jobs, c16job{p[0][0], strings.Split(p[1], ";"), false})
		c.Note("corpus")
	}
	c16judge(c, jobs)

	var widths, heights, sizes []int
	if c.Thorough {
		for w := 1; w <= 130; w++ {
			widths = append(widths, w)
		}
		heights = []int{1, 2, 3, 4, 5, 6, 7, 8}
		for s := 0; s <= 200; s++ {
			sizes = append(sizes, s)
		}
	} else {
		widths = c16BoundaryWidths
		heights = []int{1, 2, 3, 4}
		sizes = c16QuickSizes
	}
	perMat := c.Pick(48, 150)
	perArr := c.Pick(300, 400)
	nBad := c.Pick(300, 6000)
	type unit struct {
		kind    byte
		a, b, n int
	}
	var units []unit
	for _, w := range widths {
		for _, h := range heights {
			units = append(units, unit{'m', w, h, perMat})
		}
	}
	for _, s := range sizes {
		units = append(units, unit{'a', s, 0, perArr})
	}
	units = append(units, unit{'x', 0, 0, nBad})
	c.Parallel(len(units), 16, func(i int, r *Rng) {
		u := units[i]
		const batch = 40
		for done := 0; done < u.n; done += batch {
			if !c.TimeLeft() {
				c.Note("budget-exhausted")
				return
			}
			var jobs []c16job
			for k := done; k < u.n && k < done+batch; k++ {
				switch u.kind {
				case 'm':
					jobs = append(jobs, c16job{'m', c16genMat(r, u.a, u.b, k), false})
				case 'a':
					jobs = append(jobs, c16job{'a', c16genArr(r, u.a, k), false})
				default:
					kind := byte('m')
					if k%2 == 1 {
						kind = 'a'
					}
					jobs = append(jobs, c16job{kind, c16genBad(r, kind), true})
				}
			}
			c16judge(c, jobs)
		}
	})
}
