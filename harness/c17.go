package main

// C17 — luminance views (crop / invert / rotate over RGB-int, Go-image and planar-YUV sources) and
// bilevel binarisation.  Part 1: sources, naive 2-D array model, view-operation sequences.
//
// ORACLE (real code vs. the property): after every operation of a sequence the real source must agree
// pixel-wise with a naive w x h array kept here (GetRow(y) == row y of GetMatrix == naive; crop = sub-array,
// invert = 255-v, rotate CCW = index transform); rows outside the view and crop rectangles with a negative
// origin or reaching outside the underlying image must be errors (no panic, no foreign pixel).
// CORRESPONDENCE (real code vs. Lean model Gzx.Model.Luminance): the same op sequence incl. observations is
// sent to the driver (`c17 seq ...`) and the token streams must be identical.

import (
	"encoding/hex"
	"fmt"
	"image"
	"image/color"
	"strings"

	"github.com/makiuchi-d/gozxing"
)

func init() { suites["C17"] = runC17 }

// ---------- naive 2-D array ----------

type c17Img struct {
	w, h int
	px   []byte
}

func c17NewImg(w, h int) *c17Img { return &c17Img{w, h, make([]byte, w*h)} }
func (m *c17Img) row(y int) []byte { return m.px[y*m.w : (y+1)*m.w] }
func (m *c17Img) crop(l, t, w, h int) *c17Img {
	n := c17NewImg(w, h)
	for y := 0; y < h; y++ {
		for x := 0; x < w; x++ {
			n.px[y*w+x] = m.px[(t+y)*m.w+l+x]
		}
	}
	return n
}
func (m *c17Img) invert() *c17Img {
	n := c17NewImg(m.w, m.h)
	for i, v := range m.px {
		n.px[i] = 255 - v
	}
	return n
}

// quarter turn counter-clockwise: the old top-right pixel becomes the new top-left pixel
func (m *c17Img) rotCCW() *c17Img {
	n := c17NewImg(m.h, m.w)
	for y := 0; y < n.h; y++ {
		for x := 0; x < n.w; x++ {
			n.px[y*n.w+x] = m.px[x*m.w+(m.w-1-y)]
		}
	}
	return n
}
func (m *c17Img) equal(o *c17Img) bool {
	return m.w == o.w && m.h == o.h && string(m.px) == string(o.px)
}

// ---------- colour -> luminance formulas (the documented ones; compared with the Lean model by `c17 conv`) ----------

// RGB ints: green-favouring average (r + 2g + b) / 4 of the 8-bit channels of 0xRRGGBB
func c17LumRGBInt(p int) byte {
	r := (p >> 16) & 0xff
	g := (p >> 8) & 0xff
	b := p & 0xff
	return byte((r + 2*g + b) / 4)
}

// Go images: 16-bit alpha-premultiplied channels as returned by color.Color.RGBA(), scaled to 8 bit,
// weighted by alpha over a white background — as coded in go_image_luminance_source.go
func c17LumRGBA16(r, g, b, a uint32) byte {
	lum := (r + 2*g + b) * 255 / (4 * 0xffff)
	return byte((lum*a + (0xffff-a)*255) / 0xffff)
}

// ---------- contents ----------

var c17Modes = []string{"rand", "coord", "vstripe", "hstripe", "dstripe", "bilevel", "blocks", "white", "black", "gradient", "lowcontrast"}

func c17Content(r *Rng, mode string, w, h int) []byte {
	px := make([]byte, w*h)
	k := r.Intn(256)
	per := r.Range(1, 9)
	dens := r.Range(1, 9)
	base := r.Intn(230)
	for y := 0; y < h; y++ {
		for x := 0; x < w; x++ {
			var v int
			switch mode {
			case "rand":
				v = r.Intn(256)
			case "coord":
				v = x + 31*y + k
			case "vstripe":
				v = ((x / per) & 1) * 255
			case "hstripe":
				v = ((y / per) & 1) * 255
			case "dstripe":
				v = (((x + y) / per) & 1) * 255
			case "bilevel":
				if r.Intn(10) < dens {
					v = 255
				}
			case "blocks":
				v = int((uint32(x/per)*2654435761+uint32(y/per)*40503+uint32(k))>>7&1) * 255
			case "white":
				v = 255
			case "black":
				v = 0
			case "gradient":
				v = (x*255/(w+h) + y*255/(w+h) + k) & 0xff
			case "lowcontrast":
				v = base + r.Intn(26)
			}
			px[y*w+x] = byte(v)
		}
	}
	return px
}

// ---------- sources ----------

var c17Kinds = []string{"rgb", "gray", "rgba", "nrgba", "pal", "plain", "nrgba64", "yuv", "yuvrev"}

// an image.Image that is neither *image.Gray nor an RGBA64Image: takes the generic At() path
type c17PlainImage struct{ im *image.NRGBA }

func (p c17PlainImage) ColorModel() color.Model { return p.im.ColorModel() }
func (p c17PlainImage) Bounds() image.Rectangle { return p.im.Bounds() }
func (p c17PlainImage) At(x, y int) color.Color { return p.im.At(x, y) }

// what the Lean model needs to start from: kind, underlying data and the constructor rectangle
type c17Start struct {
	mkind                  string // rgb | img | yuv
	dataW, dataH           int
	left, top, w, h        int
	rev                    bool
	data                   []byte // luminance data the view starts on (yuv: the caller's buffer before any reversal)
}

type c17Source struct {
	kind  string
	src   gozxing.LuminanceSource
	naive *c17Img // expected content of the view
	start c17Start
	err   string // constructor error kind (yuv only)
	convLine string // `gray v,..` / `rgba16 r:g:b:a,..` : the colour values the luminances were computed from
}

func c17MakeRGB(w, h int, pixels []int) gozxing.LuminanceSource {
	return gozxing.NewRGBLuminanceSource(w, h, pixels)
}

func c17ImageNaive(img image.Image, withLine bool) (*c17Img, string) {
	b := img.Bounds()
	n := c17NewImg(b.Dx(), b.Dy())
	var sb strings.Builder
	_, isGray := img.(*image.Gray)
	if isGray {
		sb.WriteString("gray ")
	} else {
		sb.WriteString("rgba16 ")
	}
	i := 0
	for y := b.Min.Y; y < b.Max.Y; y++ {
		for x := b.Min.X; x < b.Max.X; x++ {
			if i > 0 && withLine {
				sb.WriteByte(',')
			}
			if g, ok := img.(*image.Gray); ok {
				n.px[i] = g.GrayAt(x, y).Y
				if withLine {
					fmt.Fprintf(&sb, "%d", n.px[i])
				}
			} else {
				r, g, b, a := img.At(x, y).RGBA()
				n.px[i] = c17LumRGBA16(r, g, b, a)
				if withLine {
					fmt.Fprintf(&sb, "%d:%d:%d:%d", r, g, b, a)
				}
			}
			i++
		}
	}
	return n, sb.String()
}

// c17MakeSource builds a source of the given kind whose luminance is `lum` (w x h) when exact is true
// (grey, opaque colours); with exact=false colours / alpha are randomised around it and the expected
// luminance comes from the documented formula.
func c17MakeSource(r *Rng, kind string, lum []byte, w, h int, exact bool) *c17Source {
	s := &c17Source{kind: kind}
	rect := image.Rect(0, 0, w, h)
	if r.Chance(0.5) {
		x0, y0 := r.Range(-5, 9), r.Range(-5, 9)
		rect = image.Rect(x0, y0, x0+w, y0+h)
	}
	var img image.Image
	switch kind {
	case "rgb":
		pixels := make([]int, w*h)
		for i, v := range lum {
			if exact || r.Chance(0.3) {
				pixels[i] = int(v)<<16 | int(v)<<8 | int(v)
			} else {
				pixels[i] = r.Intn(1 << 24)
			}
			switch r.Intn(4) {
			case 0:
				pixels[i] |= 0xff000000
			case 1:
				pixels[i] |= int(r.Intn(256)) << 24
			case 2:
				pixels[i] |= -1 << 24 // negative int: sign bits above the colour
			}
		}
		s.src = gozxing.NewRGBLuminanceSource(w, h, pixels)
		s.naive = c17NewImg(w, h)
		for i, p := range pixels {
			s.naive.px[i] = c17LumRGBInt(p)
		}
		s.start = c17Start{mkind: "rgb"}
	case "gray":
		g := image.NewGray(rect)
		if r.Chance(0.3) { // view into a larger image: stride > width
			big := image.NewGray(image.Rect(rect.Min.X-2, rect.Min.Y-1, rect.Max.X+3, rect.Max.Y+2))
			for i := range big.Pix {
				big.Pix[i] = byte(r.Intn(256))
			}
			g = big.SubImage(rect).(*image.Gray)
		}
		for y := 0; y < h; y++ {
			for x := 0; x < w; x++ {
				g.SetGray(rect.Min.X+x, rect.Min.Y+y, color.Gray{lum[y*w+x]})
			}
		}
		img = g
	case "rgba":
		m := image.NewRGBA(rect)
		for y := 0; y < h; y++ {
			for x := 0; x < w; x++ {
				v := lum[y*w+x]
				c := color.RGBA{v, v, v, 255}
				if !exact && r.Chance(0.7) {
					a := byte(255)
					if r.Chance(0.5) {
						a = byte(r.Intn(256))
					}
					c = color.RGBA{byte(r.Intn(int(a) + 1)), byte(r.Intn(int(a) + 1)), byte(r.Intn(int(a) + 1)), a}
				}
				m.SetRGBA(rect.Min.X+x, rect.Min.Y+y, c)
			}
		}
		img = m
	case "nrgba", "plain":
		m := image.NewNRGBA(rect)
		for y := 0; y < h; y++ {
			for x := 0; x < w; x++ {
				v := lum[y*w+x]
				c := color.NRGBA{v, v, v, 255}
				if !exact && r.Chance(0.7) {
					c = color.NRGBA{byte(r.Intn(256)), byte(r.Intn(256)), byte(r.Intn(256)), byte(r.Intn(256))}
					if r.Chance(0.3) {
						c.A = 255
					}
				}
				m.SetNRGBA(rect.Min.X+x, rect.Min.Y+y, c)
			}
		}
		if kind == "plain" {
			img = c17PlainImage{m}
		} else {
			img = m
		}
	case "nrgba64":
		m := image.NewNRGBA64(rect)
		for y := 0; y < h; y++ {
			for x := 0; x < w; x++ {
				v := uint16(lum[y*w+x]) * 257
				c := color.NRGBA64{v, v, v, 0xffff}
				if !exact && r.Chance(0.7) {
					c = color.NRGBA64{uint16(r.Intn(65536)), uint16(r.Intn(65536)), uint16(r.Intn(65536)), uint16(r.Intn(65536))}
					if r.Chance(0.3) {
						c.A = 0xffff
					}
				}
				m.SetNRGBA64(rect.Min.X+x, rect.Min.Y+y, c)
			}
		}
		img = m
	case "pal":
		pal := make(color.Palette, 256)
		for i := range pal {
			pal[i] = color.Gray{byte(i)}
			if !exact && r.Chance(0.5) {
				pal[i] = color.NRGBA{byte(r.Intn(256)), byte(r.Intn(256)), byte(r.Intn(256)), byte(255 - r.Intn(2)*r.Intn(256))}
			}
		}
		m := image.NewPaletted(rect, pal)
		for y := 0; y < h; y++ {
			for x := 0; x < w; x++ {
				m.SetColorIndex(rect.Min.X+x, rect.Min.Y+y, lum[y*w+x])
			}
		}
		img = m
	case "yuv", "yuvrev":
		padL, padR, padT, padB := 0, 0, 0, 0
		if r.Chance(0.6) {
			padL, padR, padT, padB = r.Intn(4), r.Intn(4), r.Intn(3), r.Intn(3)
		}
		dw, dh := w+padL+padR, h+padT+padB
		n := dw * dh
		if r.Chance(0.5) {
			n += dw * dh / 2 // chroma planes follow the Y plane
		}
		data := make([]byte, n)
		for i := range data {
			data[i] = byte(r.Intn(256))
		}
		rev := kind == "yuvrev"
		for y := 0; y < h; y++ {
			for x := 0; x < w; x++ {
				data[(padT+y)*dw+padL+x] = lum[y*w+x]
			}
		}
		s.start = c17Start{mkind: "yuv", dataW: dw, dataH: dh, left: padL, top: padT, w: w, h: h, rev: rev, data: append([]byte(nil), data...)}
		s.naive = &c17Img{w, h, append([]byte(nil), lum...)}
		if rev {
			for y := 0; y < h; y++ {
				row := s.naive.row(y)
				for a, b := 0, w-1; a < b; a, b = a+1, b-1 {
					row[a], row[b] = row[b], row[a]
				}
			}
		}
		src, e := gozxing.NewPlanarYUVLuminanceSource(data, dw, dh, padL, padT, w, h, rev)
		if e != nil {
			s.err = errKind(e)
		}
		s.src = src
		return s
	}
	if img != nil {
		s.src = gozxing.NewLuminanceSourceFromImage(img)
		s.naive, s.convLine = c17ImageNaive(img, w*h <= 64)
		s.start = c17Start{mkind: "img"}
	}
	s.start.dataW, s.start.dataH, s.start.w, s.start.h = w, h, w, h
	s.start.data = s.naive.px
	return s
}

// ---------- operations ----------

type c17Op struct {
	k          string // c crop, i invert, r rotate ccw, r45, m matrix, k matrix checksum, g getrow, s supported flags, d dims
	l, t, w, h int    // crop rectangle; g: l = y, t = buffer length (-1 = nil)
}

func (o c17Op) String() string {
	switch o.k {
	case "c":
		return fmt.Sprintf("c:%d:%d:%d:%d", o.l, o.t, o.w, o.h)
	case "g":
		return fmt.Sprintf("g:%d:%d", o.l, o.t)
	}
	return o.k
}

func c17Hex(b []byte) string {
	if len(b) == 0 {
		return "-"
	}
	return hex.EncodeToString(b)
}

func c17Checksum(b []byte) int {
	acc := 0
	for _, v := range b {
		acc = (acc*31 + int(v) + 1) % 1000000007
	}
	return acc
}

// state of one sequence on the real code and on the naive model
type c17State struct {
	c     *Ctx
	input string
	src   gozxing.LuminanceSource
	naive *c17Img
	// underlying image of the current crop chain and the view's absolute offset in it
	under      *c17Img
	absL, absT int
	inv        bool // the current view is an inverted one
	small      bool
	ops        []string
	outs       []string
	dead       bool // real code panicked or left the property's domain: stop the sequence
}

func (st *c17State) fail(key, detail string) {
	st.c.Oracle("view", false, key, st.input+" ops="+strings.Join(st.ops, ","), detail)
}
func (st *c17State) pass() { st.c.Oracle("view", true, "", st.input+" ops="+strings.Join(st.ops, ","), "") }

func (st *c17State) emit(op c17Op, out string) {
	st.ops = append(st.ops, op.String())
	st.outs = append(st.outs, out)
}

// observe compares the whole view with the naive array (oracle) and records matrix / row observations.
func (st *c17State) observe(r *Rng) {
	if st.dead {
		return
	}
	src, nv := st.src, st.naive
	res := Safe(func() string {
		if src.GetWidth() != nv.w || src.GetHeight() != nv.h {
			return fmt.Sprintf("dims|real %dx%d naive %dx%d", src.GetWidth(), src.GetHeight(), nv.w, nv.h)
		}
		m := src.GetMatrix()
		if len(m) < nv.w*nv.h {
			return fmt.Sprintf("matrix-short|len %d < %d", len(m), nv.w*nv.h)
		}
		for i, v := range nv.px {
			if m[i] != v {
				return fmt.Sprintf("matrix-vs-naive|pixel (%d,%d) of %dx%d: real %d naive %d", i%nv.w, i/nv.w, nv.w, nv.h, m[i], v)
			}
		}
		return ""
	})
	if res == "PANIC" {
		st.fail("matrix-panic", "GetMatrix panicked on a view produced by accepted operations")
		st.dead = true
		st.emit(c17Op{k: "m"}, "PANIC")
		return
	}
	if res != "" {
		kv := strings.SplitN(res, "|", 2)
		st.fail(kv[0], kv[1])
		st.dead = true
		return
	}
	if st.small {
		st.emit(c17Op{k: "m"}, fmt.Sprintf("%dx%d=%s", nv.w, nv.h, c17Hex(src.GetMatrix()[:nv.w*nv.h])))
	} else {
		st.emit(c17Op{k: "k"}, fmt.Sprintf("%dx%d#%d", nv.w, nv.h, c17Checksum(src.GetMatrix()[:nv.w*nv.h])))
	}
	// rows: all when few, else the edges and a sample
	var ys []int
	if nv.h <= 12 {
		for y := 0; y < nv.h; y++ {
			ys = append(ys, y)
		}
	} else {
		ys = []int{0, 1, nv.h - 2, nv.h - 1}
		for i := 0; i < 5; i++ {
			ys = append(ys, r.Intn(nv.h))
		}
	}
	for _, y := range ys {
		buflen := -1
		switch r.Intn(5) {
		case 0:
			buflen = r.Intn(nv.w + 1) // too small (or exactly w)
		case 1:
			buflen = nv.w
		case 2:
			buflen = nv.w + r.Range(1, 4)
		}
		var buf []byte
		if buflen >= 0 {
			buf = make([]byte, buflen)
			for i := range buf {
				buf[i] = 0xAA
			}
		}
		var got []byte
		out := Safe(func() string {
			row, e := src.GetRow(y, buf)
			if e != nil {
				return "ERR:" + errKind(e)
			}
			got = row
			return c17Hex(row)
		})
		if st.small || y == 0 || y == nv.h-1 {
			st.emit(c17Op{k: "g", l: y, t: buflen}, out)
		}
		if out == "PANIC" || strings.HasPrefix(out, "ERR") {
			st.fail("row-in-range-fails", fmt.Sprintf("GetRow(%d) of a %dx%d view: %s", y, nv.w, nv.h, out))
			st.dead = true
			return
		}
		if len(got) < nv.w || string(got[:nv.w]) != string(nv.row(y)) {
			st.fail("row-vs-naive", fmt.Sprintf("GetRow(%d) of a %dx%d view = %s, naive row = %s", y, nv.w, nv.h, c17Hex(got), c17Hex(nv.row(y))))
			st.dead = true
			return
		}
	}
	// rows outside the view: an error, never a panic, never pixels
	for _, y := range []int{-1, nv.h, nv.h + r.Range(1, 300), -r.Range(2, 300)} {
		out := Safe(func() string {
			_, e := src.GetRow(y, nil)
			if e != nil {
				return "ERR:" + errKind(e)
			}
			return "ok"
		})
		st.emit(c17Op{k: "g", l: y, t: -1}, out)
		if !strings.HasPrefix(out, "ERR") {
			st.fail("row-outside-"+strings.ToLower(out), fmt.Sprintf("GetRow(%d) of a view of height %d: %s (an error is required)", y, nv.h, out))
			st.dead = true
			return
		}
	}
	st.pass()
}

// genCrop picks a rectangle: mostly valid, else one of the invalid classes
func (st *c17State) genCrop(r *Rng) c17Op {
	w, h := st.naive.w, st.naive.h
	cw, ch := r.Range(1, w), r.Range(1, h)
	if r.Chance(0.2) {
		cw = w
	}
	if r.Chance(0.2) {
		ch = h
	}
	l, t := r.Intn(w-cw+1), r.Intn(h-ch+1)
	switch r.Intn(20) {
	case 0:
		l = -r.Range(1, 3)
	case 1:
		t = -r.Range(1, 3)
	case 2:
		l = w - cw + r.Range(1, 3) // one to three columns beyond the view
	case 3:
		t = h - ch + r.Range(1, 3)
	case 4:
		cw = w + r.Range(1, 3)
		l = 0
	case 5:
		ch = h + r.Range(1, 3)
		t = 0
	case 6:
		l, t = r.Range(-300, 300), r.Range(-300, 300)
	case 7:
		l, t, cw, ch = w, h, r.Range(1, 4), r.Range(1, 4) // entirely outside, touching the corner
	case 8:
		l, cw = st.under.w-st.absL-cw+1, cw // just beyond the underlying data
		if l < 0 {
			l = w
		}
	case 9:
		if r.Chance(0.3) {
			cw, ch = 0, 0 // empty rectangle inside the view
		}
	case 10:
		if r.Chance(0.5) { // negative extent
			if r.Bool() {
				cw = -r.Range(1, 3)
			} else {
				ch = -r.Range(1, 3)
			}
		}
	}
	return c17Op{k: "c", l: l, t: t, w: cw, h: ch}
}

func (st *c17State) doCrop(op c17Op) {
	nv := st.naive
	negSize := op.w < 0 || op.h < 0
	neg := op.l < 0 || op.t < 0
	outData := st.absL+op.l+op.w > st.under.w || st.absT+op.t+op.h > st.under.h
	outView := op.l+op.w > nv.w || op.t+op.h > nv.h
	var ns gozxing.LuminanceSource
	out := Safe(func() string {
		s, e := st.src.Crop(op.l, op.t, op.w, op.h)
		if e != nil {
			return "ERR:" + errKind(e)
		}
		ns = s
		return "ok"
	})
	st.emit(op, out)
	cls := "valid"
	switch {
	case negSize:
		cls = "neg-size"
	case neg:
		cls = "neg-origin"
	case outData:
		cls = "outside-data"
	case outView:
		cls = "outside-view"
	}
	st.c.Note("crop:" + cls + ":" + strings.SplitN(out, ":", 2)[0])
	rect := fmt.Sprintf("Crop(%d,%d,%d,%d) on a %dx%d view at offset (%d,%d) of %dx%d data", op.l, op.t, op.w, op.h, nv.w, nv.h, st.absL, st.absT, st.under.w, st.under.h)
	if out == "PANIC" {
		st.fail("crop-panic", rect+" panicked")
		st.dead = true
		return
	}
	switch cls {
	case "valid":
		if out != "ok" {
			st.fail("crop-valid-rejected", rect+": "+out)
			st.dead = true
			return
		}
		st.src, st.naive = ns, nv.crop(op.l, op.t, op.w, op.h)
		st.absL, st.absT = st.absL+op.l, st.absT+op.t
	case "neg-size":
		if out == "ok" {
			what := Safe(func() string {
				if _, e := ns.GetRow(0, nil); e != nil {
					return "GetRow(0) error"
				}
				return fmt.Sprintf("a %dx%d view", ns.GetWidth(), ns.GetHeight())
			})
			st.fail("crop-neg-size-accepted", rect+" accepted; reading it: "+what)
			st.dead = true
		}
	case "neg-origin", "outside-data":
		if out == "ok" {
			// what does the accepted source deliver?
			what := Safe(func() string {
				m := ns.GetMatrix()
				if _, e := ns.GetRow(0, nil); e != nil {
					return "GetRow(0) error"
				}
				return fmt.Sprintf("%dx%d view, matrix %s", ns.GetWidth(), ns.GetHeight(), c17Hex(m[:c17min(len(m), 24)]))
			})
			st.fail("crop-"+cls+"-accepted", rect+" accepted; reading it: "+what)
			st.dead = true
		}
	case "outside-view":
		// inside the underlying data but beyond the current view: ZXing accepts (bounds against the data),
		// a view-relative check rejects; both are allowed, but an accepted crop must show the underlying pixels
		if out == "ok" {
			want := st.under.crop(st.absL+op.l, st.absT+op.t, op.w, op.h)
			if st.naiveInv() {
				want = want.invert()
			}
			st.src, st.naive = ns, want
			st.absL, st.absT = st.absL+op.l, st.absT+op.t
		}
	}
}

func c17min(a, b int) int {
	if a < b {
		return a
	}
	return b
}

func (st *c17State) naiveInv() bool { return st.inv }

func c17Matrix(s gozxing.LuminanceSource) (img *c17Img, res string) {
	res = Safe(func() string {
		w, h := s.GetWidth(), s.GetHeight()
		m := s.GetMatrix()
		if len(m) < w*h {
			return "short"
		}
		img = &c17Img{w, h, append([]byte(nil), m[:w*h]...)}
		return "ok"
	})
	return
}

func (st *c17State) doInvert() {
	before := st.naive
	var ns gozxing.LuminanceSource
	out := Safe(func() string { ns = st.src.Invert(); return "ok" })
	st.emit(c17Op{k: "i"}, out)
	if out != "ok" || ns == nil {
		st.fail("invert-panic", "Invert() panicked or returned nil")
		st.dead = true
		return
	}
	// a second inversion must give back the original content
	var back gozxing.LuminanceSource
	if Safe(func() string { back = ns.Invert(); return "ok" }) != "ok" || back == nil {
		st.fail("invert-panic", "Invert().Invert() panicked or returned nil")
		st.dead = true
		return
	}
	if m, res := c17Matrix(back); res != "ok" || !m.equal(before) {
		st.fail("invert-twice-not-identity", fmt.Sprintf("Invert().Invert() of a %dx%d view differs from the view (%s)", before.w, before.h, res))
		st.dead = true
		return
	}
	if back == st.src {
		st.c.Note("invert:twice-same-object")
	} else {
		st.c.Note("invert:twice-new-object")
	}
	st.src, st.naive, st.inv = ns, before.invert(), !st.inv
}

func (st *c17State) doRotate() {
	sup := st.src.IsRotateSupported()
	var ns gozxing.LuminanceSource
	out := Safe(func() string {
		s, e := st.src.RotateCounterClockwise()
		if e != nil {
			return "ERR:" + errKind(e)
		}
		ns = s
		return "ok"
	})
	st.emit(c17Op{k: "r"}, out)
	st.c.Note(fmt.Sprintf("rotate:supported=%v:%s", sup, strings.SplitN(out, ":", 2)[0]))
	if out == "PANIC" {
		st.fail("rotate-panic", "RotateCounterClockwise panicked")
		st.dead = true
		return
	}
	if !sup {
		if out == "ok" {
			st.fail("rotate-unsupported-accepted", "IsRotateSupported()=false but RotateCounterClockwise succeeded")
			st.dead = true
		}
		return
	}
	if out != "ok" {
		st.fail("rotate-supported-rejected", "IsRotateSupported()=true but RotateCounterClockwise: "+out)
		st.dead = true
		return
	}
	// four quarter turns restore the original (checked on the side, on the real code)
	cur := ns
	okc := Safe(func() string {
		for i := 0; i < 3; i++ {
			n, e := cur.RotateCounterClockwise()
			if e != nil {
				return "ERR:" + errKind(e)
			}
			cur = n
		}
		return "ok"
	})
	if okc != "ok" {
		st.fail("rot4-not-identity", "second..fourth quarter turn: "+okc)
		st.dead = true
		return
	}
	if m, res := c17Matrix(cur); res != "ok" || !m.equal(st.naive) {
		st.fail("rot4-not-identity", fmt.Sprintf("four quarter turns of a %dx%d view differ from the view (%s)", st.naive.w, st.naive.h, res))
		st.dead = true
		return
	}
	st.src, st.naive = ns, st.naive.rotCCW()
	st.under, st.absL, st.absT = st.naive, 0, 0
	if st.inv {
		st.under = st.naive.invert()
	}
}

func (st *c17State) doRotate45() {
	out := Safe(func() string {
		_, e := st.src.RotateCounterClockwise45()
		if e != nil {
			return "ERR:" + errKind(e)
		}
		return "ok"
	})
	st.emit(c17Op{k: "r45"}, out)
	if out == "PANIC" {
		st.fail("rotate45-panic", "RotateCounterClockwise45 panicked")
		st.dead = true
	}
	if out == "ok" {
		st.dead = true // no source of this library implements it; nothing to compare with
		st.c.Note("rotate45:accepted")
	}
}

type c17Seq struct {
	kind  string
	w, h  int
	mode  string
	cseed uint64
	exact bool
	// large images (> 4200 data bytes) are always judged by the oracle but sent to the (list based, slow)
	// Lean model only when this is set
	bigToModel bool
}

func c17RunSeq(c *Ctx, r *Rng, q c17Seq, fixed []c17Op) {
	cr := NewRng(q.cseed)
	lum := c17Content(cr, q.mode, q.w, q.h)
	s := c17MakeSource(cr, q.kind, lum, q.w, q.h, q.exact)
	input := fmt.Sprintf("kind=%s size=%dx%d content=%s:%d exact=%v", q.kind, q.w, q.h, q.mode, q.cseed, q.exact)
	if q.w*q.h <= 64 {
		input += " lum=" + c17Hex(s.naive.px)
	}
	c.Note("kind:" + q.kind)
	c.Note("mode:" + q.mode)
	if s.err != "" {
		c.Oracle("view", false, "yuv-constructor-rejects-valid", input, "NewPlanarYUVLuminanceSource: "+s.err)
		return
	}
	state := &c17State{c: c, input: input, src: s.src, naive: s.naive}
	state.small = len(s.start.data) <= 4200
	state.under = s.naive
	if s.start.mkind == "yuv" {
		// the underlying image of a YUV source is the whole Y plane (after the constructor's mirroring)
		u := &c17Img{s.start.dataW, s.start.dataH, append([]byte(nil), s.start.data[:s.start.dataW*s.start.dataH]...)}
		for y := 0; y < q.h; y++ {
			copy(u.px[(s.start.top+y)*u.w+s.start.left:], s.naive.row(y))
		}
		state.under, state.absL, state.absT = u, s.start.left, s.start.top
	}
	state.emit(c17Op{k: "s"}, c17Flags(state.src))
	state.observe(r)
	nOps := len(fixed)
	if fixed == nil {
		nOps = r.Range(1, 6)
	}
	for i := 0; i < nOps && !state.dead; i++ {
		var op c17Op
		if fixed != nil {
			op = fixed[i]
		} else {
			switch x := r.Intn(10); {
			case x < 5:
				op = state.genCrop(r)
			case x < 7:
				op = c17Op{k: "i"}
			case x < 9:
				op = c17Op{k: "r"}
			default:
				op = c17Op{k: "r45"}
			}
		}
		c.Note("op:" + op.k)
		switch op.k {
		case "c":
			state.doCrop(op)
		case "i":
			state.doInvert()
		case "r":
			state.doRotate()
		case "r45":
			state.doRotate45()
		}
		if !state.dead && r.Chance(0.15) {
			state.emit(c17Op{k: "s"}, c17Flags(state.src))
		}
		state.observe(r)
	}
	c.Note(fmt.Sprintf("seq-len:%d", nOps))
	if state.small {
		c.Note("seq:model-full-matrix")
	} else if q.bigToModel {
		c.Note("seq:model-checksum")
	} else {
		c.Note("seq:oracle-only(large image)")
		return
	}
	st0 := s.start
	line := fmt.Sprintf("c17 seq %s %d %d %d %d %d %d %d %s %s", st0.mkind, st0.dataW, st0.dataH, st0.left, st0.top, st0.w, st0.h,
		map[bool]int{false: 0, true: 1}[st0.rev], c17Hex(st0.data), strings.Join(state.ops, " "))
	c.Cmp("view", line, strings.Join(state.outs, ";"))
}

func c17Flags(s gozxing.LuminanceSource) string {
	b := func(x bool) string {
		if x {
			return "1"
		}
		return "0"
	}
	return "c" + b(s.IsCropSupported()) + "r" + b(s.IsRotateSupported())
}
