package main

// C17 — part 2: binarisers.
// ORACLE: a pure black/white image is binarised to exactly its black pixels by HybridBinarizer and
// GlobalHistogramBinarizer (directly and through BinaryBitmap, also after BinaryBitmap.Crop / Rotate), or
// rejected with NotFoundException; GetBlackRow equals the sharpened-threshold reference.
// CORRESPONDENCE: estimateBlackPoint, 8x8 block black points, black rows and black matrices of grey images
// (<= 64x64) against Gzx.Model.Binarizer.

import (
	"fmt"
	"strings"

	"github.com/makiuchi-d/gozxing"
	"github.com/makiuchi-d/gozxing/datamatrix"
	"github.com/makiuchi-d/gozxing/oned"
	"github.com/makiuchi-d/gozxing/qrcode"
)

// ---------- bilevel contents ----------

var c17BiStyles = []string{"noise", "vstripe", "hstripe", "checker", "frame-white", "frame-black", "white", "black", "one-black", "one-white", "blocks", "halves", "sparse"}

func c17Bilevel(r *Rng, style string, w, h int) []byte {
	px := make([]byte, w*h)
	per := r.Range(1, 9)
	dens := r.Range(1, 9)
	fr := r.Range(1, 12)
	ox, oy := r.Intn(w), r.Intn(h)
	k := r.Intn(1 << 16)
	for y := 0; y < h; y++ {
		for x := 0; x < w; x++ {
			white := true
			switch style {
			case "noise":
				white = r.Intn(10) < dens
			case "sparse":
				white = r.Intn(200) != 0
			case "vstripe":
				white = (x/per)&1 == 0
			case "hstripe":
				white = (y/per)&1 == 0
			case "checker":
				white = (x/per+y/per)&1 == 0
			case "frame-white": // white border, black inside
				white = x < fr || y < fr || x >= w-fr || y >= h-fr
			case "frame-black":
				white = !(x < fr || y < fr || x >= w-fr || y >= h-fr)
			case "white":
				white = true
			case "black":
				white = false
			case "one-black":
				white = !(x == ox && y == oy)
			case "one-white":
				white = x == ox && y == oy
			case "blocks":
				white = (uint32(x/per)*2654435761+uint32(y/per)*40503+uint32(k))>>9&1 == 0
			case "halves":
				white = (x < ox) != (y < oy)
			}
			if white {
				px[y*w+x] = 255
			}
		}
	}
	return px
}

// ---------- symbols rendered by the library's writers ----------

type c17Symbol struct {
	name string
	bits [][]bool // modules, true = black
}

func c17Symbols() []c17Symbol {
	var out []c17Symbol
	add := func(name string, w gozxing.Writer, f gozxing.BarcodeFormat, contents string) {
		Safe(func() string {
			m, e := w.Encode(contents, f, 0, 0, nil)
			if e != nil || m == nil {
				return ""
			}
			b := make([][]bool, m.GetHeight())
			for y := range b {
				b[y] = make([]bool, m.GetWidth())
				for x := range b[y] {
					b[y][x] = m.Get(x, y)
				}
			}
			out = append(out, c17Symbol{name, b})
			return ""
		})
	}
	add("qr", qrcode.NewQRCodeWriter(), gozxing.BarcodeFormat_QR_CODE, "HELLO WORLD 12345")
	add("qr2", qrcode.NewQRCodeWriter(), gozxing.BarcodeFormat_QR_CODE, "https://example.org/a/rather/longer/text?with=parameters&and=more")
	add("dm", datamatrix.NewDataMatrixWriter(), gozxing.BarcodeFormat_DATA_MATRIX, "Data Matrix 123456")
	add("dm2", datamatrix.NewDataMatrixWriter(), gozxing.BarcodeFormat_DATA_MATRIX, "A")
	add("code128", oned.NewCode128Writer(), gozxing.BarcodeFormat_CODE_128, "Code-128x")
	add("code39", oned.NewCode39Writer(), gozxing.BarcodeFormat_CODE_39, "C39")
	add("code93", oned.NewCode93Writer(), gozxing.BarcodeFormat_CODE_93, "CODE93")
	add("ean13", oned.NewEAN13Writer(), gozxing.BarcodeFormat_EAN_13, "5901234123457")
	add("ean8", oned.NewEAN8Writer(), gozxing.BarcodeFormat_EAN_8, "96385074")
	add("upca", oned.NewUPCAWriter(), gozxing.BarcodeFormat_UPC_A, "036000291452")
	add("upce", oned.NewUPCEWriter(), gozxing.BarcodeFormat_UPC_E, "01234565")
	add("itf", oned.NewITFWriter(), gozxing.BarcodeFormat_ITF, "1234567890")
	add("codabar", oned.NewCodaBarWriter(), gozxing.BarcodeFormat_CODABAR, "A1234B")
	return out
}

// render a symbol at `scale` pixels per module into a w x h canvas (0 = natural size; 1-D symbols get
// `bar` pixel rows), anchored at (ox,oy) and clipped
func c17Render(s c17Symbol, scale, w, h, ox, oy, bar int) *c17Img {
	mh, mw := len(s.bits), len(s.bits[0])
	rows := mh * scale
	if mh == 1 {
		rows = bar
	}
	if w == 0 {
		w = mw * scale
	}
	if h == 0 {
		h = rows
	}
	img := c17NewImg(w, h)
	for i := range img.px {
		img.px[i] = 255
	}
	for y := 0; y < rows; y++ {
		for x := 0; x < mw*scale; x++ {
			my := y / scale
			if mh == 1 {
				my = 0
			}
			X, Y := x+ox, y+oy
			if s.bits[my][x/scale] && X >= 0 && X < w && Y >= 0 && Y < h {
				img.px[Y*w+X] = 0
			}
		}
	}
	return img
}

// ---------- helpers ----------

func c17MatrixBits(m *gozxing.BitMatrix) string {
	var sb strings.Builder
	for y := 0; y < m.GetHeight(); y++ {
		if y > 0 {
			sb.WriteByte('/')
		}
		for x := 0; x < m.GetWidth(); x++ {
			if m.Get(x, y) {
				sb.WriteByte('1')
			} else {
				sb.WriteByte('0')
			}
		}
	}
	return sb.String()
}

func c17BlackOf(img *c17Img) string {
	var sb strings.Builder
	for y := 0; y < img.h; y++ {
		if y > 0 {
			sb.WriteByte('/')
		}
		for x := 0; x < img.w; x++ {
			if img.px[y*img.w+x] == 0 {
				sb.WriteByte('1')
			} else {
				sb.WriteByte('0')
			}
		}
	}
	return sb.String()
}

func c17BlackMatrix(b interface {
	GetBlackMatrix() (*gozxing.BitMatrix, error)
}) string {
	return Safe(func() string {
		m, e := b.GetBlackMatrix()
		if e != nil {
			return "ERR:" + errKind(e)
		}
		return c17MatrixBits(m)
	})
}

func c17RowBits(row *gozxing.BitArray, w int) string {
	b := make([]byte, w)
	for i := range b {
		b[i] = '0'
		if row.Get(i) {
			b[i] = '1'
		}
	}
	return string(b)
}

// first differing pixel of two '/'-separated bit pictures
func c17FirstDiff(a, b string) string {
	if len(a) != len(b) {
		return fmt.Sprintf("sizes differ (%d vs %d chars)", len(a), len(b))
	}
	ra := strings.Split(a, "/")
	rb := strings.Split(b, "/")
	for y := range ra {
		for x := range ra[y] {
			if x < len(rb[y]) && ra[y][x] != rb[y][x] {
				return fmt.Sprintf("pixel (%d,%d): got %c want %c", x, y, ra[y][x], rb[y][x])
			}
		}
	}
	return "equal"
}

// ---------- reference: histogram black point + sharpened row (written from the ZXing description) ----------

func c17RefBlackPoint(b []int) (int, bool) {
	n := len(b)
	peak1, max := 0, 0
	for i, v := range b {
		if v > max {
			peak1, max = i, v
		}
	}
	peak2, best := 0, 0
	for i, v := range b {
		d := i - peak1
		if v*d*d > best {
			peak2, best = i, v*d*d
		}
	}
	lo, hi := peak1, peak2
	if lo > hi {
		lo, hi = hi, lo
	}
	if hi-lo <= n/16 {
		return 0, false
	}
	valley, score := hi-1, -1
	for i := hi - 1; i > lo; i-- {
		s := (i - lo) * (i - lo) * (hi - i) * (max - b[i])
		if s > score {
			valley, score = i, s
		}
	}
	return valley << 3, true
}

func c17RefBlackRow(lum []byte) string {
	w := len(lum)
	b := make([]int, 32)
	for _, v := range lum {
		b[v>>3]++
	}
	bp, ok := c17RefBlackPoint(b)
	if !ok {
		return "ERR:notfound"
	}
	out := make([]byte, w)
	for i := range out {
		out[i] = '0'
	}
	if w < 3 {
		for x, v := range lum {
			if int(v) < bp {
				out[x] = '1'
			}
		}
	} else {
		for x := 1; x < w-1; x++ {
			if (4*int(lum[x])-int(lum[x-1])-int(lum[x+1]))/2 < bp {
				out[x] = '1'
			}
		}
	}
	return string(out)
}

// for a pure black/white row the sharpened threshold is independent of the valley: interior pixels are
// black iff they are 0, the two border pixels of a row of >= 3 pixels are never set
func c17BilevelBlackRow(lum []byte) string {
	w := len(lum)
	out := make([]byte, w)
	for x, v := range lum {
		out[x] = '0'
		if v == 0 && (w < 3 || (x > 0 && x < w-1)) {
			out[x] = '1'
		}
	}
	return string(out)
}

// ---------- the bilevel oracle ----------

func c17CheckBilevel(c *Ctx, r *Rng, img *c17Img, tag string) {
	kind := c17Kinds[r.Intn(len(c17Kinds))]
	s := c17MakeSource(r, kind, img.px, img.w, img.h, true)
	if s.err != "" || !s.naive.equal(img) && kind != "yuvrev" {
		c.Oracle("bilevel", false, "bilevel-source", tag, "source construction failed: "+s.err)
		return
	}
	img = s.naive // yuvrev mirrors the picture
	input := fmt.Sprintf("%s kind=%s %dx%d", tag, kind, img.w, img.h)
	if img.w*img.h <= 2600 {
		input += " lum=" + c17Hex(img.px)
	}
	want := c17BlackOf(img)
	c.Note("bilevel:" + strings.SplitN(tag, " ", 2)[0])
	if img.w >= 40 && img.h >= 40 {
		c.Note("bilevel:local-method")
	} else {
		c.Note("bilevel:global-method")
	}
	check := func(name, got string) {
		c.Note("bilevel-result:" + name + ":" + map[bool]string{true: "matrix", false: got}[!strings.HasPrefix(got, "ERR") && got != "PANIC"])
		ok := got == want || got == "ERR:notfound"
		detail := ""
		if !ok {
			detail = name + ": " + got
			if !strings.HasPrefix(got, "ERR") && got != "PANIC" {
				detail = name + ": " + c17FirstDiff(got, want)
			}
		}
		c.Oracle("bilevel", ok, "bilevel-"+name, input, detail)
	}
	hyb := gozxing.NewHybridBinarizer(s.src)
	check("hybrid", c17BlackMatrix(hyb))
	check("hybrid-cached", c17BlackMatrix(hyb))
	glob := gozxing.NewGlobalHistgramBinarizer(s.src)
	check("global", c17BlackMatrix(glob))
	bb, _ := gozxing.NewBinaryBitmap(gozxing.NewHybridBinarizer(s.src))
	check("bitmap", c17BlackMatrix(bb))
	check("bitmap-cached", c17BlackMatrix(bb))
	// black rows of the global method
	for k := 0; k < 4; k++ {
		y := r.Intn(img.h)
		var pre *gozxing.BitArray
		if r.Chance(0.5) {
			pre = gozxing.NewBitArray(img.w + r.Intn(40))
			for i := 0; i < pre.GetSize(); i += 1 + r.Intn(3) {
				pre.Set(i)
			}
		}
		got := Safe(func() string {
			var b gozxing.Binarizer = glob
			if k&1 == 1 {
				b = hyb
			}
			row, e := b.GetBlackRow(y, pre)
			if e != nil {
				return "ERR:" + errKind(e)
			}
			if row.GetSize() < img.w {
				return fmt.Sprintf("short row %d", row.GetSize())
			}
			return c17RowBits(row, img.w)
		})
		wantRow := c17BilevelBlackRow(img.row(y))
		c.Oracle("bilevel", got == wantRow || got == "ERR:notfound", "bilevel-blackrow", fmt.Sprintf("%s row=%d", input, y), "got "+got+" want "+wantRow)
	}
	// rows outside the image
	for _, y := range []int{-1, img.h} {
		got := Safe(func() string {
			_, e := glob.GetBlackRow(y, nil)
			if e != nil {
				return "ERR"
			}
			return "ok"
		})
		c.Oracle("bilevel", got == "ERR", "blackrow-outside", fmt.Sprintf("%s row=%d", input, y), got)
	}
	// BinaryBitmap.Crop / RotateCounterClockwise
	if r.Chance(0.5) {
		cw, ch := r.Range(1, img.w), r.Range(1, img.h)
		l, t := r.Intn(img.w-cw+1), r.Intn(img.h-ch+1)
		valid := true
		if r.Chance(0.25) {
			valid = false
			switch r.Intn(5) {
			case 0:
				l = -r.Range(1, 4)
			case 1:
				t = -r.Range(1, 4)
			case 2:
				l = img.w - cw + r.Range(1, 4)
			case 3:
				t = img.h - ch + r.Range(1, 4)
			default:
				cw = -cw // negative extent
			}
		}
		got := Safe(func() string {
			nb, e := bb.Crop(l, t, cw, ch)
			if e != nil {
				return "ERR:" + errKind(e)
			}
			if nb.GetWidth() != cw || nb.GetHeight() != ch {
				return fmt.Sprintf("dims %dx%d", nb.GetWidth(), nb.GetHeight())
			}
			return c17BlackMatrix(nb)
		})
		in2 := fmt.Sprintf("%s bitmap.Crop(%d,%d,%d,%d)", input, l, t, cw, ch)
		if valid {
			w2 := c17BlackOf(img.crop(l, t, cw, ch))
			c.Oracle("bilevel", got == w2 || got == "ERR:notfound", "bitmap-crop", in2, c17Short(got))
			c.Note("bitmap-crop:valid")
		} else {
			// padding of a YUV source makes "outside the view" lie inside the data: only the unambiguous classes are judged
			beyondData := kind != "yuv" && kind != "yuvrev"
			if l < 0 || t < 0 || cw < 0 || beyondData {
				c.Oracle("bilevel", strings.HasPrefix(got, "ERR:") && got != "ERR:notfound", "bitmap-crop-invalid-accepted", in2, c17Short(got))
			}
			c.Note("bitmap-crop:invalid")
		}
	}
	if r.Chance(0.3) {
		got := Safe(func() string {
			nb, e := bb.RotateCounterClockwise()
			if e != nil {
				return "ERR:" + errKind(e)
			}
			return c17BlackMatrix(nb)
		})
		if bb.IsRotateSupported() {
			w2 := c17BlackOf(img.rotCCW())
			c.Oracle("bilevel", got == w2 || got == "ERR:notfound", "bitmap-rotate", input+" bitmap.RotateCounterClockwise", c17Short(got))
		} else {
			c.Oracle("bilevel", strings.HasPrefix(got, "ERR:"), "bitmap-rotate-unsupported", input+" bitmap.RotateCounterClockwise", c17Short(got))
		}
	}
}

func c17Short(s string) string {
	if len(s) > 200 {
		return s[:200] + "..."
	}
	return s
}

// ---------- grey images vs. the Lean model ----------

func c17GreyImage(r *Rng, w, h int) []byte {
	switch r.Intn(7) {
	case 0:
		return c17Content(r, "rand", w, h)
	case 1:
		return c17Content(r, "gradient", w, h)
	case 2:
		return c17Content(r, "lowcontrast", w, h)
	case 3: // bilevel symbol-like blocks with noise: realistic input
		px := c17Bilevel(r, []string{"blocks", "checker", "noise", "frame-white", "halves"}[r.Intn(5)], w, h)
		amp := r.Range(0, 40)
		for i, v := range px {
			if v == 0 {
				px[i] = byte(r.Intn(amp + 1))
			} else {
				px[i] = byte(255 - r.Intn(amp+1))
			}
		}
		return px
	case 4: // patchwork of 8x8-ish regions: flat dark, flat light, low contrast around the 24 limit, high contrast
		px := make([]byte, w*h)
		cell := r.Range(5, 11)
		type reg struct{ base, amp int }
		regs := map[[2]int]reg{}
		for y := 0; y < h; y++ {
			for x := 0; x < w; x++ {
				k := [2]int{x / cell, y / cell}
				g, ok := regs[k]
				if !ok {
					g = reg{r.Intn(256), []int{0, 1, 23, 24, 25, 26, 60, 255}[r.Intn(8)]}
					regs[k] = g
				}
				v := g.base + r.Intn(g.amp+1)
				if v > 255 {
					v = 255
				}
				px[y*w+x] = byte(v)
			}
		}
		return px
	case 5: // two grey levels
		a, b := byte(r.Intn(256)), byte(r.Intn(256))
		px := c17Bilevel(r, c17BiStyles[r.Intn(len(c17BiStyles))], w, h)
		for i, v := range px {
			if v == 0 {
				px[i] = a
			} else {
				px[i] = b
			}
		}
		return px
	default:
		return c17Bilevel(r, c17BiStyles[r.Intn(len(c17BiStyles))], w, h)
	}
}

func c17ModelBinarisers(c *Ctx) {
	r := c.Rng.Fork()
	// estimateBlackPoint on structured histograms
	for it := 0; it < c.Pick(3000, 200000); it++ {
		b := make([]int, 32)
		switch r.Intn(7) {
		case 0: // two peaks
			p, q := r.Intn(32), r.Intn(32)
			b[p] += r.Range(1, 200)
			b[q] += r.Range(1, 200)
		case 1: // two peaks and a floor
			f := r.Intn(20)
			for i := range b {
				b[i] = r.Intn(f + 1)
			}
			b[r.Intn(32)] += r.Range(1, 300)
			b[r.Intn(32)] += r.Range(1, 300)
		case 2:
			for i := range b {
				b[i] = r.Intn(50)
			}
		case 3: // ties
			v := r.Range(1, 9)
			for i := 0; i < r.Range(1, 6); i++ {
				b[r.Intn(32)] = v
			}
		case 4: // one peak only
			b[r.Intn(32)] = r.Range(1, 100)
		case 5: // close peaks around the numBuckets/16 limit
			p := r.Intn(29)
			b[p] = r.Range(1, 100)
			b[p+r.Range(1, 3)] = r.Range(1, 100)
		default: // smooth bimodal
			p, q := r.Range(2, 12), r.Range(18, 29)
			for i := range b {
				d1, d2 := i-p, i-q
				b[i] = 400/(1+d1*d1) + 300/(1+d2*d2) + r.Intn(5)
			}
		}
		out := Safe(func() string {
			bp, e := gozxing.VerifEstimateBlackPoint(append([]int(nil), b...))
			if e != nil {
				return "ERR:" + errKind(e)
			}
			return fmt.Sprint(bp)
		})
		c.Cmp("blackpoint", "c17 ebp "+ints(b), out)
		ref, ok := c17RefBlackPoint(b)
		want := "ERR:notfound"
		if ok {
			want = fmt.Sprint(ref)
		}
		c.Oracle("blackpoint", out == want, "blackpoint-reference", "buckets "+ints(b), "real "+out+" reference "+want)
		c.Note("ebp:" + strings.SplitN(out, ":", 2)[0][:1])
	}
	// black rows
	for it := 0; it < c.Pick(1500, 100000); it++ {
		w := r.Range(1, 70)
		if it%4 == 0 {
			w = r.Range(1, 5)
		}
		lum := c17GreyImage(r, w, 1)
		src := c17MakeSource(r, "gray", lum, w, 1, true).src
		out := Safe(func() string {
			row, e := gozxing.NewGlobalHistgramBinarizer(src).GetBlackRow(0, nil)
			if e != nil {
				return "ERR:" + errKind(e)
			}
			return c17RowBits(row, w)
		})
		c.Cmp("blackrow", "c17 brow "+c17Hex(lum), out)
		c.Oracle("blackrow", out == c17RefBlackRow(lum), "blackrow-reference", "row "+c17Hex(lum), "real "+out+" reference "+c17RefBlackRow(lum))
		c.Note(fmt.Sprintf("brow:w<3=%v:%s", w < 3, strings.SplitN(out, ":", 2)[0][:1]))
	}
	// matrices
	n := c.Pick(500, 30000)
	c.Parallel(n, 12, func(i int, r *Rng) {
		var w, h int
		switch i % 3 {
		case 0: // local method, sizes around the block boundaries
			w, h = r.Range(40, 64), r.Range(40, 64)
		case 1:
			w, h = c17SmallDim(r), c17SmallDim(r)
		default:
			w, h = r.Range(38, 42), r.Range(38, 42)
		}
		lum := c17GreyImage(r, w, h)
		src := c17MakeSource(r, "gray", lum, w, h, true).src
		hx := c17Hex(lum)
		c.Cmp("hybrid", fmt.Sprintf("c17 hyb %d %d %s", w, h, hx), c17BlackMatrix(gozxing.NewHybridBinarizer(src)))
		c.Cmp("global", fmt.Sprintf("c17 glob %d %d %s", w, h, hx), c17BlackMatrix(gozxing.NewGlobalHistgramBinarizer(src)))
		if w >= 40 && h >= 40 {
			out := Safe(func() string {
				bp := gozxing.VerifHybridBlackPoints(lum, w, h)
				rows := make([]string, len(bp))
				for i, row := range bp {
					rows[i] = ints(row)
				}
				return strings.Join(rows, "/")
			})
			c.Cmp("blackpoints", fmt.Sprintf("c17 hbp %d %d %s", w, h, hx), out)
			c.Note("grey:local")
		} else {
			c.Note("grey:global")
		}
	})
}

func c17SmallDim(r *Rng) int {
	if r.Chance(0.3) {
		return r.Range(1, 5)
	}
	return r.Range(1, 64)
}

func c17Binarisers(c *Ctx) {
	r := c.Rng.Fork()
	// every size pair around the 40-pixel switch
	for w := 33; w <= 49; w++ {
		for h := 33; h <= 49; h++ {
			for k := 0; k < c.Pick(1, 6); k++ {
				style := c17BiStyles[r.Intn(len(c17BiStyles))]
				img := &c17Img{w, h, c17Bilevel(r, style, w, h)}
				c17CheckBilevel(c, r, img, "style="+style)
			}
		}
	}
	// boundary sizes and random sizes
	n := c.Pick(400, 20000)
	c.Parallel(n, 12, func(i int, r *Rng) {
		var w, h int
		if i < len(c17Sizes)*len(c17Sizes) {
			w, h = c17Sizes[i%len(c17Sizes)], c17Sizes[i/len(c17Sizes)]
		} else {
			w, h = c17RandSize(r), c17RandSize(r)
		}
		style := c17BiStyles[i%len(c17BiStyles)]
		img := &c17Img{w, h, c17Bilevel(r, style, w, h)}
		c17CheckBilevel(c, r, img, "style="+style)
	})
	// rendered symbols: natural size at scales 1..4, and clipped / padded into canvases of 33..49 pixels
	syms := c17Symbols()
	c.NoteN("symbols-rendered-by-writers", len(syms))
	for _, s := range syms {
		for scale := 1; scale <= 4; scale++ {
			img := c17Render(s, scale, 0, 0, 0, 0, r.Range(1, 60))
			c17CheckBilevel(c, r, img, fmt.Sprintf("symbol=%s scale=%d natural", s.name, scale))
			for k := 0; k < c.Pick(3, 40); k++ {
				w, h := r.Range(33, 49), r.Range(33, 49)
				img := c17Render(s, scale, w, h, r.Range(-20, 10), r.Range(-20, 10), r.Range(1, 60))
				c17CheckBilevel(c, r, img, fmt.Sprintf("symbol=%s scale=%d canvas", s.name, scale))
			}
		}
	}
	c17ModelBinarisers(c)
}
