package main

// C17 — suite entry: corpus witnesses, view-operation sequences, colour conversion, binarisers.

import (
	"fmt"
	"strings"
)

var c17Sizes = []int{1, 2, 3, 7, 8, 9, 39, 40, 41, 47, 48, 49, 200}

func c17RandSize(r *Rng) int {
	switch x := r.Intn(10); {
	case x < 5:
		return r.Range(1, 16)
	case x < 8:
		return r.Range(17, 64)
	default:
		return r.Range(65, 200)
	}
}

func runC17(c *Ctx) {
	c.res.Rule = "views: source kinds {rgb ints, image.Gray/RGBA/NRGBA/NRGBA64/Paletted/generic image (with alpha, non-zero bounds origin), planar YUV with/without reverseHorizontal and padding} " +
		"x sizes (boundary list {1,2,3,7,8,9,39,40,41,47,48,49,200} squared, then random 1..200; thorough: every size 1..200 on one axis) " +
		"x contents {random, coordinate-coded, stripes, bilevel, blocks, uniform, gradient, low-contrast} x sequences of 1..6 ops " +
		"(crop: ~60% inside the view, else negative origin / beyond the view / beyond the data / far outside / empty / negative extent; invert; rotate CCW; rotate45) " +
		"with a full comparison against the naive array and out-of-range GetRow probes after every op; non-trivial = distinct op line. " +
		"binarisers: bilevel images (noise, stripes, checkerboards, frames, single pixels, symbols rendered by all writers at scales 1..4; sizes 1..64 and every size pair in 33..49) " +
		"through both binarisers and BinaryBitmap (incl. Crop / RotateCounterClockwise), black rows vs. sharpened-threshold reference; grey images <= 64x64 vs. the Lean model " +
		"(black points, thresholds, matrices, estimateBlackPoint on structured histograms)"
	c17Corpus(c)
	c17Views(c)
	c17Conv(c)
	c17Binarisers(c)
}

// witnesses of D12 (crop bounds) and other boundary sequences, always run first
func c17Corpus(c *Ctx) {
	r := NewRng(12)
	crop := func(l, t, w, h int) c17Op { return c17Op{k: "c", l: l, t: t, w: w, h: h} }
	I, R := c17Op{k: "i"}, c17Op{k: "r"}
	for _, kind := range c17Kinds {
		for _, seq := range [][]c17Op{
			{crop(5, 5, 5, 5), crop(3, 3, 5, 5)},  // crop of a crop reaching outside the data (D12)
			{crop(-1, 0, 3, 3)},                   // negative origin (D12)
			{crop(0, -2, 3, 3)},                   //
			{crop(2, 2, 6, 6), crop(-1, -1, 3, 3)}, // negative origin that stays inside the data
			{crop(4, 0, 6, 10), crop(2, 0, 6, 10)}, // wraps into the next row
			{crop(0, 6, 10, 4), crop(0, 3, 10, 4)}, // reaches below the data
			{crop(2, 2, 6, 6), crop(1, 1, 6, 6)},   // beyond the view, inside the data
			{crop(1, 2, 8, 7), I, crop(2, 1, 5, 5), R, I, crop(0, 0, 5, 5)},
			{R, R, R, R},
			{I, I},
			{crop(0, 0, 10, 10)}, {crop(9, 9, 1, 1)}, {crop(10, 10, 0, 0)}, {crop(0, 0, 11, 1)},
		} {
			c17RunSeq(c, r, c17Seq{kind: kind, w: 10, h: 10, mode: "coord", cseed: 7, exact: true, bigToModel: true}, seq)
		}
	}
}

func c17Views(c *Ctx) {
	n := c.Pick(3000, 300000)
	modes := c17Modes
	nk := len(c17Kinds)
	ns := len(c17Sizes)
	c.Parallel(n, 12, func(i int, r *Rng) {
		q := c17Seq{cseed: r.U64() >> 1, exact: r.Chance(0.4), bigToModel: i%c.Pick(5, 8) == 0}
		q.kind = c17Kinds[i%nk]
		j := i / nk
		switch {
		case j < ns*ns: // every pair of boundary sizes, kinds cycling
			q.w, q.h = c17Sizes[j%ns], c17Sizes[j/ns]
			q.kind = c17Kinds[(i+j/ns)%nk]
		case c.Thorough && j < ns*ns+200*ns*2: // every size 1..200 on one axis
			k := j - ns*ns
			s, o := k%200+1, c17Sizes[(k/200)%ns]
			if k/200 >= ns {
				q.w, q.h = o, s
			} else {
				q.w, q.h = s, o
			}
		default:
			q.w, q.h = c17RandSize(r), c17RandSize(r)
		}
		q.mode = modes[r.Intn(len(modes))]
		if r.Chance(0.35) {
			q.mode = "rand"
		}
		c.Note(fmt.Sprintf("size-class:%s x %s", c17SizeClass(q.w), c17SizeClass(q.h)))
		c17RunSeq(c, r, q, nil)
	})
}

func c17SizeClass(n int) string {
	switch {
	case n <= 3:
		return "1-3"
	case n <= 9:
		return "4-9"
	case n < 40:
		return "10-39"
	case n <= 49:
		return "40-49"
	case n <= 64:
		return "50-64"
	default:
		return "65-200"
	}
}

// colour -> luminance: real constructors vs. the Lean formulas, pixel lists
func c17Conv(c *Ctx) {
	r := c.Rng.Fork()
	// RGB ints
	for it := 0; it < c.Pick(300, 20000); it++ {
		n := r.Range(1, 40)
		pixels := make([]int, n)
		var sb strings.Builder
		for i := range pixels {
			switch r.Intn(6) {
			case 0:
				v := r.Intn(256)
				pixels[i] = v<<16 | v<<8 | v
			case 1:
				pixels[i] = []int{0, 0xffffff, 0xff0000, 0x00ff00, 0x0000ff, 0xff000000, -1, -0x1000000}[r.Intn(8)]
			case 2:
				pixels[i] = -r.Intn(1 << 30)
			case 3:
				pixels[i] = r.Intn(1<<32) | r.Intn(4)<<40
			default:
				pixels[i] = r.Intn(1 << 24)
			}
			if i > 0 {
				sb.WriteByte(',')
			}
			fmt.Fprintf(&sb, "%d", pixels[i])
		}
		s := c17MakeRGB(n, 1, pixels)
		out := Safe(func() string { return c17Hex(s.GetMatrix()[:n]) })
		c.Cmp("conv", "c17 conv rgb "+sb.String(), out)
		want := make([]byte, n)
		for i, p := range pixels {
			want[i] = c17LumRGBInt(p)
		}
		c.Oracle("conv", out == c17Hex(want), "lum-formula-rgb", "rgb ints "+sb.String(), "real "+out+" documented (r+2g+b)/4 "+c17Hex(want))
	}
	// 16-bit RGBA quadruples through every Go image kind
	for it := 0; it < c.Pick(400, 20000); it++ {
		kind := []string{"gray", "rgba", "nrgba", "pal", "plain", "nrgba64"}[it%6]
		w, h := r.Range(1, 8), r.Range(1, 6)
		lum := c17Content(r, "rand", w, h)
		s := c17MakeSource(r, kind, lum, w, h, r.Chance(0.2))
		out := Safe(func() string { return c17Hex(s.src.GetMatrix()[:w*h]) })
		c.Cmp("conv", "c17 conv "+s.convLine, out)
		c.Oracle("conv", out == c17Hex(s.naive.px), "lum-formula-image", kind+" "+s.convLine, "real "+out+" documented "+c17Hex(s.naive.px))
		c.Note("conv:" + kind)
	}
}
