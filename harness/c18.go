package main

// C18 — independent readers and writers can run concurrently.
//  (1) static effect summary (c18_scan.go) against the reviewed allow-list corpus/C18/allowed-shared-writes.txt;
//      the same lists go to the Lean driver which evaluates the decidable premise of the
//      non-interference theorem (Properties/C18.lean);
//  (2) K in {2,8,64} goroutines with private reader/writer instances over all symbologies, every
//      result compared with the sequential result (in-process, GOMAXPROCS 2..16);
//  (3) the same workload in a binary built with `go build -race` (harness/cmd/c18race).

import (
	"context"
	"bytes"
	"fmt"
	"os"
	"os/exec"
	"path/filepath"
	"regexp"
	"runtime"
	"sort"
	"strings"
	"time"

	"gzxharness/c18work"
)

func init() { suites["C18"] = runC18 }

func c18HarnessDir() string {
	if exe, err := os.Executable(); err == nil {
		d := filepath.Dir(exe)
		if _, err := os.Stat(filepath.Join(d, "c18_scan.go")); err == nil {
			return d
		}
	}
	if _, err := os.Stat("c18_scan.go"); err == nil {
		d, _ := os.Getwd()
		return d
	}
	return "/verif/harness"
}

func c18Allowed(path string) (map[string]string, error) {
	b, err := os.ReadFile(path)
	if err != nil {
		return nil, err
	}
	out := map[string]string{}
	for _, l := range strings.Split(string(b), "\n") {
		reason := ""
		if i := strings.Index(l, "#"); i >= 0 {
			reason = strings.TrimSpace(l[i+1:])
			l = l[:i]
		}
		l = strings.TrimSpace(l)
		if l != "" {
			out[l] = reason
		}
	}
	return out, nil
}

func c18Enc(xs []string) string {
	if len(xs) == 0 {
		return "-"
	}
	ys := make([]string, len(xs))
	for i, x := range xs {
		ys[i] = strings.ReplaceAll(strings.ReplaceAll(x, " -> ", ">"), " ", "")
	}
	return strings.Join(ys, ";")
}

// a synthetic module exercising every write form the scanner claims to see; checked on every run
const c18SelfSrc = `package p

import "sync"

type T struct{ buf []int; n int }

var table = []int{1, 2, 3}
var counter int
var cache = map[int]int{}
var shared T
var sharedPtr = &T{}
var once sync.Once
var memo sync.Map
var pool sync.Pool
var lazy []int
var readonly = []int{4, 5}
var initOnly = map[int]int{}
var fn = func() { counter++ }

func init() { initOnly[1] = 1; fill() }
func fill() { initOnly[2] = 2 }

func ReadOnly() int { return readonly[0] + table[1] + len(cache) }
func Direct() { counter = 5 }
func Inc() { counter++ }
func Index() { table[0] = 9 }
func MapStore(k int) { cache[k] = 1 }
func AppendAssign() { table = append(table, 1) }
func Field() { shared.n = 1 }
func ThroughPtr() { sharedPtr.n = 2 }
func Alias() { t := table; t[1] = 3 }
func RangeAlias() { for _, p := range []*T{sharedPtr} { _ = p }; q := sharedPtr; q.buf = nil }
func Lazy() []int { once.Do(func() { lazy = []int{1} }); return lazy }
func Memo(k int) int { if v, ok := memo.Load(k); ok { return v.(int) }; memo.Store(k, k); return k }
func PoolPut(b []int) { pool.Put(b) }
func ReadOnlyLoad(k int) bool { _, ok := memo.Load(k); return ok }
func (t *T) grow() { t.buf = append(t.buf, 1) }
func (t *T) deep() { t.grow() }
func ViaMethod() { shared.grow() }
func ViaDeep() { sharedPtr.deep() }
func scratch(b []int) { b[0] = 1 }
func ViaArg() { scratch(table) }
func CopyInto() { copy(table, []int{7}) }
func Del() { delete(cache, 1) }
func LocalOnly() int { t := []int{1}; t[0] = 2; var c int; c++; x := T{}; x.grow(); return t[0] + c }
func Shadow() { counter := 1; counter++; _ = counter }
func ParamOnly(b []int) { b[0] = 1 }
type U struct { p *T; tab []int; n int }
func MkShared() *U { return &U{p: sharedPtr} }
func MkAddr() *U { return &U{p: &shared} }
func SetTab(u *U) { u.tab = table }
func CopyValue(u *U) { u.n = counter; u.p = &T{} }
`

var c18SelfWantEsc = []string{"p.MkAddr => p.shared", "p.MkShared => p.sharedPtr", "p.RangeAlias => p.sharedPtr", "p.SetTab => p.table"} // RangeAlias: a temporary slice literal counts (syntactic rule)

var c18SelfWant = []string{
	"p.AppendAssign -> p.table", "p.Alias -> p.table", "p.CopyInto -> p.table", "p.Del -> p.cache", "p.Direct -> p.counter",
	"p.Field -> p.shared", "p.Inc -> p.counter", "p.Index -> p.table", "p.Lazy -> p.lazy", "p.Lazy -> p.once", "p.MapStore -> p.cache", "p.Memo -> p.memo", "p.PoolPut -> p.pool",
	"p.RangeAlias -> p.sharedPtr", "p.ThroughPtr -> p.sharedPtr", "p.ViaArg -> p.table", "p.ViaDeep -> p.sharedPtr",
	"p.ViaMethod -> p.shared", "p.fn$closure -> p.counter",
}

func c18SelfTest() (bool, string) {
	dir, err := os.MkdirTemp("", "c18self")
	if err != nil {
		return false, err.Error()
	}
	defer os.RemoveAll(dir)
	os.MkdirAll(filepath.Join(dir, "p"), 0o755)
	os.WriteFile(filepath.Join(dir, "p", "p.go"), []byte(c18SelfSrc), 0o644)
	sc, err := c18ScanRepo(dir)
	if err != nil {
		return false, err.Error()
	}
	want := append([]string{}, c18SelfWant...)
	sort.Strings(want)
	got := strings.Join(sc.Writes, "\n")
	if got != strings.Join(want, "\n") {
		return false, "scanner self-test: got\n" + got + "\nwant\n" + strings.Join(want, "\n")
	}
	if gotE := strings.Join(sc.Escapes, "\n"); gotE != strings.Join(c18SelfWantEsc, "\n") {
		return false, "scanner self-test (escapes): got\n" + gotE + "\nwant\n" + strings.Join(c18SelfWantEsc, "\n")
	}
	return true, ""
}

// a Go interpreter of the abstract machine, to keep the Lean driver's `run` honest
func c18Interp(p0, p1 []string, sched string, regs int) string {
	progs := [2][]string{p0, p1}
	var P [2][8]int
	var G [8]int
	pc := [2]int{}
	for _, ch := range sched {
		g := int(ch - '0')
		if pc[g] >= len(progs[g]) {
			continue
		}
		t := progs[g][pc[g]]
		pc[g]++
		var a, b, c int
		if t[0] == 'r' {
			fmt.Sscanf(t[1:], "%d.%d", &a, &b)
			P[g][a] = G[b]
		} else {
			fmt.Sscanf(t[1:], "%d.%d.%d", &a, &b, &c)
			G[a] = P[g][b] + c
		}
	}
	show := func(g int) string {
		var s []string
		for r := 0; r < regs; r++ {
			s = append(s, fmt.Sprint(P[g][r]))
		}
		return strings.Join(s, ",")
	}
	var gs []string
	for _, v := range G {
		gs = append(gs, fmt.Sprint(v))
	}
	return show(0) + "|" + show(1) + "|" + strings.Join(gs, ",")
}

// fingerprint of the shared tables (c18work.SharedDigest) taken in-process after the cold start
var c18Digest string

var c18DigestLine = regexp.MustCompile(`(?m)^DIGEST (\S+)`)

// c18CheckDigest: a fresh process must end with the same shared tables as this one
func c18CheckDigest(c *Ctx, suite, desc, stdout string) {
	m := c18DigestLine.FindStringSubmatch(stdout)
	if m == nil || c18Digest == "" {
		return
	}
	c.Oracle(suite, m[1] == c18Digest, "shared-tables-differ-between-processes", desc, "this process "+c18Digest+", that process "+m[1])
}

var c18RaceFrame = regexp.MustCompile(`github\.com/makiuchi-d/gozxing[^\s(]*\.[A-Za-z_0-9()*.]+`)

func runC18(c *Ctx) {
	c.res.Rule = "static: every function of every library package scanned (go/types) for writes to package-level state outside init, compared with the reviewed allow-list and evaluated by the Lean premise checker; " +
		"dynamic: K in {2,8,64} goroutines x GOMAXPROCS {2,4,8,16}, private reader/writer instances over QR, Data Matrix, nine 1-D symbologies and Aztec decode, randomised start, every result compared with the sequential result; " +
		"race detector: same workload in a -race binary; cold start: fresh processes (race and plain build) in which, kind after kind of operation (27 kinds: symbology x variant, Data Matrix square/rectangular, Aztec symbols of all five fields with flipped modules), all goroutines are released together for the FIRST use, reference computed afterwards and once more in reversed order; results must not depend on the order of earlier calls. non-trivial = distinct (job, K, procs) result comparison"
	repo := c06RepoDir()
	hdir := c18HarnessDir()
	// ---------- (1) static effect summary ----------
	if ok, msg := c18SelfTest(); !ok {
		c.Oracle("c18-scan", false, "c18-scanner-selftest-failed", "synthetic package", msg)
	} else {
		c.Oracle("c18-scan", true, "", "scanner self-test: 16 write forms and 4 escape forms found, 9 non-writes/non-escapes not reported", "")
	}
	allowed, err := c18Allowed(filepath.Join(hdir, "..", "corpus", "C18", "allowed-shared-writes.txt"))
	if err != nil {
		c.Remark("allow-list unreadable: " + err.Error())
		allowed = map[string]string{}
	}
	sc, err := c18ScanRepo(repo)
	if err != nil {
		c.Oracle("c18-scan", false, "c18-scan-failed", repo, err.Error())
	} else {
		for _, n := range sc.Notes {
			c.Remark("scan: " + n)
		}
		c.NoteN("scan:package-level-vars", len(sc.Vars))
		c.NoteN("scan:shared-writes", len(sc.Writes))
		var al []string
		for k := range allowed {
			al = append(al, k)
		}
		sort.Strings(al)
		for _, w := range sc.Writes {
			_, ok := allowed[w]
			c.Oracle("c18-scan", ok, "shared-write:"+strings.ReplaceAll(w, " ", ""), w,
				"function writes package-level state outside init and is not in the reviewed allow-list")
			if ok {
				c.Note("scan:allowed-write")
			}
		}
		for _, k := range al {
			found := false
			for _, w := range sc.Writes {
				if w == k {
					found = true
				}
			}
			if !found {
				c.Remark("allow-list entry no longer present in the tree: " + k)
			}
		}
		// escapes of references into package-level state into instances
		allowedEsc, err2 := c18Allowed(filepath.Join(hdir, "..", "corpus", "C18", "allowed-global-escapes.txt"))
		if err2 != nil {
			c.Remark("escape allow-list unreadable: " + err2.Error())
			allowedEsc = map[string]string{}
		}
		c.NoteN("scan:global-escapes", len(sc.Escapes))
		for _, w := range sc.Escapes {
			_, ok := allowedEsc[w]
			c.Oracle("c18-scan", ok, "global-escape:"+strings.ReplaceAll(w, " ", ""), w,
				"function stores a reference to package-level state into an object (instances then share that state) and is not in the reviewed allow-list")
			if ok {
				c.Note("scan:allowed-escape")
			}
		}
		var viol []string
		for _, w := range sc.Writes {
			if _, ok := allowed[w]; !ok {
				viol = append(viol, strings.ReplaceAll(strings.ReplaceAll(w, " -> ", ">"), " ", ""))
			}
		}
		want := "ok"
		if len(viol) > 0 {
			want = "violated:" + strings.Join(viol, ";")
		}
		c.Cmp("effect-summary", fmt.Sprintf("c18 premise %s %s", c18Enc(sc.Writes), c18Enc(al)), want)
	}
	// abstract machine: Lean `run` against the Go interpreter on random two-goroutine programs
	r := c.Rng
	for i := 0; i < c.Pick(300, 5000); i++ {
		mk := func() []string {
			var p []string
			for k := r.Range(0, 5); k > 0; k-- {
				if r.Bool() {
					p = append(p, fmt.Sprintf("r%d.%d", r.Intn(3), r.Intn(8)))
				} else {
					p = append(p, fmt.Sprintf("w%d.%d.%d", r.Intn(8), r.Intn(3), r.Intn(5)))
				}
			}
			return p
		}
		p0, p1 := mk(), mk()
		var sb strings.Builder
		for k := r.Range(0, 12); k > 0; k-- {
			sb.WriteByte(byte('0' + r.Intn(2)))
		}
		enc := func(p []string) string {
			if len(p) == 0 {
				return "-"
			}
			return strings.Join(p, ";")
		}
		sched := sb.String()
		if sched == "" {
			sched = "x"
		}
		c.Cmp("machine", fmt.Sprintf("c18 run %s %s %s 3", enc(p0), enc(p1), sched), c18Interp(p0, p1, strings.Trim(sched, "x"), 3))
	}

	tPhase := time.Now()
	lap := func(what string) {
		c.Remark(fmt.Sprintf("timing: %s %.1fs", what, time.Since(tPhase).Seconds()))
		tPhase = time.Now()
	}
	// ---------- (2) in-process concurrency, result comparison ----------
	nph := c18work.LoadPhotos(repo)
	c.NoteN("aztec-photos", nph)
	jobs := c18work.Jobs(c.Seed, c.Pick(96, 480))
	// cold start under concurrency first: nothing of the library has run in this process yet
	// (phase-wise: kind after kind of operation, all 16 goroutines released together — c18work.ColdStart)
	lim := time.Duration(c.Pick(300, 1800)) * time.Second
	var coldRes [][]string
	var coldPhases []string
	if !c18Within(c, "in-process cold start k=16 procs=16", lim, func() { coldRes, coldPhases = c18work.ColdStart(jobs, 16, 16, c.Seed) }) {
		return
	}
	c.NoteN("cold-start:in-process-phases", len(coldPhases))
	var want []string
	if !c18Within(c, "sequential reference run after the cold start", lim, func() { want = c18work.Sequential(jobs) }) {
		return
	}
	coldBad := c18work.Compare(coldRes, want)
	if len(coldBad) > 0 {
		c.Oracle("c18-run", false, "concurrent-result-differs", "in-process cold start k=16 procs=16", strings.Join(coldBad, "\n"))
	} else {
		c.Oracle("c18-run", true, "", "in-process cold start k=16 procs=16", "")
	}
	for i, w := range want {
		switch {
		case strings.Contains(w, "text="), strings.HasPrefix(w, "aztec:"):
			c.Note("sequential:read-ok")
		case strings.Contains(w, "PANIC"):
			c.Note("sequential:PANIC")
			c.Oracle("c18-run", false, "sequential-panic", fmt.Sprint(jobs[i]), w)
		default:
			c.Note("sequential:" + strings.SplitN(w, " ", 2)[0] + ":read-or-write-error")
		}
	}
	again := c18work.Sequential(jobs)
	for i := range want {
		c.Oracle("c18-run", want[i] == again[i], "sequential-not-deterministic", fmt.Sprintf("job %d %v", i, jobs[i]), want[i]+" vs "+again[i])
	}
	// "every call returns exactly what it returns when run alone": the result of a call must not depend on which calls
	// ran before it in the process (process-wide caches, memos): same jobs in reversed and in shuffled order
	// dynamic counterpart of `library_shared_unchanged`: the shared init-time tables, seen through the exported API,
	// after the cold start ... (compared below with the state after all concurrent runs and with every fresh process)
	c18Digest = c18work.SharedDigest()
	c.Oracle("c18-run", !strings.HasPrefix(c18Digest, "PANIC"), "shared-tables-unreadable", "SharedDigest after cold start", c18Digest)
	lap("cold start + sequential references")
	rev, shuf := c18work.Orders(len(jobs), c.Seed)
	for oi, ord := range [][]int{rev, shuf} {
		other := c18work.SequentialOrder(jobs, ord)
		for i := range want {
			c.Oracle("c18-run", want[i] == other[i], "result-depends-on-earlier-calls",
				fmt.Sprintf("job %d %+v (order %d: %s)", i, jobs[i], oi, []string{"reversed", "shuffled"}[oi]), "in list order: "+want[i]+"\nin the other order: "+other[i])
		}
	}
	for _, j := range jobs {
		c.Note("job-kind:" + c18work.Kind(j))
	}
	type cfg struct{ k, reps, procs int }
	var cfgs []cfg
	for _, k := range []int{2, 8, 64} {
		for _, p := range []int{2, 4, 8, 16} {
			reps := c.Pick(2, 40)
			if k == 64 {
				reps = c.Pick(1, 10)
			}
			if k == 2 {
				reps = c.Pick(6, 100)
			}
			cfgs = append(cfgs, cfg{k, reps, p})
		}
	}
	for ci, cf := range cfgs {
		var results [][]string
		var bad []string
		if !c18Within(c, fmt.Sprintf("concurrent run k=%d reps=%d procs=%d", cf.k, cf.reps, cf.procs), lim, func() {
			results, bad = c18work.Concurrent(jobs, cf.k, cf.reps, cf.procs, c.Seed+uint64(ci))
		}) {
			return
		}
		bad = append(bad, c18work.Compare(results, want)...)
		n := cf.k * cf.reps * len(jobs)
		c.NoteN(fmt.Sprintf("concurrent:k=%d,procs=%d:comparisons", cf.k, cf.procs), n)
		c.mu.Lock()
		c.res.Evaluations += n
		c.mu.Unlock()
		desc := fmt.Sprintf("in-process k=%d reps=%d procs=%d jobs=%d seed=%d", cf.k, cf.reps, cf.procs, len(jobs), c.Seed+uint64(ci))
		if len(bad) > 0 {
			c.Oracle("c18-run", false, "concurrent-result-differs", desc, strings.Join(bad, "\n"))
		} else {
			c.Oracle("c18-run", true, "", desc, "")
		}
	}
	runtime.GC()
	if d2 := c18work.SharedDigest(); d2 != c18Digest {
		c.Oracle("c18-run", false, "shared-tables-changed", "SharedDigest after the concurrent runs", "after cold start "+c18Digest+", after the concurrent runs "+d2)
	} else {
		c.Oracle("c18-run", true, "", "SharedDigest after the concurrent runs", "")
	}
	lap("in-process runs")

	// ---------- (3) race detector ----------
	tmp, err := os.MkdirTemp("", "c18race")
	if err != nil {
		c.Remark("race runner: no temp dir: " + err.Error())
		return
	}
	defer os.RemoveAll(tmp)
	bin := filepath.Join(tmp, "c18race")
	env := []string{}
	for _, e := range os.Environ() {
		if !strings.HasPrefix(e, "CGO_ENABLED=") && !strings.HasPrefix(e, "GOMEMLIMIT=") {
			env = append(env, e)
		}
	}
	env = append(env, "CGO_ENABLED=1", "GOFLAGS=-mod=mod", "GOPROXY=off", "GOSUMDB=off", "GOTOOLCHAIN=local")
	build := exec.Command("go", "build", "-race", "-tags", "verif", "-o", bin, "./cmd/c18race")
	build.Dir = hdir
	build.Env = env
	t0 := time.Now()
	if out, err := build.CombinedOutput(); err != nil {
		c.Remark("race detector unavailable (go build -race failed): " + strings.TrimSpace(string(out)) + " — relying on result comparison and the static scan")
		c.Note("race:unavailable")
		return
	}
	c.Remark(fmt.Sprintf("race binary built in %.1fs", time.Since(t0).Seconds()))
	// ---------- (4) cold start in fresh processes (wp c18gen) ----------
	defer func() {
		lap("race-detector runs")
		c18ColdProcesses(c, hdir, tmp, bin, env, repo)
		lap("cold-start processes")
	}()
	type rcfg struct{ k, reps, procs, jobs int }
	// (the job list is -jobs plus the 19 sequence jobs of c18work.SequenceJobs)
	rcfgs := []rcfg{{2, c.Pick(3, 60), 2, c.Pick(30, 48)}, {8, c.Pick(1, 20), 8, c.Pick(30, 48)}, {8, c.Pick(1, 20), 3, c.Pick(30, 48)}, {64, c.Pick(1, 6), 16, c.Pick(12, 36)}}
	for i, rc := range rcfgs {
		ctx, cancel := context.WithTimeout(context.Background(), time.Duration(c.Pick(420, 2400))*time.Second)
		cmd := exec.CommandContext(ctx, bin, "-repo", repo, "-seed", fmt.Sprint(c.Seed+uint64(i)), "-jobs", fmt.Sprint(rc.jobs),
			"-k", fmt.Sprint(rc.k), "-reps", fmt.Sprint(rc.reps), "-procs", fmt.Sprint(rc.procs))
		cmd.Env = append(env, "GORACE=halt_on_error=1 exitcode=66")
		var stdout, stderr bytes.Buffer
		cmd.Stdout, cmd.Stderr = &stdout, &stderr
		err := cmd.Run()
		hung := ctx.Err() == context.DeadlineExceeded
		cancel()
		desc := fmt.Sprintf("c18race -seed %d -jobs %d -k %d -reps %d -procs %d", c.Seed+uint64(i), rc.jobs, rc.k, rc.reps, rc.procs)
		if hung {
			c.Oracle("c18-race", false, "calls-do-not-return", desc, "the race-detector process did not finish within its time limit: a call into the library no longer returns")
			continue
		}
		n := rc.k * rc.reps * rc.jobs
		c.mu.Lock()
		c.res.Evaluations += n
		c.mu.Unlock()
		c.NoteN(fmt.Sprintf("race:k=%d,procs=%d:job-runs", rc.k, rc.procs), n)
		code := 0
		if err != nil {
			code = -1
			if ee, ok := err.(*exec.ExitError); ok {
				code = ee.ExitCode()
			}
		}
		c18CheckDigest(c, "c18-race", desc, stdout.String())
		switch {
		case code == 0:
			c.Oracle("c18-race", true, "", desc, "")
		case code == 66 || strings.Contains(stderr.String(), "DATA RACE"):
			rep := stderr.String()
			site := "unknown"
			if m := c18RaceFrame.FindString(rep); m != "" {
				site = strings.TrimPrefix(m, "github.com/makiuchi-d/gozxing")
			}
			if len(rep) > 6000 {
				rep = rep[:6000]
			}
			c.Oracle("c18-race", false, "data-race:"+site, desc+"\n"+rep, "race detector report")
		case code == 3:
			c.Oracle("c18-race", false, "concurrent-result-differs", desc, stdout.String())
		default:
			c.Oracle("c18-race", false, "race-runner-crashed", desc, fmt.Sprintf("exit %d\n%s\n%s", code, stdout.String(), stderr.String()))
		}
	}
}

// c18Within runs f under a watchdog.  Every job is a handful of library calls that take milliseconds; if a whole phase does
// not finish, some call no longer returns (e.g. a loop driven by a table that a data race left half-initialised): that is
// a violation of "every call returns exactly what it returns when run alone", reported instead of a check that hangs.
func c18Within(c *Ctx, what string, d time.Duration, f func()) bool {
	done := make(chan struct{})
	go func() { defer close(done); f() }()
	select {
	case <-done:
		return true
	case <-time.After(d):
		c.Oracle("c18-run", false, "calls-do-not-return", what,
			fmt.Sprintf("%s did not finish within %v: a call into the library no longer returns (the same jobs take seconds when run alone)", what, d))
		return false
	}
}

// c18ColdProcesses: the cold-start phases of c18work.ColdStart in FRESH processes — the race-detector binary and a
// plain build of the same program (no instrumentation: tighter timing, so that a torn first-use initialisation shows
// as a wrong result or a panic).  Every process gets another seed, i.e. another order of the phases.
func c18ColdProcesses(c *Ctx, hdir, tmp, raceBin string, env []string, repo string) {
	plain := filepath.Join(tmp, "c18cold")
	build := exec.Command("go", "build", "-tags", "verif", "-o", plain, "./cmd/c18race")
	build.Dir = hdir
	build.Env = env
	if out, err := build.CombinedOutput(); err != nil {
		c.Remark("cold-start binary did not build: " + strings.TrimSpace(string(out)))
		plain = ""
	}
	type ccfg struct {
		bin         string
		race        bool
		k, procs, n int
	}
	var cfgs []ccfg
	for i := 0; i < c.Pick(2, 12); i++ {
		cfgs = append(cfgs, ccfg{raceBin, true, []int{4, 8, 16}[i%3], []int{4, 8, 16}[i%3], c.Pick(12, 36)})
	}
	if plain != "" {
		for i := 0; i < c.Pick(6, 60); i++ {
			cfgs = append(cfgs, ccfg{plain, false, []int{16, 8, 32, 2}[i%4], []int{16, 8, 16, 2}[i%4], c.Pick(24, 48)})
		}
	}
	for i, cf := range cfgs {
		seed := c.Seed*1000 + uint64(i) + 17
		ctx, cancel := context.WithTimeout(context.Background(), time.Duration(c.Pick(240, 1200))*time.Second)
		cmd := exec.CommandContext(ctx, cf.bin, "-cold", "-repo", repo, "-seed", fmt.Sprint(seed), "-jobs", fmt.Sprint(cf.n), "-k", fmt.Sprint(cf.k), "-procs", fmt.Sprint(cf.procs))
		cmd.Env = append(env, "GORACE=halt_on_error=1 exitcode=66")
		var stdout, stderr bytes.Buffer
		cmd.Stdout, cmd.Stderr = &stdout, &stderr
		err := cmd.Run()
		hung := ctx.Err() == context.DeadlineExceeded
		cancel()
		kind := "plain"
		if cf.race {
			kind = "race"
		}
		desc := fmt.Sprintf("c18race(%s build) -cold -seed %d -jobs %d -k %d -procs %d", kind, seed, cf.n, cf.k, cf.procs)
		if hung {
			c.Oracle("c18-cold", false, "calls-do-not-return", desc, "a fresh process whose first uses of the library happen concurrently did not finish within its time limit: a call into the library no longer returns (cold start)")
			continue
		}
		c.NoteN("cold-start:"+kind+"-processes", 1)
		c.mu.Lock()
		c.res.Evaluations += cf.k * (cf.n + 19)
		c.mu.Unlock()
		code := 0
		if err != nil {
			code = -1
			if ee, ok := err.(*exec.ExitError); ok {
				code = ee.ExitCode()
			}
		}
		c18CheckDigest(c, "c18-cold", desc, stdout.String())
		switch {
		case code == 0:
			c.Oracle("c18-cold", true, "", desc, "")
		case code == 66 || strings.Contains(stderr.String(), "DATA RACE"):
			rep := stderr.String()
			site := "unknown"
			if m := c18RaceFrame.FindString(rep); m != "" {
				site = strings.TrimPrefix(m, "github.com/makiuchi-d/gozxing")
			}
			if len(rep) > 6000 {
				rep = rep[:6000]
			}
			c.Oracle("c18-cold", false, "data-race:"+site, desc+"\n"+rep, "race detector report during the cold-start phases")
		case code == 3:
			c.Oracle("c18-cold", false, "cold-start-result-differs", desc, stdout.String())
		default:
			out := stdout.String() + "\n" + stderr.String()
			if len(out) > 4000 {
				out = out[:4000]
			}
			c.Oracle("c18-cold", false, "cold-start-crashed", desc, fmt.Sprintf("exit %d\n%s", code, out))
		}
	}
}
