package main

// C18 static part.  The scanner itself lives in package gzxharness/c18scan (stdlib only) so that the generator
// harness/cmd/c18effects can emit its result as the Lean module Gzx.Gen.C18Effects on every run of bin/check
// (step 1), where kernel-checked obligations (lean/Gzx/Obligations/C18.lean) compare it with the reviewed lists.
// The names below are kept for the other suites (zz_purity.go) that call the scanner at run time.

import "gzxharness/c18scan"

type C18Scan = c18scan.Scan

func c18ScanRepo(root string) (*C18Scan, error) { return c18scan.ScanRepo(root) }
