package c18scan

// Additions of work package c18gen: variable status, shared types (types of which an instance is reachable from a
// package-level variable), writes to fields of such types after construction, uses of package sync, go statements
// and channel operations.  All purely derived from the packages the scanner has already type-checked.

import (
	"go/ast"
	"go/token"
	"go/types"
	"sort"
	"strings"
)

func relOf(p *types.Package) string {
	rel := strings.TrimPrefix(strings.TrimPrefix(p.Path(), c18Mod), "/")
	if rel == "" {
		rel = "gozxing"
	}
	return rel
}

func isLib(p *types.Package) bool {
	return p != nil && (p.Path() == c18Mod || strings.HasPrefix(p.Path(), c18Mod+"/"))
}

func dedupSorted(xs []string) []string {
	sort.Strings(xs)
	w := xs[:0]
	for i, x := range xs {
		if i == 0 || x != xs[i-1] {
			w = append(w, x)
		}
	}
	return w
}

func (s *c18Scanner) extras(out *Scan) {
	// ---- init-only status of every package-level variable ----
	written := map[string]bool{}
	for _, w := range out.Writes {
		if k := strings.Index(w, " -> "); k >= 0 {
			written[w[k+4:]] = true
		}
	}
	out.InitOnly = make([]bool, len(out.Vars))
	for i, v := range out.Vars {
		out.InitOnly[i] = !written[v]
	}
	out.InitWrites = dedupSorted(out.InitWrites)
	sort.Strings(out.Funcs)
	sort.Strings(out.InitFuncs)

	// ---- shared types: closure of the types of package-level variables ----
	var named []*types.Named // every library named type
	var pkgPaths []string
	for path := range s.pkgs {
		pkgPaths = append(pkgPaths, path)
	}
	sort.Strings(pkgPaths)
	for _, path := range pkgPaths {
		p := s.pkgs[path]
		if p.tpkg == nil {
			continue
		}
		sc := p.tpkg.Scope()
		for _, n := range sc.Names() {
			if tn, ok := sc.Lookup(n).(*types.TypeName); ok && !tn.IsAlias() {
				if nt, ok := tn.Type().(*types.Named); ok {
					named = append(named, nt)
				}
			}
		}
	}
	shared := map[string]bool{}
	seen := map[types.Type]bool{}
	var visit func(t types.Type)
	visit = func(t types.Type) {
		if t == nil || seen[t] {
			return
		}
		seen[t] = true
		switch u := t.(type) {
		case *types.Named:
			if !isLib(u.Obj().Pkg()) {
				return
			}
			if _, isS := u.Underlying().(*types.Struct); isS {
				shared[relOf(u.Obj().Pkg())+"."+u.Obj().Name()] = true
			}
			visit(u.Underlying())
		case *types.Pointer:
			visit(u.Elem())
		case *types.Slice:
			visit(u.Elem())
		case *types.Array:
			visit(u.Elem())
		case *types.Chan:
			visit(u.Elem())
		case *types.Map:
			visit(u.Key())
			visit(u.Elem())
		case *types.Struct:
			for i := 0; i < u.NumFields(); i++ {
				visit(u.Field(i).Type())
			}
		case *types.Interface:
			if u.NumMethods() == 0 {
				return // interface{} / any: everything implements it; not followed (documented unsoundness)
			}
			for _, nt := range named {
				if _, isI := nt.Underlying().(*types.Interface); isI {
					continue
				}
				if types.Implements(nt, u) || types.Implements(types.NewPointer(nt), u) {
					visit(nt)
				}
			}
		}
	}
	for _, path := range pkgPaths {
		p := s.pkgs[path]
		if p.tpkg == nil {
			continue
		}
		sc := p.tpkg.Scope()
		for _, n := range sc.Names() {
			if v, ok := sc.Lookup(n).(*types.Var); ok {
				visit(v.Type())
			}
		}
	}
	for k := range shared {
		out.SharedTypes = append(out.SharedTypes, k)
	}
	sort.Strings(out.SharedTypes)
	out.AliasFieldWrites = s.aliasFieldWrites(out)
	for _, site := range append(append([]string{}, out.InstWriteSites...), out.AliasFieldWrites...) { // "func ~> pkg.Type.field"
		k := strings.Index(site, " ~> ")
		tf := site[k+4:]
		if shared[tf[:strings.LastIndex(tf, ".")]] {
			out.SharedTypeWrites = append(out.SharedTypeWrites, site)
		}
	}

	out.SharedTypeWrites = dedupSorted(out.SharedTypeWrites)

	// ---- package sync, go statements, channel operations ----
	for _, path := range pkgPaths {
		p := s.pkgs[path]
		for _, f := range p.files {
			syncNames := map[string]string{} // local import name -> path
			for _, im := range f.Imports {
				ip := strings.Trim(im.Path.Value, "\"")
				if ip == "sync" || ip == "sync/atomic" {
					name := ip[strings.LastIndex(ip, "/")+1:]
					if im.Name != nil {
						name = im.Name.Name
					}
					syncNames[name] = ip
				}
			}
			for _, d := range f.Decls {
				declName := "?"
				switch x := d.(type) {
				case *ast.FuncDecl:
					declName = c18FuncName(p, x)
				case *ast.GenDecl:
					for _, sp := range x.Specs {
						switch y := sp.(type) {
						case *ast.ValueSpec:
							declName = p.rel + "." + y.Names[0].Name
						case *ast.TypeSpec:
							declName = p.rel + "." + y.Name.Name
						}
						break
					}
				}
				hasGo, hasChan := false, false
				ast.Inspect(d, func(n ast.Node) bool {
					switch x := n.(type) {
					case *ast.SelectorExpr:
						if id, ok := x.X.(*ast.Ident); ok {
							if ip, ok := syncNames[id.Name]; ok {
								if _, isPkg := p.info.Uses[id].(*types.PkgName); isPkg || p.info.Uses[id] == nil {
									out.SyncUses = append(out.SyncUses, declName+": "+ip+"."+x.Sel.Name)
								}
							}
						}
					case *ast.GoStmt:
						hasGo = true
					case *ast.SendStmt, *ast.SelectStmt, *ast.ChanType:
						hasChan = true
					case *ast.UnaryExpr:
						if x.Op == token.ARROW {
							hasChan = true
						}
					}
					return true
				})
				if hasGo {
					out.GoStmts = append(out.GoStmts, declName)
				}
				if hasChan {
					out.ChanOps = append(out.ChanOps, declName)
				}
			}
		}
	}
	out.SyncUses = dedupSorted(out.SyncUses)
	out.GoStmts = dedupSorted(out.GoStmts)
	out.ChanOps = dedupSorted(out.ChanOps)
}

// aliasFieldWrites: a local variable is bound to a field of a receiver / struct-pointer parameter that is a slice, map or
// pointer (x := p.f, x := p.f[:0], x := p.f[a:b]) and then written through (x[i] = ..., x.g = ..., *x = ...), handed to
// append / copy / delete / clear, or passed to any other call: the backing store of the field may be written although no
// assignment names the field (`buf := this.scratch[:0]; buf = append(buf, c)`).  Over-approximation (a call that only
// reads the slice is reported too); only used for shared types, where the reviewed list is empty on the unchanged tree.
func (s *c18Scanner) aliasFieldWrites(out *Scan) []string {
	initFn := map[string]bool{}
	for _, f := range out.InitFuncs {
		initFn[f] = true
	}
	var res []string
	var pkgPaths []string
	for path := range s.pkgs {
		pkgPaths = append(pkgPaths, path)
	}
	sort.Strings(pkgPaths)
	for _, path := range pkgPaths {
		p := s.pkgs[path]
		for _, file := range p.files {
			for _, d := range file.Decls {
				fd, ok := d.(*ast.FuncDecl)
				if !ok || fd.Body == nil {
					continue
				}
				name := c18FuncName(p, fd)
				if initFn[name] || strings.HasPrefix(fd.Name.Name, "New") || strings.HasPrefix(fd.Name.Name, "new") {
					continue
				}
				info := p.info
				paramStruct := map[types.Object]string{}
				addParams := func(fl *ast.FieldList) {
					if fl == nil {
						return
					}
					for _, f := range fl.List {
						for _, n := range f.Names {
							po := info.Defs[n]
							if po == nil {
								continue
							}
							t := po.Type()
							if pt, ok := t.Underlying().(*types.Pointer); ok {
								t = pt.Elem()
							}
							if named, ok := t.(*types.Named); ok && isLib(named.Obj().Pkg()) {
								if _, isS := named.Underlying().(*types.Struct); isS {
									paramStruct[po] = relOf(named.Obj().Pkg()) + "." + named.Obj().Name()
								}
							}
						}
					}
				}
				addParams(fd.Recv)
				addParams(fd.Type.Params)
				if len(paramStruct) == 0 {
					continue
				}
				alias := map[types.Object]string{}
				// the field (of a struct parameter) or alias an expression denotes after stripping slicing and parentheses
				var fieldOf func(e ast.Expr) string
				fieldOf = func(e ast.Expr) string {
					switch x := e.(type) {
					case *ast.ParenExpr:
						return fieldOf(x.X)
					case *ast.SliceExpr:
						return fieldOf(x.X)
					case *ast.Ident:
						if o := info.Uses[x]; o != nil {
							return alias[o]
						}
					case *ast.SelectorExpr:
						if id, ok := x.X.(*ast.Ident); ok {
							if tn, ok := paramStruct[info.Uses[id]]; ok {
								if sel, ok := info.Selections[x]; ok && sel.Kind() == types.FieldVal {
									switch sel.Type().Underlying().(type) {
									case *types.Slice, *types.Map, *types.Pointer:
										return tn + "." + x.Sel.Name
									}
								}
							}
						}
					}
					return ""
				}
				// root alias of a store target x[i], x.g, *x
				var rootAlias func(e ast.Expr) string
				rootAlias = func(e ast.Expr) string {
					switch x := e.(type) {
					case *ast.ParenExpr:
						return rootAlias(x.X)
					case *ast.IndexExpr:
						return rootAlias(x.X)
					case *ast.StarExpr:
						return rootAlias(x.X)
					case *ast.SliceExpr:
						return rootAlias(x.X)
					case *ast.SelectorExpr:
						return rootAlias(x.X)
					case *ast.Ident:
						if o := info.Uses[x]; o != nil {
							return alias[o]
						}
					}
					return ""
				}
				rec := func(key string) {
					if key != "" {
						res = append(res, name+" ~> "+key)
					}
				}
				for pass := 0; pass < 2; pass++ {
					ast.Inspect(fd.Body, func(n ast.Node) bool {
						switch x := n.(type) {
						case *ast.AssignStmt:
							if len(x.Lhs) == len(x.Rhs) {
								for i, l := range x.Lhs {
									if id, ok := l.(*ast.Ident); ok && id.Name != "_" {
										o := info.Defs[id]
										if o == nil {
											o = info.Uses[id]
										}
										if o != nil {
											if _, isParam := paramStruct[o]; !isParam {
												if k := fieldOf(x.Rhs[i]); k != "" {
													alias[o] = k
												}
											}
										}
									}
								}
							}
							if pass == 1 {
								for _, l := range x.Lhs {
									if _, plain := l.(*ast.Ident); !plain {
										rec(rootAlias(l))
									}
								}
							}
						case *ast.IncDecStmt:
							if pass == 1 {
								if _, plain := x.X.(*ast.Ident); !plain {
									rec(rootAlias(x.X))
								}
							}
						case *ast.CallExpr:
							if pass == 1 {
								if id, ok := x.Fun.(*ast.Ident); ok {
									if _, isB := info.Uses[id].(*types.Builtin); isB {
										switch id.Name {
										case "append", "copy", "delete", "clear":
											if len(x.Args) > 0 {
												if a, ok := x.Args[0].(*ast.Ident); ok {
													if o := info.Uses[a]; o != nil {
														rec(alias[o])
													}
												} else if se, ok := x.Args[0].(*ast.SliceExpr); ok {
													rec(rootAlias(se))
												}
											}
										}
										return true // len, cap, ... only read
									}
								}
								for _, a := range x.Args {
									switch y := a.(type) {
									case *ast.Ident:
										if o := info.Uses[y]; o != nil {
											rec(alias[o])
										}
									case *ast.SliceExpr:
										rec(rootAlias(y))
									}
								}
							}
						}
						return true
					})
				}
			}
		}
	}
	return dedupSorted(res)
}
