package c18scan

// Additions of work package c18gen: variable status, shared types (types of which an instance is reachable from a
// package-level variable), writes to fields of such types after construction, uses of package sync, go statements
// and channel operations.  All purely derived from the packages the scanner has already type-checked.

import (
	"go/ast"
	"go/token"
	"go/types"
	"sort"
	"strings"
)

func relOf(p *types.Package) string {
	rel := strings.TrimPrefix(strings.TrimPrefix(p.Path(), c18Mod), "/")
	if rel == "" {
		rel = "gozxing"
	}
	return rel
}

func isLib(p *types.Package) bool {
	return p != nil && (p.Path() == c18Mod || strings.HasPrefix(p.Path(), c18Mod+"/"))
}

func dedupSorted(xs []string) []string {
	sort.Strings(xs)
	w := xs[:0]
	for i, x := range xs {
		if i == 0 || x != xs[i-1] {
			w = append(w, x)
		}
	}
	return w
}

func (s *c18Scanner) extras(out *Scan) {
	// ---- init-only status of every package-level variable ----
	written := map[string]bool{}
	for _, w := range out.Writes {
		if k := strings.Index(w, " -> "); k >= 0 {
			written[w[k+4:]] = true
		}
	}
	out.InitOnly = make([]bool, len(out.Vars))
	for i, v := range out.Vars {
		out.InitOnly[i] = !written[v]
	}
	out.InitWrites = dedupSorted(out.InitWrites)
	sort.Strings(out.Funcs)
	sort.Strings(out.InitFuncs)

	// ---- shared types: closure of the types of package-level variables ----
	var named []*types.Named // every library named type
	var pkgPaths []string
	for path := range s.pkgs {
		pkgPaths = append(pkgPaths, path)
	}
	sort.Strings(pkgPaths)
	for _, path := range pkgPaths {
		p := s.pkgs[path]
		if p.tpkg == nil {
			continue
		}
		sc := p.tpkg.Scope()
		for _, n := range sc.Names() {
			if tn, ok := sc.Lookup(n).(*types.TypeName); ok && !tn.IsAlias() {
				if nt, ok := tn.Type().(*types.Named); ok {
					named = append(named, nt)
				}
			}
		}
	}
	shared := map[string]bool{}
	seen := map[types.Type]bool{}
	var visit func(t types.Type)
	visit = func(t types.Type) {
		if t == nil || seen[t] {
			return
		}
		seen[t] = true
		switch u := t.(type) {
		case *types.Named:
			if !isLib(u.Obj().Pkg()) {
				return
			}
			if _, isS := u.Underlying().(*types.Struct); isS {
				shared[relOf(u.Obj().Pkg())+"."+u.Obj().Name()] = true
			}
			visit(u.Underlying())
		case *types.Pointer:
			visit(u.Elem())
		case *types.Slice:
			visit(u.Elem())
		case *types.Array:
			visit(u.Elem())
		case *types.Chan:
			visit(u.Elem())
		case *types.Map:
			visit(u.Key())
			visit(u.Elem())
		case *types.Struct:
			for i := 0; i < u.NumFields(); i++ {
				visit(u.Field(i).Type())
			}
		case *types.Interface:
			if u.NumMethods() == 0 {
				return // interface{} / any: everything implements it; not followed (documented unsoundness)
			}
			for _, nt := range named {
				if _, isI := nt.Underlying().(*types.Interface); isI {
					continue
				}
				if types.Implements(nt, u) || types.Implements(types.NewPointer(nt), u) {
					visit(nt)
				}
			}
		}
	}
	for _, path := range pkgPaths {
		p := s.pkgs[path]
		if p.tpkg == nil {
			continue
		}
		sc := p.tpkg.Scope()
		for _, n := range sc.Names() {
			if v, ok := sc.Lookup(n).(*types.Var); ok {
				visit(v.Type())
			}
		}
	}
	for k := range shared {
		out.SharedTypes = append(out.SharedTypes, k)
	}
	sort.Strings(out.SharedTypes)
	for _, site := range out.InstWriteSites { // "func ~> pkg.Type.field"
		k := strings.Index(site, " ~> ")
		tf := site[k+4:]
		if shared[tf[:strings.LastIndex(tf, ".")]] {
			out.SharedTypeWrites = append(out.SharedTypeWrites, site)
		}
	}

	// ---- package sync, go statements, channel operations ----
	for _, path := range pkgPaths {
		p := s.pkgs[path]
		for _, f := range p.files {
			syncNames := map[string]string{} // local import name -> path
			for _, im := range f.Imports {
				ip := strings.Trim(im.Path.Value, "\"")
				if ip == "sync" || ip == "sync/atomic" {
					name := ip[strings.LastIndex(ip, "/")+1:]
					if im.Name != nil {
						name = im.Name.Name
					}
					syncNames[name] = ip
				}
			}
			for _, d := range f.Decls {
				declName := "?"
				switch x := d.(type) {
				case *ast.FuncDecl:
					declName = c18FuncName(p, x)
				case *ast.GenDecl:
					for _, sp := range x.Specs {
						switch y := sp.(type) {
						case *ast.ValueSpec:
							declName = p.rel + "." + y.Names[0].Name
						case *ast.TypeSpec:
							declName = p.rel + "." + y.Name.Name
						}
						break
					}
				}
				hasGo, hasChan := false, false
				ast.Inspect(d, func(n ast.Node) bool {
					switch x := n.(type) {
					case *ast.SelectorExpr:
						if id, ok := x.X.(*ast.Ident); ok {
							if ip, ok := syncNames[id.Name]; ok {
								if _, isPkg := p.info.Uses[id].(*types.PkgName); isPkg || p.info.Uses[id] == nil {
									out.SyncUses = append(out.SyncUses, declName+": "+ip+"."+x.Sel.Name)
								}
							}
						}
					case *ast.GoStmt:
						hasGo = true
					case *ast.SendStmt, *ast.SelectStmt, *ast.ChanType:
						hasChan = true
					case *ast.UnaryExpr:
						if x.Op == token.ARROW {
							hasChan = true
						}
					}
					return true
				})
				if hasGo {
					out.GoStmts = append(out.GoStmts, declName)
				}
				if hasChan {
					out.ChanOps = append(out.ChanOps, declName)
				}
			}
		}
	}
	out.SyncUses = dedupSorted(out.SyncUses)
	out.GoStmts = dedupSorted(out.GoStmts)
	out.ChanOps = dedupSorted(out.ChanOps)
}
