// Package c18scan is the static effect scanner of property C18 (and of the statelessness premise of all properties).
// Stdlib only: shared by the harness (run-time premise checks, self-test on a synthetic package) and by the generator
// harness/cmd/c18effects which emits the result as the Lean module Gzx.Gen.C18Effects on every run of bin/check.
package c18scan

// C18 static part: enumerate every package-level variable of the library and every function that
// may WRITE to one outside `init` / variable initialisers.  go/parser + go/types over the working
// tree ($GZX_REPO); library packages are type-checked from source, everything else (std, x/text)
// is stubbed (type errors ignored — only identifier resolution and reference-ness of types matter).
//
// A write is: assignment / IncDec / op-assignment whose target is rooted at a package-level
// variable (v = …, v[i] = …, v.f = …, *v = …, pkg.V = …, v = append(v, …)), copy(v…, …),
// delete(v, …), clear(v); the same through a local alias of reference type (t := v; t[i] = …;
// for _, t := range v { t.f = … }); and — interprocedurally — passing such a root as receiver or
// argument to a library function whose summary says it mutates that parameter through a
// pointer/slice/map (fixpoint over the static call graph; interface calls are not resolved).
// Functions that are unexported and only called from init / variable initialisers / other such
// functions are init-time and excluded.

import (
	"fmt"
	"go/ast"
	"go/parser"
	"go/token"
	"go/types"
	"os"
	"path/filepath"
	"sort"
	"strings"
)

const c18Mod = "github.com/makiuchi-d/gozxing"

type c18Pkg struct {
	path  string // import path
	rel   string // path relative to the module ("." -> "gozxing")
	files []*ast.File
	tpkg  *types.Package
	info  *types.Info
}

type c18Scanner struct {
	root string
	fset *token.FileSet
	pkgs map[string]*c18Pkg
	errs int
}

func (s *c18Scanner) Import(path string) (*types.Package, error) {
	if path == c18Mod || strings.HasPrefix(path, c18Mod+"/") {
		p, err := s.load(path)
		if err != nil {
			return nil, err
		}
		return p.tpkg, nil
	}
	name := path[strings.LastIndex(path, "/")+1:]
	tp := types.NewPackage(path, name)
	tp.MarkComplete()
	return tp, nil
}

func (s *c18Scanner) load(path string) (*c18Pkg, error) {
	if p, ok := s.pkgs[path]; ok {
		return p, nil
	}
	rel := strings.TrimPrefix(strings.TrimPrefix(path, c18Mod), "/")
	dir := filepath.Join(s.root, rel)
	ents, err := os.ReadDir(dir)
	if err != nil {
		return nil, err
	}
	p := &c18Pkg{path: path, rel: rel}
	if rel == "" {
		p.rel = "gozxing"
	}
	s.pkgs[path] = p
	for _, e := range ents {
		n := e.Name()
		if e.IsDir() || !strings.HasSuffix(n, ".go") || strings.HasSuffix(n, "_test.go") {
			continue
		}
		f, err := parser.ParseFile(s.fset, filepath.Join(dir, n), nil, parser.ParseComments)
		if err != nil {
			return nil, err
		}
		p.files = append(p.files, f)
	}
	if len(p.files) == 0 {
		return nil, fmt.Errorf("no go files in %s", dir)
	}
	p.info = &types.Info{Defs: map[*ast.Ident]types.Object{}, Uses: map[*ast.Ident]types.Object{},
		Types: map[ast.Expr]types.TypeAndValue{}, Selections: map[*ast.SelectorExpr]*types.Selection{}}
	conf := types.Config{Importer: s, Error: func(error) { s.errs++ }, DisableUnusedImportCheck: true}
	p.tpkg, _ = conf.Check(path, s.fset, p.files, p.info)
	return p, nil
}

type c18Func struct {
	name    string // canonical: rel.Func or rel.(*T).M
	pkg     *c18Pkg
	obj     *types.Func
	decl    *ast.FuncDecl
	isInit  bool
	params  []types.Object // receiver first (if any), then parameters
	mutates map[int]bool   // indices into params that may be written through
	writes  map[string]bool
	callers map[string]bool // names of callers ("<init>" for init / var initialisers)
}

func c18IsRef(t types.Type) bool {
	if t == nil {
		return true // unknown (stubbed import): assume it can alias
	}
	switch u := t.Underlying().(type) {
	case *types.Pointer, *types.Slice, *types.Map, *types.Chan, *types.Interface, *types.Signature:
		return true
	case *types.Basic:
		return u.Kind() == types.Invalid
	}
	return false
}

// c18Root strips index / field / deref / slice / paren and returns the root identifier, or a
// qualified identifier pkg.V.
func c18Root(info *types.Info, e ast.Expr) (root *ast.Ident, throughRef bool) {
	for {
		switch x := e.(type) {
		case *ast.ParenExpr:
			e = x.X
		case *ast.IndexExpr:
			if tv, ok := info.Types[x.X]; ok {
				if _, isArr := tv.Type.Underlying().(*types.Array); !isArr {
					throughRef = true
				}
			} else {
				throughRef = true
			}
			e = x.X
		case *ast.SliceExpr:
			e = x.X
		case *ast.StarExpr:
			throughRef = true
			e = x.X
		case *ast.SelectorExpr:
			if id, ok := x.X.(*ast.Ident); ok {
				if _, isPkg := info.Uses[id].(*types.PkgName); isPkg {
					return x.Sel, throughRef
				}
			}
			if tv, ok := info.Types[x.X]; ok {
				if _, isPtr := tv.Type.Underlying().(*types.Pointer); isPtr {
					throughRef = true
				}
			}
			e = x.X
		case *ast.Ident:
			return x, throughRef
		default:
			return nil, false
		}
	}
}

// c18ExternalMutators: method names of standard-library types that change the receiver.  Calling one on a value rooted
// at a package-level variable (memo in a sync.Map, buffer pool, atomic.Value, sync.Once-guarded lazy init) or at an
// instance field is a write to that state, exactly like an assignment.
var c18ExternalMutators = map[string]bool{
	"Store": true, "LoadOrStore": true, "LoadAndDelete": true, "Delete": true, "Swap": true, "CompareAndSwap": true, "CompareAndDelete": true,
	"Put": true, "Do": true, "Add": true, "Reset": true, "Grow": true, "Write": true, "WriteByte": true, "WriteString": true, "WriteRune": true,
	"Push": true, "PushBack": true, "PushFront": true, "Remove": true, "Clear": true,
}

func c18LeftmostIdent(e ast.Expr) *ast.Ident {
	for {
		switch x := e.(type) {
		case *ast.Ident:
			return x
		case *ast.SelectorExpr:
			e = x.X
		case *ast.IndexExpr:
			e = x.X
		case *ast.StarExpr:
			e = x.X
		case *ast.ParenExpr:
			e = x.X
		case *ast.CallExpr:
			e = x.Fun
		default:
			return nil
		}
	}
}

func c18IsPkgVar(o types.Object) bool {
	v, ok := o.(*types.Var)
	if !ok || v.IsField() || v.Pkg() == nil {
		return false
	}
	return v.Parent() == v.Pkg().Scope() && strings.HasPrefix(v.Pkg().Path(), c18Mod)
}

func c18VarName(o types.Object) string {
	rel := strings.TrimPrefix(strings.TrimPrefix(o.Pkg().Path(), c18Mod), "/")
	if rel == "" {
		rel = "gozxing"
	}
	return rel + "." + o.Name()
}

func c18FuncName(p *c18Pkg, fd *ast.FuncDecl) string {
	if fd.Recv != nil && len(fd.Recv.List) > 0 {
		t := fd.Recv.List[0].Type
		star := ""
		if st, ok := t.(*ast.StarExpr); ok {
			t = st.X
			star = "*"
		}
		if id, ok := t.(*ast.Ident); ok {
			return fmt.Sprintf("%s.(%s%s).%s", p.rel, star, id.Name, fd.Name.Name)
		}
	}
	return p.rel + "." + fd.Name.Name
}

type Scan struct {
	Vars   []string // every package-level variable
	Writes []string // "func -> var" outside init-time code
	Escapes []string // "func => var": a reference into package-level state is stored into an object (composite literal, field, element) outside init-time code
	InstWrites []string // "pkg.Type.field": instance fields written through a receiver / struct-pointer parameter outside constructors
	Notes  []string
	Errs   int

	// ---- added by wp c18gen ----
	InitOnly        []bool   // parallel to Vars: no function outside init-time code writes the variable
	InitWrites      []string // "func -> var": writes by init-time code (init, unexported functions only reachable from init / initialisers)
	Funcs           []string // every declared function / method (canonical name), init-time ones included
	InitFuncs       []string // the init-time subset of Funcs
	InstWriteSites  []string // "func ~> pkg.Type.field": the functions behind InstWrites
	SharedTypes     []string // library struct types of which an instance is reachable from a package-level variable (by type)
	AliasFieldWrites []string // "func ~> pkg.Type.field": the backing store of a slice/map/pointer field is written or handed on through a local alias (over-approximation; used for shared types only)
	SharedTypeWrites []string // the InstWriteSites and AliasFieldWrites whose Type is in SharedTypes: a field of an object that may be shared is written after construction (e.g. lazily built tables)
	SyncUses        []string // "pkg.Decl: sync.X": every mention of package sync / sync/atomic (locks, Once, pools, atomics)
	GoStmts         []string // "func": functions containing a go statement
	ChanOps         []string // "func": functions containing a channel send / receive / select / make(chan)
}

// ScanRepo runs the analysis over every library package under root.
func ScanRepo(root string) (*Scan, error) {
	s := &c18Scanner{root: root, fset: token.NewFileSet(), pkgs: map[string]*c18Pkg{}}
	var dirs []string
	filepath.Walk(root, func(p string, info os.FileInfo, err error) error {
		if err != nil {
			return nil
		}
		if info.IsDir() {
			b := filepath.Base(p)
			if p != root && (strings.HasPrefix(b, ".") || b == "testdata" || b == "testutil" || b == "cmd" || b == "vendor") {
				return filepath.SkipDir
			}
			return nil
		}
		if strings.HasSuffix(p, ".go") && !strings.HasSuffix(p, "_test.go") {
			d := filepath.Dir(p)
			if len(dirs) == 0 || dirs[len(dirs)-1] != d {
				dirs = append(dirs, d)
			}
		}
		return nil
	})
	sort.Strings(dirs)
	seen := map[string]bool{}
	for _, d := range dirs {
		if seen[d] {
			continue
		}
		seen[d] = true
		rel, _ := filepath.Rel(root, d)
		path := c18Mod
		if rel != "." {
			path += "/" + filepath.ToSlash(rel)
		}
		if _, err := s.load(path); err != nil {
			return nil, err
		}
	}
	out := &Scan{}
	funcs := map[string]*c18Func{}
	byObj := map[*types.Func]*c18Func{}
	var order []string
	for _, p := range s.pkgs {
		// package-level variables
		if p.tpkg != nil {
			sc := p.tpkg.Scope()
			for _, n := range sc.Names() {
				if v, ok := sc.Lookup(n).(*types.Var); ok {
					out.Vars = append(out.Vars, c18VarName(v))
				}
			}
		}
		for _, f := range p.files {
			for _, d := range f.Decls {
				fd, ok := d.(*ast.FuncDecl)
				if !ok || fd.Body == nil {
					continue
				}
				fn := &c18Func{name: c18FuncName(p, fd), pkg: p, decl: fd, mutates: map[int]bool{}, writes: map[string]bool{}, callers: map[string]bool{}}
				fn.isInit = fd.Recv == nil && fd.Name.Name == "init"
				if o, ok := p.info.Defs[fd.Name].(*types.Func); ok {
					fn.obj = o
					byObj[o] = fn
				}
				if fd.Recv != nil {
					for _, fl := range fd.Recv.List {
						for _, n := range fl.Names {
							fn.params = append(fn.params, p.info.Defs[n])
						}
						if len(fl.Names) == 0 {
							fn.params = append(fn.params, nil)
						}
					}
				}
				for _, fl := range fd.Type.Params.List {
					for _, n := range fl.Names {
						fn.params = append(fn.params, p.info.Defs[n])
					}
					if len(fl.Names) == 0 {
						fn.params = append(fn.params, nil)
					}
				}
				key := fn.name
				for funcs[key] != nil { // init can be declared several times
					key += "'"
				}
				funcs[key] = fn
				order = append(order, key)
			}
		}
	}
	sort.Strings(order)
	sort.Strings(out.Vars)

	// source of a root identifier inside function fn: a package variable, a parameter index, or nothing
	type src struct {
		global string
		param  int // -1 = none
	}
	analyse := func(fn *c18Func, record bool) (changed bool) {
		info := fn.pkg.info
		alias := map[types.Object]src{}
		resolve := func(id *ast.Ident) src {
			o := info.Uses[id]
			if o == nil {
				o = info.Defs[id]
			}
			if o == nil {
				return src{param: -1}
			}
			if c18IsPkgVar(o) {
				return src{global: c18VarName(o), param: -1}
			}
			for i, po := range fn.params {
				if po != nil && po == o {
					return src{param: i}
				}
			}
			if a, ok := alias[o]; ok {
				return a
			}
			return src{param: -1}
		}
		mark := func(sr src) {
			if sr.global != "" {
				if !fn.writes[sr.global] {
					fn.writes[sr.global] = true
					changed = true
				}
			} else if sr.param >= 0 {
				if !fn.mutates[sr.param] {
					fn.mutates[sr.param] = true
					changed = true
				}
			}
		}
		// markVia: something is written through expression e (store target, receiver or argument)
		markVia := func(e ast.Expr, plainIdentIsLocal bool) {
			if u, ok := e.(*ast.UnaryExpr); ok && u.Op == token.AND {
				e = u.X
			}
			root, viaRef := c18Root(info, e)
			if root == nil {
				return
			}
			_, isIdent := e.(*ast.Ident)
			sr := resolve(root)
			switch {
			case sr.global != "":
				// direct source is the package variable, or an alias of it
				o := info.Uses[root]
				if o != nil && !c18IsPkgVar(o) && isIdent && plainIdentIsLocal {
					return // re-binding a local alias
				}
				mark(sr)
			case sr.param >= 0:
				o := info.Uses[root]
				if isIdent && plainIdentIsLocal {
					return // re-binding a parameter / local is invisible to the caller
				}
				var t types.Type
				if o != nil {
					t = o.Type()
				}
				if viaRef || c18IsRef(t) {
					mark(sr)
				}
			}
		}
		writeTo := func(lhs ast.Expr) { markVia(lhs, true) }
		bindAlias := func(lhs ast.Expr, rhs ast.Expr) {
			id, ok := lhs.(*ast.Ident)
			if !ok || id.Name == "_" {
				return
			}
			o := info.Defs[id]
			if o == nil {
				o = info.Uses[id]
			}
			if o == nil || c18IsPkgVar(o) {
				return
			}
			if !c18IsRef(o.Type()) {
				return
			}
			e := rhs
			if u, ok := e.(*ast.UnaryExpr); ok && u.Op == token.AND {
				e = u.X
			}
			root, _ := c18Root(info, e)
			if root == nil {
				return
			}
			sr := resolve(root)
			if sr.global != "" || sr.param >= 0 {
				if old, ok := alias[o]; !ok || old != sr {
					alias[o] = sr
				}
			}
		}
		// two passes so that aliases defined later in source order (loops) are seen
		for pass := 0; pass < 2; pass++ {
			ast.Inspect(fn.decl.Body, func(n ast.Node) bool {
				switch x := n.(type) {
				case *ast.AssignStmt:
					for i, l := range x.Lhs {
						if x.Tok != token.DEFINE {
							writeTo(l)
						}
						if len(x.Rhs) == len(x.Lhs) {
							bindAlias(l, x.Rhs[i])
						}
					}
				case *ast.IncDecStmt:
					writeTo(x.X)
				case *ast.RangeStmt:
					if x.Value != nil {
						bindAlias(x.Value, x.X)
					}
					if x.Tok == token.ASSIGN {
						if x.Key != nil {
							writeTo(x.Key)
						}
						if x.Value != nil {
							writeTo(x.Value)
						}
					}
				case *ast.CallExpr:
					// builtins that write through their first argument
					if id, ok := x.Fun.(*ast.Ident); ok && len(x.Args) > 0 {
						if _, isB := info.Uses[id].(*types.Builtin); isB && (id.Name == "copy" || id.Name == "delete" || id.Name == "clear") {
							markVia(x.Args[0], false)
						}
					}
					// static callee
					var callee *types.Func
					var recv ast.Expr
					switch f := x.Fun.(type) {
					case *ast.Ident:
						callee, _ = info.Uses[f].(*types.Func)
					case *ast.SelectorExpr:
						if sel, ok := info.Selections[f]; ok {
							callee, _ = sel.Obj().(*types.Func)
							recv = f.X
						} else {
							callee, _ = info.Uses[f.Sel].(*types.Func)
						}
					}
					// mutating methods of NON-library types (sync.Map, sync.Pool, atomic.Value, sync.Once, container types ...)
					// called on something rooted at a package-level variable / parameter: a write through that root.
					if byObj[callee] == nil {
						if se, ok := x.Fun.(*ast.SelectorExpr); ok && c18ExternalMutators[se.Sel.Name] {
							if _, isPkg := info.Uses[c18LeftmostIdent(se.X)].(*types.PkgName); !isPkg {
								markVia(se.X, false)
							}
						}
					}
					if g := byObj[callee]; g != nil {
						if record {
							g.callers[fn.name] = true
						}
						args := x.Args
						idx := 0
						if g.decl.Recv != nil {
							if recv != nil && g.mutates[0] {
								markVia(recv, false)
							}
							idx = 1
						}
						for i, a := range args {
							pi := idx + i
							if pi >= len(g.params) {
								pi = len(g.params) - 1 // variadic tail
							}
							if pi >= 0 && g.mutates[pi] {
								markVia(a, false)
							}
						}
					}
				}
				return true
			})
		}
		return changed
	}
	for it := 0; it < 20; it++ {
		ch := false
		for _, k := range order {
			if analyse(funcs[k], it == 0) {
				ch = true
			}
		}
		if !ch {
			break
		}
	}
	// calls made from package-level variable initialisers are init-time callers
	for _, p := range s.pkgs {
		for _, f := range p.files {
			for _, d := range f.Decls {
				gd, ok := d.(*ast.GenDecl)
				if !ok || gd.Tok != token.VAR {
					continue
				}
				ast.Inspect(gd, func(n ast.Node) bool {
					if _, isLit := n.(*ast.FuncLit); isLit {
						return false // a closure stored in a variable runs later, not at init
					}
					if ce, ok := n.(*ast.CallExpr); ok {
						var callee *types.Func
						switch fx := ce.Fun.(type) {
						case *ast.Ident:
							callee, _ = p.info.Uses[fx].(*types.Func)
						case *ast.SelectorExpr:
							if sel, ok := p.info.Selections[fx]; ok {
								callee, _ = sel.Obj().(*types.Func)
							} else {
								callee, _ = p.info.Uses[fx.Sel].(*types.Func)
							}
						}
						if g := byObj[callee]; g != nil {
							g.callers["<init>"] = true
						}
					}
					return true
				})
			}
		}
	}
	// init-time functions: init itself; unexported functions all of whose callers are init-time
	initTime := map[string]bool{"<init>": true}
	for _, k := range order {
		if funcs[k].isInit {
			initTime[funcs[k].name] = true
		}
	}
	for ch := true; ch; {
		ch = false
		for _, k := range order {
			fn := funcs[k]
			if initTime[fn.name] || fn.decl.Name.IsExported() || len(fn.callers) == 0 {
				continue
			}
			all := true
			for c := range fn.callers {
				if !initTime[c] {
					all = false
				}
			}
			if all {
				initTime[fn.name] = true
				ch = true
			}
		}
	}
	// closures stored in package-level variables: analysed as functions named after the variable
	for _, p := range s.pkgs {
		for _, f := range p.files {
			for _, d := range f.Decls {
				gd, ok := d.(*ast.GenDecl)
				if !ok || gd.Tok != token.VAR {
					continue
				}
				for _, sp := range gd.Specs {
					vs := sp.(*ast.ValueSpec)
					for _, v := range vs.Values {
						ast.Inspect(v, func(n ast.Node) bool {
							fl, ok := n.(*ast.FuncLit)
							if !ok {
								return true
							}
							name := p.rel + "." + vs.Names[0].Name + "$closure"
							fn := &c18Func{name: name, pkg: p, decl: &ast.FuncDecl{Name: ast.NewIdent("closure"), Type: fl.Type, Body: fl.Body},
								mutates: map[int]bool{}, writes: map[string]bool{}, callers: map[string]bool{}}
							analyse(fn, false)
							for g := range fn.writes {
								out.Writes = append(out.Writes, name+" -> "+g)
							}
							return false
						})
					}
				}
			}
		}
	}
	nInit := 0
	for _, k := range order {
		fn := funcs[k]
		out.Funcs = append(out.Funcs, fn.name)
		if initTime[fn.name] {
			out.InitFuncs = append(out.InitFuncs, fn.name)
			for g := range fn.writes {
				out.InitWrites = append(out.InitWrites, fn.name+" -> "+g)
			}
			if len(fn.writes) > 0 {
				nInit++
			}
			continue
		}
		for g := range fn.writes {
			out.Writes = append(out.Writes, fn.name+" -> "+g)
		}
	}
	// escapes: a non-init function stores a reference into package-level state (the variable itself if it is a pointer /
	// slice / map, its address, or a reference-typed element of it) into another object: a composite-literal field or
	// an assignment whose target is a field, element or dereference.  Such an object then shares that state with every
	// other instance built the same way, and writes through the instance (which the write scan attributes to the
	// instance) are writes to shared state.
	for _, k := range order {
		fn := funcs[k]
		if initTime[fn.name] {
			continue
		}
		info := fn.pkg.info
		refToGlobal := func(e ast.Expr) string {
			addr := false
			for {
				if pe, ok := e.(*ast.ParenExpr); ok {
					e = pe.X
					continue
				}
				if u, ok := e.(*ast.UnaryExpr); ok && u.Op == token.AND {
					e, addr = u.X, true
					continue
				}
				break
			}
			root, _ := c18Root(info, e)
			if root == nil {
				return ""
			}
			o := info.Uses[root]
			if o == nil || !c18IsPkgVar(o) {
				return ""
			}
			if !addr {
				tv, ok := info.Types[e]
				if !ok || tv.Type == nil {
					return ""
				}
				switch tv.Type.Underlying().(type) {
				case *types.Pointer, *types.Slice, *types.Map:
				default:
					return ""
				}
			}
			return c18VarName(o)
		}
		rec := func(e ast.Expr) {
			if g := refToGlobal(e); g != "" {
				out.Escapes = append(out.Escapes, fn.name+" => "+g)
			}
		}
		ast.Inspect(fn.decl.Body, func(n ast.Node) bool {
			switch x := n.(type) {
			case *ast.CompositeLit:
				for _, el := range x.Elts {
					if kv, ok := el.(*ast.KeyValueExpr); ok {
						rec(kv.Value)
					} else {
						rec(el)
					}
				}
			case *ast.AssignStmt:
				if len(x.Lhs) == len(x.Rhs) {
					for i, l := range x.Lhs {
						switch l.(type) {
						case *ast.SelectorExpr, *ast.IndexExpr, *ast.StarExpr:
							if root, _ := c18Root(info, l); root != nil {
								if o := info.Uses[root]; o != nil && c18IsPkgVar(o) {
									continue // a write to package state: reported by the write scan
								}
							}
							rec(x.Rhs[i])
						}
					}
				}
			}
			return true
		})
	}
	// instance state: fields of library struct types that are written after construction, i.e. through the receiver or
	// a struct-pointer parameter of a function that is not a constructor (New*/new*) and not init-time.  The models
	// treat Decode/Encode/... as functions of their arguments; state carried in an instance between calls is the
	// exception that has to be reviewed (scratch buffers that every call resets, configuration setters).
	{
		seenIW := map[string]bool{}
		for _, k := range order {
			fn := funcs[k]
			if initTime[fn.name] {
				continue
			}
			nm := fn.decl.Name.Name
			if strings.HasPrefix(nm, "New") || strings.HasPrefix(nm, "new") {
				continue
			}
			info := fn.pkg.info
			paramStruct := map[types.Object]string{}
			for _, po := range fn.params {
				if po == nil {
					continue
				}
				t := po.Type()
				if pt, ok := t.Underlying().(*types.Pointer); ok {
					t = pt.Elem()
				}
				if named, ok := t.(*types.Named); ok {
					if _, isS := named.Underlying().(*types.Struct); isS && named.Obj().Pkg() != nil &&
						(named.Obj().Pkg().Path() == c18Mod || strings.HasPrefix(named.Obj().Pkg().Path(), c18Mod+"/")) {
						rel := strings.TrimPrefix(strings.TrimPrefix(named.Obj().Pkg().Path(), c18Mod), "/")
						if rel == "" {
							rel = "gozxing"
						}
						paramStruct[po] = rel + "." + named.Obj().Name()
					}
				}
			}
			if len(paramStruct) == 0 {
				continue
			}
			var firstField func(e ast.Expr) (types.Object, string)
			firstField = func(e ast.Expr) (types.Object, string) {
				switch x := e.(type) {
				case *ast.Ident:
					return info.Uses[x], ""
				case *ast.ParenExpr:
					return firstField(x.X)
				case *ast.StarExpr:
					return firstField(x.X)
				case *ast.IndexExpr:
					return firstField(x.X)
				case *ast.SliceExpr:
					return firstField(x.X)
				case *ast.UnaryExpr:
					if x.Op == token.AND {
						return firstField(x.X)
					}
				case *ast.SelectorExpr:
					r, f := firstField(x.X)
					if r != nil && f == "" {
						if sel, ok := info.Selections[x]; ok && sel.Kind() == types.FieldVal {
							return r, x.Sel.Name
						}
					}
					return r, f
				}
				return nil, ""
			}
			rec := func(e ast.Expr) {
				r, f := firstField(e)
				if r == nil || f == "" {
					return
				}
				if tn, ok := paramStruct[r]; ok {
					key := tn + "." + f
					if !seenIW[key] {
						seenIW[key] = true
						out.InstWrites = append(out.InstWrites, key)
					}
					if site := fn.name + " ~> " + key; !seenIW[site] {
						seenIW[site] = true
						out.InstWriteSites = append(out.InstWriteSites, site)
					}
				}
			}
			ast.Inspect(fn.decl.Body, func(n ast.Node) bool {
				switch x := n.(type) {
				case *ast.AssignStmt:
					if x.Tok != token.DEFINE {
						for _, l := range x.Lhs {
							rec(l)
						}
					}
				case *ast.IncDecStmt:
					rec(x.X)
				case *ast.RangeStmt:
					if x.Tok == token.ASSIGN {
						if x.Key != nil {
							rec(x.Key)
						}
						if x.Value != nil {
							rec(x.Value)
						}
					}
				case *ast.CallExpr:
					if id, ok := x.Fun.(*ast.Ident); ok && len(x.Args) > 0 {
						if _, isB := info.Uses[id].(*types.Builtin); isB && (id.Name == "copy" || id.Name == "delete" || id.Name == "clear") {
							rec(x.Args[0])
						}
					}
					var callee *types.Func
					var recv ast.Expr
					switch f := x.Fun.(type) {
					case *ast.Ident:
						callee, _ = info.Uses[f].(*types.Func)
					case *ast.SelectorExpr:
						if sel, ok := info.Selections[f]; ok {
							callee, _ = sel.Obj().(*types.Func)
							recv = f.X
						} else {
							callee, _ = info.Uses[f.Sel].(*types.Func)
						}
					}
					if byObj[callee] == nil {
						if se, ok := x.Fun.(*ast.SelectorExpr); ok && c18ExternalMutators[se.Sel.Name] {
							if _, isPkg := info.Uses[c18LeftmostIdent(se.X)].(*types.PkgName); !isPkg {
								rec(se.X) // this.cache.Store(...): sync.Map / sync.Pool / atomic.Value held in a field
							}
						}
					}
					if g := byObj[callee]; g != nil {
						idx := 0
						if g.decl.Recv != nil {
							if recv != nil && g.mutates[0] {
								rec(recv) // this.f.mutatingMethod()
							}
							idx = 1
						}
						for i, a := range x.Args {
							pi := idx + i
							if pi >= len(g.params) {
								pi = len(g.params) - 1
							}
							if pi >= 0 && g.mutates[pi] {
								rec(a)
							}
						}
					}
				}
				return true
			})
		}
		sort.Strings(out.InstWrites)
		sort.Strings(out.InstWriteSites)
	}
	sort.Strings(out.Escapes)
	{
		w := out.Escapes[:0]
		for i, x := range out.Escapes {
			if i == 0 || x != out.Escapes[i-1] {
				w = append(w, x)
			}
		}
		out.Escapes = w
	}
	sort.Strings(out.Writes)
	// de-duplicate
	w := out.Writes[:0]
	for i, x := range out.Writes {
		if i == 0 || x != out.Writes[i-1] {
			w = append(w, x)
		}
	}
	out.Writes = w
	s.extras(out)
	out.Errs = s.errs
	out.Notes = append(out.Notes, fmt.Sprintf("packages=%d functions=%d package-level-vars=%d init-time-functions-writing-globals=%d type-errors-ignored(stubbed std/x imports)=%d",
		len(s.pkgs), len(order), len(out.Vars), nInit, s.errs))
	return out, nil
}
