package c18work

// wp c18gen — cold-start phases and cache-revealing sequences of the C18 workload.
//
//   * ColdStart: the very FIRST use of every kind of operation in the process happens concurrently.  The jobs are grouped
//     by kind (symbology x variant); kind after kind (order shuffled by the seed), all K goroutines are held at a spinning
//     barrier and released together, and each runs the jobs of that kind (rotated by its index, so that the first job differs
//     between neighbours).  Phase 0 is the construction of the reader/writer instances themselves.  Nothing of the library
//     runs before (job construction and rendering of the Aztec matrices are plain data manipulation); the reference results
//     are computed by the caller AFTERWARDS.  Only a fresh process is cold: harness/cmd/c18race -cold, started several times.
//   * SequenceJobs: sequences that make process-wide caches visible — square then rectangular Data Matrix symbols of the
//     same height (a last-hit cache keyed on the height), QR then Data Matrix (the two GF(256) fields: a hoisted
//     Reed-Solomon encoder), Aztec symbols of all five fields WITH errors (hoisted decoders with scratch buffers).
//   * SequentialOrder: the reference in another order; results must not depend on it.

import (
	"fmt"
	"image"
	"runtime"
	"sort"
	"sync"
	"sync/atomic"

	"github.com/makiuchi-d/gozxing"
)

// SequenceJobs is the fixed block at the head of every job list.
func SequenceJobs(r *rng) []Job {
	low := "abcdefghijklmnopqrstuvwxyz"
	txt := func(n int) string {
		b := make([]byte, n)
		for i := range b {
			b[i] = low[r.intn(len(low))]
		}
		return string(b)
	}
	dm := func(n, shape int) Job {
		return Job{Format: gozxing.BarcodeFormat_DATA_MATRIX, Content: txt(n), Scale: 2 + r.intn(2), Photo: -1, Shape: shape}
	}
	jobs := []Job{
		dm(4, 1), dm(14, 2), // 12x12 then 12x26
		dm(5, 1), dm(20, 2), // 12x12 then 12x36
		dm(11, 1), dm(28, 2), // 16x16 then 16x36
		dm(12, 1), dm(45, 2), // 16x16 then 16x48
		dm(4, 2), dm(9, 2), // 8x18, 8x32 (no square of height 8)
		{Format: gozxing.BarcodeFormat_QR_CODE, Content: txt(30), Scale: 2, Photo: -1},
		dm(30, 0),
		{Format: gozxing.BarcodeFormat_QR_CODE, Content: digits(r, 40), Scale: 1, Photo: -1},
	}
	// one QR symbol per kind of ECI-selected text decoder (work.go QRCharsets): whatever object decodes the bytes of an
	// ECI segment must be the caller's own
	for _, cs := range QRCharsets {
		jobs = append(jobs, Job{Format: gozxing.BarcodeFormat_QR_CODE, Content: txt(6 + r.intn(20)), Scale: 1 + r.intn(2), Photo: -1, Charset: cs})
	}
	for i := range AztecSymbols {
		nd := 1 + r.intn(3)
		if AztecSymbols[i].Layers >= 23 {
			nd = 1 // 131x131: 1221 of 1224 codewords are data, one error is all it can correct
		}
		sc := 2 + r.intn(2)
		if AztecSymbols[i].Layers >= 9 {
			sc = 2 // 75x75 and 131x131 modules: keep the images small
		}
		jobs = append(jobs, Job{AztecSym: i + 1, NDamage: nd, Damage: r.u64(), Scale: sc, Photo: -1})
	}
	return jobs
}

// RenderAztec draws the stored module matrix with quiet zone; `n` data modules (outside the core, off the reference
// grid) and one module of the mode-message ring are inverted.  No library call.
func RenderAztec(s AztecSymbol, n int, seed uint64, scale int) *image.Gray {
	size := len(s.Rows)
	bits := make([][]bool, size)
	for y := range bits {
		bits[y] = make([]bool, size)
		for x := 0; x < size; x++ {
			bits[y][x] = s.Rows[y][x] == '1'
		}
	}
	c := size / 2
	ring := 7 // Chebyshev distance of the mode-message ring from the centre
	if s.Compact {
		ring = 5
	}
	if n > 0 {
		r := &rng{seed}
		// one mode-message module (top side, left of the middle: a data bit of the mode message in both kinds of symbol)
		x := c - 2 - r.intn(2)
		bits[c-ring][x] = !bits[c-ring][x]
		for k := 0; k < n; {
			x, y := r.intn(size), r.intn(size)
			dx, dy := x-c, y-c
			if dx < 0 {
				dx = -dx
			}
			if dy < 0 {
				dy = -dy
			}
			if (dx <= ring && dy <= ring) || (!s.Compact && (dx%16 == 0 || dy%16 == 0)) {
				continue
			}
			bits[y][x] = !bits[y][x]
			k++
		}
	}
	if scale < 1 {
		scale = 1
	}
	pad := 4 * scale
	w := size*scale + 2*pad
	g := image.NewGray(image.Rect(0, 0, w, w))
	for i := range g.Pix {
		g.Pix[i] = 255
	}
	for y := 0; y < size; y++ {
		for x := 0; x < size; x++ {
			if bits[y][x] {
				for dy := 0; dy < scale; dy++ {
					o := (pad+y*scale+dy)*g.Stride + pad + x*scale
					for dx := 0; dx < scale; dx++ {
						g.Pix[o+dx] = 0
					}
				}
			}
		}
	}
	return g
}

// Kind names the class of operation a job exercises first (one cold-start phase per kind).
func Kind(j Job) string {
	switch {
	case j.AztecSym > 0:
		return fmt.Sprintf("aztec-sym-%d", j.AztecSym)
	case j.Photo >= 0:
		return "aztec-photo"
	}
	k := fmt.Sprint(j.Format)
	switch j.Shape {
	case 1:
		k += "-square"
	case 2:
		k += "-rect"
	}
	if j.Addon != "" {
		k += fmt.Sprintf("-addon%d", len(j.Addon))
	}
	if j.Multi {
		k += "-multi"
	}
	return k
}

// ColdStart: see the comment at the top of the file.  Returns, per goroutine, the result of every job, and the
// order of the phases.
func ColdStart(jobs []Job, k, procs int, seed uint64) (results [][]string, phases []string) {
	old := runtime.GOMAXPROCS(procs)
	defer runtime.GOMAXPROCS(old)
	byKind := map[string][]int{}
	for i, j := range jobs {
		kd := Kind(j)
		if _, ok := byKind[kd]; !ok {
			phases = append(phases, kd)
		}
		byKind[kd] = append(byKind[kd], i)
	}
	sort.Strings(phases)
	r := &rng{seed*0x9E3779B97F4A7C15 + 0xC01D}
	for i := len(phases) - 1; i > 0; i-- {
		j := r.intn(i + 1)
		phases[i], phases[j] = phases[j], phases[i]
	}
	n := len(phases) + 1 // phase 0: construction of the instances
	arrived := make([]int32, n)
	gate := make([]int32, n)
	results = make([][]string, k)
	var wg sync.WaitGroup
	for g := 0; g < k; g++ {
		wg.Add(1)
		results[g] = make([]string, len(jobs))
		go func(g int) {
			defer wg.Done()
			var w *Worker
			for p := 0; p < n; p++ {
				atomic.AddInt32(&arrived[p], 1)
				for spins := 0; atomic.LoadInt32(&gate[p]) == 0; spins++ {
					if spins%256 == 255 {
						runtime.Gosched()
					}
				}
				if p == 0 {
					w = NewWorker()
					continue
				}
				idxs := byKind[phases[p-1]]
				for i := range idxs {
					idx := idxs[(i+g)%len(idxs)]
					results[g][idx] = w.Run(jobs[idx])
				}
			}
		}(g)
	}
	for p := 0; p < n; p++ {
		for spins := 0; atomic.LoadInt32(&arrived[p]) < int32(k); spins++ {
			if spins%64 == 63 {
				runtime.Gosched()
			}
		}
		atomic.StoreInt32(&gate[p], 1)
	}
	wg.Wait()
	return results, phases
}

// SequentialOrder is the reference computed in the given order of job indices by one fresh worker (result i belongs
// to job i).  Results must not depend on the order: a difference is state carried from call to call in the process.
func SequentialOrder(jobs []Job, order []int) []string {
	w := NewWorker()
	out := make([]string, len(jobs))
	for _, i := range order {
		out[i] = w.Run(jobs[i])
	}
	return out
}

// Orders returns the reversed order and a seed-derived shuffle of 0..n-1.
func Orders(n int, seed uint64) (rev, shuf []int) {
	rev = make([]int, n)
	shuf = make([]int, n)
	for i := 0; i < n; i++ {
		rev[i] = n - 1 - i
		shuf[i] = i
	}
	r := &rng{seed ^ 0x5EED0FDE75}
	for i := n - 1; i > 0; i-- {
		j := r.intn(i + 1)
		shuf[i], shuf[j] = shuf[j], shuf[i]
	}
	return
}
