package c18work

// wp c18gen — SharedDigest: a fingerprint of the library's shared init-time tables as seen through the exported API
// (the seven Galois fields' exp/log tables, the 40 QR versions with their block structure, the Data Matrix symbol table,
// the ECI registry).  The dynamic counterpart of the theorem `library_shared_unchanged`: the digest taken after the
// cold start must equal the digest taken after all concurrent runs, and the digests of all fresh processes must agree.
// (Taking it BEFORE the cold start would warm the tables up, so it is never taken first.)

import (
	"fmt"
	"hash/fnv"

	"github.com/makiuchi-d/gozxing/common"
	"github.com/makiuchi-d/gozxing/common/reedsolomon"
	dmencoder2 "github.com/makiuchi-d/gozxing/datamatrix/encoder"
	qrdecoder "github.com/makiuchi-d/gozxing/qrcode/decoder"
)

func SharedDigest() (out string) {
	defer func() {
		if r := recover(); r != nil {
			out = fmt.Sprint("PANIC ", r)
		}
	}()
	h := fnv.New64a()
	put := func(xs ...int) {
		for _, x := range xs {
			fmt.Fprintf(h, "%d,", x)
		}
	}
	for _, f := range []*reedsolomon.GenericGF{reedsolomon.GenericGF_AZTEC_DATA_12, reedsolomon.GenericGF_AZTEC_DATA_10,
		reedsolomon.GenericGF_AZTEC_DATA_6, reedsolomon.GenericGF_AZTEC_PARAM, reedsolomon.GenericGF_QR_CODE_FIELD_256,
		reedsolomon.GenericGF_DATA_MATRIX_FIELD_256, reedsolomon.GenericGF_AZTEC_DATA_8, reedsolomon.GenericGF_MAXICODE_FIELD_64} {
		n := f.GetSize()
		put(n, f.GetGeneratorBase())
		for i := 0; i < n; i++ {
			put(f.Exp(i))
		}
		for i := 1; i < n; i++ {
			l, _ := f.Log(i)
			inv, _ := f.Inverse(i)
			put(l, inv)
		}
		put(f.GetZero().GetCoefficients()...)
		put(f.GetOne().GetCoefficients()...)
	}
	for n := 1; n <= 40; n++ {
		v, err := qrdecoder.Version_GetVersionForNumber(n)
		if err != nil {
			put(-1)
			continue
		}
		put(v.GetVersionNumber(), v.GetTotalCodewords(), v.GetDimensionForVersion())
		put(v.GetAlignmentPatternCenters()...)
		for _, lv := range []qrdecoder.ErrorCorrectionLevel{qrdecoder.ErrorCorrectionLevel_L, qrdecoder.ErrorCorrectionLevel_M, qrdecoder.ErrorCorrectionLevel_Q, qrdecoder.ErrorCorrectionLevel_H} {
			b := v.GetECBlocksForLevel(lv)
			put(b.GetECCodewordsPerBlock(), b.GetNumBlocks(), b.GetTotalECCodewords())
			for _, e := range b.GetECBlocks() {
				put(e.GetCount(), e.GetDataCodewords())
			}
		}
	}
	for _, shape := range []dmencoder2.SymbolShapeHint{dmencoder2.SymbolShapeHint_FORCE_NONE, dmencoder2.SymbolShapeHint_FORCE_SQUARE, dmencoder2.SymbolShapeHint_FORCE_RECTANGLE} {
		for n := 1; n <= 1558; n += 3 {
			si, err := dmencoder2.SymbolInfo_Lookup(n, shape, nil, nil, false)
			if err != nil || si == nil {
				put(-1)
				continue
			}
			put(si.GetSymbolWidth(), si.GetSymbolHeight(), si.GetDataCapacity(), si.GetErrorCodewords(), si.GetInterleavedBlockCount(),
				si.GetDataLengthForInterleavedBlock(1), si.GetErrorLengthForInterleavedBlock(1))
		}
	}
	for v := 0; v < 40; v++ {
		e, err := common.GetCharacterSetECIByValue(v)
		if err != nil || e == nil {
			put(-1)
			continue
		}
		put(e.GetValue())
		fmt.Fprint(h, e.Name(), ";")
	}
	for _, nm := range []string{"UTF-8", "Shift_JIS", "ISO-8859-1", "Cp437", "GB18030", "nonsense"} {
		e, ok := common.GetCharacterSetECIByName(nm)
		if ok && e != nil {
			put(e.GetValue())
		} else {
			put(-2)
		}
	}
	return fmt.Sprintf("%016x", h.Sum64())
}
