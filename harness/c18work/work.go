// Package c18work is the C18 workload: encode/decode operations over all symbologies executed by
// goroutines that own their reader and writer instances.  Shared by the in-process runner
// (harness suite C18) and the race-detector binary (harness/cmd/c18race).
package c18work

import (
	"fmt"
	"image"
	_ "image/png"
	"os"
	"path/filepath"
	"runtime"
	"sort"
	"sync"

	"github.com/makiuchi-d/gozxing"
	"github.com/makiuchi-d/gozxing/aztec"
	"github.com/makiuchi-d/gozxing/datamatrix"
	dmencoder "github.com/makiuchi-d/gozxing/datamatrix/encoder"
	"github.com/makiuchi-d/gozxing/oned"
	"github.com/makiuchi-d/gozxing/qrcode"
)

type rng struct{ s uint64 }

func (r *rng) u64() uint64 {
	r.s += 0x9E3779B97F4A7C15
	z := r.s
	z = (z ^ (z >> 30)) * 0xBF58476D1CE4E5B9
	z = (z ^ (z >> 27)) * 0x94D049BB133111EB
	return z ^ (z >> 31)
}
func (r *rng) intn(n int) int { return int(r.u64() % uint64(n)) }

// Job is one write-then-read round trip (or a decode of a fixed image) described by data only.
type Job struct {
	Format  gozxing.BarcodeFormat
	Content string
	Scale   int
	Photo   int // >= 0: index into Photos (Aztec decode), Format/Content unused
	Addon   string // UPC/EAN only: digits of an EAN-2 / EAN-5 add-on drawn to the right of the symbol ("" = none)
	Multi   bool   // read with the worker's multi-format reader instead of the symbology's own reader
	// ---- wp c18gen ----
	Shape    int    // Data Matrix only: 0 = no hint, 1 = FORCE_SQUARE, 2 = FORCE_RECTANGLE (square and rectangular symbols of equal height share size-keyed look-ups)
	AztecSym int    // > 0: render AztecSymbols[AztecSym-1] with NDamage data modules and one mode-message module flipped, decode with the worker's Aztec reader
	NDamage  int    // number of flipped data modules (every one is a Reed-Solomon error the decoder has to correct)
	Damage   uint64 // seed of the flipped positions
	Charset  string // QR only: CHARACTER_SET hint for the writer (the symbol then carries an ECI designator and the reader
	//                 uses that charset's decoder: several of them — UTF-16, ISO-2022 style — are stateful objects)
}

// QRCharsets: every kind of text decoder the ECI registry can select (single byte, multi-byte table driven, stateful).
var QRCharsets = []string{"UTF-16BE", "UTF-8", "Shift_JIS", "ISO-8859-1", "ISO-8859-5", "windows-1252", "GB18030", "Big5", "EUC-KR", "US-ASCII", "Cp437"}

// ---- EAN-2 / EAN-5 add-on symbols (ISO/IEC 15420, 4.3): start 1011, digits in set A (L) or B (G), separated by 01 ----
var setA = []string{"0001101", "0011001", "0010011", "0111101", "0100011", "0110001", "0101111", "0111011", "0110111", "0001011"}
var ean5Parity = []string{"GGLLL", "GLGLL", "GLLGL", "GLLLG", "LGGLL", "LLGGL", "LLLGG", "LGLGL", "LGLLG", "LLGLG"}

func setB(d int) string { // set B = mirrored complement of set A
	a := setA[d]
	b := make([]byte, 7)
	for i := 0; i < 7; i++ {
		b[i] = '0' + ('1' - a[6-i])
	}
	return string(b)
}

func addonModules(ds string) string {
	var par string
	if len(ds) == 2 {
		par = []string{"LL", "LG", "GL", "GG"}[(int(ds[0]-'0')*10+int(ds[1]-'0'))%4]
	} else {
		sum := 0
		for i := 0; i < 5; i++ {
			w := 3
			if i%2 == 1 {
				w = 9
			}
			sum += w * int(ds[i]-'0')
		}
		par = ean5Parity[sum%10]
	}
	out := "1011"
	for i := range ds {
		if i > 0 {
			out += "01"
		}
		if par[i] == 'G' {
			out += setB(int(ds[i] - '0'))
		} else {
			out += setA[ds[i]-'0']
		}
	}
	return out
}

func withAddon(m *gozxing.BitMatrix, ds string) *gozxing.BitMatrix {
	add := addonModules(ds)
	gap := 9
	n, _ := gozxing.NewBitMatrix(m.GetWidth()+gap+len(add)+10, m.GetHeight())
	for y := 0; y < m.GetHeight(); y++ {
		for x := 0; x < m.GetWidth(); x++ {
			if m.Get(x, y) {
				n.Set(x, y)
			}
		}
		for i := range add {
			if add[i] == '1' {
				n.Set(m.GetWidth()+gap+i, y)
			}
		}
	}
	return n
}

func isUPCEAN(f gozxing.BarcodeFormat) bool {
	return f == gozxing.BarcodeFormat_EAN_13 || f == gozxing.BarcodeFormat_EAN_8 || f == gozxing.BarcodeFormat_UPC_A || f == gozxing.BarcodeFormat_UPC_E
}

func is1D(f gozxing.BarcodeFormat) bool {
	return f != gozxing.BarcodeFormat_QR_CODE && f != gozxing.BarcodeFormat_DATA_MATRIX
}

// metaString renders the result metadata in a canonical order (values are strings, ints or byte segments).
func metaString(res *gozxing.Result) string {
	md := res.GetResultMetadata()
	keys := make([]int, 0, len(md))
	for k := range md {
		keys = append(keys, int(k))
	}
	sort.Ints(keys)
	out := ""
	for _, k := range keys {
		out += fmt.Sprintf(" %v=%v", gozxing.ResultMetadataType(k), md[gozxing.ResultMetadataType(k)])
	}
	return out
}

var Formats = []gozxing.BarcodeFormat{
	gozxing.BarcodeFormat_QR_CODE, gozxing.BarcodeFormat_DATA_MATRIX,
	gozxing.BarcodeFormat_CODE_39, gozxing.BarcodeFormat_CODE_93, gozxing.BarcodeFormat_CODE_128, gozxing.BarcodeFormat_ITF,
	gozxing.BarcodeFormat_CODABAR, gozxing.BarcodeFormat_EAN_13, gozxing.BarcodeFormat_EAN_8, gozxing.BarcodeFormat_UPC_A, gozxing.BarcodeFormat_UPC_E,
}

func digits(r *rng, n int) string {
	b := make([]byte, n)
	for i := range b {
		b[i] = byte('0' + r.intn(10))
	}
	return string(b)
}

func from(r *rng, alpha string, lo, hi int) string {
	n := lo + r.intn(hi-lo+1)
	b := make([]byte, n)
	for i := range b {
		b[i] = alpha[r.intn(len(alpha))]
	}
	return string(b)
}

func upcCheck(s string) string {
	sum := 0
	for i := len(s) - 1; i >= 0; i -= 2 {
		sum += int(s[i] - '0')
	}
	sum *= 3
	for i := len(s) - 2; i >= 0; i -= 2 {
		sum += int(s[i] - '0')
	}
	return string(rune('0' + (1000-sum)%10))
}

// Content returns content the writer of f accepts.
func Content(r *rng, f gozxing.BarcodeFormat) string {
	switch f {
	case gozxing.BarcodeFormat_QR_CODE:
		switch r.intn(3) {
		case 0:
			return digits(r, 1+r.intn(60))
		case 1:
			return from(r, "0123456789ABCDEFGHIJKLMNOPQRSTUVWXYZ $%*+-./:", 1, 50)
		}
		return from(r, "abcdefghijklmnopqrstuvwxyzABCXYZ0123456789 ,.;:!?/", 1, 80)
	case gozxing.BarcodeFormat_DATA_MATRIX:
		return from(r, "abcdefghijklmnopqrstuvwxyzABCXYZ0123456789 ,.", 1, 40)
	case gozxing.BarcodeFormat_CODE_39, gozxing.BarcodeFormat_CODE_93:
		return from(r, "0123456789ABCDEFGHIJKLMNOPQRSTUVWXYZ-. ", 1, 14)
	case gozxing.BarcodeFormat_CODE_128:
		return from(r, "0123456789ABCabc-./", 1, 18)
	case gozxing.BarcodeFormat_ITF:
		return digits(r, 2*(1+r.intn(8)))
	case gozxing.BarcodeFormat_CODABAR:
		return "A" + from(r, "0123456789-$", 1, 12) + "B"
	case gozxing.BarcodeFormat_EAN_13:
		s := digits(r, 12)
		return s + upcCheck(s)
	case gozxing.BarcodeFormat_EAN_8:
		s := digits(r, 7)
		return s + upcCheck(s)
	case gozxing.BarcodeFormat_UPC_A:
		s := digits(r, 11)
		return s + upcCheck(s)
	case gozxing.BarcodeFormat_UPC_E:
		return "0" + digits(r, 6)
	}
	return "0"
}

// Photos are fixed grey images decoded with the Aztec reader (the library has no Aztec writer).
var Photos []*image.Gray

// LoadPhotos reads a few Aztec test images of the repository.
func LoadPhotos(repo string) int {
	Photos = nil
	for _, n := range []string{"abc-37x37.png", "abc-19x19C.png", "7.png", "tag.png", "hello.png", "lorem-075x075.png"} {
		fh, err := os.Open(filepath.Join(repo, "aztec", "testdata", "aztec-1", n))
		if err != nil {
			continue
		}
		img, _, err := image.Decode(fh)
		fh.Close()
		if err != nil {
			continue
		}
		b := img.Bounds()
		g := image.NewGray(image.Rect(0, 0, b.Dx(), b.Dy()))
		for y := 0; y < b.Dy(); y++ {
			for x := 0; x < b.Dx(); x++ {
				r, gg, bb, a := img.At(b.Min.X+x, b.Min.Y+y).RGBA()
				lum := (r + 2*gg + bb) * 255 / (4 * 0xffff)
				g.Pix[y*g.Stride+x] = byte((lum*a + (0xffff-a)*255) / 0xffff)
			}
		}
		Photos = append(Photos, g)
	}
	return len(Photos)
}

// Jobs derives n jobs from the seed, cycling through every symbology.
func Jobs(seed uint64, n int) []Job {
	r := &rng{seed*0x9E3779B97F4A7C15 + 77}
	jobs := make([]Job, 0, n+len(AztecSymbols)+12)
	jobs = append(jobs, SequenceJobs(r)...)
	for i := 0; i < n; i++ {
		k := i % (len(Formats) + 1)
		if k == len(Formats) {
			if len(Photos) > 0 {
				jobs = append(jobs, Job{Photo: r.intn(len(Photos))})
			}
			continue
		}
		f := Formats[k]
		j := Job{Format: f, Content: Content(r, f), Scale: 1 + r.intn(3), Photo: -1}
		if f == gozxing.BarcodeFormat_QR_CODE && r.intn(2) == 0 {
			j.Charset = QRCharsets[r.intn(len(QRCharsets))]
			if j.Charset == "UTF-16BE" || r.intn(2) == 0 {
				j.Content = from(r, "abcdefghijklmnopqrstuvwxyz ,.-", 3, 40) // byte mode, representable everywhere
			}
		}
		if isUPCEAN(f) && r.intn(3) != 0 {
			j.Addon = digits(r, []int{2, 5, 5}[r.intn(3)])
		}
		if isUPCEAN(f) && r.intn(4) == 0 {
			j.Multi = true
		}
		jobs = append(jobs, j)
	}
	return jobs
}

// Worker owns one writer and one reader instance per symbology: the "own instances" of the property.
type Worker struct {
	writers map[gozxing.BarcodeFormat]gozxing.Writer
	readers map[gozxing.BarcodeFormat]gozxing.Reader
	aztec   gozxing.Reader
	multi1D gozxing.Reader // MultiFormatUPCEANReader: owns one reader of each UPC/EAN symbology
}

func NewWorker() *Worker {
	w := &Worker{writers: map[gozxing.BarcodeFormat]gozxing.Writer{}, readers: map[gozxing.BarcodeFormat]gozxing.Reader{}}
	w.writers[gozxing.BarcodeFormat_QR_CODE] = qrcode.NewQRCodeWriter()
	w.writers[gozxing.BarcodeFormat_DATA_MATRIX] = datamatrix.NewDataMatrixWriter()
	w.writers[gozxing.BarcodeFormat_CODE_39] = oned.NewCode39Writer()
	w.writers[gozxing.BarcodeFormat_CODE_93] = oned.NewCode93Writer()
	w.writers[gozxing.BarcodeFormat_CODE_128] = oned.NewCode128Writer()
	w.writers[gozxing.BarcodeFormat_ITF] = oned.NewITFWriter()
	w.writers[gozxing.BarcodeFormat_CODABAR] = oned.NewCodaBarWriter()
	w.writers[gozxing.BarcodeFormat_EAN_13] = oned.NewEAN13Writer()
	w.writers[gozxing.BarcodeFormat_EAN_8] = oned.NewEAN8Writer()
	w.writers[gozxing.BarcodeFormat_UPC_A] = oned.NewUPCAWriter()
	w.writers[gozxing.BarcodeFormat_UPC_E] = oned.NewUPCEWriter()
	w.readers[gozxing.BarcodeFormat_QR_CODE] = qrcode.NewQRCodeReader()
	w.readers[gozxing.BarcodeFormat_DATA_MATRIX] = datamatrix.NewDataMatrixReader()
	w.readers[gozxing.BarcodeFormat_CODE_39] = oned.NewCode39Reader()
	w.readers[gozxing.BarcodeFormat_CODE_93] = oned.NewCode93Reader()
	w.readers[gozxing.BarcodeFormat_CODE_128] = oned.NewCode128Reader()
	w.readers[gozxing.BarcodeFormat_ITF] = oned.NewITFReader()
	w.readers[gozxing.BarcodeFormat_CODABAR] = oned.NewCodaBarReader()
	w.readers[gozxing.BarcodeFormat_EAN_13] = oned.NewEAN13Reader()
	w.readers[gozxing.BarcodeFormat_EAN_8] = oned.NewEAN8Reader()
	w.readers[gozxing.BarcodeFormat_UPC_A] = oned.NewUPCAReader()
	w.readers[gozxing.BarcodeFormat_UPC_E] = oned.NewUPCEReader()
	w.aztec = aztec.NewAztecReader()
	w.multi1D = oned.NewMultiFormatUPCEANReader(nil)
	return w
}

func render(m *gozxing.BitMatrix, k int) *image.Gray {
	pad := 4 * k
	w, h := m.GetWidth()*k+2*pad, m.GetHeight()*k+2*pad
	g := image.NewGray(image.Rect(0, 0, w, h))
	for i := range g.Pix {
		g.Pix[i] = 255
	}
	for y := 0; y < m.GetHeight(); y++ {
		for x := 0; x < m.GetWidth(); x++ {
			if m.Get(x, y) {
				for dy := 0; dy < k; dy++ {
					o := (pad+y*k+dy)*g.Stride + pad + x*k
					for dx := 0; dx < k; dx++ {
						g.Pix[o+dx] = 0
					}
				}
			}
		}
	}
	return g
}

func hashMatrix(m *gozxing.BitMatrix) uint64 {
	h := uint64(1469598103934665603)
	for y := 0; y < m.GetHeight(); y++ {
		for x := 0; x < m.GetWidth(); x++ {
			if m.Get(x, y) {
				h ^= uint64(y*4099+x) + 1
			}
			h *= 1099511628211
		}
	}
	return h
}

// Run executes one job on the worker's private instances and returns a canonical result line.
func (w *Worker) Run(j Job) (out string) {
	defer func() {
		if r := recover(); r != nil {
			out = fmt.Sprint("PANIC ", r)
		}
	}()
	if j.Photo >= 0 {
		bmp, err := gozxing.NewBinaryBitmapFromImage(Photos[j.Photo])
		if err != nil {
			return "bitmap-error"
		}
		res, err := w.aztec.Decode(bmp, nil)
		if err != nil {
			return "aztec-err:" + err.Error()
		}
		return "aztec:" + res.GetText()
	}
	if j.AztecSym > 0 {
		bmp, err := gozxing.NewBinaryBitmapFromImage(RenderAztec(AztecSymbols[j.AztecSym-1], j.NDamage, j.Damage, j.Scale))
		if err != nil {
			return "bitmap-error"
		}
		res, err := w.aztec.Decode(bmp, nil)
		if err != nil {
			return fmt.Sprintf("aztecsym %d damage=%d/%x err:%s", j.AztecSym, j.NDamage, j.Damage, err.Error())
		}
		return fmt.Sprintf("aztecsym %d damage=%d/%x text=%q meta=[%s]", j.AztecSym, j.NDamage, j.Damage, res.GetText(), metaString(res))
	}
	height := 0
	if j.Format != gozxing.BarcodeFormat_QR_CODE && j.Format != gozxing.BarcodeFormat_DATA_MATRIX {
		height = 12
	}
	var hints map[gozxing.EncodeHintType]interface{}
	switch j.Shape {
	case 1:
		hints = map[gozxing.EncodeHintType]interface{}{gozxing.EncodeHintType_DATA_MATRIX_SHAPE: dmencoder.SymbolShapeHint_FORCE_SQUARE}
	case 2:
		hints = map[gozxing.EncodeHintType]interface{}{gozxing.EncodeHintType_DATA_MATRIX_SHAPE: dmencoder.SymbolShapeHint_FORCE_RECTANGLE}
	}
	if j.Charset != "" {
		hints = map[gozxing.EncodeHintType]interface{}{gozxing.EncodeHintType_CHARACTER_SET: j.Charset}
	}
	m, err := w.writers[j.Format].Encode(j.Content, j.Format, 0, height, hints)
	if err != nil {
		return "write-err:" + err.Error()
	}
	if j.Addon != "" {
		m = withAddon(m, j.Addon)
	}
	img := render(m, j.Scale)
	bmp, err := gozxing.NewBinaryBitmapFromImage(img)
	if err != nil {
		return "bitmap-error"
	}
	rd := w.readers[j.Format]
	if j.Multi {
		rd = w.multi1D
	}
	res, err := rd.Decode(bmp, nil)
	via := ""
	if err != nil && j.Format == gozxing.BarcodeFormat_DATA_MATRIX {
		// the detector gives up on many small clean symbols; the pure-barcode path still runs parser, version look-up and
		// Reed-Solomon decoder on them (a deterministic function of the job, like everything else here)
		via = " detect-err:" + err.Error() + " pure:"
		res, err = rd.Decode(bmp, map[gozxing.DecodeHintType]interface{}{gozxing.DecodeHintType_PURE_BARCODE: true})
	}
	if err != nil {
		return fmt.Sprintf("%v %dx%d%s m=%x read-err:%s", j.Format, m.GetWidth(), m.GetHeight(), via, hashMatrix(m), err.Error())
	}
	pts := ""
	for _, p := range res.GetResultPoints() {
		if p != nil {
			pts += fmt.Sprintf("(%.1f,%.1f)", p.GetX(), p.GetY())
		}
	}
	return fmt.Sprintf("%v %dx%d%s m=%x text=%q fmt=%v meta=[%s] pts=%s", j.Format, m.GetWidth(), m.GetHeight(), via, hashMatrix(m), res.GetText(), res.GetBarcodeFormat(), metaString(res), pts)
}

// Sequential is the reference: one worker, one goroutine.
func Sequential(jobs []Job) []string {
	w := NewWorker()
	out := make([]string, len(jobs))
	for i, j := range jobs {
		out[i] = w.Run(j)
	}
	return out
}

// Concurrent runs K goroutines; goroutine g owns a Worker and executes the whole job list `reps`
// times starting at a goroutine-specific offset (so that different symbologies overlap in time),
// released together by a barrier after a randomised spin.  It returns, per goroutine, the result
// of every job (last pass) and a list of results that changed between passes of one goroutine.
// Callers compare with Sequential computed AFTERWARDS, so that the concurrent phase also covers
// the cold start (first use of every table / lazily built structure).
func Concurrent(jobs []Job, k, reps, procs int, seed uint64) (results [][]string, unstable []string) {
	old := runtime.GOMAXPROCS(procs)
	defer runtime.GOMAXPROCS(old)
	var mu sync.Mutex
	var wg sync.WaitGroup
	results = make([][]string, k)
	start := make(chan struct{})
	for g := 0; g < k; g++ {
		wg.Add(1)
		go func(g int) {
			defer wg.Done()
			r := &rng{seed ^ uint64(g)*0xD1B54A32D192ED03}
			w := NewWorker()
			off := r.intn(len(jobs))
			spin := r.intn(2000)
			res := make([]string, len(jobs))
			<-start
			x := 0
			for i := 0; i < spin; i++ {
				x += i
			}
			_ = x
			for rep := 0; rep < reps; rep++ {
				for i := range jobs {
					idx := (i + off) % len(jobs)
					got := w.Run(jobs[idx])
					if rep > 0 && got != res[idx] {
						mu.Lock()
						if len(unstable) < 20 {
							unstable = append(unstable, fmt.Sprintf("job %d goroutine %d pass %d: got %s, earlier pass %s", idx, g, rep, got, res[idx]))
						}
						mu.Unlock()
					}
					res[idx] = got
				}
			}
			results[g] = res
		}(g)
	}
	close(start)
	wg.Wait()
	return results, unstable
}

// Compare lists the concurrent results that differ from the sequential ones.
func Compare(results [][]string, want []string) []string {
	var bad []string
	for g, res := range results {
		for idx, got := range res {
			if got != want[idx] && len(bad) < 20 {
				bad = append(bad, fmt.Sprintf("job %d goroutine %d: got %s want %s", idx, g, got, want[idx]))
			}
		}
	}
	return bad
}
