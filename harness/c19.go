package main

// C19 — perspective mapping and grid sampling (common/perspective_transform.go, grid_sampler.go,
// default_grid_sampler.go) vs. the Lean model over exact rationals and vs. the property's own oracle
// (independent exact projective map through the four point pairs, computed here with math/big).

import (
	"fmt"
	"math"
	"math/big"
	"strings"

	"github.com/makiuchi-d/gozxing"
	"github.com/makiuchi-d/gozxing/common"
)

func init() { suites["C19"] = runC19 }

// ---------- exact arithmetic helpers ----------

func c19R(f float64) *big.Rat { return new(big.Rat).SetFloat64(f) }

func c19RatStr(f float64) string {
	r := new(big.Rat).SetFloat64(f)
	if r == nil {
		return "nan"
	}
	return r.Num().String() + "/" + r.Denom().String()
}

func c19Floats(fs []float64) string {
	if len(fs) == 0 {
		return "-"
	}
	ss := make([]string, len(fs))
	for i, f := range fs {
		ss[i] = c19RatStr(f)
	}
	return strings.Join(ss, ",")
}

func c19Finite(fs []float64) bool {
	for _, f := range fs {
		if math.IsNaN(f) || math.IsInf(f, 0) {
			return false
		}
	}
	return true
}

// c19Proj is the projective map (x,y) -> ((a x + b y + c)/(g x + h y + i), (d x + e y + f)/(g x + h y + i)), i = 1.
type c19Proj struct{ k [8]*big.Rat }

// c19Solve computes the unique projective map through four point pairs by Gaussian elimination of the
// 8x8 system (normalisation i = 1).  nil when the system is singular (degenerate quadrilateral, or the
// true map sends the origin to infinity).
func c19Solve(src, dst []float64) *c19Proj {
	var m [8][9]*big.Rat
	for p := 0; p < 4; p++ {
		x, y := c19R(src[2*p]), c19R(src[2*p+1])
		X, Y := c19R(dst[2*p]), c19R(dst[2*p+1])
		z, o := new(big.Rat), big.NewRat(1, 1)
		nxX := new(big.Rat).Neg(new(big.Rat).Mul(x, X))
		nyX := new(big.Rat).Neg(new(big.Rat).Mul(y, X))
		nxY := new(big.Rat).Neg(new(big.Rat).Mul(x, Y))
		nyY := new(big.Rat).Neg(new(big.Rat).Mul(y, Y))
		m[2*p] = [9]*big.Rat{x, y, o, z, z, z, nxX, nyX, X}
		m[2*p+1] = [9]*big.Rat{z, z, z, x, y, o, nxY, nyY, Y}
	}
	for r := 0; r < 8; r++ {
		for c := 0; c < 9; c++ {
			m[r][c] = new(big.Rat).Set(m[r][c])
		}
	}
	for col := 0; col < 8; col++ {
		piv := -1
		for r := col; r < 8; r++ {
			if m[r][col].Sign() != 0 {
				piv = r
				break
			}
		}
		if piv < 0 {
			return nil
		}
		m[col], m[piv] = m[piv], m[col]
		inv := new(big.Rat).Inv(m[col][col])
		for c := col; c < 9; c++ {
			m[col][c].Mul(m[col][c], inv)
		}
		for r := 0; r < 8; r++ {
			if r == col || m[r][col].Sign() == 0 {
				continue
			}
			f := new(big.Rat).Set(m[r][col])
			for c := col; c < 9; c++ {
				m[r][c].Sub(m[r][c], new(big.Rat).Mul(f, m[col][c]))
			}
		}
	}
	var p c19Proj
	for i := 0; i < 8; i++ {
		p.k[i] = m[i][8]
	}
	return &p
}

// at evaluates the map exactly; ok=false when the denominator vanishes.
func (p *c19Proj) at(x, y *big.Rat) (X, Y *big.Rat, ok bool) {
	t := new(big.Rat)
	den := new(big.Rat).Mul(p.k[6], x)
	den.Add(den, t.Mul(p.k[7], y))
	den.Add(den, big.NewRat(1, 1))
	if den.Sign() == 0 {
		return nil, nil, false
	}
	nx := new(big.Rat).Mul(p.k[0], x)
	nx.Add(nx, new(big.Rat).Mul(p.k[1], y))
	nx.Add(nx, p.k[2])
	ny := new(big.Rat).Mul(p.k[3], x)
	ny.Add(ny, new(big.Rat).Mul(p.k[4], y))
	ny.Add(ny, p.k[5])
	return nx.Quo(nx, den), ny.Quo(ny, den), true
}

// ---------- quadrilateral families ----------

var c19Families = []string{"axis", "rotated", "sheared", "perspective"}

func c19Round(f float64, fine bool) float64 {
	if fine {
		return f
	}
	return math.Round(f*16) / 16
}

func c19Uniform(r *Rng, lo, hi float64) float64 {
	return lo + (hi-lo)*float64(r.U64()>>11)/float64(1<<53)
}

// c19UnitQuad returns the image of the unit square corners (0,0),(1,0),(1,1),(0,1) under a random map of
// the family, normalised so that its bounding box is [0,1]x[0,1]; always a convex quadrilateral with
// the corner order preserved.
func c19UnitQuad(r *Rng, fam string) [8]float64 {
	sq := [8]float64{0, 0, 1, 0, 1, 1, 0, 1}
	q := sq
	switch fam {
	case "axis":
	case "rotated":
		th := c19Uniform(r, 0, 2*math.Pi)
		if r.Chance(0.25) {
			th = float64(r.Intn(4)) * math.Pi / 2
		}
		asp := c19Uniform(r, 0.5, 2)
		for i := 0; i < 4; i++ {
			x, y := (sq[2*i]-0.5)*asp, sq[2*i+1]-0.5
			q[2*i] = x*math.Cos(th) - y*math.Sin(th)
			q[2*i+1] = x*math.Sin(th) + y*math.Cos(th)
		}
	case "sheared":
		kx, ky := c19Uniform(r, -0.8, 0.8), c19Uniform(r, -0.5, 0.5)
		for i := 0; i < 4; i++ {
			x, y := sq[2*i], sq[2*i+1]
			q[2*i] = x + kx*y
			q[2*i+1] = y + ky*x
		}
	default: // perspective: projective warp with positive denominators, then a rotation
		g, h := c19Uniform(r, -0.35, 0.9), c19Uniform(r, -0.35, 0.9)
		kx := c19Uniform(r, -0.3, 0.3)
		th := c19Uniform(r, 0, 2*math.Pi)
		for i := 0; i < 4; i++ {
			x, y := sq[2*i], sq[2*i+1]
			d := 1 + g*x + h*y
			u, v := (x+kx*y)/d-0.5, y/d-0.5
			q[2*i] = u*math.Cos(th) - v*math.Sin(th)
			q[2*i+1] = u*math.Sin(th) + v*math.Cos(th)
		}
	}
	minx, maxx, miny, maxy := q[0], q[0], q[1], q[1]
	for i := 1; i < 4; i++ {
		minx, maxx = math.Min(minx, q[2*i]), math.Max(maxx, q[2*i])
		miny, maxy = math.Min(miny, q[2*i+1]), math.Max(maxy, q[2*i+1])
	}
	for i := 0; i < 4; i++ {
		q[2*i] = (q[2*i] - minx) / (maxx - minx)
		q[2*i+1] = (q[2*i+1] - miny) / (maxy - miny)
	}
	return q
}

// c19Convex: strictly convex, consistently oriented, every corner turn at least `minSin` (sine of the angle)
func c19Convex(q []float64, minSin float64) bool {
	sign := 0.0
	for i := 0; i < 4; i++ {
		ax, ay := q[2*((i+1)%4)]-q[2*i], q[2*((i+1)%4)+1]-q[2*i+1]
		bx, by := q[2*((i+2)%4)]-q[2*((i+1)%4)], q[2*((i+2)%4)+1]-q[2*((i+1)%4)+1]
		cr := ax*by - ay*bx
		la, lb := math.Hypot(ax, ay), math.Hypot(bx, by)
		if la == 0 || lb == 0 || math.Abs(cr) < minSin*la*lb {
			return false
		}
		if sign == 0 {
			sign = cr
		} else if (sign > 0) != (cr > 0) {
			return false
		}
	}
	return true
}

// c19PlaceQuad maps a unit quad into the box [x0,x1]x[y0,y1] and rounds the corners.
func c19PlaceQuad(u [8]float64, x0, y0, x1, y1 float64, fine bool) []float64 {
	q := make([]float64, 8)
	for i := 0; i < 4; i++ {
		q[2*i] = c19Round(x0+u[2*i]*(x1-x0), fine)
		q[2*i+1] = c19Round(y0+u[2*i+1]*(y1-y0), fine)
	}
	return q
}

func c19RandQuad(r *Rng, fam string, size float64) []float64 {
	for {
		u := c19UnitQuad(r, fam)
		ox, oy := c19Uniform(r, -size, size), c19Uniform(r, -size, size)
		w, h := c19Uniform(r, 0.3, 1)*size, c19Uniform(r, 0.3, 1)*size
		q := c19PlaceQuad(u, ox, oy, ox+w, oy+h, r.Chance(0.2))
		if c19Convex(q, 0.05) {
			return q
		}
	}
}

func c19Scale(q []float64) float64 {
	minx, maxx, miny, maxy := q[0], q[0], q[1], q[1]
	m := 1.0
	for i := 0; i < len(q)/2; i++ {
		minx, maxx = math.Min(minx, q[2*i]), math.Max(maxx, q[2*i])
		miny, maxy = math.Min(miny, q[2*i+1]), math.Max(maxy, q[2*i+1])
		m = math.Max(m, math.Max(math.Abs(q[2*i]), math.Abs(q[2*i+1])))
	}
	return math.Max(m, math.Max(maxx-minx, maxy-miny))
}

// ---------- transform suites ----------

func c19FmtG(fs []float64) string {
	ss := make([]string, len(fs))
	for i, f := range fs {
		ss[i] = fmt.Sprintf("%.17g", f)
	}
	if len(ss) == 0 {
		return "-"
	}
	return strings.Join(ss, ",")
}

// comparator: Go floats (%.17g list, ';' between the two halves of tpxy) vs model rationals, abs tolerance tol
func c19CmpPts(tol float64) func(goOut, model string) (bool, bool) {
	return func(goOut, model string) (bool, bool) {
		if model == "nonfinite" {
			return true, true
		}
		if model == "PANIC" || goOut == "PANIC" {
			return goOut == model, false
		}
		gs := strings.FieldsFunc(goOut, func(r rune) bool { return r == ',' || r == ';' })
		ms := strings.FieldsFunc(model, func(r rune) bool { return r == ',' || r == ';' })
		if len(gs) != len(ms) || strings.Count(goOut, ";") != strings.Count(model, ";") {
			return false, false
		}
		for i := range gs {
			if gs[i] == "-" && ms[i] == "-" {
				continue
			}
			var g float64
			if _, err := fmt.Sscanf(gs[i], "%g", &g); err != nil {
				return false, false
			}
			mr, ok := new(big.Rat).SetString(ms[i])
			if !ok {
				return false, false
			}
			mf, _ := mr.Float64()
			if math.IsNaN(g) || math.Abs(g-mf) > tol*math.Max(1, math.Abs(mf)) {
				return false, false
			}
		}
		return true, false
	}
}

func c19MkTransform(kind string, cs []float64) *common.PerspectiveTransform {
	switch kind {
	case "s2q":
		return common.PerspectiveTransform_SquareToQuadrilateral(cs[0], cs[1], cs[2], cs[3], cs[4], cs[5], cs[6], cs[7])
	case "q2s":
		return common.PerspectiveTransform_QuadrilateralToSquare(cs[0], cs[1], cs[2], cs[3], cs[4], cs[5], cs[6], cs[7])
	}
	return common.PerspectiveTransform_QuadrilateralToQuadrilateral(cs[0], cs[1], cs[2], cs[3], cs[4], cs[5], cs[6], cs[7],
		cs[8], cs[9], cs[10], cs[11], cs[12], cs[13], cs[14], cs[15])
}

// one transform case: kind in {q2q,s2q,q2s}; src -> dst are the point pairs the property says it must map.
func c19TransformCase(c *Ctx, r *Rng, fam, kind string, src, dst []float64) {
	var cs []float64
	switch kind {
	case "s2q":
		cs = dst
	case "q2s":
		cs = src
	default:
		cs = append(append([]float64{}, src...), dst...)
	}
	scaleS, scaleD := c19Scale(src), c19Scale(dst)
	// points: the four source corners, interior points (bilinear mixes of the corners), a few just outside
	pts := append([]float64{}, src...)
	nInt := 6
	for k := 0; k < nInt; k++ {
		u, v := c19Uniform(r, 0, 1), c19Uniform(r, 0, 1)
		if k >= 4 {
			u, v = c19Uniform(r, -0.2, 1.2), c19Uniform(r, -0.2, 1.2)
		}
		x := (1-u)*(1-v)*src[0] + u*(1-v)*src[2] + u*v*src[4] + (1-u)*v*src[6]
		y := (1-u)*(1-v)*src[1] + u*(1-v)*src[3] + u*v*src[5] + (1-u)*v*src[7]
		pts = append(pts, c19Round(x, r.Chance(0.3)), c19Round(y, r.Chance(0.3)))
	}
	input := fmt.Sprintf("%s fam=%s coords=%s points=%s", kind, fam, c19FmtG(cs), c19FmtG(pts))
	var out []float64
	goOut := Safe(func() string {
		t := c19MkTransform(kind, cs)
		out = append([]float64{}, pts...)
		t.TransformPoints(out)
		return c19FmtG(out)
	})
	tol := 1e-6
	c.CmpF("tp", fmt.Sprintf("c19 tp %s %s %s", kind, c19Floats(cs), c19Floats(pts)), goOut, c19CmpPts(tol))
	// the XY overload must compute the same thing
	xs, ys := make([]float64, len(pts)/2), make([]float64, len(pts)/2)
	for i := range xs {
		xs[i], ys[i] = pts[2*i], pts[2*i+1]
	}
	goXY := Safe(func() string {
		t := c19MkTransform(kind, cs)
		ox, oy := append([]float64{}, xs...), append([]float64{}, ys...)
		t.TransformPointsXY(ox, oy)
		return c19FmtG(ox) + ";" + c19FmtG(oy)
	})
	c.CmpF("tpxy", fmt.Sprintf("c19 tpxy %s %s %s %s", kind, c19Floats(cs), c19Floats(xs), c19Floats(ys)), goXY, c19CmpPts(tol))
	// both overloads are "the transform": same points, same images (tolerance for a different operation order)
	if goOut != "PANIC" && out != nil {
		agree := goXY != "PANIC"
		if agree {
			halves := strings.Split(goXY, ";")
			var gx, gy []string
			if len(halves) == 2 {
				gx, gy = strings.Split(halves[0], ","), strings.Split(halves[1], ",")
			}
			agree = len(gx) == len(xs) && len(gy) == len(ys)
			for i := 0; agree && i < len(xs); i++ {
				var fx, fy float64
				fmt.Sscanf(gx[i], "%g", &fx)
				fmt.Sscanf(gy[i], "%g", &fy)
				ex, ey := out[2*i], out[2*i+1]
				if c19Finite([]float64{ex, ey}) {
					agree = math.Abs(fx-ex) <= 1e-9*math.Max(1, math.Abs(ex)) && math.Abs(fy-ey) <= 1e-9*math.Max(1, math.Abs(ey))
				}
			}
		}
		c.Oracle("tpxy", agree, "tpxy-differs-from-tp", input, "TransformPointsXY "+goXY+" vs TransformPoints "+goOut)
	}
	c.Note("tp:" + kind + ":" + fam)
	if goOut == "PANIC" || out == nil {
		c.Oracle("tp", false, "tp-panic", input, "TransformPoints panicked")
		return
	}
	// ORACLE 1: corners land on their destinations, relative error < 1e-6
	worst := 0.0
	for i := 0; i < 8; i++ {
		e := math.Abs(out[i]-dst[i]) / scaleD
		if math.IsNaN(e) {
			e = math.Inf(1)
		}
		worst = math.Max(worst, e)
	}
	c.Oracle("tp", worst < 1e-6, "tp-corner-"+kind, input,
		fmt.Sprintf("corner images %v, destinations %v, relative error %.3g (limit 1e-6)", out[:8], dst, worst))
	// ORACLE 2: agreement with the unique projective map through the four pairs (exact, independent)
	pm := c19Solve(src, dst)
	if pm == nil {
		c.Note("tp:independent-map-singular-skipped")
		return
	}
	_ = scaleS
	for i := 4; i < len(pts)/2; i++ {
		X, Y, ok := pm.at(c19R(pts[2*i]), c19R(pts[2*i+1]))
		if !ok {
			c.Note("tp:pole-skipped")
			continue
		}
		Xf, _ := X.Float64()
		Yf, _ := Y.Float64()
		sc := math.Max(scaleD, math.Max(math.Abs(Xf), math.Abs(Yf)))
		e := math.Max(math.Abs(out[2*i]-Xf), math.Abs(out[2*i+1]-Yf)) / sc
		if math.IsNaN(e) {
			e = math.Inf(1)
		}
		c.Oracle("tp", e < 1e-6, "tp-projective-"+kind, input,
			fmt.Sprintf("point (%v,%v): code (%v,%v), unique projective map (%v,%v), relative error %.3g (limit 1e-6)",
				pts[2*i], pts[2*i+1], out[2*i], out[2*i+1], Xf, Yf, e))
	}
}

// ---------- nudge suite ----------

// coordinate classes of the property for an axis of n pixels
const (
	c19Far    = iota // x < -2  or  x >= n+1      : NotFound demanded
	c19Grey          // -2 < x < -1 (exclusive)    : farther than one pixel, but int() truncates to -1
	c19Band          // -1 <= x < 0  or  n <= x < n+1 : pulled back to 0 / n-1
	c19Inside        // 0 <= x < n
)

func c19Class(x float64, n int) int {
	switch {
	case x >= 0 && x < float64(n):
		return c19Inside
	case (x >= -1 && x < 0) || (x >= float64(n) && x < float64(n)+1):
		return c19Band
	case x > -2 && x < -1:
		return c19Grey
	}
	return c19Far
}

// what column/row must be read for a coordinate in the band or inside
func c19Clamp(k, n int) int {
	if k < 0 {
		return 0
	}
	if k > n-1 {
		return n - 1
	}
	return k
}

var c19CoordKinds = []string{"far-lo", "minus2", "grey", "minus1", "band-lo", "zero", "inside", "last", "n", "band-hi", "nplus1", "far-hi"}

func c19Coord(r *Rng, kind string, n int) float64 {
	fn := float64(n)
	fr := float64(1+r.Intn(15)) / 16
	switch kind {
	case "far-lo":
		return -2 - float64(r.Intn(4)) - fr
	case "minus2":
		return -2
	case "grey":
		return -1 - fr
	case "minus1":
		return -1
	case "band-lo":
		return -fr
	case "zero":
		return 0
	case "inside":
		return float64(r.Intn(n)) + float64(r.Intn(16))/16
	case "last":
		return fn - 1 + float64(r.Intn(16))/16
	case "n":
		return fn
	case "band-hi":
		return fn + fr
	case "nplus1":
		return fn + 1
	}
	return fn + 1 + float64(r.Intn(4)) + fr
}

func c19Min(a, b int) int {
	if a < b {
		return a
	}
	return b
}

func c19Side(x float64) string {
	if x < 0 {
		return "lo"
	}
	return "hi"
}

func c19NudgeCase(c *Ctx, w, h int, pts []float64, tag string) {
	img, _ := gozxing.NewBitMatrix(w, h)
	after := append([]float64{}, pts...)
	var err error
	goOut := Safe(func() string {
		err = common.GridSampler_checkAndNudgePoints(img, after)
		if err != nil {
			return "ERR:" + errKind(err)
		}
		return "ok " + c19Floats(after)
	})
	c.Cmp("nudge", fmt.Sprintf("c19 nudge %d %d %s", w, h, c19Floats(pts)), goOut)
	c.Note("nudge:" + tag)
	if len(pts)%2 != 0 {
		return // "points.length must be even": correspondence only
	}
	n := len(pts) / 2
	input := func(cls string) string {
		return fmt.Sprintf("checkAndNudgePoints w=%d h=%d points=%s class=%s", w, h, c19FmtG(pts), cls)
	}
	if goOut == "PANIC" {
		c.Oracle("nudge", false, "nudge-panic", input("panic"), "panicked")
		return
	}
	lim := [2]int{w, h}
	ax := [2]string{"x", "y"}
	anyFar, anyGrey := false, false
	for i := 0; i < n; i++ {
		for a := 0; a < 2; a++ {
			switch c19Class(pts[2*i+a], lim[a]) {
			case c19Far:
				anyFar = true
			case c19Grey:
				anyGrey = true
			}
		}
	}
	ok := err == nil
	// (a) first / last point farther than one pixel outside: NotFound demanded
	for _, i := range []int{0, n - 1} {
		if n == 0 {
			break
		}
		for a := 0; a < 2; a++ {
			v := pts[2*i+a]
			switch c19Class(v, lim[a]) {
			case c19Far:
				c.Oracle("nudge", !ok, "nudge-beyond-accepted-"+ax[a]+"-"+c19Side(v), input("beyond"),
					fmt.Sprintf("end point %d has %s=%v, more than one pixel outside; no NotFoundException, points after: %v", i, ax[a], v, after))
			case c19Grey:
				c.Oracle("nudge", !ok, "nudge-trunc-grey", input("grey(-2,-1)"),
					fmt.Sprintf("end point %d has %s=%v, between one and two pixels before the edge; int() truncates toward zero to -1, so it is accepted and moved to 0 instead of NotFoundException; points after: %v", i, ax[a], v, after))
			}
		}
	}
	// (b) nothing farther than one pixel outside anywhere: must not be an error
	if !anyFar && !anyGrey {
		c.Oracle("nudge", ok, "nudge-rejects-within-one-pixel", input("within"), "every point is at most one pixel outside, yet "+goOut)
	}
	if !ok {
		c.Note("nudge:notfound")
		return
	}
	c.Note("nudge:ok")
	// (c) end points: pulled onto column/row 0 or n-1, or left alone when inside; (d) the others: untouched or pulled the same way
	for i := 0; i < n; i++ {
		isEnd := i == 0 || i == n-1
		for a := 0; a < 2; a++ {
			v, nv := pts[2*i+a], after[2*i+a]
			cl := c19Class(v, lim[a])
			where := "inner"
			if isEnd {
				where = "first"
				if i == n-1 && n > 1 {
					where = "last"
				}
			}
			switch {
			case cl == c19Inside:
				c.Oracle("nudge", nv == v, "nudge-moves-inside-point", input("inside"),
					fmt.Sprintf("point %d %s=%v is inside the image but became %v", i, ax[a], v, nv))
			case cl == c19Band && (isEnd || nv != v):
				want := c19Clamp(int(math.Floor(v)), lim[a])
				c.Oracle("nudge", int(nv) == want, "nudge-target-"+ax[a]+"-"+c19Side(v)+"-"+where, input("band"),
					fmt.Sprintf("point %d (%s of the row) has %s=%v, up to one pixel outside; it must be pulled onto %d but is now %v (pixel index %d)",
						i, where, ax[a], v, want, nv, int(nv)))
			case (cl == c19Grey || cl == c19Far) && nv != v:
				want := c19Clamp(int(math.Floor(v)), lim[a])
				c.Oracle("nudge", int(nv) == want && cl == c19Grey, "nudge-inner-"+ax[a]+"-"+c19Side(v), input("inner"),
					fmt.Sprintf("point %d %s=%v became %v", i, ax[a], v, nv))
			}
		}
	}
}

// ---------- sampling suite ----------

type c19Img struct {
	w, h int
	bm   *gozxing.BitMatrix
	rows []string
}

func c19GenImage(r *Rng, w, h int) *c19Img {
	bm, _ := gozxing.NewBitMatrix(w, h)
	mode := r.Intn(4) // 0 random, 1 all black, 2 checker, 3 black frame + random
	rows := make([]string, h)
	for y := 0; y < h; y++ {
		b := make([]byte, w)
		for x := 0; x < w; x++ {
			on := false
			switch mode {
			case 0:
				on = r.Bool()
			case 1:
				on = true
			case 2:
				on = (x+y)%2 == 0
			default:
				on = x == 0 || y == 0 || x == w-1 || y == h-1 || r.Bool()
			}
			if on {
				bm.Set(x, y)
				b[x] = '1'
			} else {
				b[x] = '0'
			}
		}
		rows[y] = string(b)
	}
	return &c19Img{w, h, bm, rows}
}

func c19BlackImage(w, h int) *c19Img {
	bm, _ := gozxing.NewBitMatrix(w, h)
	rows := make([]string, h)
	for y := 0; y < h; y++ {
		for x := 0; x < w; x++ {
			bm.Set(x, y)
		}
		rows[y] = strings.Repeat("1", w)
	}
	return &c19Img{w, h, bm, rows}
}

func c19ShowBits(bm *gozxing.BitMatrix) string {
	var sb strings.Builder
	for y := 0; y < bm.GetHeight(); y++ {
		if y > 0 {
			sb.WriteByte('/')
		}
		for x := 0; x < bm.GetWidth(); x++ {
			if bm.Get(x, y) {
				sb.WriteByte('1')
			} else {
				sb.WriteByte('0')
			}
		}
	}
	return sb.String()
}

// model output: "ok rows b=0|1" / "ERR:notfound b=.." / "nonfinite"; '?' cells are within 1e-6 of a pixel boundary
func c19CmpSample(goOut, model string) (bool, bool) {
	if model == "nonfinite" {
		return true, true
	}
	i := strings.LastIndex(model, " b=")
	if i < 0 {
		return false, false
	}
	border := model[i+3:] == "1"
	m := model[:i]
	gOK, mOK := strings.HasPrefix(goOut, "ok "), strings.HasPrefix(m, "ok ")
	if gOK != mOK {
		if border {
			return true, true
		}
		return false, false
	}
	if !gOK {
		return goOut == m, false
	}
	if len(goOut) != len(m) {
		return false, false
	}
	for k := 0; k < len(m); k++ {
		if m[k] != '?' && m[k] != goOut[k] {
			return false, false
		}
	}
	return true, false
}

var c19Eps = big.NewRat(1, 1000000)

// floor of a rational and whether it lies within 1e-6 of an integer
func c19FloorNear(x *big.Rat) (fl *big.Int, near bool) {
	fl = new(big.Int).Div(x.Num(), x.Denom()) // Euclidean division: floor for positive denominators
	lo := new(big.Rat).Sub(x, new(big.Rat).SetInt(fl))
	hi := new(big.Rat).Sub(big.NewRat(1, 1), lo)
	return fl, lo.Cmp(c19Eps) < 0 || hi.Cmp(c19Eps) < 0
}

// class of an exact coordinate by the property; `crit` = within 1e-6 of a boundary where the demanded outcome changes
func c19ClassR(x *big.Rat, n int) (cl int, col int, near, crit bool) {
	fl, near := c19FloorNear(x)
	k := 0
	if fl.IsInt64() && fl.Int64() > -1<<40 && fl.Int64() < 1<<40 {
		k = int(fl.Int64())
	} else if fl.Sign() < 0 {
		k = -1 << 40
	} else {
		k = 1 << 40
	}
	switch {
	case k >= 0 && k < n:
		cl = c19Inside
	case k == -1 || k == n:
		cl = c19Band
	case k == -2 && x.Cmp(big.NewRat(-2, 1)) != 0:
		cl = c19Grey
	default:
		cl = c19Far
	}
	if near {
		// nearest integer
		nk := k
		lo := new(big.Rat).Sub(x, new(big.Rat).SetInt(fl))
		if lo.Cmp(big.NewRat(1, 2)) > 0 {
			nk = k + 1
		}
		crit = nk == -2 || nk == -1 || nk == 0 || nk == n || nk == n+1
	}
	return cl, c19Clamp(k, n), near, crit
}

// a coordinate in (-2,-1] or [n,n+1): int() gives -1 / n, the sampler has to move it (points in (-1,0) already
// read column/row 0 because int() truncates toward zero)
func c19NeedsPull(x *big.Rat, n int) bool {
	fl, _ := c19FloorNear(x)
	if !fl.IsInt64() {
		return false
	}
	k := fl.Int64()
	return (k == -2 && x.Cmp(big.NewRat(-2, 1)) != 0) || x.Cmp(big.NewRat(-1, 1)) == 0 || k == int64(n)
}

type c19SampleCase struct {
	img        *c19Img
	dimX, dimY int
	to, from   []float64
	fam, tag   string
}

func c19RunSample(c *Ctx, s *c19SampleCase) {
	img := s.img
	call := func(viaTransform bool) string {
		return Safe(func() string {
			var bits *gozxing.BitMatrix
			var err error
			gs := common.GridSampler_GetInstance()
			if viaTransform {
				t := common.PerspectiveTransform_QuadrilateralToQuadrilateral(
					s.to[0], s.to[1], s.to[2], s.to[3], s.to[4], s.to[5], s.to[6], s.to[7],
					s.from[0], s.from[1], s.from[2], s.from[3], s.from[4], s.from[5], s.from[6], s.from[7])
				probe := []float64{0.5, 0.5, 1.5, 2.5, float64(s.dimX) - 0.5, float64(s.dimY) - 0.5}
				before := append([]float64{}, probe...)
				t.TransformPoints(before)
				bits, err = gs.SampleGridWithTransform(img.bm, s.dimX, s.dimY, t)
				// the transform belongs to the caller: sampling it again, and mapping points through it afterwards, must
				// give what it gave the first time
				bits2, err2 := gs.SampleGridWithTransform(img.bm, s.dimX, s.dimY, t)
				after := append([]float64{}, probe...)
				t.TransformPoints(after)
				if fmt.Sprint(before) != fmt.Sprint(after) {
					return "TRANSFORM-MUTATED by SampleGridWithTransform"
				}
				if (err == nil) != (err2 == nil) || (err == nil && c19ShowBits(bits) != c19ShowBits(bits2)) {
					return "SECOND-SAMPLING-WITH-THE-SAME-TRANSFORM-DIFFERS"
				}
			} else {
				bits, err = gs.SampleGrid(img.bm, s.dimX, s.dimY,
					s.to[0], s.to[1], s.to[2], s.to[3], s.to[4], s.to[5], s.to[6], s.to[7],
					s.from[0], s.from[1], s.from[2], s.from[3], s.from[4], s.from[5], s.from[6], s.from[7])
			}
			if err != nil {
				return "ERR:" + errKind(err)
			}
			if bits.GetWidth() != s.dimX || bits.GetHeight() != s.dimY {
				return fmt.Sprintf("ok wrong-dimensions %dx%d", bits.GetWidth(), bits.GetHeight())
			}
			return "ok " + c19ShowBits(bits)
		})
	}
	goOut := call(false)
	goOut2 := call(true)
	cs := append(append([]float64{}, s.to...), s.from...)
	op := fmt.Sprintf("c19 sg %d %d %d %d %s %s", img.w, img.h, s.dimX, s.dimY, strings.Join(img.rows, "/"), c19Floats(cs))
	c.CmpF("sg", op, goOut, c19CmpSample)
	c.Note("sg:" + s.fam + ":" + s.tag)
	c.Note("sg:dim=" + c19DimTag(s.dimX) + "x" + c19DimTag(s.dimY))
	input := func(cls string) string {
		return fmt.Sprintf("SampleGrid image=%dx%d rows=%s dimX=%d dimY=%d to=%s from=%s class=%s",
			img.w, img.h, strings.Join(img.rows, "/"), s.dimX, s.dimY, c19FmtG(s.to), c19FmtG(s.from), cls)
	}
	c.Oracle("sg", goOut == goOut2, "sg-variants-differ", input("variants"),
		"SampleGrid and SampleGridWithTransform(QuadrilateralToQuadrilateral(..)) differ: "+goOut[:c19Min(len(goOut), 60)]+" vs "+goOut2[:c19Min(len(goOut2), 60)])
	if goOut == "PANIC" {
		c.Oracle("sg", false, "sg-panic", input("panic"), "SampleGrid panicked")
		return
	}
	gOK := strings.HasPrefix(goOut, "ok ")
	if gOK {
		c.Note("sg:ok")
	} else {
		c.Note("sg:" + goOut)
	}
	if s.dimX <= 0 || s.dimY <= 0 {
		c.Oracle("sg", goOut == "ERR:notfound", "sg-nonpositive-dimension", input("dims"), goOut)
		return
	}
	// ---- the property, computed independently: exact projective map through the four pairs ----
	pm := c19Solve(s.to, s.from)
	if pm == nil {
		c.Note("sg:independent-map-singular-skipped")
		return
	}
	var goRows []string
	if gOK {
		goRows = strings.Split(goOut[3:], "/")
	}
	half := big.NewRat(1, 2)
	anyFar, anyGrey, anyInnerBand, anyCrit, pole := false, false, false, false, false
	type cell struct {
		px, py     int
		near       bool
		clx, cly   int
		endRunBand bool
	}
	firstBad := ""
	nCompared, nNear := 0, 0
	badCells := 0
	for y := 0; y < s.dimY && !pole; y++ {
		cells := make([]cell, s.dimX)
		needs := make([]bool, s.dimX) // centre is outside by up to one pixel and is not already read as column/row 0 by truncation
		for x := 0; x < s.dimX; x++ {
			X, Y, ok := pm.at(new(big.Rat).Add(big.NewRat(int64(x), 1), half), new(big.Rat).Add(big.NewRat(int64(y), 1), half))
			if !ok {
				pole = true
				break
			}
			clx, px, nx, cx := c19ClassR(X, img.w)
			cly, py, ny, cy := c19ClassR(Y, img.h)
			cells[x] = cell{px, py, nx || ny, clx, cly, false}
			anyCrit = anyCrit || cx || cy
			if clx == c19Far || cly == c19Far {
				anyFar = true
			}
			if clx == c19Grey || cly == c19Grey {
				anyGrey = true
			}
			needs[x] = c19NeedsPull(X, img.w) || c19NeedsPull(Y, img.h)
		}
		if pole {
			break
		}
		// band cells reachable by the two passes: maximal runs of cells needing a nudge at either row end
		reach := make([]bool, s.dimX)
		for x := 0; x < s.dimX && needs[x]; x++ {
			reach[x] = true
		}
		for x := s.dimX - 1; x >= 0 && needs[x]; x-- {
			reach[x] = true
		}
		for x := 0; x < s.dimX; x++ {
			if needs[x] && !reach[x] {
				anyInnerBand = true
			}
		}
		if gOK && y < len(goRows) && len(goRows[y]) == s.dimX {
			for x := 0; x < s.dimX; x++ {
				cl := cells[x]
				if cl.near {
					nNear++
					continue
				}
				if cl.clx == c19Far || cl.cly == c19Far {
					continue
				}
				want := img.rows[cl.py][cl.px]
				nCompared++
				if goRows[y][x] != want {
					badCells++
					if firstBad == "" {
						firstBad = fmt.Sprintf("cell (%d,%d): centre maps to pixel (%d,%d) [after pulling onto the edge] which is %c, sampled %c",
							x, y, cl.px, cl.py, want, goRows[y][x])
					}
				}
			}
		}
	}
	if pole {
		c.Note("sg:pole-on-a-centre-skipped")
		return
	}
	c.NoteN("sg:cells-compared", nCompared)
	c.NoteN("sg:cells-near-boundary-skipped", nNear)
	if anyCrit {
		c.Note("sg:decision-borderline-skipped")
	}
	switch {
	case anyFar:
		c.Note("sg:class=beyond")
		if !anyCrit {
			c.Oracle("sg", !gOK, "sg-beyond-not-rejected", input("beyond"),
				"a cell centre maps more than one pixel outside the image, yet no NotFoundException: "+goOut[:c19Min(len(goOut), 80)])
		}
	case anyGrey || anyInnerBand:
		c.Note("sg:class=grey-or-inner-band")
		if gOK && anyGrey && !anyCrit {
			c.Oracle("sg", false, "nudge-trunc-grey", input("grey(-2,-1)"),
				"a cell centre maps between one and two pixels before the left/top edge; int() truncates toward zero to -1, so it is accepted and pulled to 0 instead of NotFoundException")
		}
	default:
		c.Note("sg:class=within")
		if !anyCrit {
			c.Oracle("sg", gOK, "sg-within-rejected", input("within"),
				"every cell centre maps into the image or at most one pixel outside at a row end, yet "+goOut)
		}
	}
	if gOK && !anyFar {
		c.Oracle("sg", badCells == 0, "sg-wrong-pixel", input("pixel"), fmt.Sprintf("%d cell(s) differ; %s", badCells, firstBad))
	}
	if gOK && anyFar && !anyCrit && badCells > 0 {
		c.Oracle("sg", false, "sg-wrong-pixel", input("pixel"), fmt.Sprintf("%d cell(s) differ; %s", badCells, firstBad))
	}
}

// c19Kick hands the queued correspondence cases to a free driver without waiting (keeps all drivers busy
// although sampling lines are expensive for the model).
func c19Kick(c *Ctx) {
	c.mu.Lock()
	b := c.queue
	c.queue = nil
	c.mu.Unlock()
	if len(b) > 0 {
		c.dispatch(b)
	}
}

var c19Dims = []int{1, 2, 21, 25, 177}

func c19DimTag(d int) string {
	for _, k := range c19Dims {
		if d == k {
			return fmt.Sprint(d)
		}
	}
	if d <= 0 {
		return "nonpositive"
	}
	return "other"
}

// first/last centre placement classes for the axis-aligned targeted cases
var c19EndKinds = []string{"far-lo", "grey", "minus1", "band-lo", "zero", "inside", "last", "n", "band-hi", "nplus1", "far-hi"}

func c19GenSample(r *Rng, idx int, big177 bool) *c19SampleCase {
	s := &c19SampleCase{}
	dims := c19Dims
	if !big177 {
		dims = c19Dims[:4]
	}
	s.dimX = dims[r.Intn(len(dims))]
	s.dimY = s.dimX
	if r.Chance(0.3) {
		s.dimY = dims[r.Intn(len(dims))]
	}
	if r.Chance(0.1) {
		s.dimX, s.dimY = r.Range(1, 40), r.Range(1, 40)
	}
	w, h := r.Range(1, 90), r.Range(1, 90)
	if r.Chance(0.3) {
		w, h = r.Range(1, 6), r.Range(1, 6)
	}
	if s.dimX == 177 || s.dimY == 177 {
		w, h = r.Range(150, 400), r.Range(150, 400)
	}
	s.img = c19GenImage(r, w, h)
	fx, fy := float64(s.dimX), float64(s.dimY)
	m := []float64{0, 0.5, 3.5}[r.Intn(3)]
	if fx <= 2*m+1 || fy <= 2*m+1 {
		m = 0
	}
	s.to = []float64{m, m, fx - m, m, fx - m, fy - m, m, fy - m}
	fam := c19Families[idx%4]
	s.fam = fam
	if fam == "axis" && r.Chance(0.7) {
		// targeted: first / last centre of every row and column placed in a chosen class
		place := func(n, dim int) (lo, hi float64, tag string) {
			k1, k2 := c19EndKinds[r.Intn(len(c19EndKinds))], c19EndKinds[r.Intn(len(c19EndKinds))]
			if r.Chance(0.5) {
				k1 = "inside"
			} else if r.Chance(0.5) {
				k2 = "inside"
			}
			f, l := c19Coord(r, k1, n), c19Coord(r, k2, n)
			tag = k1 + "/" + k2
			if dim == 1 {
				return f - 0.5, f + 0.5, k1
			}
			// centre i maps to f + (l-f) i/(dim-1): grid coordinate u maps to f + (l-f)(u-0.5)/(dim-1)
			step := (l - f) / float64(dim-1)
			return f - 0.5*step, f + (float64(dim)-0.5)*step, tag
		}
		x0, x1, tx := place(w, s.dimX)
		y0, y1, ty := place(h, s.dimY)
		s.to = []float64{0, 0, fx, 0, fx, fy, 0, fy}
		s.from = []float64{x0, y0, x1, y0, x1, y1, x0, y1}
		s.tag = "targeted"
		_ = tx
		_ = ty
		return s
	}
	if r.Chance(0.08) {
		// "pole1d": one INNER cell centre of the row is steered into a chosen class while every other centre of the
		// row stays inside the image: along the row the transformed coordinate is A + K/(u - t0) with the pole t0
		// just right of centre k.  The to-quadrilateral lies entirely left of the pole (a legitimate convex pair).
		w, h = r.Range(10, 60), r.Range(10, 60)
		s.img = c19GenImage(r, w, h)
		if r.Chance(0.7) {
			s.img = c19BlackImage(w, h)
		}
		n := r.Range(5, 25)
		s.dimX, s.dimY = n, r.Range(1, 2)
		k := r.Range(2, n-2)
		dl := []float64{0.125, 0.25}[r.Intn(2)]
		t0 := float64(k) + 0.5 + dl
		alongX := r.Bool()
		lim := w
		if !alongX {
			lim = h
		}
		kind := []string{"far-lo", "minus2", "grey", "minus1", "band-lo", "inside", "last", "n", "band-hi", "nplus1", "far-hi"}[r.Intn(11)]
		tv := c19Coord(r, kind, lim)
		A := float64(lim) / 2
		K := -dl * (tv - A)
		B := float64(w+h-lim)/2 + 0.25
		L := c19Uniform(r, 0.5, 3)
		c := float64(k - 1)
		s.to = []float64{0, 0, c, 0, c, 1, 0, 1}
		s.from = make([]float64, 8)
		for i := 0; i < 4; i++ {
			u, v := s.to[2*i], s.to[2*i+1]
			main := A + K/(u-t0)
			other := B + L*(v-0.5)/(u-t0)
			if alongX {
				s.from[2*i], s.from[2*i+1] = main, other
			} else {
				s.from[2*i], s.from[2*i+1] = other, main
			}
		}
		s.fam = "perspective"
		s.tag = "pole1d:" + kind
		return s
	}
	if r.Chance(0.2) && s.dimX >= 2 && s.dimY >= 2 && w >= 8 && h >= 8 {
		// "polegrid": a convex pair whose projective map has its line at infinity crossing the part of the grid that
		// lies outside the to-quadrilateral (strong perspective): the to-quadrilateral is inset, the pole line
		// u + tilt*v = t0 (or with u,v swapped) passes between it and the grid border.
		m := []float64{3.5, 6.5, fx / 4}[r.Intn(3)]
		if fx <= 2*m+1 || fy <= 2*m+1 {
			m = math.Min(fx, fy) / 4
		}
		s.to = []float64{m, m, fx - m, m, fx - m, fy - m, m, fy - m}
		swap, low := r.Bool(), r.Bool()
		ext := fx
		if swap {
			ext = fy
		}
		t0 := c19Uniform(r, ext-m+0.05, ext+1)
		if low {
			t0 = c19Uniform(r, -1, m-0.05)
		}
		tilt := c19Uniform(r, -0.02, 0.02)
		var pq [8]float64
		for i := 0; i < 4; i++ {
			u, v := s.to[2*i], s.to[2*i+1]
			if swap {
				u, v = v, u
			}
			d := u + tilt*v - t0
			if !low {
				d = -d
			}
			pq[2*i], pq[2*i+1] = s.to[2*i]/d, s.to[2*i+1]/d
		}
		minx, maxx, miny, maxy := pq[0], pq[0], pq[1], pq[1]
		for i := 1; i < 4; i++ {
			minx, maxx = math.Min(minx, pq[2*i]), math.Max(maxx, pq[2*i])
			miny, maxy = math.Min(miny, pq[2*i+1]), math.Max(maxy, pq[2*i+1])
		}
		for i := 0; i < 4; i++ {
			pq[2*i] = (pq[2*i] - minx) / (maxx - minx)
			pq[2*i+1] = (pq[2*i+1] - miny) / (maxy - miny)
		}
		bx, by := c19Uniform(r, 0.15, 0.4)*float64(w), c19Uniform(r, 0.15, 0.4)*float64(h)
		s.from = c19PlaceQuad(pq, bx, by, float64(w)-bx, float64(h)-by, r.Chance(0.3))
		s.tag = "polegrid"
		if c19Convex(s.from, 0.02) {
			return s
		}
	}
	for tries := 0; ; tries++ {
		u := c19UnitQuad(r, fam)
		d := func() float64 {
			if r.Chance(0.5) {
				return c19Uniform(r, -0.5, 0.2) * float64(c19Min(w, h)) / 4
			}
			return c19Uniform(r, -1.5, 3)
		}
		q := c19PlaceQuad(u, -d(), -d(), float64(w)+d(), float64(h)+d(), r.Chance(0.2))
		if c19Convex(q, 0.05) || tries > 20 {
			s.from = q
			break
		}
	}
	s.tag = "fitted"
	if r.Chance(0.06) {
		// "twisted": bow-tie destination (two corners swapped) — the situation the code comment describes
		s.from[2], s.from[3], s.from[4], s.from[5] = s.from[4], s.from[5], s.from[2], s.from[3]
		s.tag = "twisted"
	}
	return s
}

func runC19(c *Ctx) {
	c.res.Rule = "transform: convex quadrilateral pairs of four families (axis-aligned, rotated, sheared, perspective; corners on a 1/16 grid or full float64) " +
		"x {QuadrilateralToQuadrilateral, SquareToQuadrilateral, QuadrilateralToSquare} x 4 corners + 6 interior/nearby points, both TransformPoints overloads; " +
		"nudge: images 1..177 px, rows of 1..6 points whose first/last/inner points are placed in every class (far, (-2,-1), -1, (-1,0), 0, inside, n-1, n, (n,n+1), n+1, far) of both axes; " +
		"sample: grid dimensions {1,2,21,25,177} (+random), images 1..400 px (random / all black / checker / framed), from-quadrilaterals fitted around the image with edges up to 3 px inside/outside, " +
		"axis-aligned cases with first/last cell centre targeted into each class, a few twisted (bow-tie) quadrilaterals; non-trivial = distinct op line; " +
		"oracle = exact projective map through the four point pairs (8x8 rational solve in the harness), pixel under floor(T(x+.5,y+.5)), cells within 1e-6 of a pixel boundary skipped and counted"
	r := c.Rng

	// ---- corpus: the D8 witness and friends run first ----
	c19NudgeCase(c, 10, 10, []float64{5, 10, 5, 5}, "corpus-D8")
	c19NudgeCase(c, 10, 10, []float64{5, 10.5, 5, 5, 5, 5}, "corpus-D8")
	c19NudgeCase(c, 10, 10, []float64{-1, -1, 10, 10, 0, 0, -1, -1, 10, 10}, "corpus-unit-test")
	{
		// the first cell centre of every row of a 2x1 grid maps to y = h (one pixel below the image)
		img := c19GenImage(NewRng(7), 4, 4)
		c19RunSample(c, &c19SampleCase{img: img, dimX: 2, dimY: 1, to: []float64{0, 0, 2, 0, 2, 1, 0, 1},
			from: []float64{0, 5, 4, 1, 4, 2, 0, 6}, fam: "sheared", tag: "corpus-D8"})
		// strong perspective (the QR detector's 21-module call): inner cell centres map left of / above the image while
		// the row ends are inside; before the repair they were read as white instead of NotFoundException
		c19RunSample(c, &c19SampleCase{img: c19BlackImage(40, 32), dimX: 21, dimY: 21,
			to:   []float64{3.5, 3.5, 17.5, 3.5, 17.5, 17.5, 3.5, 17.5},
			from: []float64{29.8125, 11.8125, 10.25, 7.0625, 10.1875, 7.8125, 23.1875, 24.9375}, fam: "perspective", tag: "corpus-negative-index"})
	}

	// ---- transforms ----
	nT := c.Pick(2000, 200000)
	c.Parallel(nT, 16, func(i int, r *Rng) {
		fam := c19Families[i%4]
		size := []float64{1, 30, 400, 3000}[r.Intn(4)]
		switch i % 10 {
		case 0, 1:
			dst := c19RandQuad(r, fam, size)
			c19TransformCase(c, r, fam, "s2q", []float64{0, 0, 1, 0, 1, 1, 0, 1}, dst)
		case 2, 3:
			src := c19RandQuad(r, fam, size)
			c19TransformCase(c, r, fam, "q2s", src, []float64{0, 0, 1, 0, 1, 1, 0, 1})
		default:
			src := c19RandQuad(r, c19Families[r.Intn(4)], []float64{1, 30, 200}[r.Intn(3)])
			if r.Chance(0.4) {
				// the way the detectors call it: module coordinates of a symbol of dimension d
				d := float64([]int{21, 25, 45, 177}[r.Intn(4)])
				src = []float64{3.5, 3.5, d - 3.5, 3.5, d - 6.5, d - 6.5, 3.5, d - 3.5}
			}
			dst := c19RandQuad(r, fam, size)
			c19TransformCase(c, r, fam, "q2q", src, dst)
		}
	})
	c19Kick(c)
	// TransformPointsXY with a shorter y slice panics (index out of range) — model says so too
	{
		goXY := Safe(func() string {
			t := c19MkTransform("s2q", []float64{0, 0, 1, 0, 1, 1, 0, 1})
			t.TransformPointsXY([]float64{1, 2}, []float64{3})
			return "returned"
		})
		c.Cmp("tpxy", "c19 tpxy s2q 0/1,0/1,1/1,0/1,1/1,1/1,0/1,1/1 1/1,2/1 3/1", goXY)
		out := []float64{1, 2, 3}
		c19MkTransform("s2q", []float64{0, 0, 2, 0, 2, 2, 0, 2}).TransformPoints(out)
		c.CmpF("tp", "c19 tp s2q 0/1,0/1,2/1,0/1,2/1,2/1,0/1,2/1 1/1,2/1,3/1", c19FmtG(out), c19CmpPts(1e-9))
	}

	// ---- nudge: structured enumeration, then random rows ----
	sizes := [][2]int{{1, 1}, {2, 3}, {10, 10}, {21, 25}, {177, 177}, {3, 1}}
	for _, wh := range sizes {
		w, h := wh[0], wh[1]
		for _, kx := range c19CoordKinds {
			for _, ky := range c19CoordKinds {
				if kx != "inside" && ky != "inside" && !(kx == ky) && r.Chance(0.6) {
					continue
				}
				for _, n := range []int{1, 2, 3, 5} {
					for _, pos := range []int{0, n - 1, n / 2} {
						pts := make([]float64, 2*n)
						for i := 0; i < n; i++ {
							pts[2*i], pts[2*i+1] = c19Coord(r, "inside", w), c19Coord(r, "inside", h)
						}
						pts[2*pos], pts[2*pos+1] = c19Coord(r, kx, w), c19Coord(r, ky, h)
						where := "inner"
						if pos == 0 {
							where = "first"
						} else if pos == n-1 {
							where = "last"
						}
						c19NudgeCase(c, w, h, pts, "x="+kx+",y="+ky+"@"+where)
					}
				}
			}
		}
	}
	nN := c.Pick(6000, 300000)
	for it := 0; it < nN; it++ {
		w, h := r.Range(1, 30), r.Range(1, 30)
		if r.Chance(0.2) {
			w, h = r.Pick([]int{1, 2, 21, 25, 177}), r.Pick([]int{1, 2, 21, 25, 177})
		}
		n := r.Range(0, 6)
		pts := make([]float64, 2*n)
		// runs of nudgeable points at both ends, inside points in the middle, occasional rogue
		pOut := []float64{0.1, 0.5, 0.9}[r.Intn(3)]
		for i := 0; i < n; i++ {
			kx, ky := "inside", "inside"
			edge := i < r.Intn(3) || n-1-i < r.Intn(3)
			if edge || r.Chance(0.08) {
				if r.Chance(pOut) {
					kx = c19CoordKinds[r.Intn(len(c19CoordKinds))]
				}
				if r.Chance(pOut) {
					ky = c19CoordKinds[r.Intn(len(c19CoordKinds))]
				}
			}
			pts[2*i], pts[2*i+1] = c19Coord(r, kx, w), c19Coord(r, ky, h)
		}
		if r.Chance(0.03) {
			pts = append(pts, c19Coord(r, "inside", w)) // odd length: correspondence only
		}
		c19NudgeCase(c, w, h, pts, "random")
	}
	c19Kick(c)

	// ---- sampling ----
	nS := c.Pick(2000, 200000)
	chunk := 200
	for base := 0; base < nS && c.TimeLeft(); base += chunk {
		n := c19Min(chunk, nS-base)
		b0 := base
		c.Parallel(n, 16, func(i int, r *Rng) {
			idx := b0 + i
			// 177-module grids are expensive for the exact model: one in 80 cases
			s := c19GenSample(r, idx, idx%80 == 5)
			c19RunSample(c, s)
		})
		c19Kick(c)
	}
	// non-positive dimensions
	for _, d := range [][2]int{{0, 10}, {10, 0}, {-1, 3}, {3, -7}} {
		img := c19GenImage(r, 8, 8)
		c19RunSample(c, &c19SampleCase{img: img, dimX: d[0], dimY: d[1], to: []float64{0, 0, 1, 0, 1, 1, 0, 1},
			from: []float64{0, 0, 8, 0, 8, 8, 0, 8}, fam: "axis", tag: "nonpositive-dimension"})
	}
}
