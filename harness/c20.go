package main

// C20 — 1-D run-length primitives: RecordPattern / RecordPatternInReverse / PatternMatchVariance
// vs. the Lean model (exact rational arithmetic) and vs. the property's own oracle.

import (
	"fmt"
	"math"
	"math/big"
	"strings"

	"github.com/makiuchi-d/gozxing"
	"github.com/makiuchi-d/gozxing/oned"
)

func init() { suites["C20"] = runC20 }

func rowFromBits(bs []bool) *gozxing.BitArray { return rowFromBitsVia(bs, 0, nil) }

// c20Paths: the ways a caller can arrive at a BitArray holding the same pixels.  The property speaks of "a pixel
// row": the run-length primitives must not depend on how the row was built (allocation size of the word slice,
// spare capacity left by appends, words touched by Reverse / Xor ...), only on its pixels.
const c20Paths = 8

func rowFromBitsVia(bs []bool, path int, r *Rng) *gozxing.BitArray {
	n := len(bs)
	set := func(row *gozxing.BitArray, off int, part []bool) {
		for i, b := range part {
			if b {
				row.Set(off + i)
			}
		}
	}
	switch path {
	default: // exact allocation + Set
		row := gozxing.NewBitArray(n)
		set(row, 0, bs)
		return row
	case 1: // grown one pixel at a time from the empty array
		row := gozxing.NewEmptyBitArray()
		for _, b := range bs {
			row.AppendBit(b)
		}
		return row
	case 2: // grown in chunks of 1..32 bits
		row := gozxing.NewEmptyBitArray()
		for i := 0; i < n; {
			k := r.Range(1, 32)
			if i+k > n {
				k = n - i
			}
			v := 0
			for j := 0; j < k; j++ {
				v <<= 1
				if bs[i+j] {
					v |= 1
				}
			}
			row.AppendBits(v, k)
			i += k
		}
		return row
	case 3: // concatenation of two arrays
		cut := 0
		if n > 0 {
			cut = r.Intn(n + 1)
		}
		row := rowFromBitsVia(bs[:cut], r.Intn(3), r)
		row.AppendBitArray(rowFromBitsVia(bs[cut:], 0, r))
		return row
	case 4: // built mirrored, then Reverse()
		rev := make([]bool, n)
		for i, b := range bs {
			rev[n-1-i] = b
		}
		row := gozxing.NewBitArray(n)
		set(row, 0, rev)
		row.Reverse()
		return row
	case 5: // complement, then Xor with all-ones of the same size
		row := gozxing.NewBitArray(n)
		ones := gozxing.NewBitArray(n)
		for i, b := range bs {
			if !b {
				row.Set(i)
			}
			ones.Set(i)
		}
		if e := row.Xor(ones); e != nil {
			return rowFromBitsVia(bs, 0, r)
		}
		return row
	case 6: // SetRange over the black runs
		row := gozxing.NewBitArray(n)
		for i := 0; i < n; {
			j := i
			for j < n && bs[j] == bs[i] {
				j++
			}
			if bs[i] {
				row.SetRange(i, j)
			}
			i = j
		}
		return row
	case 7: // appended to, then overwritten: Clear + Set on an array that has been grown by appends
		row := gozxing.NewEmptyBitArray()
		for i := 0; i < n; i++ {
			row.AppendBit(r.Bool())
		}
		row.Clear()
		set(row, 0, bs)
		return row
	}
}

func genRow(r *Rng, n int) []bool {
	bs := make([]bool, n)
	mode := r.Intn(5)
	if mode == 4 { // long runs (quiet zones, wide bars): runs that cover whole 32-bit words
		cur := r.Bool()
		for i := 0; i < n; {
			l := r.Range(1, 90)
			for j := 0; j < l && i < n; j++ {
				bs[i] = cur
				i++
			}
			cur = !cur
		}
		return bs
	}
	switch mode {
	case 0: // random pixels
		for i := range bs {
			bs[i] = r.Bool()
		}
	default: // runs with lengths 1..maxRun
		maxRun := []int{2, 4, 9}[mode-1]
		cur := r.Bool()
		i := 0
		for i < n {
			l := r.Range(1, maxRun)
			for j := 0; j < l && i < n; j++ {
				bs[i] = cur
				i++
			}
			cur = !cur
		}
	}
	return bs
}

func goRuns(bs []bool) []int {
	var rs []int
	for i := 0; i < len(bs); {
		j := i
		for j < len(bs) && bs[j] == bs[i] {
			j++
		}
		rs = append(rs, j-i)
		i = j
	}
	return rs
}

// pmvFloatExact: the float64 computation of PatternMatchVariance is exact (all intermediate values are
// small dyadic rationals) when T/P is dyadic and the variance limit a/b is dyadic; then a run lying EXACTLY on
// the limit must be decided like the exact model (`>` is strict), and is not a borderline case.
func pmvFloatExact(T, P int, b int64) bool {
	if P <= 0 || T <= 0 {
		return false
	}
	for P%2 == 0 {
		P /= 2
	}
	return T%P == 0 && b&(b-1) == 0
}

// parse "N/D m=MN/MD" or "inf m=.."
func cmpPMV(goOut, model string) (ok, skip bool) { return cmpPMVx(false)(goOut, model) }

func cmpPMVx(exact bool) func(goOut, model string) (ok, skip bool) {
	return func(goOut, model string) (ok, skip bool) { return cmpPMVi(exact, goOut, model) }
}

func cmpPMVi(exact bool, goOut, model string) (ok, skip bool) {
	parts := strings.Split(model, " ")
	if len(parts) != 2 || !strings.HasPrefix(parts[1], "m=") {
		return goOut == model, false
	}
	m, ok1 := new(big.Rat).SetString(parts[1][2:])
	if ok1 {
		mf, _ := m.Float64()
		if mf < 1e-9 && !(exact && m.Sign() == 0) {
			return true, true // float rounding may decide the `variance > max` test either way
		}
	}
	if parts[0] == "inf" {
		return goOut == "inf", false
	}
	if goOut == "inf" || goOut == "PANIC" {
		return false, false
	}
	var gf float64
	fmt.Sscanf(goOut, "%g", &gf)
	mr, ok2 := new(big.Rat).SetString(parts[0])
	if !ok2 {
		// 0/0: Go computes NaN
		return strings.HasPrefix(parts[0], "0/0") && math.IsNaN(gf), false
	}
	mf, _ := mr.Float64()
	return math.Abs(gf-mf) <= 1e-9, false
}

func fmtF(f float64) string {
	if math.IsInf(f, 1) {
		return "inf"
	}
	return fmt.Sprintf("%.17g", f)
}

// the property's reference formula, exact
func refPMV(cs, ps []int, a, b int64) (inf bool, val *big.Rat, margin *big.Rat) {
	T, P := int64(0), int64(0)
	for i := range cs {
		T += int64(cs[i])
		P += int64(ps[i])
	}
	if T < P {
		return true, nil, big.NewRat(1, 1)
	}
	sum := big.NewRat(0, 1)
	margin = big.NewRat(1, 1)
	limit := new(big.Rat).Mul(big.NewRat(a, b), big.NewRat(T, P))
	for i := range cs {
		d := new(big.Rat).Sub(big.NewRat(int64(cs[i]), 1), new(big.Rat).Mul(big.NewRat(int64(ps[i]), 1), big.NewRat(T, P)))
		d.Abs(d)
		diff := new(big.Rat).Sub(d, limit)
		ad := new(big.Rat).Abs(diff)
		if ad.Cmp(margin) < 0 {
			margin = ad
		}
		if diff.Sign() > 0 {
			inf = true
		}
		sum.Add(sum, d)
	}
	if inf {
		return true, nil, margin
	}
	return false, sum.Quo(sum, big.NewRat(T, 1)), margin
}

var c20Patterns = [][]int{
	{1, 1, 1}, {1, 1, 1, 1, 1}, {1, 1, 1, 1, 1, 1}, // UPC/EAN guards
	{3, 2, 1, 1}, {2, 2, 2, 1}, {2, 1, 2, 2}, {1, 4, 1, 1}, {1, 1, 3, 2}, {1, 2, 3, 1}, {1, 1, 1, 4}, {1, 3, 1, 2}, {1, 2, 1, 3}, {3, 1, 1, 2}, // L patterns
	{2, 1, 2, 2, 2, 2}, {2, 2, 2, 1, 2, 2}, {2, 3, 3, 1, 1, 1, 2}, {2, 1, 1, 4, 1, 2}, // code128
	{1, 1, 3, 3, 1}, {3, 1, 1, 1, 3}, {1, 1, 2, 2, 1}, {2, 1, 1, 1, 2}, // ITF
	{1, 1, 1, 1}, {1, 1, 2}, {1, 1, 3}, {2, 2, 2}, {1, 8}, {8, 1, 1},
}

func runC20(c *Ctx) {
	c.res.Rule = "rows: random/run-structured pixel rows (len 0..300) x start offsets x counter lengths 1..10; " +
		"pmv: every pattern of a fixed table x observed counters (exhaustive entries<=6 for short patterns, scaled/perturbed/random otherwise) x 5 variance limits; " +
		"non-trivial = distinct op line; oracle = run-length spec / exact rational formula computed in the harness"
	r := c.Rng
	// ---- RecordPattern / InReverse ----
	nRows := c.Pick(25000, 300000)
	lens := []int{0, 1, 2, 3, 31, 32, 33, 64, 65}
	for it := 0; it < nRows; it++ {
		var n int
		if it < len(lens)*4 {
			n = lens[it%len(lens)]
		} else {
			n = r.Intn(301)
		}
		bs := genRow(r, n)
		path := it % c20Paths
		row := rowFromBitsVia(bs, path, r)
		c.Note(fmt.Sprintf("rp:row-built-via-path-%d", path))
		bstr := bitsStr(bs)
		if bstr == "" {
			bstr = "-"
		}
		for k := 0; k < 6; k++ {
			start := 0
			if n > 0 {
				start = r.Intn(n + 2)
			} else {
				start = r.Intn(2)
			}
			nc := r.Range(1, 10)
			counters := make([]int, nc)
			for i := range counters {
				counters[i] = 99 // must be overwritten
			}
			goOut := Safe(func() string {
				if e := oned.RecordPattern(row, start, counters); e != nil {
					return "ERR:" + errKind(e)
				}
				return "ok " + ints(counters)
			})
			c.Cmp("rp", fmt.Sprintf("c20 rp %s %d %d", bstr, start, nc), goOut)
			// oracle: first nc maximal runs from start
			want := "ERR:notfound"
			if start < n {
				rs := goRuns(bs[start:])
				if len(rs) >= nc {
					want = "ok " + ints(rs[:nc])
				}
			}
			c.Oracle("rp", goOut == want, "rp-spec", fmt.Sprintf("rp %s %d %d", bstr, start, nc), "go="+goOut+" want="+want)
			if goOut[:2] == "ok" {
				c.Note("rp:ok")
			} else {
				c.Note("rp:" + goOut)
			}
			if start < n {
				goOutR := Safe(func() string {
					if e := oned.RecordPatternInReverse(row, start, counters); e != nil {
						return "ERR:" + errKind(e)
					}
					return "ok " + ints(counters)
				})
				c.Cmp("rpr", fmt.Sprintf("c20 rpr %s %d %d", bstr, start, nc), goOutR)
				// oracle: the nc runs that END just before the run boundary found by walking back nc+1 transitions
				wantR := "ERR:notfound"
				{
					// positions of run starts
					var starts []int
					for i := 0; i < n; i++ {
						if i == 0 || bs[i] != bs[i-1] {
							starts = append(starts, i)
						}
					}
					// index of run containing `start`
					ri := 0
					for i, s := range starts {
						if s <= start {
							ri = i
						}
					}
					// walking back: needs nc+1 transitions strictly before: run index ri-(nc+1) must exist with a preceding transition
					if ri-nc-1 >= 0 {
						b := starts[ri-nc] // first pixel of the run after the (nc+1)-th transition back
						rs := goRuns(bs[b:])
						if len(rs) >= nc {
							wantR = "ok " + ints(rs[:nc])
						}
					}
				}
				c.Oracle("rpr", goOutR == wantR, "rpr-spec", fmt.Sprintf("rpr %s %d %d", bstr, start, nc), "go="+goOutR+" want="+wantR)
				if goOutR[:2] == "ok" {
					c.Note("rpr:ok")
				} else {
					c.Note("rpr:" + goOutR)
				}
			}
		}
	}
	// ---- PatternMatchVariance ----
	limits := [][2]int64{{1, 4}, {1, 2}, {7, 10}, {39, 50}, {1, 1}, {12, 25}, {5, 2}, {3, 1}, {100, 1}} // "forall variance limits": also limits above one module
	// Half of the calls hand the pattern and the observed runs over in SHARED buffers (one backing array for every
	// pattern length / content): callers such as the readers keep counters in a reused scratch slice and slice
	// patterns out of tables, so the score must depend on the VALUES it is given, not on the identity of the slices
	// or on what was scored at that address before.
	pbuf, cbuf := make([]int, 16), make([]int, 16)
	calls := 0
	pmvCase := func(cs, ps []int, lim [2]int64) {
		mv := float64(lim[0]) / float64(lim[1])
		calls++
		acs, aps := cs, ps
		if calls%2 == 0 && len(ps) <= len(pbuf) && len(cs) <= len(cbuf) {
			aps = pbuf[:len(ps)]
			copy(aps, ps)
			acs = cbuf[:len(cs)]
			copy(acs, cs)
			c.Note("pmv:shared-backing-arrays")
		}
		goOut := Safe(func() string { return fmtF(oned.PatternMatchVariance(acs, aps, mv)) })
		T, Pq := 0, 0
		for i, x := range cs {
			T += x
			Pq += ps[i]
		}
		exact := pmvFloatExact(T, Pq, lim[1])
		c.CmpF("pmv", fmt.Sprintf("c20 pmv %s %s %d %d", ints(cs), ints(ps), lim[0], lim[1]), goOut, cmpPMVx(exact))
		inf, val, margin := refPMV(cs, ps, lim[0], lim[1])
		mf, _ := margin.Float64()
		okv := true
		switch {
		case T == 0 && Pq > 0:
			// no pixels at all: "fewer pixels than pattern modules" -> infinite (never 0/0 = NaN, never 0)
			okv = goOut == "inf"
			c.Note("pmv:no-pixels")
		case T == 0:
			okv = true // empty pattern and no pixels: outside the statement
		case mf < 1e-9 && !(exact && margin.Sign() == 0):
			c.Note("pmv:borderline-skipped")
		case inf:
			okv = goOut == "inf"
			c.Note("pmv:inf")
		default:
			var gf float64
			fmt.Sscanf(goOut, "%g", &gf)
			vf, _ := val.Float64()
			okv = goOut != "inf" && goOut != "PANIC" && math.Abs(gf-vf) <= 1e-9
			if val.Sign() == 0 {
				c.Note("pmv:zero")
			} else {
				c.Note("pmv:finite")
			}
		}
		key := "pmv-formula"
		Tp := 0
		for i := range cs {
			Tp += ps[i]
		}
		if T < Tp {
			key = "pmv-underresolved"
		}
		c.Oracle("pmv", okv, key, fmt.Sprintf("pmv %s %s %d/%d", ints(cs), ints(ps), lim[0], lim[1]), "go="+goOut)
	}
	for _, ps := range c20Patterns {
		n := len(ps)
		// exhaustive small vectors for short patterns
		if n <= c.Pick(3, 4) {
			maxv := c.Pick(5, 6)
			cs := make([]int, n)
			var rec func(i int)
			rec = func(i int) {
				if i == n {
					for _, lim := range limits[:c.Pick(3, 6)] {
						pmvCase(append([]int(nil), cs...), ps, lim)
					}
					return
				}
				for v := 0; v <= maxv; v++ {
					cs[i] = v
					rec(i + 1)
				}
			}
			rec(0)
		}
		// exact multiples and scaled perturbed vectors: score(k*c) == score(c)
		for it := 0; it < c.Pick(600, 5000); it++ {
			cs := make([]int, n)
			switch r.Intn(3) {
			case 0:
				for i := range cs {
					cs[i] = ps[i] * r.Range(1, 8)
				}
				k := r.Range(1, 8)
				for i := range cs {
					cs[i] = ps[i] * k
				}
			case 1:
				k := r.Range(1, 6)
				for i := range cs {
					cs[i] = ps[i]*k + r.Range(-2, 2)
					if cs[i] < 0 {
						cs[i] = 0
					}
				}
			default:
				for i := range cs {
					cs[i] = r.Intn(41)
				}
			}
			lim := limits[r.Intn(len(limits))]
			pmvCase(cs, ps, lim)
			k := r.Range(2, 8)
			ks := make([]int, n)
			for i := range cs {
				ks[i] = cs[i] * k
			}
			pmvCase(ks, ps, lim)
			// scale invariance on the real code
			mv := float64(lim[0]) / float64(lim[1])
			a := oned.PatternMatchVariance(cs, ps, mv)
			b := oned.PatternMatchVariance(ks, ps, mv)
			_, _, margin := refPMV(cs, ps, lim[0], lim[1])
			mf, _ := margin.Float64()
			same := (math.IsInf(a, 1) && math.IsInf(b, 1)) || math.Abs(a-b) <= 1e-9 || (math.IsNaN(a) && math.IsNaN(b))
			Tc, Pc := 0, 0
			for i := range cs {
				Tc += cs[i]
				Pc += ps[i]
			}
			if mf >= 1e-9 && Tc >= Pc { // under-resolved observations are +Inf by definition; scaling can lift them out
				c.Oracle("pmv-scale", same, "pmv-scale", fmt.Sprintf("pmv-scale %s x%d %s %d/%d", ints(cs), k, ints(ps), lim[0], lim[1]), fmt.Sprintf("score=%v scaled=%v", a, b))
			}
		}
	}
}
