// c18effects: runs the C18 effect scanner (gzxharness/c18scan) over the CURRENT working tree of the library and emits
// the result as the Lean module Gzx.Gen.C18Effects, together with the reviewed corpus lists as parsed from the text
// files (corpus/C18/*.txt, corpus/purity/*.txt).  Called by bin/check in step 1 (next to the translator) on every run;
// lean/Gzx/Obligations/C18.lean then proves, in the kernel, that every reported effect is a reviewed one.
//
// Names are emitted as Nat CODES: the number whose big-endian base-256 digits are the UTF-8 bytes of the name (shown
// in a comment beside each code).  Reason: kernel evaluation of String literals costs ~1 s per string in Lean 4.33,
// Nat literals are GMP numbers.  The codes are an injective encoding; the model driver decodes them back to text and
// the harness compares that text with its own scan and with the corpus files (suite "effects-module").
//
//	c18effects -repo R -corpus /verif/corpus -out lean/Gzx/Gen/C18Effects.lean [-json F]
//	c18effects -corpus /verif/corpus -emit-ref lean/Gzx/Ref/C18Allowed.lean      (after a REVIEWED change of the corpus files)
package main

import (
	"encoding/json"
	"flag"
	"fmt"
	"math/big"
	"os"
	"path/filepath"
	"sort"
	"strings"

	"gzxharness/c18scan"
)

func code(s string) *big.Int { return new(big.Int).SetBytes([]byte(s)) }

type item struct {
	a, b string // b == "" for single names
}

func cmpItem(x, y item) int {
	if c := code(x.a).Cmp(code(y.a)); c != 0 {
		return c
	}
	return code(x.b).Cmp(code(y.b))
}

// sortItems sorts by (code a, code b) — the order the Lean merge checks expect — and removes duplicates
func sortItems(xs []item) []item {
	sort.Slice(xs, func(i, j int) bool { return cmpItem(xs[i], xs[j]) < 0 })
	w := xs[:0]
	for i, x := range xs {
		if i == 0 || cmpItem(x, xs[i-1]) != 0 {
			w = append(w, x)
		}
	}
	return w
}

func split(xs []string, sep string) []item {
	var out []item
	for _, x := range xs {
		if sep == "" {
			out = append(out, item{a: x})
			continue
		}
		k := strings.Index(x, sep)
		if k < 0 {
			out = append(out, item{a: x, b: "?"})
			continue
		}
		out = append(out, item{a: strings.TrimSpace(x[:k]), b: strings.TrimSpace(x[k+len(sep):])})
	}
	return sortItems(out)
}

func hex(s string) string {
	if s == "" {
		return "0"
	}
	return "0x" + code(s).Text(16)
}

func emitList(sb *strings.Builder, name, doc string, xs []item, pair bool, sep string) {
	ty := "List Nat"
	if pair {
		ty = "List (Nat × Nat)"
	}
	fmt.Fprintf(sb, "/-- %s -/\ndef %s : %s := [", doc, name, ty)
	for i, x := range xs {
		c := ","
		if i == len(xs)-1 {
			c = ""
		}
		if pair {
			fmt.Fprintf(sb, "\n  (%s, %s)%s  -- %s%s%s", hex(x.a), hex(x.b), c, x.a, sep, x.b)
		} else {
			fmt.Fprintf(sb, "\n  %s%s  -- %s", hex(x.a), c, x.a)
		}
	}
	if len(xs) > 0 {
		sb.WriteString("\n")
	}
	sb.WriteString("]\n\n")
}

// readAllowed parses a reviewed list: one entry per line, '#' starts the reason / a comment
func readAllowed(path string) ([]string, error) {
	b, err := os.ReadFile(path)
	if err != nil {
		if os.IsNotExist(err) {
			return nil, nil
		}
		return nil, err
	}
	var out []string
	for _, l := range strings.Split(string(b), "\n") {
		if i := strings.Index(l, "#"); i >= 0 {
			l = l[:i]
		}
		if l = strings.TrimSpace(l); l != "" {
			out = append(out, l)
		}
	}
	return out, nil
}

type corpusList struct {
	lean, file, sep, doc string
}

var corpusLists = []corpusList{
	{"sharedWrites", "C18/allowed-shared-writes.txt", " -> ", "reviewed run-time writes of package-level state (function, variable)"},
	{"escapes", "C18/allowed-global-escapes.txt", " => ", "reviewed stores of a reference to package-level state into an object (function, variable)"},
	{"sharedTypeWrites", "C18/allowed-shared-type-writes.txt", " ~> ", "reviewed writes, after construction, of a field of a type of which a shared instance exists (function, type.field)"},
	{"syncUses", "C18/allowed-sync-uses.txt", ": ", "reviewed uses of package sync / sync/atomic (declaration, sync.X) — lazily initialised or locked state"},
	{"goStmts", "C18/allowed-go-stmts.txt", "", "reviewed functions of the library that start goroutines"},
	{"chanOps", "C18/allowed-chan-ops.txt", "", "reviewed functions of the library that use channels"},
	{"instanceWrites", "purity/allowed-instance-writes.txt", "", "reviewed instance fields written after construction (type.field)"},
}

func writeIfChanged(path, content string) error {
	if old, err := os.ReadFile(path); err == nil && string(old) == content {
		return nil
	}
	return os.WriteFile(path, []byte(content), 0o644)
}

func main() {
	repo := flag.String("repo", "", "library working tree")
	corpus := flag.String("corpus", "/verif/corpus", "corpus directory (reviewed lists)")
	out := flag.String("out", "", "path of Gzx/Gen/C18Effects.lean")
	jsonOut := flag.String("json", "", "path of a small status file for the evidence")
	emitRef := flag.String("emit-ref", "", "write Gzx/Ref/C18Allowed.lean from the corpus files and exit")
	dump := flag.Bool("dump", false, "print the raw scan as JSON")
	flag.Parse()

	lists := map[string][]item{}
	for _, cl := range corpusLists {
		xs, err := readAllowed(filepath.Join(*corpus, cl.file))
		if err != nil {
			fmt.Fprintln(os.Stderr, "c18effects:", err)
			os.Exit(2)
		}
		lists[cl.lean] = split(xs, cl.sep)
	}
	if *emitRef != "" {
		var sb strings.Builder
		sb.WriteString("/-\n  C18 — the REVIEWED lists of effects the library is allowed to have on shared and instance state, as Lean data.\n\n")
		sb.WriteString("  Source of truth: the text files corpus/C18/*.txt and corpus/purity/allowed-instance-writes.txt (entries with\n")
		sb.WriteString("  their review reasons).  This file is their image under `harness/cmd/c18effects -emit-ref` and is committed;\n")
		sb.WriteString("  `Obligations.C18.ref_*_eq_corpus` prove on every run (kernel) that it equals what the generator parses from\n")
		sb.WriteString("  the text files of that run, so the harness (which reads the text) and the theorems (which read this file)\n")
		sb.WriteString("  cannot drift apart.  After a REVIEWED change of a corpus file regenerate:\n")
		sb.WriteString("    cd harness && go run ./cmd/c18effects -corpus ../corpus -emit-ref ../lean/Gzx/Ref/C18Allowed.lean\n\n")
		sb.WriteString("  Names are Nat codes (big-endian base-256 number of the UTF-8 bytes); the text is in the comment beside each.\n-/\n")
		sb.WriteString("namespace Gzx.Ref.C18Allowed\n\n")
		for _, cl := range corpusLists {
			emitList(&sb, cl.lean, cl.doc+" — "+cl.file, lists[cl.lean], cl.sep != "", cl.sep)
		}
		sb.WriteString("end Gzx.Ref.C18Allowed\n")
		if err := writeIfChanged(*emitRef, sb.String()); err != nil {
			fmt.Fprintln(os.Stderr, "c18effects:", err)
			os.Exit(2)
		}
		return
	}

	sc, err := c18scan.ScanRepo(*repo)
	if err != nil {
		fmt.Fprintln(os.Stderr, "c18effects: scan failed:", err)
		os.Exit(2)
	}
	if *dump {
		b, _ := json.MarshalIndent(sc, "", " ")
		fmt.Println(string(b))
		return
	}
	var sb strings.Builder
	sb.WriteString("-- GENERATED by /verif/harness/cmd/c18effects (static effect scan gzxharness/c18scan) from the library's working tree\n")
	sb.WriteString("-- and /verif/corpus.  Do not edit.  Names are Nat codes: big-endian base-256 number of the UTF-8 bytes of the text\n")
	sb.WriteString("-- in the comment.  Lists are sorted by code (pairs lexicographically) without duplicates.\n")
	sb.WriteString("namespace Gzx.Gen.C18Effects\n\n")
	// variables with init-only status: two lists (all, and the ones written at run time)
	var vars, mutable []item
	for i, v := range sc.Vars {
		vars = append(vars, item{a: v})
		if !sc.InitOnly[i] {
			mutable = append(mutable, item{a: v})
		}
	}
	emitList(&sb, "vars", "every package-level variable of the library", sortItems(vars), false, "")
	emitList(&sb, "runtimeWrittenVars", "package-level variables written by code that is not init-time (all others are init-only)", sortItems(mutable), false, "")
	emitList(&sb, "sharedWrites", "(function, variable): the function, not init-time, may write the package-level variable or something reachable from it", split(sc.Writes, " -> "), true, " -> ")
	emitList(&sb, "initWrites", "(function, variable): writes by init-time code (init functions and unexported functions reachable only from them / from variable initialisers)", split(sc.InitWrites, " -> "), true, " -> ")
	emitList(&sb, "escapes", "(function, variable): the function stores a reference into package-level state into another object", split(sc.Escapes, " => "), true, " => ")
	emitList(&sb, "instanceWrites", "type.field: instance fields written after construction (through a receiver or struct-pointer parameter of a function that is neither a constructor nor init-time)", split(sc.InstWrites, ""), false, "")
	emitList(&sb, "sharedTypes", "library struct types of which an instance is reachable (by type) from a package-level variable", split(sc.SharedTypes, ""), false, "")
	emitList(&sb, "sharedTypeWrites", "(function, type.field): a field of a shared type is written after construction (lazily built tables, scratch fields of shared objects)", split(sc.SharedTypeWrites, " ~> "), true, " ~> ")
	emitList(&sb, "aliasFieldWrites", "(function, type.field): the backing store of a slice/map/pointer field of a receiver / struct-pointer parameter is written or handed on through a local alias (informational; the entries on shared types are part of sharedTypeWrites)", split(sc.AliasFieldWrites, " ~> "), true, " ~> ")
	emitList(&sb, "syncUses", "(declaration, sync.X): mentions of package sync / sync/atomic", split(sc.SyncUses, ": "), true, ": ")
	emitList(&sb, "goStmts", "functions containing a go statement", split(sc.GoStmts, ""), false, "")
	emitList(&sb, "chanOps", "functions using channels", split(sc.ChanOps, ""), false, "")
	emitList(&sb, "functions", "every declared function and method", split(sc.Funcs, ""), false, "")
	emitList(&sb, "initFunctions", "the init-time functions among them", split(sc.InitFuncs, ""), false, "")
	sb.WriteString("/-! ### the reviewed lists as parsed from the corpus text files of this run -/\n\n")
	for _, cl := range corpusLists {
		nm := "corpus" + strings.ToUpper(cl.lean[:1]) + cl.lean[1:]
		emitList(&sb, nm, cl.doc+" — "+cl.file, lists[cl.lean], cl.sep != "", cl.sep)
	}
	sb.WriteString("end Gzx.Gen.C18Effects\n")
	if err := writeIfChanged(*out, sb.String()); err != nil {
		fmt.Fprintln(os.Stderr, "c18effects:", err)
		os.Exit(2)
	}
	if *jsonOut != "" {
		st := map[string]interface{}{
			"kind": "effects", "module": "C18Effects", "lean": "*", "go": "all library packages (gzxharness/c18scan)", "status": "ok",
			"nodes": len(sc.Vars) + len(sc.Funcs) + len(sc.Writes) + len(sc.Escapes) + len(sc.InstWrites) + len(sc.SharedTypeWrites),
			"counts": map[string]int{"vars": len(sc.Vars), "functions": len(sc.Funcs), "sharedWrites": len(sc.Writes), "escapes": len(sc.Escapes),
				"instanceWrites": len(sc.InstWrites), "sharedTypes": len(sc.SharedTypes), "sharedTypeWrites": len(sc.SharedTypeWrites),
				"syncUses": len(sc.SyncUses), "goStmts": len(sc.GoStmts), "chanOps": len(sc.ChanOps)},
		}
		b, _ := json.MarshalIndent(st, "", " ")
		writeIfChanged(*jsonOut, string(b)+"\n")
	}
	fmt.Printf("c18effects: vars=%d functions=%d sharedWrites=%d escapes=%d instanceWrites=%d sharedTypeWrites=%d syncUses=%d goStmts=%d\n",
		len(sc.Vars), len(sc.Funcs), len(sc.Writes), len(sc.Escapes), len(sc.InstWrites), len(sc.SharedTypeWrites), len(sc.SyncUses), len(sc.GoStmts))
}
