// c18race: the C18 workload as a stand-alone program, built with `go build -race` (and once more without) by the C18
// suite.  Exit 0 = no mismatch (a detected data race makes the race runtime exit with 66 when
// GORACE=halt_on_error=1 exitcode=66 and print its report on stderr).
//
// -cold: cold-start mode (wp c18gen).  A fresh process is the only place where the FIRST use of the library's shared
// tables can be observed: kind after kind of operation, all goroutines are released together by a spinning barrier
// (c18work.ColdStart); nothing of the library runs before, the sequential reference is computed afterwards, then once
// more in reversed order (results must not depend on what ran earlier in the process).
package main

import (
	"flag"
	"fmt"
	"os"

	"gzxharness/c18work"
)

func main() {
	repo := flag.String("repo", "/repo", "gozxing working tree (for the Aztec test images)")
	seed := flag.Uint64("seed", 1, "seed")
	njobs := flag.Int("jobs", 48, "jobs per pass")
	k := flag.Int("k", 8, "goroutines")
	reps := flag.Int("reps", 2, "passes per goroutine")
	procs := flag.Int("procs", 8, "GOMAXPROCS")
	cold := flag.Bool("cold", false, "cold-start mode: phase-wise concurrent first use of every kind of operation")
	flag.Parse()
	c18work.LoadPhotos(*repo)
	jobs := c18work.Jobs(*seed, *njobs)
	var results [][]string
	var bad []string
	nph := 0
	if *cold {
		var phases []string
		results, phases = c18work.ColdStart(jobs, *k, *procs, *seed)
		nph = len(phases)
	} else {
		// concurrent phase first, sequential reference afterwards
		results, bad = c18work.Concurrent(jobs, *k, *reps, *procs, *seed)
	}
	want := c18work.Sequential(jobs)
	bad = append(bad, c18work.Compare(results, want)...)
	if *cold {
		rev, _ := c18work.Orders(len(jobs), *seed)
		again := c18work.SequentialOrder(jobs, rev)
		for i := range want {
			if want[i] != again[i] && len(bad) < 40 {
				bad = append(bad, fmt.Sprintf("job %d depends on the order of calls: in list order %s, in reversed order %s", i, want[i], again[i]))
			}
		}
	}
	// fingerprint of the shared init-time tables after everything has run (never before: that would warm them up)
	fmt.Println("DIGEST", c18work.SharedDigest())
	for _, b := range bad {
		fmt.Println("MISMATCH", b)
	}
	if len(bad) > 0 {
		os.Exit(3)
	}
	fmt.Printf("OK jobs=%d k=%d reps=%d procs=%d photos=%d cold-phases=%d\n", len(jobs), *k, *reps, *procs, len(c18work.Photos), nph)
}
