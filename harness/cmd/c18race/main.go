// c18race: the C18 workload as a stand-alone program, built with `go build -race` by the C18
// suite.  Exit 0 = no mismatch (a detected data race makes the race runtime exit with 66 when
// GORACE=halt_on_error=1 exitcode=66 and print its report on stderr).
package main

import (
	"flag"
	"fmt"
	"os"

	"gzxharness/c18work"
)

func main() {
	repo := flag.String("repo", "/repo", "gozxing working tree (for the Aztec test images)")
	seed := flag.Uint64("seed", 1, "seed")
	njobs := flag.Int("jobs", 48, "jobs per pass")
	k := flag.Int("k", 8, "goroutines")
	reps := flag.Int("reps", 2, "passes per goroutine")
	procs := flag.Int("procs", 8, "GOMAXPROCS")
	flag.Parse()
	c18work.LoadPhotos(*repo)
	jobs := c18work.Jobs(*seed, *njobs)
	// concurrent phase first (cold start), sequential reference afterwards
	results, bad := c18work.Concurrent(jobs, *k, *reps, *procs, *seed)
	want := c18work.Sequential(jobs)
	bad = append(bad, c18work.Compare(results, want)...)
	for _, b := range bad {
		fmt.Println("MISMATCH", b)
	}
	if len(bad) > 0 {
		os.Exit(3)
	}
	fmt.Printf("OK jobs=%d k=%d reps=%d procs=%d photos=%d\n", len(jobs), *k, *reps, *procs, len(c18work.Photos))
}
