package main

// Shared helpers of the QR decoder work package (suites C01, C05, C15): matrix conversions, placement
// maps obtained from the REAL encoder by differential probing, codec lookup, canonical output of the Go
// decoder layers and the comparator that turns the model's (charset, bytes) segments into text through
// golang.org/x/text.

import (
	"encoding/hex"
	"fmt"
	"image"
	"strconv"
	"strings"
	"sync"

	"golang.org/x/text/encoding"
	"golang.org/x/text/encoding/charmap"
	"golang.org/x/text/encoding/ianaindex"
	"golang.org/x/text/encoding/japanese"
	"golang.org/x/text/encoding/unicode"
	"golang.org/x/text/transform"

	"github.com/makiuchi-d/gozxing"
	"github.com/makiuchi-d/gozxing/common"
	"github.com/makiuchi-d/gozxing/qrcode/decoder"
	"github.com/makiuchi-d/gozxing/qrcode/encoder"
)

var cqrLevels = []decoder.ErrorCorrectionLevel{decoder.ErrorCorrectionLevel_L, decoder.ErrorCorrectionLevel_M,
	decoder.ErrorCorrectionLevel_Q, decoder.ErrorCorrectionLevel_H}

func cqrBitMatrixOf(bm *encoder.ByteMatrix) *gozxing.BitMatrix {
	w, h := bm.GetWidth(), bm.GetHeight()
	m, _ := gozxing.NewBitMatrix(w, h)
	for y := 0; y < h; y++ {
		for x := 0; x < w; x++ {
			if bm.Get(x, y) == 1 {
				m.Set(x, y)
			}
		}
	}
	return m
}

func cqrClone(m *gozxing.BitMatrix) *gozxing.BitMatrix {
	w, h := m.GetWidth(), m.GetHeight()
	c, _ := gozxing.NewBitMatrix(w, h)
	var row *gozxing.BitArray
	for y := 0; y < h; y++ {
		row = m.GetRow(y, row)
		c.SetRow(y, row)
	}
	return c
}

func cqrTranspose(m *gozxing.BitMatrix) *gozxing.BitMatrix {
	w, h := m.GetWidth(), m.GetHeight()
	c, _ := gozxing.NewBitMatrix(h, w)
	for y := 0; y < h; y++ {
		for x := 0; x < w; x++ {
			if m.Get(x, y) {
				c.Set(y, x)
			}
		}
	}
	return c
}

// row-major bit string of a matrix
func cqrBits(m *gozxing.BitMatrix) string {
	w, h := m.GetWidth(), m.GetHeight()
	b := make([]byte, 0, w*h)
	for y := 0; y < h; y++ {
		for x := 0; x < w; x++ {
			if m.Get(x, y) {
				b = append(b, '1')
			} else {
				b = append(b, '0')
			}
		}
	}
	return string(b)
}

func cqrImageOf(m *gozxing.BitMatrix) image.Image {
	w, h := m.GetWidth(), m.GetHeight()
	img := image.NewGray(image.Rect(0, 0, w, h))
	for y := 0; y < h; y++ {
		for x := 0; x < w; x++ {
			if m.Get(x, y) {
				img.Pix[y*img.Stride+x] = 0
			} else {
				img.Pix[y*img.Stride+x] = 255
			}
		}
	}
	return img
}

func cqrSegList(bs [][]byte) string {
	if len(bs) == 0 {
		return "-"
	}
	parts := make([]string, len(bs))
	for i, b := range bs {
		parts[i] = hexs(b)
	}
	return strings.Join(parts, ";")
}

// canonical output of a DecoderResult (the part produced by DecodedBitStreamParser_Decode)
func cqrParsedOut(r *common.DecoderResult) string {
	return fmt.Sprintf("text=%s bs=%s sa=%d,%d sm=%d", hexs([]byte(r.GetText())), cqrSegList(r.GetByteSegments()),
		r.GetStructuredAppendSequenceNumber(), r.GetStructuredAppendParity(), r.GetSymbologyModifier())
}

// ---- decode-side charset hint: harness value, op-line token ----

type cqrHint struct {
	tok  string // op-line token: "-", "o:<id>", "n<flag>:<name>"
	hint map[gozxing.DecodeHintType]interface{}
}

var cqrHintObjects = map[string]encoding.Encoding{
	"koi8r":   charmap.KOI8R,
	"eucjp":   japanese.EUCJP,
	"utf16le": unicode.UTF16(unicode.LittleEndian, unicode.IgnoreBOM),
	"cp866":   charmap.CodePage866,
}

func cqrNoHint() cqrHint { return cqrHint{"-", nil} }

func cqrObjHint(id string) cqrHint {
	return cqrHint{"o:" + id, map[gozxing.DecodeHintType]interface{}{gozxing.DecodeHintType_CHARACTER_SET: cqrHintObjects[id]}}
}

// hint by name; the IANA-index behaviour for the name (parameter of the model) is observed on the real index
func cqrNameHint(name string) cqrHint {
	flag := 0
	if enc, err := ianaindex.IANA.Encoding(name); err == nil {
		if enc != nil {
			flag = 1
		} else {
			flag = 2
		}
	}
	return cqrHint{fmt.Sprintf("n%d:%s", flag, name),
		map[gozxing.DecodeHintType]interface{}{gozxing.DecodeHintType_CHARACTER_SET: name}}
}

// ---- charset by the model's name ----

func cqrCharsetByShow(s string) encoding.Encoding {
	switch {
	case s == "UTF-8":
		return unicode.UTF8
	case s == "Shift_JIS":
		return japanese.ShiftJIS
	case s == "ISO-8859-1":
		return charmap.ISO8859_1
	case s == "UTF-16BE+BOM":
		return unicode.UTF16(unicode.BigEndian, unicode.UseBOM)
	case s == "UTF-16LE+BOM":
		return unicode.UTF16(unicode.LittleEndian, unicode.UseBOM)
	case strings.HasPrefix(s, "reg:"):
		if e, ok := common.GetCharacterSetECIByName(s[4:]); ok {
			return e.GetCharset()
		}
	case strings.HasPrefix(s, "obj:"):
		return cqrHintObjects[s[4:]]
	case strings.HasPrefix(s, "iana:"):
		e, _ := ianaindex.IANA.Encoding(s[5:])
		return e
	}
	return nil
}

// name of an encoding in the model's vocabulary (for guessCharset comparisons)
func cqrShowCharset(e encoding.Encoding) string {
	if e == nil {
		return "nil"
	}
	switch e {
	case unicode.UTF8:
		return "UTF-8"
	case japanese.ShiftJIS:
		return "Shift_JIS"
	case charmap.ISO8859_1:
		return "ISO-8859-1"
	}
	for id, o := range cqrHintObjects {
		if o == e {
			return "obj:" + id
		}
	}
	s := fmt.Sprintf("%v", e)
	if e == unicode.UTF16(unicode.BigEndian, unicode.UseBOM) {
		return "UTF-16BE+BOM"
	}
	if e == unicode.UTF16(unicode.LittleEndian, unicode.UseBOM) {
		return "UTF-16LE+BOM"
	}
	return "other:" + s
}

// segsToText turns the model's "R|hex;T|cs|hex" list into the hex of the text Go's codecs produce
func cqrSegsToText(segs string) (string, bool) {
	if segs == "-" {
		return "-", true
	}
	var out []byte
	for _, s := range strings.Split(segs, ";") {
		p := strings.Split(s, "|")
		switch {
		case len(p) == 2 && p[0] == "R":
			b, err := cqrUnhex(p[1])
			if err != nil {
				return "", false
			}
			out = append(out, b...)
		case len(p) == 3 && p[0] == "T":
			b, err := cqrUnhex(p[2])
			if err != nil {
				return "", false
			}
			enc := cqrCharsetByShow(p[1])
			if enc == nil {
				return "", false
			}
			var e error
			out, _, e = transform.Append(enc.NewDecoder(), out, b)
			if e != nil {
				return "", false
			}
		default:
			return "", false
		}
	}
	return hexs(out), true
}

func cqrUnhex(s string) ([]byte, error) {
	if s == "-" {
		return nil, nil
	}
	return hex.DecodeString(s)
}

// comparator for parse/decode lines: the model prints segs=…, Go prints text=…
func cqrCmpParsed(goOut, model string) (ok, skip bool) {
	toks := strings.Split(model, " ")
	for i, t := range toks {
		if strings.HasPrefix(t, "segs=") {
			txt, good := cqrSegsToText(t[5:])
			if !good {
				return false, false
			}
			toks[i] = "text=" + txt
		}
	}
	return strings.Join(toks, " ") == goOut, false
}

// ---- Go decoder layers ----

func cqrGoParse(bytes []byte, version int, ec decoder.ErrorCorrectionLevel, h cqrHint) string {
	return Safe(func() string {
		v, e := decoder.Version_GetVersionForNumber(version)
		if e != nil {
			return "ERR:" + errKind(e)
		}
		r, e := decoder.DecodedBitStreamParser_Decode(bytes, v, ec, h.hint)
		if e != nil {
			return "ERR:" + errKind(e)
		}
		return "ok " + cqrParsedOut(r)
	})
}

// format / version / raw codewords as read by the real BitMatrixParser (works on a clone)
func cqrGoReadCodewords(m *gozxing.BitMatrix, mirror bool) string {
	return Safe(func() string {
		p, e := decoder.NewBitMatrixParser(cqrClone(m))
		if e != nil {
			return "ERR:" + errKind(e)
		}
		if mirror {
			p.SetMirror(true)
		}
		v, e := p.ReadVersion()
		if e != nil {
			return "ERR:format"
		}
		fi, e := p.ReadFormatInformation()
		if e != nil {
			return "ERR:" + errKind(e)
		}
		if mirror {
			p.Mirror()
		}
		cw, e := p.ReadCodewords()
		if e != nil {
			return "ERR:" + errKind(e)
		}
		return fmt.Sprintf("ok fmt=%s,%d ver=%d cw=%s", fi.GetErrorCorrectionLevel().String(), fi.GetDataMask(), v.GetVersionNumber(), hexs(cw))
	})
}

func cqrGoDeinterleave(raw []byte, version int, ec decoder.ErrorCorrectionLevel) string {
	return Safe(func() string {
		v, e := decoder.Version_GetVersionForNumber(version)
		if e != nil {
			return "ERR:" + errKind(e)
		}
		bs, e := decoder.DataBlock_GetDataBlocks(raw, v, ec)
		if e != nil {
			return "ERR:" + errKind(e)
		}
		parts := make([]string, len(bs))
		for i, b := range bs {
			parts[i] = fmt.Sprintf("%d:%s", b.GetNumDataCodewords(), hexs(b.GetCodewords()))
		}
		if len(parts) == 0 {
			return "ok -"
		}
		return "ok " + strings.Join(parts, ";")
	})
}

// ---- long-lived decoders: every matrix-level decode of the C01/C05/C06 suites is ALSO run on a decoder object that has
// decoded other symbols before (other versions, other levels of the same version, damaged ones); its answer must equal
// the fresh decoder's.  Mismatches are collected here and turned into oracle verdicts by cqrDrainReuse.
type cqrLongDec struct {
	qr   *decoder.Decoder
	hist []string
}

type cqrReuseMismatch struct{ what, hist, fresh, reused string }

var (
	cqrLongPool   = make(chan *cqrLongDec, 64)
	cqrReuseMu    sync.Mutex
	cqrReuseDiffs []cqrReuseMismatch
	cqrReuseCalls int
)

func cqrMatrixDesc(m *gozxing.BitMatrix) string {
	var sb strings.Builder
	fmt.Fprintf(&sb, "%dx%d:", m.GetWidth(), m.GetHeight())
	for y := 0; y < m.GetHeight(); y++ {
		var acc byte
		for x := 0; x < m.GetWidth(); x++ {
			acc <<= 1
			if m.Get(x, y) {
				acc |= 1
			}
			if x%8 == 7 || x == m.GetWidth()-1 {
				fmt.Fprintf(&sb, "%02x", acc)
				acc = 0
			}
		}
		sb.WriteByte('/')
	}
	return sb.String()
}

func cqrDrainReuse(c *Ctx, suite string) {
	cqrReuseMu.Lock()
	defer cqrReuseMu.Unlock()
	c.NoteN("decoder-reuse:decodes-repeated-on-a-long-lived-Decoder", cqrReuseCalls)
	cqrReuseCalls = 0
	for _, d := range cqrReuseDiffs {
		c.Oracle(suite, false, "qr-decoder-reuse", "one long-lived qrcode/decoder.Decoder; earlier symbols: "+d.hist+" ; then: "+d.what,
			"long-lived Decoder answered "+c05Short(d.reused)+" ; a fresh Decoder answers "+c05Short(d.fresh))
	}
	if len(cqrReuseDiffs) == 0 {
		c.Oracle(suite, true, "", "long-lived decoders agreed with fresh ones", "")
	}
	cqrReuseDiffs = nil
}

func cqrDecodeOut(d *decoder.Decoder, m *gozxing.BitMatrix, h cqrHint) (string, *common.DecoderResult) {
	var res *common.DecoderResult
	out := Safe(func() string {
		r, e := d.Decode(cqrClone(m), h.hint)
		if e != nil {
			return "ERR:" + errKind(e)
		}
		if r == nil {
			return "ERR:nil-nil"
		}
		res = r
		mir := 0
		if md, ok := r.GetOther().(*decoder.QRCodeDecoderMetaData); ok && md.IsMirrored() {
			mir = 1
		}
		return fmt.Sprintf("ok ec=%s mir=%d data=%s %s", r.GetECLevel(), mir, hexs(r.GetRawBytes()), cqrParsedOut(r))
	})
	return out, res
}

func cqrGoDecode(m *gozxing.BitMatrix, h cqrHint) (string, *common.DecoderResult) {
	out, res := cqrDecodeOut(decoder.NewDecoder(), m, h)
	var ld *cqrLongDec
	select {
	case ld = <-cqrLongPool:
	default:
		ld = &cqrLongDec{qr: decoder.NewDecoder()}
	}
	out2, _ := cqrDecodeOut(ld.qr, m, h)
	desc := fmt.Sprintf("%dx%d -> %s", m.GetWidth(), m.GetHeight(), c05Short(out))
	cqrReuseMu.Lock()
	cqrReuseCalls++
	if out2 != out && len(cqrReuseDiffs) < 5 {
		cqrReuseDiffs = append(cqrReuseDiffs, cqrReuseMismatch{cqrMatrixDesc(m), strings.Join(ld.hist, " ; "), out, out2})
	}
	cqrReuseMu.Unlock()
	ld.hist = append(ld.hist, desc)
	if len(ld.hist) > 3 {
		ld.hist = ld.hist[len(ld.hist)-3:]
	}
	select {
	case cqrLongPool <- ld:
	default:
	}
	return out, res
}

// ---- QR placement map from the real encoder (differential probing of MatrixUtil_buildMatrix) ----

type cqrPlacement struct {
	dim   int
	cells [][2]int // cells[bitIndex] = (x, y) of the module that carries bit `bitIndex` of the codeword stream
}

var (
	cqrPlMu    sync.Mutex
	cqrPlCache = map[int]*cqrPlacement{}
)

// The map depends on the version only.  Build the matrix with mask 0 for the all-zero stream and for
// 16 labelled streams (bit i of the stream carries bit b of i): a module that differs from the zero build
// in build b carries a stream bit whose index has bit b set.  Modules that never differ are function
// modules or remainder bits.
func cqrPlacementOf(version int) *cqrPlacement {
	cqrPlMu.Lock()
	defer cqrPlMu.Unlock()
	if p, ok := cqrPlCache[version]; ok {
		return p
	}
	v, _ := decoder.Version_GetVersionForNumber(version)
	dim := v.GetDimensionForVersion()
	nbits := v.GetTotalCodewords() * 8
	build := func(f func(i int) bool) *encoder.ByteMatrix {
		bits := gozxing.NewEmptyBitArray()
		for i := 0; i < nbits; i++ {
			bits.AppendBit(f(i))
		}
		m := encoder.NewByteMatrix(dim, dim)
		if e := encoder.MatrixUtil_buildMatrix(bits, decoder.ErrorCorrectionLevel_L, v, 0, m); e != nil {
			panic(e)
		}
		return m
	}
	zero := build(func(int) bool { return false })
	// index+1 is labelled so that bit index 0 is distinguishable from "never differs"
	idx := make([]int, dim*dim)
	for b := 0; b < 16; b++ {
		mb := build(func(i int) bool { return (i+1)>>uint(b)&1 == 1 })
		for y := 0; y < dim; y++ {
			for x := 0; x < dim; x++ {
				if mb.Get(x, y) != zero.Get(x, y) {
					idx[y*dim+x] |= 1 << uint(b)
				}
			}
		}
	}
	p := &cqrPlacement{dim: dim, cells: make([][2]int, nbits)}
	seen := 0
	for y := 0; y < dim; y++ {
		for x := 0; x < dim; x++ {
			if k := idx[y*dim+x]; k > 0 {
				p.cells[k-1] = [2]int{x, y}
				seen++
			}
		}
	}
	if seen != nbits {
		panic(fmt.Sprintf("placement probing of version %d found %d of %d bit cells", version, seen, nbits))
	}
	cqrPlCache[version] = p
	return p
}

// set codeword k (position in the interleaved stream) of matrix m from value old to value nw
func (p *cqrPlacement) rewrite(m *gozxing.BitMatrix, k int, old, nw byte) {
	d := old ^ nw
	for b := 0; b < 8; b++ {
		if d&(0x80>>uint(b)) != 0 {
			c := p.cells[8*k+b]
			m.Flip(c[0], c[1])
		}
	}
}

// blockOf[k] = RS block of stream position k, for the standard's interleaving of (version, level)
func cqrBlockMap(v *decoder.Version, ec decoder.ErrorCorrectionLevel) (blockOf []int, ecPerBlock int, nBlocks int) {
	ecb := v.GetECBlocksForLevel(ec)
	ecPerBlock = ecb.GetECCodewordsPerBlock()
	var dataLens []int
	for _, g := range ecb.GetECBlocks() {
		for i := 0; i < g.GetCount(); i++ {
			dataLens = append(dataLens, g.GetDataCodewords())
		}
	}
	nBlocks = len(dataLens)
	maxData := 0
	for _, d := range dataLens {
		if d > maxData {
			maxData = d
		}
	}
	for i := 0; i < maxData; i++ {
		for j, d := range dataLens {
			if i < d {
				blockOf = append(blockOf, j)
			}
		}
	}
	for i := 0; i < ecPerBlock; i++ {
		for j := range dataLens {
			blockOf = append(blockOf, j)
		}
	}
	return
}

func cqrAtoi(s string) int { n, _ := strconv.Atoi(s); return n }
