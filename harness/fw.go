// Correspondence-harness framework: runs the real gozxing code in-process, pipes the same
// operations to the Lean model driver (gzxdriver) and compares canonicalised outputs.
package main

import (
	"bufio"
	"crypto/sha1"
	"encoding/hex"
	"encoding/json"
	"fmt"
	"io"
	"os"
	"os/exec"
	"sort"
	"strings"
	"sync"
	"time"
)

// ---------- PRNG (splitmix64), every random choice derives from VERIF_SEED ----------

type Rng struct{ s uint64 }

// NewRng: the state is a full avalanche mix of the seed, so that consecutive seeds give unrelated streams
// (seed*golden would make the streams of s and s+1 the same sequence shifted by one draw).
func NewRng(seed uint64) *Rng {
	z := seed + 0x9E3779B97F4A7C15
	z = (z ^ (z >> 30)) * 0xBF58476D1CE4E5B9
	z = (z ^ (z >> 27)) * 0x94D049BB133111EB
	z ^= z >> 31
	z = (z ^ 0xA5A5A5A55A5A5A5A) * 0xD6E8FEB86659FD93
	z ^= z >> 32
	return &Rng{z}
}
func (r *Rng) U64() uint64 {
	r.s += 0x9E3779B97F4A7C15
	z := r.s
	z = (z ^ (z >> 30)) * 0xBF58476D1CE4E5B9
	z = (z ^ (z >> 27)) * 0x94D049BB133111EB
	return z ^ (z >> 31)
}
func (r *Rng) Intn(n int) int {
	if n <= 0 {
		return 0
	}
	return int(r.U64() % uint64(n))
}
func (r *Rng) Range(lo, hi int) int { return lo + r.Intn(hi-lo+1) } // inclusive
func (r *Rng) Bool() bool         { return r.U64()&1 == 1 }
func (r *Rng) Chance(p float64) bool {
	return float64(r.U64()>>11)/float64(1<<53) < p
}
func (r *Rng) Pick(xs []int) int       { return xs[r.Intn(len(xs))] }
func (r *Rng) PickS(xs []string) string { return xs[r.Intn(len(xs))] }
func (r *Rng) Fork() *Rng              { return NewRng(r.U64()) }

// ---------- result records ----------

type Disagreement struct {
	Suite string `json:"suite"`
	Op    string `json:"op"`
	Go    string `json:"go"`
	Model string `json:"model"`
}

type Violation struct {
	Suite  string      `json:"suite"`
	Key    string      `json:"key"`    // canonical identity of the failing case (matched against known-findings.json)
	Input  interface{} `json:"input"`  // full replayable input
	Detail string      `json:"detail"` // what the real code did vs. what the property demands
}

// Premise is a statically checked assumption of the model about the code (e.g. "methods keep no state between
// calls other than the reviewed fields") that no longer holds.  Like a broken proof obligation it triggers the
// failing-input search; it is never by itself a failing input.
type Premise struct {
	Name   string `json:"name"`
	Detail string `json:"detail"`
}

type Result struct {
	Property       string         `json:"property"`
	Tier           string         `json:"tier"`
	Seed           uint64         `json:"seed"`
	Evaluations    int            `json:"evaluations"`
	Distinct       int            `json:"distinct_nontrivial"`
	ModelCompared  int            `json:"traces_validated_against_impl"`
	Skipped        int            `json:"skipped_borderline"`
	Disagreements  []Disagreement `json:"disagreements"`
	NDisagreements int            `json:"n_disagreements"`
	Violations     []Violation    `json:"violations"`
	NViolations    int            `json:"n_violations"`
	Premises       []Premise      `json:"broken_premises"` // modelling premises about the code that no longer check (not failing inputs)
	Distribution   map[string]int `json:"distribution"`
	Samples        []string       `json:"samples"`
	Rule           string         `json:"rule"`
	Exhaustive     bool           `json:"exhaustive"`
	WallS          float64        `json:"wall_s"`
	Notes          []string       `json:"notes"`
}

// ---------- driver pool ----------

type driverProc struct {
	cmd *exec.Cmd
	in  *bufio.Writer
	inC io.WriteCloser
	out *bufio.Reader
}

func startDriver(path string) (*driverProc, error) {
	cmd := exec.Command(path)
	in, err := cmd.StdinPipe()
	if err != nil {
		return nil, err
	}
	out, err := cmd.StdoutPipe()
	if err != nil {
		return nil, err
	}
	cmd.Stderr = os.Stderr
	if err := cmd.Start(); err != nil {
		return nil, err
	}
	return &driverProc{cmd, bufio.NewWriterSize(in, 1<<20), in, bufio.NewReaderSize(out, 1<<20)}, nil
}

func (d *driverProc) query(lines []string) ([]string, error) {
	errc := make(chan error, 1)
	go func() {
		for _, l := range lines {
			if strings.ContainsAny(l, "\n\r") {
				l = strings.NewReplacer("\n", "\\n", "\r", "\\r").Replace(l)
			}
			d.in.WriteString(l)
			d.in.WriteByte('\n')
		}
		d.in.WriteString("#flush\n")
		errc <- d.in.Flush()
	}()
	res := make([]string, 0, len(lines))
	for range lines {
		s, err := d.out.ReadString('\n')
		if err != nil {
			return res, fmt.Errorf("driver died after %d of %d lines: %v", len(res), len(lines), err)
		}
		res = append(res, strings.TrimRight(s, "\n"))
	}
	if err := <-errc; err != nil {
		return res, err
	}
	return res, nil
}

func (d *driverProc) close() {
	d.inC.Close()
	d.cmd.Wait()
}

// ---------- context ----------

type pending struct {
	suite string
	op    string
	goOut string
	cmp   func(goOut, model string) (ok, skip bool)
}

type Ctx struct {
	Prop     string
	Tier     string
	Thorough bool
	Seed     uint64
	Rng      *Rng
	Deadline time.Time

	driverPath string
	mu         sync.Mutex
	drivers    chan *driverProc
	queue      []pending
	queueBytes int
	wg         sync.WaitGroup
	seen       map[[8]byte]struct{}
	res        Result
	sampleEvery int
	noDriver    bool
}

const maxKeep = 25

func newCtx(prop, tier string, seed uint64, driverPath string, nDrivers int) (*Ctx, error) {
	c := &Ctx{Prop: prop, Tier: tier, Thorough: tier == "thorough", Seed: seed, Rng: NewRng(seed),
		driverPath: driverPath, seen: map[[8]byte]struct{}{}}
	c.res.Property, c.res.Tier, c.res.Seed = prop, tier, seed
	c.res.Distribution = map[string]int{}
	if driverPath == "none" {
		c.noDriver = true
		nDrivers = 0
		c.res.Notes = append(c.res.Notes, "model driver unavailable: correspondence cases counted but not compared")
	}
	c.drivers = make(chan *driverProc, nDrivers)
	for i := 0; i < nDrivers; i++ {
		d, err := startDriver(driverPath)
		if err != nil {
			return nil, err
		}
		c.drivers <- d
	}
	return c, nil
}

// Pick returns q in the quick tier and t in the thorough tier.
func (c *Ctx) Pick(q, t int) int {
	if c.Thorough {
		return t
	}
	return q
}

func (c *Ctx) Note(key string) {
	c.mu.Lock()
	c.res.Distribution[key]++
	c.mu.Unlock()
}

func (c *Ctx) NoteN(key string, n int) {
	c.mu.Lock()
	c.res.Distribution[key] += n
	c.mu.Unlock()
}

func (c *Ctx) Remark(s string) {
	c.mu.Lock()
	c.res.Notes = append(c.res.Notes, s)
	c.mu.Unlock()
}

func (c *Ctx) countCase(op string) {
	h := sha1.Sum([]byte(op))
	var k [8]byte
	copy(k[:], h[:8])
	c.res.Evaluations++
	if _, ok := c.seen[k]; !ok {
		c.seen[k] = struct{}{}
		c.res.Distinct++
		if len(c.res.Samples) < 6 || (c.res.Distinct%997 == 0 && len(c.res.Samples) < 40) {
			s := op
			if len(s) > 400 {
				s = s[:400] + "..."
			}
			c.res.Samples = append(c.res.Samples, s)
		}
	}
}

// Cmp queues a correspondence case: the model driver's answer to `op` must equal goOut.
func (c *Ctx) Cmp(suite, op, goOut string) { c.CmpF(suite, op, goOut, nil) }

// CmpF is Cmp with a custom comparator (e.g. float tolerance); skip=true means "borderline, not compared".
func (c *Ctx) CmpF(suite, op, goOut string, cmp func(goOut, model string) (ok, skip bool)) {
	c.mu.Lock()
	c.countCase(op)
	if c.noDriver {
		c.res.Skipped++
		c.mu.Unlock()
		return
	}
	c.queue = append(c.queue, pending{suite, op, goOut, cmp})
	c.queueBytes += len(op)
	var batch []pending
	if len(c.queue) >= 4000 || c.queueBytes >= 1<<20 { // also bound a batch by size: long op lines (matrices) spread over the drivers
		batch = c.queue
		c.queue = nil
		c.queueBytes = 0
	}
	c.mu.Unlock()
	if batch != nil {
		c.dispatch(batch)
	}
}

func (c *Ctx) dispatch(batch []pending) {
	c.wg.Add(1)
	d := <-c.drivers
	go func() {
		defer c.wg.Done()
		lines := make([]string, len(batch))
		for i, p := range batch {
			lines[i] = p.op
		}
		outs, err := d.query(lines)
		if err != nil {
			c.Remark("driver error: " + err.Error())
			// replace the dead driver
			d.close()
			nd, e2 := startDriver(c.driverPath)
			if e2 == nil {
				d = nd
			}
		}
		c.drivers <- d
		c.mu.Lock()
		defer c.mu.Unlock()
		for i, p := range batch {
			m := "DRIVER-DIED"
			if i < len(outs) {
				m = outs[i]
			}
			ok, skip := false, false
			if p.cmp != nil {
				ok, skip = p.cmp(p.goOut, m)
			} else {
				ok = p.goOut == m
			}
			if skip {
				c.res.Skipped++
				continue
			}
			c.res.ModelCompared++
			if !ok {
				c.res.NDisagreements++
				if len(c.res.Disagreements) < maxKeep {
					c.res.Disagreements = append(c.res.Disagreements, Disagreement{p.suite, p.op, p.goOut, m})
				}
			}
		}
	}()
}

// Flush sends everything queued and waits for all comparisons.
func (c *Ctx) Flush() {
	c.mu.Lock()
	batch := c.queue
	c.queue = nil
	c.mu.Unlock()
	if len(batch) > 0 {
		c.dispatch(batch)
	}
	c.wg.Wait()
}

// Model synchronously asks the driver (used by suites that need model output to build inputs,
// e.g. reference symbols).
func (c *Ctx) Model(lines []string) []string {
	if c.noDriver {
		outs := make([]string, len(lines))
		for i := range outs {
			outs[i] = "NO-DRIVER"
		}
		return outs
	}
	d := <-c.drivers
	outs, err := d.query(lines)
	if err != nil {
		c.Remark("driver error: " + err.Error())
		d.close()
		if nd, e2 := startDriver(c.driverPath); e2 == nil {
			d = nd
		}
		for len(outs) < len(lines) {
			outs = append(outs, "DRIVER-DIED")
		}
	}
	c.drivers <- d
	return outs
}

// Oracle records the property-level verdict of one case on the REAL code.
// ok=false is a violation of the property itself (independent of the model).
func (c *Ctx) Oracle(suite string, ok bool, key string, input interface{}, detail string) {
	c.mu.Lock()
	defer c.mu.Unlock()
	c.countCase("oracle|" + suite + "|" + fmt.Sprint(input))
	if ok {
		return
	}
	c.res.NViolations++
	for _, v := range c.res.Violations {
		if v.Key == key {
			return // one representative per key
		}
	}
	if len(c.res.Violations) < maxKeep {
		c.res.Violations = append(c.res.Violations, Violation{suite, key, input, detail})
	}
}

// BrokenPremise records a modelling premise that no longer checks.
func (c *Ctx) BrokenPremise(name, detail string) {
	c.mu.Lock()
	defer c.mu.Unlock()
	for _, p := range c.res.Premises {
		if p.Name == name {
			return
		}
	}
	c.res.Premises = append(c.res.Premises, Premise{name, detail})
}

func (c *Ctx) TimeLeft() bool { return time.Now().Before(c.Deadline) }

// Parallel runs f(i, rng_i) for i in [0,n) on up to `workers` goroutines; rng_i derives from the seed and i only.
func (c *Ctx) Parallel(n, workers int, f func(i int, r *Rng)) {
	base := c.Rng.U64()
	var wg sync.WaitGroup
	ch := make(chan int)
	for w := 0; w < workers; w++ {
		wg.Add(1)
		go func() {
			defer wg.Done()
			for i := range ch {
				f(i, NewRng(base^(uint64(i)*0xD1B54A32D192ED03+1)))
			}
		}()
	}
	for i := 0; i < n; i++ {
		ch <- i
	}
	close(ch)
	wg.Wait()
}

func (c *Ctx) finish(start time.Time, outPath string) error {
	c.Flush()
	n := cap(c.drivers)
	for i := 0; i < n; i++ {
		d := <-c.drivers
		d.close()
	}
	c.res.WallS = time.Since(start).Seconds()
	sort.Strings(c.res.Notes)
	b, _ := json.MarshalIndent(&c.res, "", " ")
	return os.WriteFile(outPath, b, 0o644)
}

// ---------- safety wrappers ----------

// Safe runs f and maps a panic to the pseudo-result "PANIC".
func Safe(f func() string) (out string) {
	defer func() {
		if r := recover(); r != nil {
			out = "PANIC"
		}
	}()
	return f()
}

// SafeT is Safe with a watchdog: "TIMEOUT" if f does not return in d (the goroutine is leaked).
// A verdict "the call does not return" must not depend on how busy the machine is: on a loaded host (several checks
// at once, a garbage-collection pause under memory pressure) a goroutine can be starved for many seconds although the
// call itself takes a millisecond.  When the limit d passes, the SAME call (no re-execution, so no side effects twice)
// is therefore given a grace period of nine more d, at least 60 s in total; a call that is really spinning still ends
// as TIMEOUT, a starved one returns its real result.
func SafeT(d time.Duration, f func() string) string {
	ch := make(chan string, 1)
	go func() { ch <- Safe(f) }()
	select {
	case s := <-ch:
		return s
	case <-time.After(d):
	}
	grace := 9 * d
	if d+grace < 60*time.Second {
		grace = 60*time.Second - d
	}
	select {
	case s := <-ch:
		return s
	case <-time.After(grace):
		return "TIMEOUT"
	}
}

func hexs(b []byte) string {
	if len(b) == 0 {
		return "-"
	}
	return hex.EncodeToString(b)
}

func ints(xs []int) string {
	if len(xs) == 0 {
		return "-"
	}
	var sb strings.Builder
	for i, x := range xs {
		if i > 0 {
			sb.WriteByte(',')
		}
		fmt.Fprintf(&sb, "%d", x)
	}
	return sb.String()
}

func bitsStr(bs []bool) string {
	b := make([]byte, len(bs))
	for i, x := range bs {
		if x {
			b[i] = '1'
		} else {
			b[i] = '0'
		}
	}
	return string(b)
}
