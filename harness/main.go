package main

import (
	"flag"
	"fmt"
	"os"
	"runtime"
	"sort"
	"strconv"
	"strings"
	"time"

	"github.com/makiuchi-d/gozxing"
)

// suites maps a property id to its correspondence / oracle suite.
var suites = map[string]func(*Ctx){}

// replayers re-execute one recorded input (as written into a replay file) on the real code.
var replayers = map[string]func(c *Ctx, suite string, input string) string{}

func errKind(e error) string {
	if e == nil {
		return "nil"
	}
	switch e.(type) {
	case gozxing.NotFoundException:
		return "notfound"
	case gozxing.ChecksumException:
		return "checksum"
	case gozxing.FormatException:
		return "format"
	case gozxing.ReaderException:
		return "reader"
	case gozxing.WriterException:
		return "writer"
	}
	if strings.HasPrefix(e.Error(), "IllegalArgumentException") {
		return "illegalarg"
	}
	if strings.HasPrefix(e.Error(), "IllegalStateException") {
		return "illegalstate"
	}
	return "other"
}

func main() {
	prop := flag.String("prop", "", "property id (C01..C20)")
	tier := flag.String("tier", "quick", "quick|thorough")
	driver := flag.String("driver", "/verif/lean/.lake/build/bin/gzxdriver", "path of the Lean model driver")
	out := flag.String("out", "", "result json path")
	budget := flag.Int("budget", 0, "soft time budget in seconds for open-ended generators (0 = tier default)")
	list := flag.Bool("list", false, "list suites")
	dumpScan := flag.String("dump-scan", "", "print the static scan of the repository: writes | escapes | instance-writes")
	flag.Parse()
	if *dumpScan != "" {
		sc, err := c18ScanRepo(c06RepoDir())
		if err != nil {
			fmt.Fprintln(os.Stderr, err)
			os.Exit(2)
		}
		xs := sc.Writes
		switch *dumpScan {
		case "escapes":
			xs = sc.Escapes
		case "instance-writes":
			xs = sc.InstWrites
		}
		fmt.Println(strings.Join(xs, "\n"))
		return
	}
	if *list {
		var ks []string
		for k := range suites {
			ks = append(ks, k)
		}
		sort.Strings(ks)
		fmt.Println(strings.Join(ks, " "))
		return
	}
	seed := uint64(1)
	if s := os.Getenv("VERIF_SEED"); s != "" {
		if v, err := strconv.ParseUint(s, 10, 64); err == nil {
			seed = v
		}
	}
	f, ok := suites[*prop]
	if !ok {
		fmt.Fprintln(os.Stderr, "unknown property", *prop)
		os.Exit(2)
	}
	nd := runtime.NumCPU() / 2
	if nd < 2 {
		nd = 2
	}
	c, err := newCtx(*prop, *tier, seed, *driver, nd)
	if err != nil {
		fmt.Fprintln(os.Stderr, "cannot start driver:", err)
		os.Exit(2)
	}
	b := *budget
	if b == 0 {
		b = 60
		if c.Thorough {
			b = 600
		}
	}
	start := time.Now()
	c.Deadline = start.Add(time.Duration(b) * time.Second)
	f(c)
	if *out == "" {
		*out = "/dev/stdout"
	}
	if err := c.finish(start, *out); err != nil {
		fmt.Fprintln(os.Stderr, err)
		os.Exit(2)
	}
}
