package main

// Work package c01multi — MULTI-SEGMENT QR symbols and COMBINED damage (properties C01, C05, C15).
//
// The library's own encoder writes one segment per symbol, so multi-segment symbols are built by the Lean driver from the
// reference construction (`c01multi sym`: Gzx/Ref/QRMulti.lean + Gzx.QRRef, ISO/IEC 18004 / GB/T 18284) — exactly the
// symbols `Properties.C01Multi.qr_roundtrip_items` / `qr_roundtrip_segments` talk about.  For each symbol:
//   * the harness' own Go bit writer must produce the driver's payload (`c01multi bits`): two independent transcriptions
//     of the standard;
//   * the REAL `DecodedBitStreamParser_Decode` on the data codewords, the REAL `BitMatrixParser` and the REAL
//     `Decoder.Decode` on the matrix are compared with the decoder model (`c01 parse` / `c01 cw` / `c01 decode`) and the
//     real parser's answer with the meaning the theorem states (`c01multi expect` = toParsed (run …));
//   * ORACLE on the real decoder: text = concatenated contents (FNC1 `%` rule, ECI in effect, Kanji, Hanzi), byte
//     segments, structured-append sequence/parity, symbology modifier, level.
// GS1: symbols of the LIBRARY encoder with EncodeHintType_GS1_FORMAT carry the reference stream [ECI] FNC1 segment
// (`c01multi data`) and decode as `qr_roundtrip_gs1` states.
// C05: `Properties.C05Comb.qr_tolerates_combined_damage` on the real decoder — ≤3 flips in each format copy AND ≤3 in
// each version copy AND ⌊ec/2⌋ wrong codewords in every block at once — on library symbols and on multi-segment ones.

import (
	"fmt"
	"strings"
	"time"
	"unicode/utf8"

	"golang.org/x/text/encoding/japanese"

	"github.com/makiuchi-d/gozxing"
	"github.com/makiuchi-d/gozxing/common"
	"github.com/makiuchi-d/gozxing/qrcode/decoder"
	"github.com/makiuchi-d/gozxing/qrcode/encoder"
)

func init() {
	wrap := func(prop string, f func(c *Ctx)) {
		prev := suites[prop]
		if prev == nil {
			return
		}
		suites[prop] = func(c *Ctx) {
			prev(c)
			t0 := time.Now()
			f(c)
			c.Remark(fmt.Sprintf("timing: c01multi additions to %s %.1fs", prop, time.Since(t0).Seconds()))
		}
	}
	wrap("C01", func(c *Ctx) {
		c.res.Rule += " | c01multi: reference multi-segment symbols (header SA/FNC1, 1-6 segments N/A/B/K/H with ECI designators, also header items in any position, slack 0..7 bits at capacity) x versions {1,2,6,7,9,10,13,26,27,40} x levels x masks; GS1_FORMAT symbols of the library encoder"
		c01multiSegments(c, "C01", c.Pick(160, 1500), 0)
		c01multiGS1(c)
	})
	wrap("C15", func(c *Ctx) {
		c.res.Rule += " | c01multi: multi-segment symbols with several ECI designators (every registered value) switching the charset between byte segments"
		c01multiSegments(c, "C15", c.Pick(80, 800), 1)
	})
	wrap("C05", func(c *Ctx) {
		c.res.Rule += " | c01multi: combined damage (<=3 flips per format copy AND per version copy AND floor(ec/2) wrong codewords in every block) on library symbols and reference multi-segment symbols"
		c01multiCombined(c)
	})
}

// ---- items ----

type c01multiItem struct {
	kind byte   // N A B K H E F(fnc1 first) G(fnc1 second) S
	vals []byte // N: digit values, A: Table-5 values, B: bytes, K/H: pair bytes
	n, p int    // E: value; S: sequence, parity
	text string // decoded text of a data item (A: before the FNC1 rule)
}

func (it c01multiItem) tok() string {
	switch it.kind {
	case 'N':
		b := make([]byte, len(it.vals))
		for i, d := range it.vals {
			b[i] = '0' + d
		}
		return "N" + string(b)
	case 'A', 'B', 'K', 'H':
		if len(it.vals) == 0 {
			return string(it.kind)
		}
		return string(it.kind) + hexs(it.vals)
	case 'E':
		return fmt.Sprintf("E%d", it.n)
	case 'F':
		return "F1"
	case 'G':
		return "F2"
	}
	return fmt.Sprintf("S%d.%d", it.n, it.p)
}

func c01multiToks(items []c01multiItem) string {
	if len(items) == 0 {
		return "-"
	}
	ts := make([]string, len(items))
	for i, it := range items {
		ts[i] = it.tok()
	}
	return strings.Join(ts, ";")
}

// the harness' own writer of the standard's bit layout (independent of the Lean reference)
func (it c01multiItem) write(w *c01BitWriter, v int) {
	switch it.kind {
	case 'N':
		w.put(1, 4)
		w.put(len(it.vals), c01CountBits("N", v))
		i := 0
		for ; i+3 <= len(it.vals); i += 3 {
			w.put(int(it.vals[i])*100+int(it.vals[i+1])*10+int(it.vals[i+2]), 10)
		}
		switch len(it.vals) - i {
		case 2:
			w.put(int(it.vals[i])*10+int(it.vals[i+1]), 7)
		case 1:
			w.put(int(it.vals[i]), 4)
		}
	case 'A':
		w.put(2, 4)
		w.put(len(it.vals), c01CountBits("A", v))
		i := 0
		for ; i+2 <= len(it.vals); i += 2 {
			w.put(int(it.vals[i])*45+int(it.vals[i+1]), 11)
		}
		if i < len(it.vals) {
			w.put(int(it.vals[i]), 6)
		}
	case 'B':
		w.put(4, 4)
		w.put(len(it.vals), c01CountBits("B", v))
		for _, b := range it.vals {
			w.put(int(b), 8)
		}
	case 'K':
		w.put(8, 4)
		w.put(len(it.vals)/2, c01CountBits("K", v))
		for i := 0; i+1 < len(it.vals); i += 2 {
			x := int(it.vals[i])<<8 | int(it.vals[i+1])
			if x <= 0x9FFC {
				x -= 0x8140
			} else {
				x -= 0xC140
			}
			w.put((x>>8)*0xC0+(x&0xFF), 13)
		}
	case 'H':
		w.put(13, 4)
		w.put(1, 4)
		w.put(len(it.vals)/2, c01CountBits("K", v))
		for i := 0; i+1 < len(it.vals); i += 2 {
			x := int(it.vals[i])<<8 | int(it.vals[i+1])
			if it.vals[i] <= 0xAA {
				x -= 0xA1A1
			} else {
				x -= 0xA6A1
			}
			w.put((x>>8)*0x60+(x&0xFF), 13)
		}
	case 'E':
		w.put(7, 4)
		switch {
		case it.n < 128:
			w.put(it.n, 8)
		case it.n < 16384:
			w.put(0x8000|it.n, 16)
		default:
			w.put(0xC00000|it.n, 24)
		}
	case 'F':
		w.put(5, 4)
	case 'G':
		w.put(9, 4)
	case 'S':
		w.put(3, 4)
		w.put(it.n, 8)
		w.put(it.p, 8)
	}
}

func c01multiBitLen(items []c01multiItem, v int) int {
	var w c01BitWriter
	for _, it := range items {
		it.write(&w, v)
	}
	return len(w.bits)
}

func c01multiMassage(s string) string {
	var out []byte
	for i := 0; i < len(s); {
		if s[i] == '%' {
			if i+1 < len(s) && s[i+1] == '%' {
				out = append(out, '%')
				i += 2
				continue
			}
			out = append(out, 0x1D)
			i++
			continue
		}
		out = append(out, s[i])
		i++
	}
	return string(out)
}

type c01multiWant struct {
	text     string
	byteSegs [][]byte
	seq, par int
	sm       int
}

// what the decoder must report: the property-level reading of an item list
func c01multiExpect(items []c01multiItem) c01multiWant {
	w := c01multiWant{seq: -1, par: -1}
	var sb strings.Builder
	fnc1, first, second, eci := false, false, false, false
	for _, it := range items {
		switch it.kind {
		case 'N', 'K', 'H':
			sb.WriteString(it.text)
		case 'A':
			if fnc1 {
				sb.WriteString(c01multiMassage(it.text))
			} else {
				sb.WriteString(it.text)
			}
		case 'B':
			sb.WriteString(it.text)
			w.byteSegs = append(w.byteSegs, it.vals)
		case 'E':
			eci = true
		case 'F':
			fnc1, first = true, true
		case 'G':
			fnc1, second = true, true
		case 'S':
			w.seq, w.par = it.n, it.p
		}
	}
	w.text = sb.String()
	switch {
	case first:
		w.sm = 3
	case second:
		w.sm = 5
	default:
		w.sm = 1
	}
	if eci {
		w.sm++
	}
	return w
}

func (w c01multiWant) String() string {
	return fmt.Sprintf("text=%s bs=%s sa=%d,%d sm=%d", hexs([]byte(w.text)), cqrSegList(w.byteSegs), w.seq, w.par, w.sm)
}

// ---- generators ----

type c01multiEci struct {
	val int
	e   *common.CharacterSetECI
}

var c01multiEcis []c01multiEci

func c01multiAllEcis() []c01multiEci {
	if c01multiEcis == nil {
		for v := 0; v < 900; v++ {
			if e, err := common.GetCharacterSetECIByValue(v); err == nil && e != nil {
				c01multiEcis = append(c01multiEcis, c01multiEci{v, e})
			}
		}
	}
	return c01multiEcis
}

func c01multiHanziPair(r *Rng) []byte {
	lead := r.Range(0xB0, 0xF7)
	if r.Chance(0.25) {
		lead = r.Range(0xA1, 0xA9)
	}
	switch r.Intn(12) { // row boundaries of both ranges
	case 0:
		lead = 0xA1
	case 1:
		lead = 0xAA
	case 2:
		lead = 0xB0
	case 3:
		lead = 0xFA
	}
	trail := r.Range(0xA1, 0xFE)
	switch r.Intn(10) {
	case 0:
		trail = 0xA1
	case 1:
		trail = 0xFE
	}
	return []byte{byte(lead), byte(trail)}
}

// one data item of about n characters; cur = ECI in effect (nil: none), hintE = decode-hint charset (nil: none)
func c01multiDataItem(r *Rng, kind byte, n int, cur, hintE *common.CharacterSetECI) (c01multiItem, bool) {
	it := c01multiItem{kind: kind}
	switch kind {
	case 'N':
		for i := 0; i < n; i++ {
			it.vals = append(it.vals, byte(r.Intn(10)))
		}
		b := make([]byte, n)
		for i, d := range it.vals {
			b[i] = '0' + d
		}
		it.text = string(b)
	case 'A':
		b := make([]byte, n)
		for i := 0; i < n; i++ {
			v := r.Intn(45)
			if r.Chance(0.25) {
				v = 38 // '%'
			}
			it.vals = append(it.vals, byte(v))
			b[i] = c01Alnum[v]
		}
		it.text = string(b)
	case 'B':
		e := cur
		if e == nil {
			e = hintE
		}
		if e == nil { // guessed: valid UTF-8 decodes as itself, whatever the guess
			if n == 0 {
				it.text = ""
			} else if r.Chance(0.5) {
				b := make([]byte, n)
				for i := range b {
					b[i] = byte(r.Range(0x20, 0x7E))
				}
				it.text = string(b)
			} else {
				it.text = c01ByteText(r, n)
			}
			it.vals = []byte(it.text)
			return it, true
		}
		it.text = c15SampleText(r, e, n)
		if n > 0 && it.text == "" {
			return it, false
		}
		bs, err := e.GetCharset().NewEncoder().Bytes([]byte(it.text))
		if err != nil {
			return it, false
		}
		back, err := e.GetCharset().NewDecoder().Bytes(bs)
		if err != nil || string(back) != it.text {
			return it, false
		}
		it.vals = bs
	case 'K':
		it.text = c01KanjiText(r, n)
		bs, err := japanese.ShiftJIS.NewEncoder().Bytes([]byte(it.text))
		if err != nil || len(bs) != 2*n {
			return it, false
		}
		it.vals = bs
	case 'H':
		for i := 0; i < n; i++ {
			it.vals = append(it.vals, c01multiHanziPair(r)...)
		}
		s, err := common.StringUtils_GB2312_CHARSET.NewDecoder().Bytes(it.vals)
		if err != nil || !utf8.Valid(s) {
			return it, false
		}
		it.text = string(s)
	}
	return it, true
}

type c01multiSym struct {
	v      int
	ec     decoder.ErrorCorrectionLevel
	mask   int
	items  []c01multiItem
	hint   cqrHint
	data   []byte
	cw     []byte
	bm     *gozxing.BitMatrix
	want   c01multiWant
	slack  int
	anyPos bool
}

func (s *c01multiSym) in() string {
	return fmt.Sprintf("c01multi sym %d %s %d %s hint=%s", s.v, s.ec.String(), s.mask, c01multiToks(s.items), s.hint.tok)
}

// profile 0: general; profile 1: ECI-heavy (C15)
func c01multiGenerate(c *Ctx, r *Rng, profile int) *c01multiSym {
	s := &c01multiSym{hint: cqrNoHint()}
	s.v = []int{1, 2, 6, 7, 9, 10, 13, 26, 27, 40, 3, 4, 5, 8}[r.Intn(14)]
	if !c.Thorough && s.v >= 26 && r.Chance(0.6) {
		s.v = r.Range(1, 10)
	}
	if c.Thorough && r.Chance(0.3) {
		s.v = r.Range(1, 40)
	}
	s.ec = cqrLevels[r.Intn(4)]
	s.mask = r.Intn(8)
	ver, _ := decoder.Version_GetVersionForNumber(s.v)
	capBits := 8 * (ver.GetTotalCodewords() - ver.GetECBlocksForLevel(s.ec).GetTotalECCodewords())
	var hintE *common.CharacterSetECI
	if r.Chance(0.12) {
		hintE = c15Exported[r.Intn(len(c15Exported))]
		if c15SampleText(r, hintE, 1) == "" {
			hintE = nil
		} else {
			s.hint = cqrNameHint(hintE.Name())
		}
	}
	// header
	var hdr []c01multiItem
	if r.Chance(0.35) {
		hdr = append(hdr, c01multiItem{kind: 'S', n: r.Intn(256), p: r.Intn(256)})
	}
	switch r.Intn(10) {
	case 0, 1, 2:
		hdr = append(hdr, c01multiItem{kind: 'F'})
	case 3, 4:
		hdr = append(hdr, c01multiItem{kind: 'G'})
	}
	items := append([]c01multiItem{}, hdr...)
	var cur *common.CharacterSetECI
	ecis := c01multiAllEcis()
	nseg := r.Range(1, 6)
	fill := r.Chance(0.35)
	kinds := []byte{'N', 'N', 'A', 'A', 'B', 'B', 'B', 'K', 'H'}
	if profile == 1 {
		kinds = []byte{'B', 'B', 'B', 'B', 'A', 'N', 'K', 'H'}
	}
	for i := 0; i < nseg; i++ {
		if r.Chance([]float64{0.3, 0.75}[profile]) {
			e := ecis[r.Intn(len(ecis))]
			if c15SampleText(r, e.e, 1) != "" || r.Chance(0.2) {
				cand := append(append([]c01multiItem{}, items...), c01multiItem{kind: 'E', n: e.val})
				if c01multiBitLen(cand, s.v) <= capBits {
					items = cand
					cur = e.e
				}
			}
		}
		kind := kinds[r.Intn(len(kinds))]
		n := r.Range(0, 14)
		if r.Chance(0.1) {
			n = 0
		}
		last := i == nseg-1
		if last && fill { // the largest count that fits
			if kind == 'K' || kind == 'H' || (kind == 'B' && (cur != nil || hintE != nil)) {
				kind = []byte{'N', 'A', 'B'}[r.Intn(3)]
			}
			if kind == 'B' && (cur != nil || hintE != nil) {
				kind = 'N'
			}
			mode := string(kind)
			free := capBits - c01multiBitLen(items, s.v) - 4 - c01CountBits(mode, s.v)
			if free < 0 {
				break
			}
			n = 0
			for c01DataBits(mode, n+1) <= free && n+1 < 1<<uint(c01CountBits(mode, s.v)) {
				n++
			}
			if r.Chance(0.4) && n > 0 {
				n -= r.Intn(2)
			}
		}
		it, ok := c01multiDataItem(r, kind, n, cur, hintE)
		if !ok {
			continue
		}
		if kind == 'B' && cur == nil && hintE == nil && last && fill { // c01ByteText counts bytes already
			it.vals = []byte(it.text)
		}
		cand := append(append([]c01multiItem{}, items...), it)
		if c01multiBitLen(cand, s.v) > capBits {
			continue
		}
		items = cand
	}
	// "any order": header items (again) somewhere in the body
	if r.Chance(0.2) && len(items) > len(hdr) {
		extra := []c01multiItem{{kind: 'F'}, {kind: 'G'}, {kind: 'S', n: r.Intn(256), p: r.Intn(256)}}[r.Intn(3)]
		pos := r.Range(len(hdr), len(items))
		cand := append(append(append([]c01multiItem{}, items[:pos]...), extra), items[pos:]...)
		if c01multiBitLen(cand, s.v) <= capBits {
			items = cand
			s.anyPos = true
		}
	}
	s.items = items
	s.slack = capBits - c01multiBitLen(items, s.v)
	s.want = c01multiExpect(items)
	return s
}

// ask the driver for the reference symbol
func (s *c01multiSym) build(c *Ctx) string {
	out := c.Model([]string{fmt.Sprintf("c01multi sym %d %s %d %s", s.v, s.ec.String(), s.mask, c01multiToks(s.items))})[0]
	if !strings.HasPrefix(out, "ok ") {
		return out
	}
	for _, f := range strings.Split(out[3:], " ") {
		switch {
		case strings.HasPrefix(f, "data="):
			s.data, _ = cqrUnhex(f[5:])
		case strings.HasPrefix(f, "cw="):
			s.cw, _ = cqrUnhex(f[3:])
		case strings.HasPrefix(f, "m="):
			dim := 17 + 4*s.v
			if len(f)-2 != dim*dim {
				return "bad matrix size"
			}
			s.bm, _ = gozxing.NewSquareBitMatrix(dim)
			for i := 0; i < dim*dim; i++ {
				if f[2+i] == '1' {
					s.bm.Set(i%dim, i/dim)
				}
			}
		}
	}
	if s.bm == nil || s.data == nil {
		return "incomplete driver answer"
	}
	return ""
}

func (w c01multiWant) matches(res *common.DecoderResult, ec decoder.ErrorCorrectionLevel) bool {
	if res == nil || res.GetText() != w.text || res.GetECLevel() != ec.String() {
		return false
	}
	if res.GetStructuredAppendSequenceNumber() != w.seq || res.GetStructuredAppendParity() != w.par || res.GetSymbologyModifier() != w.sm {
		return false
	}
	bs := res.GetByteSegments()
	if len(bs) != len(w.byteSegs) {
		return false
	}
	for i := range bs {
		if string(bs[i]) != string(w.byteSegs[i]) {
			return false
		}
	}
	return true
}

func c01multiSegments(c *Ctx, prop string, n int, profile int) {
	suite := "qr-multi-segments"
	if c.noDriver {
		c.Note("c01multi:skipped-without-driver")
		return
	}
	syms := make([]*c01multiSym, n)
	for i := range syms {
		syms[i] = c01multiGenerate(c, c.Rng.Fork(), profile)
	}
	c.Parallel(n, 8, func(i int, r *Rng) {
		s := syms[i]
		toks := c01multiToks(s.items)
		// (1) two transcriptions of the standard's bit layout
		var w c01BitWriter
		for _, it := range s.items {
			it.write(&w, s.v)
		}
		c.Cmp(suite, fmt.Sprintf("c01multi bits %d %s", s.v, toks), "ok "+bitsStr(w.bits))
		if err := s.build(c); err != "" {
			c.Oracle(suite, false, "multi-build", s.in(), "reference symbol not built: "+err)
			return
		}
		c.Note(fmt.Sprintf("multi:v%d", s.v))
		c.Note(fmt.Sprintf("multi:items=%d", len(s.items)))
		if s.slack < 8 {
			c.Note(fmt.Sprintf("multi:slack=%d", s.slack))
		}
		if s.anyPos {
			c.Note("multi:header-item-inside-body")
		}
		for _, it := range s.items {
			c.Note("multi:item-" + string(it.kind))
		}
		c.Note(fmt.Sprintf("multi:sm=%d", s.want.sm))
		// (2) stream layer on the real parser: against the decoder model and against the meaning the theorem states
		goParse := cqrGoParse(s.data, s.v, s.ec, s.hint)
		c.CmpF(suite, fmt.Sprintf("c01 parse %s v=%d hint=%s", hexs(s.data), s.v, s.hint.tok), goParse, cqrCmpParsed)
		c.CmpF(suite, fmt.Sprintf("c01multi expect %d %s hint=%s", s.v, toks, s.hint.tok), goParse, cqrCmpParsed)
		c.Oracle(suite, goParse == "ok "+s.want.String(), "multi-stream:"+prop, s.in(),
			"DecodedBitStreamParser_Decode on the reference data codewords: want "+c05Short(s.want.String())+" got "+c05Short(goParse))
		// (3) matrix layers and whole decode
		dim := s.bm.GetHeight()
		goDec, res := cqrGoDecode(s.bm, s.hint)
		if dim <= 69 || i%8 == 0 {
			bits := cqrBits(s.bm)
			c.Cmp(suite, fmt.Sprintf("c01 cw %d %s mirror=0", dim, bits), cqrGoReadCodewords(s.bm, false))
			c.CmpF(suite, fmt.Sprintf("c01 decode %d %s hint=%s", dim, bits, s.hint.tok), goDec, cqrCmpParsed)
		}
		ok := s.want.matches(res, s.ec) && res != nil && string(res.GetRawBytes()) == string(s.data)
		c.Oracle(suite, ok, "multi-roundtrip:"+prop, s.in(),
			"Decoder.Decode(reference symbol): want "+c05Short(s.want.String())+" ec="+s.ec.String()+" got "+c05Short(goDec))
	})
}

// ---- GS1_FORMAT symbols of the library encoder ----

func c01multiGS1(c *Ctx) {
	suite := "qr-gs1"
	n := c.Pick(60, 600)
	c.Parallel(n, 8, func(i int, r *Rng) {
		kind := []byte{'N', 'A', 'B'}[r.Intn(3)]
		ln := r.Range(1, 30)
		var e *common.CharacterSetECI
		hints := map[gozxing.EncodeHintType]interface{}{gozxing.EncodeHintType_GS1_FORMAT: true}
		if kind == 'B' && r.Chance(0.5) {
			e = c15Exported[r.Intn(len(c15Exported))]
			if c15SampleText(r, e, 1) == "" || e == common.CharacterSetECI_SJIS { // Shift_JIS may select Kanji mode
				e = nil
			}
		}
		var it c01multiItem
		var ok bool
		if kind == 'B' && e == nil { // default byte mode: ISO-8859-1 bytes of an ASCII text with a lower-case letter
			b := make([]byte, ln)
			for j := range b {
				b[j] = byte(r.Range(0x20, 0x7E))
			}
			b[0] = byte('a' + r.Intn(26))
			it, ok = c01multiItem{kind: 'B', vals: b, text: string(b)}, true
		} else {
			it, ok = c01multiDataItem(r, kind, ln, e, nil)
		}
		if !ok {
			return
		}
		text := it.text
		if kind == 'A' { // make sure the encoder picks alphanumeric mode
			if strings.Trim(text, "0123456789") == "" {
				text = "A" + text[1:]
				it.text = text
				it.vals[0] = 10
			}
		}
		if kind == 'B' && e != nil {
			hints[gozxing.EncodeHintType_CHARACTER_SET] = e.Name()
			// the encoder must choose byte mode
			if strings.Trim(text, c01Alnum) == "" {
				return
			}
		}
		ec := cqrLevels[r.Intn(4)]
		qr, err := encoder.Encoder_encode(text, ec, hints)
		if err != nil {
			c.Note("gs1:encode-refused")
			return
		}
		v := qr.GetVersion().GetVersionNumber()
		items := []c01multiItem{}
		if e != nil {
			items = append(items, c01multiItem{kind: 'E', n: e.GetValue()})
		}
		items = append(items, c01multiItem{kind: 'F'}, it)
		want := c01multiExpect(items)
		bm := cqrBitMatrixOf(qr.GetMatrix())
		goDec, res := cqrGoDecode(bm, cqrNoHint())
		in := fmt.Sprintf("GS1_FORMAT text=%s ec=%s charset=%v -> v=%d items=%s", hexs([]byte(text)), ec.String(), hints[gozxing.EncodeHintType_CHARACTER_SET], v, c01multiToks(items))
		c.Note("gs1:mode-" + string(kind))
		if res != nil {
			// the library encoder's data codewords are the reference stream [ECI] FNC1 segment
			c.Cmp(suite, fmt.Sprintf("c01multi data %d %s %s", v, ec.String(), c01multiToks(items)), "ok "+hexs(res.GetRawBytes()))
		}
		c.Oracle(suite, want.matches(res, ec), "gs1-roundtrip", in,
			"Decoder.Decode(Encoder_encode(t, GS1_FORMAT)): want "+c05Short(want.String())+" got "+c05Short(goDec))
		if bm.GetHeight() <= 69 {
			c.CmpF(suite, fmt.Sprintf("c01 decode %d %s hint=-", bm.GetHeight(), cqrBits(bm)), goDec, cqrCmpParsed)
		}
	})
}

// ---- C05: combined damage ----

func c01multiSubset(r *Rng, n, maxW int) int {
	w := maxW
	if r.Chance(0.3) {
		w = r.Intn(maxW + 1)
	}
	return c05RandomSubset(r, n, w)
}

type c01multiTarget struct {
	desc    string
	v       int
	ec      decoder.ErrorCorrectionLevel
	bm      *gozxing.BitMatrix
	cw      []byte
	accepts func(res *common.DecoderResult) bool
	hint    cqrHint
}

func c01multiCombined(c *Ctx) {
	suite := "qr-combined-damage"
	var ts []*c01multiTarget
	// library symbols (single segment), all version classes incl. versions with version information
	vs := []int{1, 2, 3, 6, 7, 8, 10, 14, 20, 27, 33, 40}
	if c.Thorough {
		vs = nil
		for v := 1; v <= 40; v++ {
			vs = append(vs, v)
		}
	}
	for _, v := range vs {
		for k := 0; k < c.Pick(1, 4); k++ {
			ec := cqrLevels[(v+k)%4]
			q, err := c05BuildQR(c.Rng.Fork(), v, ec, -1)
			if err != "" {
				continue
			}
			qq := q
			ts = append(ts, &c01multiTarget{desc: q.in("combined"), v: v, ec: ec, bm: q.bm, cw: q.cw, hint: cqrNoHint(),
				accepts: func(res *common.DecoderResult) bool {
					return res != nil && res.GetText() == qq.text && res.GetECLevel() == qq.ec.String()
				}})
		}
	}
	// reference multi-segment symbols
	if !c.noDriver {
		for k := 0; k < c.Pick(16, 120); k++ {
			s := c01multiGenerate(c, c.Rng.Fork(), k%2)
			if err := s.build(c); err != "" {
				continue
			}
			ss := s
			ts = append(ts, &c01multiTarget{desc: s.in(), v: s.v, ec: s.ec, bm: s.bm, cw: s.cw, hint: s.hint,
				accepts: func(res *common.DecoderResult) bool {
					return ss.want.matches(res, ss.ec) && string(res.GetRawBytes()) == string(ss.data)
				}})
		}
	}
	c.Parallel(len(ts), 12, func(i int, r *Rng) {
		t := ts[i]
		ver, _ := decoder.Version_GetVersionForNumber(t.v)
		blockOf, ecPer, nBlocks := cqrBlockMap(ver, t.ec)
		pl := cqrPlacementOf(t.v)
		tb := ecPer / 2
		pos := make([][]int, nBlocks)
		for k, b := range blockOf {
			pos[b] = append(pos[b], k)
		}
		dim := t.bm.GetHeight()
		f1, f2 := c05FormatCells(dim)
		v1, v2 := c05VersionCells(dim)
		reps := c.Pick(6, 30)
		for rep := 0; rep < reps+3; rep++ {
			// the last three sets go beyond what the property promises: they are counted and compared with the model only
			//   reps+0: four flips in both format copies; reps+1 / reps+2: one version copy ruined, the other within three
			//   (the model theorem says these still decode: QRComp.versionCopyOK_ref)
			beyond := rep >= reps
			m := cqrClone(t.bm)
			e1, e2 := c01multiSubset(r, 15, 3), c01multiSubset(r, 15, 3)
			if rep == reps {
				e1, e2 = c05RandomSubset(r, 15, 4), c05RandomSubset(r, 15, 4)
			}
			c05Flip(m, f1, e1)
			c05Flip(m, f2, e2)
			ev1, ev2 := 0, 0
			if t.v >= 7 {
				ev1, ev2 = c01multiSubset(r, 18, 3), c01multiSubset(r, 18, 3)
				if rep == reps+1 {
					ev1 = c05RandomSubset(r, 18, r.Range(4, 18))
				}
				if rep == reps+2 {
					ev2 = c05RandomSubset(r, 18, r.Range(4, 18))
				}
				c05Flip(m, v1, ev1)
				c05Flip(m, v2, ev2)
			}
			nf := 0
			for b := 0; b < nBlocks; b++ {
				p := append([]int{}, pos[b]...)
				for j := 0; j < tb; j++ {
					x := j + r.Intn(len(p)-j)
					p[j], p[x] = p[x], p[j]
					pl.rewrite(m, p[j], t.cw[p[j]], c05Wrong(r, t.cw[p[j]]))
					nf++
				}
			}
			out, res := cqrGoDecode(m, t.hint)
			faults := fmt.Sprintf("format^%#x/%#x version^%#x/%#x +%d wrong codewords in each of %d blocks", e1, e2, ev1, ev2, tb, nBlocks)
			if dim <= 57 || rep == 0 {
				c.CmpF(suite, fmt.Sprintf("c05 decode %d %s hint=%s", dim, cqrBits(m), t.hint.tok), out, cqrCmpParsed)
			}
			if beyond {
				kind := []string{"format-4+4", "version-copy1-ruined", "version-copy2-ruined"}[rep-reps]
				if t.v < 7 && rep > reps {
					kind = "no-version-info"
				}
				if t.accepts(res) {
					c.Note("combined-beyond:" + kind + ":still-correct")
				} else {
					c.Note("combined-beyond:" + kind + ":" + strings.SplitN(out, " ", 2)[0])
				}
				continue
			}
			c.Note(fmt.Sprintf("combined:v%d", t.v))
			c.NoteN("combined:wrong-codewords", nf)
			c.Oracle(suite, t.accepts(res), fmt.Sprintf("combined-damage:v%d-%s", t.v, t.ec.String()), t.desc+" | "+faults,
				"<=3 flips per format copy, <=3 per version copy and floor(ec/2) wrong codewords per block together must be tolerated; got "+c05Short(out))
		}
	})
}
