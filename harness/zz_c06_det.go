package main

// C06, work package "detectors inside the model": correspondence of the real locating code
// (common/detector, qrcode/detector, datamatrix/detector, aztec/detector) with the Lean models
// Gzx.Det.* (driver prefix `c06det`), plus the property oracle (no panic, result xor NotFound) on
// the same calls.  Wrapped into suite C06 from this file's init().

import (
	"fmt"
	"strconv"
	"strings"
	"time"

	"github.com/makiuchi-d/gozxing"
	cdetector "github.com/makiuchi-d/gozxing/common/detector"
)

func init() {
	prev := suites["C06"]
	suites["C06"] = func(c *Ctx) {
		if prev != nil {
			prev(c)
		}
		c06Det(c)
	}
}

// ---------- bit images ----------

type c06detImg struct {
	w, h  int
	bm    *gozxing.BitMatrix
	class string
}

func c06detNew(w, h int) *gozxing.BitMatrix {
	m, _ := gozxing.NewBitMatrix(w, h)
	return m
}

func c06detBits(m *gozxing.BitMatrix) string {
	w, h := m.GetWidth(), m.GetHeight()
	b := make([]byte, 0, w*h)
	for y := 0; y < h; y++ {
		for x := 0; x < w; x++ {
			if m.Get(x, y) {
				b = append(b, '1')
			} else {
				b = append(b, '0')
			}
		}
	}
	return string(b)
}

func c06detSet(m *gozxing.BitMatrix, x, y int, v bool) {
	if x < 0 || y < 0 || x >= m.GetWidth() || y >= m.GetHeight() {
		return
	}
	if v {
		m.Set(x, y)
	} else {
		m.Unset(x, y)
	}
}

func c06detRect(m *gozxing.BitMatrix, x0, y0, x1, y1 int, v bool) {
	for y := y0; y <= y1; y++ {
		for x := x0; x <= x1; x++ {
			c06detSet(m, x, y, v)
		}
	}
}

// a finder pattern (7 modules, 1:1:3:1:1) with module size k, top-left corner at (x0,y0); clipped at the borders
func c06detFinder(m *gozxing.BitMatrix, x0, y0, k int) {
	c06detRect(m, x0, y0, x0+7*k-1, y0+7*k-1, true)
	c06detRect(m, x0+k, y0+k, x0+6*k-1, y0+6*k-1, false)
	c06detRect(m, x0+2*k, y0+2*k, x0+5*k-1, y0+5*k-1, true)
}

// concentric rings (Aztec bull's eye like), centre (cx,cy), ring width k, n rings
func c06detBullsEye(m *gozxing.BitMatrix, cx, cy, k, n int) {
	for i := n; i >= 0; i-- {
		r := i*k + k/2
		c06detRect(m, cx-r, cy-r, cx+r, cy+r, i%2 == 0)
	}
}

func c06detPaste(dst *gozxing.BitMatrix, src *gozxing.BitMatrix, k, x0, y0 int, quarter int, mirror bool) {
	sw, sh := src.GetWidth(), src.GetHeight()
	for y := 0; y < sh; y++ {
		for x := 0; x < sw; x++ {
			if !src.Get(x, y) {
				continue
			}
			u, v, W, H := x, y, sw, sh
			if mirror {
				u, v, W, H = v, u, H, W
			}
			for q := 0; q < quarter; q++ {
				u, v, W, H = H-1-v, u, H, W
			}
			c06detRect(dst, x0+u*k, y0+v*k, x0+u*k+k-1, y0+v*k+k-1, true)
		}
	}
}

func c06detNoise(r *Rng, m *gozxing.BitMatrix, n int) {
	for i := 0; i < n; i++ {
		c06detSet(m, r.Intn(m.GetWidth()), r.Intn(m.GetHeight()), r.Bool())
	}
}

var c06detSmall = []int{1, 2, 3, 4, 5, 6, 7, 8, 9, 10, 11, 12, 14, 15, 16, 17, 20, 21, 22, 31, 32, 33}

// c06detGen: arbitrary, structured and adversarial bit images, sizes 1x1 .. maxDim
func c06detGen(r *Rng, maxDim int) c06detImg {
	w, h := r.Range(1, maxDim), r.Range(1, maxDim)
	if r.Chance(0.35) {
		w, h = r.Pick(c06detSmall), r.Pick(c06detSmall)
	}
	if r.Chance(0.08) {
		if r.Bool() {
			w = r.Pick([]int{1, 2})
		} else {
			h = r.Pick([]int{1, 2})
		}
	}
	class := ""
	var m *gozxing.BitMatrix
	switch r.Intn(14) {
	case 12, 13: // island: content of some density inside a white margin (what WhiteRectangleDetector is made for)
		m = c06detNew(w, h)
		mx, my := r.Range(1, 1+w/3), r.Range(1, 1+h/3)
		p := []float64{0.2, 0.5, 0.8, 1.0}[r.Intn(4)]
		for y := my; y < h-my; y++ {
			for x := mx; x < w-mx; x++ {
				if r.Chance(p) {
					m.Set(x, y)
				}
			}
		}
		if r.Chance(0.2) {
			c06detNoise(r, m, r.Pick([]int{1, 3}))
		}
		class = "island"
	case 0: // random, several densities
		m = c06detNew(w, h)
		p := []float64{0.02, 0.1, 0.3, 0.5, 0.7, 0.9, 0.98}[r.Intn(7)]
		for y := 0; y < h; y++ {
			for x := 0; x < w; x++ {
				if r.Chance(p) {
					m.Set(x, y)
				}
			}
		}
		class = "random"
	case 1: // constant
		m = c06detNew(w, h)
		if r.Bool() {
			c06detRect(m, 0, 0, w-1, h-1, true)
		}
		class = "constant"
	case 2: // stripes / checker with period p, phase
		m = c06detNew(w, h)
		p, ph, kind := r.Range(1, 9), r.Intn(9), r.Intn(4)
		for y := 0; y < h; y++ {
			for x := 0; x < w; x++ {
				var b bool
				switch kind {
				case 0:
					b = ((x+ph)/p)%2 == 0
				case 1:
					b = ((y+ph)/p)%2 == 0
				case 2:
					b = (((x+ph)/p)+((y)/p))%2 == 0
				default:
					b = ((x+y+ph)/p)%2 == 0
				}
				if b {
					m.Set(x, y)
				}
			}
		}
		class = "stripes"
	case 3: // a few black rectangles anywhere, also touching / crossing the borders
		m = c06detNew(w, h)
		for i, n := 0, r.Range(1, 4); i < n; i++ {
			x0, y0 := r.Range(-3, w), r.Range(-3, h)
			c06detRect(m, x0, y0, x0+r.Range(0, w), y0+r.Range(0, h), r.Chance(0.8))
		}
		class = "rects"
	case 4: // black frame / L shape (Data Matrix like outline), maybe with dotted sides
		m = c06detNew(w, h)
		x0, y0 := r.Range(0, w/3), r.Range(0, h/3)
		x1, y1 := w-1-r.Range(0, w/3), h-1-r.Range(0, h/3)
		t := r.Range(1, 3)
		c06detRect(m, x0, y0, x0+t-1, y1, true)
		c06detRect(m, x0, y1-t+1, x1, y1, true)
		if r.Bool() {
			for x := x0; x <= x1; x += 2 * t {
				c06detRect(m, x, y0, x+t-1, y0+t-1, true)
			}
			for y := y1; y >= y0; y -= 2 * t {
				c06detRect(m, x1-t+1, y-t+1, x1, y, true)
			}
		}
		if r.Bool() {
			for i := 0; i < (x1-x0)*(y1-y0)/(4*t*t+1); i++ {
				xx, yy := r.Range(x0, x1), r.Range(y0, y1)
				c06detRect(m, xx, yy, xx+t-1, yy+t-1, true)
			}
		}
		class = "frame"
	case 5, 6: // finder patterns: whole, partial at the borders, 1-3 of them, different module sizes
		m = c06detNew(w, h)
		k := r.Range(1, 5)
		n := r.Range(1, 4)
		for i := 0; i < n; i++ {
			kk := k
			if r.Chance(0.2) {
				kk = r.Range(1, 5)
			}
			var x0, y0 int
			switch r.Intn(4) {
			case 0:
				x0, y0 = r.Range(-7*kk, w), r.Range(-7*kk, h)
			case 1: // corners
				x0, y0 = r.Pick([]int{0, w - 7*kk, -kk, w - 6*kk, -3 * kk, w - 4*kk}), r.Pick([]int{0, h - 7*kk, -kk, h - 6*kk, -3 * kk, h - 4*kk})
			default:
				x0, y0 = r.Range(0, w), r.Range(0, h)
			}
			c06detFinder(m, x0, y0, kk)
		}
		if r.Chance(0.3) {
			c06detNoise(r, m, r.Pick([]int{1, 5, 50}))
		}
		class = "finders"
	case 7: // bull's eye
		m = c06detNew(w, h)
		k := r.Range(1, 4)
		cx, cy := w/2+r.Range(-3, 3), h/2+r.Range(-3, 3)
		if r.Chance(0.3) {
			cx, cy = r.Range(0, w), r.Range(0, h)
		}
		c06detBullsEye(m, cx, cy, k, r.Pick([]int{2, 4, 5, 6, 7, 8, 9}))
		if r.Chance(0.3) {
			c06detNoise(r, m, r.Pick([]int{1, 5, 50}))
		}
		class = "bullseye"
	default: // rendered symbol (QR / Data Matrix / 1-D) scaled, padded, rotated, mirrored, maybe cropped or noisy
		s, _ := c06SymbolMatrix(r)
		k := r.Pick([]int{1, 1, 2, 2, 3, 4})
		for (s.GetWidth()*k > maxDim || s.GetHeight()*k > maxDim) && k > 1 {
			k--
		}
		q := r.Pick([]int{0, 0, 0, 1, 2, 3})
		sw, sh := s.GetWidth()*k, s.GetHeight()*k
		if q%2 == 1 {
			sw, sh = sh, sw
		}
		mirror := r.Chance(0.15)
		if mirror {
			sw, sh = sh, sw
		}
		pl, pt, pr, pb := r.Pick([]int{0, 1, 4, 10, 20}), r.Pick([]int{0, 1, 4, 10, 20}), r.Pick([]int{0, 1, 4, 10, 20}), r.Pick([]int{0, 1, 4, 10, 20})
		if r.Chance(0.15) { // cropped: negative padding
			pl, pt = -r.Range(0, sw/2), -r.Range(0, sh/2)
		}
		w, h = sw+pl+pr, sh+pt+pb
		if w < 1 {
			w = 1
		}
		if h < 1 {
			h = 1
		}
		if w > maxDim+40 {
			w = maxDim + 40
		}
		if h > maxDim+40 {
			h = maxDim + 40
		}
		m = c06detNew(w, h)
		c06detPaste(m, s, k, pl, pt, q, mirror)
		class = "symbol"
		if r.Chance(0.25) {
			c06detNoise(r, m, r.Pick([]int{1, 5, 50, 500}))
			class = "symbol-noise"
		}
	}
	return c06detImg{m.GetWidth(), m.GetHeight(), m, class}
}

// ---------- canonical output ----------

func c06detF(f float64) string { return strconv.FormatFloat(f, 'g', -1, 64) }

func c06detPts(ps []gozxing.ResultPoint) string {
	ss := make([]string, len(ps))
	for i, p := range ps {
		ss[i] = c06detF(p.GetX()) + "," + c06detF(p.GetY())
	}
	return strings.Join(ss, ";")
}

func c06detErr(e error) string {
	return "ERR:" + errKind(e)
}

func c06detSize(w, h int) string {
	m := w
	if h < m {
		m = h
	}
	switch {
	case m <= 2:
		return "min<=2"
	case m <= 10:
		return "min<=10"
	case m <= 40:
		return "min<=40"
	}
	return "min>40"
}

// oracle of C06 on one detector call: no panic, no timeout; what comes back is a result or NotFound
func c06detOracle(c *Ctx, entry string, img c06detImg, args string, out string) {
	ok := out != "PANIC" && out != "TIMEOUT" && (strings.HasPrefix(out, "ok") || out == "ERR:notfound" || (entry == "qr.Detect" && out == "ERR:format"))
	c.Oracle("c06det-"+entry, ok, "c06det:"+entry+":"+strings.SplitN(out, " ", 2)[0],
		fmt.Sprintf("%s %dx%d %s bits=%s", entry, img.w, img.h, args, c06detBits(img.bm)), "detector call gave "+out)
}

// ---------- WhiteRectangleDetector ----------

func c06detWRD(c *Ctx, img c06detImg, fromImage bool, initSize, x, y int) {
	out := SafeT(5*time.Second, func() string {
		var d *cdetector.WhiteRectangleDetector
		var e error
		if fromImage {
			d, e = cdetector.NewWhiteRectangleDetectorFromImage(img.bm)
		} else {
			d, e = cdetector.NewWhiteRectangleDetector(img.bm, initSize, x, y)
		}
		if e != nil {
			if d != nil {
				return "BOTH"
			}
			return c06detErr(e)
		}
		ps, e := d.Detect()
		if e != nil {
			if ps != nil {
				return "BOTH"
			}
			return c06detErr(e)
		}
		if len(ps) != 4 {
			return fmt.Sprintf("NPTS%d", len(ps))
		}
		return "ok " + c06detPts(ps)
	})
	bits := c06detBits(img.bm)
	args := fmt.Sprintf("%d %d %d", initSize, x, y)
	if fromImage {
		c.Cmp("c06det-wrd", fmt.Sprintf("c06det wrdimg %d %d %s", img.w, img.h, bits), out)
		args = "fromImage"
	} else {
		c.Cmp("c06det-wrd", fmt.Sprintf("c06det wrd %d %d %s %d %d %d", img.w, img.h, bits, initSize, x, y), out)
	}
	c06detOracle(c, "wrd", img, args, out)
	c.Note("c06det wrd " + img.class + " " + strings.SplitN(out, " ", 2)[0])
	c.Note("c06det wrd size " + c06detSize(img.w, img.h))
}

func c06detWRDSuite(c *Ctx) {
	n := c.Pick(2500, 60000)
	r := c.Rng.Fork()
	for i := 0; i < n && c.TimeLeft(); i++ {
		img := c06detGen(r, c.Pick(90, 300))
		c06detWRD(c, img, true, 0, 0, 0)
		// explicit constructor arguments: the callers' values (10 at the centre, 15 around a computed centre),
		// boundary values of the constructor test, negative / odd / huge sizes, centres outside the image
		for k := 0; k < 2; k++ {
			var initSize, x, y int
			switch r.Intn(5) {
			case 0:
				initSize, x, y = 15, r.Range(-2, img.w+1), r.Range(-2, img.h+1)
			case 1:
				initSize = r.Pick([]int{0, 1, 2, 3, 10, 15, 30})
				hs := initSize / 2
				x, y = r.Pick([]int{hs, hs - 1, img.w - 1 - hs, img.w - hs, img.w / 2}), r.Pick([]int{hs, hs - 1, img.h - 1 - hs, img.h - hs, img.h / 2})
			case 2:
				initSize, x, y = r.Range(-40, -1), r.Range(-5, img.w+5), r.Range(-5, img.h+5)
			case 3:
				initSize, x, y = r.Range(0, 2*img.w+2), r.Range(0, img.w), r.Range(0, img.h)
			default:
				initSize, x, y = r.Range(0, 12), r.Range(0, img.w-1), r.Range(0, img.h-1)
			}
			c06detWRD(c, img, false, initSize, x, y)
		}
	}
}

func c06Det(c *Ctx) {
	c.res.Rule += " || detectors (c06det): the real WhiteRectangleDetector / QR FinderPatternFinder, AlignmentPatternFinder, Detector / Data Matrix Detector / Aztec Detector pieces on bit images 1x1..300x300 " +
		"(random densities, constant, stripes, rectangles crossing the borders, frames, whole and border-clipped finder patterns, bull's eyes, rendered symbols scaled/rotated/mirrored/cropped/noisy) " +
		"compared with the Lean models Gzx.Det.* (found points, NotFound, PANIC) and judged by the oracle (no panic, result xor NotFound)"
	c06detWRDSuite(c)
	c06detQRSuite(c)
	c06detDMSuite(c)
	c06detAZSuite(c)
}
