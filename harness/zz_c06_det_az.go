package main

// C06 detectors, part Aztec (first stage): getMatrixCenter, getFirstDifferent vs Gzx.Det.AZ (driver `c06det az*`).
// The later stages (bull's eye, parameters) are exercised through the real Detect with the oracle only.

import (
	"fmt"
	"time"

	azdetector "github.com/makiuchi-d/gozxing/aztec/detector"
)

func c06detAZSuite(c *Ctx) {
	n := c.Pick(1500, 40000)
	r := c.Rng.Fork()
	for i := 0; i < n && c.TimeLeft(); i++ {
		img := c06detGen(r, c.Pick(80, 250))
		if r.Chance(0.4) { // bull's eyes of 5 / 7 rings near the centre, with a white margin
			w, h := r.Range(20, 90), r.Range(20, 90)
			m := c06detNew(w, h)
			c06detBullsEye(m, w/2+r.Range(-2, 2), h/2+r.Range(-2, 2), r.Range(1, 3), r.Pick([]int{4, 5, 6, 7}))
			if r.Chance(0.3) {
				c06detNoise(r, m, r.Pick([]int{1, 5, 30}))
			}
			img = c06detImg{w, h, m, "bullseye-centred"}
		}
		bits := c06detBits(img.bm)
		w, h := img.w, img.h
		d := azdetector.NewDetector(img.bm)
		out := SafeT(5*time.Second, func() string {
			x, y := d.VerifGetMatrixCenter()
			return fmt.Sprintf("ok %d,%d", x, y)
		})
		c.Cmp("c06det-az", fmt.Sprintf("c06det azcenter %d %d %s", w, h, bits), out)
		c06detOracle(c, "az.getMatrixCenter", img, "", out)
		for k := 0; k < 4; k++ {
			x, y := r.Range(-9, w+8), r.Range(-9, h+8)
			color, dx, dy := r.Bool(), r.Pick([]int{1, -1}), r.Pick([]int{1, -1})
			o := SafeT(5*time.Second, func() string {
				a, b := d.VerifGetFirstDifferent(x, y, color, dx, dy)
				return fmt.Sprintf("ok %d,%d", a, b)
			})
			cs := "0"
			if color {
				cs = "1"
			}
			c.Cmp("c06det-az", fmt.Sprintf("c06det azgfd %d %d %s %d %d %s %d %d", w, h, bits, x, y, cs, dx, dy), o)
			c06detOracle(c, "az.getFirstDifferent", img, fmt.Sprint(x, y, color, dx, dy), o)
		}
		// the whole real detector: oracle only (no panic, result xor NotFound)
		full := SafeT(5*time.Second, func() string {
			res, e := azdetector.NewDetector(img.bm).Detect(r.Chance(0.2))
			if e != nil {
				if res != nil {
					return "BOTH"
				}
				return c06detErr(e)
			}
			return fmt.Sprintf("ok compact=%v layers=%d blocks=%d", res.IsCompact(), res.GetNbLayers(), res.GetNbDatablocks())
		})
		c06detOracle(c, "az.Detect", img, "", full)
		c.Note("c06det az.Detect " + img.class + " " + c06detHead(full))
	}
}
