package main

// C06 detectors, part Data Matrix: transitionsBetween, correctTopRight, Detect vs Gzx.Det.DM (driver `c06det dm*`).

import (
	"fmt"
	"time"

	"github.com/makiuchi-d/gozxing"
	dmdetector "github.com/makiuchi-d/gozxing/datamatrix/detector"
)

func c06detDMSuite(c *Ctx) {
	n := c.Pick(1500, 40000)
	r := c.Rng.Fork()
	for i := 0; i < n && c.TimeLeft(); i++ {
		var img c06detImg
		if r.Chance(0.45) { // Data Matrix symbols: rendered, scaled, padded, rotated, noisy
			s := c06DMSizes[r.Intn(len(c06DMSizes))]
			si := c06DMSymbolInfo(s[0], s[1])
			var m *gozxing.BitMatrix
			if si != nil {
				data, _ := c06GenDMStream(r, si.GetDataCapacity())
				m = c06DMSymbol(si, data)
			}
			if m == nil {
				img = c06detGen(r, c.Pick(80, 250))
			} else {
				k := r.Pick([]int{1, 2, 2, 3, 4})
				for (m.GetWidth()*k > 200 || m.GetHeight()*k > 200) && k > 1 {
					k--
				}
				q := r.Pick([]int{0, 0, 1, 2, 3})
				sw, sh := m.GetWidth()*k, m.GetHeight()*k
				if q%2 == 1 {
					sw, sh = sh, sw
				}
				pl, pt, pr, pb := r.Pick([]int{0, 1, 4, 8, 12}), r.Pick([]int{0, 1, 4, 8, 12}), r.Pick([]int{0, 1, 4, 8, 12}), r.Pick([]int{0, 1, 4, 8, 12})
				bm := c06detNew(sw+pl+pr, sh+pt+pb)
				c06detPaste(bm, m, k, pl, pt, q, false)
				class := "dm"
				if r.Chance(0.25) {
					c06detNoise(r, bm, r.Pick([]int{1, 5, 50}))
					class = "dm-noise"
				}
				img = c06detImg{bm.GetWidth(), bm.GetHeight(), bm, class}
			}
		} else {
			img = c06detGen(r, c.Pick(80, 250))
		}
		bits := c06detBits(img.bm)
		w, h := img.w, img.h
		out := SafeT(5*time.Second, func() string {
			d, e := dmdetector.NewDetector(img.bm)
			if e != nil {
				return c06detErr(e)
			}
			res, e := d.Detect()
			if e != nil {
				if res != nil {
					return "BOTH"
				}
				return c06detErr(e)
			}
			ps := res.GetPoints()
			return fmt.Sprintf("ok %s;%s;%s;%s dim=%dx%d", c06detRP(ps[0]), c06detRP(ps[1]), c06detRP(ps[2]), c06detRP(ps[3]), res.GetBits().GetWidth(), res.GetBits().GetHeight())
		})
		c.CmpF("c06det-dm", fmt.Sprintf("c06det dmdetect %d %d %s", w, h, bits), out, c06detCmpUpToSampling)
		c06detOracle(c, "dm.Detect", img, "", out)
		c.Note("c06det dm.Detect " + img.class + " " + c06detHead(out))
		// transitionsBetween / correctTopRight on points inside, on the edge of and around the image
		d, e := dmdetector.NewDetector(img.bm)
		if e != nil { // the constructor needs room for the 10x10 start box; the steps below do not
			continue
		}
		pt := func() gozxing.ResultPoint {
			return gozxing.NewResultPoint(float64(r.Range(-2, w+1))+float64(r.Intn(4))/4, float64(r.Range(-2, h+1))+float64(r.Intn(4))/4)
		}
		for k := 0; k < 4; k++ {
			p, q := pt(), pt()
			o := Safe(func() string { return fmt.Sprintf("ok %d", d.VerifTransitionsBetween(p, q)) })
			c.Cmp("c06det-dm", fmt.Sprintf("c06det dmtrans %d %d %s %s %s", w, h, bits, c06detRP(p), c06detRP(q)), o)
			c06detOracle(c, "dm.transitionsBetween", img, c06detRP(p)+" "+c06detRP(q), o)
		}
		ps := []gozxing.ResultPoint{pt(), pt(), pt(), pt()}
		o := Safe(func() string {
			p := d.VerifCorrectTopRight(ps)
			if p == nil {
				return "ok nil"
			}
			return "ok " + c06detRP(p)
		})
		c.CmpF("c06det-dm", fmt.Sprintf("c06det dmctr %d %d %s %s %s %s %s", w, h, bits, c06detRP(ps[0]), c06detRP(ps[1]), c06detRP(ps[2]), c06detRP(ps[3])), o, c06detCmpTok)
		c06detOracle(c, "dm.correctTopRight", img, "", o)
	}
}
