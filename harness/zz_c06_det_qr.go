package main

// C06 detectors, part QR: FinderPatternFinder, cross checks, module size walk, computeDimension,
// AlignmentPatternFinder, ProcessFinderPatternInfo / Detect  vs  Gzx.Det.QR (driver `c06det qr*`).

import (
	"fmt"
	"math"
	"strconv"
	"strings"
	"time"

	"github.com/makiuchi-d/gozxing"
	qrdecoder "github.com/makiuchi-d/gozxing/qrcode/decoder"
	qrdetector "github.com/makiuchi-d/gozxing/qrcode/detector"
)

func c06detFB(f float64) string { return "f" + strconv.FormatUint(math.Float64bits(f), 10) }

func c06detFP(p *qrdetector.FinderPattern) string {
	return fmt.Sprintf("%s,%s,%s,%d", c06detFB(p.GetX()), c06detFB(p.GetY()), c06detFB(p.GetEstimatedModuleSize()), p.GetCount())
}

func c06detFPs(ps []*qrdetector.FinderPattern) string {
	if len(ps) == 0 {
		return "-"
	}
	ss := make([]string, len(ps))
	for i, p := range ps {
		ss[i] = c06detFP(p)
	}
	return strings.Join(ss, ";")
}

func c06detRP(p gozxing.ResultPoint) string { return c06detFB(p.GetX()) + "," + c06detFB(p.GetY()) }

// token-wise comparison: `f<bits>` tokens are float64 compared within 1e-6 (NaN = NaN), everything else exactly
func c06detTokens(s string) []string {
	return strings.FieldsFunc(s, func(r rune) bool { return r == ',' || r == ';' || r == '|' || r == ' ' || r == '=' })
}

func c06detFloatTok(t string) (float64, bool) {
	if len(t) < 2 || t[0] != 'f' {
		return 0, false
	}
	u, err := strconv.ParseUint(t[1:], 10, 64)
	if err != nil {
		return 0, false
	}
	return math.Float64frombits(u), true
}

func c06detCmpTok(goOut, model string) (bool, bool) {
	a, b := c06detTokens(goOut), c06detTokens(model)
	if len(a) != len(b) {
		return false, false
	}
	for i := range a {
		if a[i] == b[i] {
			continue
		}
		x, ok1 := c06detFloatTok(a[i])
		y, ok2 := c06detFloatTok(b[i])
		if !ok1 || !ok2 {
			return false, false
		}
		if math.IsNaN(x) && math.IsNaN(y) {
			continue
		}
		if math.Abs(x-y) > 1e-6*(1+math.Abs(x)) {
			return false, false
		}
	}
	return true, false
}

// Go answered NotFound after the point where the model stops (grid sampling is the C19 model): not compared
func c06detCmpUpToSampling(goOut, model string) (bool, bool) {
	if goOut == "ERR:notfound" && strings.HasPrefix(model, "ok") {
		return true, true
	}
	return c06detCmpTok(goOut, model)
}

func c06detHints(tryHarder bool) (map[gozxing.DecodeHintType]interface{}, string) {
	if tryHarder {
		return map[gozxing.DecodeHintType]interface{}{gozxing.DecodeHintType_TRY_HARDER: true}, "1"
	}
	return nil, "0"
}

func c06detHead(out string) string { return strings.SplitN(out, " ", 2)[0] }

// Find: the three ordered patterns and the centre list; returns the info for the later stages
func c06detQRFind(c *Ctx, img c06detImg, bits string, tryHarder bool) *qrdetector.FinderPatternInfo {
	hints, th := c06detHints(tryHarder)
	var info *qrdetector.FinderPatternInfo
	var centers []*qrdetector.FinderPattern
	out := SafeT(5*time.Second, func() string {
		f := qrdetector.NewFinderPatternFinder(img.bm, nil)
		i, e := f.Find(hints)
		centers = f.GetPossibleCenters()
		if e != nil {
			if i != nil {
				return "BOTH"
			}
			return c06detErr(e)
		}
		info = i
		return "ok " + c06detFP(i.GetBottomLeft()) + ";" + c06detFP(i.GetTopLeft()) + ";" + c06detFP(i.GetTopRight()) + "|" + c06detFPs(centers)
	})
	c06detOracle(c, "qr.Find", img, "tryHarder="+th, out)
	c.Note("c06det qr.Find " + img.class + " " + c06detHead(out))
	if len(centers) > 12 {
		// sort.Slice switches from insertion sort to pdqsort above 12 elements: order of equal module sizes differs
		c.Note("c06det qr.Find >12 centres: selection not compared")
		if out == "PANIC" || out == "TIMEOUT" {
			c.Cmp("c06det-qr", fmt.Sprintf("c06det qrfind %d %d %s %s", img.w, img.h, bits, th), out)
		}
		return info
	}
	c.CmpF("c06det-qr", fmt.Sprintf("c06det qrfind %d %d %s %s", img.w, img.h, bits, th), out, c06detCmpTok)
	if len(centers) < 3 && out == "ERR:notfound" { // the list is returned unsorted: compare the scan result itself
		c.CmpF("c06det-qr", fmt.Sprintf("c06det qrscan %d %d %s %s", img.w, img.h, bits, th), "ok "+c06detFPs(centers), c06detCmpTok)
		c.Note(fmt.Sprintf("c06det qr.Find centres=%d", len(centers)))
	}
	return info
}

func c06detFRes(f float64) string { return "ok " + c06detFB(f) }

func c06detQRPieces(c *Ctx, r *Rng, img c06detImg, bits string, info *qrdetector.FinderPatternInfo) {
	w, h := img.w, img.h
	f := qrdetector.NewFinderPatternFinder(img.bm, nil)
	d := qrdetector.NewDetector(img.bm)
	anyCoord := func(n int) int {
		switch r.Intn(6) {
		case 0:
			return r.Pick([]int{-2, -1, 0, n - 1, n, n + 1})
		default:
			return r.Intn(n)
		}
	}
	// cross checks at arbitrary and at pattern-derived positions
	for k := 0; k < 3; k++ {
		start, q := anyCoord(h), anyCoord(w)
		maxCount, total := r.Range(0, 12), r.Range(0, 60)
		if info != nil && r.Bool() {
			p := []*qrdetector.FinderPattern{info.GetTopLeft(), info.GetTopRight(), info.GetBottomLeft()}[r.Intn(3)]
			start, q = int(p.GetY())+r.Range(-1, 1), int(p.GetX())+r.Range(-1, 1)
			ms := p.GetEstimatedModuleSize()
			maxCount, total = int(3*ms)+r.Range(-1, 1), int(7*ms)+r.Range(-1, 1)
		}
		vert := r.Bool()
		out := Safe(func() string {
			if vert {
				return c06detFRes(f.CrossCheckVertical(start, q, maxCount, total))
			}
			return c06detFRes(f.CrossCheckHorizontal(q, start, maxCount, total))
		})
		if vert {
			c.CmpF("c06det-qr", fmt.Sprintf("c06det qrcc %d %d %s 1 %d %d %d %d", w, h, bits, start, q, maxCount, total), out, c06detCmpTok)
		} else {
			c.CmpF("c06det-qr", fmt.Sprintf("c06det qrcc %d %d %s 0 %d %d %d %d", w, h, bits, q, start, maxCount, total), out, c06detCmpTok)
		}
		c06detOracle(c, "qr.CrossCheck", img, fmt.Sprint(vert, start, q, maxCount, total), out)
		ci, cj := start, q
		outd := Safe(func() string { return fmt.Sprintf("ok %v", f.VerifCrossCheckDiagonal(ci, cj)) })
		c.Cmp("c06det-qr", fmt.Sprintf("c06det qrdiag %d %d %s %d %d", w, h, bits, ci, cj), outd)
		c06detOracle(c, "qr.crossCheckDiagonal", img, fmt.Sprint(ci, cj), outd)
		c.Note("c06det qr.CrossCheck " + map[bool]string{true: "NaN", false: "value"}[strings.Contains(out, c06detFB(math.NaN())) || out == "ok f9221120237041090561"])
	}
	// black-white-black runs from a point inside the image (pattern centres are: centerFromEnd of a run inside a
	// row/column) to an arbitrary point (inside, on the border, outside).  A from-point with fromY >= height makes
	// sizeOfBlackWhiteBlackRunBothWays walk to x = int(+-Inf) = MinInt64 (2^63 steps) - unreachable from Find.
	for k := 0; k < 3; k++ {
		fx, fy, tx, ty := r.Intn(w), r.Intn(h), anyCoord(w), anyCoord(h)
		if info != nil && r.Bool() {
			a, b := info.GetTopLeft(), info.GetTopRight()
			if r.Bool() {
				b = info.GetBottomLeft()
			}
			fx, fy, tx, ty = int(a.GetX()), int(a.GetY()), int(b.GetX()), int(b.GetY())
		}
		both := r.Bool()
		out := SafeT(5*time.Second, func() string {
			if both {
				return c06detFRes(d.VerifSizeOfBlackWhiteBlackRunBothWays(fx, fy, tx, ty))
			}
			return c06detFRes(d.VerifSizeOfBlackWhiteBlackRun(fx, fy, tx, ty))
		})
		bs := "0"
		if both {
			bs = "1"
		}
		c.CmpF("c06det-qr", fmt.Sprintf("c06det qrbwb %d %d %s %s %d %d %d %d", w, h, bits, bs, fx, fy, tx, ty), out, c06detCmpTok)
		c06detOracle(c, "qr.sizeOfBlackWhiteBlackRun", img, fmt.Sprint(both, fx, fy, tx, ty), out)
	}
	// module size, dimension and the whole locate step for three points: the found patterns or arbitrary points
	var tl, tr, bl gozxing.ResultPoint
	if info != nil && r.Chance(0.8) {
		tl, tr, bl = info.GetTopLeft(), info.GetTopRight(), info.GetBottomLeft()
	} else {
		pt := func() gozxing.ResultPoint {
			return gozxing.NewResultPoint(float64(r.Intn(w))+float64(r.Intn(2))/2, float64(r.Intn(h))+float64(r.Intn(2))/2)
		}
		tl, tr, bl = pt(), pt(), pt()
	}
	pts := c06detRP(tl) + " " + c06detRP(tr) + " " + c06detRP(bl)
	var ms float64
	out := SafeT(5*time.Second, func() string { ms = d.VerifCalculateModuleSize(tl, tr, bl); return c06detFRes(ms) })
	c.CmpF("c06det-qr", fmt.Sprintf("c06det qrms %d %d %s %s", w, h, bits, pts), out, c06detCmpTok)
	c06detOracle(c, "qr.calculateModuleSize", img, pts, out)
	for _, m := range []float64{ms, float64(r.Range(1, 8)), math.NaN(), 0, 0.5} {
		m := m
		outd := Safe(func() string {
			dim, e := d.VerifComputeDimension(tl, tr, bl, m)
			if e != nil {
				return c06detErr(e)
			}
			return fmt.Sprintf("ok %d", dim)
		})
		c.Cmp("c06det-qr", fmt.Sprintf("c06det qrdim %s %s", pts, c06detFB(m)), outd)
		c.Note("c06det qr.computeDimension " + c06detHead(outd))
	}
	// alignment search: through findAlignmentInRegion and directly through AlignmentPatternFinder
	for k := 0; k < 2; k++ {
		m := float64(r.Range(1, 6)) + float64(r.Intn(4))/4
		if !math.IsNaN(ms) && ms >= 1 && r.Bool() {
			m = ms
		}
		ex, ey, fac := anyCoord(w), anyCoord(h), float64(r.Pick([]int{4, 8, 16}))
		outa := Safe(func() string {
			a, e := d.VerifFindAlignmentInRegion(m, ex, ey, fac)
			if e != nil {
				return c06detErr(e)
			}
			return "ok " + c06detRP(a) + "," + c06detFB(0)
		})
		c.CmpF("c06det-qr", fmt.Sprintf("c06det qralign %d %d %s %s %d %d %s", w, h, bits, c06detFB(m), ex, ey, c06detFB(fac)), outa, c06detCmpAP)
		c06detOracle(c, "qr.findAlignmentInRegion", img, fmt.Sprint(m, ex, ey, fac), outa)
		c.Note("c06det qr.findAlignmentInRegion " + c06detHead(outa))
		sx, sy := anyCoord(w), anyCoord(h)
		aw, ah := r.Range(-1, w), r.Range(-1, h)
		if r.Chance(0.7) { // a region inside the image, as findAlignmentInRegion produces
			if sx < 0 {
				sx = 0
			}
			if sy < 0 {
				sy = 0
			}
			if sx+aw > w-1 {
				aw = w - 1 - sx
			}
			if sy+ah > h-1 {
				ah = h - 1 - sy
			}
		}
		outf := Safe(func() string {
			a, e := qrdetector.NewAlignmentPatternFinder(img.bm, sx, sy, aw, ah, m, nil).Find()
			if e != nil {
				return c06detErr(e)
			}
			return "ok " + c06detRP(a) + "," + c06detFB(0)
		})
		c.CmpF("c06det-qr", fmt.Sprintf("c06det qrapfind %d %d %s %d %d %d %d %s", w, h, bits, sx, sy, aw, ah, c06detFB(m)), outf, c06detCmpAP)
		c06detOracle(c, "qr.AlignmentPatternFinder.Find", img, fmt.Sprint(sx, sy, aw, ah, m), outf)
		c.Note("c06det qr.AlignmentPatternFinder.Find " + c06detHead(outf))
	}
	// the locate step: mirror through the hooks (with module size) and the real ProcessFinderPatternInfo
	if info != nil {
		mirror := Safe(func() string { return c06detLocateMirror(d, info) })
		c.CmpF("c06det-qr", fmt.Sprintf("c06det qrlocate %d %d %s %s", w, h, bits, pts2(info)), mirror, c06detCmpTok)
		real := SafeT(5*time.Second, func() string {
			res, e := d.ProcessFinderPatternInfo(info)
			if e != nil {
				return c06detErr(e)
			}
			al := "none"
			if ps := res.GetPoints(); len(ps) == 4 {
				al = c06detRP(ps[3])
			}
			return fmt.Sprintf("ok dim=%d align=%s", res.GetBits().GetWidth(), al)
		})
		c.CmpF("c06det-qr", fmt.Sprintf("c06det qrlocate2 %d %d %s %s", w, h, bits, pts2(info)), real, c06detCmpUpToSampling)
		c06detOracle(c, "qr.Detect", img, "ProcessFinderPatternInfo", real)
		c.Note("c06det qr.ProcessFinderPatternInfo " + c06detHead(real))
	}
}

func pts2(info *qrdetector.FinderPatternInfo) string {
	return c06detRP(info.GetTopLeft()) + " " + c06detRP(info.GetTopRight()) + " " + c06detRP(info.GetBottomLeft())
}

// alignment patterns: the model prints x,y,size; Go side prints x,y and a placeholder — compare x,y only
func c06detCmpAP(goOut, model string) (bool, bool) {
	if strings.HasPrefix(goOut, "ok ") && strings.HasPrefix(model, "ok ") {
		a, b := c06detTokens(goOut), c06detTokens(model)
		if len(a) != 4 || len(b) != 4 {
			return false, false
		}
		return c06detCmpTok(strings.Join(a[:3], " "), strings.Join(b[:3], " "))
	}
	return goOut == model, false
}

func c06detLocateMirror(d *qrdetector.Detector, info *qrdetector.FinderPatternInfo) string {
	tl, tr, bl := info.GetTopLeft(), info.GetTopRight(), info.GetBottomLeft()
	ms := d.VerifCalculateModuleSize(tl, tr, bl)
	if ms < 1.0 {
		return "ERR:notfound"
	}
	dim, e := d.VerifComputeDimension(tl, tr, bl, ms)
	if e != nil {
		return c06detErr(e)
	}
	ver, e := qrdecoder.Version_GetProvisionalVersionForDimension(dim)
	if e != nil {
		return "ERR:format"
	}
	al := "none"
	if len(ver.GetAlignmentPatternCenters()) > 0 {
		brx := tr.GetX() - tl.GetX() + bl.GetX()
		bry := tr.GetY() - tl.GetY() + bl.GetY()
		corr := 1.0 - 3.0/float64(ver.GetDimensionForVersion()-7)
		ex := int(tl.GetX() + corr*(brx-tl.GetX()))
		ey := int(tl.GetY() + corr*(bry-tl.GetY()))
		for i := 4; i <= 16; i <<= 1 {
			a, e := d.VerifFindAlignmentInRegion(ms, ex, ey, float64(i))
			if e == nil {
				al = c06detRP(a)
				break
			}
		}
	}
	return fmt.Sprintf("ok ms=%s dim=%d align=%s", c06detFB(ms), dim, al)
}

func c06detQRDetect(c *Ctx, img c06detImg, bits string, tryHarder bool) {
	hints, th := c06detHints(tryHarder)
	out := SafeT(5*time.Second, func() string {
		res, e := qrdetector.NewDetector(img.bm).Detect(hints)
		if e != nil {
			if res != nil {
				return "BOTH"
			}
			return c06detErr(e)
		}
		ps := res.GetPoints()
		al := "none"
		if len(ps) == 4 {
			al = c06detRP(ps[3])
		}
		fp := func(p gozxing.ResultPoint) string { return c06detFP(p.(*qrdetector.FinderPattern)) }
		return fmt.Sprintf("ok %s;%s;%s dim=%d align=%s", fp(ps[0]), fp(ps[1]), fp(ps[2]), res.GetBits().GetWidth(), al)
	})
	c.CmpF("c06det-qr", fmt.Sprintf("c06det qrdetect2 %d %d %s %s", img.w, img.h, bits, th), out, c06detCmpUpToSampling)
	c06detOracle(c, "qr.Detect", img, "tryHarder="+th, out)
	c.Note("c06det qr.Detect " + img.class + " " + c06detHead(out))
}

func c06detQRSuite(c *Ctx) {
	n := c.Pick(1500, 40000)
	r := c.Rng.Fork()
	for i := 0; i < n && c.TimeLeft(); i++ {
		img := c06detGenQR(r, c.Pick(80, 250))
		bits := c06detBits(img.bm)
		th := r.Chance(0.3)
		info := c06detQRFind(c, img, bits, th)
		c06detQRPieces(c, r, img, bits, info)
		c06detQRDetect(c, img, bits, th)
	}
}

// images for the QR pieces: half of them carry a QR symbol or a QR-like arrangement of three finder patterns
func c06detGenQR(r *Rng, maxDim int) c06detImg {
	switch r.Intn(10) {
	case 0, 1, 2: // rendered QR symbol, scaled, padded (also no quiet zone), rotated / mirrored, maybe noisy or cropped
		s := c06QRSymbol(r, c06Text(r))
		if s == nil {
			break
		}
		k := r.Pick([]int{1, 2, 2, 3, 4})
		for s.GetWidth()*k > maxDim && k > 1 {
			k--
		}
		pl, pt, pr, pb := r.Pick([]int{0, 1, 4, 8}), r.Pick([]int{0, 1, 4, 8}), r.Pick([]int{0, 1, 4, 8}), r.Pick([]int{0, 1, 4, 8})
		if r.Chance(0.1) {
			pl, pt = -r.Range(0, 3*k), -r.Range(0, 3*k)
		}
		w, h := s.GetWidth()*k+pl+pr, s.GetHeight()*k+pt+pb
		m := c06detNew(w, h)
		c06detPaste(m, s, k, pl, pt, r.Pick([]int{0, 0, 1, 2, 3}), r.Chance(0.2))
		class := "qr"
		if r.Chance(0.3) {
			c06detNoise(r, m, r.Pick([]int{1, 5, 50, 300}))
			class = "qr-noise"
		}
		return c06detImg{w, h, m, class}
	case 3, 4: // three finder patterns in QR arrangement, the rest random or empty
		k := r.Range(1, 4)
		d := r.Pick([]int{17, 21, 25, 29, 33, 22, 23, 24}) // modules between the outer edges (also sizes no version has)
		if d*k > maxDim {
			k = 1
		}
		p := r.Range(0, 6)
		w, h := d*k+2*p+r.Range(0, 5), d*k+2*p+r.Range(0, 5)
		m := c06detNew(w, h)
		if r.Bool() {
			dens := []float64{0.1, 0.5}[r.Intn(2)]
			for y := p + 8*k; y < p+d*k; y++ {
				for x := p + 8*k; x < p+d*k; x++ {
					if r.Chance(dens) {
						c06detRect(m, x, y, x, y, true)
					}
				}
			}
		}
		c06detFinder(m, p, p, k)
		c06detFinder(m, p+(d-7)*k, p, k)
		c06detFinder(m, p, p+(d-7)*k, k)
		if r.Chance(0.5) { // an alignment pattern near the fourth corner
			ax, ay := p+(d-9)*k+r.Range(-k, k), p+(d-9)*k+r.Range(-k, k)
			c06detRect(m, ax, ay, ax+5*k-1, ay+5*k-1, true)
			c06detRect(m, ax+k, ay+k, ax+4*k-1, ay+4*k-1, false)
			c06detRect(m, ax+2*k, ay+2*k, ax+3*k-1, ay+3*k-1, true)
		}
		if r.Chance(0.3) {
			c06detNoise(r, m, r.Pick([]int{1, 5, 30}))
		}
		return c06detImg{w, h, m, "qr3"}
	}
	return c06detGen(r, maxDim)
}
