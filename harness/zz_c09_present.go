package main

// C09 (and, through c17PresentKinds, C17): HOW the image reaches the reader.  The property speaks of "an image";
// the readers take any image.Image.  The same pixels are therefore presented as different concrete image types and —
// what ordinary tests never do — as views whose Bounds().Min is not (0,0): a SubImage cut out of a larger sheet that
// carries OTHER labels around the view (so that a reader that mis-addresses the view reads another label, which the
// negative oracle reports as a misread), or an image allocated on a shifted rectangle.

import (
	"image"
	"image/color"
	"image/draw"
)

const c09PresentKinds = 11

var c09PresentNames = [c09PresentKinds]string{"gray", "gray-subimage-of-sheet", "gray-shifted-rect", "rgba", "rgba-subimage-of-sheet",
	"nrgba-shifted-rect", "gray16", "paletted-shifted-rect", "opaque-wrapper-shifted", "rgba64", "ycbcr444-subimage"}

// c09Opaque hides the concrete type (no fast path of the library can recognise it).
type c09Opaque struct{ im image.Image }

func (o c09Opaque) ColorModel() color.Model { return o.im.ColorModel() }
func (o c09Opaque) Bounds() image.Rectangle { return o.im.Bounds() }
func (o c09Opaque) At(x, y int) color.Color { return o.im.At(x, y) }

// c09Sheet: 3x3 cells of the size of g; the centre cell holds g, the eight others the decoy (or g turned by 180
// degrees when there is no decoy of the same size).  Returns the sheet and the rectangle of the centre cell.
func c09Sheet(g, decoy *image.Gray) (*image.Gray, image.Rectangle) {
	w, h := g.Rect.Dx(), g.Rect.Dy()
	sheet := c06NewGray(3*w, 3*h, 255)
	for cy := 0; cy < 3; cy++ {
		for cx := 0; cx < 3; cx++ {
			src := decoy
			if cx == 1 && cy == 1 {
				src = g
			}
			if src == nil || src.Rect.Dx() != w || src.Rect.Dy() != h {
				continue
			}
			for y := 0; y < h; y++ {
				copy(sheet.Pix[(cy*h+y)*sheet.Stride+cx*w:(cy*h+y)*sheet.Stride+cx*w+w], src.Pix[y*src.Stride:y*src.Stride+w])
			}
		}
	}
	return sheet, image.Rect(w, h, 2*w, 2*h)
}

func c09Present(g, decoy *image.Gray, kind int, dx, dy int) image.Image {
	w, h := g.Rect.Dx(), g.Rect.Dy()
	shifted := image.Rect(dx, dy, dx+w, dy+h)
	switch kind {
	default:
		return g
	case 1:
		sheet, r := c09Sheet(g, decoy)
		return sheet.SubImage(r)
	case 2:
		o := image.NewGray(shifted)
		draw.Draw(o, shifted, g, image.Point{}, draw.Src)
		return o
	case 3:
		o := image.NewRGBA(g.Rect)
		draw.Draw(o, g.Rect, g, image.Point{}, draw.Src)
		return o
	case 4:
		sheet, r := c09Sheet(g, decoy)
		o := image.NewRGBA(sheet.Rect)
		draw.Draw(o, sheet.Rect, sheet, image.Point{}, draw.Src)
		return o.SubImage(r)
	case 5:
		o := image.NewNRGBA(shifted)
		draw.Draw(o, shifted, g, image.Point{}, draw.Src)
		return o
	case 6:
		o := image.NewGray16(g.Rect)
		draw.Draw(o, g.Rect, g, image.Point{}, draw.Src)
		return o
	case 7:
		o := image.NewPaletted(shifted, color.Palette{color.Gray{255}, color.Gray{0}})
		for y := 0; y < h; y++ {
			for x := 0; x < w; x++ {
				if g.Pix[y*g.Stride+x] < 128 {
					o.SetColorIndex(dx+x, dy+y, 1)
				}
			}
		}
		return o
	case 8:
		o := image.NewGray(shifted)
		draw.Draw(o, shifted, g, image.Point{}, draw.Src)
		return c09Opaque{o}
	case 9:
		o := image.NewRGBA64(g.Rect)
		draw.Draw(o, g.Rect, g, image.Point{}, draw.Src)
		return o
	case 10:
		sheet, r := c09Sheet(g, decoy)
		o := image.NewYCbCr(sheet.Rect, image.YCbCrSubsampleRatio444)
		for y := 0; y < sheet.Rect.Dy(); y++ {
			copy(o.Y[y*o.YStride:y*o.YStride+sheet.Rect.Dx()], sheet.Pix[y*sheet.Stride:y*sheet.Stride+sheet.Rect.Dx()])
		}
		for i := range o.Cb {
			o.Cb[i], o.Cr[i] = 128, 128
		}
		return o.SubImage(r)
	}
}
