package main

// C12, two further input dimensions of "any content, size and hints":
//
//  (1) HISTORIES.  The property quantifies over every call, not only over the first call on a fresh writer.  One
//      long-lived instance of each writer executes sequences of requests in which a request is often repeated
//      verbatim (also a REJECTED one), or repeated with only the size changed, or followed by a request that
//      differs in one hint only.  Every call is judged by the C12 oracle (no panic, exactly one of matrix/error,
//      dimension rules) and its outcome INCLUDING the pixels must equal the outcome of the same request on a
//      fresh writer (a stale memo, a remembered hint, a nil result cached after a rejection show up here).
//  (2) LARGE REQUESTS.  Widths / heights beyond 2^15 and 2^16 on one axis (the other axis tiny, so the images stay
//      small): totality must not depend on the size class of the request.

import (
	"fmt"
	"strings"
	"time"

	"github.com/makiuchi-d/gozxing"
	"github.com/makiuchi-d/gozxing/datamatrix"
	"github.com/makiuchi-d/gozxing/oned"
	"github.com/makiuchi-d/gozxing/qrcode"
)

func init() {
	prev := suites["C12"]
	suites["C12"] = func(c *Ctx) {
		prev(c)
		c12BigDims(c)
		c12History(c)
	}
}

func c12Fresh(name string) gozxing.Writer {
	switch name {
	case "QR":
		return qrcode.NewQRCodeWriter()
	case "DM":
		return datamatrix.NewDataMatrixWriter()
	case "CODE_128":
		return oned.NewCode128Writer()
	case "CODE_39":
		return oned.NewCode39Writer()
	case "CODE_93":
		return oned.NewCode93Writer()
	case "CODABAR":
		return oned.NewCodaBarWriter()
	case "ITF":
		return oned.NewITFWriter()
	case "EAN_13":
		return oned.NewEAN13Writer()
	case "EAN_8":
		return oned.NewEAN8Writer()
	case "UPC_A":
		return oned.NewUPCAWriter()
	}
	return oned.NewUPCEWriter()
}

// c12CallH is c12Call plus a hash of the pixels of a returned matrix.
func c12CallH(d time.Duration, w gozxing.Writer, contents string, f gozxing.BarcodeFormat, width, height int, hints c14Hints) string {
	ch := make(chan string, 1)
	go func() {
		defer func() {
			if p := recover(); p != nil {
				msg := fmt.Sprint(p)
				if i := strings.Index(msg, "\n"); i >= 0 {
					msg = msg[:i]
				}
				if len(msg) > 80 {
					msg = msg[:80]
				}
				ch <- "PANIC:" + c12NumRe.ReplaceAllString(msg, "N")
			}
		}()
		m, e := w.Encode(contents, f, width, height, hints)
		switch {
		case m != nil && e != nil:
			ch <- "BOTH"
		case m == nil && e == nil:
			ch <- "NEITHER"
		case e != nil:
			k := errKind(e)
			if k != "writer" {
				k = "other"
			}
			ch <- "ERR:" + k
		default:
			ch <- fmt.Sprintf("ok %dx%d #%016x", m.GetWidth(), m.GetHeight(), reuseHash(m))
		}
	}()
	select {
	case s := <-ch:
		return s
	case <-time.After(d):
		return "TIMEOUT"
	}
}

func c12History(c *Ctx) {
	ws := c12Writers()
	d := 4 * time.Second
	nSeq := c.Pick(40, 1500) // per writer
	type seqJob struct {
		w   c12Writer
		idx int
	}
	var jobs []seqJob
	for _, w := range ws {
		for i := 0; i < nSeq; i++ {
			jobs = append(jobs, seqJob{w, i})
		}
	}
	c.Parallel(len(jobs), 16, func(i int, r *Rng) {
		if !c.TimeLeft() {
			return
		}
		j := jobs[i]
		inst := c12Fresh(j.w.name) // the long-lived instance of this sequence
		one := []c12Writer{{j.w.name, j.w.kind, inst, j.w.format}}
		var hist []string
		var last *c12Case
		steps := r.Range(4, 10)
		for s := 0; s < steps; s++ {
			var k *c12Case
			switch p := r.Intn(10); {
			case last != nil && p < 3: // the same request again, verbatim
				k = last
				c.Note("history:repeat-verbatim")
			case last != nil && p < 5: // same contents and hints, other size
				cp := *last
				cp.width, cp.height = c12Size(r), c12Size(r)
				k = &cp
				c.Note("history:repeat-resized")
			case last != nil && p == 5 && len(last.hints) > 0: // one hint dropped
				cp := *last
				cp.hints = append([]c12Hint{}, last.hints[1:]...)
				k = &cp
				c.Note("history:repeat-one-hint-less")
			default:
				k = c12Gen(r, one, 0)
				// half of the fresh requests are made likely to be REJECTED by the encoder core (too long for a forced
				// small version / size): a rejection must leave nothing behind
				if r.Chance(0.3) {
					switch j.w.kind {
					case "qr":
						k.contents = strings.Repeat("A1", r.Range(20, 60))
						k.hints = append(k.hints, c12Hint{gozxing.EncodeHintType_QR_VERSION, 1, "int:1"})
					case "dm":
						k.contents = strings.Repeat("x", r.Range(20, 60))
						v, enc := c12Dim(10, 10)
						k.hints = append(k.hints, c12Hint{gozxing.EncodeHintType_MAX_SIZE, v, enc})
					}
					c.Note("history:likely-rejected")
				}
				c.Note("history:new-request")
			}
			if !k.inStmt || k.knownHang {
				continue
			}
			if k.width > 800 {
				k.width = 800 // keep the per-call pixel hash cheap
			}
			if k.height > 800 {
				k.height = 800
			}
			last = k
			got := c12CallH(d, inst, k.contents, k.format, k.width, k.height, k.hintMap())
			want := c12CallH(d, c12Fresh(j.w.name), k.contents, k.format, k.width, k.height, k.hintMap())
			hist = append(hist, k.input()+" -> "+got)
			if got == "TIMEOUT" || want == "TIMEOUT" {
				c.Note("history:timeout-skipped")
				continue
			}
			in := strings.Join(hist[c14Max(0, len(hist)-4):], " ;; ")
			key := ""
			switch {
			case strings.HasPrefix(got, "PANIC") && !strings.HasPrefix(want, "PANIC"):
				key = j.w.name + "-history-panic-" + c12PanicClass(got)
			case got == "NEITHER" || got == "BOTH":
				key = j.w.name + "-history-" + strings.ToLower(got)
			case got != want:
				key = j.w.name + "-history-differs-from-fresh-writer"
			}
			c.Oracle("c12-history", key == "", key, "same writer instance, calls in this order: "+in,
				"call "+fmt.Sprint(s+1)+" on the long-lived writer gave "+got+", the same request on a fresh writer gives "+want)
			cls := got
			if i := strings.IndexAny(got, " :"); i >= 0 {
				cls = got[:i]
			}
			c.Note("history:outcome:" + cls)
		}
	})
}

func c12BigDims(c *Ctx) {
	ws := c12Writers()
	d := 10 * time.Second
	bigs := []int{32767, 32768, 32769, 40000, 65535, 65536, 65537, 100003}
	small := []int{0, 1, 12, 40}
	r := c.Rng
	for _, w := range ws {
		contents := c12Valid(r, w)
		for _, b := range bigs {
			for _, s := range small {
				for axis := 0; axis < 2; axis++ {
					k := &c12Case{w: w, contents: contents, cclass: "valid-bigdim", format: w.format, inStmt: true}
					if axis == 0 {
						k.width, k.height = b, s
					} else {
						k.width, k.height = s, b
					}
					if w.kind != "dm" && r.Chance(0.5) {
						k.hints = append(k.hints, c12Hint{gozxing.EncodeHintType_MARGIN, 0, "int:0"})
					}
					c.Note("bigdim:" + w.kind)
					c12Run(c, k, d)
				}
			}
		}
	}
}
