package main

// C17, binariser HISTORIES.  "A row fetched singly equals the same row of the full matrix" and the black-row /
// black-matrix clauses quantify over every call on a binariser, not only over the first call on a fresh one: readers
// call GetBlackRow for dozens of rows of one image on ONE binariser (1-D readers: middle-out row scan, many of the
// rows rejected with NotFound), then GetBlackMatrix on the same object.  One long-lived binariser of each kind (and a
// BinaryBitmap on top of one) executes such a sequence over a grey image that contains rejectable rows (uniform dark,
// uniform light, single peak); every answer must equal the answer of a FRESH binariser on the same source for the same
// call.  State leaking from one call into the next (histogram not reset after a rejected row, luminance scratch buffer
// reused with a stale tail, cached matrix of another call) shows here.

import (
	"fmt"
	"strings"

	"github.com/makiuchi-d/gozxing"
)

func init() {
	prev := suites["C17"]
	suites["C17"] = func(c *Ctx) {
		prev(c)
		c17History(c)
	}
}

type c17Bin interface {
	GetBlackRow(y int, row *gozxing.BitArray) (*gozxing.BitArray, error)
	GetBlackMatrix() (*gozxing.BitMatrix, error)
}

func c17HistImage(r *Rng, w, h int) []byte {
	lum := c17GreyImage(r, w, h)
	for y := 0; y < h; y++ {
		switch r.Intn(6) {
		case 0: // uniform dark row: single peak -> NotFound
			v := byte(r.Range(0, 60))
			for x := 0; x < w; x++ {
				lum[y*w+x] = v
			}
		case 1: // uniform light row
			v := byte(r.Range(200, 255))
			for x := 0; x < w; x++ {
				lum[y*w+x] = v
			}
		case 2: // a mid-grey bar on a light row: the valley position matters
			bar, bg := byte(r.Range(90, 190)), byte(r.Range(230, 255))
			a := r.Intn(w)
			b := a + r.Range(1, w/3+1)
			for x := 0; x < w; x++ {
				lum[y*w+x] = bg
				if x >= a && x < b {
					lum[y*w+x] = bar
				}
			}
		}
	}
	return lum
}

func c17HistCall(b c17Bin, op string, y int, w int, pre *gozxing.BitArray) (string, *gozxing.BitArray) {
	var keep *gozxing.BitArray
	out := Safe(func() string {
		if op == "matrix" {
			m, e := b.GetBlackMatrix()
			if e != nil {
				return "ERR:" + errKind(e)
			}
			return fmt.Sprintf("%dx%d#%016x", m.GetWidth(), m.GetHeight(), reuseHash(m))
		}
		row, e := b.GetBlackRow(y, pre)
		if e != nil {
			return "ERR:" + errKind(e)
		}
		keep = row
		if row.GetSize() < w {
			return fmt.Sprintf("SHORT-ROW:%d", row.GetSize())
		}
		return c17RowBits(row, w)
	})
	return out, keep
}

func c17History(c *Ctx) {
	n := c.Pick(160, 6000)
	c.Parallel(n, 16, func(i int, r *Rng) {
		if !c.TimeLeft() {
			return
		}
		var w, h int
		switch i % 3 {
		case 0:
			w, h = r.Range(3, 39), r.Range(2, 20) // global method also for the matrix
		case 1:
			w, h = r.Range(40, 70), r.Range(40, 56) // hybrid's local method for the matrix
		default:
			w, h = r.Range(20, 90), r.Range(2, 12)
		}
		lum := c17HistImage(r, w, h)
		kind := []string{"gray", "rgb", "yuv"}[r.Intn(3)]
		mk := func() gozxing.LuminanceSource { return c17MakeSource(NewRng(uint64(i)*7919+1), kind, lum, w, h, true).src }
		src := mk()
		if src == nil {
			return
		}
		which := i % 3
		fresh := func() c17Bin {
			switch which {
			case 0:
				return gozxing.NewGlobalHistgramBinarizer(mk())
			case 1:
				return gozxing.NewHybridBinarizer(mk())
			}
			bb, _ := gozxing.NewBinaryBitmap(gozxing.NewHybridBinarizer(mk()))
			return bb
		}
		name := []string{"GlobalHistogramBinarizer", "HybridBinarizer", "BinaryBitmap(HybridBinarizer)"}[which]
		long := fresh()
		var pre *gozxing.BitArray
		var hist []string
		steps := r.Range(6, 24)
		for s := 0; s < steps; s++ {
			op, y := "row", r.Intn(h)
			if r.Chance(0.12) {
				op = "matrix"
			}
			usePre := pre != nil && r.Chance(0.5)
			var p1, p2 *gozxing.BitArray
			if usePre {
				p1 = pre
				p2 = gozxing.NewBitArray(pre.GetSize()) // a fresh caller hands in an equally sized scratch row
			}
			got, keep := c17HistCall(long, op, y, w, p1)
			want, _ := c17HistCall(fresh(), op, y, w, p2)
			if keep != nil {
				pre = keep
			}
			hist = append(hist, fmt.Sprintf("%s(y=%d,reuse-row=%v)->%s", op, y, usePre, c17Short(got)))
			c.Note("bin-history:" + name + ":" + op + ":" + strings.SplitN(got, ":", 2)[0][:1])
			ok := got == want
			lo := len(hist) - 5
			if lo < 0 {
				lo = 0
			}
			c.Oracle("bin-history", ok, "binariser-history:"+name,
				fmt.Sprintf("%s over a %dx%d %s image %s; calls on the same object: %s", name, w, h, kind, c17Hex(lum), strings.Join(hist[lo:], " ; ")),
				"long-lived binariser answered "+c17Short(got)+", a fresh binariser on the same source answers "+c17Short(want))
			if !ok {
				return
			}
		}
	})
}
