package main

// wp c18gen — suite "effects-module" of property C18.
//
// bin/check step 1 lets harness/cmd/c18effects write the static effect summary of the working tree as the Lean
// module Gzx.Gen.C18Effects (names as Nat codes); lean/Gzx/Obligations/C18.lean checks it against the reviewed lists
// of Gzx.Ref.C18Allowed in the kernel.  This suite ties the three representations together at run time:
//   * every list of the generated module, decoded by the compiled model driver, equals the scan the harness makes
//     itself of the same tree (so the kernel-visible codes mean what the comments say, and the module is fresh);
//   * the reviewed lists in Lean (Ref) and the corpus lists as parsed by the generator decode to exactly the lines of
//     the corpus text files the harness reads;
//   * the driver's evaluation of the coverage check equals the harness's own;
//   * the merge checkers (subCodes, subPairs, eqCodes, sortedCodes, ...) and the name coding agree with Go
//     re-implementations on random and boundary inputs;
// and judges the REAL tree with oracles for the effect classes the C18 suite did not have yet: writes to fields of
// shared objects after construction, uses of package sync, go statements, channel operations.

import (
	"encoding/hex"
	"fmt"
	"math/big"
	"os"
	"path/filepath"
	"sort"
	"strings"
)

func init() {
	prev := suites["C18"]
	suites["C18"] = func(c *Ctx) {
		prev(c)
		c18genEffects(c)
	}
}

// order of the Nat codes = (length, bytes) order of the texts (no name starts with a NUL byte)
func c18genLess(a, b string) bool {
	if len(a) != len(b) {
		return len(a) < len(b)
	}
	return a < b
}

type c18genPair struct{ a, b string }

func c18genSplit(xs []string, sep string) []c18genPair {
	var out []c18genPair
	for _, x := range xs {
		if sep == "" {
			out = append(out, c18genPair{a: x})
			continue
		}
		k := strings.Index(x, sep)
		if k < 0 {
			out = append(out, c18genPair{x, "?"})
			continue
		}
		out = append(out, c18genPair{strings.TrimSpace(x[:k]), strings.TrimSpace(x[k+len(sep):])})
	}
	sort.Slice(out, func(i, j int) bool {
		if out[i].a != out[j].a {
			return c18genLess(out[i].a, out[j].a)
		}
		return c18genLess(out[i].b, out[j].b)
	})
	w := out[:0]
	for i, x := range out {
		if i == 0 || x != out[i-1] {
			w = append(w, x)
		}
	}
	return w
}

func c18genShow(ps []c18genPair, pair bool) string {
	if len(ps) == 0 {
		return "-"
	}
	ss := make([]string, len(ps))
	for i, p := range ps {
		if pair {
			ss[i] = p.a + ">" + p.b
		} else {
			ss[i] = p.a
		}
	}
	return strings.Join(ss, ";")
}

func c18genAllowedList(c *Ctx, file string) []string {
	m, err := c18Allowed(filepath.Join(c18HarnessDir(), "..", "corpus", file))
	if err != nil {
		return nil // a list that does not exist is empty
	}
	var out []string
	for k := range m {
		out = append(out, k)
	}
	sort.Strings(out)
	return out
}

func c18genEffects(c *Ctx) {
	c.res.Rule += "; effects-module: every list of the regenerated Lean module Gen.C18Effects and of Ref.C18Allowed decoded by the driver and compared with the harness's own scan / the corpus text files; merge checkers and name coding on random inputs"
	if ok, msg := c18genSelfTest(); !ok {
		c.Oracle("c18-scan", false, "c18-scanner-selftest-failed", "synthetic package q (shared types, lazy fields, sync, go, chan)", msg)
	} else {
		c.Oracle("c18-scan", true, "", "scanner self-test 2: shared types through pointers, maps and interface variables; 3 writes to fields of shared objects found (one through a local alias of the field's backing array), instance-only state and read-only use not reported; sync / go / chan uses", "")
	}
	sc, err := c18ScanRepo(c06RepoDir())
	if err != nil {
		c.Oracle("c18-scan", false, "c18-scan-failed", c06RepoDir(), err.Error())
		return
	}
	var mutable []string
	for i, v := range sc.Vars {
		if !sc.InitOnly[i] {
			mutable = append(mutable, v)
		}
	}
	type lst struct {
		name string
		xs   []string
		sep  string
	}
	gen := []lst{
		{"vars", sc.Vars, ""}, {"runtimeWrittenVars", mutable, ""}, {"sharedWrites", sc.Writes, " -> "}, {"initWrites", sc.InitWrites, " -> "},
		{"escapes", sc.Escapes, " => "}, {"instanceWrites", sc.InstWrites, ""}, {"sharedTypes", sc.SharedTypes, ""},
		{"sharedTypeWrites", sc.SharedTypeWrites, " ~> "}, {"aliasFieldWrites", sc.AliasFieldWrites, " ~> "}, {"syncUses", sc.SyncUses, ": "}, {"goStmts", sc.GoStmts, ""}, {"chanOps", sc.ChanOps, ""},
		{"functions", sc.Funcs, ""}, {"initFunctions", sc.InitFuncs, ""},
	}
	for _, l := range gen {
		c.Cmp("effects-module", "c18g list "+l.name, c18genShow(c18genSplit(l.xs, l.sep), l.sep != ""))
		c.NoteN("effects:"+l.name, len(l.xs))
	}
	corp := []lst{
		{"sharedWrites", c18genAllowedList(c, "C18/allowed-shared-writes.txt"), " -> "},
		{"escapes", c18genAllowedList(c, "C18/allowed-global-escapes.txt"), " => "},
		{"sharedTypeWrites", c18genAllowedList(c, "C18/allowed-shared-type-writes.txt"), " ~> "},
		{"syncUses", c18genAllowedList(c, "C18/allowed-sync-uses.txt"), ": "},
		{"goStmts", c18genAllowedList(c, "C18/allowed-go-stmts.txt"), ""},
		{"chanOps", c18genAllowedList(c, "C18/allowed-chan-ops.txt"), ""},
		{"instanceWrites", c18genAllowedList(c, "purity/allowed-instance-writes.txt"), ""},
	}
	allowed := map[string]map[string]bool{}
	for _, l := range corp {
		want := c18genShow(c18genSplit(l.xs, l.sep), l.sep != "")
		c.Cmp("effects-module", "c18g list corpus."+l.name, want)
		c.Cmp("effects-module", "c18g list ref."+l.name, want)
		m := map[string]bool{}
		for _, p := range c18genSplit(l.xs, l.sep) {
			m[p.a+">"+p.b] = true
		}
		allowed[l.name] = m
	}
	// the harness's own coverage verdict, in the order the driver lists offenders
	var viol []string
	check := func(name string, xs []string, sep string, pair bool, oracleKey, what string) {
		for _, p := range c18genSplit(xs, sep) {
			ok := allowed[name][p.a+">"+p.b]
			shown := p.a
			if pair {
				shown = p.a + ">" + p.b
			}
			if !ok {
				viol = append(viol, shown)
			}
			if oracleKey != "" {
				c.Oracle("c18-scan", ok, oracleKey+":"+shown, shown, what)
			}
		}
	}
	check("sharedWrites", sc.Writes, " -> ", true, "", "") // oracle: suite C18 (shared-write:...)
	check("escapes", sc.Escapes, " => ", true, "", "")     // oracle: suite C18 (global-escape:...)
	check("sharedTypeWrites", sc.SharedTypeWrites, " ~> ", true, "shared-type-write",
		"a field of a struct type of which an instance is reachable from a package-level variable is written after construction (outside constructors and init-time code): every goroutine that was handed the shared instance writes the same memory — e.g. tables built lazily on first use; not in the reviewed list corpus/C18/allowed-shared-type-writes.txt")
	check("syncUses", sc.SyncUses, ": ", true, "sync-use",
		"the library mentions package sync / sync/atomic: there is lazily initialised or locked shared state now, which the non-interference premise (no run-time write to shared state) does not cover; review it against LazySafe (lean/Gzx/Model/LazyInit.lean) and list it in corpus/C18/allowed-sync-uses.txt")
	check("goStmts", sc.GoStmts, "", false, "go-stmt",
		"the library starts a goroutine: instances are no longer confined to the goroutine that created them; not in corpus/C18/allowed-go-stmts.txt")
	check("chanOps", sc.ChanOps, "", false, "chan-op",
		"the library uses channels; not in corpus/C18/allowed-chan-ops.txt")
	check("instanceWrites", sc.InstWrites, "", false, "", "") // reported as broken premise by zz_purity.go for the owning properties
	want := "ok"
	if len(viol) > 0 {
		want = "violated:" + strings.Join(viol, ";")
	}
	c.Cmp("effects-module", "c18g uncovered", want)

	// ---- merge checkers and name coding against Go re-implementations ----
	r := c.Rng
	mkList := func(n, span int, sorted bool) []int {
		xs := make([]int, n)
		for i := range xs {
			xs[i] = r.Intn(span)
		}
		if sorted {
			sort.Ints(xs)
			w := xs[:0]
			for i, x := range xs {
				if i == 0 || x != xs[i-1] {
					w = append(w, x)
				}
			}
			xs = w
		}
		return xs
	}
	subMerge := func(less func(a, b int) bool, n, m int, eq func(a, b int) bool) bool { // the Lean algorithm, index form
		i, j := 0, 0
		for i < n {
			if j >= m {
				return false
			}
			switch {
			case eq(i, j):
				i++
				j++
			case less(j, i): // ys[j] < xs[i]
				j++
			default:
				return false
			}
		}
		return true
	}
	bit := func(b bool) string {
		if b {
			return "1"
		}
		return "0"
	}
	for it := 0; it < c.Pick(400, 4000); it++ {
		sorted := r.Chance(0.7)
		a := mkList(r.Range(0, 8), r.Range(1, 12), sorted)
		b := mkList(r.Range(0, 10), r.Range(1, 12), sorted)
		if r.Chance(0.15) {
			b = append([]int{}, a...)
		}
		if r.Chance(0.2) && len(b) > 0 { // a is a sub-list of b
			a = nil
			for _, x := range b {
				if r.Bool() {
					a = append(a, x)
				}
			}
		}
		isSorted := func(xs []int) bool {
			for i := 1; i < len(xs); i++ {
				if xs[i-1] >= xs[i] {
					return false
				}
			}
			return true
		}
		eqL := len(a) == len(b)
		if eqL {
			for i := range a {
				if a[i] != b[i] {
					eqL = false
				}
			}
		}
		var missing []int
		for _, x := range a {
			f := false
			for _, y := range b {
				if x == y {
					f = true
				}
			}
			if !f {
				missing = append(missing, x)
			}
		}
		sub := subMerge(func(j, i int) bool { return b[j] < a[i] }, len(a), len(b), func(i, j int) bool { return a[i] == b[j] })
		if sorted { // on sorted lists the merge is complete: it must agree with plain set inclusion
			c.Oracle("effects-checkers", sub == (len(missing) == 0), "merge-check-incomplete", fmt.Sprint(a, b), "merge check differs from set inclusion on sorted lists")
		}
		enc := func(xs []int) string {
			if len(xs) == 0 {
				return "-"
			}
			return ints(xs)
		}
		ms := "-"
		if len(missing) > 0 {
			ms = ints(missing)
		}
		c.Cmp("effects-checkers", fmt.Sprintf("c18g checks %s %s", enc(a), enc(b)),
			bit(sub)+bit(eqL)+bit(isSorted(a))+bit(isSorted(b))+"|"+ms)
		// pairs
		type pr struct{ x, y int }
		mkP := func(n int) []pr {
			ps := make([]pr, n)
			for i := range ps {
				ps[i] = pr{r.Intn(4), r.Intn(4)}
			}
			if sorted {
				sort.Slice(ps, func(i, j int) bool { return ps[i].x < ps[j].x || (ps[i].x == ps[j].x && ps[i].y < ps[j].y) })
				w := ps[:0]
				for i, p := range ps {
					if i == 0 || p != ps[i-1] {
						w = append(w, p)
					}
				}
				ps = w
			}
			return ps
		}
		pa, pb := mkP(r.Range(0, 6)), mkP(r.Range(0, 8))
		if r.Chance(0.15) {
			pb = append([]pr{}, pa...)
		}
		lt := func(p, q pr) bool { return p.x < q.x || (p.x == q.x && p.y < q.y) }
		subP := subMerge(func(j, i int) bool { return lt(pb[j], pa[i]) }, len(pa), len(pb), func(i, j int) bool { return pa[i] == pb[j] })
		eqP := len(pa) == len(pb)
		if eqP {
			for i := range pa {
				if pa[i] != pb[i] {
					eqP = false
				}
			}
		}
		srt := func(ps []pr) bool {
			for i := 1; i < len(ps); i++ {
				if !lt(ps[i-1], ps[i]) {
					return false
				}
			}
			return true
		}
		nm := 0
		for _, p := range pa {
			f := false
			for _, q := range pb {
				if p == q {
					f = true
				}
			}
			if !f {
				nm++
			}
		}
		encP := func(ps []pr) string {
			if len(ps) == 0 {
				return "-"
			}
			ss := make([]string, len(ps))
			for i, p := range ps {
				ss[i] = fmt.Sprintf("%d:%d", p.x, p.y)
			}
			return strings.Join(ss, ",")
		}
		c.Cmp("effects-checkers", fmt.Sprintf("c18g checksp %s %s", encP(pa), encP(pb)),
			bit(subP)+bit(eqP)+bit(srt(pa))+bit(srt(pb))+fmt.Sprintf("|%d", nm))
	}
	// name coding: every name of the scan plus random UTF-8 / punctuation
	names := append([]string{}, sc.Vars...)
	for i := 0; i < len(sc.Funcs); i += c.Pick(9, 1) {
		names = append(names, sc.Funcs[i])
	}
	names = append(names, "a", "é", "日本", "x -> y", "p.(*T).m", strings.Repeat("z", 300))
	for _, n := range names {
		code := new(big.Int).SetBytes([]byte(n))
		c.Cmp("effects-coding", "c18g enc "+hex.EncodeToString([]byte(n)), code.String())
		c.Cmp("effects-coding", "c18g dec "+code.String(), n)
	}
}

// ---- self-test of the scanner additions on a synthetic package (run on every check) ----

const c18genSelfSrc = `package q

import (
	"sync"
	"sync/atomic"
)

type Field struct{ exp []int; size int; hits int64 }
type Poly struct{ f *Field; c []int }
type Sampler interface{ Sample() int }
type defaultSampler struct{ scratch []int }
type Local struct{ n int }

var QR = NewField(256)
var tables = map[int]*Field{}
var sampler Sampler = &defaultSampler{}
var mu sync.Mutex
var ready int32
var consts = []int{1, 2}
var any0 interface{} = &Local{}

func NewField(n int) *Field { f := &Field{size: n}; f.exp = make([]int, n); return f }
func init() { tables[256] = QR }

func (f *Field) Exp(i int) int { f.build(); return f.exp[i] }
func (f *Field) build() { if f.exp == nil { f.exp = make([]int, f.size) } }
func (f *Field) Count() { atomic.AddInt64(&f.hits, 1) }
func (p *Poly) Eval(x int) int { return p.f.Exp(x) + p.c[0] }
func (s *defaultSampler) Sample() int { s.scratch = append(s.scratch[:0], 1); return len(s.scratch) }
func (s *defaultSampler) Fill() int { b := s.scratch[:0]; b = append(b, 1); return len(b) }
func (f *Field) Sum() int { t := f.exp; n := 0; for _, v := range t { n += v }; return n + len(t) }
func (p *Poly) Scale(k int) { c := p.c; for i := range c { c[i] *= k } }
func (l *Local) Bump() { l.n++ }
func Locked() int { mu.Lock(); defer mu.Unlock(); return consts[0] }
func Spawn() { go Locked() }
func Pipe() int { ch := make(chan int, 1); ch <- 1; return <-ch }
func ReadOnly() int { return consts[1] + QR.size }
`

func c18genSelfTest() (bool, string) {
	dir, err := os.MkdirTemp("", "c18genself")
	if err != nil {
		return false, err.Error()
	}
	defer os.RemoveAll(dir)
	os.MkdirAll(filepath.Join(dir, "q"), 0o755)
	os.WriteFile(filepath.Join(dir, "q", "q.go"), []byte(c18genSelfSrc), 0o644)
	sc, err := c18ScanRepo(dir)
	if err != nil {
		return false, err.Error()
	}
	var mutable []string
	for i, v := range sc.Vars {
		if !sc.InitOnly[i] {
			mutable = append(mutable, v)
		}
	}
	want := map[string]string{
		// Field (QR, tables), Poly is NOT reachable from a variable, defaultSampler through the interface variable,
		// Local only through interface{} (not followed)
		"shared-types": "q.Field q.defaultSampler",
		// lazily built table, a counter and a scratch buffer inside objects that are shared; Local.n is instance state
		// a lazily built table and a scratch buffer inside objects that are shared (the function that assigns the field is
		// named; Exp, which only calls build, is not).  Local.n and Poly.f are instance state of types no variable holds:
		// in instance-writes, not here.  atomic.AddInt64(&f.hits, 1) is a call into the standard library — not seen as a
		// write (documented unsoundness), which is why every mention of sync / sync/atomic is listed separately.
		"shared-type-writes": "q.(*Field).build ~> q.Field.exp | q.(*defaultSampler).Fill ~> q.defaultSampler.scratch | q.(*defaultSampler).Sample ~> q.defaultSampler.scratch",
		// through a local alias of the field: Fill appends to s.scratch[:0], Scale stores into p.c; Sum only reads f.exp
		"alias-writes":    "q.(*Poly).Scale ~> q.Poly.c | q.(*defaultSampler).Fill ~> q.defaultSampler.scratch",
		"instance-writes": "q.Field.exp q.Local.n q.Poly.f q.defaultSampler.scratch",
		"sync-uses":       "q.(*Field).Count: sync/atomic.AddInt64 | q.mu: sync.Mutex",
		"go-stmts":        "q.Spawn",
		"chan-ops":        "q.Pipe",
		"init-writes":     "q.init -> q.tables",
		"init-funcs":      "q.init",
		"runtime-vars":    "",
	}
	got := map[string]string{
		"shared-types":       strings.Join(sc.SharedTypes, " "),
		"shared-type-writes": strings.Join(sc.SharedTypeWrites, " | "),
		"instance-writes":    strings.Join(sc.InstWrites, " "),
		"alias-writes":       strings.Join(sc.AliasFieldWrites, " | "),
		"sync-uses":          strings.Join(sc.SyncUses, " | "),
		"go-stmts":           strings.Join(sc.GoStmts, " "),
		"chan-ops":           strings.Join(sc.ChanOps, " "),
		"init-writes":        strings.Join(sc.InitWrites, " | "),
		"init-funcs":         strings.Join(sc.InitFuncs, " "),
		"runtime-vars":       strings.Join(mutable, " "),
	}
	var bad []string
	for k, w := range want {
		if got[k] != w {
			bad = append(bad, fmt.Sprintf("%s: got %q want %q", k, got[k], w))
		}
	}
	sort.Strings(bad)
	return len(bad) == 0, strings.Join(bad, "\n")
}
