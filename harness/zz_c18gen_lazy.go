package main

// wp c18gen — suite "lazy-machine" of property C18: the Lean machine with first-use initialisation
// (lean/Gzx/Model/LazyInit.lean: guarded writes, atomic `once k` steps over lazy groups) against a Go interpreter on
// random three-goroutine programs and schedules, including malformed lazy structures (group 2 has its flag on a cell),
// empty programs, schedules that overrun a program; plus the two patterns the theorems are about, enumerated over ALL
// interleavings: `once` before every use (results never depend on the schedule) and the unsynchronised check-then-fill
// (some schedule lets a goroutine read an unfilled cell).

import (
	"fmt"
	"strings"
)

func init() {
	prev := suites["C18"]
	suites["C18"] = func(c *Ctx) {
		prev(c)
		c18genLazy(c)
	}
}

// the lazy structure of the driver command `c18g lrun` (drvL)
func c18genFlagOf(k int) int { return k }
func c18genCell(loc int) (k, v int, ok bool) {
	switch loc {
	case 2:
		return 0, 7, true
	case 3:
		return 0, 9, true
	case 4:
		return 1, 11, true
	}
	return 0, 0, false
}

// c18genLInterp mirrors lstepOf / lexec / initGroup
func c18genLInterp(progs [3][]string, sched string, regs int) string {
	var P [3][8]int
	var G [8]int
	at := func(loc int) int {
		if loc >= 0 && loc < 8 {
			return G[loc]
		}
		return 0 // the Lean store is total: locations never written hold their initial 0
	}
	pc := [3]int{}
	for _, ch := range sched {
		g := int(ch - '0')
		if g < 0 || g > 2 || pc[g] >= len(progs[g]) {
			continue
		}
		t := progs[g][pc[g]]
		pc[g]++
		var a, b, cc, d int
		switch t[0] {
		case 'r':
			fmt.Sscanf(t[1:], "%d.%d", &a, &b)
			P[g][a] = at(b)
		case 'w':
			fmt.Sscanf(t[1:], "%d.%d.%d", &a, &b, &cc)
			G[a] = P[g][b] + cc
		case 'g':
			fmt.Sscanf(t[1:], "%d.%d.%d.%d", &a, &b, &cc, &d)
			if P[g][a] == 0 {
				G[b] = P[g][cc] + d
			}
		case 'o':
			fmt.Sscanf(t[1:], "%d", &a)
			f := c18genFlagOf(a)
			if at(f) == 0 {
				var N [8]int
				for loc := 0; loc < 8; loc++ {
					switch k, v, ok := c18genCell(loc); {
					case loc == f:
						N[loc] = 1
					case ok && k == a:
						N[loc] = v
					default:
						N[loc] = G[loc]
					}
				}
				G = N
			}
		}
	}
	show := func(g int) string {
		var s []string
		for r := 0; r < regs; r++ {
			s = append(s, fmt.Sprint(P[g][r]))
		}
		return strings.Join(s, ",")
	}
	var gs []string
	for _, v := range G {
		gs = append(gs, fmt.Sprint(v))
	}
	return show(0) + "|" + show(1) + "|" + show(2) + "|" + strings.Join(gs, ",")
}

func c18genLazy(c *Ctx) {
	c.res.Rule += "; lazy-machine: Lean lrun vs Go interpreter on random 3-goroutine programs over read / write / guarded write / once steps (well-formed and malformed lazy groups); all interleavings of the once-pattern and of the unsynchronised check-then-fill pattern"
	r := c.Rng
	enc := func(p []string) string {
		if len(p) == 0 {
			return "-"
		}
		return strings.Join(p, ";")
	}
	for i := 0; i < c.Pick(400, 6000); i++ {
		mk := func() []string {
			var p []string
			for k := r.Range(0, 6); k > 0; k-- {
				switch r.Intn(6) {
				case 0, 1:
					p = append(p, fmt.Sprintf("r%d.%d", r.Intn(3), r.Intn(8)))
				case 2:
					p = append(p, fmt.Sprintf("w%d.%d.%d", r.Intn(8), r.Intn(3), r.Intn(5)))
				case 3:
					p = append(p, fmt.Sprintf("g%d.%d.%d.%d", r.Intn(3), r.Intn(8), r.Intn(3), r.Intn(5)))
				default:
					p = append(p, fmt.Sprintf("o%d", r.Intn(3)))
				}
			}
			return p
		}
		progs := [3][]string{mk(), mk(), mk()}
		var sb strings.Builder
		for k := r.Range(0, 20); k > 0; k-- {
			sb.WriteByte(byte('0' + r.Intn(3)))
		}
		sched := sb.String()
		if sched == "" {
			sched = "x"
		}
		for _, p := range progs {
			for _, t := range p {
				c.Note("lazy-step:" + t[:1])
			}
		}
		c.Cmp("lazy-machine", fmt.Sprintf("c18g lrun %s %s %s %s 3", enc(progs[0]), enc(progs[1]), enc(progs[2]), sched),
			c18genLInterp(progs, strings.Trim(sched, "x"), 3))
	}
	// all interleavings of two goroutines with n0 and n1 steps
	var interleavings func(n0, n1 int, pre string, out *[]string)
	interleavings = func(n0, n1 int, pre string, out *[]string) {
		if n0 == 0 && n1 == 0 {
			*out = append(*out, pre)
			return
		}
		if n0 > 0 {
			interleavings(n0-1, n1, pre+"0", out)
		}
		if n1 > 0 {
			interleavings(n0, n1-1, pre+"1", out)
		}
	}
	// (a) once, then use: r0 := cell 2, r1 := cell 3, own cell := r0+r1
	safe := [3][]string{{"o0", "r0.2", "r1.3", "w5.0.0"}, {"o0", "r0.2", "r1.3", "w6.1.0"}, nil}
	var scheds []string
	interleavings(4, 4, "", &scheds)
	alone := c18genLInterp([3][]string{safe[0], nil, nil}, "0000", 2)
	distinct := map[string]bool{}
	for _, s := range scheds {
		got := c18genLInterp(safe, s, 2)
		distinct[got] = true
		c.Cmp("lazy-machine", fmt.Sprintf("c18g lrun %s %s - %s 2", enc(safe[0]), enc(safe[1]), s), got)
		c.Oracle("lazy-machine", strings.HasPrefix(got, strings.SplitN(alone, "|", 2)[0]+"|"), "once-pattern-depends-on-schedule", s, got+" vs alone "+alone)
	}
	c.Oracle("lazy-machine", len(distinct) == 1, "once-pattern-depends-on-schedule", "70 interleavings", fmt.Sprint(len(distinct), " distinct final states"))
	c.NoteN("lazy:once-pattern-interleavings", len(scheds))
	// (b) unsynchronised: r0 := flag(5); if r0 = 0 { G[5] := 1; G[6] := 5 }; r1 := G[6]   (locations 5 and 6 are plain)
	unsync := [3][]string{{"r0.5", "g0.5.2.1", "g0.6.2.5", "r1.6"}, {"r0.5", "g0.5.2.1", "g0.6.2.5", "r1.6"}, nil}
	bad := 0
	for _, s := range scheds {
		got := c18genLInterp(unsync, s, 2)
		c.Cmp("lazy-machine", fmt.Sprintf("c18g lrun %s %s - %s 2", enc(unsync[0]), enc(unsync[1]), s), got)
		parts := strings.Split(got, "|")
		if parts[0] != "0,5" || parts[1] != "0,5" { // alone, each goroutine ends with r0 = 0 (did the init) and r1 = 5
			bad++
		}
	}
	c.NoteN("lazy:unsynchronised-pattern-interleavings-with-a-wrong-or-skipped-read", bad)
	// the model must be able to exhibit the failure the static obligations exist to exclude
	c.Oracle("lazy-machine", bad > 0, "unsynchronised-pattern-never-fails-in-the-model", "70 interleavings", "the machine cannot exhibit the torn first use")
}
