package main

// Turns the mismatches collected by cqrGoDecode / c05DMDecode (long-lived matrix-level decoder vs fresh decoder on the
// same matrix, see cqr_common.go) into oracle verdicts of the properties whose suites decode matrices.

func init() {
	for _, p := range []string{"C01", "C05", "C06", "C07"} {
		prop := p
		prev := suites[prop]
		if prev == nil {
			continue
		}
		suites[prop] = func(c *Ctx) {
			prev(c)
			cqrDrainReuse(c, "decoder-reuse")
		}
	}
}
