package main

// C06, work package detrest, part 2: the later stages of the Aztec detector (aztec/detector/detector.go):
// getColor, isWhiteOrBlackRectangle, getBullsEyeCorners, expandSquare, sampleLine, extractParameters,
// getMatrixCornerPoints, getDimension and Detect up to the SampleGrid call, against the Lean model
// Gzx.Det.AZ (Model/DetAztec2.lean, driver `c06rest az*`), with the C06 oracle on every call.

import (
	"fmt"
	"strings"
	"time"

	"github.com/makiuchi-d/gozxing"
	azdetector "github.com/makiuchi-d/gozxing/aztec/detector"
)

func init() {
	prev := suites["C06"]
	suites["C06"] = func(c *Ctx) {
		if prev != nil {
			prev(c)
		}
		detrestAZSuite(c)
	}
	prevDev := suites["detrest"]
	suites["detrest"] = func(c *Ctx) {
		if prevDev != nil {
			prevDev(c)
		}
		detrestAZSuite(c)
	}
}

func detrestQuad(ps []gozxing.ResultPoint) string {
	ss := make([]string, len(ps))
	for i, p := range ps {
		ss[i] = c06detRP(p)
	}
	return strings.Join(ss, ";")
}

func detrestB(b bool) string {
	if b {
		return "1"
	}
	return "0"
}

// reference Aztec symbols (complete: bull's eye, orientation marks, mode message, data) from the C11 reference encoder
func detrestAztecSymbols(c *Ctx, r *Rng, n int) []*gozxing.BitMatrix {
	var out []*gozxing.BitMatrix
	for i := 0; i < n; i++ {
		compact := r.Bool()
		layers := r.Range(1, 4)
		if !compact {
			layers = r.Pick([]int{1, 2, 3, 4, 5, 6, 8, 11})
		}
		text := c06Text(r)
		if len(text) > 12 {
			text = text[:12]
		}
		sym, _ := c11Ref(c, compact, layers, "t:"+hexs([]byte(text)))
		if sym == nil {
			continue
		}
		out = append(out, c11BitMatrix(c11Grid(sym.rows)))
	}
	return out
}

func detrestAZGen(r *Rng, syms []*gozxing.BitMatrix, maxDim int) c06detImg {
	switch r.Intn(10) {
	case 0, 1, 2, 3, 4:
		if len(syms) == 0 {
			break
		}
		s := syms[r.Intn(len(syms))]
		k := r.Pick([]int{1, 2, 2, 3, 3, 4})
		for s.GetWidth()*k > maxDim && k > 1 {
			k--
		}
		q := r.Intn(4)
		mirror := r.Chance(0.2)
		pl, pt, pr, pb := r.Pick([]int{0, 1, 4, 10}), r.Pick([]int{0, 1, 4, 10}), r.Pick([]int{0, 1, 4, 10}), r.Pick([]int{0, 1, 4, 10})
		class := "aztec"
		if r.Chance(0.15) {
			pl, pt = -r.Range(0, s.GetWidth()*k/2), -r.Range(0, s.GetHeight()*k/2)
			class = "aztec-cropped"
		}
		w, h := s.GetWidth()*k+pl+pr, s.GetHeight()*k+pt+pb
		if w < 1 {
			w = 1
		}
		if h < 1 {
			h = 1
		}
		m := c06detNew(w, h)
		c06detPaste(m, s, k, pl, pt, q, mirror)
		if mirror {
			class += "-mirrored"
		}
		if r.Chance(0.3) {
			c06detNoise(r, m, r.Pick([]int{1, 5, 30, 200}))
			class += "-noise"
		}
		return c06detImg{w, h, m, class}
	case 5, 6:
		w, h := r.Range(12, 90), r.Range(12, 90)
		m := c06detNew(w, h)
		c06detBullsEye(m, w/2+r.Range(-2, 2), h/2+r.Range(-2, 2), r.Range(1, 4), r.Pick([]int{3, 4, 5, 6, 7, 8, 9}))
		if r.Chance(0.3) {
			c06detNoise(r, m, r.Pick([]int{1, 5, 30}))
		}
		return c06detImg{w, h, m, "bullseye-centred"}
	}
	return c06detGen(r, maxDim)
}

func detrestAZSuite(c *Ctx) {
	c.res.Rule += " || Aztec detector later stages (c06rest az*): getColor / isWhiteOrBlackRectangle / getBullsEyeCorners / expandSquare / sampleLine / extractParameters / getMatrixCornerPoints / getDimension / Detect up to SampleGrid " +
		"on reference Aztec symbols (compact 1-4, full 1-11 layers; scaled, rotated, mirrored, cropped, noisy), bull's eyes of 3..9 rings and arbitrary images; points inside and outside the image, degenerate segments and quads " +
		"compared with the Lean model Gzx.Det.AZ (floats bit-level within 1e-6), oracle: no panic, result xor NotFound"
	r := c.Rng.Fork()
	syms := detrestAztecSymbols(c, r, c.Pick(40, 400))
	c.NoteN("c06rest az reference-symbols", len(syms))
	for compact := 0; compact < 2; compact++ {
		for l := 0; l <= 33; l++ {
			c.Cmp("c06rest-az", fmt.Sprintf("c06rest azdim %d %d", compact, l), fmt.Sprintf("ok %d", azdetector.VerifGetDimension(compact == 1, l)))
		}
	}
	n := c.Pick(550, 20000)
	for i := 0; i < n && c.TimeLeft(); i++ {
		img := detrestAZGen(r, syms, c.Pick(110, 300))
		bits := c06detBits(img.bm)
		w, h := img.w, img.h
		pre := fmt.Sprintf("%d %d %s", w, h, bits)
		d := azdetector.NewDetector(img.bm)
		rpt := func() (int, int) { return r.Range(-4, w+3), r.Range(-4, h+3) }
		// getColor: arbitrary segments, degenerate (p1 == p2), along the borders
		for k := 0; k < 3; k++ {
			x1, y1 := rpt()
			x2, y2 := rpt()
			switch r.Intn(6) {
			case 0:
				x2, y2 = x1, y1
			case 1:
				y2 = y1
			case 2:
				x2 = x1
			}
			o := SafeT(5*time.Second, func() string { return fmt.Sprintf("ok %d", d.VerifGetColor(x1, y1, x2, y2)) })
			c.Cmp("c06rest-az", fmt.Sprintf("c06rest azcolor %s %d %d %d %d", pre, x1, y1, x2, y2), o)
			c06detOracle(c, "az.getColor", img, fmt.Sprint(x1, y1, x2, y2), o)
			c.Note("c06rest az.getColor " + o)
		}
		{ // getColor on the thresholds: a segment of length 10/20/30 with exactly (or one off) 10 % / 90 % cells of the other colour
			ln := r.Pick([]int{10, 20, 30})
			tw, ty := ln+r.Range(1, 4), r.Range(0, 2)
			tm := c06detNew(tw, 3)
			model := r.Bool()
			miss := r.Pick([]int{ln / 10, 9 * ln / 10}) + r.Pick([]int{0, 0, 1, -1})
			for x := 0; x < ln; x++ { // cell 0 is the colour model; the first `miss` cells after it differ
				if (x >= 1 && x <= miss) != model {
					tm.Set(x, ty)
				}
			}
			timg := c06detImg{tw, 3, tm, "threshold-segment"}
			td := azdetector.NewDetector(tm)
			o := SafeT(5*time.Second, func() string { return fmt.Sprintf("ok %d", td.VerifGetColor(0, ty, ln, ty)) })
			c.Cmp("c06rest-az", fmt.Sprintf("c06rest azcolor %d 3 %s 0 %d %d %d", tw, c06detBits(tm), ty, ln, ty), o)
			c06detOracle(c, "az.getColor", timg, fmt.Sprint(0, ty, ln, ty), o)
			c.Note("c06rest az.getColor threshold " + o)
		}
		{
			var p [8]int
			for k := 0; k < 4; k++ {
				p[2*k], p[2*k+1] = rpt()
			}
			if r.Bool() { // a proper rectangle a,b,c,d as the caller passes it (a top-right, b bottom-right, c bottom-left, d top-left)
				x0, y0 := r.Range(0, w-1), r.Range(0, h-1)
				x1, y1 := r.Range(x0, w-1), r.Range(y0, h-1)
				p = [8]int{x1, y0, x1, y1, x0, y1, x0, y0}
			}
			o := SafeT(5*time.Second, func() string { return fmt.Sprintf("ok %v", d.VerifIsWhiteOrBlackRectangle(p)) })
			c.Cmp("c06rest-az", fmt.Sprintf("c06rest azrect %s %s", pre, ints(p[:])), o)
			c06detOracle(c, "az.isWhiteOrBlackRectangle", img, fmt.Sprint(p), o)
			c.Note("c06rest az.isWhiteOrBlackRectangle " + o)
		}
		// getBullsEyeCorners from the detector's own centre and from arbitrary centres (also outside the image)
		cx0, cy0 := 0, 0
		Safe(func() string { cx0, cy0 = d.VerifGetMatrixCenter(); return "" })
		centres := [][2]int{{cx0, cy0}, {w / 2, h / 2}}
		cx, cy := rpt()
		centres = append(centres, [2]int{cx, cy})
		for ci, ce := range centres {
			ce := ce
			var pts []gozxing.ResultPoint
			nb, compact := 0, false
			o := SafeT(5*time.Second, func() string {
				var e error
				pts, nb, compact, e = d.VerifGetBullsEyeCorners(ce[0], ce[1])
				if e != nil {
					if pts != nil {
						return "BOTH"
					}
					return c06detErr(e)
				}
				if len(pts) != 4 {
					return fmt.Sprintf("NPTS%d", len(pts))
				}
				return fmt.Sprintf("ok nb=%d compact=%v %s", nb, compact, detrestQuad(pts))
			})
			c.CmpF("c06rest-az", fmt.Sprintf("c06rest azbulls %s %d %d", pre, ce[0], ce[1]), o, c06detCmpTok)
			c06detOracle(c, "az.getBullsEyeCorners", img, fmt.Sprint(ce), o)
			if ci == 0 {
				c.Note("c06rest az.getBullsEyeCorners " + img.class + " " + c06detHead(o))
			}
			if !strings.HasPrefix(o, "ok") || len(pts) != 4 {
				continue
			}
			if ci == 0 && r.Chance(0.3) { // as Detect(isMirror=true) does
				pts[0], pts[2] = pts[2], pts[0]
			}
			quad := detrestQuad(pts)
			// the four sides as extractParameters samples them
			for k := 0; k < 4; k++ {
				p1, p2 := pts[k], pts[(k+1)%4]
				ol := SafeT(5*time.Second, func() string { return fmt.Sprintf("ok %d", d.VerifSampleLine(p1, p2, 2*nb)) })
				c.Cmp("c06rest-az", fmt.Sprintf("c06rest azline %s %s %s %d", pre, c06detRP(p1), c06detRP(p2), 2*nb), ol)
				c06detOracle(c, "az.sampleLine", img, fmt.Sprint(p1, p2, 2*nb), ol)
			}
			shift, layers, blocks := 0, 0, 0
			op := SafeT(5*time.Second, func() string {
				var e error
				shift, layers, blocks, e = d.VerifExtractParameters(pts, nb, compact)
				if e != nil {
					return c06detErr(e)
				}
				return fmt.Sprintf("ok shift=%d layers=%d blocks=%d", shift, layers, blocks)
			})
			c.Cmp("c06rest-az", fmt.Sprintf("c06rest azparams %s %s %d %s", pre, quad, nb, detrestB(compact)), op)
			c06detOracle(c, "az.extractParameters", img, quad, op)
			c.Note("c06rest az.extractParameters " + img.class + " " + c06detHead(op))
			if strings.HasPrefix(op, "ok") {
				oc := SafeT(5*time.Second, func() string {
					return "ok " + detrestQuad(d.VerifGetMatrixCornerPoints(pts, nb, compact, layers))
				})
				c.CmpF("c06rest-az", fmt.Sprintf("c06rest azcorners %s %d %s %d", quad, nb, detrestB(compact), layers), oc, c06detCmpTok)
			}
		}
		// extractParameters / sampleLine / expandSquare on arbitrary quads: corners outside the image (NotFound), degenerate
		// quads (all points equal: distance 0, NaN steps), every nbCenterLayers 1..8 with either compact flag
		{
			pts := make([]gozxing.ResultPoint, 4)
			fx := func() float64 { return float64(r.Range(-8, 4*w+8))/4 + []float64{0, 0.5, 0.25}[r.Intn(3)] }
			fy := func() float64 { return float64(r.Range(-8, 4*h+8))/4 + []float64{0, 0.5, 0.25}[r.Intn(3)] }
			for k := range pts {
				pts[k] = gozxing.NewResultPoint(fx(), fy())
			}
			switch r.Intn(5) {
			case 0:
				pts[1], pts[2], pts[3] = pts[0], pts[0], pts[0]
			case 1:
				pts[2] = pts[0]
			}
			quad := detrestQuad(pts)
			nb, compact := r.Range(1, 8), r.Bool()
			if r.Bool() {
				nb = r.Pick([]int{5, 7})
			}
			op := SafeT(5*time.Second, func() string {
				shift, layers, blocks, e := d.VerifExtractParameters(pts, nb, compact)
				if e != nil {
					return c06detErr(e)
				}
				return fmt.Sprintf("ok shift=%d layers=%d blocks=%d", shift, layers, blocks)
			})
			c.Cmp("c06rest-az", fmt.Sprintf("c06rest azparams %s %s %d %s", pre, quad, nb, detrestB(compact)), op)
			c06detOracle(c, "az.extractParameters", img, quad, op)
			c.Note("c06rest az.extractParameters any-quad " + c06detHead(op))
			size := r.Pick([]int{0, 1, 2, 3, 10, 14, 16, 30, -1})
			ol := SafeT(5*time.Second, func() string { return fmt.Sprintf("ok %d", d.VerifSampleLine(pts[0], pts[1], size)) })
			c.Cmp("c06rest-az", fmt.Sprintf("c06rest azline %s %s %s %d", pre, c06detRP(pts[0]), c06detRP(pts[1]), size), ol)
			c06detOracle(c, "az.sampleLine", img, fmt.Sprint(pts[0], pts[1], size), ol)
			oldSide, newSide := r.Pick([]int{7, 11, 10, 14, 1, 0, -3}), r.Range(0, 160)
			oe := SafeT(5*time.Second, func() string { return "ok " + detrestQuad(azdetector.VerifExpandSquare(pts, oldSide, newSide)) })
			c.CmpF("c06rest-az", fmt.Sprintf("c06rest azexpand %s %d %d", quad, oldSide, newSide), oe, c06detCmpTok)
		}
		// the whole Detect, both mirror settings: compared up to the SampleGrid call
		for mirror := 0; mirror < 2; mirror++ {
			dd := azdetector.NewDetector(img.bm)
			full := SafeT(5*time.Second, func() string {
				res, e := dd.Detect(mirror == 1)
				if e != nil {
					if res != nil {
						return "BOTH"
					}
					return c06detErr(e)
				}
				if res.GetBits() == nil || len(res.GetPoints()) != 4 {
					return "MALFORMED"
				}
				compact, layers, blocks, _, shift := dd.VerifState()
				if compact != res.IsCompact() || layers != res.GetNbLayers() || blocks != res.GetNbDatablocks() {
					return "STATE-MISMATCH"
				}
				dim := azdetector.VerifGetDimension(compact, layers)
				if res.GetBits().GetWidth() != dim || res.GetBits().GetHeight() != dim {
					return "DIM-MISMATCH"
				}
				return fmt.Sprintf("ok compact=%v layers=%d blocks=%d shift=%d dim=%d c=%s", compact, layers, blocks, shift, dim, detrestQuad(res.GetPoints()))
			})
			c.CmpF("c06rest-az", fmt.Sprintf("c06rest azdetect %s %d", pre, mirror), full, c06detCmpUpToSampling)
			c06detOracle(c, "az.Detect", img, fmt.Sprint("mirror=", mirror), full)
			c.Note(fmt.Sprintf("c06rest az.Detect mirror=%d %s %s", mirror, img.class, c06detHead(full)))
		}
	}
}
