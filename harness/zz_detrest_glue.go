package main

// C06, work package detrest, part 4: the readers' glue — hint handling.
// Every image-level reader is called with hint maps in which ONE hint key carries a value of a dynamic type the
// library does not expect (bool, int, string, nil, float, slice of another element type, a struct, a typed-nil
// callback) next to otherwise well-typed hints.  The property text says "any hints": a reader may ignore such a
// value, it must not panic.  Oracle only (c06Judge): returns in time, no panic, result xor error, documented kind.
// The result-point callback is also passed well-typed.

import (
	"fmt"
	"image"
	"time"

	"github.com/makiuchi-d/gozxing"
	"github.com/makiuchi-d/gozxing/aztec"
	azdecoder "github.com/makiuchi-d/gozxing/aztec/decoder"
	azdetector "github.com/makiuchi-d/gozxing/aztec/detector"
	"github.com/makiuchi-d/gozxing/oned"
)

func init() {
	prev := suites["C06"]
	suites["C06"] = func(c *Ctx) {
		if prev != nil {
			prev(c)
		}
		detrestGlueSuite(c)
	}
	prevDev := suites["detrest"]
	suites["detrest"] = func(c *Ctx) {
		if prevDev != nil {
			prevDev(c)
		}
		detrestGlueSuite(c)
	}
}

type detrestHintVal struct {
	name string
	v    interface{}
}

var detrestHintKeys = []struct {
	name string
	k    gozxing.DecodeHintType
}{
	{"OTHER", gozxing.DecodeHintType_OTHER}, {"PURE_BARCODE", gozxing.DecodeHintType_PURE_BARCODE},
	{"POSSIBLE_FORMATS", gozxing.DecodeHintType_POSSIBLE_FORMATS}, {"TRY_HARDER", gozxing.DecodeHintType_TRY_HARDER},
	{"CHARACTER_SET", gozxing.DecodeHintType_CHARACTER_SET}, {"ALLOWED_LENGTHS", gozxing.DecodeHintType_ALLOWED_LENGTHS},
	{"ASSUME_CODE_39_CHECK_DIGIT", gozxing.DecodeHintType_ASSUME_CODE_39_CHECK_DIGIT}, {"ASSUME_GS1", gozxing.DecodeHintType_ASSUME_GS1},
	{"RETURN_CODABAR_START_END", gozxing.DecodeHintType_RETURN_CODABAR_START_END},
	{"NEED_RESULT_POINT_CALLBACK", gozxing.DecodeHintType_NEED_RESULT_POINT_CALLBACK},
	{"ALLOWED_EAN_EXTENSIONS", gozxing.DecodeHintType_ALLOWED_EAN_EXTENSIONS}, {"ALSO_INVERTED", gozxing.DecodeHintType_ALSO_INVERTED},
}

func detrestHintVals() []detrestHintVal {
	return []detrestHintVal{
		{"bool", true}, {"int", 7}, {"string", "x"}, {"nil", nil}, {"float", 2.5}, {"strings", []string{"a"}},
		{"ints", []int{2, 5}}, {"bytes", []byte{1}}, {"struct", struct{ A int }{1}}, {"int64", int64(3)},
		{"func", func() {}}, {"nil-callback", gozxing.ResultPointCallback(nil)}, {"formats", []gozxing.BarcodeFormat{gozxing.BarcodeFormat_EAN_13}},
		{"empty-formats", []gozxing.BarcodeFormat{}}, {"empty-ints", []int{}},
	}
}

func detrestGlueSuite(c *Ctx) {
	c.res.Rule += " || readers' glue (c06rest glue): all fifteen image-level readers on rendered symbols of their own symbology and on arbitrary images, with hint maps in which one key carries a value of an unexpected dynamic type " +
		"(bool, int, string, nil, float, foreign slices, struct, func, typed-nil callback) or a real result-point callback (must not change the verdict); oracle: no panic, result xor error of a documented kind"
	{
		r := c.Rng.Fork()
		detrestGlueBitmapFailures(c)
		detrestGlueCallback(c, r)
		detrestGlueAztec(c, r)
	}
	n := c.Pick(700, 30000)
	vals := detrestHintVals()
	c.Parallel(n, 16, func(i int, r *Rng) {
		g, class, natural := c06GenImage(r)
		rd := r.Intn(len(c06Readers))
		if natural >= 0 && r.Chance(0.75) {
			rd = natural
		}
		reader := c06Readers[rd]
		hints, hd := c06ImageHints(r)
		if hints == nil {
			hints = map[gozxing.DecodeHintType]interface{}{}
		}
		key := detrestHintKeys[(i/len(vals))%len(detrestHintKeys)]
		val := vals[i%len(vals)]
		if r.Chance(0.4) { // the hints the readers look INTO, more often
			key = detrestHintKeys[r.Pick([]int{2, 4, 5, 9, 9, 9, 10})]
		}
		feat := key.name + "=" + val.name
		calls, outside := 0, 0
		if r.Chance(0.15) {
			w, h := g.Rect.Dx(), g.Rect.Dy()
			hints[gozxing.DecodeHintType_NEED_RESULT_POINT_CALLBACK] = gozxing.ResultPointCallback(func(p gozxing.ResultPoint) {
				calls++
				if p == nil || p.GetX() < -1 || p.GetY() < -1 || p.GetX() > float64(w) || p.GetY() > float64(h) {
					outside++
				}
			})
			feat = "callback"
		} else {
			hints[key.k] = val.v
		}
		bmp, bin := detrestGlueBitmap(r, g)
		v := c06Judge(c, c06Case{Entry: reader.Name, Class: "hint-typing/" + class, Feat: feat, Image: true,
			Desc: fmt.Sprintf("%s hint-typing %s [%s] %s %dx%d#%x %s", reader.Name, feat, hd, class, g.Rect.Dx(), g.Rect.Dy(), c06Fnv(g.Pix), bin),
			Full: func() string { return c06ImgPNG(g) }},
			func() (bool, error) { return reader.Call(bmp, hints) })
		c.Note("c06rest glue " + feat + " " + v.Out)
		if feat == "callback" && calls > 0 {
			c.Note("c06rest glue callback called " + reader.Name)
			_ = outside // points may legitimately lie outside (rotated retry): counted, not judged
		}
	})
}

// a binarizer whose GetBlackMatrix / GetBlackRow fail the way the library's binarizers do (NotFoundException)
type detrestFailBin struct{ w, h int }

func (b detrestFailBin) GetLuminanceSource() gozxing.LuminanceSource { return nil }
func (b detrestFailBin) GetBlackRow(y int, row *gozxing.BitArray) (*gozxing.BitArray, error) {
	return nil, gozxing.NewNotFoundException("no black point")
}
func (b detrestFailBin) GetBlackMatrix() (*gozxing.BitMatrix, error) {
	return nil, gozxing.NewNotFoundException("no black point")
}
func (b detrestFailBin) CreateBinarizer(source gozxing.LuminanceSource) gozxing.Binarizer { return b }
func (b detrestFailBin) GetWidth() int                                                    { return b.w }
func (b detrestFailBin) GetHeight() int                                                   { return b.h }

// NewBinaryBitmap(nil) is refused with an error; a bitmap whose binarizer cannot produce a matrix / row makes every
// reader answer an error of a documented kind (QR hands the error through, Data Matrix / Aztec wrap it)
func detrestGlueBitmapFailures(c *Ctx) {
	out := Safe(func() string {
		bb, e := gozxing.NewBinaryBitmap(nil)
		if bb != nil || e == nil {
			return "ACCEPTED"
		}
		return "ok refused"
	})
	c.Oracle("c06rest-glue", out == "ok refused", "c06rest:NewBinaryBitmap(nil):"+out, "NewBinaryBitmap(nil)", "gave "+out)
	for _, rd := range c06Readers {
		rd := rd
		for _, pure := range []bool{false, true} {
			hints := map[gozxing.DecodeHintType]interface{}{}
			if pure {
				hints[gozxing.DecodeHintType_PURE_BARCODE] = true
			}
			bmp, _ := gozxing.NewBinaryBitmap(detrestFailBin{40, 30})
			v := c06Judge(c, c06Case{Entry: rd.Name, Class: "binarizer-fails", Feat: fmt.Sprint("pure=", pure), Image: true,
				Desc: fmt.Sprintf("%s binarizer-fails pure=%v", rd.Name, pure)},
				func() (bool, error) { return rd.Call(bmp, hints) })
			c.Note("c06rest glue binarizer-fails " + rd.Name + " " + v.Out)
		}
	}
}

// the UPC/EAN hint prologue against Gzx.Glue.upceanCallback: is the callback invoked?
func detrestGlueCallback(c *Ctx, r *Rng) {
	mods := c06Modules(gozxing.BarcodeFormat_EAN_13, "5901234123457")
	if mods == nil {
		return
	}
	k := 2
	m := c06detNew(len(mods)*k+40, 30)
	for x, b := range mods {
		if b {
			c06detRect(m, 20+x*k, 0, 20+x*k+k-1, 29, true)
		}
	}
	readers := map[string]func() gozxing.Reader{"ean13": oned.NewEAN13Reader, "upca": oned.NewUPCAReader,
		"multi": func() gozxing.Reader { return oned.NewMultiFormatUPCEANReader(nil) }}
	for name, mk := range readers {
		kinds := []detrestHintVal{{"absent", nil}, {"callback", nil}, {"nilcallback", gozxing.ResultPointCallback(nil)}}
		kinds = append(kinds, detrestHintVals()[:11]...)
		for _, kd := range kinds {
			called := false
			hints := map[gozxing.DecodeHintType]interface{}{}
			switch kd.name {
			case "absent":
			case "callback":
				hints[gozxing.DecodeHintType_NEED_RESULT_POINT_CALLBACK] = gozxing.ResultPointCallback(func(gozxing.ResultPoint) { called = true })
			default:
				hints[gozxing.DecodeHintType_NEED_RESULT_POINT_CALLBACK] = kd.v
			}
			out := SafeT(5*time.Second, func() string {
				mk().Decode(detrestBitmap(m), hints)
				return fmt.Sprintf("ok called=%v", called)
			})
			c.Cmp("c06rest-glue", "c06rest gluecb "+kd.name, out)
			c.Oracle("c06rest-glue", out != "PANIC" && out != "TIMEOUT", "c06rest:upcean-callback-hint:"+out,
				name+" NEED_RESULT_POINT_CALLBACK="+kd.name, "UPC/EAN reader with this hint gave "+out)
			c.Note("c06rest glue upcean-callback " + kd.name + " " + out)
		}
	}
}

// AztecReader.Decode against Gzx.Glue.aztecRead: the four sub-results are observed on the real detector / decoder
func detrestGlueAztec(c *Ctx, r *Rng) {
	syms := detrestAztecSymbols(c, r, c.Pick(12, 100))
	n := c.Pick(200, 8000)
	for i := 0; i < n && c.TimeLeft(); i++ {
		img := detrestAZGen(r, syms, c.Pick(110, 300))
		if r.Chance(0.35) { // heavy damage away from the centre: located, parameters read, data undecodable
			for j, nn := 0, img.w*img.h/6; j < nn; j++ {
				x, y := r.Intn(img.w), r.Intn(img.h)
				dx, dy := x-img.w/2, y-img.h/2
				if dx*dx+dy*dy > (img.w*img.w+img.h*img.h)/40 {
					c06detSet(img.bm, x, y, r.Bool())
				}
			}
			img.class += "-outer-damage"
		}
		step := func(mirror bool) (string, string) {
			d, c0 := "0", "0"
			Safe(func() string {
				res, e := azdetector.NewDetector(img.bm).Detect(mirror)
				if e == nil && res != nil {
					d = "1"
					if dr, e2 := azdecoder.NewDecoder().Decode(res); e2 == nil && dr != nil {
						c0 = "1"
					}
				}
				return ""
			})
			return d, c0
		}
		d0, c0 := step(false)
		d1, c1 := step(true)
		out := SafeT(10*time.Second, func() string {
			res, e := aztec.NewAztecReader().Decode(detrestBitmap(img.bm), nil)
			if e != nil {
				if res != nil {
					return "BOTH"
				}
				return "ERR:" + errKind(e)
			}
			if res == nil {
				return "NILNIL"
			}
			return "ok"
		})
		c.CmpF("c06rest-glue", fmt.Sprintf("c06rest glueaz %s %s %s %s", d0, c0, d1, c1), out, func(g, m string) (bool, bool) {
			return g == c06detHead(m), false
		})
		c.Oracle("c06rest-glue", out == "ok" || out == "ERR:notfound" || out == "ERR:format", "c06rest:aztec-reader:"+out,
			fmt.Sprintf("aztec.Decode %dx%d bits=%s", img.w, img.h, c06detBits(img.bm)), "AztecReader.Decode gave "+out)
		c.Note(fmt.Sprintf("c06rest glue aztec d0=%s c0=%s d1=%s c1=%s %s", d0, c0, d1, c1, out))
	}
}

func detrestGlueBitmap(r *Rng, g *image.Gray) (*gozxing.BinaryBitmap, string) { return c06Bitmap(r, g) }
