package main

// C06, work package detrest, part 3: the multi QR reader.
//  * multi/qrcode/detector: MultiFinderPatternFinder.FindMulti (scan, selectMultipleBestPatterns) and
//    MultiDetector.DetectMulti against the Lean model Gzx.Det.Multi (driver `c06rest m*`).  Go's sort.Slice is
//    not stable above 12 elements, so the size-sorted centre list is OBSERVED on the Go side (it must be a
//    descending permutation of the scanned centres — the premise of the theorems) and handed to the model;
//    up to 12 centres the model's own insertion sort is compared as well.
//  * multi/qrcode: processStructuredAppend on arbitrary result lists / metadata against Gzx.MultiSA (`c06rest sa`).

import (
	"fmt"
	"math"
	"sort"
	"strings"
	"time"

	"github.com/makiuchi-d/gozxing"
	multiqr "github.com/makiuchi-d/gozxing/multi/qrcode"
	multidet "github.com/makiuchi-d/gozxing/multi/qrcode/detector"
	qrdecoder "github.com/makiuchi-d/gozxing/qrcode/decoder"
	qrdetector "github.com/makiuchi-d/gozxing/qrcode/detector"
)

func init() {
	prev := suites["C06"]
	suites["C06"] = func(c *Ctx) {
		if prev != nil {
			prev(c)
		}
		detrestMultiSuite(c)
	}
	prevDev := suites["detrest"]
	suites["detrest"] = func(c *Ctx) {
		if prevDev != nil {
			prevDev(c)
		}
		detrestMultiSuite(c)
	}
}

// ---------- processStructuredAppend ----------

type detrestMeta struct {
	key int
	tok string // model token
	val interface{}
}

func detrestSegTok(segs [][]byte) string {
	ss := make([]string, len(segs))
	for i, s := range segs {
		ss[i] = hexs(s)
	}
	return "s" + strings.Join(ss, "/")
}

func detrestRandBytes(r *Rng, max int) []byte {
	n := r.Pick([]int{0, 0, 1, 2, 3, r.Range(0, max)})
	if n == 0 && r.Bool() {
		return nil
	}
	b := make([]byte, n)
	for i := range b {
		b[i] = byte(r.Intn(256))
	}
	return b
}

// one metadata binding: mostly the type the library stores, sometimes another dynamic type under the same key
func detrestGenMeta(r *Rng, key int, seqPool []int, i int) detrestMeta {
	switch gozxing.ResultMetadataType(key) {
	case gozxing.ResultMetadataType_STRUCTURED_APPEND_SEQUENCE:
		switch r.Intn(8) {
		case 0:
			return detrestMeta{key, "ostring", "3"}
		case 1:
			return detrestMeta{key, "oint64", int64(3)}
		case 2:
			return detrestMeta{key, "onil", nil}
		}
		return detrestMeta{key, fmt.Sprintf("i%d", seqPool[i]), seqPool[i]}
	case gozxing.ResultMetadataType_BYTE_SEGMENTS:
		switch r.Intn(8) {
		case 0:
			return detrestMeta{key, "obytes", []byte{1, 2}}
		case 1:
			return detrestMeta{key, "ostring", "ab"}
		case 2:
			return detrestMeta{key, "s", [][]byte{}}
		}
		segs := make([][]byte, r.Range(1, 3))
		for k := range segs {
			segs[k] = detrestRandBytes(r, 12)
		}
		return detrestMeta{key, detrestSegTok(segs), segs}
	case gozxing.ResultMetadataType_STRUCTURED_APPEND_PARITY:
		return detrestMeta{key, fmt.Sprintf("i%d", i), i}
	}
	return detrestMeta{key, "ostring", "L"}
}

func detrestSAResultStr(res *gozxing.Result) string {
	md := res.GetResultMetadata()
	keys := make([]int, 0, len(md))
	for k := range md {
		keys = append(keys, int(k))
	}
	sort.Ints(keys)
	ms := make([]string, len(keys))
	for i, k := range keys {
		var tok string
		switch v := md[gozxing.ResultMetadataType(k)].(type) {
		case int:
			tok = fmt.Sprintf("i%d", v)
		case [][]byte:
			tok = detrestSegTok(v)
		case string:
			tok = "ostring"
		case int64:
			tok = "oint64"
		case []byte:
			tok = "obytes"
		case nil:
			tok = "onil"
		default:
			tok = "oother"
		}
		ms[i] = fmt.Sprintf("%d:%s", k, tok)
	}
	m := "-"
	if len(ms) > 0 {
		m = strings.Join(ms, ",")
	}
	return fmt.Sprintf("%s;%s;%d;%s", hexs([]byte(res.GetText())), hexs(res.GetRawBytes()), len(res.GetResultPoints()), m)
}

func detrestSASuite(c *Ctx) {
	r := c.Rng.Fork()
	n := c.Pick(1200, 40000)
	keysAll := []int{int(gozxing.ResultMetadataType_OTHER), int(gozxing.ResultMetadataType_BYTE_SEGMENTS), int(gozxing.ResultMetadataType_ERROR_CORRECTION_LEVEL),
		int(gozxing.ResultMetadataType_STRUCTURED_APPEND_SEQUENCE), int(gozxing.ResultMetadataType_STRUCTURED_APPEND_PARITY),
		int(gozxing.ResultMetadataType_SYMBOLOGY_IDENTIFIER)} // ascending: the canonical output sorts the keys
	for it := 0; it < n && c.TimeLeft(); it++ {
		cnt := r.Pick([]int{1, 1, 2, 3, 4, 5, 8, 11, 12, 13, 16, 25})
		// sequence numbers: a permutation (distinct) — or, for lists that Go sorts by insertion (< 12 SA results), with repeats
		pool := make([]int, cnt)
		for i := range pool {
			pool[i] = i
		}
		for i := cnt - 1; i > 0; i-- {
			j := r.Intn(i + 1)
			pool[i], pool[j] = pool[j], pool[i]
		}
		dup := cnt < 12 && r.Chance(0.4)
		if dup {
			for i := range pool {
				pool[i] = r.Pick([]int{0, 1, 1, 2, 15, -1})
			}
		}
		pSA := []float64{0, 0.3, 0.7, 1}[r.Intn(4)]
		results := make([]*gozxing.Result, cnt)
		in := make([]string, cnt)
		nSA, tie := 0, false
		seen := map[int]bool{}
		for i := range results {
			text := detrestRandBytes(r, 20)
			raw := detrestRandBytes(r, 20)
			pts := make([]gozxing.ResultPoint, r.Intn(5))
			for k := range pts {
				pts[k] = gozxing.NewResultPoint(float64(k), 1)
			}
			res := gozxing.NewResult(string(text), raw, pts, gozxing.BarcodeFormat_QR_CODE)
			var ms []string
			for _, k := range keysAll {
				p := 0.3
				if k == int(gozxing.ResultMetadataType_STRUCTURED_APPEND_SEQUENCE) {
					p = pSA
				}
				if !r.Chance(p) {
					continue
				}
				m := detrestGenMeta(r, k, pool, i)
				if k == int(gozxing.ResultMetadataType_STRUCTURED_APPEND_SEQUENCE) {
					nSA++
					eff := 0 // the number the comparator sees: 0 for a value that is not an int
					if n, ok := m.val.(int); ok {
						eff = n
					}
					if seen[eff] {
						tie = true
					}
					seen[eff] = true
				}
				res.PutMetadata(gozxing.ResultMetadataType(k), m.val)
				ms = append(ms, fmt.Sprintf("%d:%s", k, m.tok))
			}
			results[i] = res
			md := "-"
			if len(ms) > 0 {
				md = strings.Join(ms, ",")
			}
			in[i] = fmt.Sprintf("%s;%s;%d;%s", hexs(text), hexs(raw), len(pts), md)
		}
		if nSA >= 12 && tie { // equal sequence numbers (a wrongly typed value counts as 0) in a list Go sorts with an unstable sort
			continue
		}
		out := SafeT(5*time.Second, func() string {
			got := multiqr.VerifProcessStructuredAppend(results)
			ss := make([]string, len(got))
			for i, g := range got {
				if g == nil {
					return "NIL-RESULT"
				}
				ss[i] = detrestSAResultStr(g)
			}
			if len(ss) == 0 {
				return "ok -"
			}
			return "ok " + strings.Join(ss, "|")
		})
		input := strings.Join(in, "|")
		c.Cmp("c06rest-sa", "c06rest sa "+input, out)
		c.Oracle("c06rest-sa", strings.HasPrefix(out, "ok"), "c06rest:processStructuredAppend:"+c06detHead(out), input, "processStructuredAppend gave "+c06detHead(out))
		c.Note(fmt.Sprintf("c06rest sa results=%d sa=%d dup=%v %s", cnt, nSA, dup, c06detHead(out)))
	}
}

// ---------- multi finder / detector ----------

func detrestFPsBits(ps []*qrdetector.FinderPattern) string { return c06detFPs(ps) }

func detrestTriples(ts [][]*qrdetector.FinderPattern) string {
	ss := make([]string, len(ts))
	for i, t := range ts {
		ss[i] = c06detFPs(t)
	}
	return strings.Join(ss, "|")
}

func detrestInfos(infos []*qrdetector.FinderPatternInfo) string {
	ss := make([]string, len(infos))
	for i, f := range infos {
		ss[i] = c06detFPs([]*qrdetector.FinderPattern{f.GetBottomLeft(), f.GetTopLeft(), f.GetTopRight()})
	}
	return strings.Join(ss, "|")
}

// the same centres in any order
func detrestCmpMultiset(goOut, model string) (bool, bool) {
	if !strings.HasPrefix(goOut, "ok ") || !strings.HasPrefix(model, "ok ") {
		return goOut == model, false
	}
	a, b := strings.Split(goOut[3:], ";"), strings.Split(model[3:], ";")
	sort.Strings(a)
	sort.Strings(b)
	return c06detCmpTok(strings.Join(a, ";"), strings.Join(b, ";"))
}

// Go's dimension list (after sampling) must be a subsequence of the model's (before sampling)
func detrestCmpSubseq(goOut, model string) (bool, bool) {
	if !strings.HasPrefix(goOut, "ok ") || !strings.HasPrefix(model, "ok ") {
		if goOut == "ERR:notfound" && strings.HasPrefix(model, "ok") {
			return true, true
		}
		return goOut == model, false
	}
	var a, b []string
	if goOut[3:] != "-" {
		a = strings.Split(goOut[3:], ",")
	}
	if model[3:] != "-" {
		b = strings.Split(model[3:], ",")
	}
	j := 0
	for _, x := range a {
		for j < len(b) && b[j] != x {
			j++
		}
		if j == len(b) {
			return false, false
		}
		j++
	}
	return true, false
}

func detrestMultiImg(r *Rng, maxDim int) c06detImg {
	switch r.Intn(10) {
	case 0, 1, 2, 3: // two to four QR symbols on one sheet, different scales / turns
		w, h := r.Range(60, maxDim), r.Range(60, maxDim)
		m := c06detNew(w, h)
		for i, n := 0, r.Range(2, 4); i < n; i++ {
			s := c06QRSymbol(r, c06Text(r)[:1])
			if s == nil {
				continue
			}
			k := r.Pick([]int{1, 2, 2, 3})
			c06detPaste(m, s, k, r.Range(-5, w-20), r.Range(-5, h-20), r.Intn(4), r.Chance(0.1))
		}
		if r.Chance(0.2) {
			c06detNoise(r, m, r.Pick([]int{5, 50}))
		}
		return c06detImg{w, h, m, "multi-qr"}
	case 8: // two to four QR symbols side by side (no overlap), some with the data area wrecked (located, not decodable)
		k := r.Pick([]int{2, 3})
		n := r.Range(2, 4)
		var syms []*gozxing.BitMatrix
		wTot, hMax := 6, 0
		for i := 0; i < n; i++ {
			s := c06QRSymbol(r, c06Text(r)[:1])
			if s == nil {
				continue
			}
			if r.Chance(0.5) { // wreck everything but the three finder corners and the timing rows
				d := s.GetWidth()
				for y := 0; y < d; y++ {
					for x := 0; x < d; x++ {
						corner := (x < 9 && y < 9) || (x >= d-9 && y < 9) || (x < 9 && y >= d-9)
						if !corner && r.Chance(0.5) {
							s.Flip(x, y)
						}
					}
				}
			}
			syms = append(syms, s)
			wTot += s.GetWidth()*k + 8
			if s.GetHeight()*k > hMax {
				hMax = s.GetHeight() * k
			}
		}
		if len(syms) == 0 {
			break
		}
		m := c06detNew(wTot, hMax+12)
		x0 := 6
		for _, s := range syms {
			c06detPaste(m, s, k, x0, 6, 0, false)
			x0 += s.GetWidth()*k + 8
		}
		return c06detImg{m.GetWidth(), m.GetHeight(), m, "multi-qr-row"}
	case 4, 5: // a field of finder patterns of one or several module sizes (many centres, ties in the sort)
		w, h := r.Range(30, maxDim), r.Range(30, maxDim)
		m := c06detNew(w, h)
		k := r.Range(1, 3)
		step := r.Range(9, 16) * k
		for (w/step+1)*(h/step+1) > 150 { // selectMultipleBestPatterns is cubic in the number of centres: keep it below ~150
			step += k
		}
		for y := r.Range(0, 4); y+7*k <= h; y += step {
			for x := r.Range(0, 4); x+7*k <= w; x += step {
				kk := k
				if r.Chance(0.15) {
					kk = r.Range(1, 3)
				}
				if r.Chance(0.85) {
					c06detFinder(m, x, y, kk)
				}
			}
		}
		return c06detImg{w, h, m, "finder-field"}
	case 6, 7:
		return c06detGenQR(r, maxDim)
	}
	return c06detGen(r, maxDim)
}

func detrestSortedDesc(ps []*qrdetector.FinderPattern) bool {
	for i := 1; i < len(ps); i++ {
		if ps[i].GetEstimatedModuleSize() > ps[i-1].GetEstimatedModuleSize() {
			return false
		}
	}
	return true
}

func detrestMultiFinder(c *Ctx, r *Rng) {
	n := c.Pick(400, 15000)
	for it := 0; it < n && c.TimeLeft(); it++ {
		img := detrestMultiImg(r, c.Pick(130, 300))
		bits := c06detBits(img.bm)
		pre := fmt.Sprintf("%d %d %s", img.w, img.h, bits)
		tryHarder := r.Chance(0.3)
		hints, th := c06detHints(tryHarder)
		f := multidet.NewMultiFinderPatternFinder(img.bm, nil)
		var centres []*qrdetector.FinderPattern
		find := SafeT(10*time.Second, func() string {
			infos, e := f.FindMulti(hints)
			centres = f.GetPossibleCenters()
			if e != nil {
				if infos != nil {
					return "BOTH"
				}
				return c06detErr(e)
			}
			return "ok " + detrestInfos(infos)
		})
		c06detOracle(c, "multi.FindMulti", img, th, find)
		c.Note("c06rest multi.FindMulti " + img.class + " " + c06detHead(find))
		nc := len(centres)
		switch {
		case nc <= 3:
			c.Note("c06rest multi centres<=3")
		case nc <= 12:
			c.Note("c06rest multi centres 4..12")
		default:
			c.Note("c06rest multi centres>12")
		}
		if find == "PANIC" || find == "TIMEOUT" {
			continue
		}
		cs := "ok " + detrestFPsBits(centres)
		c.CmpF("c06rest-multi", fmt.Sprintf("c06rest mscan %s %s", pre, th), cs, detrestCmpMultiset)
		if nc > 3 && !detrestSortedDesc(centres) {
			c.BrokenPremise("sort.Slice(ModuleSizeComparator) sorts descending", "possibleCenters after FindMulti are not in descending module-size order")
		}
		c.CmpF("c06rest-multi", fmt.Sprintf("c06rest mfindfrom id %s", detrestFPsBits(centres)), find, c06detCmpTok)
		if nc <= 12 {
			c.CmpF("c06rest-multi", fmt.Sprintf("c06rest mfind %s %s", pre, th), find, c06detCmpTok)
		}
		det := SafeT(20*time.Second, func() string {
			rs, e := multidet.NewMultiDetector(img.bm).DetectMulti(hints)
			if e != nil {
				if rs != nil {
					return "BOTH"
				}
				return c06detErr(e)
			}
			ds := make([]string, len(rs))
			for i, x := range rs {
				if x == nil || x.GetBits() == nil || x.GetBits().GetWidth() != x.GetBits().GetHeight() {
					return "MALFORMED"
				}
				ds[i] = fmt.Sprint(x.GetBits().GetWidth())
			}
			if len(ds) == 0 {
				return "ok -"
			}
			return "ok " + strings.Join(ds, ",")
		})
		c06detOracle(c, "multi.DetectMulti", img, th, det)
		c.Note("c06rest multi.DetectMulti " + img.class + " " + c06detHead(det))
		if it%2 == 0 || nc <= 12 {
			c.CmpF("c06rest-multi", fmt.Sprintf("c06rest mdetectfrom %s id %s", pre, detrestFPsBits(centres)), det, detrestCmpSubseq)
		}
		// the whole reader: the result loop against Gzx.MultiSA.decodeMultiple (the located symbols and the decoder's
		// answer for each are observed on the real detector / decoder), and the oracle
		items := Safe(func() string {
			rs, e := multidet.NewMultiDetector(img.bm).DetectMulti(hints)
			if e != nil {
				return "NONE"
			}
			its := make([]string, len(rs))
			for i, x := range rs {
				dr, e := qrdecoder.NewDecoder().Decode(cqrClone(x.GetBits()), hints)
				if e != nil || dr == nil {
					its[i] = "E"
					continue
				}
				sg, ec, sa := "-", "0", "-"
				if dr.GetByteSegments() != nil {
					sg = detrestSegTok(dr.GetByteSegments())
				}
				if dr.GetECLevel() != "" {
					ec = "1"
				}
				if dr.HasStructuredAppend() {
					sa = fmt.Sprintf("%d,%d", dr.GetStructuredAppendSequenceNumber(), dr.GetStructuredAppendParity())
				}
				its[i] = fmt.Sprintf("%s;%s;%d;%s;%s;%s", hexs([]byte(dr.GetText())), hexs(dr.GetRawBytes()), len(x.GetPoints()), sg, ec, sa)
			}
			if len(its) == 0 {
				return "-"
			}
			return strings.Join(its, "|")
		})
		full := SafeT(30*time.Second, func() string {
			rs, e := multiqr.NewQRCodeMultiReader().DecodeMultiple(detrestBitmap(img.bm), hints)
			if e != nil {
				return c06detErr(e)
			}
			ss := make([]string, len(rs))
			for i, x := range rs {
				if x == nil {
					return "NIL-RESULT"
				}
				ss[i] = detrestSAResultStr(x)
			}
			if len(ss) == 0 {
				return "ok -"
			}
			return "ok " + strings.Join(ss, "|")
		})
		if items != "NONE" && items != "PANIC" {
			c.Cmp("c06rest-multi", "c06rest mdecode "+items, full)
		}
		full = fmt.Sprintf("%s %d", c06detHead(full), strings.Count(full, "|")+map[bool]int{true: 1, false: 0}[strings.HasPrefix(full, "ok ") && full != "ok -"])
		if !strings.HasPrefix(full, "ok") {
			full = c06detHead(full)
		}
		okFull := strings.HasPrefix(full, "ok") || full == "ERR:notfound" || full == "ERR:checksum" || full == "ERR:format"
		c.Oracle("c06rest-multi.DecodeMultiple", okFull, "c06rest:multi.DecodeMultiple:"+c06detHead(full),
			fmt.Sprintf("DecodeMultiple %s th=%s", pre, th), "DecodeMultiple gave "+full)
		c.Note("c06rest multi.DecodeMultiple " + img.class + " " + full)
	}
}

// selection on synthetic centre lists: sizes equal / close / far apart, positions on a grid (right isosceles triangles
// abound) or random; the list Go has sorted in place is read back and given to the model
func detrestMultiSelect(c *Ctx, r *Rng) {
	n := c.Pick(1500, 40000)
	for it := 0; it < n && c.TimeLeft(); it++ {
		cnt := r.Pick([]int{0, 1, 2, 3, 3, 4, 4, 5, 6, 8, 12, 13, 20})
		base := float64(r.Range(1, 8))
		ps := make([]*qrdetector.FinderPattern, cnt)
		distinct := r.Bool() || cnt > 12
		for i := range ps {
			var x, y float64
			if r.Chance(0.6) {
				g := base * float64(r.Pick([]int{10, 14, 18, 30}))
				x, y = g*float64(r.Intn(4)), g*float64(r.Intn(4))
			} else {
				x, y = float64(r.Range(0, 400))/2, float64(r.Range(0, 400))/2
			}
			sz := base
			switch r.Intn(6) {
			case 0:
				sz = base * 1.04
			case 1:
				sz = base + 0.4
			case 2:
				sz = base * float64(r.Range(2, 4))
			case 3:
				sz = base + float64(r.Range(0, 100))/100
			}
			if distinct {
				sz += float64(i) * 1e-3
			}
			if r.Chance(0.02) {
				sz = []float64{0, math.Inf(1), 1e-300}[r.Intn(3)]
			}
			ps[i] = qrdetector.NewFinderPattern(x, y, sz, r.Range(1, 5))
		}
		if cnt == 4 && r.Chance(0.5) { // boundary triples: a right angle with legs a, b and module size u so that the tests
			// `vABBC >= 0.1`, `estimatedModuleCount < 9`, `> 180` are met with equality (or one step off), plus a far fourth centre
			ab := [][2]float64{{10, 11}, {11, 10}, {20, 22}, {9, 9}, {180, 180}, {10, 10}, {9, 8.5}, {180, 181}, {100, 111}}[r.Intn(9)]
			u := float64(r.Pick([]int{1, 2, 4}))
			x0, y0 := float64(r.Range(0, 50)), float64(r.Range(0, 50))
			ps[0] = qrdetector.NewFinderPattern(x0, y0, u, 2)
			ps[1] = qrdetector.NewFinderPattern(x0+ab[0]*u, y0, u, 2)
			ps[2] = qrdetector.NewFinderPattern(x0, y0+ab[1]*u, u, 2)
			ps[3] = qrdetector.NewFinderPattern(x0+5000, y0+7000, u, 2)
			r2 := r.Intn(4)
			ps[0], ps[r2] = ps[r2], ps[0]
		}
		orig := detrestFPsBits(ps)
		f := multidet.NewMultiFinderPatternFinder(c06detNew(1, 1), nil)
		f.VerifSetPossibleCenters(ps)
		out := SafeT(5*time.Second, func() string {
			ts, e := f.VerifSelectMultipleBestPatterns()
			if e != nil {
				if ts != nil {
					return "BOTH"
				}
				return c06detErr(e)
			}
			return "ok " + detrestTriples(ts)
		})
		sorted := detrestFPsBits(f.GetPossibleCenters())
		c.CmpF("c06rest-multi", "c06rest msel id "+sorted, out, c06detCmpTok)
		if cnt <= 12 {
			c.CmpF("c06rest-multi", "c06rest msel ins "+orig, out, c06detCmpTok)
		}
		ok := strings.HasPrefix(out, "ok") || out == "ERR:notfound"
		c.Oracle("c06rest-multi.select", ok, "c06rest:selectMultipleBestPatterns:"+c06detHead(out), orig, "selectMultipleBestPatterns gave "+c06detHead(out))
		c.Note(fmt.Sprintf("c06rest multi.select n=%d %s", cnt, c06detHead(out)))
	}
}

func detrestMultiSuite(c *Ctx) {
	c.res.Rule += " || multi QR reader (c06rest m*, sa): FindMulti scan + selectMultipleBestPatterns + DetectMulti up to sampling on sheets with 2-4 QR symbols, finder-pattern fields (more than 12 centres, equal module sizes), single symbols and arbitrary images, " +
		"selection on synthetic centre lists (0..20 centres, equal / close / far module sizes, grid and random positions, zero and infinite sizes), processStructuredAppend on arbitrary result lists (0..25 results, sequence numbers permuted / repeated / wrongly typed, byte segments of every shape) " +
		"compared with the Lean models Gzx.Det.Multi / Gzx.MultiSA; oracle: no panic, result xor NotFound"
	r := c.Rng.Fork()
	detrestSASuite(c)
	detrestMultiSelect(c, r)
	detrestMultiFinder(c, r)
}
