package main

// C06, work package detrest, part 1: the pure-barcode path of the image-level readers.
// The real QRCodeReader.extractPureBits / moduleSize and datamatrix extractPureBits / moduleSize (verif hooks of
// qrcode/ and datamatrix/) and BitMatrix.GetTopLeftOnBit / GetBottomRightOnBit against the Lean models
// Gzx.Det.Pure.* (driver prefix `c06rest`), the real Decode with PURE_BARCODE against "extract, then matrix
// decoder" (the readers' glue), and the property oracle on every call (no panic, returns, result xor
// NotFound|Checksum|Format).  Wrapped into suite C06 from this file's init().

import (
	"fmt"
	"math"
	"strings"
	"time"

	"github.com/makiuchi-d/gozxing"
	"github.com/makiuchi-d/gozxing/datamatrix"
	dmdecoder "github.com/makiuchi-d/gozxing/datamatrix/decoder"
	"github.com/makiuchi-d/gozxing/qrcode"
)

func init() {
	prev := suites["C06"]
	suites["C06"] = func(c *Ctx) {
		if prev != nil {
			prev(c)
		}
		detrestPureSuite(c)
	}
	// development entry: this package's suites alone (`gzxh -prop detrest`)
	prevDev := suites["detrest"]
	suites["detrest"] = func(c *Ctx) {
		if prevDev != nil {
			prevDev(c)
		}
		detrestPureSuite(c)
	}
}

// ---------- a Binarizer that hands out a given bit matrix ----------

type detrestBin struct{ m *gozxing.BitMatrix }

func (b detrestBin) GetLuminanceSource() gozxing.LuminanceSource { return nil }
func (b detrestBin) GetBlackRow(y int, row *gozxing.BitArray) (*gozxing.BitArray, error) {
	return b.m.GetRow(y, row), nil
}
func (b detrestBin) GetBlackMatrix() (*gozxing.BitMatrix, error)                    { return cqrClone(b.m), nil }
func (b detrestBin) CreateBinarizer(source gozxing.LuminanceSource) gozxing.Binarizer { return b }
func (b detrestBin) GetWidth() int                                                    { return b.m.GetWidth() }
func (b detrestBin) GetHeight() int                                                   { return b.m.GetHeight() }

func detrestBitmap(m *gozxing.BitMatrix) *gozxing.BinaryBitmap {
	bb, _ := gozxing.NewBinaryBitmap(detrestBin{m})
	return bb
}

// ---------- generators ----------

type detrestImg struct {
	m     *gozxing.BitMatrix
	class string
}

// resample `s` (module matrix) to pixels with module pitch (px, py) — also fractional — and quiet zones l,t,r,b
func detrestRender(s *gozxing.BitMatrix, px, py float64, l, t, r, b int) *gozxing.BitMatrix {
	sw, sh := s.GetWidth(), s.GetHeight()
	pw, ph := int(math.Round(float64(sw)*px)), int(math.Round(float64(sh)*py))
	if pw < 1 {
		pw = 1
	}
	if ph < 1 {
		ph = 1
	}
	m := c06detNew(pw+l+r, ph+t+b)
	for y := 0; y < ph; y++ {
		sy := int(float64(y) / py)
		if sy >= sh {
			sy = sh - 1
		}
		for x := 0; x < pw; x++ {
			sx := int(float64(x) / px)
			if sx >= sw {
				sx = sw - 1
			}
			if s.Get(sx, sy) {
				m.Set(x+l, y+t)
			}
		}
	}
	return m
}

var detrestQuiet = []int{0, 0, 1, 2, 4, 7, 10}

func detrestGen(r *Rng, maxDim int) detrestImg {
	switch r.Intn(16) {
	case 0, 1: // degenerate: constant, single pixels in the corners / anywhere, two pixels in every relative position
		w, h := r.Pick(c06detSmall), r.Pick(c06detSmall)
		if r.Chance(0.4) {
			if r.Bool() {
				w = r.Pick([]int{1, 2})
			} else {
				h = r.Pick([]int{1, 2})
			}
		}
		m := c06detNew(w, h)
		class := "degenerate"
		switch r.Intn(6) {
		case 0:
			c06detRect(m, 0, 0, w-1, h-1, true)
			class = "all-black"
		case 1:
			class = "all-white"
		case 2:
			m.Set(r.Pick([]int{0, w - 1}), r.Pick([]int{0, h - 1}))
			class = "corner-pixel"
		case 3:
			m.Set(r.Intn(w), r.Intn(h))
			class = "one-pixel"
		case 4:
			m.Set(r.Intn(w), r.Intn(h))
			m.Set(r.Intn(w), r.Intn(h))
			class = "two-pixels"
		default: // a full row and/or a full column
			if r.Bool() {
				c06detRect(m, 0, r.Intn(h), w-1, r.Intn(h), true)
			}
			if r.Bool() {
				x := r.Intn(w)
				c06detRect(m, x, 0, x, h-1, true)
			}
			class = "lines"
		}
		return detrestImg{m, class}
	case 2: // black rectangle(s) with white margins: module size = rectangle width (DM), diagonal leaves the rectangle (QR)
		w, h := r.Range(1, 40), r.Range(1, 40)
		m := c06detNew(w, h)
		x0, y0 := r.Intn(w), r.Intn(h)
		c06detRect(m, x0, y0, r.Range(x0, w-1), r.Range(y0, h-1), true)
		if r.Bool() {
			x1, y1 := r.Intn(w), r.Intn(h)
			c06detRect(m, x1, y1, r.Range(x1, w-1), r.Range(y1, h-1), r.Chance(0.7))
		}
		return detrestImg{m, "rects"}
	case 3: // diagonal run structures: black/white square rings from a top-left corner, k per ring, n rings, margins
		k, n := r.Range(1, 5), r.Range(1, 8)
		l, t := r.Pick(detrestQuiet), r.Pick(detrestQuiet)
		side := k * n
		w, h := l+side+r.Pick(detrestQuiet), t+side+r.Pick(detrestQuiet)
		m := c06detNew(w, h)
		for i := 0; i < n; i++ { // nested squares anchored at the top-left: the diagonal sees n runs of k
			c06detRect(m, l+i*k, t+i*k, l+side-1, t+side-1, i%2 == 0)
		}
		if r.Chance(0.3) {
			m.Set(w-1, h-1)
		}
		return detrestImg{m, "diag-runs"}
	case 4: // one finder pattern, maybe exactly filling the image (walk ends at the border on the 5th run)
		k := r.Range(1, 5)
		l, t, rr, b := r.Pick(detrestQuiet), r.Pick(detrestQuiet), r.Pick(detrestQuiet), r.Pick(detrestQuiet)
		m := c06detNew(l+7*k+rr, t+7*k+b)
		c06detFinder(m, l, t, k)
		if r.Chance(0.5) && rr+b > 0 {
			m.Set(m.GetWidth()-1, m.GetHeight()-1)
		}
		return detrestImg{m, "one-finder"}
	case 5, 6, 7, 8, 9: // pure QR symbol
		s := c06QRSymbol(r, c06Text(r))
		if s == nil {
			s = c06detNew(21, 21)
		}
		return detrestPose(r, s, "qr", maxDim)
	case 10, 11, 12, 13: // pure Data Matrix symbol
		sz := c06DMSizes[r.Intn(len(c06DMSizes))]
		if r.Chance(0.6) {
			sz = c06DMSizes[r.Intn(12)]
		}
		var s *gozxing.BitMatrix
		if si := c06DMSymbolInfo(sz[0], sz[1]); si != nil {
			data, _ := c06GenDMStream(r, si.GetDataCapacity())
			s = c06DMSymbol(si, data)
		}
		if s == nil {
			s = c06detNew(10, 10)
		}
		return detrestPose(r, s, "dm", maxDim)
	default:
		g := c06detGen(r, maxDim)
		return detrestImg{g.bm, "any-" + g.class}
	}
}

// a symbol as a "pure" image: integer or fractional module pitch, equal or unequal in x / y, quiet zones from 0,
// then optionally: bottom-right module cleared / set, specks in the quiet zone, cropped, a stray last row
func detrestPose(r *Rng, s *gozxing.BitMatrix, kind string, maxDim int) detrestImg {
	class := kind
	px := float64(r.Pick([]int{1, 1, 2, 2, 3, 3, 4, 5, 6}))
	py := px
	switch r.Intn(8) {
	case 0:
		px = []float64{1.5, 2.5, 3.5, 2.25, 3.3, 4.7, 1.2, 1.9}[r.Intn(8)]
		py = px
		class += "-fractional"
	case 1:
		py = px + float64(r.Pick([]int{1, 2}))
		class += "-anisotropic"
	}
	for (float64(s.GetWidth())*px > float64(maxDim) || float64(s.GetHeight())*py > float64(maxDim)) && px > 1 {
		px, py = math.Max(1, px-1), math.Max(1, py-1)
	}
	m := detrestRender(s, px, py, r.Pick(detrestQuiet), r.Pick(detrestQuiet), r.Pick(detrestQuiet), r.Pick(detrestQuiet))
	w, h := m.GetWidth(), m.GetHeight()
	switch r.Intn(10) {
	case 0: // the module in the bottom-right corner of the symbol toggled (QR "special case" branch)
		br := m.GetBottomRightOnBit()
		if br != nil {
			k := int(px)
			c06detRect(m, br[0]-k+1, br[1]-k+1, br[0], br[1], false)
		}
		class += "-br-cleared"
	case 1: // specks around the symbol: move topLeft / bottomRight
		for i, n := 0, r.Range(1, 3); i < n; i++ {
			c06detSet(m, r.Intn(w), r.Pick([]int{0, h - 1, r.Intn(h)}), true)
		}
		class += "-specks"
	case 2: // cropped
		cw, ch := r.Range(1, w), r.Range(1, h)
		x0, y0 := r.Intn(w-cw+1), r.Intn(h-ch+1)
		n := c06detNew(cw, ch)
		for y := 0; y < ch; y++ {
			for x := 0; x < cw; x++ {
				if m.Get(x0+x, y0+y) {
					n.Set(x, y)
				}
			}
		}
		m = n
		class += "-cropped"
	case 3: // noise
		c06detNoise(r, m, r.Pick([]int{1, 3, 20}))
		class += "-noise"
	case 5: // the last set cell in the column of the first one (left == right) or one column off: the sanity check
		if tl := m.GetTopLeftOnBit(); tl != nil {
			if br := m.GetBottomRightOnBit(); br != nil && br[1] == h-1 { // no quiet zone below: clear the rest of the last row
				c06detRect(m, 0, h-1, w-1, h-1, false)
			}
			c06detSet(m, tl[0]+r.Pick([]int{0, 0, 0, 1, -1}), h-1, true)
		}
		class += "-last-under-first"
	case 4: // transposed / rotated
		m = c06Transpose(m)
		if r.Bool() {
			m.Rotate180()
		}
		class += "-turned"
	}
	return detrestImg{m, class}
}

// ---------- canonical outputs ----------

func detrestPt(p []int) string {
	if p == nil {
		return "nil"
	}
	if len(p) != 2 {
		return fmt.Sprintf("LEN%d", len(p))
	}
	return fmt.Sprintf("%d,%d", p[0], p[1])
}

func detrestBitsOut(m *gozxing.BitMatrix, e error) string {
	if e != nil {
		if m != nil {
			return "BOTH"
		}
		return "ERR:" + errKind(e)
	}
	if m == nil {
		return "NILNIL"
	}
	return fmt.Sprintf("ok %d %d %s", m.GetWidth(), m.GetHeight(), c06detBits(m))
}

// oracle of C06 on one pure-barcode call
func detrestOracle(c *Ctx, entry string, img detrestImg, out string, decode bool) {
	ok := strings.HasPrefix(out, "ok") || out == "ERR:notfound" || (decode && (out == "ERR:checksum" || out == "ERR:format"))
	c.Oracle("c06rest-"+entry, ok, "c06rest:"+entry+":"+c06detHead(out),
		fmt.Sprintf("%s %dx%d bits=%s", entry, img.m.GetWidth(), img.m.GetHeight(), c06detBits(img.m)), "pure-barcode call gave "+out)
}

var detrestPureHints = map[gozxing.DecodeHintType]interface{}{gozxing.DecodeHintType_PURE_BARCODE: true}

func detrestResultOut(res *gozxing.Result, e error) string {
	if e != nil {
		if res != nil {
			return "BOTH"
		}
		return "ERR:" + errKind(e)
	}
	if res == nil {
		return "NILNIL"
	}
	return fmt.Sprintf("ok npts=%d text=%s", len(res.GetResultPoints()), hexs([]byte(res.GetText())))
}

func detrestPureOne(c *Ctx, r *Rng, img detrestImg, decode bool) {
	m := img.m
	w, h := m.GetWidth(), m.GetHeight()
	bits := c06detBits(m)
	pre := fmt.Sprintf("%d %d %s", w, h, bits)
	var tl, br []int
	corners := Safe(func() string {
		tl, br = m.GetTopLeftOnBit(), m.GetBottomRightOnBit()
		return detrestPt(tl) + " " + detrestPt(br)
	})
	c.Cmp("c06rest-pure", "c06rest corners "+pre, corners)
	// module sizes from the top-left black cell and from an arbitrary start (also outside the image)
	starts := [][]int{}
	if tl != nil {
		starts = append(starts, tl)
	}
	starts = append(starts, []int{r.Range(-1, w), r.Range(-1, h)})
	for _, s := range starts {
		s := s
		o := SafeT(5*time.Second, func() string {
			ms, e := datamatrix.VerifModuleSize(s, m)
			if e != nil {
				return "ERR:" + errKind(e)
			}
			return fmt.Sprintf("ok %d", ms)
		})
		c.Cmp("c06rest-pure", fmt.Sprintf("c06rest dmms %s %d %d", pre, s[0], s[1]), o)
		o = SafeT(5*time.Second, func() string {
			ms, e := qrcode.VerifModuleSize(s, m)
			if e != nil {
				return "ERR:" + errKind(e)
			}
			return fmt.Sprintf("ok %s %d", c06detFB(ms), int(math.Round(ms*7)))
		})
		c.Cmp("c06rest-pure", fmt.Sprintf("c06rest qrms %s %d %d", pre, s[0], s[1]), o)
	}
	var dmBits, qrBits *gozxing.BitMatrix
	dm := SafeT(5*time.Second, func() string {
		b, e := datamatrix.VerifExtractPureBits(m)
		dmBits = b
		return detrestBitsOut(b, e)
	})
	c.Cmp("c06rest-pure", "c06rest dmpure "+pre, dm)
	c.Cmp("c06rest-pure", "c06rest dmpurestrict "+pre, dm) // theorem dm_pure_in_bounds: no read leaves the image
	detrestOracle(c, "dm.extractPureBits", img, dm, false)
	qr := SafeT(5*time.Second, func() string {
		b, e := qrcode.VerifExtractPureBits(m)
		qrBits = b
		return detrestBitsOut(b, e)
	})
	c.Cmp("c06rest-pure", "c06rest qrpure "+pre, qr)
	c.Cmp("c06rest-pure", "c06rest qrpurestrict "+pre, qr) // qr_pure_in_bounds: its float hypotheses hold of float64 here
	detrestOracle(c, "qr.extractPureBits", img, qr, false)
	c.Note("c06rest pure dm " + img.class + " " + c06detHead(dm))
	c.Note("c06rest pure qr " + img.class + " " + c06detHead(qr))
	c.Note("c06rest pure size " + c06detSize(w, h))
	if !decode {
		return
	}
	// the readers' glue: Decode(PURE_BARCODE) = extractPureBits, then the matrix decoder, no result points
	qd := SafeT(10*time.Second, func() string {
		return detrestResultOut(qrcode.NewQRCodeReader().Decode(detrestBitmap(m), detrestPureHints))
	})
	detrestOracle(c, "qr.Decode(PURE)", img, qd, true)
	want := c06detHead(qr)
	if strings.HasPrefix(qr, "ok") && qrBits != nil {
		out, res := cqrGoDecode(qrBits, cqrNoHint())
		want = c06detHead(out)
		if res != nil {
			want = "ok npts=0 text=" + hexs([]byte(res.GetText()))
		}
		if w*h <= 80*80 {
			c.CmpF("c06rest-pure", fmt.Sprintf("c06 qrd %d %d %s hint=-", qrBits.GetWidth(), qrBits.GetHeight(), cqrBits(qrBits)), out, cqrCmpParsed)
		}
	}
	c.Oracle("c06rest-qr.Decode(PURE)", qd == want, "c06rest:qr-pure-glue",
		fmt.Sprintf("qr.Decode(PURE) %dx%d bits=%s", w, h, bits), "Decode with PURE_BARCODE gave "+qd+", extractPureBits + Decoder.Decode gives "+want)
	c.Note("c06rest pure qr.Decode " + img.class + " " + c06detHead(qd))
	dd := SafeT(10*time.Second, func() string {
		return detrestResultOut(datamatrix.NewDataMatrixReader().Decode(detrestBitmap(m), detrestPureHints))
	})
	detrestOracle(c, "dm.Decode(PURE)", img, dd, true)
	want = c06detHead(dm)
	if strings.HasPrefix(dm, "ok") && dmBits != nil {
		want = Safe(func() string {
			res, e := dmdecoder.NewDecoder().Decode(cqrClone(dmBits))
			if e != nil {
				return "ERR:" + errKind(e)
			}
			return "ok npts=0 text=" + hexs([]byte(res.GetText()))
		})
	}
	c.Oracle("c06rest-dm.Decode(PURE)", dd == want, "c06rest:dm-pure-glue",
		fmt.Sprintf("dm.Decode(PURE) %dx%d bits=%s", w, h, bits), "Decode with PURE_BARCODE gave "+dd+", extractPureBits + Decoder.Decode gives "+want)
	c.Note("c06rest pure dm.Decode " + img.class + " " + c06detHead(dd))
}

func detrestPureSuite(c *Ctx) {
	c.res.Rule += " || pure-barcode path (c06rest): QR and Data Matrix extractPureBits / moduleSize and GetTopLeftOnBit / GetBottomRightOnBit on EVERY bit image up to 3x3 (exhaustive) and on " +
		"degenerate (constant, single pixels, lines, 1xN), rectangle, diagonal-run, finder, pure-symbol (integer / fractional / anisotropic pitch, quiet zones from 0, bottom-right module cleared, specks, cropped, turned) and arbitrary images " +
		"compared with the Lean models Gzx.Det.Pure (matrix read off, NotFound, PANIC; also under an unguarded Get), the real Decode with PURE_BARCODE compared with extractPureBits + matrix decoder, oracle: no panic, result xor NotFound|Checksum|Format"
	r := c.Rng.Fork()
	// exhaustive: every image of every size up to 3x3 (682 images)
	for w := 1; w <= 3; w++ {
		for h := 1; h <= 3; h++ {
			for v := 0; v < 1<<uint(w*h); v++ {
				m := c06detNew(w, h)
				for i := 0; i < w*h; i++ {
					if v>>uint(i)&1 == 1 {
						m.Set(i%w, i/w)
					}
				}
				detrestPureOne(c, r, detrestImg{m, "exhaustive<=3x3"}, v%8 == 0)
			}
		}
	}
	n := c.Pick(1200, 40000)
	for i := 0; i < n && c.TimeLeft(); i++ {
		img := detrestGen(r, c.Pick(120, 300))
		if r.Chance(0.1) { // small random images 4x4 .. 6x6
			w, h := r.Range(1, 6), r.Range(1, 6)
			m := c06detNew(w, h)
			for y := 0; y < h; y++ {
				for x := 0; x < w; x++ {
					if r.Bool() {
						m.Set(x, y)
					}
				}
			}
			img = detrestImg{m, "random<=6x6"}
		}
		detrestPureOne(c, r, img, true)
	}
}
