package main

// wp dmenc (round 4): correspondence and oracle for what Properties/C02Term.lean and Properties/C12DM.lean state.
//
//  C12  suite dm-writer: the WHOLE DataMatrixWriter.Encode (EncodeHighLevel, second SymbolInfo_Lookup, ECC200, placement,
//       encodeLowLevel, rendering) against the composed model `DMWriterCore` (driver ops `c12dm enc` = module matrix of a
//       0x0 request, `c12dm img` = image size of a WxH request), and the oracle "returns a matrix or an error, no panic,
//       in time" on the real writer.
//  C02  suite dm-term: EncodeHighLevel on messages built around the situations the termination proof is about - the
//       rest of the message is a run on which the C40 / Text encoder backtracks everything (value counts
//       (1|4),3,...,3,(1|3|4)), an X12 run ending mid-triplet, an EDIFACT run ending mid-quadruple, at most two
//       characters left behind such runs, each with and without macro 05/06 envelope and under size hints that make the
//       free space 0, 1 or 2 codewords - exact codewords against the model (`c02 enc`) and the oracle "terminates
//       without panic" under a watchdog.
//
// The file name sorts behind cXX.go / zz_c12_history.go, so init() wraps the suites registered there.

import (
	"fmt"
	"strings"
	"time"

	"github.com/makiuchi-d/gozxing"
	"github.com/makiuchi-d/gozxing/datamatrix"
	dmencoder "github.com/makiuchi-d/gozxing/datamatrix/encoder"
)

func init() {
	prev12 := suites["C12"]
	suites["C12"] = func(c *Ctx) {
		prev12(c)
		dmencWriterSuite(c)
	}
	prev02 := suites["C02"]
	suites["C02"] = func(c *Ctx) {
		prev02(c)
		dmencTermSuite(c)
	}
}

// character pools
var (
	dmencUpper   = c02Range('A', 'Z')
	dmencLower   = c02Range('a', 'z')
	dmencDigit   = c02Range('0', '9')
	dmencExtC40  = append(c02Range(0xC1, 0xDA), append(c02Range(0xB0, 0xB9), 0xA0)...) // 128 + C40-native: 3 C40 values
	dmencExtText = append(c02Range(0xE1, 0xFA), append(c02Range(0xB0, 0xB9), 0xA0)...) // 128 + Text-native: 3 Text values
	dmencExtAny  = c02Range(0x80, 0xFF)
	dmencX12     = append(append(append([]byte{13, '*', '>', ' '}, dmencDigit...), dmencUpper...))
	dmencEdi     = c02Range(0x20, 0x5E)
	dmencAny     = c02Range(0x00, 0xFF)
)

func dmencPick(r *Rng, pool []byte) byte { return pool[r.Intn(len(pool))] }

func dmencRun(r *Rng, pool []byte, n int) []byte {
	b := make([]byte, n)
	for i := range b {
		b[i] = dmencPick(r, pool)
	}
	return b
}

// dmencTail builds the END of a message; the returned tag names the situation.
func dmencTail(r *Rng) ([]byte, string) {
	switch r.Intn(7) {
	case 0, 1: // run the C40 / Text encoder backtracks completely
		text := r.Bool()
		nat, ext3 := append(append([]byte{' '}, dmencDigit...), dmencUpper...), dmencExtC40
		tag := "c40-backtracked"
		if text {
			nat, ext3 = append(append([]byte{' '}, dmencDigit...), dmencLower...), dmencExtText
			tag = "text-backtracked"
		}
		end := func() byte {
			switch r.Intn(3) {
			case 0:
				return dmencPick(r, nat)
			case 1:
				return dmencPick(r, ext3)
			}
			return dmencPick(r, dmencExtAny)
		}
		t := []byte{end()}
		t = append(t, dmencRun(r, ext3, r.Intn(9))...)
		if r.Chance(0.85) {
			t = append(t, end())
		}
		return t, tag
	case 2: // X12 run ending in the middle of a triplet
		return dmencRun(r, dmencX12, 3*r.Intn(5)+r.Range(1, 2)), "x12-midtriplet"
	case 3: // EDIFACT run ending in the middle of a quadruple
		return dmencRun(r, dmencEdi, 4*r.Intn(4)+r.Range(1, 3)), "edifact-midquad"
	case 4: // one or two arbitrary characters behind a run of one class
		pools := [][]byte{dmencX12, dmencEdi, dmencUpper, dmencLower, dmencExtC40}
		t := dmencRun(r, pools[r.Intn(len(pools))], r.Range(3, 14))
		return append(t, dmencRun(r, dmencAny, r.Range(1, 2))...), "short-rest"
	case 5: // C40 / Text run whose value count leaves 1 or 2 values, last character of 1..4 values
		pool := dmencUpper
		if r.Bool() {
			pool = dmencLower
		}
		t := dmencRun(r, pool, r.Range(2, 13))
		return append(t, dmencPick(r, dmencAny)), "c40-residue"
	}
	return dmencRun(r, dmencAny, r.Range(1, 6)), "random"
}

func dmencMessage(r *Rng) ([]byte, string) {
	var msg []byte
	if r.Chance(0.6) { // something in front, mostly one class so that a non-ASCII mode is active
		cl := r.Intn(len(c02Classes))
		msg = append(msg, c02Run(r, cl, r.Range(1, 14))...)
		if r.Chance(0.3) {
			msg = append(msg, c02Run(r, r.Intn(len(c02Classes)), r.Range(1, 8))...)
		}
	}
	tail, tag := dmencTail(r)
	msg = append(msg, tail...)
	if r.Chance(0.2) {
		hdr := "[)>\x1e05\x1d"
		if r.Bool() {
			hdr = "[)>\x1e06\x1d"
		}
		msg = append(append([]byte(hdr), msg...), 0x1e, 0x04)
		tag += "+macro"
	}
	return msg, tag
}

// hints: none, or a maximum size near the size the message needs (so that 0, 1 or 2 codewords stay free)
func dmencHints(r *Rng, msg []byte) c02Hints {
	h := c02Hints{0, -1, -1, -1, -1}
	switch r.Intn(8) {
	case 0:
		h.Shape = 1
	case 1:
		h.Shape = 2
	}
	if r.Chance(0.5) {
		// the smallest symbols that could hold the message in some mode
		want := len(msg) * r.Range(6, 14) / 10
		best := -1
		for i, s := range c02Sizes {
			if s.Cap >= want && (best < 0 || s.Cap < c02Sizes[best].Cap) {
				best = i
			}
		}
		if best >= 0 {
			s := c02Sizes[best]
			h.MaxW, h.MaxH = s.W, s.H
		}
	}
	if r.Chance(0.1) {
		s := c02Sizes[r.Intn(len(c02Sizes))]
		h.MinW, h.MinH = s.W, s.H
	}
	return h
}

func dmencTermSuite(c *Ctx) {
	n := c.Pick(2500, 60000)
	type job struct {
		msg   []byte
		tag   string
		hints c02Hints
		out   string
	}
	jobs := make([]job, n)
	r := c.Rng.Fork()
	for i := range jobs {
		m, tag := dmencMessage(r)
		jobs[i] = job{msg: m, tag: tag, hints: dmencHints(r, m)}
	}
	wd := 2 * time.Second
	c.Parallel(n, 16, func(i int, _ *Rng) {
		j := &jobs[i]
		mn, mx := j.hints.dims()
		text := c02ToString(j.msg)
		j.out = SafeT(wd, func() string {
			cw, e := dmencoder.EncodeHighLevel(text, dmencoder.SymbolShapeHint(j.hints.Shape), mn, mx)
			if e != nil {
				return "ERR:" + errKind(e)
			}
			return hexs(cw)
		})
	})
	for _, j := range jobs {
		in := fmt.Sprintf("text=%s hints=%s", hexs(j.msg), j.hints)
		total := j.out != "TIMEOUT" && j.out != "PANIC"
		c.Oracle("dm-term", total, "dmenc-term", in, "EncodeHighLevel did not return a value or an error: "+j.out+" ("+j.tag+")")
		if total {
			c.Cmp("dm-term", fmt.Sprintf("c02 enc %s %s", hexs(j.msg), j.hints), j.out)
		}
		cls := "ok"
		if strings.HasPrefix(j.out, "ERR") {
			cls = j.out
		}
		c.Note("dm-term:" + j.tag + ":" + cls)
	}
}

func dmencWriterSuite(c *Ctx) {
	n := c.Pick(700, 20000)
	type job struct {
		msg        []byte
		tag        string
		hints      c02Hints
		w, h       int
		mat, img   string
		symW, symH int
	}
	jobs := make([]job, n)
	r := c.Rng.Fork()
	dims := []int{-3, -1, 0, 0, 1, 7, 10, 16, 31, 64, 200}
	for i := range jobs {
		var m []byte
		var tag string
		var h c02Hints
		if r.Chance(0.5) {
			m, tag = dmencMessage(r)
			h = dmencHints(r, m)
		} else {
			// general texts aimed at the capacity of one of the symbols (small ones mostly: the model runs ECC and placement)
			k := r.Intn(len(c02Sizes))
			if c02Sizes[k].Cap > 120 && r.Chance(0.9) {
				k = r.Intn(12)
			}
			m, tag, h = c02GenText(r, c02Sizes[k]), "text-"+fmt.Sprint(c02Sizes[k].Cap), c02GenHints(r)
		}
		jobs[i] = job{msg: m, tag: tag, hints: h, w: dims[r.Intn(len(dims))], h: dims[r.Intn(len(dims))]}
	}
	wd := 3 * time.Second
	c.Parallel(n, 16, func(i int, _ *Rng) {
		j := &jobs[i]
		text := c02ToString(j.msg)
		w := datamatrix.NewDataMatrixWriter()
		j.mat = SafeT(wd, func() string {
			m, e := w.Encode(text, gozxing.BarcodeFormat_DATA_MATRIX, 0, 0, j.hints.hintMap())
			if (m == nil) == (e == nil) {
				return "NEITHER-OR-BOTH"
			}
			if e != nil {
				return "ERR:" + errKind(e)
			}
			j.symW, j.symH = m.GetWidth(), m.GetHeight()
			return c08MatrixStr(m)
		})
		j.img = SafeT(wd, func() string {
			m, e := w.Encode(text, gozxing.BarcodeFormat_DATA_MATRIX, j.w, j.h, j.hints.hintMap())
			if (m == nil) == (e == nil) {
				return "NEITHER-OR-BOTH"
			}
			if e != nil {
				return "ERR:" + errKind(e)
			}
			return fmt.Sprintf("ok %dx%d", m.GetWidth(), m.GetHeight())
		})
	})
	bad := func(s string) bool { return s == "TIMEOUT" || s == "PANIC" || s == "NEITHER-OR-BOTH" }
	for _, j := range jobs {
		in := fmt.Sprintf("text=%s hints=%s", hexs(j.msg), j.hints)
		c.Oracle("dm-writer", !bad(j.mat), "dmenc-writer-total", in+" req=0x0",
			"DataMatrixWriter.Encode did not return exactly one of matrix / error: "+j.mat)
		c.Oracle("dm-writer", !bad(j.img), "dmenc-writer-total", fmt.Sprintf("%s req=%dx%d", in, j.w, j.h),
			"DataMatrixWriter.Encode did not return exactly one of matrix / error: "+j.img)
		if !bad(j.mat) {
			c.Cmp("dm-writer", fmt.Sprintf("c12dm enc %s %s", hexs(j.msg), j.hints), j.mat)
		}
		if !bad(j.img) {
			c.Cmp("dm-writer", fmt.Sprintf("c12dm img %s %s %d %d", hexs(j.msg), j.hints, j.w, j.h), j.img)
			// "never smaller than the symbol it depicts"
			if strings.HasPrefix(j.img, "ok ") && j.symW > 0 {
				var iw, ih int
				fmt.Sscanf(j.img, "ok %dx%d", &iw, &ih)
				c.Oracle("dm-writer", iw >= j.symW && ih >= j.symH, "dmenc-writer-dims",
					fmt.Sprintf("%s req=%dx%d", in, j.w, j.h), fmt.Sprintf("image %dx%d smaller than the symbol %dx%d", iw, ih, j.symW, j.symH))
			}
		}
		cls := "ok"
		if strings.HasPrefix(j.mat, "ERR") {
			cls = j.mat
		} else if !bad(j.mat) {
			cls = fmt.Sprintf("ok-%dx%d", j.symH, j.symW)
		}
		c.Note("dm-writer:" + cls)
		c.Note("dm-writer-tag:" + j.tag)
	}
}
