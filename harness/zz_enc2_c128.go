package main

// wp enc2 — Code 128 writer: the part of code128Encoder.encodeWithHints behind the C12 theorem
// `encode_total_CODE128` (Properties/C12C128.lean) and behind the regenerated kernels K12.
//
//  (1) writer layer on MALFORMED and FORCED contents: every sequence (length <= 3, thorough 4) over a class alphabet
//      that has a representative on each side of every comparison of the writer (control, space, digit, upper, '_',
//      '`', lower, DEL, 0x80, FNC1..FNC4, 0xF0, 0xF5, a rune beyond Latin-1) under FORCE_CODE_SET none / A / B / C, plus
//      random longer contents (digit runs of either parity around FNC1, lengths 79..82): real module pattern or error
//      kind == model (`c12e wr`); oracle C12: the call never panics.
//  (2) the look-ahead automaton alone (hooks VerifCode128FindCType / VerifCode128ChooseCode): every start index 0..len+1
//      and every old code set 0 / A / B / C / (a value that is no code set) on random rune slices: == model
//      (`c12e ctype`, `c12e choose`).

import (
	"fmt"

	"github.com/makiuchi-d/gozxing"
	"github.com/makiuchi-d/gozxing/oned"
)

func init() {
	prev := suites["C12"]
	suites["C12"] = func(c *Ctx) {
		prev(c)
		enc2C128Writer(c)
		enc2C128Choose(c)
	}
}

var enc2C128Alphabet = []rune{0, 31, 32, 33, '0', '5', '9', ':', 'A', '_', '`', 'a', 127, 128, 0xF0, 0xF1, 0xF2, 0xF3, 0xF4, 0xF5, 0x100}

func enc2Runes(rs []rune) string {
	xs := make([]int, len(rs))
	for i, r := range rs {
		xs[i] = int(r)
	}
	return ints(xs)
}

func enc2C128One(c *Ctx, w gozxing.Writer, rs []rune, forced string, tag string) {
	h := map[gozxing.EncodeHintType]interface{}{}
	f := "-"
	if forced != "" {
		h[gozxing.EncodeHintType_FORCE_CODE_SET] = forced
		f = forced
	}
	mods, out := c10Write(w, gozxing.BarcodeFormat_CODE_128, string(rs), h)
	goOut := out
	if out == "ok" {
		goOut = "ok " + bitsStr(mods)
	}
	in := fmt.Sprintf("code128 %s forced=%s", enc2Runes(rs), f)
	c.Note("enc2-c128:" + tag + ":" + f + ":" + map[bool]string{true: "ok", false: out}[out == "ok"])
	c.Cmp("enc2-c128-writer", fmt.Sprintf("c12e wr %s %s", f, enc2Runes(rs)), goOut)
	c.Oracle("enc2-c128-total", out != "PANIC", "code128-writer-panics", in, "Code 128 writer panicked")
}

func enc2C128Writer(c *Ctx) {
	w := oned.NewCode128Writer()
	maxLen := c.Pick(3, 4)
	forcedSets := []string{"", "A", "B", "C"}
	var rec func(prefix []rune)
	rec = func(prefix []rune) {
		if len(prefix) > 0 {
			for _, f := range forcedSets {
				enc2C128One(c, w, prefix, f, fmt.Sprintf("seq%d", len(prefix)))
			}
		}
		if len(prefix) == maxLen {
			return
		}
		for _, a := range enc2C128Alphabet {
			rec(append(append([]rune{}, prefix...), a))
		}
	}
	if maxLen == 3 {
		// quick tier: all sequences up to length 2, length 3 over a thinned alphabet
		maxLen = 2
		rec(nil)
		thin := []rune{31, ' ', '7', 'A', 'a', 0xF1, 0xF4, 128}
		for _, a := range thin {
			for _, b := range enc2C128Alphabet {
				for _, d := range thin {
					for _, f := range forcedSets {
						enc2C128One(c, w, []rune{a, b, d}, f, "seq3")
					}
				}
			}
		}
	} else {
		rec(nil)
	}
	// random longer contents
	r := c.Rng
	n := c.Pick(400, 6000)
	for it := 0; it < n; it++ {
		var rs []rune
		ln := r.Range(1, 24)
		if r.Chance(0.1) {
			ln = r.Range(78, 83)
		}
		for len(rs) < ln {
			switch r.Intn(6) {
			case 0, 1: // digit run
				k := r.Range(1, 9)
				for j := 0; j < k; j++ {
					rs = append(rs, rune('0'+r.Intn(10)))
				}
			case 2:
				rs = append(rs, 0xF1)
			case 3:
				rs = append(rs, rune('A'+r.Intn(26)))
			case 4:
				rs = append(rs, enc2C128Alphabet[r.Intn(len(enc2C128Alphabet))])
			default:
				rs = append(rs, rune(r.Intn(128)))
			}
		}
		if len(rs) > ln {
			rs = rs[:ln]
		}
		enc2C128One(c, w, rs, forcedSets[r.Intn(4)], "random")
	}
}

func enc2C128Choose(c *Ctx) {
	r := c.Rng
	n := c.Pick(300, 5000)
	olds := []int{0, 99, 100, 101, 7}
	for it := 0; it < n; it++ {
		ln := r.Intn(13)
		rs := make([]rune, ln)
		for i := range rs {
			switch r.Intn(4) {
			case 0, 1:
				rs[i] = rune('0' + r.Intn(10))
			case 2:
				rs[i] = enc2C128Alphabet[r.Intn(len(enc2C128Alphabet))]
			default:
				rs[i] = 0xF1
			}
		}
		for start := 0; start <= ln+1; start++ {
			st := start
			ct := Safe(func() string { return fmt.Sprint(oned.VerifCode128FindCType(rs, st)) })
			c.Cmp("enc2-c128-ctype", fmt.Sprintf("c12e ctype %d %s", st, enc2Runes(rs)), ct)
			for _, o := range olds {
				old := o
				ch := Safe(func() string { return fmt.Sprint(oned.VerifCode128ChooseCode(rs, st, old)) })
				c.Cmp("enc2-c128-choose", fmt.Sprintf("c12e choose %d %d %s", old, st, enc2Runes(rs)), ch)
				c.Oracle("enc2-c128-total", ch != "PANIC", "code128-choosecode-panics",
					fmt.Sprintf("choose old=%d start=%d %s", old, st, enc2Runes(rs)), "code128ChooseCode panicked")
			}
		}
		c.Note(fmt.Sprintf("enc2-c128:choose:len%d", ln))
	}
}
