package main

// wp enc2 — the front half of Encoder_encode at the boundaries the new theorems name
// (Properties/C07Mirror.lean: mirror_chooseMode_eq_ref, mirror_kanji_eq_packKanji, mirror_encode_total).
//
//  (1) chooseMode on EVERY single byte 0..255 as a one-character content and on every pair over a class alphabet
//      (digit, upper, space, '$', ':', lower, control, 0x80, a Kanji, a half-width katakana), with and without the
//      Shift_JIS hint: == model (`c07m mode`), and the real function is judged against the property's
//      characterisation itself (numeric iff non-empty and all digits, alphanumeric iff all in the 45-character table
//      and not all digits, Kanji iff Shift_JIS hint and isOnlyDoubleByteKanji, else byte).
//  (2) Kanji data bits at the boundaries of the two Shift_JIS ranges: the suite searches the double-byte characters
//      the Shift_JIS encoder can produce for the smallest / largest code of 0x8140..0x9FFC and 0xE040..0xEBBF, codes
//      just outside (lead byte >= 0xEC), half-width katakana (single bytes, odd totals) and unencodable runes; every
//      string of up to three of them goes through appendBytes(KANJI), isOnlyDoubleByteKanji and chooseMode:
//      == model, and the real bits are judged against the standard's 13-bit packing computed here from the bytes.

import (
	"fmt"
	"strings"

	"github.com/makiuchi-d/gozxing"
	"github.com/makiuchi-d/gozxing/common"
	"github.com/makiuchi-d/gozxing/qrcode/decoder"
	"github.com/makiuchi-d/gozxing/qrcode/encoder"
)

func init() {
	prev := suites["C07"]
	suites["C07"] = func(c *Ctx) {
		prev(c)
		enc2QRModes(c)
		enc2QRKanji(c)
	}
}

func enc2SJISBytes(text string) ([]byte, bool) {
	b, e := common.StringUtils_SHIFT_JIS_CHARSET.NewEncoder().Bytes([]byte(text))
	return b, e == nil
}

// the property's own characterisation of the mode (independent of the Lean model)
func enc2ExpectedMode(text string, isSJIS bool) string {
	if isSJIS {
		if b, ok := enc2SJISBytes(text); ok && len(b)%2 == 0 {
			all := true
			for i := 0; i < len(b); i += 2 {
				if !((b[i] >= 0x81 && b[i] <= 0x9F) || (b[i] >= 0xE0 && b[i] <= 0xEB)) {
					all = false
				}
			}
			if all {
				return "KANJI"
			}
		}
	}
	if text == "" {
		return "BYTE"
	}
	allDigits, allTable := true, true
	for _, ch := range []byte(text) {
		if ch < '0' || ch > '9' {
			allDigits = false
		}
		if !strings.ContainsRune("0123456789ABCDEFGHIJKLMNOPQRSTUVWXYZ $%*+-./:", rune(ch)) || ch >= 0x80 {
			allTable = false
		}
	}
	if allDigits {
		return "NUMERIC"
	}
	if allTable {
		return "ALPHANUMERIC"
	}
	return "BYTE"
}

func enc2ModeCase(c *Ctx, text string, isSJIS bool) {
	enc := encoder.Encoder_DEFAULT_BYTE_MODE_ENCODING
	is := 0
	if isSJIS {
		enc = common.StringUtils_SHIFT_JIS_CHARSET
		is = 1
	}
	g := Safe(func() string { return encoder.VerifChooseMode(text, enc).String() })
	c.Cmp("enc2-qr-mode", fmt.Sprintf("c07m mode text=%s issjis=%d sjis=%s", hexs([]byte(text)), is, qrencSJIS(text)), g)
	want := enc2ExpectedMode(text, isSJIS)
	c.Oracle("enc2-qr-mode", g == want, "choosemode-not-the-standard-mode",
		fmt.Sprintf("mode %s issjis=%d", hexs([]byte(text)), is), fmt.Sprintf("chooseMode = %s, mode analysis of the property = %s", g, want))
	c.Note("enc2-qr:mode:" + g)
}

func enc2QRModes(c *Ctx) {
	for b := 0; b < 256; b++ {
		enc2ModeCase(c, string([]byte{byte(b)}), false)
		enc2ModeCase(c, string([]byte{byte(b)}), true)
	}
	enc2ModeCase(c, "", false)
	enc2ModeCase(c, "", true)
	alpha := []string{"0", "9", "A", "Z", " ", "$", ":", "a", "\x00", "\x7f", "\x80", "点", "ｱ", "/", "*"}
	for _, a := range alpha {
		for _, b := range alpha {
			enc2ModeCase(c, a+b, false)
			enc2ModeCase(c, a+b, true)
			for _, d := range []string{"5", "B", "b"} {
				enc2ModeCase(c, a+b+d, c.Rng.Bool())
			}
		}
	}
}

// 13-bit Kanji packing of ISO/IEC 18004 6.4.6 from Shift_JIS bytes; ok=false when the bytes are not encodable
func enc2PackKanji(b []byte) (string, bool) {
	if len(b)%2 != 0 {
		return "", false
	}
	var sb strings.Builder
	for i := 0; i < len(b); i += 2 {
		code := int(b[i])<<8 | int(b[i+1])
		var s int
		switch {
		case code >= 0x8140 && code <= 0x9FFC:
			s = code - 0x8140
		case code >= 0xE040 && code <= 0xEBBF:
			s = code - 0xC140
		default:
			return "", false
		}
		v := (s>>8)*0xC0 + (s & 0xFF)
		for k := 12; k >= 0; k-- {
			if v>>uint(k)&1 == 1 {
				sb.WriteByte('1')
			} else {
				sb.WriteByte('0')
			}
		}
	}
	return sb.String(), true
}

func enc2QRKanji(c *Ctx) {
	// search the encoder's double-byte repertoire for the boundary characters
	type cand struct {
		r    rune
		code int
	}
	var loA, hiA, loB, hiB, outside, single *cand
	for r := rune(0x80); r <= 0xFFEF; r++ {
		if r >= 0xD800 && r <= 0xDFFF {
			continue
		}
		b, ok := enc2SJISBytes(string(r))
		if !ok {
			continue
		}
		if len(b) == 1 {
			if single == nil {
				single = &cand{r, int(b[0])}
			}
			continue
		}
		if len(b) != 2 {
			continue
		}
		code := int(b[0])<<8 | int(b[1])
		k := &cand{r, code}
		switch {
		case code >= 0x8140 && code <= 0x9FFC:
			if loA == nil || code < loA.code {
				loA = k
			}
			if hiA == nil || code > hiA.code {
				hiA = k
			}
		case code >= 0xE040 && code <= 0xEBBF:
			if loB == nil || code < loB.code {
				loB = k
			}
			if hiB == nil || code > hiB.code {
				hiB = k
			}
		default:
			if outside == nil || code < outside.code {
				outside = k
			}
		}
	}
	var atoms []string
	for _, k := range []*cand{loA, hiA, loB, hiB, outside, single} {
		if k != nil {
			atoms = append(atoms, string(k.r))
			c.Note(fmt.Sprintf("enc2-qr:kanji-atom:%04X", k.code))
		}
	}
	atoms = append(atoms, "A", "é", "\U0001F600") // ASCII, a rune Shift_JIS cannot encode, a rune beyond the BMP
	sjisCS := common.StringUtils_SHIFT_JIS_CHARSET
	var rec func(prefix string, depth int)
	rec = func(prefix string, depth int) {
		if depth > 0 {
			text := prefix
			g := Safe(func() string {
				bits := gozxing.NewEmptyBitArray()
				if e := encoder.VerifAppendBytes(text, decoder.Mode_KANJI, bits, sjisCS); e != nil {
					return qrencErr(e)
				}
				return qrencBits(bits)
			})
			c.Cmp("enc2-qr-kanji", fmt.Sprintf("c07m bytes mode=KANJI text=%s enc=%s sjis=%s pre=", hexs([]byte(text)),
				qrencEncBytes(sjisCS, text), qrencSJIS(text)), g)
			// the property: bits = the standard's packing of the Shift_JIS bytes, an error exactly when there is none
			want := "ERR:writer"
			if b, ok := enc2SJISBytes(text); ok {
				if p, ok2 := enc2PackKanji(b); ok2 {
					want = p
					if want == "" {
						want = "-"
					}
				}
			}
			c.Oracle("enc2-qr-kanji", g == want, "kanji-bits-not-the-standard-packing", "kanji "+hexs([]byte(text)),
				fmt.Sprintf("appendBytes(KANJI) = %s, standard = %s", g, want))
			enc2ModeCase(c, text, true)
			g2 := Safe(func() string {
				if encoder.VerifIsOnlyDoubleByteKanji(text) {
					return "1"
				}
				return "0"
			})
			c.Cmp("enc2-qr-kanji", fmt.Sprintf("c07m kanji sjis=%s", qrencSJIS(text)), g2)
			if strings.HasPrefix(g, "ERR") {
				c.Note("enc2-qr:kanji:" + g)
			} else {
				c.Note("enc2-qr:kanji:ok")
			}
		}
		if depth == 3 {
			return
		}
		for _, a := range atoms {
			rec(prefix+a, depth+1)
		}
	}
	rec("", 0)
}
