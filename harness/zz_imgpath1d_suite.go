package main

// wp imgpath1d — suite `img1d`: the composed 1-D image-path model (lean/Gzx/Model/Image1D.lean) against the real
//   New<Sym>Writer().Encode -> *BitMatrix (as image.Image) -> NewBinaryBitmap(Hybrid | GlobalHistogram) -> New<Sym>Reader().Decode
// at the boundary conditions of the theorems of Properties/C03Image.lean (margins around the reader's quiet-zone demand
// and around the binariser's two border pixels, widths around multiples of the natural width, heights 0..33, both
// binarisers, with and without TRY_HARDER, upright / upside down / sideways), plus a malformed stream: pictures with
// blanked / noisy / cropped rows, black borders, inverted colours, tiny sizes — compared layer by layer (picture hash,
// GetBlackRow of single rows, GetBlackRow of the rotated bitmap, Decode result incl. the row it was found on).
// Oracle on the real code (exactly the statements): clean upright images read back as content + format, no orientation
// (C03); upside down => same content with ORIENTATION 180 for the start/stop-asymmetric symbologies the theorem covers;
// sideways with TRY_HARDER => same content with ORIENTATION 270 (C09).

import (
	"fmt"
	"os"
	"strings"

	"github.com/makiuchi-d/gozxing"
	"github.com/makiuchi-d/gozxing/oned"
)

func init() {
	// IMGPATH1D_ONLY=1 (self-test aid): run only this package's suites, to see what THEY detect
	only := os.Getenv("IMGPATH1D_ONLY") != ""
	prev3 := suites["C03"]
	suites["C03"] = func(c *Ctx) {
		if prev3 != nil && !only {
			prev3(c)
		}
		imgpath1dSuite(c, false)
	}
	prev9 := suites["C09"]
	suites["C09"] = func(c *Ctx) {
		if prev9 != nil && !only {
			prev9(c)
		}
		imgpath1dSuite(c, true)
	}
}

// quiet-zone demand of the theorems, in modules of margin (the binariser alone needs 2)
func imgpath1dNeed(name string) int {
	switch name {
	case "ean13", "ean8", "upca":
		return 7
	case "upce":
		return 13
	}
	return 2
}

func imgpath1dContents(sym c03Sym, cs c03Case) string {
	if sym.name == "code128" {
		return c03CodePoints(cs.content)
	}
	return hexs([]byte(cs.content))
}

func imgpath1dCases(r *Rng, sym c03Sym, n int) []c03Case {
	var cs []c03Case
	switch sym.name {
	case "ean13", "ean8", "upca", "upce":
		cs = c03UPCCases(r, sym.name, n)
	case "itf":
		cs = c03ITFCases(r, n)
	case "code39":
		cs = c03Code39Cases(r, n)
	case "code93":
		cs = c03Code93Cases(r, n)
	case "code128":
		cs = c03Code128Cases(r, n)
	case "codabar":
		cs = c03CodabarCases(r, n)
	}
	// a deterministic-length, seed-dependent selection: boundary cases come first in every generator
	out := []c03Case{}
	for i := 0; i < len(cs) && len(out) < n; i++ {
		if i < n/2 || r.Chance(0.5) {
			out = append(out, cs[i])
		}
	}
	return out
}

// the picture of a BitMatrix turned by the pose, as a NEW BitMatrix (so that the BitMatrix image view is what the
// luminance source reads, as in the model)
func imgpath1dPose(bm *gozxing.BitMatrix, pose string) *gozxing.BitMatrix {
	w, h := bm.GetWidth(), bm.GetHeight()
	switch pose {
	case "down":
		out, _ := gozxing.NewBitMatrix(w, h)
		for y := 0; y < h; y++ {
			for x := 0; x < w; x++ {
				if bm.Get(w-1-x, h-1-y) {
					out.Set(x, y)
				}
			}
		}
		return out
	case "side": // 90 degrees clockwise: new (x, y) = old (y, h-1-x)
		out, _ := gozxing.NewBitMatrix(h, w)
		for y := 0; y < w; y++ {
			for x := 0; x < h; x++ {
				if bm.Get(y, h-1-x) {
					out.Set(x, y)
				}
			}
		}
		return out
	}
	return bm
}

func imgpath1dBitmap(bm *gozxing.BitMatrix, binz string) *gozxing.BinaryBitmap {
	var bmp *gozxing.BinaryBitmap
	if binz == "hybrid" {
		bmp, _ = gozxing.NewBinaryBitmapFromImage(bm)
	} else {
		bmp, _ = gozxing.NewBinaryBitmap(gozxing.NewGlobalHistgramBinarizer(gozxing.NewLuminanceSourceFromImage(bm)))
	}
	return bmp
}

type imgpath1dOut struct {
	s      string // canonical line compared with the model
	ok     bool
	format string
	text   string
	orient string
}

func imgpath1dRead(rd gozxing.Reader, bmp *gozxing.BinaryBitmap, th bool) imgpath1dOut {
	return imgpath1dReadH(rd, bmp, th, nil)
}

// the multi-format UPC/EAN reader built from and called with POSSIBLE_FORMATS = fs (nil: no such hint)
func imgpath1dReadMulti(bmp *gozxing.BinaryBitmap, th bool, fs []gozxing.BarcodeFormat) imgpath1dOut {
	var base c10Hints
	if fs != nil {
		base = c10Hints{gozxing.DecodeHintType_POSSIBLE_FORMATS: fs}
	}
	return imgpath1dReadH(oned.NewMultiFormatUPCEANReader(base), bmp, th, base)
}

func imgpath1dReadH(rd gozxing.Reader, bmp *gozxing.BinaryBitmap, th bool, base c10Hints) imgpath1dOut {
	var o imgpath1dOut
	o.s = Safe(func() string {
		var hints c10Hints
		if th || base != nil {
			hints = c10Hints{}
			for k, v := range base {
				hints[k] = v
			}
			if th {
				hints[gozxing.DecodeHintType_TRY_HARDER] = true
			}
		}
		r, e := rd.Decode(bmp, hints)
		if e != nil {
			return "ERR:" + errKind(e)
		}
		orient := "none"
		rot, rev := 0, 0
		if v, ok := r.GetResultMetadata()[gozxing.ResultMetadataType_ORIENTATION]; ok {
			orient = fmt.Sprint(v)
			if orient == "270" || orient == "90" {
				rot = 1
			}
			if orient == "180" || orient == "90" {
				rev = 1
			}
		}
		row := -1
		if pts := r.GetResultPoints(); len(pts) > 0 {
			if rot == 1 {
				row = bmp.GetWidth() - 1 - int(pts[0].GetX())
			} else {
				row = int(pts[0].GetY())
			}
		}
		o.ok, o.format, o.text, o.orient = true, r.GetBarcodeFormat().String(), r.GetText(), orient
		return fmt.Sprintf("ok %s %s row=%d rev=%d rot=%d orient=%s", o.format, hexs([]byte(r.GetText())), row, rev, rot, orient)
	})
	return o
}

func imgpath1dB(b bool) string {
	if b {
		return "1"
	}
	return "0"
}

// "/"-separated rows, runs of equal rows as N*bits
func imgpath1dRows(rows [][]bool) string {
	var segs []string
	for i := 0; i < len(rows); {
		s := bitsStr(rows[i])
		j := i + 1
		for j < len(rows) && bitsStr(rows[j]) == s {
			j++
		}
		if j-i > 1 {
			segs = append(segs, fmt.Sprintf("%d*%s", j-i, s))
		} else {
			segs = append(segs, s)
		}
		i = j
	}
	return strings.Join(segs, "/")
}

func imgpath1dMatrix(rows [][]bool) *gozxing.BitMatrix {
	bm, _ := gozxing.NewBitMatrix(len(rows[0]), len(rows))
	for y, r := range rows {
		for x, b := range r {
			if b {
				bm.Set(x, y)
			}
		}
	}
	return bm
}

func imgpath1dRowsOf(bm *gozxing.BitMatrix) [][]bool {
	rows := make([][]bool, bm.GetHeight())
	for y := range rows {
		rows[y] = c03RowBits(bm, y)
	}
	return rows
}

func imgpath1dHash(rows [][]bool) uint64 {
	h := uint64(14695981039346656037)
	for _, row := range rows {
		for _, b := range row {
			v := uint64(0)
			if b {
				v = 1
			}
			h = (h ^ v) * 1099511628211
		}
		h = (h ^ 255) * 1099511628211
	}
	return h
}

func imgpath1dBlackRow(bmp *gozxing.BinaryBitmap, y int) string {
	return Safe(func() string {
		row, e := bmp.GetBlackRow(y, nil)
		if e != nil {
			return "ERR:" + errKind(e)
		}
		return "ok " + bitsStr(c03BoolRow(row)[:bmp.GetWidth()])
	})
}

type imgpath1dGeom struct {
	width, height, margin int // margin < 0: no hint
}

func imgpath1dSuite(c *Ctx, poses bool) {
	r := c.Rng.Fork()
	nPer := c.Pick(10, 120)
	for _, sym := range c03Syms() {
		need := imgpath1dNeed(sym.name)
		w := sym.writer()
		for ci, cs := range imgpath1dCases(r, sym, nPer) {
			mods, out := c10Write(w, sym.format, cs.content, c03Hints(cs, -1))
			if out != "ok" {
				continue
			}
			n := len(mods)
			natural := n + sym.margin
			forced := "-"
			if cs.forced != "" {
				forced = cs.forced
			}
			// geometries: margins at the theorem's boundary and one below, widths around multiples, small heights
			margins := []int{-1, need, need - 1, need + 1, 1, 0, 2, r.Range(need, 30)}
			widths := []int{0, natural, natural + 1, 2*natural - 1, 2 * natural, 3*natural + 7, r.Range(0, 4*natural)}
			heights := []int{0, 1, 2, 3, 5, 8, 33}
			ng := 5
			if c.Tier == "thorough" {
				ng = 14
			}
			for gi := 0; gi < ng; gi++ {
				g := imgpath1dGeom{widths[(ci+gi)%len(widths)], heights[(ci+2*gi)%len(heights)], margins[(ci+gi)%len(margins)]}
				if gi == 0 {
					g.margin = -1 // the default rendering always
				}
				if gi == 1 {
					g.margin = need
				}
				if gi == 2 {
					g.margin = need - 1
				}
				pose := "up"
				if poses || gi == ng-1 {
					pose = []string{"down", "side", "up", "down", "side"}[(ci+gi)%5]
				}
				if pose == "side" && g.height > 8 {
					g.height = 8
				}
				th := (ci+gi)%2 == 0 || pose == "side"
				if pose == "side" && gi%3 == 2 {
					th = false // sideways without TRY_HARDER: not found
				}
				binz := []string{"hybrid", "global"}[(ci+gi/2)%2]
				var bm *gozxing.BitMatrix
				eo := Safe(func() string {
					var e error
					bm, e = w.Encode(cs.content, sym.format, g.width, g.height, c03Hints(cs, g.margin))
					if e != nil {
						return "ERR:" + errKind(e)
					}
					return "ok"
				})
				ms := "-"
				m := sym.margin
				if g.margin >= 0 {
					ms = fmt.Sprint(g.margin)
					m = g.margin
				}
				args := fmt.Sprintf("%s %s %d %d %s %s", sym.name, imgpath1dContents(sym, cs), g.width, g.height, ms, forced)
				if eo != "ok" {
					c.Cmp("img1d-path", fmt.Sprintf("img1d pic %s %s", args, pose), eo)
					continue
				}
				pm := imgpath1dPose(bm, pose)
				rows := imgpath1dRowsOf(pm)
				c.Cmp("img1d-path", fmt.Sprintf("img1d pic %s %s", args, pose),
					fmt.Sprintf("ok %dx%d h=%d", pm.GetWidth(), pm.GetHeight(), imgpath1dHash(rows)))
				bmp := imgpath1dBitmap(pm, binz)
				o := imgpath1dRead(sym.reader(cs), bmp, th)
				c.Cmp("img1d-path", fmt.Sprintf("img1d path %s %s %s %s %s", args, pose, binz, imgpath1dB(cs.extended), imgpath1dB(th)), o.s)
				c.Note(fmt.Sprintf("img1d:%s:%s:m%+d:%s", sym.name, pose, m-need, o.s[:c10Min(len(o.s), 6)]))
				// the multi-format UPC/EAN reader: POSSIBLE_FORMATS = own format / all four / no hint
				if c03IsUPC(sym.name) {
					all4 := []gozxing.BarcodeFormat{gozxing.BarcodeFormat_UPC_A, gozxing.BarcodeFormat_EAN_13, gozxing.BarcodeFormat_UPC_E, gozxing.BarcodeFormat_EAN_8}
					for mi, fs := range [][]gozxing.BarcodeFormat{{sym.format}, nil, all4} {
						if (ci+gi+mi)%2 == 1 && mi == 2 {
							continue
						}
						fstr := "-"
						if fs != nil {
							var names []string
							for _, f := range fs {
								names = append(names, f.String())
							}
							fstr = strings.Join(names, ",")
						}
						om := imgpath1dReadMulti(imgpath1dBitmap(pm, binz), th, fs)
						c.Cmp("img1d-path", fmt.Sprintf("img1d pathm %s %s %d %d %s %s %s %s %s", sym.name, imgpath1dContents(sym, cs),
							g.width, g.height, ms, pose, binz, fstr, imgpath1dB(th)), om.s)
						if m >= need && pose == "up" && mi < 2 {
							wf, wt := sym.format.String(), cs.want
							if mi == 1 && sym.name == "upca" { // no hint: reported as EAN-13 "0"+text (the repo's own tests pin this)
								wf, wt = "EAN_13", "0"+cs.want
							}
							if mi == 0 || sym.name == "ean13" || sym.name == "upca" {
								c.Oracle("img1d-oracle", om.ok && om.text == wt && om.format == wf && om.orient == "none",
									sym.name+"-img1d-multi", fmt.Sprintf("%s width=%d height=%d margin=%s binarizer=%s POSSIBLE_FORMATS=%s", args, g.width, g.height, ms, binz, fstr),
									"multi-format reader: "+om.s+" expected "+wf+" "+hexs([]byte(wt)))
							}
						}
					}
				}
				// a single black row of the posed picture and of the rotated bitmap
				y := r.Intn(pm.GetHeight())
				if pm.GetWidth()*pm.GetHeight() <= 6000 {
					c.Cmp("img1d-brow", fmt.Sprintf("img1d brow %s %d %d %s %d", binz, pm.GetWidth(), pm.GetHeight(), imgpath1dRows(rows), y),
						imgpath1dBlackRow(bmp, y))
					if rb, e := bmp.RotateCounterClockwise(); e == nil && gi%2 == 0 {
						yy := r.Intn(rb.GetHeight())
						c.Cmp("img1d-brow", fmt.Sprintf("img1d rotrow %s %d %d %s %d", binz, pm.GetWidth(), pm.GetHeight(), imgpath1dRows(rows), yy),
							fmt.Sprintf("%dx%d %s", rb.GetWidth(), rb.GetHeight(), imgpath1dBlackRow(rb, yy)))
					}
				}
				// ---- oracle: what the theorems (and the property) state, on the real code ----
				in := fmt.Sprintf("%s width=%d height=%d margin=%s pose=%s binarizer=%s tryharder=%v", args, g.width, g.height, ms, pose, binz, th)
				if m >= need {
					wantText := o.ok && o.text == cs.want && o.format == sym.format.String()
					switch pose {
					case "up":
						key := sym.name + "-img1d-upright"
						c.Oracle("img1d-oracle", wantText && o.orient == "none", key, in,
							"reader: "+o.s+" expected "+sym.format.String()+" "+hexs([]byte(cs.want))+" without orientation")
					case "down":
						if sym.name == "code128" || sym.name == "code39" || sym.name == "code93" {
							c.Oracle("img1d-oracle", wantText && o.orient == "180", sym.name+"-img1d-upside-down", in,
								"reader: "+o.s+" expected "+hexs([]byte(cs.want))+" with ORIENTATION 180")
						}
					case "side":
						if th {
							c.Oracle("img1d-oracle", wantText && o.orient == "270", sym.name+"-img1d-sideways", in,
								"reader: "+o.s+" expected "+hexs([]byte(cs.want))+" with ORIENTATION 270")
						}
					}
				}
				// ---- malformed stream derived from this picture ----
				if gi == 0 || gi == 3 {
					imgpath1dMalformed(c, r, sym, cs, rows, binz, th)
				}
			}
		}
	}
	c.Flush()
}

// damaged / unusual pictures: the model must agree with the real reader on every one (no oracle: nothing is promised)
func imgpath1dMalformed(c *Ctx, r *Rng, sym c03Sym, cs c03Case, rows [][]bool, binz string, th bool) {
	h, w := len(rows), len(rows[0])
	if w > 700 {
		return
	}
	cp := func(hh int) [][]bool {
		out := make([][]bool, hh)
		for y := range out {
			out[y] = append([]bool(nil), rows[y%h]...)
		}
		return out
	}
	blank := func(row []bool, v bool) {
		for x := range row {
			row[x] = v
		}
	}
	var pics [][][]bool
	var tags []string
	add := func(tag string, p [][]bool) { pics = append(pics, p); tags = append(tags, tag) }
	hh := r.Range(1, 9)
	// the middle row (and some neighbours) blank or black: the scan has to move outward
	p := cp(hh)
	blank(p[hh/2], false)
	if hh > 2 && r.Bool() {
		blank(p[hh/2-1], r.Bool())
	}
	add("middle-blank", p)
	// only one row carries the symbol
	p = cp(hh)
	keep := r.Intn(hh)
	for y := range p {
		if y != keep {
			blank(p[y], r.Chance(0.2))
		}
	}
	add("one-row", p)
	// black first / last column: the binariser clears border pixels
	p = cp(hh)
	for y := range p {
		p[y][0] = true
		if r.Bool() {
			p[y][w-1] = true
		}
	}
	add("black-border", p)
	// inverted colours
	p = cp(hh)
	for y := range p {
		for x := range p[y] {
			p[y][x] = !p[y][x]
		}
	}
	add("inverted", p)
	// noise on the middle row
	p = cp(hh)
	for k := 0; k < 1+r.Intn(4); k++ {
		x := r.Intn(w)
		p[hh/2][x] = !p[hh/2][x]
	}
	add("noise", p)
	// cropped on the left or right (symbol cut)
	if w >= 3 {
		cut := r.Range(1, c10Max(1, w/3))
		p = cp(hh)
		left := r.Bool()
		for y := range p {
			if left {
				p[y] = p[y][cut:]
			} else {
				p[y] = p[y][:w-cut]
			}
		}
		add("cropped", p)
	}
	// tiny pictures
	tw := r.Range(1, 4)
	p = make([][]bool, r.Range(1, 3))
	for y := range p {
		p[y] = make([]bool, tw)
		for x := range p[y] {
			p[y][x] = r.Bool()
		}
	}
	add("tiny", p)
	for i, pic := range pics {
		bm := imgpath1dMatrix(pic)
		bmp := imgpath1dBitmap(bm, binz)
		o := imgpath1dRead(sym.reader(cs), bmp, th)
		c.Cmp("img1d-scan", fmt.Sprintf("img1d scan %s %s %s %s %d %d %s", sym.name, imgpath1dB(cs.extended), binz, imgpath1dB(th),
			len(pic[0]), len(pic), imgpath1dRows(pic)), o.s)
		c.Note("img1d-malformed:" + tags[i] + ":" + o.s[:c10Min(len(o.s), 6)])
		y := r.Intn(len(pic))
		c.Cmp("img1d-brow", fmt.Sprintf("img1d brow %s %d %d %s %d", binz, len(pic[0]), len(pic), imgpath1dRows(pic), y), imgpath1dBlackRow(bmp, y))
	}
}
